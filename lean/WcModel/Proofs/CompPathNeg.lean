import WcModel.Proofs.CompPathGlob
/-
  `!(…)` inside a path segment (S2).

  `compSeg` compiles a top-level `!(body)tail` of a segment as

      (?:(?!(?:BODY)TAIL(?:$|[/]))NEGSTAR)TAIL

  The look-ahead sees to the END OF THE PIECE (`_PATH_EOP` = `(?:$|[/])`), so its meaning is
  only the documented one for a match that itself ends at a piece boundary (`AtSep y.rest`) —
  exactly as the fnmatch-mode `$` of `Comp.lean` is only right for a match that ends at the end
  of the subject.

  (a) one segment:   `compSeg_scope_sem`, `M_segThen_iffN`
  (b) whole paths:   `pathRe_semN`, `compPath_glob_semN`, `compPath_globfree_semN`
-/
namespace WcModel

/-! ### the fragments of a negated group in path mode -/

/-- `_PATH_EOP` = `(?:$|[/])` -/
theorem M_pathEop_iff (md : Mode) (e e' : St) :
    Re.M md (Frag.pathEop false) e e' ↔
      ((e' = e ∧ atEos e.rest = true) ∨ consume1 (fun d => d == '/') e e') := by
  simp only [Frag.pathEop, Re.M.eq_7, Re.M.eq_6, Re.M.eq_17, M_sep]

/-- at a piece boundary `_PATH_EOP` succeeds -/
theorem pathEop_of_atSep (md : Mode) (y : St) (hy : AtSep y.rest) : ∃ e, Re.M md (Frag.pathEop false) y e := by
  rcases hy with h | ⟨r', h⟩
  · exact ⟨y, (M_pathEop_iff md y y).mpr (Or.inl ⟨rfl, by simp [atEos, h]⟩)⟩
  · exact ⟨⟨false, r'⟩, (M_pathEop_iff md y _).mpr (Or.inr ⟨'/', r', h, rfl, rfl⟩)⟩

/-- where `_PATH_EOP` succeeds is a piece boundary — unless `$` accepted before a final newline (D3p) -/
theorem atSep_of_pathEop (md : Mode) {a e e' : St} (h : Re.M md (Frag.pathEop false) e e')
    (hsuf : St.Suf e a) (hnl : a.rest.getLast? ≠ some '\n') : AtSep e.rest := by
  rcases (M_pathEop_iff md e e').mp h with ⟨_, h⟩ | ⟨d, s, e1, hd, _⟩
  · exact Or.inl (eos_empty_of_suf hsuf hnl h)
  · simp only [beq_iff_eq] at hd; subst hd
    exact Or.inr ⟨s, e1⟩

theorem pNegStar_true_false (dot : Bool) : pNegStar dot true false = pStar dot true := by
  cases dot <;> rfl

/-- the star of a negated group: what it lets through -/
theorem M_pNegStar_sound (md : Mode) (dot as mdd : Bool) (a c : St) (h : Re.M md (pNegStar dot as mdd) a c) :
    Iter (consume1 notSlash) a c ∧ (as = true → ∃ d s, a.rest = d :: s ∧ d ≠ '/') := by
  cases as with
  | false =>
    simp only [pNegStar, Bool.not_false, Bool.true_or, ite_true, Bool.false_eq_true, ite_false] at h
    exact ⟨(pathStar_sem md a c).mp h, fun h => absurd h (by simp)⟩
  | true =>
    cases mdd with
    | true =>
      simp only [pNegStar, Bool.not_true, Bool.false_or, ite_true, Re.M.eq_5] at h
      obtain ⟨m, h1, h2⟩ := h
      obtain ⟨rfl, hne⟩ := (M_needCharPath md a m).mp h1
      exact ⟨(pathStar_sem md _ _).mp h2, fun _ => hne⟩
    | false =>
      rw [pNegStar_true_false] at h
      refine ⟨M_pStar_sound md dot true a c h, fun _ => ?_⟩
      simp only [pStar, ite_true, Re.M.eq_5] at h
      obtain ⟨m, h1, _⟩ := h
      exact ((M_needCharPath md a m).mp h1).2

/-- … and, at the start of a visible piece (or away from the start), it is `[^/]*?` -/
theorem M_pNegStar {md : Mode} (dot as mdd : Bool) (a c : St) (hok : as = true → PStart dot md a) :
    Re.M md (pNegStar dot as mdd) a c ↔ Iter (consume1 notSlash) a c := by
  constructor
  · exact fun h => (M_pNegStar_sound md dot as mdd a c h).1
  · intro h
    cases as with
    | false =>
      simp only [pNegStar, Bool.not_false, Bool.true_or, ite_true, Bool.false_eq_true, ite_false]
      exact (pathStar_sem md a c).mpr h
    | true =>
      have hps := hok rfl
      cases mdd with
      | true =>
        simp only [pNegStar, Bool.not_true, Bool.false_or, ite_true, Re.M.eq_5]
        exact ⟨a, (M_needCharPath md a a).mpr ⟨rfl, hps.ne⟩, (pathStar_sem md _ _).mpr h⟩
      | false =>
        rw [pNegStar_true_false]
        exact (M_pStar_true hps c).mpr h

/-! ### the regex shape of a negated group, against "text not in the body, then the tail" -/

theorem iter_notSlash_any {a c : St} (h : Iter (consume1 notSlash) a c) : Iter (consume1 (fun _ => true)) a c :=
  Iter.mono (fun x y hxy => by obtain ⟨d, s, e1, _, e3⟩ := hxy; exact ⟨d, s, e1, rfl, e3⟩) h

/-- two piece boundaries reached from the same state over separator-free text coincide -/
theorem atSep_unique {a y e : St} (h1 : NoSl a y) (h2 : NoSl a e) (a1 : AtSep y.rest) (a2 : AtSep e.rest) :
    e.rest = y.rest := by
  obtain ⟨p1, e1, n1⟩ := h1
  obtain ⟨p2, e2, n2⟩ := h2
  exact (piece_unique n2 n1 a2 a1 (by rw [← e2, ← e1])).2

/-- the shape `(?:(?!(?:B)T(?:$|[/]))NS)T`, for a match that ends at a piece boundary -/
theorem neg_core_path {md : Mode} {B T NS : Re} {LB LT : St → St → Prop} {n : Nat} {a y : St}
    (hB : ∀ c, Re.M md B a c ↔ (LB a c ∧ NoSl a c))
    (hT : ∀ c z, Re.M md T c z ↔ (LT c z ∧ NoSl c z))
    (hNS : ∀ c, Re.M md NS a c ↔ Iter (consume1 notSlash) a c)
    (hLBs : ∀ c, LB a c → St.Suf c a)
    (hLTs : ∀ c z, LT c z → St.Suf z c)
    (hLTn : ∀ c z, LT c z → c.rest.length = z.rest.length + n)
    (hy : AtSep y.rest) (hnl : a.rest.getLast? ≠ some '\n') :
    Re.M md (.cat (.grp (.cat (.look true (.cat (.grp B) (.cat T (Frag.pathEop false)))) NS)) T) a y ↔
      ((∃ c, (Iter (consume1 (fun _ => true)) a c ∧ ¬ LB a c) ∧ LT c y) ∧ NoSl a y) := by
  simp only [Re.M.eq_5, Re.M.eq_7, Re.M.eq_15]
  constructor
  · rintro ⟨c, ⟨m, ⟨rfl, hno⟩, hns⟩, ht⟩
    have hns' := (hNS c).mp hns
    have ht' := (hT c y).mp ht
    refine ⟨⟨c, ⟨iter_notSlash_any hns', fun hb => hno ?_⟩, ht'.1⟩, (iter_notSlash_noSl hns').trans ht'.2⟩
    obtain ⟨e, he⟩ := pathEop_of_atSep md y hy
    exact ⟨e, c, (hB c).mpr ⟨hb, iter_notSlash_noSl hns'⟩, y, ht, he⟩
  · rintro ⟨⟨c, ⟨hit, hnb⟩, hlt⟩, hns⟩
    have hca : St.Suf c a := Iter.suf (fun _ _ h => consume1_suf h) hit
    obtain ⟨n1, n2⟩ := NoSl.split hca (hLTs _ _ hlt) hns
    refine ⟨c, ⟨a, ⟨rfl, ?_⟩, (hNS c).mpr (iter_any_noSl hit n1)⟩, (hT c y).mpr ⟨hlt, n2⟩⟩
    rintro ⟨e, c', hb, e', ht, heop⟩
    have hb' := (hB c').mp hb
    have ht' := (hT c' e').mp ht
    have hsuf : St.Suf e' a := (hLTs _ _ ht'.1).trans (hLBs _ hb'.1)
    have hsep : AtSep e'.rest := atSep_of_pathEop md heop hsuf hnl
    have he : e'.rest = y.rest := atSep_unique hns (hb'.2.trans ht'.2) hy hsep
    have h1 := hLTn _ _ ht'.1
    have h2 := hLTn _ _ hlt
    have hc : c' = c := by
      apply St.Suf.eq_of_len (hLBs _ hb'.1) hca
      rw [h1, h2, he]
    exact hnb (hc ▸ hb'.1)

/-- the shape `(?:(?!(?:B)(?:$|[/]))NS)` (a negated group standing last in its segment) -/
theorem neg_core0_path {md : Mode} {B NS : Re} {LB : St → St → Prop} {a y : St}
    (hB : ∀ c, Re.M md B a c ↔ (LB a c ∧ NoSl a c))
    (hNS : ∀ c, Re.M md NS a c ↔ Iter (consume1 notSlash) a c)
    (hLBs : ∀ c, LB a c → St.Suf c a)
    (hy : AtSep y.rest) (hnl : a.rest.getLast? ≠ some '\n') :
    Re.M md (.grp (.cat (.look true (.cat (.grp B) (Frag.pathEop false))) NS)) a y ↔
      ((Iter (consume1 (fun _ => true)) a y ∧ ¬ LB a y) ∧ NoSl a y) := by
  simp only [Re.M.eq_5, Re.M.eq_7, Re.M.eq_15]
  constructor
  · rintro ⟨m, ⟨rfl, hno⟩, hns⟩
    have hns' := (hNS y).mp hns
    refine ⟨⟨iter_notSlash_any hns', fun hb => hno ?_⟩, iter_notSlash_noSl hns'⟩
    obtain ⟨e, he⟩ := pathEop_of_atSep md y hy
    exact ⟨e, y, (hB y).mpr ⟨hb, iter_notSlash_noSl hns'⟩, he⟩
  · rintro ⟨⟨hit, hnb⟩, hns⟩
    have hya : St.Suf y a := Iter.suf (fun _ _ h => consume1_suf h) hit
    refine ⟨a, ⟨rfl, ?_⟩, (hNS y).mpr (iter_any_noSl hit hns)⟩
    rintro ⟨e, c', hb, heop⟩
    have hb' := (hB c').mp hb
    have hsep : AtSep c'.rest := atSep_of_pathEop md heop (hLBs _ hb'.1) hnl
    have he : c'.rest = y.rest := atSep_unique hns hb'.2 hy hsep
    have hc : c' = y := St.Suf.eq_of_len (hLBs _ hb'.1) hya (by rw [he])
    exact hnb (hc ▸ hb'.1)

/-! ### the shape of the scope C01 states -/

theorem c01Scope_seq_cases (p q : Pat) (h : (Pat.seq p q).c01Scope = true) :
    (p.negFree = true ∧ q.c01Scope = true) ∨
      (∃ body, p = .ext .neg body ∧ body.negFree = true ∧ q.litOnly = true) := by
  cases p with
  | ext k b =>
    cases k with
    | neg =>
      right
      simp only [Pat.c01Scope, Bool.and_eq_true] at h
      exact ⟨b, rfl, h.1, h.2⟩
    | _ => left; simpa [Pat.c01Scope, Pat.negFree] using h
  | _ => left; simpa [Pat.c01Scope, Pat.negFree] using h

theorem c01Scope_of_negFree (g : Pat) (h : g.negFree = true) : g.c01Scope = true := by
  induction g with
  | seq p q _ ihq =>
    simp only [Pat.negFree, Bool.and_eq_true] at h
    cases p with
    | ext k b =>
      cases k with
      | neg => simp [Pat.negFree] at h
      | _ => simp [Pat.c01Scope, h.1, ihq h.2]
    | _ => simp_all [Pat.c01Scope]
  | ext k b _ =>
    cases k with
    | neg => simp [Pat.negFree] at h
    | _ => simpa [Pat.c01Scope] using h
  | _ => simpa [Pat.c01Scope] using h

/-- a negation-free body, compiled at `as` -/
theorem compSeg_body_sem (dot ci as : Bool) (body : Pat) (hn : body.negFree = true) (hs : body.noSlash = true)
    (a : St) (hok : as = true → PStart dot ⟨true, ci⟩ a ∧ body.startSafe false = true) :
    ∀ c, Re.M ⟨true, ci⟩ (compSeg dot as body) a c ↔ (Pat.L ci body a c ∧ NoSl a c) := by
  intro c
  cases as with
  | false => exact compSeg_false_sem dot ci body hn hs a c
  | true => exact compSeg_start_sem dot ci body hn hs (hok rfl).2 a c (hok rfl).1

/-! ### (a) one segment in the C01 scope -/

/-- **one segment in the scope C01 states for `!(…)`** (one top-level `!(body)` with a
    negation-free body, followed only by literal text), in path mode: for a match that ends at a
    piece boundary, the compiled segment consumes exactly a separator-free text in the documented
    language.  Hypotheses: at a segment start the piece may be matched by wildcards (`PStart`) and
    D1p cannot bite (`startSafe false`); if the pattern does contain a negation, the subject does
    not end in a newline (D3p: the `$` of `_PATH_EOP`). -/
theorem compSeg_scope_sem (dot ci : Bool) (g : Pat) (hsc : g.c01Scope = true) (hs : g.noSlash = true) :
    ∀ (as : Bool) (a y : St), (as = true → PStart dot ⟨true, ci⟩ a ∧ g.startSafe false = true) →
      AtSep y.rest → (g.negFree = true ∨ a.rest.getLast? ≠ some '\n') →
      (Re.M ⟨true, ci⟩ (compSeg dot as g) a y ↔ (Pat.L ci g a y ∧ NoSl a y)) := by
  induction g with
  | seq p q ihp ihq =>
    intro as a y hok hy hnl
    simp only [Pat.noSlash, Bool.and_eq_true] at hs
    rcases c01Scope_seq_cases p q hsc with ⟨hpn, hq⟩ | ⟨body, rfl, hbn, hql⟩
    · -- the head is negation free: split the sequence
      rw [compSeg_seq _ _ _ _ hpn]
      simp only [Re.M.eq_5, Pat.L]
      have hp : ∀ c, Re.M ⟨true, ci⟩ (compSeg dot as p) a c ↔ (Pat.L ci p a c ∧ NoSl a c) :=
        compSeg_body_sem dot ci as p hpn hs.1 a (fun h => by
          have := hok h
          simp only [Pat.startSafe, Bool.and_eq_true] at this
          exact ⟨this.1, this.2.1⟩)
      have hqc : ∀ c, Pat.L ci p a c →
          (Re.M ⟨true, ci⟩ (compSeg dot (as && p.isEmpty) q) c y ↔ (Pat.L ci q c y ∧ NoSl c y)) := by
        intro c hc
        apply ihq hq hs.2 _ c y _ hy
        · rcases hnl with h | h
          · left; simp only [Pat.negFree, Bool.and_eq_true] at h; exact h.2
          · right; exact suf_getLast (Pat.L_suf ci p a c hc) h
        · intro h
          simp only [Bool.and_eq_true] at h
          have hca : c = a := (L_of_isEmpty ci p h.2 a c).mp hc
          have := hok h.1
          simp only [Pat.startSafe, Bool.and_eq_true, h.2, ite_true] at this
          exact ⟨hca ▸ this.1, this.2.2⟩
      constructor
      · rintro ⟨c, h1, h2⟩
        have hc := (hp c).mp h1
        have hc2 := (hqc c hc.1).mp h2
        exact ⟨⟨c, hc.1, hc2.1⟩, hc.2.trans hc2.2⟩
      · rintro ⟨⟨c, h1, h2⟩, hns⟩
        obtain ⟨n1, n2⟩ := NoSl.split (Pat.L_suf ci p _ _ h1) (Pat.L_suf ci q _ _ h2) hns
        exact ⟨c, (hp c).mpr ⟨h1, n1⟩, (hqc c h1).mpr ⟨h2, n2⟩⟩
    · -- the head is `!(body)`, the rest is literal text
      simp only [Pat.noSlash] at hs
      have hnl' : a.rest.getLast? ≠ some '\n' := by
        rcases hnl with h | h
        · simp [Pat.negFree] at h
        · exact h
      have hrn := litOnly_negFree q hql
      have key := neg_core_path (md := ⟨true, ci⟩) (B := compSeg dot as body)
        (T := compSeg dot false q) (NS := pNegStar dot as (dot && body.dotAtStart)) (LB := Pat.L ci body)
        (LT := Pat.L ci q) (n := q.litLen) (a := a) (y := y)
        (compSeg_body_sem dot ci as body hbn hs.1 a (fun h => by
          have := hok h
          simp only [Pat.startSafe, Bool.and_eq_true] at this
          exact ⟨this.1, this.2.1⟩))
        (compSeg_false_sem dot ci q hrn hs.2)
        (fun c => M_pNegStar dot as _ a c (fun h => (hok h).1))
        (fun c h => Pat.L_suf ci body a c h)
        (fun c z h => Pat.L_suf ci q c z h)
        (L_litOnly_len ci q hql) hy hnl'
      have hc : compSeg dot as (.seq (.ext .neg body) q) =
          .cat (.grp (.cat (.look true (.cat (.grp (compSeg dot as body))
            (.cat (compSeg dot false q) (Frag.pathEop false)))) (pNegStar dot as (dot && body.dotAtStart))))
            (compSeg dot false q) := rfl
      rw [hc, key]
      simp only [Pat.L]
  | ext k body ih =>
    intro as a y hok hy hnl
    cases k with
    | neg =>
      simp only [Pat.c01Scope] at hsc
      have hs' : body.noSlash = true := by simpa [Pat.noSlash] using hs
      have hnl' : a.rest.getLast? ≠ some '\n' := by
        rcases hnl with h | h
        · simp [Pat.negFree] at h
        · exact h
      have key := neg_core0_path (md := ⟨true, ci⟩) (B := compSeg dot as body)
        (NS := pNegStar dot as (dot && body.dotAtStart)) (LB := Pat.L ci body) (a := a) (y := y)
        (compSeg_body_sem dot ci as body hsc hs' a (fun h => by
          have := hok h
          simp only [Pat.startSafe] at this
          exact this))
        (fun c => M_pNegStar dot as _ a c (fun h => (hok h).1))
        (fun c h => Pat.L_suf ci body a c h) hy hnl'
      have hc : compSeg dot as (.ext .neg body) =
          .grp (.cat (.look true (.cat (.grp (compSeg dot as body)) (Frag.pathEop false)))
            (pNegStar dot as (dot && body.dotAtStart))) := rfl
      rw [hc, key]
      simp only [Pat.L]
    | _ =>
      exact compSeg_body_sem dot ci as _ (by simpa [Pat.c01Scope] using hsc) hs a hok y
  | _ =>
    intro as a y hok hy hnl
    exact compSeg_body_sem dot ci as _ (by simpa [Pat.c01Scope] using hsc) hs a hok y


/-! ### a segment in scope cannot succeed on an empty piece; no PStart needed for this half -/

/-- `Pat.solid`, extended to the scope with a negated group: a `!(…)` at the segment start carries
    `(?=[^/])` on its star; elsewhere it can match the empty text -/
def Pat.solidN : Bool → Pat → Bool
  | as, .ext .neg _ => as
  | as, .seq p q => p.solidN as || q.solidN (as && p.isEmpty)
  | as, p => p.solid as

theorem solidN_of_negFree (g : Pat) (h : g.negFree = true) : ∀ as, g.solidN as = g.solid as := by
  induction g with
  | seq p q ihp ihq =>
    intro as
    simp only [Pat.negFree, Bool.and_eq_true] at h
    simp only [Pat.solidN, Pat.solid, ihp h.1, ihq h.2]
  | ext k b _ =>
    intro as
    cases k with
    | neg => simp [Pat.negFree] at h
    | _ => rfl
  | _ => intro as; rfl

/-- the scope of the path theorems for one segment pattern, with `!(…)`: the scope C01 states
    (one top-level `!(body)`, negation-free body, followed only by literals), no `/`, D1p-safe,
    cannot match an empty piece -/
def Pat.segScopeN (g : Pat) : Bool :=
  g.c01Scope && g.noSlash && g.startSafe false && g.solidN true

theorem segScopeN_iff (g : Pat) : g.segScopeN = true ↔
    (g.c01Scope = true ∧ g.noSlash = true ∧ g.startSafe false = true ∧ g.solidN true = true) := by
  simp [Pat.segScopeN, and_assoc]

/-- the old scope is included -/
theorem segScopeN_of_segScope (g : Pat) (h : g.segScope = true) : g.segScopeN = true := by
  obtain ⟨hn, hs, hst, hsol⟩ := (segScope_iff g).mp h
  exact (segScopeN_iff g).mpr ⟨c01Scope_of_negFree g hn, hs, hst, by rw [solidN_of_negFree g hn]; exact hsol⟩

theorem solid_combine {a m c : St} (s1 : St.Suf m a) (s2 : St.Suf c m) {P1 P2 : Prop}
    (h1 : P1 → m.rest.length < a.rest.length ∨ (m = a ∧ ¬ AtSep a.rest))
    (h2 : P2 → c.rest.length < m.rest.length ∨ (c = m ∧ ¬ AtSep m.rest)) :
    (P1 ∨ P2) → c.rest.length < a.rest.length ∨ (c = a ∧ ¬ AtSep a.rest) := by
  have l1 := s1.len
  have l2 := s2.len
  rintro (hp | hp)
  · rcases h1 hp with hlt | ⟨rfl, hna⟩
    · left; omega
    · rcases suf_eq_or_lt s2 with rfl | hlt
      · exact Or.inr ⟨rfl, hna⟩
      · exact Or.inl hlt
  · rcases h2 hp with hlt | ⟨rfl, hna⟩
    · left; omega
    · rcases suf_eq_or_lt s1 with rfl | hlt
      · exact Or.inr ⟨rfl, hna⟩
      · exact Or.inl hlt

theorem negStar_weak (md : Mode) (dot as mdd : Bool) (a c : St) (h : Re.M md (pNegStar dot as mdd) a c) :
    NoSl a c ∧ St.Suf c a ∧ (as = true → c.rest.length < a.rest.length ∨ (c = a ∧ ¬ AtSep a.rest)) := by
  obtain ⟨hit, hne⟩ := M_pNegStar_sound md dot as mdd a c h
  have hsuf : St.Suf c a := Iter.suf (fun _ _ h => consume1_suf h) hit
  refine ⟨iter_notSlash_noSl hit, hsuf, fun has => ?_⟩
  obtain ⟨d, s, e, hd⟩ := hne has
  rcases suf_eq_or_lt hsuf with rfl | hlt
  · right
    refine ⟨rfl, ?_⟩
    rintro (h0 | ⟨r', h0⟩)
    · simp [h0] at e
    · rw [h0] at e; simp at e; exact hd e.1.symm
  · exact Or.inl hlt

theorem negFree_weak (dot ci : Bool) (g : Pat) (hn : g.negFree = true) (hs : g.noSlash = true)
    (as : Bool) (a c : St) (h : Re.M ⟨true, ci⟩ (compSeg dot as g) a c) :
    NoSl a c ∧ St.Suf c a ∧
      (g.solidN as = true → c.rest.length < a.rest.length ∨ (c = a ∧ ¬ AtSep a.rest)) := by
  obtain ⟨l, n⟩ := compSeg_sound dot ci g hn hs as a c h
  refine ⟨n, Pat.L_suf ci g a c l, fun hsol => ?_⟩
  rw [solidN_of_negFree g hn] at hsol
  exact compSeg_solid dot ci g hn hs as hsol a c h

/-- **weak soundness** (no hypothesis on the subject): a compiled segment in scope consumes
    separator-free text, and — when solid — does not succeed on an empty piece -/
theorem compSeg_scope_weak (dot ci : Bool) (g : Pat) (hsc : g.c01Scope = true) (hs : g.noSlash = true) :
    ∀ as a c, Re.M ⟨true, ci⟩ (compSeg dot as g) a c →
      NoSl a c ∧ St.Suf c a ∧
        (g.solidN as = true → c.rest.length < a.rest.length ∨ (c = a ∧ ¬ AtSep a.rest)) := by
  induction g with
  | seq p q ihp ihq =>
    intro as a c h
    simp only [Pat.noSlash, Bool.and_eq_true] at hs
    rcases c01Scope_seq_cases p q hsc with ⟨hpn, hq⟩ | ⟨body, rfl, hbn, hql⟩
    · rw [compSeg_seq _ _ _ _ hpn, Re.M.eq_5] at h
      obtain ⟨m, h1, h2⟩ := h
      obtain ⟨n1, s1, sol1⟩ := negFree_weak dot ci p hpn hs.1 as a m h1
      obtain ⟨n2, s2, sol2⟩ := ihq hq hs.2 _ m c h2
      refine ⟨n1.trans n2, s2.trans s1, fun hsol => ?_⟩
      simp only [Pat.solidN, Bool.or_eq_true] at hsol
      exact solid_combine s1 s2 sol1 sol2 hsol
    · have hc : compSeg dot as (.seq (.ext .neg body) q) =
          .cat (.grp (.cat (.look true (.cat (.grp (compSeg dot as body))
            (.cat (compSeg dot false q) (Frag.pathEop false)))) (pNegStar dot as (dot && body.dotAtStart))))
            (compSeg dot false q) := rfl
      rw [hc] at h
      simp only [Re.M.eq_5, Re.M.eq_7, Re.M.eq_15] at h
      obtain ⟨m, ⟨x, ⟨rfl, _⟩, hns⟩, ht⟩ := h
      obtain ⟨n1, s1, sol1⟩ := negStar_weak _ dot as _ _ m hns
      obtain ⟨n2, s2, sol2⟩ := negFree_weak dot ci q (litOnly_negFree q hql) hs.2 false m c ht
      refine ⟨n1.trans n2, s2.trans s1, fun hsol => ?_⟩
      simp only [Pat.solidN, Pat.isEmpty, Bool.and_false, Bool.or_eq_true] at hsol
      exact solid_combine s1 s2 sol1 sol2 hsol
  | ext k body ih =>
    intro as a c h
    cases k with
    | neg =>
      have hc : compSeg dot as (.ext .neg body) =
          .grp (.cat (.look true (.cat (.grp (compSeg dot as body)) (Frag.pathEop false)))
            (pNegStar dot as (dot && body.dotAtStart))) := rfl
      rw [hc] at h
      simp only [Re.M.eq_5, Re.M.eq_7, Re.M.eq_15] at h
      obtain ⟨x, ⟨rfl, _⟩, hns⟩ := h
      simpa [Pat.solidN] using negStar_weak _ dot as _ _ c hns
    | _ => exact negFree_weak dot ci _ (by simpa [Pat.c01Scope] using hsc) hs as a c h
  | _ =>
    intro as a c h
    exact negFree_weak dot ci _ (by simpa [Pat.c01Scope] using hsc) hs as a c h

/-! ### the documented language of a pattern in scope does not look beyond the text it consumes -/

/-- appending / removing unread text does not change what the pattern can consume -/
def FrameOK (ci : Bool) (g : Pat) : Prop :=
  ∀ r : List Char,
    (∀ a' b', Pat.L ci g a' b' → ∀ a, a.rest = a'.rest ++ r → ∃ b, b.rest = b'.rest ++ r ∧ Pat.L ci g a b) ∧
    (∀ a b, Pat.L ci g a b → ∀ a' q, a.rest = a'.rest ++ r → b.rest = q ++ r →
      ∃ b', b'.rest = q ∧ Pat.L ci g a' b')

theorem frameOK_of_negFree (ci : Bool) (g : Pat) (hn : g.negFree = true) : FrameOK ci g :=
  fun r => ⟨L_frame ci g hn r, L_unframe ci g hn r⟩

theorem frameOK_neg (ci : Bool) (body : Pat) (h : FrameOK ci body) : FrameOK ci (.ext .neg body) := by
  intro r
  constructor
  · intro a' b' hl a e
    obtain ⟨hit, hnb⟩ := hl
    obtain ⟨b, eb, hb⟩ := Iter.frame (fun x' y' hxy x ex => consume1_frame hxy x r ex) hit a e
    refine ⟨b, eb, hb, fun hlb => ?_⟩
    obtain ⟨b'', eb'', hb''⟩ := (h r).2 a b hlb a' b'.rest e eb
    have : b'' = b' :=
      St.Suf.eq_of_len (Pat.L_suf ci body _ _ hb'') (Iter.suf (fun _ _ h => consume1_suf h) hit) (by rw [eb''])
    exact hnb (this ▸ hb'')
  · intro a b hl a' q e eb
    obtain ⟨hit, hnb⟩ := hl
    obtain ⟨b', eb', hb'⟩ := Iter.unframe (fun _ _ hxy => consume1_suf hxy)
      (fun x y hxy x' q' ex ey => consume1_unframe hxy x' r q' ex ey) hit a' q e eb
    refine ⟨b', eb', hb', fun hlb => ?_⟩
    obtain ⟨b2, eb2, hb2⟩ := (h r).1 a' b' hlb a e
    have : b2 = b :=
      St.Suf.eq_of_len (Pat.L_suf ci body _ _ hb2) (Iter.suf (fun _ _ h => consume1_suf h) hit)
        (by rw [eb2, eb', eb])
    exact hnb (this ▸ hb2)

theorem frameOK_seq (ci : Bool) (p q : Pat) (hp : FrameOK ci p) (hq : FrameOK ci q) : FrameOK ci (.seq p q) := by
  intro r
  constructor
  · intro a' b' hl a e
    obtain ⟨c', l1, l2⟩ := hl
    obtain ⟨c, ec, hc⟩ := (hp r).1 _ _ l1 a e
    obtain ⟨b, eb, hb⟩ := (hq r).1 _ _ l2 c ec
    exact ⟨b, eb, c, hc, hb⟩
  · intro a b hl a' x e eb
    obtain ⟨c, l1, l2⟩ := hl
    obtain ⟨qc, ec⟩ := suf_unframe (Pat.L_suf ci q _ _ l2) eb
    obtain ⟨c', ec', hc'⟩ := (hp r).2 _ _ l1 a' qc e ec
    obtain ⟨b', eb', hb'⟩ := (hq r).2 _ _ l2 c' x (by rw [ec, ec']) eb
    exact ⟨b', eb', c', hc', hb'⟩

theorem frameOK_scope (ci : Bool) (g : Pat) (hsc : g.c01Scope = true) : FrameOK ci g := by
  induction g with
  | seq p q _ ihq =>
    rcases c01Scope_seq_cases p q hsc with ⟨hpn, hq⟩ | ⟨body, rfl, hbn, hql⟩
    · exact frameOK_seq ci p q (frameOK_of_negFree ci p hpn) (ihq hq)
    · exact frameOK_seq ci _ q (frameOK_neg ci body (frameOK_of_negFree ci body hbn))
        (frameOK_of_negFree ci q (litOnly_negFree q hql))
  | ext k body _ =>
    cases k with
    | neg => exact frameOK_neg ci body (frameOK_of_negFree ci body (by simpa [Pat.c01Scope] using hsc))
    | _ => exact frameOK_of_negFree ci _ (by simpa [Pat.c01Scope] using hsc)
  | _ => exact frameOK_of_negFree ci _ (by simpa [Pat.c01Scope] using hsc)

/-- the text between two states is in the language of `g` iff `g` can consume it in place -/
theorem L_piece_iffN (ci : Bool) (g : Pat) (hsc : g.c01Scope = true) (a : St) (p r : List Char)
    (e : a.rest = p ++ r) :
    (∃ c, c.rest = r ∧ Pat.L ci g a c) ↔ g.Lang ci p := by
  have hf := frameOK_scope ci g hsc r
  unfold Pat.Lang
  constructor
  · rintro ⟨c, ec, hc⟩
    obtain ⟨b', eb', hb'⟩ := hf.2 a c hc ⟨true, p⟩ [] e (by simp [ec])
    rcases b' with ⟨f, br⟩
    simp only at eb'; subst eb'
    exact ⟨f, hb'⟩
  · rintro ⟨f, h⟩
    obtain ⟨b, eb, hb⟩ := hf.1 _ _ h a e
    exact ⟨b, by simpa using eb, hb⟩

/-! ### (a), continuation form: a segment in scope followed by the rest of the pattern -/

/-- **a segment in the C01 scope consumes exactly one non-empty piece, in its documented
    language** — `K` is the rest of the compiled pattern (`RTail`: it can only start at a
    separator or at the end); the subject has visible pieces and does not end in a newline -/
theorem M_segThen_iffN (dot ci : Bool) (g : Pat) (hg : g.segScopeN = true) (R : Re)
    (hR : RTail ⟨true, ci⟩ R) (a : St) (hv : VisG dot a.rest) :
    (∃ y, y.rest = [] ∧ Re.M ⟨true, ci⟩ (.cat (compSeg dot true g) R) a y) ↔
      ∃ p r, a.rest = p ++ r ∧ p ≠ [] ∧ '/' ∉ p ∧ AtSep r ∧ g.Lang ci p ∧
        ∃ y, y.rest = [] ∧ Re.M ⟨true, ci⟩ R ⟨false, r⟩ y := by
  obtain ⟨hsc, hs, hst, hsol⟩ := (segScopeN_iff g).mp hg
  rw [show (∃ y, y.rest = [] ∧ Re.M ⟨true, ci⟩ (.cat (compSeg dot true g) R) a y) ↔
      (∃ y, y.rest = [] ∧ ∃ c, Re.M ⟨true, ci⟩ (compSeg dot true g) a c ∧ Re.M ⟨true, ci⟩ R c y) by
    simp only [Re.M.eq_5]]
  constructor
  · rintro ⟨y, hy, c, h1, h2⟩
    have hcsep : AtSep c.rest := hR c y h2 hy
    obtain ⟨⟨pre, e, n⟩, hsuf, hsolid⟩ := compSeg_scope_weak dot ci g hsc hs true a c h1
    have hlen : c.rest.length < a.rest.length := by
      rcases hsolid hsol with hlt | ⟨rfl, hna⟩
      · exact hlt
      · exact absurd hcsep hna
    have hpre : pre ≠ [] := by
      rintro rfl
      simp at e; rw [e] at hlen; omega
    have hf : c.atStart = false := by
      rcases hsuf with rfl | ⟨hf, _⟩
      · omega
      · exact hf
    have hc : c = ⟨false, c.rest⟩ := by rcases c with ⟨cf, cr⟩; simp only at hf; rw [hf]
    have hmem : pre ∈ pieces a.rest := by
      rw [e, pieces_append pre c.rest n hpre hcsep]; exact List.mem_cons_self
    have hps := pstart_of_piece ⟨true, ci⟩ dot a pre c.rest e n hpre hcsep (hv.1 pre hmem) (Or.inr hv.2)
    have hl := ((compSeg_scope_sem dot ci g hsc hs true a c (fun _ => ⟨hps, hst⟩) hcsep (Or.inr hv.2)).mp h1).1
    refine ⟨pre, c.rest, e, hpre, n, hcsep, (L_piece_iffN ci g hsc a pre c.rest e).mp ⟨c, rfl, hl⟩, y, hy, ?_⟩
    rw [← hc]; exact h2
  · rintro ⟨p, r, e, hne, hsl, hr, hlang, y, hy, h2⟩
    obtain ⟨c, ec, hc⟩ := (L_piece_iffN ci g hsc a p r e).mpr hlang
    have hmem : p ∈ pieces a.rest := by rw [e, pieces_append p r hsl hne hr]; exact List.mem_cons_self
    have hps := pstart_of_piece ⟨true, ci⟩ dot a p r e hsl hne hr (hv.1 p hmem) (Or.inr hv.2)
    have hM := (compSeg_scope_sem dot ci g hsc hs true a c (fun _ => ⟨hps, hst⟩) (ec ▸ hr) (Or.inr hv.2)).mpr
      ⟨hc, ⟨p, by rw [e, ec], hsl⟩⟩
    have hf : c.atStart = false := by
      rcases Pat.L_suf ci g a c hc with rfl | ⟨hf, _⟩
      · exfalso
        have := congrArg List.length e
        rw [ec] at this
        simp at this
        exact hne this
      · exact hf
    have hc' : c = ⟨false, r⟩ := by rcases c with ⟨cf, cr⟩; simp only at hf ec; rw [hf, ec]
    exact ⟨y, hy, c, hM, hc' ▸ h2⟩


/-! ### (b) whole path patterns whose segments are in the C01 scope -/

/-- a file-name segment in the extended scope -/
def Seg.patScopeN : Seg → Bool
  | .pat g => g.segScopeN
  | .glob => false

/-- a segment in the extended scope of the globstar theorem -/
def Seg.scopeN : Seg → Bool
  | .pat g => g.segScopeN
  | .glob => true

/-- a file-name segment needs something to read -/
theorem pathRe_pat_neN (dot ci tr : Bool) (g : Pat) (hg : g.segScopeN = true) (rest : List Seg) (c y : St)
    (h : Re.M ⟨true, ci⟩ (pathRe dot tr (.pat g :: rest) false) c y) : c.rest ≠ [] := by
  obtain ⟨hsc, hs, _, hsol⟩ := (segScopeN_iff g).mp hg
  rw [pathRe_pat_unfold, Re.M.eq_5] at h
  obtain ⟨m, h1, _⟩ := h
  rcases (compSeg_scope_weak dot ci g hsc hs true c m h1).2.2 hsol with hlt | ⟨_, hna⟩
  · intro h0; rw [h0] at hlt; simp at hlt
  · intro h0; exact hna (Or.inl h0)

/-- **the compiled pattern from any position, against the specification from that position**
    (`pathRe_sem` with segments in the extended scope) -/
theorem pathRe_semN (ctx : PCtx) (tr : Bool) (t : List Char) (hv : VisG ctx.dot t) :
    ∀ segs, noGG segs = true → (∀ s ∈ segs, s.scopeN = true) → ∀ sb a, Pos t a → CtxOK tr segs sb a →
      ((∃ y, y.rest = [] ∧ Re.M ⟨true, ctx.ci⟩ (pathRe ctx.dot tr segs sb) a y) ↔
        SpecAt ctx tr segs sb a.rest) := by
  intro segs
  induction segs with
  | nil =>
    intro _ _ sb a _ _
    simp only [pathRe, SpecAt]
    exact M_end_iff _ sb a
  | cons s rest ih =>
    intro hgg hsc sb a hpos hctx
    cases s with
    | pat g =>
      have hg : g.segScopeN = true := by simpa [Seg.scopeN] using hsc (.pat g) List.mem_cons_self
      have hgg' : noGG rest = true := by simpa [noGG] using hgg
      have ih' := ih hgg' (fun s hs => hsc s (List.mem_cons_of_mem _ hs))
      have Hf : ∀ a : St, Pos t a →
          ((∃ y, y.rest = [] ∧ Re.M ⟨true, ctx.ci⟩ (pathRe ctx.dot tr (.pat g :: rest) false) a y) ↔
            SpecAt ctx tr (.pat g :: rest) false a.rest) := by
        intro a hpos
        rw [pathRe_pat_unfold, M_segThen_iffN ctx.dot ctx.ci g hg _ (RTail_rest _ _ _ rest) a (hpos.visG hv),
          spec_pat_cons ctx tr g rest hgg' a.rest]
        constructor
        · rintro ⟨p, r, e, hpne, hsl, hr, hlang, hrest⟩
          exact ⟨p, r, e, hpne, hsl, hr, hlang,
            (ih' _ ⟨false, r⟩ (hpos.after_piece p r e hsl hpne hr) (ctx_after_piece tr rest r hr)).mp hrest⟩
        · rintro ⟨p, r, e, hpne, hsl, hr, hlang, hrest⟩
          exact ⟨p, r, e, hpne, hsl, hr, hlang,
            (ih' _ ⟨false, r⟩ (hpos.after_piece p r e hsl hpne hr) (ctx_after_piece tr rest r hr)).mpr hrest⟩
      cases sb with
      | false => exact Hf a hpos
      | true =>
        rw [pathRe_true, M_sepThen_iff, spec_sep]
        constructor
        · rintro ⟨pre0, r', hne, hp, e, hrest⟩
          exact ⟨pre0, r', hne, hp, e, (Hf ⟨false, r'⟩ (hpos.after_sep pre0 r' e hp)).mp hrest⟩
        · rintro ⟨pre0, r', hne, hp, e, hrest⟩
          exact ⟨pre0, r', hne, hp, e, (Hf ⟨false, r'⟩ (hpos.after_sep pre0 r' e hp)).mpr hrest⟩
    | glob =>
      have hvis : ∀ p ∈ pieces a.rest, visible ctx.dot p = true := (hpos.visG hv).1
      obtain ⟨pre, e, hs, hsub⟩ := hpos
      cases rest with
      | nil =>
        rw [pathRe_glob_unfold]
        have : pathRe ctx.dot tr [] false = sepIf false (Frag.pathTrail false) := by simp [pathRe]
        rw [this, M_globEnd_iff ctx.dot ctx.ci sb t pre hv a e hs]
        refine (spec_glob_end ctx tr sb a.atStart a.rest hvis ?_).symm
        cases sb with
        | true => simpa [CtxOK] using hctx
        | false => simpa [CtxOK] using hctx
      | cons s2 ss =>
        cases s2 with
        | glob => simp [noGG] at hgg
        | pat g2 =>
          have hg2 : g2.segScopeN = true := by
            simpa [Seg.scopeN] using hsc (.pat g2) (List.mem_cons_of_mem _ List.mem_cons_self)
          have hgg' : noGG (.pat g2 :: ss) = true := by simpa [noGG] using hgg
          have ih' := ih hgg' (fun s hs => hsc s (List.mem_cons_of_mem _ hs))
          have hctx' : sb = false → a.atStart = true := by
            intro hsb; subst hsb
            simp only [CtxOK, Bool.false_eq_true, ite_false] at hctx
            exact hctx.1
          rw [pathRe_glob_unfold, M_globThen_iff ctx.dot ctx.ci sb _ t pre hv a e hs
              (fun c y h => pathRe_pat_neN ctx.dot ctx.ci tr g2 hg2 ss c y h),
            spec_glob_cons ctx tr sb a.atStart g2 ss a.rest hvis hctx']
          have hpos : Pos t a := ⟨pre, e, hs, hsub⟩
          constructor
          · rintro ⟨hsb, T, r, eT, hgap, hrest⟩
            exact ⟨hsb, T, r, eT, hgap, (ih' false _ (hpos.after_gap T r eT hgap) trivial).mp hrest⟩
          · rintro ⟨hsb, T, r, eT, hgap, hrest⟩
            exact ⟨hsb, T, r, eT, hgap, (ih' false _ (hpos.after_gap T r eT hgap) trivial).mpr hrest⟩

/-- **semantics of the tidy path compiler, patterns with globstars and `!(…)` segments** -/
theorem compPath_glob_semN (ctx : PCtx) (pp : PathPat)
    (hsc : pp.segs.all Seg.scopeN = true) (hgg : noGG pp.segs = true) (hwf : pp.segs = [] → pp.abs = true)
    (s : List Char) (hv : VisG ctx.dot s)
    (hex : pp.segs = [.glob] → pp.abs = false → pp.trailing = true → s ≠ []) :
    (wrapRe ctx.ci (compPath ctx.dot pp)).FullMatch s ↔ pathLangR ctx .free pp s = true := by
  rcases pp with ⟨abs, segs, tr⟩
  simp only at hsc hgg hwf hex
  rw [wrapRe_fullmatch, ← specAt_top ctx abs tr segs hwf s]
  unfold compPath
  simp only
  have hsc' : ∀ sg ∈ segs, sg.scopeN = true := by
    rw [List.all_eq_true] at hsc; exact hsc
  have hpos : Pos s ⟨true, s⟩ := ⟨[], rfl, fun _ => rfl, fun p hp => hp⟩
  by_cases hc : CtxOK tr segs abs ⟨true, s⟩
  · exact pathRe_semN ctx tr s hv segs hgg hsc' abs ⟨true, s⟩ hpos hc
  · -- only possible for an absolute pattern that begins with a globstar, on a relative subject
    cases segs with
    | nil => exact absurd trivial hc
    | cons sg rest =>
      cases sg with
      | pat g => exact absurd trivial hc
      | glob =>
        cases abs with
        | false =>
          exfalso; apply hc
          simp only [CtxOK, Bool.false_eq_true, ite_false, true_and]
          intro hr htr
          exact hex (by rw [hr]) rfl htr
        | true =>
          simp only [CtxOK, ite_true] at hc
          have hhead : s.head? ≠ some '/' := by
            intro hh
            apply hc
            cases s with
            | nil => exact Or.inl rfl
            | cons d v => simp at hh; exact Or.inr ⟨v, by rw [hh]⟩
          constructor
          · rintro ⟨y, _, h⟩
            rw [pathRe_glob_unfold] at h
            exact absurd (((M_needSepIf _ true _ _ y).mp h).1 rfl) hhead
          · intro h
            simp only [SpecAt, forall_const] at h
            exact absurd h.1 hhead

theorem patScopeN_scopeN (segs : List Seg) (h : segs.all Seg.patScopeN = true) :
    segs.all Seg.scopeN = true ∧ noGG segs = true ∧ segs ≠ [.glob] := by
  induction segs with
  | nil => exact ⟨rfl, rfl, by simp⟩
  | cons s ss ih =>
    simp only [List.all_cons, Bool.and_eq_true] at h
    obtain ⟨h1, h2, _⟩ := ih h.2
    cases s with
    | glob => simp [Seg.patScopeN] at h
    | pat g =>
      refine ⟨?_, by simpa [noGG] using h2, by simp⟩
      simp only [List.all_cons, Bool.and_eq_true]
      exact ⟨by simpa [Seg.patScopeN, Seg.scopeN] using h.1, h1⟩

/-- **semantics of the tidy path compiler, globstar-free patterns with `!(…)` segments** -/
theorem compPath_globfree_semN (ctx : PCtx) (pp : PathPat)
    (hsc : pp.segs.all Seg.patScopeN = true) (hwf : pp.segs = [] → pp.abs = true)
    (s : List Char) (hv : VisG ctx.dot s) :
    (wrapRe ctx.ci (compPath ctx.dot pp)).FullMatch s ↔ pathLangR ctx .free pp s = true := by
  obtain ⟨h1, h2, h3⟩ := patScopeN_scopeN pp.segs hsc
  exact compPath_glob_semN ctx pp h1 h2 hwf s hv (fun h => absurd h h3)


/-! ### (c) MATCHBASE: the implicit `**/` prefix of a slash-less pattern -/

/-- what the faithful port emits for a slash-less pattern under MATCHBASE (`_parse`, 1645-1662):
    `root('**', prepend)` with GLOBSTAR forced gives `GSTAR DIV TRAIL`; `root(p, result)` gives the
    pattern's own segments and `_PATH_TRAIL`; the result is `prepend + result`.  This is
    `compPath ⟨false, .glob :: segs, false⟩` with one more `[/]*?` after the divider. -/
def compPathMB (dot : Bool) (segs : List Seg) : Re :=
  .cat (pGstar dot) (.cat (Frag.globstarDiv false) (.cat (Frag.pathTrail false) (pathRe dot false segs false)))

theorem iter_sl_cases {c1 c : St} (h : Iter (consume1 (fun d => d == '/')) c1 c) :
    c = c1 ∨ (c.atStart = false ∧ ∃ pre, pre ≠ [] ∧ allSl pre = true ∧ c1.rest = pre ++ c.rest) := by
  obtain ⟨pre, e, hp⟩ := iter_sl_all h
  rcases Iter.suf (fun _ _ h => consume1_suf h) h with rfl | ⟨hf, pre', hne, e'⟩
  · exact Or.inl rfl
  · have : pre = pre' := List.append_cancel_right (e.symm.trans e')
    subst this
    exact Or.inr ⟨hf, pre, hne, hp, e⟩

/-- `(?:^|$|[/])+[/]*?` is `(?:^|$|[/])+` -/
theorem M_divTrail_iff (md : Mode) (m c : St) :
    Re.M md (.cat (Frag.globstarDiv false) (Frag.pathTrail false)) m c ↔ Re.M md (Frag.globstarDiv false) m c := by
  rw [Re.M.eq_5]
  constructor
  · rintro ⟨c1, h1, h2⟩
    simp only [Frag.pathTrail, Re.M.eq_11] at h2
    have h2' := (Iter.congr (fun x y => M_sep md x y)).mp h2
    rcases iter_sl_cases h2' with rfl | ⟨hf, pre, hne, hp, e⟩
    · exact h1
    · rw [M_div_iff] at h1 ⊢
      right
      rcases h1 with ⟨rfl, _⟩ | ⟨_, pre0, hne0, hp0, e0⟩
      · exact ⟨hf, pre, hne, hp, e⟩
      · refine ⟨hf, pre0 ++ pre, by simp [hne], ?_, by rw [e0, e, List.append_assoc]⟩
        simp only [allSl, List.all_append, Bool.and_eq_true] at hp hp0 ⊢
        exact ⟨hp0, hp⟩
  · intro h
    refine ⟨c, h, ?_⟩
    simp only [Frag.pathTrail, Re.M.eq_11]
    exact Iter.refl _

/-- the MATCHBASE form and the written `**/` form accept the same matches -/
theorem compPathMB_equiv (md : Mode) (dot : Bool) (segs : List Seg) (a y : St) :
    Re.M md (compPathMB dot segs) a y ↔ Re.M md (pathRe dot false (.glob :: segs) false) a y := by
  rw [pathRe_glob_unfold]
  simp only [compPathMB, needSepIf, Bool.false_eq_true, ite_false]
  simp only [Re.M.eq_5]
  constructor
  · rintro ⟨m, h1, c1, h2, c, h3, h4⟩
    exact ⟨m, h1, c, (M_divTrail_iff md m c).mp (by rw [Re.M.eq_5]; exact ⟨c1, h2, h3⟩), h4⟩
  · rintro ⟨m, h1, c, h2, h4⟩
    have := (M_divTrail_iff md m c).mpr h2
    rw [Re.M.eq_5] at this
    obtain ⟨c1, h2', h3⟩ := this
    exact ⟨m, h1, c1, h2', c, h3, h4⟩

theorem compPathMB_fullmatch (ci dot : Bool) (segs : List Seg) (s : List Char) :
    (wrapRe ci (compPathMB dot segs)).FullMatch s ↔
      (wrapRe ci (compPath dot ⟨false, .glob :: segs, false⟩)).FullMatch s := by
  rw [wrapRe_fullmatch, wrapRe_fullmatch]
  unfold compPath
  simp only [compPathMB_equiv]

/-- **MATCHBASE, one slash-less pattern in the extended scope**: the regex the port emits accepts
    `s` iff the specification of `**/g` does -/
theorem compPathMB_sem (ctx : PCtx) (g : Pat) (hg : g.segScopeN = true) (s : List Char) (hv : VisG ctx.dot s) :
    (wrapRe ctx.ci (compPathMB ctx.dot [.pat g])).FullMatch s ↔
      pathLangR ctx .free ⟨false, [.glob, .pat g], false⟩ s = true := by
  rw [compPathMB_fullmatch]
  apply compPath_glob_semN ctx ⟨false, [.glob, .pat g], false⟩ _ _ _ s hv
  · intro h; simp at h
  · simp [Seg.scopeN, hg]
  · simp [noGG]
  · intro h; simp at h

/-- what the specification of `**/g` says: `g` matches the LAST piece of the path, whatever
    (visible) pieces stand before it -/
theorem pathLangR_matchbase (ctx : PCtx) (g : Pat) (s : List Char) :
    pathLangR ctx .free ⟨false, [.glob, .pat g], false⟩ s = true ↔
      ∃ init x, pieces s = init ++ [x] ∧ init.all (visible ctx.dot) = true ∧ g.Lang ctx.ci x := by
  unfold pathLangR
  simp only [Bool.false_eq_true, ite_false, Bool.or_true]
  rw [show (cutAtSlash s).filter (fun p => !p.isEmpty) = pieces s from rfl, segsMatch_glob_cons]
  simp only [decide_true, Bool.true_and]
  rw [List.any_eq_true]
  constructor
  · rintro ⟨k, _, hk⟩
    simp only [Bool.and_eq_true] at hk
    obtain ⟨hvis, hm⟩ := hk
    cases hd : (pieces s).drop k with
    | nil => rw [hd, segsMatch_pat_nil] at hm; exact absurd hm (by simp)
    | cons x xs =>
      rw [hd, segsMatch_pat_cons, segsMatch_nil, segMatch_free] at hm
      simp only [Bool.and_eq_true, List.isEmpty_iff, Bool.not_false, Bool.true_or, and_true] at hm
      obtain ⟨hl, rfl⟩ := hm
      refine ⟨(pieces s).take k, x, ?_, hvis, (langR_free_iff ctx.ci g x).mp hl⟩
      rw [← hd, List.take_append_drop]
  · rintro ⟨init, x, e, hvis, hl⟩
    refine ⟨init.length, List.mem_range.mpr (by rw [e]; simp; omega), ?_⟩
    rw [e, List.take_left, List.drop_left, segsMatch_pat_cons, segsMatch_nil, segMatch_free,
      (langR_free_iff ctx.ci g x).mpr hl, hvis]
    rfl


/-! ### the strict reader under MATCHBASE -/

theorem head_ne_of_not_mem (p : List Char) (hsl : '/' ∉ p) : p.head? ≠ some '/' := by
  cases p with
  | nil => simp
  | cons x xs => simp only [List.mem_cons, not_or] at hsl; simp [Ne.symm hsl.1]

theorem mapM_singleton_opt {α β : Type} (f : α → Option β) (x : α) :
    List.mapM f [x] = (f x).map (fun b => [b]) := by
  cases h : f x <;> simp [List.mapM_cons, h]

/-- for a slash-less pattern MATCHBASE only adds the implicit globstar in front of what the
    reader yields without it -/
theorem parsePath_matchbase (ctx : PCtx) (p : List Char) (hsl : '/' ∉ p) :
    parsePath {ctx with matchbase := true} p =
      (parsePath {ctx with matchbase := false} p).map (fun pp =>
        match pp.segs with
        | [.glob] => ⟨false, [.glob], false⟩
        | segs => ⟨false, .glob :: segs, false⟩) := by
  unfold parsePath
  by_cases hp : p.isEmpty = true
  · simp [hp]
  · simp only [hp, cutAtSlash_last p hsl]
    simp only [Bool.false_eq_true, ite_false, List.length_singleton, decide_true, Bool.and_true, ite_true]
    split
    · simp
    · split
      · simp
      · simp only [Option.map_some]
        split <;> simp_all

/-- a slash-less pattern is one relative segment without trailing separator -/
theorem parsePath_slashless (ctx : PCtx) (p : List Char) (hsl : '/' ∉ p) (pp : PathPat)
    (h : parsePath {ctx with matchbase := false} p = some pp) : ∃ sg, pp = ⟨false, [sg], false⟩ := by
  unfold parsePath at h
  by_cases hp : p.isEmpty = true
  · simp [hp] at h
  · have hpe : (!p.isEmpty) = true := by simpa using hp
    simp only [hp, cutAtSlash_last p hsl] at h
    simp only [Bool.false_eq_true, ite_false, Bool.false_and, head_ne_of_not_mem p hsl,
      getLast_piece_ne_slash p hsl, decide_false, List.filter_cons, List.filter_nil, hpe, ite_true,
      mapM_singleton_opt] at h
    split at h
    · simp at h
    · split at h
      · simp at h
      · rename_i segs heq
        simp only [Option.map_eq_some_iff] at heq
        obtain ⟨sg, _, rfl⟩ := heq
        simp only [Option.some.injEq] at h
        exact ⟨sg, by rw [← h]; cases sg <;> rfl⟩

/-- a slash-less pattern that is not itself a globstar (D6): under MATCHBASE the strict reader
    yields `**/g` for the same `g` it reads without MATCHBASE -/
theorem parsePath_matchbase_pat (ctx : PCtx) (p : List Char) (hsl : '/' ∉ p) (pp : PathPat)
    (h : parsePath {ctx with matchbase := true} p = some pp) (hng : pp.segs ≠ [.glob]) :
    ∃ g, pp = ⟨false, [.glob, .pat g], false⟩ ∧
      parsePath {ctx with matchbase := false} p = some ⟨false, [.pat g], false⟩ := by
  rw [parsePath_matchbase ctx p hsl] at h
  cases h0 : parsePath {ctx with matchbase := false} p with
  | none => rw [h0] at h; simp at h
  | some pp0 =>
    obtain ⟨sg, rfl⟩ := parsePath_slashless ctx p hsl pp0 h0
    rw [h0] at h
    cases sg with
    | glob =>
      simp only [Option.map_some, Option.some.injEq] at h
      subst h
      exact absurd rfl hng
    | pat g =>
      simp only [Option.map_some, Option.some.injEq] at h
      exact ⟨g, h.symm, rfl⟩


/-! ### MATCHBASE when the pattern is itself a globstar (the shape of D6) -/

/-- what the port emits under MATCHBASE|GLOBSTAR when the pattern is itself `**`: the implicit
    prefix `GSTAR DIV TRAIL`, then the pattern's own `GSTAR DIV TRAIL` (D6) -/
def compPathMBglob (dot : Bool) : Re :=
  .cat (compPath dot ⟨false, [.glob], false⟩) (compPath dot ⟨false, [.glob], false⟩)

theorem compPath_glob_alone (dot : Bool) :
    compPath dot ⟨false, [.glob], false⟩ =
      needSepIf false (.cat (pGstar dot) (.cat (Frag.globstarDiv false) (sepIf false (Frag.pathTrail false)))) := by
  simp [compPath, pathRe]

theorem pathLangR_glob_alone (ctx : PCtx) (s : List Char) (hvis : ∀ p ∈ pieces s, visible ctx.dot p = true) :
    pathLangR ctx .free ⟨false, [.glob], false⟩ s = true := by
  unfold pathLangR
  simp only [Bool.false_eq_true, ite_false, Bool.or_true]
  rw [show (cutAtSlash s).filter (fun p => !p.isEmpty) = pieces s from rfl, segsMatch_glob_last]
  have hall : (pieces s).all (visible ctx.dot) = true := by rw [List.all_eq_true]; exact hvis
  rw [hall]
  cases pieces s <;> simp

/-- on subjects with visible pieces D6 cannot bite: both sides accept everything -/
theorem compPathMBglob_sem (ctx : PCtx) (s : List Char) (hv : VisG ctx.dot s) :
    (wrapRe ctx.ci (compPathMBglob ctx.dot)).FullMatch s ↔
      pathLangR ctx .free ⟨false, [.glob], false⟩ s = true := by
  rw [wrapRe_fullmatch]
  refine ⟨fun _ => pathLangR_glob_alone ctx s hv.1, fun _ => ?_⟩
  obtain ⟨y1, hy1, h1⟩ := (M_globEnd_iff ctx.dot ctx.ci false s [] hv ⟨true, s⟩ rfl (fun _ => rfl)).mpr
    (fun h => absurd h (by simp))
  have hs : y1.atStart = true → s = [] := by
    intro hst
    rcases Re.M_le _ _ _ _ h1 with rfl | ⟨hf, _⟩
    · exact hy1
    · rw [hf] at hst; exact absurd hst (by simp)
  obtain ⟨y2, hy2, h2⟩ := (M_globEnd_iff ctx.dot ctx.ci false s s hv y1 (by rw [hy1]; simp) hs).mpr
    (fun h => absurd h (by simp))
  refine ⟨y2, hy2, ?_⟩
  unfold compPathMBglob
  rw [Re.M.eq_5, compPath_glob_alone]
  exact ⟨y1, h1, h2⟩

end WcModel

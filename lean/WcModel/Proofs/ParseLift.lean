import WcModel.Proofs.ParseClsWF
import WcModel.Model.WinDrive
/-
  GENERIC LIFTING of a predicate on `Re` through the whole faithful pass.

  `ParseClsWF.lean` lifts the one predicate `Re.ClsWF` from the fragments / `sequence` outputs to
  every regex inside the items `parseItems` returns and to `Parsed.toRe`.  This file does the same
  for an ARBITRARY `P : Re → Prop`:

    * `Lift P`      — the closure hypotheses: `P` holds of the `Frag.*` constants the pass uses
                      (both `win` values), of `.eps`, `.lit c`, `.eos`, and is preserved by the
                      constructors the pass and `Parsed.toRe` apply (`cat alt grp cap gcap opt
                      star plus look`);
    * `TextInv J`   — an invariant `J` of the text still to be read (closed under suffixes, true of
                      the implicit `***` prefix); the trivial invariant is `TextInv.trivial`;
    * `SeqOK P J cfg` — what is needed from `sequence`: on a `J` text it returns a `P` regex and
                      leaves a `J` text;
    * `DriveP P drive` — the Windows drive items are `P`.

  Results: `parseItems_lift` (all items are `P`), `toRe_lift` / `parse_lift`
  (`parsed.toRe = some r → ∃ inner, r = ^(?s[i]:inner)$ ∧ P inner`), the corollary `parse_lift_cls`
  for predicates that hold of EVERY class (`sequence_shape`: `sequence` returns a class, possibly
  behind the `restrictSequence` guard; `sequence_suffix`: it leaves a suffix of the text it was
  given, hence `SeqOK.ofSuffix` for every text invariant), `winDrive_lift` for the real drive
  scanner, and — as a check that nothing was lost — `parse_clsWF'`, the theorem of `C10cls`
  re-derived from the generic one.  Instances: `Proofs/ParseAllCi.lean` (`P := allCi`),
  `Proofs/ParseCase.lean` (`P := True`, `J :=` "no `[` left": the iterators stay bracket-free).
-/
namespace WcModel

/-! ### the closure structure -/

/-- closure hypotheses on `P` (exactly what the pass and `Parsed.toRe` use) -/
structure Lift (P : Re → Prop) : Prop where
  eps : P .eps
  lit : ∀ c, P (.lit c)
  eos : P .eos
  cat : ∀ {a b}, P a → P b → P (.cat a b)
  alt : ∀ {a b}, P a → P b → P (.alt a b)
  grp : ∀ {a}, P a → P (.grp a)
  cap : ∀ {a}, P a → P (.cap a)
  gcap : ∀ {a}, P a → P (.gcap a)
  opt : ∀ {a}, P a → P (.opt a)
  star : ∀ {a}, P a → P (.star false a)
  plus : ∀ {a}, P a → P (.plus a)
  lookNeg : ∀ {a}, P a → P (.look true a)
  -- the constant fragments
  sep : ∀ w, P (Frag.sep w)
  pathEop : ∀ w, P (Frag.pathEop w)
  noDir : ∀ w, P (Frag.noDir w)
  seqPath : ∀ w, P (Frag.seqPath w)
  seqPathDot : ∀ w, P (Frag.seqPathDot w)
  pathStar : ∀ w, P (Frag.pathStar w)
  pathStarDot1 : ∀ w, P (Frag.pathStarDot1 w)
  pathStarDot2 : ∀ w, P (Frag.pathStarDot2 w)
  pathGstarDot1 : ∀ w, P (Frag.pathGstarDot1 w)
  pathGstarDot2 : ∀ w, P (Frag.pathGstarDot2 w)
  noDot : P Frag.noDot
  fstar : P Frag.star
  qmark : P Frag.qmark
  needCharPath : ∀ w, P (Frag.needCharPath w)
  needChar : P Frag.needChar
  needSep : ∀ w, P (Frag.needSep w)
  globstarDiv : ∀ w, P (Frag.globstarDiv w)
  pathTrail : ∀ w, P (Frag.pathTrail w)
  sepPlus : ∀ w, P (Frag.sepPlus w)
  noRoot : P Frag.noRoot
  noWinRoot : P Frag.noWinRoot
  guardedDot : ∀ w, P (Frag.guardedDot w)

/-- a predicate that holds of every atom (every class included) and is preserved by every
    constructor except `.flags` satisfies `Lift` -/
theorem Lift.ofCompositional {P : Re → Prop}
    (eps : P .eps) (lit : ∀ c, P (.lit c)) (any : P .any) (bos : P .bos) (eos : P .eos)
    (cls : ∀ neg items, P (.cls neg items))
    (cat : ∀ {a b}, P a → P b → P (.cat a b)) (alt : ∀ {a b}, P a → P b → P (.alt a b))
    (grp : ∀ {a}, P a → P (.grp a)) (cap : ∀ {a}, P a → P (.cap a)) (gcap : ∀ {a}, P a → P (.gcap a))
    (opt : ∀ {a}, P a → P (.opt a)) (star : ∀ {l a}, P a → P (.star l a)) (plus : ∀ {a}, P a → P (.plus a))
    (rep : ∀ {lo hi a}, P a → P (.rep lo hi a)) (look : ∀ {n a}, P a → P (.look n a)) : Lift P where
  eps := eps
  lit := lit
  eos := eos
  cat := cat
  alt := alt
  grp := grp
  cap := cap
  gcap := gcap
  opt := opt
  star := star
  plus := plus
  lookNeg := look
  sep := fun _ => cls _ _
  pathEop := fun _ => grp (alt eos (cls _ _))
  noDir := fun _ => look (cat (grp (rep (lit _))) (grp (alt eos (cls _ _))))
  seqPath := fun _ => look (cls _ _)
  seqPathDot := fun _ => look (cls _ _)
  pathStar := fun _ => star (cls _ _)
  pathStarDot1 := fun _ => cat (look (cat (grp (rep (lit _))) (grp (alt eos (cls _ _))))) (star (cls _ _))
  pathStarDot2 := fun _ => cat (look (cat (grp (rep (lit _))) (grp (alt eos (cls _ _)))))
    (opt (grp (cat (look (lit _)) (star (cls _ _)))))
  pathGstarDot1 := fun _ => star (grp (cat (look (cat (cat (grp (alt (cls _ _) bos)) (grp (rep (lit _))))
    (grp (alt eos (cls _ _))))) any))
  pathGstarDot2 := fun _ => star (grp (cat (look (cat (grp (alt (cls _ _) bos)) (lit _))) any))
  noDot := look (cls _ _)
  fstar := star any
  qmark := any
  needCharPath := fun _ => look (cls _ _)
  needChar := look any
  needSep := fun _ => look (cls _ _)
  globstarDiv := fun _ => plus (grp (alt bos (alt eos (cls _ _))))
  pathTrail := fun _ => star (cls _ _)
  sepPlus := fun _ => plus (cls _ _)
  noRoot := look (lit _)
  noWinRoot := look (grp (alt (cls _ _) (cat (cls _ _) (lit _))))
  guardedDot := fun _ => cat (look (cat (cat (lit _) (opt (cls _ _))) (grp (alt eos (cls _ _))))) (lit _)

/-! ### items -/

mutual
/-- every regex inside the item is `P` -/
def Item.All (P : Re → Prop) : Item → Prop
  | .re r => P r
  | .empty => True
  | .bar => True
  | .group _ _ body => Item.AllL P body
  | .invOpen _ body => Item.AllL P body
  | .ph star => P star
  | .closed tail eop star => Item.AllL P tail ∧ (∀ e, eop = some e → P e) ∧ P star
def Item.AllL (P : Re → Prop) : List Item → Prop
  | [] => True
  | x :: xs => Item.All P x ∧ Item.AllL P xs
end

section
variable {P : Re → Prop}

theorem Item.allL_iff (l : List Item) : Item.AllL P l ↔ ∀ x ∈ l, x.All P := by
  induction l with
  | nil => simp [Item.AllL]
  | cons x xs ih => simp [Item.AllL, ih]

theorem Item.allL_append {a b : List Item} (ha : Item.AllL P a) (hb : Item.AllL P b) :
    Item.AllL P (a ++ b) := by
  rw [Item.allL_iff] at *
  intro x hx
  rcases List.mem_append.1 hx with h | h
  · exact ha x h
  · exact hb x h

theorem Item.allL_reverse {a : List Item} (ha : Item.AllL P a) : Item.AllL P a.reverse := by
  rw [Item.allL_iff] at *
  intro x hx
  exact ha x (List.mem_reverse.1 hx)

theorem Item.allL_cons {x : Item} {a : List Item} (hx : x.All P) (ha : Item.AllL P a) :
    Item.AllL P (x :: a) := ⟨hx, ha⟩

/-- the two predicates coincide with those of `ParseClsWF` at `P := Re.ClsWF` -/
theorem Item.all_clsWF_iff : ∀ x : Item, x.All Re.ClsWF ↔ x.AllWF := by
  intro x
  exact Item.rec (motive_1 := fun x => x.All Re.ClsWF ↔ x.AllWF)
    (motive_2 := fun l => Item.AllL Re.ClsWF l ↔ Item.AllWFL l)
    (fun r => by simp [Item.All, Item.AllWF]) (by simp [Item.All, Item.AllWF])
    (by simp [Item.All, Item.AllWF])
    (fun k c body ih => by simpa [Item.All, Item.AllWF] using ih)
    (fun c body ih => by simpa [Item.All, Item.AllWF] using ih)
    (fun s => by simp [Item.All, Item.AllWF])
    (fun tail eop star ih => by simp [Item.All, Item.AllWF, ih])
    (by simp [Item.AllL, Item.AllWFL])
    (fun x xs ih1 ih2 => by simp [Item.AllL, Item.AllWFL, ih1, ih2]) x

theorem Item.allL_clsWF_iff (l : List Item) : Item.AllL Re.ClsWF l ↔ Item.AllWFL l := by
  rw [Item.allL_iff, Item.allWFL_iff]
  exact ⟨fun h x hx => (Item.all_clsWF_iff x).1 (h x hx), fun h x hx => (Item.all_clsWF_iff x).2 (h x hx)⟩

mutual
theorem Item.eraseCap_all : ∀ x : Item, x.All P → x.eraseCap.All P
  | .group _ _ body, h => by
    simp only [Item.eraseCap, Item.All] at h ⊢
    exact Item.eraseCapL_all body h
  | .invOpen _ body, h => by
    simp only [Item.eraseCap, Item.All] at h ⊢
    exact Item.eraseCapL_all body h
  | .closed tail _ _, h => by
    simp only [Item.eraseCap, Item.All] at h ⊢
    exact ⟨Item.eraseCapL_all tail h.1, h.2⟩
  | .re _, h => by simpa [Item.eraseCap] using h
  | .empty, h => by simpa [Item.eraseCap] using h
  | .bar, h => by simpa [Item.eraseCap] using h
  | .ph _, h => by simpa [Item.eraseCap] using h
theorem Item.eraseCapL_all : ∀ l : List Item, Item.AllL P l → Item.AllL P (Item.eraseCapL l)
  | [], _ => by simp [Item.eraseCapL, Item.AllL]
  | x :: xs, h => by
    simp only [Item.eraseCapL, Item.AllL] at h ⊢
    exact ⟨Item.eraseCap_all x h.1, Item.eraseCapL_all xs h.2⟩
end

variable (hP : Lift P)
include hP

theorem Lift.cfg_eop (cfg : Cfg) : P cfg.eop := by
  unfold Cfg.eop; split
  · exact hP.pathEop _
  · exact hP.eos

theorem Lift.cfg_needChar (cfg : Cfg) : P cfg.needChar := by
  unfold Cfg.needChar; split
  · exact hP.needCharPath _
  · exact hP.needChar

theorem Lift.catE {a b : Re} (ha : P a) (hb : P b) : P (catE a b) := by
  unfold WcModel.catE; split
  · exact hb
  · exact hP.cat ha hb

theorem Lift.catE' {a b : Re} (ha : P a) (hb : P b) : P (catE' a b) := by
  unfold WcModel.catE'
  split
  · exact ha
  · split
    · exact hb
    · exact hP.cat ha hb

theorem Lift.quant (k : GKind) (cap : Capt) {inner : Re} (h : P inner) : P (quant k cap inner) := by
  unfold WcModel.quant
  cases k <;> cases cap <;> simp only [reduceCtorEq, ite_true, ite_false] <;>
    first
      | exact hP.opt (hP.grp h) | exact hP.star (hP.grp h) | exact hP.plus (hP.grp h)
      | exact hP.grp h | exact h
      | exact hP.cap (hP.opt (hP.grp h)) | exact hP.cap (hP.star (hP.grp h))
      | exact hP.cap (hP.plus (hP.grp h)) | exact hP.cap h
      | exact hP.grp (hP.opt (hP.grp h)) | exact hP.grp (hP.star (hP.grp h))
      | exact hP.grp (hP.plus (hP.grp h)) | exact hP.grp (hP.grp h)

theorem Lift.altOfList : ∀ (l : List Re), (∀ r ∈ l, P r) → P (altOfList l)
  | [], _ => hP.eps
  | [r], h => h r (by simp)
  | r :: r2 :: rs, h => by
    unfold WcModel.altOfList
    exact hP.alt (h r (by simp)) (Lift.altOfList (r2 :: rs) (fun x hx => h x (List.mem_cons_of_mem _ hx)))

theorem Lift.restrictSequence (cfg : Cfg) (ps : PS) : P (restrictSequence cfg ps).1 := by
  unfold WcModel.restrictSequence
  dsimp only
  split
  · split
    · split
      · exact hP.cat (hP.noDir _) (hP.seqPathDot _)
      · exact hP.cat (hP.noDir _) (hP.seqPath _)
    · split
      · exact hP.seqPathDot _
      · exact hP.seqPath _
  · split
    · exact hP.noDot
    · exact hP.eps

/-! ### `clean_up_inverse` -/

theorem cleanUpGo_all (cfg : Cfg) (nested : Bool) : ∀ (rev done : List Item) (n : Nat),
    Item.AllL P rev → Item.AllL P done → Item.AllL P (cleanUpGo cfg nested rev done n).1 := by
  intro rev
  induction rev with
  | nil => intro done n _ hd; simpa [cleanUpGo] using hd
  | cons x rest ih =>
    intro done n hr hd
    have hx : x.All P := hr.1
    have hrest : Item.AllL P rest := hr.2
    cases x with
    | ph star =>
      simp only [cleanUpGo]
      refine ih _ _ hrest ⟨?_, hd⟩
      simp only [Item.All]
      refine ⟨?_, ?_, hx⟩
      · split
        · exact Item.eraseCapL_all _ hd
        · exact hd
      · intro e he
        split at he
        · cases he
        · cases he; exact hP.cfg_eop cfg
    | re r => simp only [cleanUpGo]; exact ih _ _ hrest ⟨hx, hd⟩
    | empty => simp only [cleanUpGo]; exact ih _ _ hrest ⟨hx, hd⟩
    | bar => simp only [cleanUpGo]; exact ih _ _ hrest ⟨hx, hd⟩
    | group k c b => simp only [cleanUpGo]; exact ih _ _ hrest ⟨hx, hd⟩
    | invOpen c b => simp only [cleanUpGo]; exact ih _ _ hrest ⟨hx, hd⟩
    | closed t e s => simp only [cleanUpGo]; exact ih _ _ hrest ⟨hx, hd⟩

theorem cleanUpInverse_all (cfg : Cfg) (ps : PS) (cur : List Item) (nested : Bool)
    (h : Item.AllL P cur) : Item.AllL P (cleanUpInverse cfg ps cur nested).1 := by
  unfold cleanUpInverse
  split
  · exact h
  · exact Item.allL_reverse (cleanUpGo_all hP cfg nested cur [] 0 h trivial)

theorem cleanUpInverse_all' {cfg : Cfg} {ps ps' : PS} {cur cur' : List Item} {nested : Bool}
    (h : cleanUpInverse cfg ps cur nested = (cur', ps')) (hc : Item.AllL P cur) : Item.AllL P cur' := by
  have := cleanUpInverse_all hP cfg ps cur nested hc
  rw [h] at this
  exact this

end

/-! ### the text invariant -/

/-- an invariant of the text still to be read -/
structure TextInv (J : List Char → Prop) : Prop where
  suffix : ∀ (pre : List Char) {r : List Char}, J (pre ++ r) → J r
  stars3 : J ['*', '*', '*']

theorem TextInv.trivial : TextInv (fun _ => True) := ⟨fun _ _ _ => True.intro, True.intro⟩

theorem TextInv.qok (fix : Bool) : TextInv (QOK fix) :=
  ⟨fun pre _ h => QOK.suffix pre h, .inr (by decide)⟩

/-- the invariant on an iterator -/
def JI (J : List Char → Prop) (it : It) : Prop := J it.rest

theorem dropWhileCount_spec (c : Char) : ∀ (l : List Char) (n : Nat),
    ∃ k, l = List.replicate k c ++ (dropWhileCount c l n).2 ∧ (dropWhileCount c l n).1 = n + k
  | [], n => ⟨0, by simp [dropWhileCount]⟩
  | d :: r, n => by
    unfold dropWhileCount
    split
    · rename_i hd
      obtain ⟨k, hk1, hk2⟩ := dropWhileCount_spec c r (n + 1)
      refine ⟨k + 1, ?_, by omega⟩
      rw [List.replicate_succ, List.cons_append, ← hk1, hd]
    · exact ⟨0, by simp⟩

theorem dropStars_suffix (ext : Bool) (it : It) : ∃ pre, it.rest = pre ++ (dropStars ext it).rest := by
  unfold dropStars
  obtain ⟨k, hk1, hk2⟩ := dropWhileCount_spec '*' it.rest it.idx
  dsimp only
  split
  · rename_i hc
    have hk : 0 < k := by
      simp only [Bool.and_eq_true, decide_eq_true_eq] at hc
      omega
    obtain ⟨j, rfl⟩ : ∃ j, k = j + 1 := ⟨k - 1, by omega⟩
    refine ⟨List.replicate j '*', ?_⟩
    rw [List.replicate_succ'] at hk1
    simpa using hk1
  · exact ⟨_, hk1⟩

section
variable {J : List Char → Prop} (hJ : TextInv J)
include hJ

theorem JI.next {it it' : It} {c : Char} (h : JI J it) (hn : it.next = some (c, it')) : JI J it' := by
  unfold JI at *
  rw [(It.next_some hn).1] at h
  exact hJ.suffix [c] h

theorem JI.advance {it : It} (h : JI J it) (n : Nat) : JI J (it.advance n) := by
  unfold JI It.advance at *
  have := List.take_append_drop n it.rest
  rw [← this] at h
  exact hJ.suffix _ h

theorem JI.consumeUnix {it : It} (h : JI J it) : JI J (consumeUnix it) := by
  unfold JI WcModel.consumeUnix at *
  obtain ⟨pre, hp⟩ := dropWhileCount_suffix '/' it.rest it.idx
  rw [hp] at h
  exact hJ.suffix pre h

theorem JI.consumeWin : ∀ (fuel : Nat) (it prev : It) (count : Int),
    JI J it → JI J prev → JI J (consumeWin fuel it prev count) := by
  intro fuel
  induction fuel with
  | zero => intro it prev count h _; simpa [WcModel.consumeWin] using h
  | succ n ih =>
    intro it prev count h hp
    unfold WcModel.consumeWin
    split
    · exact h
    · rename_i c it' hn
      have h' := JI.next hJ h hn
      split
      · exact ih _ _ _ h' h
      · split
        · exact ih _ _ _ h' h
        · split
          · exact hp
          · exact h

theorem JI.consumePathSep (cfg : Cfg) {it : It} (h : JI J it) : JI J (consumePathSep cfg it) := by
  unfold WcModel.consumePathSep
  split
  · exact JI.consumeWin hJ _ _ _ _ h h
  · exact JI.consumeUnix hJ h

theorem JI.dropStars (ext : Bool) {it : It} (h : JI J it) : JI J (dropStars ext it) := by
  obtain ⟨pre, hp⟩ := dropStars_suffix ext it
  unfold JI at *
  rw [hp] at h
  exact hJ.suffix pre h

/-! ### `_handle_star` (the three pieces of `ParseClsWF.handleStar_eq_cls`) -/

theorem hsPeek_ji (cfg : Cfg) (c0 : Bool) {it : It} (h : JI J it) :
    JI J (hsPeek cfg c0 it).2.2.1 ∧ JI J (hsPeek cfg c0 it).2.2.2 := by
  unfold hsPeek
  split
  · exact ⟨h, h⟩
  · rename_i c it1 hn
    have h1 := JI.next hJ h hn
    split
    · exact ⟨h, h⟩
    · split
      · split
        · exact ⟨h1, h⟩
        · rename_i c2 it2 hn2
          split
          · exact ⟨h1, h⟩
          · exact ⟨JI.next hJ h1 hn2, h1⟩
      · exact ⟨h1, h⟩

theorem hsSel_ji (cfg : Cfg) (ps : PS) {it : It} (h : JI J it) :
    JI J (hsSelCls cfg ps it).2.2.1 := by
  unfold hsSelCls
  dsimp only
  split
  · obtain ⟨ha, hb⟩ := hsPeek_ji hJ cfg (cfg.pathname && cfg.globstarCapture) h
    rcases hpk : hsPeek cfg (cfg.pathname && cfg.globstarCapture) it with ⟨skip, capture, it2, prev⟩
    rw [hpk] at ha hb
    dsimp only at ha hb ⊢
    split
    · exact ha
    · split
      · exact ha
      · rename_i c it1 hn
        have h1 := JI.next hJ ha hn
        split
        · split
          · exact ha
          · exact ha
          · exact JI.advance hJ h1 1
          · exact h1
        · split
          · exact h1
          · split
            · exact hb
            · exact ha
  · exact h

theorem hsFinish_ji (cfg : Cfg) (cur : List Item) (sg : Re × Re)
    (sel : Bool × Bool × It × PS) (h : JI J sel.2.2.1) : JI J (hsFinish cfg cur sg sel).2.1 := by
  obtain ⟨isGlob, capture, it, ps⟩ := sel
  obtain ⟨star, globstar⟩ := sg
  unfold hsFinish
  dsimp only at h ⊢
  split
  · split
    · exact JI.dropStars hJ _ h
    · exact h
  · split
    · split
      · exact JI.consumePathSep hJ cfg h
      · exact JI.consumePathSep hJ cfg h
    · exact h

theorem handleStar_ji (cfg : Cfg) (ps : PS) {it : It} (cur : List Item)
    (h : JI J it) : JI J (handleStar cfg ps it cur).2.1 := by
  rw [handleStar_eq_cls]
  exact hsFinish_ji hJ cfg cur _ _ (hsSel_ji hJ cfg ps h)

end

section
variable {P : Re → Prop} (hP : Lift P)
include hP

theorem hsStars_all (cfg : Cfg) (ps : PS) : P (hsStars cfg ps).1 ∧ P (hsStars cfg ps).2 := by
  unfold hsStars
  dsimp only
  split
  · split
    · exact ⟨hP.pathStarDot2 _, hP.pathGstarDot2 _⟩
    · split
      · exact ⟨hP.pathStarDot1 _, hP.pathGstarDot1 _⟩
      · exact ⟨hP.pathStar _, hP.pathGstarDot1 _⟩
  · split
    · exact ⟨hP.cat hP.noDot hP.fstar, hP.eps⟩
    · exact ⟨hP.fstar, hP.eps⟩

theorem hsFinish_all (cfg : Cfg) (cur : List Item) (sg : Re × Re)
    (sel : Bool × Bool × It × PS) (hs : P sg.1 ∧ P sg.2) (hc : Item.AllL P cur) :
    Item.AllL P (hsFinish cfg cur sg sel).2.2 := by
  obtain ⟨isGlob, capture, it, ps⟩ := sel
  obtain ⟨star, globstar⟩ := sg
  unfold hsFinish
  dsimp only at hs ⊢
  have hg : P (if capture = true then Re.gcap globstar else globstar) := by
    split
    · exact hP.gcap hs.2
    · exact hs.2
  split
  · split
    · exact ⟨hP.cat (hP.cfg_needChar cfg) hs.1, hc⟩
    · exact ⟨hs.1, hc⟩
  · split
    · rename_i last before
      split
      · exact hc
      · refine ⟨hP.globstarDiv _, ?_⟩
        split
        · exact ⟨hg, hc.2⟩
        · exact ⟨hg, hP.needSep _, hc.2⟩
    · exact hc

theorem handleStar_all (cfg : Cfg) (ps : PS) (it : It) {cur : List Item}
    (h : Item.AllL P cur) : Item.AllL P (handleStar cfg ps it cur).2.2 := by
  rw [handleStar_eq_cls]
  exact hsFinish_all hP cfg cur _ _ (hsStars_all hP cfg ps) h

/-! ### small pieces -/

theorem restrictExtendedSlash_all (cfg : Cfg) (g : Re) (h : restrictExtendedSlash cfg = some g) :
    P g := by
  unfold restrictExtendedSlash at h
  split at h
  · cases h; exact hP.seqPath _
  · cases h

theorem handleDot_all (cfg : Cfg) (ps : PS) (it : It) : P (handleDot cfg ps it) := by
  unfold handleDot
  dsimp only
  repeat' split
  all_goals first | exact hP.guardedDot _ | exact hP.lit _

theorem qmarkItem_all (cfg : Cfg) (ps : PS) : (qmarkItem cfg ps).1.All P := by
  unfold qmarkItem
  dsimp only
  exact hP.catE (hP.restrictSequence cfg ps) hP.qmark

end

/-- what the pass needs from `sequence` -/
def SeqOK (P : Re → Prop) (J : List Char → Prop) (cfg : Cfg) : Prop :=
  ∀ (ps : PS) (it : It) (r : Re) (ps' : PS) (it' : It), JI J it →
    sequence cfg ps it = some (r, ps', it') → P r ∧ JI J it'

/-- the drive items handed to the parser are `P` -/
def DriveP (P : Re → Prop) (drive : List Char → DriveInfo) : Prop :=
  ∀ q items, (drive q).drive = some items → Item.AllL P items

section
variable {P : Re → Prop} {J : List Char → Prop} (hP : Lift P) (hJ : TextInv J)
include hP hJ

theorem references_val_lift {cfg : Cfg} {ps ps' : PS} {it it' : It} {v : Re}
    (h : references cfg ps it = .val v it' ps') (hi : JI J it) : P v ∧ JI J it' := by
  unfold references at h
  split at h
  · cases h
  · rename_i c it1 hn
    have h1 := JI.next hJ hi hn
    have hsep : ∀ (q : PS),
        P (if (!q.inList) = true then (Frag.sepPlus cfg.win, q.setStartDir)
         else (match restrictExtendedSlash cfg with
               | some g => Re.cat g (Frag.sep cfg.win)
               | none => Frag.sep cfg.win, q)).1 := by
      intro q
      split
      · exact hP.sepPlus _
      · dsimp only
        split
        · rename_i g hg
          exact hP.cat (restrictExtendedSlash_all hP cfg g hg) (hP.sep _)
        · exact hP.sep _
    dsimp only at h
    split at h
    · split at h
      · cases h; exact ⟨hsep ps, h1⟩
      · split at h
        · cases h; exact ⟨hP.sep _, h1⟩
        · cases h; exact ⟨hP.lit _, h1⟩
    · split at h
      · split at h
        · cases h; exact ⟨hsep ps, h1⟩
        · cases h; exact ⟨hP.sep _, h1⟩
      · split at h
        · cases h
        · cases h; exact ⟨hP.lit _, h1⟩

omit hP hJ in
theorem references_dot_lift {cfg : Cfg} {ps : PS} {it it' : It}
    (h : references cfg ps it = .dot it') (hi : JI J it) : JI J it' := by
  unfold references at h
  split at h
  · cases h
  · dsimp only at h
    repeat' split at h
    all_goals first | (cases h; done) | (cases h; exact hi)

/-! ### `parse_extend` -/

omit hP hJ in
def ExtP (P : Re → Prop) (J : List Char → Prop) (cfg : Cfg) (fuel : Nat) : Prop :=
  ∀ (lt : Char) (it : It) (ps : PS) (cur : List Item) (rd : Bool) (b : Bool) (ps' : PS) (it' : It)
    (cur' : List Item), JI J it → Item.AllL P cur →
    parseExtend cfg fuel lt it ps cur rd = (b, ps', it', cur') → JI J it' ∧ Item.AllL P cur'

omit hP hJ in
def ExtLoopP (P : Re → Prop) (J : List Char → Prop) (cfg : Cfg) (fuel : Nat) : Prop :=
  ∀ (it : It) (ps : PS) (ext : List Item) (ta tn : Bool) (ps' : PS) (it' : It) (ext' : List Item),
    JI J it → Item.AllL P ext →
    extLoop cfg fuel it ps ext ta tn = .ok (ps', it', ext') → JI J it' ∧ Item.AllL P ext'

theorem pe_step_lift (cfg : Cfg) (n : Nat) (ihE : ExtLoopP P J cfg n) : ExtP P J cfg (n+1) := by
  intro lt it ps cur rd b ps' it' cur' hi hc h
  unfold parseExtend at h
  extract_lets tDirStart tAfterStart tInList tInvExt tInvNest ps1 ps2 index finish fail at h
  have hfail : ∀ q, fail q = (b, ps', it', cur') → JI J it' ∧ Item.AllL P cur' := by
    intro q hq
    have h1 : it = it' := congrArg (·.2.2.1) hq
    have h2 : cur = cur' := congrArg (·.2.2.2) hq
    subst h1 h2
    exact ⟨hi, hc⟩
  split at h
  · exact hfail _ h
  · rename_i c it1 hn
    split at h
    · exact hfail _ h
    · split at h
      · exact hfail _ h
      · rename_i ps3 it3 extended hext
        obtain ⟨hi3, he3⟩ := ihE it1 _ [] _ _ _ _ _ (JI.next hJ hi hn) (by trivial) hext
        have hbody : Item.AllL P extended.reverse := Item.allL_reverse he3
        extract_lets body ps6 star1 star2 at h
        split at h
        rename_i cur1 ps4 hX
        split at h
        rename_i cur2 ps5 hY
        have h1 : it3 = it' := congrArg (·.2.2.1) h
        have h2 : cur2 = cur' := congrArg (·.2.2.2) h
        subst h1 h2
        refine ⟨hi3, ?_⟩
        have hstar : P star2 := by
          have h1 : P star1 := by
            show P (if _ then _ else _)
            repeat' split
            all_goals first
              | exact hP.pathStar _ | exact hP.pathStarDot2 _
              | exact hP.pathStarDot1 _ | exact hP.fstar
              | exact hP.cat hP.noDot hP.fstar
          show P (if _ then _ else _)
          split
          · exact hP.cat (hP.cfg_needChar cfg) h1
          · exact h1
        have hc1 : Item.AllL P cur1 := by
          repeat' split at hX
          all_goals
            cases hX
            first
              | exact ⟨hbody, hc⟩
              | exact ⟨hstar, hbody, hc⟩
        split at hY
        · have := cleanUpInverse_all hP cfg ps4 cur1 (tInvNest && ps4.invNest) hc1
          rw [hY] at this
          exact this
        · cases hY
          exact hc1

theorem el_step_lift (cfg : Cfg) (hseq : SeqOK P J cfg) (n : Nat) (ihP : ExtP P J cfg n)
    (ihE : ExtLoopP P J cfg n) : ExtLoopP P J cfg (n+1) := by
  intro it ps ext ta tn ps' it' ext' hi hc h
  unfold extLoop at h
  split at h
  · cases h
  · rename_i c it1 hn
    have hi1 := JI.next hJ hi hn
    extract_lets continue_ extRes at h
    have hcont : ∀ q i e u, JI J i → Item.AllL P e → continue_ q i e u = .ok (ps', it', ext') →
        JI J it' ∧ Item.AllL P ext' := by
      intro q i e u hi' he' hk
      simp only [continue_] at hk
      split at hk
      · cases hk; exact ⟨hi', he'⟩
      · exact ihE _ _ _ _ _ _ _ _ hi' he' hk
    clear_value continue_
    generalize hER : extRes = er at h
    simp only [extRes] at hER
    clear extRes
    split at h
    · rename_i ps2 it2 ext2
      split at hER
      · simp only [Option.some.injEq] at hER
        obtain ⟨hi2, he2⟩ := ihP _ _ _ _ _ _ _ _ _ hi1 hc hER
        exact (fun a b => hcont _ _ _ _ a b h) hi2 he2
      · cases hER
    · extract_lets psq at h
      clear_value psq
      split at h
      · -- star
        have h1 := handleStar_ji hJ cfg psq ext hi1
        have h2 := handleStar_all hP cfg psq it1 hc
        rcases hs : handleStar cfg psq it1 ext with ⟨p3, i3, e3⟩
        rw [hs] at h h1 h2
        exact (fun a b => hcont _ _ _ _ a b h) h1 h2
      · split at h
        · exact (fun a b => hcont _ _ _ _ a b h) hi1 ⟨handleDot_all hP cfg psq it1, hc⟩
        · split at h
          · have h2 := qmarkItem_all hP cfg psq
            rcases hq : qmarkItem cfg psq with ⟨q3, p3⟩
            rw [hq] at h h2
            exact (fun a b => hcont _ _ _ _ a b h) hi1 ⟨h2, hc⟩
          · split at h
            · refine (fun a b => hcont _ _ _ _ a b h) hi1 ⟨hP.sep _, ?_⟩
              show Item.AllL P (match restrictExtendedSlash cfg with
                | some g => Item.re g :: ext
                | none => ext)
              split
              · rename_i g hg
                exact ⟨restrictExtendedSlash_all hP cfg g hg, hc⟩
              · exact hc
            · split at h
              · split at h
                rename_i e3 p3 hcl
                have he3 : Item.AllL P e3 := by
                  split at hcl
                  · have := cleanUpInverse_all hP cfg psq ext tn hc
                    rw [hcl] at this
                    exact this
                  · cases hcl; exact hc
                exact (fun a b => hcont _ _ _ _ a b h) hi1 ⟨trivial, he3⟩
              · split at h
                · split at h
                  · rename_i v i3 p3 hr
                    obtain ⟨hv, hi3⟩ := references_val_lift hP hJ hr hi1
                    exact (fun a b => hcont _ _ _ _ a b h) hi3 ⟨hv, hc⟩
                  · rename_i i3 hr
                    exact (fun a b => hcont _ _ _ _ a b h) (references_dot_lift hr hi1) hc
                  · exact (fun a b => hcont _ _ _ _ a b h) hi1 hc
                · split at h
                  · split at h
                    · rename_i r p3 i3 hsq
                      obtain ⟨hr, hi3⟩ := hseq _ _ _ _ _ hi1 hsq
                      exact (fun a b => hcont _ _ _ _ a b h) hi3 ⟨hr, hc⟩
                    · exact (fun a b => hcont _ _ _ _ a b h) hi1 ⟨hP.lit _, hc⟩
                  · split at h
                    · exact (fun a b => hcont _ _ _ _ a b h) hi1 ⟨hP.lit _, hc⟩
                    · exact (fun a b => hcont _ _ _ _ a b h) hi1 hc

theorem pe_el_lift (cfg : Cfg) (hseq : SeqOK P J cfg) :
    ∀ fuel, ExtP P J cfg fuel ∧ ExtLoopP P J cfg fuel := by
  intro fuel
  induction fuel with
  | zero =>
    constructor
    · intro lt it ps cur rd b ps' it' cur' hi hc h
      simp only [parseExtend, Prod.mk.injEq] at h
      obtain ⟨_, _, rfl, rfl⟩ := h
      exact ⟨hi, hc⟩
    · intro it ps ext ta tn ps' it' ext' hi hc h
      simp [extLoop] at h
  | succ n ih => exact ⟨pe_step_lift hP hJ cfg n ih.2, el_step_lift hP hJ cfg hseq n ih.1 ih.2⟩

/-! ### `root` and `_parse` -/

theorem rootLoop_lift (cfg : Cfg) (hseq : SeqOK P J cfg) : ∀ (fuel : Nat) (it : It) (ps : PS)
    (cur : List Item), JI J it → Item.AllL P cur → Item.AllL P (rootLoop cfg fuel it ps cur).2 := by
  intro fuel
  induction fuel with
  | zero => intro it ps cur _ hc; simpa [rootLoop] using hc
  | succ n ih =>
    intro it ps cur hi hc
    unfold rootLoop
    split
    · exact hc
    · rename_i c it1 hn
      have hi1 := JI.next hJ hi hn
      extract_lets extRes
      generalize hER : extRes = er
      simp only [extRes] at hER
      clear extRes
      split
      · rename_i ps2 it2 cur2
        split at hER
        · simp only [Option.some.injEq] at hER
          obtain ⟨hi2, he2⟩ := (pe_el_lift hP hJ cfg hseq _).1 _ _ _ _ _ _ _ _ _ hi1 hc hER
          exact ih _ _ _ hi2 he2
        · cases hER
      · extract_lets psq
        clear_value psq
        split
        · exact ih _ _ _ hi1 ⟨handleDot_all hP cfg psq it1, hc⟩
        · split
          · have h1 := handleStar_ji hJ cfg psq cur hi1
            have h2 := handleStar_all hP cfg psq it1 hc
            rcases hs : handleStar cfg psq it1 cur with ⟨p3, i3, e3⟩
            rw [hs] at h1 h2
            exact ih _ _ _ h1 h2
          · split
            · have h2 := qmarkItem_all hP cfg psq
              rcases hq : qmarkItem cfg psq with ⟨q3, p3⟩
              rw [hq] at h2
              exact ih _ _ _ hi1 ⟨h2, hc⟩
            · split
              · split
                · split
                  rename_i c3 p3 hcl
                  have h2 := cleanUpInverse_all' hP hcl hc
                  exact ih _ _ _ (JI.consumePathSep hJ cfg hi1) ⟨hP.sepPlus _, h2⟩
                · exact ih _ _ _ hi1 ⟨hP.sep _, hc⟩
              · split
                · split
                  · rename_i v i3 p3 hr
                    obtain ⟨hv, hi3⟩ := references_val_lift hP hJ hr hi1
                    split
                    · split
                      rename_i c4 p4 hcl
                      have h2 := cleanUpInverse_all' hP hcl hc
                      exact ih _ _ _ (JI.consumePathSep hJ cfg hi3) ⟨hv, h2⟩
                    · exact ih _ _ _ hi3 ⟨hv, hc⟩
                  · rename_i i3 hr
                    exact ih _ _ _ (references_dot_lift hr hi1) hc
                  · exact ih _ _ _ hi1 hc
                · split
                  · split
                    · rename_i r p3 i3 hsq
                      obtain ⟨hr, hi3⟩ := hseq _ _ _ _ _ hi1 hsq
                      exact ih _ _ _ hi3 ⟨hr, hc⟩
                    · exact ih _ _ _ hi1 ⟨hP.lit _, hc⟩
                  · exact ih _ _ _ hi1 ⟨hP.lit _, hc⟩

theorem root_lift (cfg : Cfg) (hseq : SeqOK P J cfg) (drive : List Char → DriveInfo)
    (hd : DriveP P drive) (pattern : List Char) (ps : PS) (cur : List Item) (hp : J pattern)
    (hc : Item.AllL P cur) (ps' : PS) (cur' : List Item)
    (h : root cfg drive pattern ps cur = .ok (ps', cur')) : Item.AllL P cur' := by
  unfold root at h
  extract_lets ps1 it0 d at h
  have hi0 : JI J it0 := hp
  split at h
  rename_i rs it1 cur1 hsel
  have hsel' : JI J it1 ∧ Item.AllL P cur1 := by
    split at hsel
    · split at hsel
      · rename_i items hitems
        have hitm : Item.AllL P items := hd pattern items hitems
        simp only [Prod.mk.injEq] at hsel
        obtain ⟨_, rfl, rfl⟩ := hsel
        refine ⟨JI.consumePathSep hJ cfg (JI.advance hJ hi0 _), ?_⟩
        have hrev := Item.allL_append (Item.allL_reverse hitm) hc
        split
        · exact ⟨hP.sepPlus _, hrev⟩
        · exact hrev
      · cases hsel; exact ⟨hi0, hc⟩
    · split at hsel
      · cases hsel; exact ⟨hi0, hc⟩
      · cases hsel; exact ⟨hi0, hc⟩
  obtain ⟨hi1, hc1⟩ := hsel'
  split at h
  · cases h
  · extract_lets ps2 cur2 at h
    have hc2 : Item.AllL P cur2 := by
      show Item.AllL P (if _ then _ else _)
      split
      · refine ⟨trivial, ?_, hc1⟩
        show P (if _ then _ else _)
        split
        · exact hP.noWinRoot
        · exact hP.noRoot
      · exact hc1
    have hrl := rootLoop_lift hP hJ cfg hseq (it1.rest.length + 1) it1 ps2 cur2 hi1 hc2
    split at h
    rename_i ps3 cur3 hrl'
    rw [hrl'] at hrl
    split at h
    rename_i cur4 ps4 hcl
    have hc4 := cleanUpInverse_all' hP hcl hrl
    simp only [Except.ok.injEq, Prod.mk.injEq] at h
    obtain ⟨_, rfl⟩ := h
    split
    · exact ⟨hP.pathTrail _, hc4⟩
    · exact hc4

theorem parsePrepend_lift (cfg : Cfg) (hseq : SeqOK P J cfg) (drive : List Char → DriveInfo)
    (hd : DriveP P drive) (ps ps' : PS) (pre : List Item)
    (h : parsePrepend cfg drive ps = .ok (ps', pre)) : Item.AllL P pre := by
  have hstar3 : J ['*', '*', '*'] := hJ.stars3
  have hstar2 : J ['*', '*'] := hJ.suffix ['*'] hstar3
  have hempty : Item.AllL P [Item.empty] := ⟨trivial, trivial⟩
  unfold parsePrepend at h
  split at h
  · split at h
    · exact root_lift hP hJ cfg hseq drive hd _ _ _ hstar3 hempty _ _ h
    · split at h
      · rename_i ps2 pre2 hr
        cases h
        exact root_lift hP hJ cfg hseq drive hd _ _ _ hstar2 hempty _ _ hr
      · cases h
  · cases h
    exact hempty

theorem parseBody_lift (cfg : Cfg) (hseq : SeqOK P J cfg) (drive : List Char → DriveInfo)
    (hd : DriveP P drive) (p : List Char) (hp : J p) (ps : PS) (pre : List Item)
    (hpre : Item.AllL P pre) (parsed : Parsed)
    (h : parseBody cfg drive p ps pre = .ok parsed) : Item.AllL P parsed.items := by
  have hempty : Item.AllL P [Item.empty] := ⟨trivial, trivial⟩
  unfold parseBody at h
  extract_lets p2 at h
  have hp2 : J p2 := by
    show J (if _ then _ else _)
    split
    · exact hJ.suffix ['*', '*', '*'] (by simpa using hJ.stars3)
    · exact hp
  split at h
  · cases h
  · rename_i ps2 result hr
    have hres : Item.AllL P result := by
      split at hr
      · cases hr; exact hempty
      · exact root_lift hP hJ cfg hseq drive hd _ _ _ hp2 hempty _ _ hr
    cases h
    apply Item.allL_reverse
    split
    · exact Item.allL_append hres hpre
    · exact hres

/-- **the generic lifting, items**: every regex inside the items `parseItems` returns is `P` -/
theorem parseItems_lift (cfg : Cfg) (hseq : SeqOK P J cfg) (drive : List Char → DriveInfo)
    (hd : DriveP P drive) (p : List Char) (hp : J p) (parsed : Parsed)
    (h : parseItems cfg drive p = .ok parsed) : Item.AllL P parsed.items := by
  unfold parseItems at h
  extract_lets ps0 a at h
  have ha : J a.1 := by
    show J (anchorStep cfg p ps0).1
    unfold anchorStep
    split
    · obtain ⟨pre, hpre⟩ := stripAnchor_suffix cfg.winDriveDetect p
      rw [hpre] at hp
      exact hJ.suffix pre hp
    · exact hp
  split at h
  · cases h
  · rename_i ps2 pre hpp
    exact parseBody_lift hP hJ cfg hseq drive hd _ ha _ _
      (parsePrepend_lift hP hJ cfg hseq drive hd _ _ _ hpp) _ h

end

/-! ### `Parsed.toRe` -/

section
variable {P : Re → Prop} (hP : Lift P)

theorem splitBars_all : ∀ (l : List Item), Item.AllL P l → ∀ part ∈ splitBars l, Item.AllL P part := by
  intro l
  induction l with
  | nil => intro _ part hp; simp [splitBars] at hp; subst hp; trivial
  | cons x rest ih =>
    intro h part hp
    have hx : x.All P := h.1
    have ih' := ih h.2
    cases x
    case bar =>
      simp only [splitBars, List.mem_cons] at hp
      rcases hp with rfl | hp
      · trivial
      · exact ih' part hp
    all_goals
      simp only [splitBars] at hp
      split at hp
      · simp at hp; subst hp; exact ⟨hx, trivial⟩
      · rename_i a as heq
        simp only [List.mem_cons] at hp
        rcases hp with rfl | hp
        · exact ⟨hx, ih' a (by rw [heq]; simp)⟩
        · exact ih' part (by rw [heq]; simp [hp])

def SeqToReP (P : Re → Prop) (fuel : Nat) : Prop :=
  ∀ (l : List Item) (r : Re), Item.AllL P l → Item.seqToRe fuel l = some r → P r
def ListToReP (P : Re → Prop) (fuel : Nat) : Prop :=
  ∀ (l : List Item) (r : Re), Item.AllL P l → Item.listToRe fuel l = some r → P r

include hP

theorem lr_step_lift (n : Nat) (ihS : SeqToReP P n) : ListToReP P (n+1) := by
  intro l r hl h
  simp only [Item.listToRe] at h
  cases hm : (splitBars l).mapM (Item.seqToRe n) with
  | none => simp [hm] at h
  | some parts =>
    simp [hm] at h
    subst h
    apply hP.altOfList
    exact mapM_option_forall _ _ _ _ hm (fun x hx y hy => ihS x y (splitBars_all l hl x hx) hy)

theorem sr_step_lift (n : Nat) (ihS : SeqToReP P n) (ihL : ListToReP P n) : SeqToReP P (n+1) := by
  intro l r hl h
  unfold Item.seqToRe at h
  split at h
  · cases h
  · cases h; exact hP.eps
  · rename_i f cap body tail eop star rest heq
    cases heq
    obtain ⟨hbody, ⟨htail, heop, hstar⟩, hrest⟩ := hl
    simp only [Option.bind_eq_bind, Option.bind_eq_some_iff, Option.pure_def, Option.some.injEq] at h
    obtain ⟨b, hb, la, hla, rr, hr, rfl⟩ := h
    have hbw := ihL _ _ hbody hb
    have hlaw : P la := by
      refine ihL _ _ ?_ hla
      refine Item.allL_cons (x := .re b.grp) (hP.grp hbw) (Item.allL_append htail ?_)
      split
      · rename_i e
        exact ⟨heop e rfl, trivial⟩
      · trivial
    refine hP.catE' ?_ (ihS _ _ hrest hr)
    split
    · exact hP.cap (hP.cat (hP.lookNeg hlaw) hstar)
    · exact hP.grp (hP.cat (hP.lookNeg hlaw) hstar)
  · rename_i f r0 rest heq
    cases heq
    cases hr : Item.seqToRe n rest with
    | none => simp [hr] at h
    | some rr =>
      simp [hr] at h
      subst h
      exact hP.catE' hl.1 (ihS _ _ hl.2 hr)
  · rename_i f rest heq
    cases heq
    exact ihS _ _ hl.2 h
  · rename_i f k cap body rest heq
    cases heq
    cases hb : Item.listToRe n body with
    | none => simp [hb] at h
    | some b =>
      cases hr : Item.seqToRe n rest with
      | none => simp [hb, hr] at h
      | some rr =>
        simp [hb, hr] at h
        subst h
        exact hP.catE' (hP.quant _ _ (ihL _ _ hl.1 hb)) (ihS _ _ hl.2 hr)
  · cases h

theorem sr_lr_lift : ∀ fuel, SeqToReP P fuel ∧ ListToReP P fuel := by
  intro fuel
  induction fuel with
  | zero =>
    constructor
    · intro l r _ h; simp [Item.seqToRe] at h
    · intro l r _ h; simp [Item.listToRe] at h
  | succ n ih => exact ⟨sr_step_lift hP n ih.1 ih.2, lr_step_lift hP n ih.1⟩

/-- **the generic lifting, `Parsed.toRe`**: the regex is `^(?s[i]:inner)$` with `P inner` -/
theorem toRe_lift (p : Parsed) (r : Re) (hp : Item.AllL P p.items) (h : p.toRe = some r) :
    ∃ inner, r = .cat .bos (.cat (.flags true p.ci inner) .eos) ∧ P inner := by
  unfold Parsed.toRe at h
  cases hl : Item.listToRe (2 * Item.sizeL p.items + 4) p.items with
  | none => simp [hl] at h
  | some inner =>
    simp [hl] at h
    subst h
    exact ⟨inner, rfl, (sr_lr_lift hP _).2 _ _ hp hl⟩

end

/-- **the generic lifting, whole pass** -/
theorem parse_lift {P : Re → Prop} {J : List Char → Prop} (hP : Lift P) (hJ : TextInv J)
    (cfg : Cfg) (hseq : SeqOK P J cfg) (drive : List Char → DriveInfo) (hd : DriveP P drive)
    (p : List Char) (hp : J p) (parsed : Parsed) (r : Re)
    (h : parseItems cfg drive p = .ok parsed) (hr : parsed.toRe = some r) :
    ∃ inner, r = .cat .bos (.cat (.flags true parsed.ci inner) .eos) ∧ P inner :=
  toRe_lift hP parsed r (parseItems_lift hP hJ cfg hseq drive hd p hp parsed h) hr

/-- the shape the task statement asks for -/
theorem parse_lift_inner {P : Re → Prop} {J : List Char → Prop} (hP : Lift P) (hJ : TextInv J)
    (cfg : Cfg) (hseq : SeqOK P J cfg) (drive : List Char → DriveInfo) (hd : DriveP P drive)
    (p : List Char) (hp : J p) (parsed : Parsed) (ci : Bool) (inner : Re)
    (h : parseItems cfg drive p = .ok parsed)
    (hr : parsed.toRe = some (.cat .bos (.cat (.flags true ci inner) .eos))) : P inner := by
  obtain ⟨inner', he, hi⟩ := parse_lift hP hJ cfg hseq drive hd p hp parsed _ h hr
  cases he
  exact hi

/-! ### `sequence` returns a class (possibly behind the `restrictSequence` guard) -/

theorem sequence_shape (cfg : Cfg) (ps : PS) (it : It) (r : Re) (ps' : PS) (it' : It)
    (h : sequence cfg ps it = some (r, ps', it')) :
    ∃ neg items, r = .cls neg items ∨ r = catE (restrictSequence cfg ps).1 (.cls neg items) := by
  unfold sequence at h
  split at h
  · cases h
  · dsimp only at h
    split at h
    · cases h
    · split at h
      · cases h
      · split at h
        · cases h
        · rename_i itE stE hloop
          split at h
          · simp only [Option.some.injEq, Prod.mk.injEq] at h
            obtain ⟨rfl, _, _⟩ := h
            repeat' split
            all_goals exact ⟨_, _, .inr rfl⟩
          · simp only [Option.some.injEq, Prod.mk.injEq] at h
            obtain ⟨rfl, _, _⟩ := h
            repeat' split
            all_goals exact ⟨_, _, .inl rfl⟩

/-! ### `sequence` leaves a suffix of the text it was given -/

theorem It.next_suffix {it it' : It} {c : Char} (h : it.next = some (c, it')) :
    ∃ pre, it.rest = pre ++ it'.rest := ⟨[c], (It.next_some h).1⟩

theorem suffix_trans {a b c : List Char} (h1 : ∃ pre, a = pre ++ b) (h2 : ∃ pre, b = pre ++ c) :
    ∃ pre, a = pre ++ c := by
  obtain ⟨p1, rfl⟩ := h1
  obtain ⟨p2, rfl⟩ := h2
  exact ⟨p1 ++ p2, by simp⟩

theorem seqLoopG_suffix (fix : Bool) (cfg : Cfg) : ∀ (fuel : Nat) (c : Char) (it : It) (st : SeqSt)
    (it' : It) (st' : SeqSt), seqLoopG fix cfg fuel c it st = some (it', st') →
    ∃ pre, it.rest = pre ++ it'.rest := by
  intro fuel
  induction fuel with
  | zero => intro c it st it' st' h; simp [seqLoopG] at h
  | succ n ih =>
    intro c it st it' st' h
    unfold seqLoopG at h
    split at h
    · cases h; exact ⟨[], rfl⟩
    · split at h
      · split at h
        · cases h
        · rename_i c' i' hn
          exact suffix_trans (It.next_suffix hn) (ih _ _ _ _ _ h)
      · split at h
        · rename_i i1 res hp
          split at h
          · cases h
          · rename_i c' i2 hn
            have hp' : ∃ pre, it.rest = pre ++ i1.rest := by
              split at hp
              · exact (handlePosix_spec hp).2.1
              · cases hp
            exact suffix_trans hp' (suffix_trans (It.next_suffix hn) (ih _ _ _ _ _ h))
        · split at h
          · cases h
          · rename_i value i2 hv
            split at h
            · cases h
            · rename_i c' i3 hn
              have hv' : ∃ pre, it.rest = pre ++ i2.rest := by
                rcases (valueOf_spec hv).2 with rfl | ⟨_, x, hx, _⟩
                · exact ⟨[], rfl⟩
                · exact ⟨[x], hx⟩
              exact suffix_trans hv' (suffix_trans (It.next_suffix hn) (ih _ _ _ _ _ h))

/-- `sequence` only consumes: the iterator it returns reads a suffix of the text it was given -/
theorem sequence_suffix (cfg : Cfg) (ps : PS) (it : It) (r : Re) (ps' : PS) (it' : It)
    (h : sequence cfg ps it = some (r, ps', it')) : ∃ pre, it.rest = pre ++ it'.rest := by
  rw [← sequenceG_true] at h
  unfold sequenceG at h
  split at h
  · cases h
  · rename_i c0 it0 hn0
    refine suffix_trans (It.next_suffix hn0) ?_
    dsimp only at h
    split at h
    · cases h
    · rename_i neg c1 it1 hs1
      have h1 : ∃ pre, it0.rest = pre ++ it1.rest := by
        split at hs1
        · split at hs1
          · cases hs1
          · rename_i c' it'' hn
            cases hs1
            exact It.next_suffix hn
        · cases hs1; exact ⟨[], rfl⟩
      refine suffix_trans h1 ?_
      split at h
      · cases h
      · rename_i c2 it2 res2 lp2 hs2
        have h2 : ∃ pre, it1.rest = pre ++ it2.rest := by
          split at hs2
          · split at hs2
            · rename_i itp resp hp
              split at hs2
              · cases hs2
              · rename_i c' it'' hn
                cases hs2
                exact suffix_trans (handlePosix_spec hp).2.1 (It.next_suffix hn)
            · split at hs2
              · cases hs2
              · rename_i c' it'' hn
                cases hs2
                exact It.next_suffix hn
          · split at hs2
            · split at hs2
              · cases hs2
              · rename_i c' it'' hn
                cases hs2
                exact It.next_suffix hn
            · cases hs2; exact ⟨[], rfl⟩
        refine suffix_trans h2 ?_
        split at h
        · cases h
        · rename_i itE stE hloop
          have h3 := seqLoopG_suffix true cfg _ _ _ _ _ _ hloop
          split at h
          · cases h; exact h3
          · cases h; exact h3

/-- for a predicate true of every class, `sequence` preserves every text invariant -/
theorem SeqOK.ofSuffix {P : Re → Prop} {J : List Char → Prop} (hP : Lift P) (hJ : TextInv J)
    (hcls : ∀ neg items, P (.cls neg items)) (cfg : Cfg) : SeqOK P J cfg := by
  intro ps it r ps' it' hi h
  refine ⟨?_, ?_⟩
  · obtain ⟨neg, items, rfl | rfl⟩ := sequence_shape cfg ps it r ps' it' h
    · exact hcls _ _
    · exact hP.catE (hP.restrictSequence cfg ps) (hcls _ _)
  · obtain ⟨pre, hp⟩ := sequence_suffix cfg ps it r ps' it' h
    unfold JI at *
    rw [hp] at hi
    exact hJ.suffix pre hi

/-- for a predicate true of every class, `sequence` needs no text invariant -/
theorem SeqOK.ofCls {P : Re → Prop} (hP : Lift P) (hcls : ∀ neg items, P (.cls neg items)) (cfg : Cfg) :
    SeqOK P (fun _ => True) cfg := by
  intro ps it r ps' it' _ h
  refine ⟨?_, trivial⟩
  obtain ⟨neg, items, rfl | rfl⟩ := sequence_shape cfg ps it r ps' it' h
  · exact hcls _ _
  · exact hP.catE (hP.restrictSequence cfg ps) (hcls _ _)

/-- **the generic lifting for class-indifferent predicates** (no text invariant needed) -/
theorem parse_lift_cls {P : Re → Prop} (hP : Lift P) (hcls : ∀ neg items, P (.cls neg items))
    (cfg : Cfg) (drive : List Char → DriveInfo) (hd : DriveP P drive)
    (p : List Char) (parsed : Parsed) (r : Re)
    (h : parseItems cfg drive p = .ok parsed) (hr : parsed.toRe = some r) :
    ∃ inner, r = .cat .bos (.cat (.flags true parsed.ci inner) .eos) ∧ P inner :=
  parse_lift hP TextInv.trivial cfg (SeqOK.ofCls hP hcls cfg) drive hd p trivial parsed r h hr

/-! ### the Windows drive prefix -/

section
variable {P : Re → Prop} (hP : Lift P)
include hP

theorem joinSep_lift : ∀ l : List Re, (∀ r ∈ l, P r) → P (Win.joinSep l)
  | [], _ => hP.eps
  | [r], h => h r (by simp)
  | r :: r2 :: rs, h => by
    unfold Win.joinSep
    exact hP.cat (h r (by simp)) (hP.cat (hP.sep true)
      (joinSep_lift (r2 :: rs) (fun x hx => h x (List.mem_cons_of_mem _ hx))))

/-- the real drive scanner only emits `\\`-prefix `[\\/]{2}`, `escape_drive` texts and separators -/
theorem winDrive_lift (cfg : Cfg) (hrep : P (.rep 2 2 (Frag.sep true)))
    (hesc : ∀ s, P (Win.escapeDrive s cfg.caseSensitive)) : DriveP P (winDrive cfg) := by
  intro q items h
  unfold winDrive at h
  extract_lets none_ altA fin tryFrom altB at h
  have hnone : ∀ b, (none_ b).drive = some items → Item.AllL P items := by
    intro b hb; simp [none_] at hb
  clear_value altA altB
  clear fin tryFrom
  split at h
  · extract_lets part0 isSpecial st at h
    split at h
    · simp only [Option.some.injEq] at h
      subst h
      refine ⟨hP.cat hrep (joinSep_lift hP _ ?_), trivial⟩
      intro r hr
      obtain ⟨q', _, rfl⟩ := List.mem_map.1 hr
      exact hesc _
    · exact hnone _ h
  · split at h
    · extract_lets g0 letterOk at h
      split at h
      · simp only [Option.some.injEq] at h
        subst h
        exact ⟨hesc _, trivial⟩
      · exact hnone _ h
    · split at h <;> exact hnone _ h

theorem litsOf_lift : ∀ s : List Char, P (Win.litsOf s)
  | [] => hP.eps
  | [c] => hP.lit c
  | c :: d :: rest => by
    unfold Win.litsOf
    exact hP.cat (hP.lit c) (litsOf_lift (d :: rest))

end

/-- a `drive` that never returns items -/
theorem DriveP.ofNone {P : Re → Prop} (drive : List Char → DriveInfo)
    (h : ∀ q, (drive q).drive = none) : DriveP P drive := by
  intro q items hq
  rw [h q] at hq
  cases hq

/-! ### check: `C10cls.parse_clsWF` re-derived from the generic theorem -/

theorem Lift.clsWF : Lift Re.ClsWF where
  eps := trivial
  lit := fun _ => trivial
  eos := trivial
  cat := fun ha hb => ⟨ha, hb⟩
  alt := fun ha hb => ⟨ha, hb⟩
  grp := fun h => h
  cap := fun h => h
  gcap := fun h => h
  opt := fun h => h
  star := fun h => h
  plus := fun h => h
  lookNeg := fun h => h
  sep := Frag.sep_clsWF
  pathEop := Frag.pathEop_clsWF
  noDir := Frag.noDir_clsWF
  seqPath := Frag.seqPath_clsWF
  seqPathDot := Frag.seqPathDot_clsWF
  pathStar := Frag.pathStar_clsWF
  pathStarDot1 := Frag.pathStarDot1_clsWF
  pathStarDot2 := Frag.pathStarDot2_clsWF
  pathGstarDot1 := Frag.pathGstarDot1_clsWF
  pathGstarDot2 := Frag.pathGstarDot2_clsWF
  noDot := Frag.noDot_clsWF
  fstar := Frag.star_clsWF
  qmark := Frag.qmark_clsWF
  needCharPath := Frag.needCharPath_clsWF
  needChar := Frag.needChar_clsWF
  needSep := Frag.needSep_clsWF
  globstarDiv := Frag.globstarDiv_clsWF
  pathTrail := Frag.pathTrail_clsWF
  sepPlus := Frag.sepPlus_clsWF
  noRoot := Frag.noRoot_clsWF
  noWinRoot := Frag.noWinRoot_clsWF
  guardedDot := Frag.guardedDot_clsWF

theorem SeqOK.clsWF (cfg : Cfg) : SeqOK Re.ClsWF (QOK true) cfg := by
  intro ps it r ps' it' hi h
  rw [← sequenceG_true] at h
  exact sequenceG_clsWF true cfg ps it r ps' it' hi h

theorem winDrive_clsWF (cfg : Cfg) : DriveP Re.ClsWF (winDrive cfg) :=
  winDrive_lift Lift.clsWF cfg (Frag.sep_clsWF true) (fun s => by
    unfold Win.escapeDrive
    split
    · exact litsOf_lift Lift.clsWF s
    · exact litsOf_lift Lift.clsWF s)

/-- `C10cls.parse_clsWF_winDrive`, from the generic lifting -/
theorem parse_clsWF' (cfg : Cfg) (p : List Char) (parsed : Parsed) (r : Re)
    (h : parseItems cfg (winDrive cfg) p = .ok parsed) (hr : parsed.toRe = some r) : Re.ClsWF r := by
  obtain ⟨inner, rfl, hi⟩ := parse_lift Lift.clsWF (TextInv.qok true) cfg (SeqOK.clsWF cfg)
    (winDrive cfg) (winDrive_clsWF cfg) p (.inl rfl) parsed r h hr
  exact ⟨trivial, hi, trivial⟩

end WcModel

import WcModel.Model.Frag
/-
  The model's fragment ASTs print to exactly the text the translator read from the source.
  A change to any regex constant of `_wcparse.py` changes `Generated.lean` and breaks the
  corresponding theorem below (a proof obligation), independently of any sampling.
-/
namespace WcModel.FragRender
open WcModel Frag

/-- `s.format(sep=…)`-style instantiation is already done by the translator for the unix
    (`iU_*`) and windows (`iW_*`) separators; module-level constants are `c_*`. -/
theorem sep_U : (sep false).render = Gen.iU_sep.toList := by decide +kernel
theorem sep_W : (sep true).render = Gen.iW_sep.toList := by decide +kernel
theorem pathEop_U : (pathEop false).render = Gen.iU_path_eop.toList := by decide +kernel
theorem pathEop_W : (pathEop true).render = Gen.iW_path_eop.toList := by decide +kernel
theorem noDir_U : (noDir false).render = Gen.iU_no_dir.toList := by decide +kernel
theorem noDir_W : (noDir true).render = Gen.iW_no_dir.toList := by decide +kernel
theorem seqPath_U : (seqPath false).render = Gen.iU_seq_path.toList := by decide +kernel
theorem seqPath_W : (seqPath true).render = Gen.iW_seq_path.toList := by decide +kernel
theorem seqPathDot_U : (seqPathDot false).render = Gen.iU_seq_path_dot.toList := by decide +kernel
theorem seqPathDot_W : (seqPathDot true).render = Gen.iW_seq_path_dot.toList := by decide +kernel
theorem pathStar_U : (pathStar false).render = Gen.iU_path_star.toList := by decide +kernel
theorem pathStar_W : (pathStar true).render = Gen.iW_path_star.toList := by decide +kernel
theorem pathStarDot1_U : (pathStarDot1 false).render = Gen.iU_path_star_dot1.toList := by decide +kernel
theorem pathStarDot1_W : (pathStarDot1 true).render = Gen.iW_path_star_dot1.toList := by decide +kernel
theorem pathStarDot2_U : (pathStarDot2 false).render = Gen.iU_path_star_dot2.toList := by decide +kernel
theorem pathStarDot2_W : (pathStarDot2 true).render = Gen.iW_path_star_dot2.toList := by decide +kernel
theorem pathGstarDot1_U : (pathGstarDot1 false).render = Gen.iU_path_gstar_dot1.toList := by decide +kernel
theorem pathGstarDot1_W : (pathGstarDot1 true).render = Gen.iW_path_gstar_dot1.toList := by decide +kernel
theorem pathGstarDot2_U : (pathGstarDot2 false).render = Gen.iU_path_gstar_dot2.toList := by decide +kernel
theorem pathGstarDot2_W : (pathGstarDot2 true).render = Gen.iW_path_gstar_dot2.toList := by decide +kernel
theorem needCharPath_U : (needCharPath false).render = Gen.iU_need_char.toList := by decide +kernel
theorem needCharPath_W : (needCharPath true).render = Gen.iW_need_char.toList := by decide +kernel
theorem needChar_fn : needChar.render = Gen.iFn_need_char.toList := by decide +kernel
theorem needChar_c : needChar.render = Gen.c_NEED_CHAR.toList := by decide +kernel
theorem noDot_c : noDot.render = Gen.c_NO_DOT.toList := by decide +kernel
theorem star_c : star.render = Gen.c_STAR.toList := by decide +kernel
theorem qmark_c : qmark.render = Gen.c_QMARK.toList := by decide +kernel
theorem eop_c : Re.eos.render = Gen.c_EOP.toList := by decide +kernel
theorem noRoot_c : noRoot.render = Gen.c_NO_ROOT.toList := by decide +kernel
theorem noWinRoot_c : noWinRoot.render = Gen.c_NO_WIN_ROOT.toList := by decide +kernel
theorem noNixDir_c : noNixDir.render = Gen.cNO_NIX_DIR.toList := by decide +kernel
theorem noNixDir_b : noNixDir.render = Gen.cNO_NIX_DIR_b.toList := by decide +kernel
theorem noWinDir_c : noWinDir.render = Gen.cNO_WIN_DIR.toList := by decide +kernel
theorem noWinDir_b : noWinDir.render = Gen.cNO_WIN_DIR_b.toList := by decide +kernel
theorem reNoDir_c : noNixDir.render = Gen.rRE_NO_DIR.toList := by decide +kernel
theorem reWinNoDir_c : noWinDir.render = Gen.rRE_WIN_NO_DIR.toList := by decide +kernel

/-- format-style constants: the template with `{}` / `{sep}` filled in -/
def fill (tmpl : List Char) (arg : List Char) : List Char :=
  match tmpl with
  | '{' :: '}' :: rest => arg ++ fill rest arg
  | c :: rest => c :: fill rest arg
  | [] => []

theorem globstarDiv_U : (globstarDiv false).render = fill Gen.c_GLOBSTAR_DIV.toList (sep false).render := by
  decide +kernel
theorem globstarDiv_W : (globstarDiv true).render = fill Gen.c_GLOBSTAR_DIV.toList (sep true).render := by
  decide +kernel
theorem needSep_U : (needSep false).render = fill Gen.c_NEED_SEP.toList (sep false).render := by decide +kernel
theorem needSep_W : (needSep true).render = fill Gen.c_NEED_SEP.toList (sep true).render := by decide +kernel
theorem pathTrail_U : (pathTrail false).render = fill Gen.c_PATH_TRAIL.toList (sep false).render := by decide +kernel
theorem pathTrail_W : (pathTrail true).render = fill Gen.c_PATH_TRAIL.toList (sep true).render := by decide +kernel
theorem sepPlus_U : (sepPlus false).render = (sep false).render ++ Gen.c_ONE_OR_MORE.toList := by decide +kernel
theorem sepPlus_W : (sepPlus true).render = (sep true).render ++ Gen.c_ONE_OR_MORE.toList := by decide +kernel

/-- the group templates, instantiated on a sample body `X` (the printer of `Item.group` is
    checked against every template of `_wcparse`) -/
theorem reEscape_set : reEscapeSet = Gen.reEscapeSet.toList := by decide +kernel

end WcModel.FragRender

import WcModel.Model.GlobWalk
/-
  C13: list algebra of `Glob.glob()` over several patterns — the `seen` set (`uniqEv`),
  exclusion and formatting per pattern (`patternOut`), concatenation.
-/
namespace WcModel

/-- the values an event list yields -/
def results {α : Type} (l : List (Ev α)) : List α := l.filterMap Ev.result?

@[simp] theorem results_nil {α : Type} : results ([] : List (Ev α)) = [] := rfl
@[simp] theorem results_cons_y {α : Type} (v : α) (l : List (Ev α)) : results (.y v :: l) = v :: results l := rfl
@[simp] theorem results_cons_scan {α : Type} (p : List Char) (l : List (Ev α)) : results (.scan p :: l) = results l := rfl
@[simp] theorem results_cons_oof {α : Type} (l : List (Ev α)) : results (.oof :: l) = results l := rfl

theorem results_append {α : Type} (a b : List (Ev α)) : results (a ++ b) = results a ++ results b := by
  simp [results, List.filterMap_append]

theorem results_flatMap {α β : Type} (l : List β) (f : β → List (Ev α)) :
    results (l.flatMap f) = l.flatMap (fun x => results (f x)) := by
  induction l with
  | nil => rfl
  | cons a r ih => simp [List.flatMap_cons, results_append, ih]

theorem mem_results {α : Type} {l : List (Ev α)} {v : α} : v ∈ results l ↔ Ev.y v ∈ l := by
  induction l with
  | nil => simp
  | cons e r ih =>
    cases e with
    | scan p => simp [ih]
    | oof => simp [ih]
    | y u => simp [ih]

theorem results_bindEv {α β : Type} (l : List (Ev α)) (f : α → List (Ev β)) :
    results (bindEv l f) = (results l).flatMap (fun v => results (f v)) := by
  induction l with
  | nil => rfl
  | cons e r ih =>
    have : bindEv (e :: r) f = bindEv [e] f ++ bindEv r f := by simp [bindEv]
    rw [this, results_append, ih]
    cases e with
    | scan p => simp [bindEv]
    | oof => simp [bindEv]
    | y u => simp [bindEv]

/-- the per-pattern result list: candidates of the walk, minus exclusions, formatted -/
def perPattern (w : WCtx) (fs : FS) (fuel : Nat) (p : List GPart) : List (List Char) :=
  results (patternOut w fs fuel p)

def dirOnlyOf (p : List GPart) : Bool := (p.getLast?.map (·.dirOnly)).getD false

/-- **exclusions**: a pattern's results are exactly the walk's candidates that no exclusion
    regex full-matches (on `path + '/'` for directories), formatted; and the walk does not
    look at the exclusions at all (`globPattern` takes `w.toWalkCfg`). -/
theorem perPattern_eq (w : WCtx) (fs : FS) (fuel : Nat) (p : List GPart) :
    perPattern w fs fuel p =
      ((results (globPattern w.toWalkCfg fs fuel p)).filter (fun v => !isExcluded w v)).map
        (formatPath w (dirOnlyOf p)) := by
  unfold perPattern patternOut
  rw [results_bindEv]
  generalize results (globPattern w.toWalkCfg fs fuel p) = l
  induction l with
  | nil => rfl
  | cons v r ih =>
    simp only [List.flatMap_cons, List.filter_cons]
    cases h : isExcluded w v
    · simp only [Bool.not_false, if_true, List.map_cons, Bool.false_eq_true, if_false]
      rw [ih]; rfl
    · simp only [Bool.not_true, Bool.false_eq_true, if_false, if_true]
      rw [ih]; rfl

/-! ### the `seen` set -/

theorem uniqEv_nounique (w : WCtx) (h : w.nounique = true) (seen : List (List Char))
    (l : List (Ev (List Char))) : uniqEv w seen l = l := by
  induction l generalizing seen with
  | nil => rfl
  | cons e r ih =>
    cases e with
    | scan p => simp [uniqEv, ih]
    | oof => simp [uniqEv, ih]
    | y p => simp [uniqEv, h, ih]

theorem mem_results_uniqEv (w : WCtx) {x : List Char} :
    ∀ (l : List (Ev (List Char))) (seen : List (List Char)), x ∈ results (uniqEv w seen l) → x ∈ results l := by
  intro l
  induction l with
  | nil => intro _ h; exact h
  | cons e r ih =>
    intro seen h
    cases e with
    | scan p => simp only [uniqEv, results_cons_scan] at h ⊢; exact ih seen h
    | oof => simp only [uniqEv, results_cons_oof] at h ⊢; exact ih seen h
    | y p =>
      simp only [uniqEv] at h
      simp only [results_cons_y, List.mem_cons]
      split at h
      · simp only [results_cons_y, List.mem_cons] at h
        exact h.elim Or.inl (fun h => Or.inr (ih _ h))
      · split at h
        · exact Or.inr (ih _ h)
        · simp only [results_cons_y, List.mem_cons] at h
          exact h.elim Or.inl (fun h => Or.inr (ih _ h))

theorem uniqEv_keys (w : WCtx) (h : w.nounique = false) :
    ∀ (l : List (Ev (List Char))) (seen : List (List Char)),
      ((results (uniqEv w seen l)).map (uniqKey w)).Nodup ∧
      ∀ x ∈ results (uniqEv w seen l), uniqKey w x ∉ seen := by
  intro l
  induction l with
  | nil => intro _; exact ⟨List.nodup_nil, fun _ hx => by cases hx⟩
  | cons e r ih =>
    intro seen
    cases e with
    | scan p => simpa [uniqEv] using ih seen
    | oof => simpa [uniqEv] using ih seen
    | y p =>
      simp only [uniqEv, h, Bool.false_eq_true, if_false]
      split
      · exact ih seen
      · rename_i hns
        obtain ⟨hnd, hout⟩ := ih (uniqKey w p :: seen)
        refine ⟨?_, ?_⟩
        · simp only [results_cons_y, List.map_cons, List.nodup_cons]
          refine ⟨?_, hnd⟩
          intro hin
          obtain ⟨y, hy, hk⟩ := List.mem_map.1 hin
          exact hout y hy (by rw [hk]; exact List.mem_cons_self)
        · intro x hx
          simp only [results_cons_y, List.mem_cons] at hx
          rcases hx with rfl | hx
          · exact hns
          · exact fun hin => hout x hx (List.mem_cons_of_mem _ hin)

theorem uniqEv_complete (w : WCtx) (h : w.nounique = false) {x : List Char} :
    ∀ (l : List (Ev (List Char))) (seen : List (List Char)), x ∈ results l →
      uniqKey w x ∈ seen ∨ ∃ y ∈ results (uniqEv w seen l), uniqKey w y = uniqKey w x := by
  intro l
  induction l with
  | nil => intro _ hx; cases hx
  | cons e r ih =>
    intro seen hx
    cases e with
    | scan p => simpa [uniqEv] using ih seen (by simpa using hx)
    | oof => simpa [uniqEv] using ih seen (by simpa using hx)
    | y p =>
      simp only [results_cons_y, List.mem_cons] at hx
      simp only [uniqEv, h, Bool.false_eq_true, if_false]
      split
      · rename_i hs
        rcases hx with rfl | hx
        · exact Or.inl hs
        · exact ih seen hx
      · rcases hx with rfl | hx
        · exact Or.inr ⟨x, by simp, rfl⟩
        · rcases ih (uniqKey w p :: seen) hx with hin | ⟨y, hy, hk⟩
          · rcases List.mem_cons.1 hin with heq | hin
            · exact Or.inr ⟨p, by simp, heq.symm⟩
            · exact Or.inl hin
          · exact Or.inr ⟨y, by simp [hy], hk⟩

theorem globResults_eq (w : WCtx) (fs : FS) (fuel : Nat) (ps : List (List GPart)) :
    globResults w fs fuel ps = results (uniqEv w [] (ps.flatMap (patternOut w fs fuel))) := rfl

theorem results_patterns (w : WCtx) (fs : FS) (fuel : Nat) (ps : List (List GPart)) :
    results (ps.flatMap (patternOut w fs fuel)) = ps.flatMap (perPattern w fs fuel) := by
  rw [results_flatMap]; rfl

/-- on a list whose keys are pairwise different (and not yet seen) the `seen` set changes nothing -/
theorem uniqEv_of_nodup (w : WCtx) :
    ∀ (l : List (Ev (List Char))) (seen : List (List Char)), ((results l).map (uniqKey w)).Nodup →
      (∀ x ∈ results l, uniqKey w x ∉ seen) → uniqEv w seen l = l := by
  intro l
  induction l with
  | nil => intro _ _ _; rfl
  | cons e r ih =>
    intro seen hnd hns
    cases e with
    | scan p => simp only [uniqEv]; rw [ih seen (by simpa using hnd) (by simpa using hns)]
    | oof => simp only [uniqEv]; rw [ih seen (by simpa using hnd) (by simpa using hns)]
    | y p =>
      simp only [results_cons_y, List.map_cons, List.nodup_cons] at hnd
      have hp : uniqKey w p ∉ seen := hns p (by simp)
      simp only [uniqEv, hp, if_false]
      split
      · rw [ih seen hnd.2 (fun x hx => hns x (by simp [hx]))]
      · rw [ih (uniqKey w p :: seen) hnd.2]
        intro x hx hin
        rcases List.mem_cons.1 hin with heq | hin
        · exact hnd.1 (List.mem_map.2 ⟨x, hx, heq⟩)
        · exact hns x (by simp [hx]) hin

end WcModel

import WcModel.Model.Frag
import WcModel.Proofs.Regex
import WcModel.Proofs.CharLemmas
import WcModel.Proofs.Comp
/-
  Semantics of the path-mode fragments (Unix separator), proved once over `Re.M`.
-/
namespace WcModel

theorem nonLetter_slash : nonLetter '/' := by unfold nonLetter; decide

theorem sepItems_unix : Frag.sepItems false = [.chr '/' false] := rfl

/-- `[/]` under either case mode accepts exactly `/` -/
theorem clsSlash_iff (ci : Bool) (d : Char) :
    clsMatch ci false (Frag.sepItems false) d = true ↔ d = '/' := by
  rw [sepItems_unix]; exact clsChr_iff nonLetter_slash ci false d

/-- `[^/]` accepts exactly the characters other than `/` -/
theorem clsNotSlash_iff (ci : Bool) (d : Char) :
    clsMatch ci true (Frag.sepItems false) d = true ↔ d ≠ '/' := by
  have h := clsSlash_iff ci d
  simp only [clsMatch] at h ⊢
  cases hx : (Frag.sepItems false).any (fun it => it.hasCi ci d) with
  | true =>
    rw [hx] at h
    have : d = '/' := h.mp (by decide)
    simp [this]
  | false =>
    rw [hx] at h
    have : ¬ d = '/' := fun hd => by have := h.mpr hd; simp at this
    simp [this]

def notSlash (d : Char) : Bool := d != '/'

theorem M_sep (md : Mode) (a b : St) :
    Re.M md (Frag.sep false) a b ↔ consume1 (fun d => d == '/') a b := by
  simp only [Frag.sep, Re.M]
  constructor
  · rintro ⟨d, s, h1, h2, h3⟩
    exact ⟨d, s, h1, by simpa using (clsSlash_iff md.ci d).mp h2, h3⟩
  · rintro ⟨d, s, h1, h2, h3⟩
    exact ⟨d, s, h1, (clsSlash_iff md.ci d).mpr (by simpa using h2), h3⟩

/-- one step of `[^/]` -/
theorem M_notSep (md : Mode) (a b : St) :
    Re.M md (.cls true (Frag.sepItems false)) a b ↔ consume1 notSlash a b := by
  simp only [Re.M]
  constructor
  · rintro ⟨d, s, h1, h2, h3⟩
    exact ⟨d, s, h1, by simpa [notSlash] using (clsNotSlash_iff md.ci d).mp h2, h3⟩
  · rintro ⟨d, s, h1, h2, h3⟩
    exact ⟨d, s, h1, (clsNotSlash_iff md.ci d).mpr (by simpa [notSlash] using h2), h3⟩

/-- `[^/]*?` consumes any run of non-separator characters — and nothing else -/
theorem pathStar_sem (md : Mode) (a b : St) :
    Re.M md (Frag.pathStar false) a b ↔ Iter (consume1 notSlash) a b := by
  simp only [Frag.pathStar, Re.M]
  exact Iter.congr (fun x y => M_notSep md x y)

/-- the text consumed by a run of `consume1 p` steps satisfies `p` everywhere -/
theorem iter_consume_all {p : Char → Bool} {a b : St} (h : Iter (consume1 p) a b) :
    ∃ pre, a.rest = pre ++ b.rest ∧ pre.all p = true := by
  induction h with
  | refl a => exact ⟨[], rfl, rfl⟩
  | step hab _ ih =>
    obtain ⟨d, s, h1, h2, rfl⟩ := hab
    obtain ⟨pre, h3, h4⟩ := ih
    simp only at h3
    exact ⟨d :: pre, by simp [h1, h3], by simp [h2, h4]⟩

/-- **no wildcard crosses a separator**: what `*` consumes in path mode contains no `/` -/
theorem pathStar_no_sep (md : Mode) (a b : St) (h : Re.M md (Frag.pathStar false) a b) :
    ∃ pre, a.rest = pre ++ b.rest ∧ '/' ∉ pre := by
  obtain ⟨pre, h1, h2⟩ := iter_consume_all ((pathStar_sem md a b).mp h)
  refine ⟨pre, h1, fun hm => ?_⟩
  rw [List.all_eq_true] at h2
  have := h2 _ hm
  simp [notSlash] at this

/-- `[/]+` consumes one or more separators -/
theorem sepPlus_sem (md : Mode) (a b : St) :
    Re.M md (Frag.sepPlus false) a b ↔
      ∃ c, consume1 (fun d => d == '/') a c ∧ Iter (consume1 (fun d => d == '/')) c b := by
  simp only [Frag.sepPlus, Re.M.eq_12]
  constructor
  · rintro ⟨c, h1, h2⟩
    exact ⟨c, (M_sep md a c).mp h1, (Iter.congr (fun x y => M_sep md x y)).mp h2⟩
  · rintro ⟨c, h1, h2⟩
    exact ⟨c, (M_sep md a c).mpr h1, (Iter.congr (fun x y => M_sep md x y)).mpr h2⟩

/-- the guarded `?` of path mode (`(?![/]).`) consumes exactly one non-separator character -/
theorem pathQmark_sem (ci : Bool) (a b : St) :
    Re.M ⟨true, ci⟩ (.cat (Frag.seqPath false) Frag.qmark) a b ↔ consume1 notSlash a b := by
  simp only [Frag.seqPath, Frag.qmark, Re.M.eq_5]
  constructor
  · rintro ⟨c, h1, h2⟩
    simp only [Re.M] at h1
    obtain ⟨rfl, hno⟩ := h1
    obtain ⟨d, s, e1, _, e3⟩ := (M_any_dotall ci _ _).mp h2
    refine ⟨d, s, e1, ?_, e3⟩
    simp only [notSlash, bne_iff_ne, ne_eq]
    intro hd
    exact hno ⟨⟨false, s⟩, (M_sep ⟨true, ci⟩ _ _).mpr ⟨d, s, e1, by simp [hd], rfl⟩⟩
  · rintro ⟨d, s, e1, e2, e3⟩
    refine ⟨a, ?_, (M_any_dotall ci a b).mpr ⟨d, s, e1, rfl, e3⟩⟩
    rw [Re.M.eq_15]
    refine ⟨rfl, ?_⟩
    rintro ⟨c, hc⟩
    obtain ⟨d', s', e1', e2', _⟩ := (M_sep ⟨true, ci⟩ _ _).mp hc
    rw [e1] at e1'
    injection e1' with hd _
    subst hd
    simp [notSlash] at e2 e2'
    exact e2 e2'

/-! ### the segment-start star cannot consume a leading dot -/

theorem M_lit_dot (md : Mode) (a b : St) :
    Re.M md (.lit '.') a b ↔ consume1 (fun d => d == '.') a b := by
  simp only [Re.M]
  apply consume1_congr
  intro d
  simp only [charEq]
  cases md.ci
  · simp only [Bool.false_eq_true, ite_false]
    cases hd : (d == '.') with
    | true => simp at hd; subst hd; rfl
    | false =>
      simp at hd
      simp [Ne.symm hd]
  · simp only [ite_true]
    have h1 : asciiLower '.' = '.' := by decide
    rw [h1]
    cases hd : (d == '.') with
    | true => simp at hd; subst hd; decide
    | false =>
      simp at hd
      have : asciiLower d ≠ '.' := fun h => hd ((asciiLower_eq_nonLetter nonLetter_dot d).mp h)
      simp [Ne.symm this]

/-- `(?:(?!\.)[^/]*?)?` at a dot: only the empty match -/
theorem optNoDotStar_at_dot (md : Mode) (a b : St) (hd : a.rest.head? = some '.')
    (h : Re.M md (.opt (.grp (.cat (.look true (.lit '.')) (Frag.pathStar false)))) a b) : b = a := by
  simp only [Re.M.eq_10, Re.M.eq_7, Re.M.eq_5] at h
  rcases h with h | ⟨c, h1, _⟩
  · exact h
  · exfalso
    simp only [Re.M] at h1
    obtain ⟨rfl, hno⟩ := h1
    apply hno
    cases hr : c.rest with
    | nil => simp [hr] at hd
    | cons x xs =>
      simp [hr] at hd
      subst hd
      exact ⟨⟨false, xs⟩, '.', xs, hr, by simp [charEq], rfl⟩

/-- **`*` at the start of a segment never consumes a leading dot** (no DOTGLOB) -/
theorem pathStarDot2_at_dot (md : Mode) (a b : St) (hd : a.rest.head? = some '.')
    (h : Re.M md (Frag.pathStarDot2 false) a b) : b = a := by
  simp only [Frag.pathStarDot2, Re.M.eq_5] at h
  obtain ⟨c, h1, h2⟩ := h
  have hc : c = a := by
    simp only [Frag.noDir, Re.M] at h1
    exact h1.1
  subst hc
  exact optNoDotStar_at_dot md c b hd h2

/-! ### globstar never steps over a separator that is followed by a dot -/

/-- the look-ahead of `_PATH_GSTAR_NO_DOTMATCH` fires exactly at `/.` and at `^.` -/
def hiddenAhead (a : St) : Prop :=
  (∃ s, a.rest = '/' :: '.' :: s) ∨ (a.atStart = true ∧ ∃ s, a.rest = '.' :: s)

theorem gstarGuard_iff (md : Mode) (a : St) :
    (∃ c, Re.M md (.cat (.grp (.alt (Frag.sep false) .bos)) (.lit '.')) a c) ↔ hiddenAhead a := by
  simp only [Re.M.eq_5, Re.M.eq_7, Re.M.eq_6]
  constructor
  · rintro ⟨c, m, h1, h2⟩
    obtain ⟨d2, s2, e2, p2, _⟩ := (M_lit_dot md m c).mp h2
    simp at p2; subst p2
    rcases h1 with h1 | h1
    · obtain ⟨d, s, e1, p1, rfl⟩ := (M_sep md a m).mp h1
      simp at p1; subst p1
      left; exact ⟨s2, by simp [e1, ← e2]⟩
    · simp only [Re.M] at h1
      obtain ⟨rfl, hs⟩ := h1
      right; exact ⟨hs, s2, e2⟩
  · rintro (⟨s, e⟩ | ⟨hs, s, e⟩)
    · exact ⟨⟨false, s⟩, ⟨false, '.' :: s⟩, Or.inl ((M_sep md _ _).mpr ⟨'/', '.' :: s, e, rfl, rfl⟩),
        (M_lit_dot md _ _).mpr ⟨'.', s, rfl, rfl, rfl⟩⟩
    · exact ⟨⟨false, s⟩, a, Or.inr (by simp [Re.M, hs]), (M_lit_dot md _ _).mpr ⟨'.', s, e, rfl, rfl⟩⟩

/-- one iteration of the globstar: any character, provided no hidden name starts here -/
theorem gstarStep_iff (ci : Bool) (a b : St) :
    Re.M ⟨true, ci⟩ (.grp (.cat (.look true (.cat (.grp (.alt (Frag.sep false) .bos)) (.lit '.'))) .any)) a b ↔
      (¬ hiddenAhead a ∧ consume1 (fun _ => true) a b) := by
  simp only [Re.M.eq_7, Re.M.eq_5]
  constructor
  · rintro ⟨c, h1, h2⟩
    rw [Re.M.eq_15] at h1
    obtain ⟨rfl, hno⟩ := h1
    exact ⟨fun hh => hno ((gstarGuard_iff _ c).mpr hh), (M_any_dotall ci c b).mp h2⟩
  · rintro ⟨hno, h2⟩
    refine ⟨a, ?_, (M_any_dotall ci a b).mpr h2⟩
    rw [Re.M.eq_15]
    exact ⟨rfl, fun hh => hno ((gstarGuard_iff _ a).mp hh)⟩

/-- **`**` (no DOTGLOB) never consumes a separator that is directly followed by a dot, and
    never a dot at the very start**: if the subject continues with `/.` at some point that the
    globstar has reached, the globstar stops there. -/
theorem gstarDot2_stops_at_hidden (ci : Bool) (a b : St)
    (h : Re.M ⟨true, ci⟩ (Frag.pathGstarDot2 false) a b) :
    ∀ pre suf, a.rest = pre ++ '/' :: '.' :: suf → ('/' :: '.' :: suf).length ≤ b.rest.length := by
  simp only [Frag.pathGstarDot2, Re.M.eq_11] at h
  have h' : Iter (fun x y => ¬ hiddenAhead x ∧ consume1 (fun _ => true) x y) a b :=
    (Iter.congr (fun x y => gstarStep_iff ci x y)).mp h
  clear h
  induction h' with
  | refl a => intro pre suf e; simp [e]
  | step hab _ ih =>
    rename_i x y z
    intro pre suf e
    obtain ⟨hno, d, s, e1, _, rfl⟩ := hab
    cases pre with
    | nil =>
      exfalso
      simp only [List.nil_append] at e
      exact hno (Or.inl ⟨suf, e⟩)
    | cons p ps =>
      rw [e1] at e
      simp only [List.cons_append, List.cons.injEq] at e
      exact ih ps suf e.2

/-- … and a dot at the very start of the subject is never consumed -/
theorem gstarDot2_start_dot (ci : Bool) (s : List Char) (b : St)
    (h : Re.M ⟨true, ci⟩ (Frag.pathGstarDot2 false) ⟨true, '.' :: s⟩ b) : b = ⟨true, '.' :: s⟩ := by
  simp only [Frag.pathGstarDot2, Re.M.eq_11] at h
  have h' := (Iter.congr (fun x y => gstarStep_iff ci x y)).mp h
  cases h' with
  | refl _ => rfl
  | step hab _ =>
    exfalso
    exact hab.1 (Or.inr ⟨rfl, s, rfl⟩)

end WcModel

import WcModel.Proofs.HiddenFaithful
/-
  Sharpening of the group disjunct of `C03faithful`: a first `+(…)` / `@(…)` group lets a hidden
  name through only if one of its alternatives (as parsed) is *leaky*: empty, begins with a written
  dot, or begins with a nested `?( *( +( @(` group.  (Every other alternative begins with an item
  emitted under `after_start = True`, hence guarded.)
-/
namespace WcModel
namespace HF

def isDotItem : Item → Bool
  | .re r => r == .lit '.'
  | _ => false

def isGroupItem : Item → Bool
  | .group _ _ _ => true
  | _ => false

/-- does the body of a group have a leaky alternative?  (`atStart` = we are at the beginning of
    an alternative) -/
def leaky : Bool → List Item → Bool
  | true, [] => true
  | false, [] => false
  | true, .bar :: _ => true
  | false, .bar :: l => leaky true l
  | true, x :: l => isDotItem x || isGroupItem x || leaky false l
  | false, _ :: l => leaky false l

/-- an alternative that begins with a guarded item -/
inductive Good1 : List Item → Prop
  | re {x : Re} {l : List Item} : DotRefusing x → Good1 (.re x :: l)
  | invph {star : Re} {c : Bool} {b l : List Item} : DotRefusing star → Good1 (.invOpen c b :: .ph star :: l)
  | invcl {star : Re} {c : Bool} {b t : List Item} {e : Option Re} {l : List Item} : DotRefusing star →
      Good1 (.invOpen c b :: .closed t e star :: l)

def FirstOK (l : List Item) : Prop :=
  Good1 l ∨ ∃ x l', l = x :: l' ∧ (isDotItem x = true ∨ isGroupItem x = true)

/-- every alternative that begins in `l` begins well (`b` = `l` starts at the beginning of one) -/
def goodFrom : Bool → List Item → Prop
  | _, [] => True
  | b, x :: l => ((b = true ∧ isBar x = false) → FirstOK (x :: l)) ∧ goodFrom (isBar x) l

/-- are we at the beginning of an alternative after `l`? -/
def endFlag : Bool → List Item → Bool
  | b, [] => b
  | _, x :: l => endFlag (isBar x) l

/-- the same on the reversed stack -/
def atAlt : List Item → Bool
  | [] => true
  | x :: _ => isBar x

theorem endFlag_append (b : Bool) (F G : List Item) : endFlag b (F ++ G) = endFlag (endFlag b F) G := by
  induction F generalizing b with
  | nil => rfl
  | cons x F ih => simp only [List.cons_append, endFlag]; exact ih _

theorem endFlag_reverse (ext : List Item) : endFlag true ext.reverse = atAlt ext := by
  cases ext with
  | nil => rfl
  | cons x l => rw [List.reverse_cons, endFlag_append]; rfl

theorem FirstOK.append {l : List Item} (h : FirstOK l) (G : List Item) : FirstOK (l ++ G) := by
  rcases h with h | ⟨x, l', rfl, h⟩
  · left
    cases h with
    | re hx => exact .re hx
    | invph hs => exact .invph hs
    | invcl hs => exact .invcl hs
  · right; exact ⟨x, l' ++ G, rfl, h⟩

theorem goodFrom_append {b : Bool} {F G : List Item} (hF : goodFrom b F) (hG : goodFrom (endFlag b F) G) :
    goodFrom b (F ++ G) := by
  induction F generalizing b with
  | nil => exact hG
  | cons x F ih =>
    simp only [List.cons_append, goodFrom] at hF ⊢
    exact ⟨fun hb => (hF.1 hb).append G, ih hF.2 hG⟩

theorem goodFrom_false_noBar {l : List Item} (h : NoBar l) : goodFrom false l := by
  induction l with
  | nil => trivial
  | cons x l ih =>
    have hx := h x List.mem_cons_self
    simp only [goodFrom, hx]
    exact ⟨fun hb => by simp at hb, ih (fun y hy => h y (List.mem_cons_of_mem _ hy))⟩

theorem FirstOK.rel {x : Item} {l l' : List Item} (hr : Rel l l') (h : FirstOK (x :: l)) : FirstOK (x :: l') := by
  rcases h with h | ⟨y, l0, he, h⟩
  · left
    cases h with
    | re hx => exact .re hx
    | invph hs =>
      cases hr with
      | same _ _ => exact .invph hs
      | ph _ t e _ => exact .invcl hs
    | invcl hs =>
      cases hr with
      | same _ _ => exact .invcl hs
  · right
    injection he with h1 h2
    exact ⟨x, l', rfl, by rw [h1]; exact h⟩

theorem Rel.goodFrom {F F' : List Item} (hr : Rel F F') : ∀ b, goodFrom b F → goodFrom b F' := by
  induction hr with
  | nil => intro b h; exact h
  | same x hr' ih =>
    intro b h
    simp only [HF.goodFrom] at h ⊢
    exact ⟨fun hb => (h.1 hb).rel hr', ih _ h.2⟩
  | ph star t e hr' ih =>
    intro b h
    simp only [HF.goodFrom] at h ⊢
    refine ⟨fun hb => ?_, ih _ h.2⟩
    have := h.1 ⟨hb.1, rfl⟩
    rcases this with h1 | ⟨y, l0, he, h1⟩
    · cases h1
    · injection he with h2 _
      rw [← h2] at h1
      simp [isDotItem, isGroupItem] at h1

theorem Rel.endFlag {F F' : List Item} (hr : Rel F F') : ∀ b, endFlag b F' = endFlag b F := by
  induction hr with
  | nil => intro b; rfl
  | same x _ ih => intro b; simp only [HF.endFlag]; exact ih _
  | ph star t e _ ih => intro b; simp only [HF.endFlag]; exact ih _

/-- invariant of the loop over a group body that was entered at the start of the pattern -/
structure GInv (ps : PS) (ext : List Item) : Prop where
  globstar : ps.globstar = false
  start : atAlt ext = true → ps.afterStart = true
  good : goodFrom true ext.reverse

theorem GInv.push {ps : PS} {ext : List Item} (h : GInv ps ext) (new : List Item) (hnb : NoBar new)
    (hok : ps.afterStart = true → goodFrom true new.reverse) : goodFrom true (new ++ ext).reverse := by
  rw [List.reverse_append]
  apply goodFrom_append h.good
  rw [endFlag_reverse]
  cases ha : atAlt ext
  · exact goodFrom_false_noBar (NoBar.reverse hnb)
  · exact hok (h.start ha)

theorem goodFrom_single_re {x : Re} (hx : DotRefusing x) : goodFrom true [Item.re x].reverse :=
  ⟨fun _ => Or.inl (.re hx), trivial⟩

/-- one escaped character outside brackets, fnmatch mode -/
def escRe (d : Char) : Re := if d = '\\' then .lit '\\' else if d = '/' then Frag.sep false else .lit d

theorem refuse_escRe {d : Char} (hd : d ≠ '.') : DotRefusing (escRe d) := by
  unfold escRe
  split
  · exact refuse_lit (by decide)
  · split
    · exact refuse_sep
    · exact refuse_lit hd

theorem references_fn (cfg : Cfg) (h : FnCfg cfg) (ps : PS) (it : It) :
    references cfg ps it =
      match it.next with
      | none => .stop
      | some (d, it') => if d = '.' then .dot it else .val (escRe d) it' ps := by
  unfold references
  cases hn : it.next with
  | none => rfl
  | some v =>
    obtain ⟨d, it'⟩ := v
    simp only [h.bslash, h.unix, h.pathname, h.win, Bool.false_eq_true, if_false, Bool.not_true, escRe]
    by_cases h1 : d = '\\'
    · simp [h1]
    · by_cases h2 : d = '/'
      · simp [h2]
      · by_cases h3 : d = '.'
        · simp [h3]
        · simp [h1, h2, h3]

theorem qmarkItem_eq (cfg : Cfg) (ps : PS) :
    qmarkItem cfg ps = (.re (catE (restrictSequence cfg ps).1 Frag.qmark), ps.resetDirTrack) := rfl

theorem setStartDir_update_afterStart (ps : PS) : ps.setStartDir.updateDirState.afterStart = true := by
  simp [PS.setStartDir, PS.updateDirState, PS.setAfterStart]

theorem handleDot_fn (cfg : Cfg) (h : FnCfg cfg) (ps : PS) (it : It) : handleDot cfg ps it = .lit '.' := by
  simp [handleDot, h.pathname]

/-- one character of the body that is not the start of a nested group that parses -/
theorem extPlain_inv (cfg : Cfg) (h : FnCfg cfg) (c : Char) (it : It) (ps : PS) (ext : List Item) (n : Bool)
    (hi : GInv ps ext) :
    (extPlain cfg c it ps ext true n).1.globstar = false ∧
    goodFrom true (extPlain cfg c it ps ext true n).2.2.1.reverse ∧
    (c ≠ ')' → (extPlain cfg c it ps ext true n).2.1.next ≠ none →
      atAlt (extPlain cfg c it ps ext true n).2.2.1 = true →
      (if (extPlain cfg c it ps ext true n).2.2.2 then (extPlain cfg c it ps ext true n).1.updateDirState
       else (extPlain cfg c it ps ext true n).1).afterStart = true) := by
  have hg := extPlain_ng cfg h.pathname h.bslash c it ps ext true n hi.globstar
  refine ⟨hg, ?_⟩
  clear hg
  have single : ∀ x : Re, (ps.afterStart = true → DotRefusing x) →
      goodFrom true (Item.re x :: ext).reverse := by
    intro x hx
    exact hi.push [.re x] (NoBar.cons rfl NoBar.nil) (fun ha => goodFrom_single_re (hx ha))
  unfold extPlain
  split
  · rw [handleStar_ng cfg ps it ext hi.globstar h.pathname]
    refine ⟨single _ ?_, fun _ _ ha => by simp [atAlt, isBar] at ha⟩
    intro ha
    simp only [ha, if_true, fnStar, h.dot, Bool.not_false, Bool.and_self, h.needChar]
    exact refuse_star
  split
  · refine ⟨?_, fun _ _ ha => by simp [atAlt, isBar] at ha⟩
    simp only [handleDot_fn cfg h]
    exact hi.push [.re (.lit '.')] (NoBar.cons rfl NoBar.nil)
      (fun _ => ⟨fun _ => Or.inr ⟨_, _, rfl, Or.inl rfl⟩, trivial⟩)
  split
  · rw [qmarkItem_eq]
    refine ⟨?_, fun _ _ ha => by simp [atAlt, isBar] at ha⟩
    apply single
    intro ha
    rw [restrictSequence_fst cfg h ps ha]; exact refuse_catE_noDot _
  split
  · refine ⟨?_, fun _ _ ha => by simp [atAlt, isBar] at ha⟩
    simp only [restrictExtendedSlash, h.pathname, Bool.false_eq_true, if_false, h.win]
    exact single _ (fun _ => refuse_sep)
  split
  · simp only [if_true]
    refine ⟨?_, fun _ _ _ => setStartDir_update_afterStart _⟩
    have hrel : Rel ext.reverse (if ps.invNest = true then cleanUpInverse cfg ps ext n else (ext, ps)).1.reverse := by
      split
      · exact cleanUpInverse_rel cfg ps ext n
      · exact Rel.refl _
    rw [List.reverse_cons]
    exact goodFrom_append (hrel.goodFrom true hi.good) ⟨fun hb => by simp [isBar] at hb, trivial⟩
  split
  · rw [references_fn cfg h]
    cases hn : it.next with
    | none => exact ⟨hi.good, fun _ hne => absurd hn hne⟩
    | some v =>
      obtain ⟨d, it'⟩ := v
      simp only []
      by_cases hd : d = '.'
      · simp only [hd, if_true]
        exact ⟨hi.good, fun _ _ ha => by simpa using hi.start ha⟩
      · simp only [hd, if_false]
        exact ⟨single _ (fun _ => refuse_escRe hd), fun _ _ ha => by simp [atAlt, isBar] at ha⟩
  split
  · split
    · rename_i r ps' it' hs
      refine ⟨single _ ?_, fun _ _ ha => by simp [atAlt, isBar] at ha⟩
      intro ha
      obtain ⟨cls, hcls⟩ := sequence_shape cfg ps it r ps' it' hs
      simp only [ha, Bool.or_true, if_true] at hcls
      injection hcls with h1 _
      rw [restrictSequence_fst cfg h ps ha] at h1
      rw [h1]; exact refuse_catE_noDot _
    · exact ⟨single _ (fun _ => refuse_lit (by decide)), fun _ _ ha => by simp [atAlt, isBar] at ha⟩
  split
  · rename_i hd _ _ _ _ _ _
    exact ⟨single _ (fun _ => refuse_lit hd), fun _ _ ha => by simp [atAlt, isBar] at ha⟩
  · rename_i hc
    exact ⟨hi.good, fun hne => absurd (by simpa using hc) hne⟩


theorem peFail_afterStart (t ps : PS) : (peFail t ps).afterStart = t.afterStart := by
  rw [peFail, peFinish_fail_afterStart]

theorem atAlt_of_rel {l l' : List Item} (h : Rel l.reverse l'.reverse) : atAlt l' = atAlt l := by
  rw [← endFlag_reverse, ← endFlag_reverse]; exact h.endFlag true

/-- what `peBuild` pushes is a group item, or an opened `!(` whose star is guarded when the group
    began an alternative -/
theorem peBuild_push (cfg : Cfg) (h : FnCfg cfg) (lt : Char) (t : PS) (body ext : List Item) (ps2 : PS)
    (hi : GInv t ext) :
    goodFrom true (peBuild cfg lt t body ext ps2).1.reverse ∧ atAlt (peBuild cfg lt t body ext ps2).1 = false := by
  have grp : ∀ k cap, goodFrom true (Item.group k cap body :: ext).reverse ∧
      atAlt (Item.group k cap body :: ext) = false := by
    intro k cap
    exact ⟨hi.push [.group k cap body] (NoBar.cons rfl NoBar.nil)
      (fun _ => ⟨fun _ => Or.inr ⟨_, _, rfl, Or.inr rfl⟩, trivial⟩), rfl⟩
  unfold peBuild
  simp only []
  split
  · exact grp _ _
  split
  · exact grp _ _
  split
  · exact grp _ _
  split
  · exact grp _ _
  · refine ⟨hi.push [.ph _, .invOpen cfg.capture body] (NoBar.cons rfl (NoBar.cons rfl NoBar.nil)) ?_, rfl⟩
    intro ha
    rw [ha, invStar_fn cfg h]
    exact ⟨fun _ => Or.inl (.invph refuse_star), ⟨fun hb => by simp [isBar] at hb, trivial⟩⟩

/-- a nested `parse_extend` seen from the enclosing body -/
theorem parseExtend_nested (cfg : Cfg) (h : FnCfg cfg) (fuel : Nat) (c : Char) (it : It) (ps : PS)
    (ext : List Item) (rd : Bool) (hi : GInv ps ext) :
    ((parseExtend cfg fuel c it ps ext rd).1 = false →
        (parseExtend cfg fuel c it ps ext rd).2.2 = (it, ext) ∧ GInv (parseExtend cfg fuel c it ps ext rd).2.1 ext) ∧
    ((parseExtend cfg fuel c it ps ext rd).1 = true →
        (parseExtend cfg fuel c it ps ext rd).2.1.globstar = false ∧
        goodFrom true (parseExtend cfg fuel c it ps ext rd).2.2.2.reverse ∧
        atAlt (parseExtend cfg fuel c it ps ext rd).2.2.2 = false) := by
  cases fuel with
  | zero =>
    rw [show parseExtend cfg 0 c it ps ext rd = (false, ps, it, ext) by simp [parseExtend]]
    exact ⟨fun _ => ⟨rfl, hi⟩, fun hc => by cases hc⟩
  | succ fuel =>
    rw [parseExtend_eq]
    have hfail : ∀ ps' : PS, ps'.globstar = false →
        ((false, peFail ps ps', it, ext).1 = false →
          (false, peFail ps ps', it, ext).2.2 = (it, ext) ∧ GInv (false, peFail ps ps', it, ext).2.1 ext) ∧
        ((false, peFail ps ps', it, ext).1 = true →
          (false, peFail ps ps', it, ext).2.1.globstar = false ∧
          goodFrom true (false, peFail ps ps', it, ext).2.2.2.reverse ∧
          atAlt (false, peFail ps ps', it, ext).2.2.2 = false) := by
      intro ps' hg
      constructor
      · intro _
        refine ⟨rfl, ?_⟩
        constructor
        · simpa using hg
        · intro ha
          simp only [peFail_afterStart]
          exact hi.start ha
        · exact hi.good
      · intro hc; cases hc
    split
    · exact hfail _ (by simpa using hi.globstar)
    · split
      · exact hfail _ (by simpa using hi.globstar)
      · rename_i c1 it1 _ _
        have hG := (frame cfg h.pathname h.bslash fuel).2 it1 (peEnter ps c rd) [] ps.afterStart ps.invNest
          (by simpa using hi.globstar)
        split
        · rename_i he; rw [he] at hG; exact hfail _ hG
        · rename_i ps2 it2 extended he
          rw [he] at hG
          simp only [ExtG] at hG
          refine ⟨fun hc => (by cases hc), fun _ => ?_⟩
          obtain ⟨hb1, hb2⟩ := peBuild_push cfg h c ps extended.reverse ext ps2 hi
          simp only [peFinish_globstar]
          split
          · have hrel := cleanUpInverse_rel cfg (peBuild cfg c ps extended.reverse ext ps2).2
              (peBuild cfg c ps extended.reverse ext ps2).1
              (ps.invNest && (peBuild cfg c ps extended.reverse ext ps2).2.invNest)
            refine ⟨?_, hrel.goodFrom true hb1, ?_⟩
            · rw [cleanUpInverse_globstar]; simpa using hG
            · rw [atAlt_of_rel hrel]; exact hb2
          · exact ⟨by simpa using hG, hb1, hb2⟩

theorem extLoop_next_none (cfg : Cfg) (fuel : Nat) (it : It) (ps : PS) (ext : List Item) (a n : Bool)
    (hn : it.next = none) : extLoop cfg fuel it ps ext a n = .error ps := by
  cases fuel with
  | zero => simp [extLoop]
  | succ f => rw [extLoop_eq, hn]

theorem extTok_inv (cfg : Cfg) (h : FnCfg cfg) (fuel : Nat) (c : Char) (it : It) (ps : PS) (ext : List Item)
    (n : Bool) (hi : GInv ps ext) :
    (extTok cfg fuel c it ps ext true n).1.globstar = false ∧
    goodFrom true (extTok cfg fuel c it ps ext true n).2.2.1.reverse ∧
    (c ≠ ')' → (extTok cfg fuel c it ps ext true n).2.1.next ≠ none →
      atAlt (extTok cfg fuel c it ps ext true n).2.2.1 = true →
      (if (extTok cfg fuel c it ps ext true n).2.2.2 then (extTok cfg fuel c it ps ext true n).1.updateDirState
       else (extTok cfg fuel c it ps ext true n).1).afterStart = true) := by
  unfold extTok
  split
  · obtain ⟨h1, h2⟩ := parseExtend_nested cfg h fuel c it ps ext false hi
    simp only []
    split
    · rename_i hok
      obtain ⟨h3, h4, h5⟩ := h2 hok
      exact ⟨h3, h4, fun _ _ ha => by rw [h5] at ha; cases ha⟩
    · rename_i hno
      have hno' : (parseExtend cfg fuel c it ps ext false).1 = false := by simpa using hno
      exact extPlain_inv cfg h c it _ ext n (h1 hno').2
  · exact extPlain_inv cfg h c it ps ext n hi

/-- **every alternative of the body of a first group begins well** -/
theorem extLoop_inv (cfg : Cfg) (h : FnCfg cfg) : ∀ (fuel : Nat) (it : It) (ps : PS) (ext : List Item) (n : Bool),
    GInv ps ext → ∀ ps' it' ext', extLoop cfg fuel it ps ext true n = .ok (ps', it', ext') →
      goodFrom true ext'.reverse := by
  intro fuel
  induction fuel with
  | zero => intro it ps ext n _ ps' it' ext' he; simp [extLoop] at he
  | succ fuel ih =>
    intro it ps ext n hi ps' it' ext' he
    rw [extLoop_eq] at he
    split at he
    · cases he
    · rename_i c it1 _
      obtain ⟨h1, h2, h3⟩ := extTok_inv cfg h fuel c it1 ps ext n hi
      unfold extCont at he
      simp only [] at he
      split at he
      · injection he with he; injection he with _ he; injection he with _ he
        rw [← he]; exact h2
      · rename_i hc
        by_cases hn : (extTok cfg fuel c it1 ps ext true n).2.1.next = none
        · rw [extLoop_next_none cfg fuel _ _ _ _ _ hn] at he; cases he
        · refine ih _ _ _ n ⟨?_, h3 hc hn, h2⟩ ps' it' ext' he
          split
          · simpa using h1
          · exact h1


/-! ### from "every alternative begins well and none is leaky" to the regex of the body -/

theorem splitBars_cons_nonbar (x : Item) (hx : isBar x = false) (F : List Item) :
    ∃ a as, splitBars F = a :: as ∧ splitBars (x :: F) = (x :: a) :: as := by
  cases hs : splitBars F with
  | nil =>
    exfalso
    cases F with
    | nil => simp [splitBars] at hs
    | cons y F' =>
      cases y <;> simp only [splitBars] at hs <;> first | (cases hs; done) | (split at hs <;> cases hs)
  | cons a as =>
    refine ⟨a, as, rfl, ?_⟩
    cases x <;> first | (simp [isBar] at hx; done) | simp [splitBars, hs]

theorem leaky_true_cons (x : Item) (hx : isBar x = false) (F : List Item) :
    leaky true (x :: F) = (isDotItem x || isGroupItem x || leaky false F) := by
  cases x <;> first | (simp [isBar] at hx; done) | rfl

theorem leaky_false_cons (x : Item) (hx : isBar x = false) (F : List Item) :
    leaky false (x :: F) = leaky false F := by
  cases x <;> first | (simp [isBar] at hx; done) | rfl

theorem Good1.headRefuses {x : Item} {F a : List Item} {as : List (List Item)} (hs : splitBars F = a :: as) (h : Good1 (x :: F)) :
    HeadRefuses (x :: a) := by
  cases h with
  | re hx => exact .re hx
  | @invph star c b l hst =>
    obtain ⟨a', as', h1, h2⟩ := splitBars_cons_nonbar (.ph star) rfl l
    rw [h2] at hs; injection hs with hs _; rw [← hs]; exact .bad
  | @invcl star c b t e l hst =>
    obtain ⟨a', as', h1, h2⟩ := splitBars_cons_nonbar (.closed t e star) rfl l
    rw [h2] at hs; injection hs with hs _; rw [← hs]; exact .inv hst

theorem pieces_refuse : ∀ (F : List Item) (b : Bool), goodFrom b F → leaky b F = false →
    (b = true → ∀ piece ∈ splitBars F, HeadRefuses piece) ∧
    (b = false → ∀ piece ∈ (splitBars F).tail, HeadRefuses piece) := by
  intro F
  induction F with
  | nil =>
    intro b _ hl
    cases b
    · exact ⟨fun hb => (by cases hb), fun _ p hp => by simp [splitBars] at hp⟩
    · simp [leaky] at hl
  | cons x F ih =>
    intro b hg hl
    by_cases hx : isBar x = true
    · have : x = .bar := by cases x <;> simp [isBar] at hx ⊢
      subst this
      cases b
      · simp only [leaky] at hl
        simp only [goodFrom, isBar] at hg
        refine ⟨fun hb => (by cases hb), fun _ p hp => ?_⟩
        simp only [splitBars, List.tail_cons] at hp
        exact (ih true hg.2 hl).1 rfl p hp
      · simp [leaky] at hl
    · have hx' : isBar x = false := by simpa using hx
      obtain ⟨a, as, h1, h2⟩ := splitBars_cons_nonbar x hx' F
      simp only [goodFrom, hx'] at hg
      have hlF : leaky false F = false := by
        cases b
        · rw [leaky_false_cons x hx'] at hl; exact hl
        · rw [leaky_true_cons x hx'] at hl
          simp only [Bool.or_eq_false_iff] at hl; exact hl.2
      have ihF := (ih false hg.2 hlF).2 rfl
      rw [h1, List.tail_cons] at ihF
      rw [h2]
      refine ⟨fun hb p hp => ?_, fun _ p hp => ihF p (by simpa using hp)⟩
      rcases List.mem_cons.mp hp with rfl | hp
      · subst hb
        have hnd : isDotItem x = false ∧ isGroupItem x = false := by
          rw [leaky_true_cons x hx'] at hl
          simp only [Bool.or_eq_false_iff] at hl; exact hl.1
        rcases hg.1 ⟨rfl, trivial⟩ with hgood | ⟨y, l', he, hd⟩
        · exact hgood.headRefuses h1
        · injection he with he _
          rw [← he, hnd.1, hnd.2] at hd
          simp at hd
      · exact ihF p hp

theorem altOfList_refuses : ∀ (parts : List Re), parts ≠ [] → (∀ r ∈ parts, DotRefusing r) →
    DotRefusing (altOfList parts)
  | [], h, _ => absurd rfl h
  | [r], _, h => h r List.mem_cons_self
  | r :: r' :: rs, _, h => by
    intro md a b hd hm
    simp only [altOfList, Re.M] at hm
    rcases hm with hm | hm
    · exact h r List.mem_cons_self md a b hd hm
    · exact altOfList_refuses (r' :: rs) (by simp) (fun x hx => h x (List.mem_cons_of_mem _ hx)) md a b hd hm

theorem mapM_refuses (f : Nat) : ∀ (pieces : List (List Item)) (parts : List Re),
    pieces.mapM (Item.seqToRe f) = some parts → (∀ p ∈ pieces, HeadRefuses p) →
    (pieces ≠ [] → parts ≠ []) ∧ ∀ r ∈ parts, DotRefusing r := by
  intro pieces
  induction pieces with
  | nil => intro parts h _; simp at h; subst h; exact ⟨fun h => absurd rfl h, fun r hr => by cases hr⟩
  | cons p ps ih =>
    intro parts h hp
    simp only [List.mapM_cons, Option.bind_eq_bind, Option.bind_eq_some_iff, Option.pure_def,
      Option.some.injEq] at h
    obtain ⟨r, hr, rs, hrs, he⟩ := h
    subst he
    refine ⟨fun _ => by simp, fun x hx => ?_⟩
    rcases List.mem_cons.mp hx with rfl | hx
    · exact seqToRe_refuses (hp p List.mem_cons_self) f _ hr
    · exact (ih rs hrs (fun q hq => hp q (List.mem_cons_of_mem _ hq))).2 x hx

/-- a body whose alternatives all begin well, none leaky, refuses a dot -/
theorem bodyRefuses_of_good {body : List Item} (hg : goodFrom true body) (hl : leaky true body = false) :
    BodyRefuses body := by
  intro fuel r hr
  cases fuel with
  | zero => simp [Item.listToRe] at hr
  | succ f =>
    simp only [Item.listToRe, Option.bind_eq_bind, Option.bind_eq_some_iff, Option.pure_def,
      Option.some.injEq] at hr
    obtain ⟨parts, hm, hr⟩ := hr
    subst hr
    have hp := (pieces_refuse body true hg hl).1 rfl
    obtain ⟨h1, h2⟩ := mapM_refuses f _ parts hm hp
    have hne : splitBars body ≠ [] := by
      cases body with
      | nil => simp [splitBars]
      | cons x F =>
        by_cases hx : isBar x = true
        · have : x = .bar := by cases x <;> simp [isBar] at hx ⊢
          subst this; simp [splitBars]
        · obtain ⟨a, as, _, h2⟩ := splitBars_cons_nonbar x (by simpa using hx) F
          rw [h2]; simp
    exact altOfList_refuses parts (h1 hne) h2


/-- a first `+(` / `@(` group that parses: the item pushed, and its body's alternatives begin well -/
theorem parseExtend_first_group (cfg : Cfg) (h : FnCfg cfg) (fuel : Nat) (c : Char) (it : It) (ps : PS)
    (cur : List Item) (ht : Top ps) (ha : ps.afterStart = true) (hc : c = '+' ∨ c = '@')
    (hok : (parseExtend cfg (fuel+1) c it ps cur true).1 = true) :
    ∃ k cap body, (k = GKind.a ∨ k = GKind.p) ∧
      (parseExtend cfg (fuel+1) c it ps cur true).2.2.2 = .group k cap body :: cur ∧ goodFrom true body := by
  rw [parseExtend_eq] at hok ⊢
  split at hok
  · cases hok
  · rename_i c1 it1 hn
    split at hok
    · cases hok
    · rename_i hc1
      rw [if_neg hc1]
      split
      · rename_i he; rw [he] at hok; cases hok
      · rename_i ps2 it2 extended he
        simp only [ht.inList, Bool.false_eq_true, if_false]
        have hgood := extLoop_inv cfg h fuel it1 (peEnter ps c true) [] ps.invNest
          ⟨by simpa using ht.globstar, fun _ => by simpa [peEnter] using ha, trivial⟩ ps2 it2 extended
          (by rw [← he, ha])
        rcases hc with rfl | rfl
        · exact ⟨.p, capOf cfg, extended.reverse, Or.inr rfl, by simp [peBuild], hgood⟩
        · exact ⟨.a, capOf cfg, extended.reverse, Or.inl rfl, by simp [peBuild], hgood⟩

/-- **the first token, sharpened**: as `rootTok_first`, but a `+(` / `@(` group that parses and has
    no leaky alternative is itself an item that refuses a dot -/
theorem rootTok_first_sharp (cfg : Cfg) (h : FnCfg cfg) (c : Char) (it : It) (ps : PS) (cur : List Item)
    (ht : Top ps) (ha : ps.afterStart = true) (hc : c ≠ '.')
    (hbs : c = '\\' → ∃ d r, it.rest = d :: r ∧ d ≠ '.') :
    (cfg.extend = true ∧ it.rest.head? = some '(' ∧
        (parseExtend cfg (2 * it.rest.length + 8) c it ps cur true).1 = true ∧
        ((c = '?' ∨ c = '*') ∨
         ((c = '+' ∨ c = '@') ∧ ∃ k cap body,
            (parseExtend cfg (2 * it.rest.length + 8) c it ps cur true).2.2.2 = .group k cap body :: cur ∧
            leaky true body = true))) ∨
    (∃ first, (rootTok cfg c it ps cur).2.2 = first ++ cur ∧ HeadRefuses0 first.reverse ∧ NoBar first) := by
  rcases rootTok_first cfg h c it ps cur ht ha hc hbs with
    ⟨he, hq, hh, hok⟩ | ⟨x, hx, hst⟩ | ⟨star, cap, body, hx, hst⟩
  · by_cases hq2 : c = '?' ∨ c = '*'
    · exact Or.inl ⟨he, hh, hok, Or.inl hq2⟩
    · have hq3 : c = '+' ∨ c = '@' := by
        rcases hq with h1 | h1 | h1 | h1
        · exact absurd (Or.inl h1) hq2
        · exact absurd (Or.inr h1) hq2
        · exact Or.inl h1
        · exact Or.inr h1
      obtain ⟨k, cap, body, hk, hst, hgood⟩ :=
        parseExtend_first_group cfg h (2 * it.rest.length + 7) c it ps cur ht ha hq3 hok
      by_cases hl : leaky true body = true
      · exact Or.inl ⟨he, hh, hok, Or.inr ⟨hq3, k, cap, body, hst, hl⟩⟩
      · right
        refine ⟨[.group k cap body], ?_, .grp hk (bodyRefuses_of_good hgood (by simpa using hl)),
          NoBar.cons rfl NoBar.nil⟩
        have hext : (cfg.extend && decide (c ∈ extTypes)) = true := by
          rw [he, extTypes_eq]
          rcases hq3 with rfl | rfl <;> decide
        unfold rootTok
        rw [if_pos hext]
        simp only []
        rw [if_pos hok]
        exact hst
  · exact Or.inr ⟨[.re x], hst, .re hx, NoBar.cons rfl NoBar.nil⟩
  · exact Or.inr ⟨[.ph star, .invOpen cap body], hst, .inv hx, NoBar.cons rfl (NoBar.cons rfl NoBar.nil)⟩


end HF
end WcModel

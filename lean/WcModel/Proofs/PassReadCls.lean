import WcModel.Proofs.PassPrint
import WcModel.Proofs.SeqWF
/-
  PassRead, part 2: EVERY bracket the strict reader accepts.

  `bracket_read`:  if `Grammar.bracket s = some (.cls neg items, rest)` then (fnmatch mode, Unix rules)
  the faithful port's `_sequence` run on `s` consumes exactly the same text and returns
  `[guard] [neg] cis` where `cis` are the reader's `items` up to the escape flags of the regex
  text (`unflag`): first-position `]`, `^` for `!`, a trailing `-`, `-]`, escaped members `\]`
  `\-` `\\` `\.`, a literal `[`, ranges with escaped end points, POSIX classes.

  Method: a simulation between the reader's member loop `Grammar.bracketItems` and the port's
  `seqLoop` (in its tidy form `seqLoopG true`, Proofs/SeqWF.lean) at member boundaries, by
  induction on the reader's fuel.
-/
namespace WcModel
namespace PR
open PP Grammar

/-! ### members as the pass sees them -/

/-- a member of the class the pass builds; `dash` is a bare trailing `-` (left on the token
    stack as a range operator that never got its right end) -/
inductive PM
  | chr (c : Char) (e : Bool)
  | range (lo : Char) (e1 : Bool) (hi : Char) (e2 : Bool)
  | posix (n : PosixName)
  | dash
  deriving DecidableEq, Repr

def PM.toks : PM → List CTok
  | .chr c e => [.chr c e]
  | .range lo e1 hi e2 => [.chr lo e1, .dash, .chr hi e2]
  | .posix n => [.posix n]
  | .dash => [.dash]

def PM.item (b : Bool) : PM → ClsItem
  | .chr c e => .chr c e
  | .range lo e1 hi e2 => .range lo e1 hi e2
  | .posix n => posixItem b n
  | .dash => .chr '-' false

def PM.scls : PM → SCls
  | .chr c _ => .chr c
  | .range lo _ hi _ => .range lo hi
  | .posix n => .posix n
  | .dash => .chr '-'

/-- a bare dash only as the last member -/
def dashLast : List PM → Prop
  | [] => True
  | [_] => True
  | m :: m' :: r => m ≠ .dash ∧ dashLast (m' :: r)

theorem dashLast_tail {m : PM} {ms : List PM} (h : dashLast (m :: ms)) : dashLast ms := by
  cases ms with
  | nil => trivial
  | cons m' r => exact h.2

theorem dashLast_append_single : ∀ (ms : List PM) (m : PM), dashLast ms → (∀ x ∈ ms, x ≠ .dash) →
    dashLast (ms ++ [m])
  | [], m, _, _ => trivial
  | [a], m, _, h => ⟨h a (by simp), trivial⟩
  | a :: b :: r, m, hd, h => by
    have ih := dashLast_append_single (b :: r) m hd.2 (fun x hx => h x (List.mem_cons_of_mem _ hx))
    exact ⟨hd.1, ih⟩

/-- the atoms of a member list: empty, a lone bare dash, or starting with a member -/
theorem pm_atoms_head (b : Bool) (ms : List PM) (hd : dashLast ms) :
    tokAtoms b (ms.flatMap PM.toks) = [] ∨ tokAtoms b (ms.flatMap PM.toks) = [none] ∨
      (∃ x r, tokAtoms b (ms.flatMap PM.toks) = some x :: r) := by
  cases ms with
  | nil => left; rfl
  | cons m ms =>
    cases m with
    | chr c e =>
      right; right
      simp only [List.flatMap_cons, PM.toks, List.cons_append, List.nil_append, tokAtoms]
      exact ⟨_, _, rfl⟩
    | range lo e1 hi e2 =>
      right; right
      simp only [List.flatMap_cons, PM.toks, List.cons_append, List.nil_append, tokAtoms]
      exact ⟨_, _, rfl⟩
    | posix n =>
      right; right
      simp only [List.flatMap_cons, PM.toks, List.cons_append, List.nil_append, tokAtoms]
      exact ⟨_, _, rfl⟩
    | dash =>
      cases ms with
      | nil => right; left; simp [PM.toks, tokAtoms]
      | cons m' r => exact absurd rfl hd.1

theorem groupAtoms_pm (b : Bool) : ∀ (ms : List PM) (fuel : Nat), dashLast ms → ms.length ≤ fuel →
    groupAtoms fuel (tokAtoms b (ms.flatMap PM.toks)) = ms.map (PM.item b) := by
  intro ms
  induction ms with
  | nil => intro fuel _ _; cases fuel <;> simp [groupAtoms, tokAtoms]
  | cons m ms ih =>
    intro fuel hd hf
    obtain ⟨f, rfl⟩ : ∃ f, fuel = f + 1 := ⟨fuel - 1, by simp at hf; omega⟩
    have ih' := ih f (dashLast_tail hd) (by simp at hf; omega)
    have hh := pm_atoms_head b ms (dashLast_tail hd)
    simp only [List.flatMap_cons, PP.tokAtoms_append, List.map_cons]
    cases m with
    | chr c e =>
      simp only [PM.toks, tokAtoms, List.cons_append, List.nil_append, PM.item]
      rw [groupAtoms_one f _ _ hh, ih']
    | range lo e1 hi e2 =>
      simp only [PM.toks, tokAtoms, List.cons_append, List.nil_append, PM.item]
      simp [groupAtoms, ih']
    | posix n =>
      simp only [PM.toks, tokAtoms, List.cons_append, List.nil_append, PM.item]
      rw [groupAtoms_one f _ _ hh, ih']
    | dash =>
      cases ms with
      | nil => cases f <;> simp [PM.toks, tokAtoms, groupAtoms, PM.item]
      | cons m' r => exact absurd rfl hd.1

theorem pm_atoms_length (b : Bool) : ∀ (ms : List PM), ms.length ≤ (tokAtoms b (ms.flatMap PM.toks)).length
  | [] => by simp
  | m :: ms => by
    have ih := pm_atoms_length b ms
    simp only [List.flatMap_cons, PP.tokAtoms_append, List.length_append, List.length_cons]
    cases m <;> simp [PM.toks, tokAtoms] <;> omega

/-- forget how the regex text spells a member -/
def unflag : ClsItem → ClsItem
  | .chr c _ => .chr c false
  | .range lo _ hi _ => .range lo false hi false
  | x => x

theorem unflag_hasCi (ci : Bool) (x : ClsItem) (d : Char) : (unflag x).hasCi ci d = x.hasCi ci d := by
  cases x <;> rfl

theorem pm_item_unflag (b : Bool) (m : PM) : unflag (m.item b) = m.scls.toClsItem b := by
  cases m <;> rfl

/-! ### the member loop of the pass, one member at a time -/

/-- the reader's "one (possibly escaped) character" -/
def oneOf : List Char → Option (Char × List Char)
  | '\\' :: c :: rest => some (c, rest)
  | '\\' :: [] => none
  | c :: rest => some (c, rest)
  | [] => none

/-- the pass reads the same character (fnmatch mode, Unix rules), whatever its escape flag -/
theorem valueOf_one (cfg : Cfg) (h : FnX cfg) (c : Char) (r : List Char) (lo : Char) (rest : List Char)
    (ho : oneOf (c :: r) = some (lo, rest)) :
    ∃ e k, k + rest.length = r.length ∧ ∀ i, valueOf cfg c ⟨i, r⟩ = some (.chr lo e, ⟨i + k, rest⟩) := by
  by_cases hc : c = '\\'
  · subst hc
    cases r with
    | nil => simp [oneOf] at ho
    | cons d r' =>
      simp only [oneOf, Option.some.injEq, Prod.mk.injEq] at ho
      obtain ⟨rfl, rfl⟩ := ho
      by_cases hb : d = '\\'
      · subst hb
        exact ⟨true, 1, by simp only [List.length_cons]; omega,
          fun i => by simp [valueOf, referencesSeq, It.next, h.bslash, h.unix]⟩
      · by_cases hs : d = '/'
        · subst hs
          exact ⟨false, 1, by simp only [List.length_cons]; omega,
            fun i => by simp [valueOf, referencesSeq, It.next, h.pathname, h.unix]⟩
        · by_cases hd : d = '.'
          · subst hd
            exact ⟨_, 1, by simp only [List.length_cons]; omega,
              fun i => by simp [valueOf, referencesSeq, It.next]; rfl⟩
          · exact ⟨_, 1, by simp only [List.length_cons]; omega,
              fun i => by simp [valueOf, referencesSeq, It.next, hb, hs, hd]; rfl⟩
  · have ho' : lo = c ∧ rest = r := by
      unfold oneOf at ho
      split at ho
      · rename_i e; injection e with e _; exact absurd e hc
      · rename_i e; injection e with e _; exact absurd e hc
      · rename_i e; injection e with e1 e2; cases ho; exact ⟨e1.symm ▸ rfl, e2.symm ▸ rfl⟩
      · rename_i e; cases e
    obtain ⟨rfl, rfl⟩ := ho'
    by_cases hs : lo = '/'
    · subst hs
      exact ⟨false, 0, by simp, fun i => by simp [valueOf, h.pathname]⟩
    · by_cases hm : (lo ∈ setOperators || lo = '#') = true
      · exact ⟨true, 0, by simp, fun i => by unfold valueOf; simp only [hc, hs, if_false, hm, if_true]; rfl⟩
      · exact ⟨false, 0, by simp, fun i => by unfold valueOf; simp only [hc, hs, if_false, hm]; rfl⟩

theorem oneOf_cons_ne (c : Char) (r : List Char) (hc : c ≠ '\\') : oneOf (c :: r) = some (c, r) := by
  unfold oneOf
  split
  · rename_i e; injection e with e _; exact absurd e hc
  · rename_i e; injection e with e _; exact absurd e hc
  · rename_i e; injection e with e1 e2; subst e1; subst e2; rfl
  · rename_i e; cases e

/-- `]` ends the loop -/
theorem sl_close (cfg : Cfg) (F : Nat) (it : It) (st : SeqSt) : seqLoop cfg (F+1) ']' it st = some (it, st) := by
  rw [seqLoop]; simp

/-- a single member, no range pending -/
theorem sl_val (cfg : Cfg) (F i : Nat) (c : Char) (r : List Char) (st : SeqSt) (v : CTok) (i2 : Nat) (c2 : Char)
    (r2 : List Char) (h1 : c ≠ ']') (h2 : c ≠ '-') (hp : c = '[' → matchPosix r = none)
    (hv : valueOf cfg c ⟨i, r⟩ = some (v, ⟨i2, c2 :: r2⟩)) (he : st.endRange = 0) :
    seqLoop cfg (F+1) c ⟨i, r⟩ st =
      seqLoop cfg F c2 ⟨i2+1, r2⟩ { st with lastPosix := false, res := v :: st.res } := by
  rw [← seqLoopG_true, ← seqLoopG_true, seqLoopG]
  have hpt : (if c = '[' then handlePosix ⟨i, r⟩ st.res 0 else none) = none := by
    split
    · rename_i hc; simp [handlePosix, hp hc]
    · rfl
  simp only [h1, h2, if_false, he, hpt, hv, It.next, valStep, bne_self_eq_false, Bool.false_and,
    Bool.false_eq_true]

/-- the right end of a range -/
theorem sl_valR (cfg : Cfg) (F i : Nat) (c : Char) (r : List Char) (st : SeqSt) (lo hi : Char) (e1 e2 : Bool)
    (res0 : List CTok) (i2 : Nat) (c2 : Char) (r2 : List Char) (h1 : c ≠ ']') (h2 : c ≠ '-') (h3 : c ≠ '[')
    (hv : valueOf cfg c ⟨i, r⟩ = some (.chr hi e2, ⟨i2, c2 :: r2⟩)) (hr : st.res = .dash :: .chr lo e1 :: res0)
    (he0 : st.endRange ≠ 0) (he : st.endRange ≤ i2 - 1) (hle : lo.toNat ≤ hi.toNat) :
    seqLoop cfg (F+1) c ⟨i, r⟩ st =
      seqLoop cfg F c2 ⟨i2+1, r2⟩
        { st with lastPosix := false, res := .chr hi e2 :: st.res, endRange := 0, escapeHyphen := (i2 : Int),
                  removed := st.removed || false } := by
  rw [← seqLoopG_true, ← seqLoopG_true, seqLoopG]
  have hk : ¬ ((CTok.chr hi e2).key cfg.isBytes < (CTok.chr lo e1).key cfg.isBytes) := by
    simp only [CTok.key]; omega
  have hcond : (st.endRange != 0 && decide (i2 - 1 ≥ st.endRange)) = true := by
    simp [he0, he]
  simp only [h1, h2, h3, if_false, hv, It.next, valStep, hcond, if_true, hr, seqRangeCheck, hk]

/-- the trailing bare `-` -/
theorem sl_dashLast (cfg : Cfg) (F j : Nat) (r2 : List Char) (st : SeqSt) (he : st.endRange = 0) :
    ∃ (st' : SeqSt) (m : PM), seqLoop cfg (F+2) '-' ⟨j, ']' :: r2⟩ st = some (⟨j+1, r2⟩, st') ∧
      st'.res = m.toks.reverse ++ st.res ∧ st'.removed = st.removed ∧ m.scls = .chr '-' := by
  rw [← seqLoopG_true, seqLoopG]
  simp only [show ('-' : Char) ≠ ']' by decide, if_false, if_true, It.next]
  rw [seqLoopG_true, sl_close]
  unfold dashStep
  split
  · exact ⟨_, .chr '-' true, rfl, rfl, rfl, rfl⟩
  · split
    · exact ⟨_, .dash, rfl, rfl, rfl, rfl⟩
    · simp only [he, bne_self_eq_false, Bool.false_and, Bool.false_eq_true, if_false]
      exact ⟨_, .chr '-' true, rfl, rfl, rfl, rfl⟩

/-- `[:name:]` -/
theorem sl_posix (cfg : Cfg) (F i : Nat) (r : List Char) (n : PosixName) (len : Nat) (c2 : Char) (r2 : List Char)
    (st : SeqSt) (hm : matchPosix r = some (n, len, c2 :: r2)) (he : st.endRange = 0) :
    seqLoop cfg (F+1) '[' ⟨i, r⟩ st =
      seqLoop cfg F c2 ⟨i + len + 1, r2⟩ { st with res := .posix n :: st.res, lastPosix := true, endRange := 0 } := by
  rw [seqLoop]
  simp only [show ('[' : Char) ≠ ']' by decide, show ('[' : Char) ≠ '-' by decide, if_false, if_true,
    handlePosix, hm, he, bne_self_eq_false, Bool.false_and, Bool.false_eq_true, It.next]

/-- `matchPosix` reads `:name:]` exactly -/
theorem matchPosix_exact {s : List Char} {n : PosixName} {len : Nat} {rest' : List Char}
    (h : matchPosix s = some (n, len, rest')) :
    ∃ pre, s = pre ++ rest' ∧ pre.length = len := by
  unfold matchPosix at h
  split at h
  · rename_i rest
    obtain ⟨m, _, hm⟩ := List.exists_of_findSome?_eq_some h
    dsimp only at hm
    split at hm
    · rename_i hpre
      split at hm
      · rename_i r' hd
        simp only [Option.some.injEq, Prod.mk.injEq] at hm
        obtain ⟨t, ht⟩ := List.isPrefixOf_iff_prefix.mp hpre
        rw [← ht, List.drop_left] at hd
        refine ⟨':' :: (m.name.toList ++ [':', ']']), ?_, ?_⟩
        · rw [← ht, hd, ← hm.2.2]; simp
        · rw [← hm.2.1]; simp
      · cases hm
    · cases hm
  · cases h

/-! ### the reader's member loop, one member at a time -/

def twoOf : List Char → Option (Char × List Char)
  | '\\' :: c :: r => some (c, r)
  | '[' :: _ => none
  | '-' :: _ => none
  | c :: r => some (c, r)
  | [] => none

/-- after a member: a following `-` must be the trailing one -/
def contB (F : Nat) (rest : List Char) (acc : List SCls) : Option (List SCls × List Char) :=
  match rest with
  | '-' :: ']' :: _ => bracketItems F rest acc false
  | '-' :: _ => none
  | _ => bracketItems F rest acc false

def genB (F : Nat) (s : List Char) (acc : List SCls) : Option (List SCls × List Char) :=
    match oneOf s with
    | none => none
    | some (lo, rest) =>
      match rest with
      | '-' :: ']' :: _ => bracketItems F rest (acc ++ [.chr lo]) false
      | '-' :: rest2 =>
        (match twoOf rest2 with
         | none => none
         | some (hi, rest3) =>
           if lo.toNat ≤ hi.toNat then contB F rest3 (acc ++ [.range lo hi]) else none)
      | _ =>
        if lo = '-' && !acc.isEmpty then
          (match rest with
           | ']' :: _ => bracketItems F rest (acc ++ [.chr '-']) false
           | _ => none)
        else bracketItems F rest (acc ++ [.chr lo]) false

theorem bi_gen (F : Nat) (c : Char) (r : List Char) (acc : List SCls) (first : Bool) (h1 : c ≠ ']') (h2 : c ≠ '[') :
    bracketItems (F+1) (c :: r) acc first = genB F (c :: r) acc := by
  rw [bracketItems.eq_def]
  simp only []
  split
  · rename_i e; cases e
  · rename_i e _; cases e
  · rename_i e; injection e; simp_all
  · rename_i e; injection e; simp_all
  · rename_i f s a b _ _ e1 e2 e3 e4
    cases e1
    rfl

theorem bi_close (F : Nat) (r : List Char) (acc : List SCls) :
    bracketItems (F+1) (']' :: r) acc false = if acc.isEmpty then none else some (acc, r) := by
  rw [bracketItems]; simp

theorem bi_first_close (F : Nat) (r : List Char) (acc : List SCls) :
    bracketItems (F+1) (']' :: r) acc true =
      if notRangeStart r then bracketItems F r (acc ++ [.chr ']']) false else none := by
  rw [bracketItems]; simp

theorem bi_lbr (F : Nat) (r : List Char) (acc : List SCls) (first : Bool) :
    bracketItems (F+1) ('[' :: r) acc first =
      match matchPosix r with
      | some (n, _, rest') => contB F rest' (acc ++ [.posix n])
      | none => contB F r (acc ++ [.chr '[']) := by
  rw [bracketItems.eq_def]
  simp only []
  cases hm : matchPosix r with
  | none => rfl
  | some v => rfl

/-- at a member boundary, a `-` can only be the trailing one -/
def NB (s : List Char) : Prop := ∀ t, s = '-' :: t → ∃ u, t = ']' :: u

theorem contB_spec {F : Nat} {rest : List Char} {acc : List SCls} {v : List SCls × List Char}
    (h : contB F rest acc = some v) : bracketItems F rest acc false = some v ∧ NB rest := by
  unfold contB at h
  split at h
  · exact ⟨h, fun t e => by injection e with _ e; exact ⟨_, e.symm⟩⟩
  · cases h
  · rename_i h1 h2
    refine ⟨h, fun t e => ?_⟩
    subst e
    exact absurd rfl (h2 t)

theorem bi_nil (F : Nat) (acc : List SCls) (first : Bool) : bracketItems F [] acc first = none := by
  cases F <;> simp [bracketItems]

theorem bi_zero (s : List Char) (acc : List SCls) (first : Bool) : bracketItems 0 s acc first = none := by
  simp [bracketItems]

/-! ### the simulation -/

/-- what the previous member was: this decides how the pass spells a trailing `-` -/
inductive PK | single | range | posix
  deriving DecidableEq, Repr

/-- the state of the pass at a member boundary; `i` = characters read so far (the current one
    included) -/
structure JK (st : SeqSt) (i : Nat) (k : PK) : Prop where
  endRange : st.endRange = 0
  removed : st.removed = false
  eh : st.escapeHyphen < (i : Int)
  single : k = .single → st.lastPosix = false ∧ st.escapeHyphen < (i : Int) - 1
  range : k = .range → st.lastPosix = false ∧ st.escapeHyphen = (i : Int) - 1
  posix : k = .posix → st.lastPosix = true

theorem JK.toJ {st : SeqSt} {i : Nat} {k : PK} (h : JK st i k) : J st i := ⟨h.endRange, h.removed, h.eh⟩

/-- the trailing `-` as the pass spells it -/
def lastDash : PK → PM
  | .single => .dash
  | _ => .chr '-' true

theorem lastDash_scls (k : PK) : (lastDash k).scls = .chr '-' := by cases k <;> rfl

theorem sl_dashLast' (cfg : Cfg) (F j : Nat) (r2 : List Char) (st : SeqSt) (k : PK) (hj : JK st j k) :
    ∃ st' : SeqSt, seqLoop cfg (F+2) '-' ⟨j, ']' :: r2⟩ st = some (⟨j+1, r2⟩, st') ∧
      st'.res = (lastDash k).toks.reverse ++ st.res ∧ st'.removed = false := by
  rw [← seqLoopG_true, seqLoopG]
  simp only [show ('-' : Char) ≠ ']' by decide, if_false, if_true, It.next]
  rw [seqLoopG_true, sl_close]
  unfold dashStep
  cases k with
  | posix =>
    simp only [hj.posix rfl, if_true]
    exact ⟨_, rfl, rfl, hj.removed⟩
  | single =>
    obtain ⟨h1, h2⟩ := hj.single rfl
    have : (j : Int) - 1 > st.escapeHyphen := by omega
    simp only [h1, Bool.false_eq_true, if_false, this, if_true]
    exact ⟨_, rfl, rfl, hj.removed⟩
  | range =>
    obtain ⟨h1, h2⟩ := hj.range rfl
    have : ¬ ((j : Int) - 1 > st.escapeHyphen) := by omega
    simp only [h1, Bool.false_eq_true, if_false, this, hj.endRange, bne_self_eq_false, Bool.false_and]
    exact ⟨_, rfl, rfl, hj.removed⟩

/-- what the pass does from a member boundary (`c` just read, `r` still to read, previous member
    of kind `k`), when the reader — there with the members `acc` — finishes with `items` and
    leaves `rest`.  The members `ms` and the text `w` read do not depend on the state. -/
def Sim (cfg : Cfg) (c : Char) (r : List Char) (acc items : List SCls) (rest : List Char) (k : PK) : Prop :=
  ∃ (ms : List PM) (w : List Char), items = acc ++ ms.map PM.scls ∧ r = w ++ rest ∧ dashLast ms ∧
    ∀ (F' i : Nat) (st : SeqSt), JK st i k → r.length + 2 ≤ F' →
      ∃ st' : SeqSt, seqLoop cfg F' c ⟨i, r⟩ st = some (⟨i + w.length, rest⟩, st') ∧
        st'.res = (ms.flatMap PM.toks).reverse ++ st.res ∧ st'.removed = false

/-- one member read by both, then the induction hypothesis -/
theorem sim_step (cfg : Cfg) {acc items : List SCls} {rest : List Char} (m : PM) (hm : m ≠ .dash) {k k' : PK}
    {c2 : Char} {r2 : List Char} (hS : Sim cfg c2 r2 (acc ++ [m.scls]) items rest k')
    {c : Char} {r : List Char} (pre : List Char) (hr : r = pre ++ r2) (n : Nat) (hnl : n ≤ pre.length)
    (hstep : ∀ (i : Nat) (st : SeqSt), JK st i k → ∃ st1 : SeqSt,
      (∀ G, seqLoop cfg (G + n) c ⟨i, r⟩ st = seqLoop cfg G c2 ⟨i + pre.length, r2⟩ st1) ∧
      st1.res = m.toks.reverse ++ st.res ∧ JK st1 (i + pre.length) k') :
    Sim cfg c r acc items rest k := by
  have hl : r.length = pre.length + r2.length := by rw [hr]; simp
  obtain ⟨ms, w, h1, h2, h6, hrun⟩ := hS
  refine ⟨m :: ms, pre ++ w, ?_, ?_, ?_, ?_⟩
  · rw [h1]; simp
  · rw [hr, h2]; simp
  · cases ms with
    | nil => trivial
    | cons m' r' => exact ⟨hm, h6⟩
  · intro F' i st hj hF
    obtain ⟨st1, hs1, hres, hJ⟩ := hstep i st hj
    obtain ⟨G, rfl⟩ : ∃ G, F' = G + n := ⟨F' - n, by omega⟩
    obtain ⟨st', h3, h4, h5⟩ := hrun G (i + pre.length) st1 hJ (by omega)
    refine ⟨st', ?_, ?_, h5⟩
    · rw [hs1, h3]; simp [Nat.add_assoc]
    · rw [h4, hres]; simp

theorem twoOf_spec {s : List Char} {hi : Char} {rest3 : List Char} (h : twoOf s = some (hi, rest3))
    (hne : rest3 ≠ []) :
    ∃ ch rr, s = ch :: rr ∧ ch ≠ '[' ∧ ch ≠ '-' ∧ oneOf s = some (hi, rest3) := by
  cases s with
  | nil => simp [twoOf] at h
  | cons ch rr =>
    by_cases h1 : ch = '\\'
    · subst h1
      cases rr with
      | nil =>
        have e : twoOf ['\\'] = some ('\\', []) := rfl
        rw [e] at h
        simp only [Option.some.injEq, Prod.mk.injEq] at h
        exact absurd h.2.symm hne
      | cons d r' =>
        simp only [twoOf, Option.some.injEq, Prod.mk.injEq] at h
        obtain ⟨rfl, rfl⟩ := h
        exact ⟨_, _, rfl, by decide, by decide, rfl⟩
    · by_cases h2 : ch = '['
      · subst h2; simp [twoOf] at h
      · by_cases h3 : ch = '-'
        · subst h3; simp [twoOf] at h
        · have ht : twoOf (ch :: rr) = some (ch, rr) := by
            unfold twoOf
            split
            · rename_i e; injection e with e _; exact absurd e h1
            · rename_i e; injection e with e _; exact absurd e h2
            · rename_i e; injection e with e _; exact absurd e h3
            · rename_i e; injection e with e1 e2; subst e1; subst e2; rfl
            · rename_i e; cases e
          rw [ht] at h
          simp only [Option.some.injEq, Prod.mk.injEq] at h
          obtain ⟨rfl, rfl⟩ := h
          exact ⟨_, _, rfl, h2, h3, oneOf_cons_ne _ _ h1⟩

theorem oneOf_pre {c : Char} {r : List Char} {lo : Char} {rest1 : List Char} {k : Nat}
    (ho : oneOf (c :: r) = some (lo, rest1)) (hk : k + rest1.length = r.length) :
    ∃ pre1, r = pre1 ++ rest1 ∧ pre1.length = k := by
  by_cases hcb : c = '\\'
  · subst hcb
    cases r with
    | nil => simp [oneOf] at ho
    | cons d r' =>
      simp only [oneOf, Option.some.injEq, Prod.mk.injEq] at ho
      obtain ⟨rfl, rfl⟩ := ho
      refine ⟨[_], rfl, ?_⟩
      simp only [List.length_cons, List.length_nil] at hk ⊢
      omega
  · rw [oneOf_cons_ne c r hcb] at ho
    simp only [Option.some.injEq, Prod.mk.injEq] at ho
    obtain ⟨rfl, rfl⟩ := ho
    exact ⟨[], rfl, by simp; omega⟩

/-- the second half of a range: `-hi` once `lo` is on the stack (`j` = characters read, `lo`
    included) -/
theorem range_tail (cfg : Cfg) (h : FnX cfg) (lo : Char) (e : Bool) (ch : Char) (rr : List Char) (hi c3 : Char)
    (r3 : List Char) (ho2 : oneOf (ch :: rr) = some (hi, c3 :: r3)) (h1 : ch ≠ ']') (h2 : ch ≠ '-')
    (h3 : ch ≠ '[') (hle : lo.toNat ≤ hi.toNat) :
    ∃ (e2 : Bool) (pre2 : List Char), rr = pre2 ++ c3 :: r3 ∧
      ∀ (j : Nat) (st1 : SeqSt) (res0 : List CTok), st1.res = .chr lo e :: res0 → st1.lastPosix = false →
        st1.endRange = 0 → st1.removed = false → st1.escapeHyphen < (j : Int) →
        ∃ st2 : SeqSt, (∀ G, seqLoop cfg (G+2) '-' ⟨j+1, ch :: rr⟩ st1 =
            seqLoop cfg G c3 ⟨j + 3 + pre2.length, r3⟩ st2) ∧
          st2.res = .chr hi e2 :: .dash :: .chr lo e :: res0 ∧ JK st2 (j + 3 + pre2.length) .range := by
  obtain ⟨e2, k2, hk2, hv2⟩ := valueOf_one cfg h ch rr hi (c3 :: r3) ho2
  obtain ⟨pre2, hr2, hk2'⟩ := oneOf_pre ho2 hk2
  refine ⟨e2, pre2, hr2, ?_⟩
  intro j st1 res0 hres hlp her hrm heh
  refine ⟨{ st1 with lastPosix := false, res := .chr hi e2 :: .dash :: .chr lo e :: res0, endRange := 0,
                     escapeHyphen := ((j + 2 + k2 : Nat) : Int), removed := st1.removed || false }, ?_, rfl, ?_⟩
  · intro G
    rw [seqLoop_dash cfg (G+1) j ch rr st1 hlp heh]
    rw [sl_valR cfg G (j + 2) ch rr _ lo hi e e2 res0 (j + 2 + k2) c3 r3 h1 h2 h3 (hv2 (j+2))
      (by simp [hres]) (by show j + 1 ≠ 0; omega) (by show j + 1 ≤ _; omega) hle]
    simp only [hres, hk2']
    have : j + 2 + k2 + 1 = j + 3 + k2 := by omega
    rw [this]
  · refine ⟨rfl, by simp [hrm], ?_, ?_, ?_, ?_⟩
    · show ((j + 2 + k2 : Nat) : Int) < _; rw [hk2']; omega
    · intro hk; cases hk
    · intro _; refine ⟨rfl, ?_⟩
      show ((j + 2 + k2 : Nat) : Int) = _; rw [hk2']; omega
    · intro hk; cases hk

theorem NB_of_not_dash {s : List Char} (h : s.head? ≠ some '-') : NB s := by
  intro t e; subst e; simp at h

/-- pushing a single member keeps the boundary invariant (kind `single`) -/
theorem JK.push {st : SeqSt} {i : Nat} {k : PK} (hj : JK st i k) (v : CTok) (n : Nat) (hn : 1 ≤ n) :
    JK { st with lastPosix := false, res := v :: st.res } (i + n) .single := by
  have := hj.eh
  refine ⟨hj.endRange, hj.removed, ?_, ?_, ?_, ?_⟩
  · show st.escapeHyphen < _; omega
  · intro _; exact ⟨rfl, by show st.escapeHyphen < _; omega⟩
  · intro hk; cases hk
  · intro hk; cases hk

/-- **the simulation**, from any member boundary that is not the first -/
theorem sim (cfg : Cfg) (h : FnX cfg) : ∀ (F : Nat) (c : Char) (r : List Char) (acc items : List SCls)
    (rest : List Char) (k : PK),
    bracketItems F (c :: r) acc false = some (items, rest) → NB (c :: r) → Sim cfg c r acc items rest k := by
  intro F
  induction F with
  | zero => intro c r acc items rest k hb; rw [bi_zero] at hb; cases hb
  | succ F ih =>
    intro c r acc items rest k hb hnb
    by_cases hc1 : c = ']'
    · -- the closing bracket
      subst hc1
      rw [bi_close] at hb
      split at hb
      · cases hb
      · simp only [Option.some.injEq, Prod.mk.injEq] at hb
        obtain ⟨hb1, hb2⟩ := hb
        refine ⟨[], [], by simp [hb1], by simp [hb2], trivial, ?_⟩
        intro F' i st hj hF
        obtain ⟨G, rfl⟩ : ∃ G, F' = G + 1 := ⟨F' - 1, by omega⟩
        exact ⟨st, by rw [sl_close, hb2]; rfl, by simp, hj.removed⟩
    by_cases hc2 : c = '['
    · subst hc2
      rw [bi_lbr] at hb
      cases hm : matchPosix r with
      | some v =>
        obtain ⟨n, len, rest'⟩ := v
        simp only [hm] at hb
        obtain ⟨hb', hnb'⟩ := contB_spec hb
        cases rest' with
        | nil => rw [bi_nil] at hb'; cases hb'
        | cons c2 r2 =>
          obtain ⟨pre, hpre, hlen⟩ := matchPosix_exact hm
          have hS := ih c2 r2 _ items rest .posix hb' hnb'
          refine sim_step cfg (.posix n) (by simp) hS (pre ++ [c2]) (by rw [hpre]; simp) 1 (by simp) ?_
          intro i st hj
          refine ⟨{ st with res := .posix n :: st.res, lastPosix := true, endRange := 0 }, ?_, rfl, ?_⟩
          · intro G
            rw [sl_posix cfg G i r n len c2 r2 st hm hj.endRange]
            simp only [List.length_append, List.length_cons, List.length_nil, hlen]
            rfl
          · have := hj.eh
            refine ⟨rfl, hj.removed, by show st.escapeHyphen < _; omega, ?_, ?_, fun _ => rfl⟩
            · intro hk; cases hk
            · intro hk; cases hk
      | none =>
        simp only [hm] at hb
        obtain ⟨hb', hnb'⟩ := contB_spec hb
        cases r with
        | nil => rw [bi_nil] at hb'; cases hb'
        | cons c2 r2 =>
          obtain ⟨e, k0, hk, hv⟩ := valueOf_one cfg h '[' (c2 :: r2) '[' (c2 :: r2) (oneOf_cons_ne _ _ (by decide))
          have hk0 : k0 = 0 := by omega
          subst hk0
          have hS := ih c2 r2 _ items rest .single hb' hnb'
          refine sim_step cfg (.chr '[' e) (by simp) hS [c2] rfl 1 (by simp) ?_
          intro i st hj
          refine ⟨{ st with lastPosix := false, res := .chr '[' e :: st.res }, ?_, rfl, hj.push _ 1 (by omega)⟩
          intro G
          rw [sl_val cfg G i '[' (c2 :: r2) st _ (i + 0) c2 r2 (by decide) (by decide) (fun _ => hm) (hv i)
            hj.endRange]
          rfl
    by_cases hc3 : c = '-'
    · -- the trailing bare dash
      subst hc3
      obtain ⟨u, rfl⟩ := hnb r rfl
      rw [bi_gen F '-' _ acc false (by decide) (by decide)] at hb
      have hb2 : bracketItems F (']' :: u) (acc ++ [.chr '-']) false = some (items, rest) := by
        have e1 : oneOf ('-' :: ']' :: u) = some ('-', ']' :: u) := oneOf_cons_ne _ _ (by decide)
        unfold genB at hb
        simp only [e1] at hb
        split at hb
        · rename_i e; injection e
        · rename_i e; injection e with e _; exact absurd e (by decide)
        · split at hb <;> exact hb
      cases F with
      | zero => rw [bi_zero] at hb2; cases hb2
      | succ F0 =>
        rw [bi_close] at hb2
        split at hb2
        · cases hb2
        · simp only [Option.some.injEq, Prod.mk.injEq] at hb2
          obtain ⟨hi1, hi2⟩ := hb2
          refine ⟨[lastDash k], [']'], by simp [lastDash_scls, ← hi1], by simp [hi2], trivial, ?_⟩
          intro F' i st hj hF
          obtain ⟨G, rfl⟩ : ∃ G, F' = G + 2 := ⟨F' - 2, by simp at hF; omega⟩
          obtain ⟨st', e1, e2, e3⟩ := sl_dashLast' cfg G i u st k hj
          exact ⟨st', by rw [e1, hi2]; rfl, by simp [e2], e3⟩
    -- a (possibly escaped) character
    rw [bi_gen F c r acc false hc1 hc2] at hb
    unfold genB at hb
    cases ho : oneOf (c :: r) with
    | none => simp [ho] at hb
    | some v =>
      obtain ⟨lo, rest1⟩ := v
      simp only [ho] at hb
      obtain ⟨e, k1, hk, hv⟩ := valueOf_one cfg h c r lo rest1 ho
      obtain ⟨pre1, hr1, hk1⟩ := oneOf_pre ho hk
      -- the state once `lo` is pushed
      have hpush : ∀ (i : Nat) (st : SeqSt), st.endRange = 0 → ∀ (G : Nat) (c2 : Char) (r2 : List Char),
          rest1 = c2 :: r2 →
          seqLoop cfg (G+1) c ⟨i, r⟩ st =
            seqLoop cfg G c2 ⟨i + k1 + 1, r2⟩ { st with lastPosix := false, res := .chr lo e :: st.res } := by
        intro i st he G c2 r2 e1
        have hv' := hv i
        rw [e1] at hv'
        exact sl_val cfg G i c r st _ (i + k1) c2 r2 hc1 hc3 (fun e => absurd e hc2) hv' he
      split at hb
      · -- `lo-]`
        rename_i t
        have hS := ih '-' (']' :: t) _ items rest .single hb
          (fun t' e => by injection e with _ e; exact ⟨_, e.symm⟩)
        refine sim_step cfg (.chr lo e) (by simp) hS (pre1 ++ ['-']) (by rw [hr1]; simp) 1 (by simp) ?_
        intro i st hj
        refine ⟨{ st with lastPosix := false, res := .chr lo e :: st.res }, ?_, rfl, ?_⟩
        · intro G
          rw [hpush i st hj.endRange G '-' (']' :: t) rfl]
          simp only [List.length_append, List.length_cons, List.length_nil, hk1]
          rfl
        · simp only [List.length_append, List.length_cons, List.length_nil]
          exact hj.push _ _ (by omega)
      · -- a range `lo-hi`
        rename_i rest2 hnot
        cases ht : twoOf rest2 with
        | none => simp [ht] at hb
        | some v2 =>
          obtain ⟨hi, rest3⟩ := v2
          simp only [ht] at hb
          split at hb
          · rename_i hle
            obtain ⟨hb', hnb'⟩ := contB_spec hb
            cases rest3 with
            | nil => rw [bi_nil] at hb'; cases hb'
            | cons c3 r3 =>
              obtain ⟨ch, rr, hrr, hch1, hch2, ho2⟩ := twoOf_spec ht (by simp)
              subst hrr
              have hch3 : ch ≠ ']' := fun e => hnot rr (by rw [e])
              obtain ⟨e2, pre2, hr2, htail⟩ := range_tail cfg h lo e ch rr hi c3 r3 ho2 hch3 hch2 hch1 hle
              have hS := ih c3 r3 _ items rest .range hb' hnb'
              refine sim_step cfg (.range lo e hi e2) (by simp) hS (pre1 ++ '-' :: ch :: (pre2 ++ [c3]))
                (by rw [hr1, hr2]; simp) 3 (by simp; omega) ?_
              intro i st hj
              obtain ⟨st2, hs2, hres2, hj2⟩ := htail (i + k1) { st with lastPosix := false, res := .chr lo e :: st.res }
                st.res rfl rfl hj.endRange hj.removed (by have := hj.eh; show st.escapeHyphen < _; omega)
              refine ⟨st2, ?_, by rw [hres2]; rfl, ?_⟩
              · intro G
                rw [hpush i st hj.endRange (G+2) '-' (ch :: rr) rfl, hs2 G]
                simp only [List.length_append, List.length_cons, List.length_nil, hk1]
                have : i + k1 + 3 + pre2.length = i + (k1 + (pre2.length + (0 + 1) + 1 + 1)) := by omega
                rw [this]
              · simp only [List.length_append, List.length_cons, List.length_nil, hk1]
                have : i + (k1 + (pre2.length + (0 + 1) + 1 + 1)) = i + k1 + 3 + pre2.length := by omega
                rw [this]; exact hj2
          · cases hb
      · -- a single member
        rename_i hn1 hn2
        have hnb1 : NB rest1 := by
          intro t e
          subst e
          cases t with
          | nil => exact absurd rfl (hn2 [])
          | cons x t' =>
            by_cases hx : x = ']'
            · subst hx; exact ⟨_, rfl⟩
            · exact absurd rfl (hn2 (x :: t'))
        have key : ∃ x : Char, (x = lo) ∧ bracketItems F rest1 (acc ++ [.chr x]) false = some (items, rest) := by
          split at hb
          · rename_i hl
            simp only [Bool.and_eq_true, decide_eq_true_eq] at hl
            split at hb
            · exact ⟨'-', hl.1.symm, hb⟩
            · cases hb
          · exact ⟨lo, rfl, hb⟩
        obtain ⟨x, rfl, hb'⟩ := key
        cases rest1 with
        | nil => rw [bi_nil] at hb'; cases hb'
        | cons c2 r2 =>
          have hS := ih c2 r2 _ items rest .single hb' hnb1
          refine sim_step cfg (.chr x e) (by simp) hS (pre1 ++ [c2]) (by rw [hr1]; simp) 1 (by simp) ?_
          intro i st hj
          refine ⟨{ st with lastPosix := false, res := .chr x e :: st.res }, ?_, rfl, ?_⟩
          · intro G
            rw [hpush i st hj.endRange G c2 r2 rfl]
            simp only [List.length_append, List.length_cons, List.length_nil, hk1]
            rfl
          · simp only [List.length_append, List.length_cons, List.length_nil]
            exact hj.push _ _ (by omega)

/-! ### the whole bracket -/

theorem dashLast_append : ∀ (a b : List PM), (∀ x ∈ a, x ≠ .dash) → dashLast b → dashLast (a ++ b)
  | [], b, _, hb => hb
  | [x], b, ha, hb => by
    cases b with
    | nil => trivial
    | cons y r => exact ⟨ha x (by simp), hb⟩
  | x :: y :: r, b, ha, hb => by
    have ih := dashLast_append (y :: r) b (fun z hz => ha z (List.mem_cons_of_mem _ hz)) hb
    exact ⟨ha x (by simp), ih⟩

/-- the tail of `seqBody`, once the loop has returned -/
theorem seq_finish' (cfg : Cfg) (hp : cfg.pathname = false) (ps : PS) (neg : Bool) (ms : List PM)
    (itE : It) (st : SeqSt)
    (hr : st.res = (ms.flatMap PM.toks).reverse ++ (if neg then [.caret, .opn] else [.opn]))
    (hrm : st.removed = false) (hd : dashLast ms) :
    seqFinish cfg ps neg itE st =
    some (PP.guard cfg ps.afterStart (.cls neg (ms.map (PM.item cfg.isBytes))),
      (if ps.afterStart then ps.resetDirTrack else ps), itE) := by
  unfold seqFinish
  have hbody : (st.res.reverse).drop (if neg then 2 else 1) = ms.flatMap PM.toks := by
    rw [hr]; cases neg <;> simp
  have hg := groupAtoms_pm cfg.isBytes ms
    ((tokAtoms cfg.isBytes (ms.flatMap PM.toks)).length + 1) hd
    (by have := pm_atoms_length cfg.isBytes ms; omega)
  simp only [hbody, hrm, Bool.false_and, Bool.false_eq_true, if_false, hg, hp, Bool.false_or]
  cases ha : ps.afterStart
  · simp [PP.guard]
  · simp only [if_true, restrictSequence, hp, Bool.false_eq_true, if_false, ha, Bool.true_and, PP.guard]
    cases cfg.dot <;> simp [catE, noDot_ne_eps]

theorem NB_of_notRangeStart {r : List Char} (h : notRangeStart r = true) : NB r := by
  intro t e
  subst e
  cases t with
  | nil => simp [notRangeStart] at h
  | cons x t' =>
    by_cases hx : x = ']'
    · subst hx; exact ⟨_, rfl⟩
    · unfold notRangeStart at h
      split at h
      · rename_i e; injection e with _ e; injection e with e _; exact absurd e hx
      · cases h
      · rename_i h2; exact absurd rfl (h2 _)

/-- the initial loop state -/
theorem JK_init (res : List CTok) (i : Nat) (hi : 1 ≤ i) : JK ⟨res, 0, -1, false, false⟩ i .single := by
  refine ⟨rfl, rfl, by show (-1 : Int) < _; omega, fun _ => ⟨rfl, by show (-1 : Int) < _; omega⟩, ?_, ?_⟩
  · intro hk; cases hk
  · intro hk; cases hk

theorem JK_init_posix (res : List CTok) (i : Nat) : JK ⟨res, 0, -1, false, true⟩ i .posix := by
  refine ⟨rfl, rfl, by show (-1 : Int) < _; omega, ?_, ?_, fun _ => rfl⟩
  · intro hk; cases hk
  · intro hk; cases hk

/-- the result `seqBody` is expected to return -/
def bodyRes (cfg : Cfg) (ps : PS) (neg : Bool) (ms : List PM) (i : Nat) (rest : List Char) :
    Option (Re × PS × It) :=
  some (PP.guard cfg ps.afterStart (.cls neg (ms.map (PM.item cfg.isBytes))),
    (if ps.afterStart then ps.resetDirTrack else ps), ⟨i, rest⟩)

/-- from the loop to `seqBody`: `ms0` are the members already on the stack -/
theorem body_of_sim (cfg : Cfg) (h : FnX cfg) {c2 : Char} {r2 : List Char} {items : List SCls} {rest : List Char}
    {k : PK} (ms0 : List PM) (hnd : ∀ x ∈ ms0, x ≠ .dash)
    (hS : Sim cfg c2 r2 (ms0.map PM.scls) items rest k) :
    ∃ (ms : List PM) (w : List Char), items = ms.map PM.scls ∧ r2 = w ++ rest ∧ dashLast ms ∧
      ∀ (ps : PS) (neg : Bool) (i2 : Nat) (st1 : SeqSt),
        st1.res = (ms0.flatMap PM.toks).reverse ++ (if neg then [.caret, .opn] else [.opn]) → JK st1 i2 k →
        ∀ G, r2.length + 2 ≤ G →
        (match seqLoop cfg G c2 ⟨i2, r2⟩ st1 with
         | none => none
         | some (it, st) => seqFinish cfg ps neg it st) = bodyRes cfg ps neg ms (i2 + w.length) rest := by
  obtain ⟨ms, w, h1, h2, h3, hrun⟩ := hS
  refine ⟨ms0 ++ ms, w, by rw [h1]; simp, h2, dashLast_append _ _ hnd h3, ?_⟩
  intro ps neg i2 st1 hres hj G hG
  obtain ⟨st', e1, e2, e3⟩ := hrun G i2 st1 hj hG
  simp only [e1]
  exact seq_finish' cfg h.pathname ps neg (ms0 ++ ms) _ st' (by rw [e2, hres]; simp) e3
    (dashLast_append _ _ hnd h3)

/-- **`seqBody` on the text after the negation character** -/
theorem seqBody_read (cfg : Cfg) (h : FnX cfg) (F : Nat) (c : Char) (r : List Char) (items : List SCls)
    (rest : List Char) (hb : bracketItems F (c :: r) [] true = some (items, rest)) :
    ∃ (ms : List PM) (w : List Char), items = ms.map PM.scls ∧ r = w ++ rest ∧ dashLast ms ∧
      ∀ (ps : PS) (neg : Bool) (i : Nat), 1 ≤ i →
        seqBody cfg ps neg c ⟨i, r⟩ = bodyRes cfg ps neg ms (i + w.length) rest := by
  cases F with
  | zero => rw [bi_zero] at hb; cases hb
  | succ F =>
    by_cases hc1 : c = ']'
    · subst hc1
      rw [bi_first_close] at hb
      split at hb
      · rename_i hnr
        cases r with
        | nil => rw [bi_nil] at hb; cases hb
        | cons c2 r2 =>
          have hS := sim cfg h F c2 r2 _ items rest .single hb (NB_of_notRangeStart hnr)
          obtain ⟨ms, w, h1, h2, h3, hrun⟩ := body_of_sim cfg h [.chr ']' true] (by simp) hS
          refine ⟨ms, c2 :: w, h1, by rw [h2]; rfl, h3, ?_⟩
          intro ps neg i hi
          have hs2 : seqStep2 neg ']' ⟨i, c2 :: r2⟩ =
              some (c2, ⟨i+1, r2⟩, .chr ']' true :: (if neg then [.caret, .opn] else [.opn]), false) := by
            simp [seqStep2, It.next]
          unfold seqBody
          simp only [hs2]
          refine Eq.trans (hrun ps neg (i+1) ⟨.chr ']' true :: (if neg then [.caret, .opn] else [.opn]), 0, -1, false, false⟩ (by simp [PM.toks]) (JK_init _ _ (by omega)) _ (Nat.le_refl _)) ?_
          unfold bodyRes
          simp only [List.length_cons]
          congr 4
          omega
      · cases hb
    by_cases hc2 : c = '['
    · subst hc2
      rw [bi_lbr] at hb
      cases hm : matchPosix r with
      | some v =>
        obtain ⟨n, len, rest'⟩ := v
        simp only [hm] at hb
        obtain ⟨hb', hnb'⟩ := contB_spec hb
        cases rest' with
        | nil => rw [bi_nil] at hb'; cases hb'
        | cons c2 r2 =>
          obtain ⟨pre, hpre, hlen⟩ := matchPosix_exact hm
          have hS := sim cfg h F c2 r2 _ items rest .posix hb' hnb'
          obtain ⟨ms, w, h1, h2, h3, hrun⟩ := body_of_sim cfg h [.posix n] (by simp) hS
          refine ⟨ms, pre ++ c2 :: w, h1, by rw [hpre, h2]; simp, h3, ?_⟩
          intro ps neg i hi
          have hs2 : seqStep2 neg '[' ⟨i, r⟩ =
              some (c2, ⟨i + len + 1, r2⟩, .posix n :: (if neg then [.caret, .opn] else [.opn]), true) := by
            simp [seqStep2, handlePosix, hm, It.next]
          unfold seqBody
          simp only [hs2]
          refine Eq.trans (hrun ps neg (i+len+1) ⟨.posix n :: (if neg then [.caret, .opn] else [.opn]), 0, -1, false, true⟩ (by simp [PM.toks]) (JK_init_posix _ _) _ (Nat.le_refl _)) ?_
          unfold bodyRes
          simp only [List.length_append, List.length_cons, hlen]
          congr 4
          omega
      | none =>
        simp only [hm] at hb
        obtain ⟨hb', hnb'⟩ := contB_spec hb
        cases r with
        | nil => rw [bi_nil] at hb'; cases hb'
        | cons c2 r2 =>
          have hS := sim cfg h F c2 r2 _ items rest .single hb' hnb'
          obtain ⟨ms, w, h1, h2, h3, hrun⟩ := body_of_sim cfg h [.chr '[' true] (by simp) hS
          refine ⟨ms, c2 :: w, h1, by rw [h2]; rfl, h3, ?_⟩
          intro ps neg i hi
          have hs2 : seqStep2 neg '[' ⟨i, c2 :: r2⟩ =
              some (c2, ⟨i+1, r2⟩, .chr '[' true :: (if neg then [.caret, .opn] else [.opn]), false) := by
            simp [seqStep2, handlePosix, hm, It.next]
          unfold seqBody
          simp only [hs2]
          refine Eq.trans (hrun ps neg (i+1) ⟨.chr '[' true :: (if neg then [.caret, .opn] else [.opn]), 0, -1, false, false⟩ (by simp [PM.toks]) (JK_init _ _ (by omega)) _ (Nat.le_refl _)) ?_
          unfold bodyRes
          simp only [List.length_cons]
          congr 4
          omega
    by_cases hc3 : c = '-'
    · subst hc3
      rw [bi_gen F '-' r [] true (by decide) (by decide)] at hb
      have e1 : oneOf ('-' :: r) = some ('-', r) := oneOf_cons_ne _ _ (by decide)
      unfold genB at hb
      simp only [e1] at hb
      have hs2 : ∀ (neg : Bool) (i : Nat) (c2 : Char) (r2 : List Char), r = c2 :: r2 →
          seqStep2 neg '-' ⟨i, r⟩ =
            some (c2, ⟨i+1, r2⟩, .chr '-' true :: (if neg then [.caret, .opn] else [.opn]), false) := by
        intro neg i c2 r2 e; subst e; simp [seqStep2, It.next]
      split at hb
      · -- `--]`
        rename_i t
        have hS := sim cfg h F '-' (']' :: t) _ items rest .single hb
          (fun t' e => by injection e with _ e; exact ⟨_, e.symm⟩)
        obtain ⟨ms, w, h1, h2, h3, hrun⟩ := body_of_sim cfg h [.chr '-' true] (by simp) hS
        refine ⟨ms, '-' :: w, h1, by rw [h2]; rfl, h3, ?_⟩
        intro ps neg i hi
        unfold seqBody
        simp only [hs2 neg i '-' (']' :: t) rfl]
        refine Eq.trans (hrun ps neg (i+1) ⟨.chr '-' true :: (if neg then [.caret, .opn] else [.opn]), 0, -1, false, false⟩ (by simp [PM.toks]) (JK_init _ _ (by omega)) _ (Nat.le_refl _)) ?_
        unfold bodyRes
        simp only [List.length_cons]
        congr 4
        omega
      · -- a range `--hi`
        rename_i rest2 hnot
        cases ht : twoOf rest2 with
        | none => simp [ht] at hb
        | some v2 =>
          obtain ⟨hi', rest3⟩ := v2
          simp only [ht] at hb
          split at hb
          · rename_i hle
            obtain ⟨hb', hnb'⟩ := contB_spec hb
            cases rest3 with
            | nil => rw [bi_nil] at hb'; cases hb'
            | cons c3 r3 =>
              obtain ⟨ch, rr, hrr, hch1, hch2, ho2⟩ := twoOf_spec ht (by simp)
              subst hrr
              have hch3 : ch ≠ ']' := fun e => hnot rr (by rw [e])
              obtain ⟨e2, pre2, hr2, htail⟩ := range_tail cfg h '-' true ch rr hi' c3 r3 ho2 hch3 hch2 hch1 hle
              have hS := sim cfg h F c3 r3 _ items rest .range hb' hnb'
              obtain ⟨ms, w, h1, h2, h3, hrun⟩ := body_of_sim cfg h [.range '-' true hi' e2] (by simp) hS
              refine ⟨ms, '-' :: ch :: (pre2 ++ c3 :: w), h1, by rw [hr2, h2]; simp, h3, ?_⟩
              intro ps neg i hi
              unfold seqBody
              simp only [hs2 neg i '-' (ch :: rr) rfl]
              obtain ⟨st2, hs2', hres2, hj2⟩ := htail i
                ⟨.chr '-' true :: (if neg then [.caret, .opn] else [.opn]), 0, -1, false, false⟩ _ rfl rfl rfl rfl
                (by show (-1 : Int) < _; omega)
              have hfuel : (ch :: rr).length + 2 = rr.length + 1 + 2 := by simp
              rw [hfuel, hs2' (rr.length + 1)]
              have hlen : r3.length + 2 ≤ rr.length + 1 := by
                rw [hr2]; simp only [List.length_append, List.length_cons]; omega
              refine Eq.trans (hrun ps neg _ st2 (by rw [hres2]; simp [PM.toks]) hj2 _ hlen) ?_
              unfold bodyRes
              simp only [List.length_cons, List.length_append]
              congr 4
              omega
          · cases hb
      · -- a literal `-`
        rename_i hn1 hn2
        have hb' : bracketItems F r ([] ++ [.chr '-']) false = some (items, rest) := by
          split at hb
          · rename_i hl; simp at hl
          · exact hb
        have hnb1 : NB r := by
          intro t e
          subst e
          cases t with
          | nil => exact absurd rfl (hn2 [])
          | cons x t' =>
            by_cases hx : x = ']'
            · subst hx; exact ⟨_, rfl⟩
            · exact absurd rfl (hn2 (x :: t'))
        cases r with
        | nil => rw [bi_nil] at hb'; cases hb'
        | cons c2 r2 =>
          have hS := sim cfg h F c2 r2 _ items rest .single hb' hnb1
          obtain ⟨ms, w, h1, h2, h3, hrun⟩ := body_of_sim cfg h [.chr '-' true] (by simp) hS
          refine ⟨ms, c2 :: w, h1, by rw [h2]; rfl, h3, ?_⟩
          intro ps neg i hi
          unfold seqBody
          simp only [hs2 neg i c2 r2 rfl]
          refine Eq.trans (hrun ps neg (i+1) ⟨.chr '-' true :: (if neg then [.caret, .opn] else [.opn]), 0, -1, false, false⟩ (by simp [PM.toks]) (JK_init _ _ (by omega)) _ (Nat.le_refl _)) ?_
          unfold bodyRes
          simp only [List.length_cons]
          congr 4
          omega
    -- any other first character: the loop starts at it
    have hb' : bracketItems (F+1) (c :: r) [] false = some (items, rest) := by
      rw [bi_gen F c r [] false hc1 hc2]; rw [bi_gen F c r [] true hc1 hc2] at hb; exact hb
    have hS := sim cfg h (F+1) c r _ items rest .single hb'
      (fun t e => by injection e with e _; exact absurd e hc3)
    obtain ⟨ms, w, h1, h2, h3, hrun⟩ := body_of_sim cfg h [] (by simp) hS
    refine ⟨ms, w, h1, h2, h3, ?_⟩
    intro ps neg i hi
    have hs2 : seqStep2 neg c ⟨i, r⟩ = some (c, ⟨i, r⟩, (if neg then [.caret, .opn] else [.opn]), false) := by
      simp [seqStep2, hc1, hc2, hc3]
    unfold seqBody
    simp only [hs2]
    exact hrun ps neg i ⟨(if neg then [.caret, .opn] else [.opn]), 0, -1, false, false⟩ (by simp) (JK_init _ _ hi) _ (Nat.le_refl _)

/-- **every bracket the strict reader accepts** (the text after the opening `[`) -/
theorem bracket_read (cfg : Cfg) (h : FnX cfg) (s : List Char) (neg : Bool) (items : List SCls) (rest : List Char)
    (hb : bracket s = some (.cls neg items, rest)) :
    ∃ (w : List Char) (cis : List ClsItem), s = w ++ rest ∧
      cis.map unflag = items.map (SCls.toClsItem cfg.isBytes) ∧
      ∀ (ps : PS) (i : Nat), sequence cfg ps ⟨i, s⟩ =
        some (PP.guard cfg ps.afterStart (.cls neg cis), (if ps.afterStart then ps.resetDirTrack else ps),
          ⟨i + w.length, rest⟩) := by
  have fin : ∀ (ms : List PM), (ms.map (PM.item cfg.isBytes)).map unflag =
      (ms.map PM.scls).map (SCls.toClsItem cfg.isBytes) := by
    intro ms
    simp only [List.map_map]
    apply List.map_congr_left
    intro m _
    exact pm_item_unflag cfg.isBytes m
  -- split off the negation character
  have inv : ∀ (ng : Bool) (s1 : List Char),
      (match bracketItems (s1.length + 2) s1 [] true with
        | some (items, rest) => some (Pat.cls ng items, rest)
        | none => none) = some (Pat.cls neg items, rest) →
      bracketItems (s1.length + 2) s1 [] true = some (items, rest) ∧ ng = neg := by
    intro ng s1 hb
    cases hbi : bracketItems (s1.length + 2) s1 [] true with
    | none => simp [hbi] at hb
    | some v =>
      obtain ⟨its', rest'⟩ := v
      simp only [hbi, Option.some.injEq, Prod.mk.injEq, Pat.cls.injEq] at hb
      obtain ⟨⟨h1, h2⟩, h3⟩ := hb
      subst h1; subst h2; subst h3
      exact ⟨rfl, rfl⟩
  have hcases : (∃ x s1, (x = '!' ∨ x = '^') ∧ s = x :: s1 ∧ neg = true ∧
        bracketItems (s1.length + 2) s1 [] true = some (items, rest)) ∨
      (neg = false ∧ s.head? ≠ some '!' ∧ s.head? ≠ some '^' ∧
        bracketItems (s.length + 2) s [] true = some (items, rest)) := by
    cases s with
    | nil =>
      have : bracket [] = none := by decide
      rw [this] at hb; cases hb
    | cons c r =>
      by_cases h1 : c = '!'
      · subst h1
        have e : bracket ('!' :: r) = (match bracketItems (r.length + 2) r [] true with
          | some (items, rest) => some (Pat.cls true items, rest)
          | none => none) := rfl
        rw [e] at hb
        obtain ⟨a, b⟩ := inv true r hb
        exact Or.inl ⟨'!', r, Or.inl rfl, rfl, b.symm, a⟩
      · by_cases h2 : c = '^'
        · subst h2
          have e : bracket ('^' :: r) = (match bracketItems (r.length + 2) r [] true with
            | some (items, rest) => some (Pat.cls true items, rest)
            | none => none) := rfl
          rw [e] at hb
          obtain ⟨a, b⟩ := inv true r hb
          exact Or.inl ⟨'^', r, Or.inr rfl, rfl, b.symm, a⟩
        · rw [bracket_nonneg c r h1 h2] at hb
          obtain ⟨a, b⟩ := inv false (c :: r) hb
          exact Or.inr ⟨b.symm, by simpa using h1, by simpa using h2, a⟩
  rcases hcases with ⟨x, s1, hx, rfl, rfl, hbi⟩ | ⟨rfl, hn1, hn2, hbi⟩
  · cases s1 with
    | nil => rw [bi_nil] at hbi; cases hbi
    | cons c r =>
      obtain ⟨ms, w, h1, h2, h3, hrun⟩ := seqBody_read cfg h _ c r items rest hbi
      refine ⟨x :: c :: w, ms.map (PM.item cfg.isBytes), by rw [h2]; rfl, by rw [h1]; exact fin ms, ?_⟩
      intro ps i
      rw [sequence_eq]
      have hxc : (decide (x = '!') || decide (x = '^')) = true := by
        rcases hx with rfl | rfl <;> simp
      simp only [It.next, hxc, if_true]
      rw [hrun ps true (i+1+1) (by omega)]
      unfold bodyRes
      simp only [List.length_cons]
      have : i + 1 + 1 + w.length = i + (w.length + 1 + 1) := by omega
      rw [this]
  · cases s with
    | nil => rw [bi_nil] at hbi; cases hbi
    | cons c r =>
      obtain ⟨ms, w, h1, h2, h3, hrun⟩ := seqBody_read cfg h _ c r items rest hbi
      refine ⟨c :: w, ms.map (PM.item cfg.isBytes), by rw [h2]; rfl, by rw [h1]; exact fin ms, ?_⟩
      intro ps i
      rw [sequence_eq]
      have hxc : (decide (c = '!') || decide (c = '^')) = false := by
        have a1 : c ≠ '!' := by simpa using hn1
        have a2 : c ≠ '^' := by simpa using hn2
        simp [a1, a2]
      simp only [It.next, hxc, Bool.false_eq_true, if_false]
      rw [hrun ps false (i+1) (by omega)]
      unfold bodyRes
      simp only [List.length_cons]
      have : i + 1 + w.length = i + (w.length + 1) := by omega
      rw [this]

/-- non-vacuity: brackets in spellings the printer `PP.print` never writes (`]` first, an escaped
    `]`, a trailing `-`; `^`, a POSIX class, a range from an escaped `-` to an escaped `z`; a
    range starting at a first-position `-`, a literal `[`; an escaped `!` after the negation) -/
theorem bracket_read_nonvacuous :
    bracket "]\\]-]x".toList = some (.cls false [.chr ']', .chr ']', .chr '-'], ['x']) ∧
    bracket "^[:alpha:]\\--\\z-]".toList = some (.cls true [.posix .alpha, .range '-' 'z', .chr '-'], []) ∧
    bracket "--a[]".toList = some (.cls false [.range '-' 'a', .chr '['], []) ∧
    bracket "!\\!a\\-]".toList = some (.cls true [.chr '!', .chr 'a', .chr '-'], []) := by
  decide +kernel

/-- a concrete fnmatch configuration (EXTMATCH + FORCEUNIX) -/
def cfgDemo : Cfg := Cfg.ofFlags false (Flags.ofNat (Gen.FEXTMATCH + Gen.FFORCEUNIX))

theorem cfgDemo_FnX : FnX cfgDemo :=
  ⟨⟨⟨by decide, by decide, by decide, by decide, by decide⟩, by decide, by decide, by decide⟩, by decide⟩

/-- … and what `bracket_read` gives for the first of them, in a concrete configuration -/
example : ∃ (w : List Char) (cis : List ClsItem), "]\\]-]x".toList = w ++ ['x'] ∧
    cis.map unflag = [.chr ']' false, .chr ']' false, .chr '-' false] ∧
    ∀ (ps : PS) (i : Nat), sequence cfgDemo ps ⟨i, "]\\]-]x".toList⟩ =
      some (PP.guard cfgDemo ps.afterStart (.cls false cis), (if ps.afterStart then ps.resetDirTrack else ps),
        ⟨i + w.length, ['x']⟩) :=
  bracket_read cfgDemo cfgDemo_FnX _ _ _ _ bracket_read_nonvacuous.1

end PR
end WcModel

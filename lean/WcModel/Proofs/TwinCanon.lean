import WcModel.Proofs.TwinCount
/-
  C08, second clause — every item the pass produces carries the *canonical* capture decoration
  of its configuration.

  `Item.decor k` re-decorates an item tree the way a run with `capture = k` decorates it:
  groups get the template `.yes`/`.no`, `!(` openings the flag `k`, and (when `k`) the copy kept
  in a closed `!(…)` tail has its marks erased.  Lock-step lemma (`parseItems_decor`): the run on
  `c` commutes with `Item.decor c.capture`; since the initial stacks are fixed points, so is the
  output (`parseItems_decor_fixed`) — the same proof skeleton as `Proofs/TranslateTwin.lean`, with
  source = target configuration and regex leaves untouched.
-/
set_option linter.unusedSimpArgs false
namespace WcModel

mutual
def Item.decor (k : Bool) : Item → Item
  | .re r => .re r
  | .empty => .empty
  | .bar => .bar
  | .group kd _ body => .group kd (if k then .yes else .no) (Item.decorL k body)
  | .invOpen _ body => .invOpen k (Item.decorL k body)
  | .ph star => .ph star
  | .closed tail eop star =>
    .closed (if k then Item.eraseCapL (Item.decorL k tail) else Item.decorL k tail) eop star
def Item.decorL (k : Bool) : List Item → List Item
  | [] => []
  | x :: xs => Item.decor k x :: Item.decorL k xs
end

theorem Item.decorL_eq_map (k : Bool) (l : List Item) : Item.decorL k l = l.map (Item.decor k) := by
  induction l with
  | nil => rfl
  | cons x xs ih => simp [Item.decorL, ih]

@[simp] theorem Item.decorL_nil (k) : Item.decorL k [] = [] := rfl
@[simp] theorem Item.decorL_cons (k) (x : Item) (xs : List Item) :
    Item.decorL k (x :: xs) = x.decor k :: Item.decorL k xs := rfl
@[simp] theorem Item.decorL_append (k) (a b : List Item) :
    Item.decorL k (a ++ b) = Item.decorL k a ++ Item.decorL k b := by
  simp [Item.decorL_eq_map]
@[simp] theorem Item.decorL_reverse (k) (a : List Item) :
    Item.decorL k a.reverse = (Item.decorL k a).reverse := by
  simp [Item.decorL_eq_map]

@[simp] theorem Item.decor_empty (k) : Item.decor k .empty = .empty := rfl
@[simp] theorem Item.decor_bar (k) : Item.decor k .bar = .bar := rfl
@[simp] theorem Item.decor_ph (k) (s : Re) : Item.decor k (.ph s) = .ph s := rfl
@[simp] theorem Item.decor_re (k) (r : Re) : Item.decor k (.re r) = .re r := rfl
@[simp] theorem Item.decor_group (k kd c b) :
    Item.decor k (.group kd c b) = .group kd (if k then .yes else .no) (Item.decorL k b) := by
  simp [Item.decor]
@[simp] theorem Item.decor_invOpen (k c b) :
    Item.decor k (.invOpen c b) = .invOpen k (Item.decorL k b) := by
  simp [Item.decor]
@[simp] theorem Item.decor_closed (k t e s) : Item.decor k (.closed t e s) =
    .closed (if k then Item.eraseCapL (Item.decorL k t) else Item.decorL k t) e s := by
  simp [Item.decor]

mutual
theorem Item.decor_eraseCap (k : Bool) : ∀ x : Item, (Item.eraseCap x).decor k = x.decor k
  | .re _ => rfl
  | .empty => rfl
  | .bar => rfl
  | .ph _ => rfl
  | .group kd c body => by
    simp [Item.eraseCap, Item.decorL_eraseCapL k body]
  | .invOpen c body => by
    simp [Item.eraseCap, Item.decorL_eraseCapL k body]
  | .closed tail eop star => by
    simp [Item.eraseCap, Item.decorL_eraseCapL k tail]
theorem Item.decorL_eraseCapL (k : Bool) : ∀ l : List Item,
    Item.decorL k (Item.eraseCapL l) = Item.decorL k l
  | [] => rfl
  | x :: xs => by
    simp [Item.eraseCapL, Item.decor_eraseCap k x, Item.decorL_eraseCapL k xs]
end

@[simp] theorem Item.isDiv_decor (k win : Bool) (x : Item) : (x.decor k).isDiv win = x.isDiv win := by
  cases x <;> simp [Item.isDiv]

@[simp] theorem Item.isEmpty_decor (k : Bool) (x : Item) : (x.decor k).isEmpty = x.isEmpty := by
  cases x <;> simp [Item.isEmpty]

@[simp] theorem decor_qmarkItem (k : Bool) (c : Cfg) (ps : PS) :
    (qmarkItem c ps).1.decor k = (qmarkItem c ps).1 := rfl

/-! ### `clean_up_inverse` -/

theorem cleanUpGo_decor (c : Cfg) (nested : Bool) : ∀ (rev done : List Item) (n : Nat),
    cleanUpGo c nested (Item.decorL c.capture rev) (Item.decorL c.capture done) n =
      (Item.decorL c.capture (cleanUpGo c nested rev done n).1, (cleanUpGo c nested rev done n).2) := by
  intro rev
  induction rev with
  | nil => intro done n; simp [cleanUpGo]
  | cons x rest ih =>
    intro done n
    cases x with
    | ph star =>
      simp only [Item.decorL_cons, Item.decor_ph, cleanUpGo]
      rw [← ih]
      have hc : Item.decorL c.capture (if c.capture = true then Item.eraseCapL done else done) =
          Item.decorL c.capture done := by
        split
        · exact Item.decorL_eraseCapL _ done
        · rfl
      simp only [Item.decorL_cons, Item.decor_closed, hc]
    | _ => simp [cleanUpGo, ← ih]

theorem cleanUpInverse_decor (c : Cfg) (ps : PS) (cur : List Item) (nested : Bool) :
    cleanUpInverse c ps (Item.decorL c.capture cur) nested =
      (Item.decorL c.capture (cleanUpInverse c ps cur nested).1, (cleanUpInverse c ps cur nested).2) := by
  unfold cleanUpInverse
  split
  · rfl
  · have := cleanUpGo_decor c nested cur [] 0
    simp only [Item.decorL_nil] at this
    simp only [this, Item.decorL_reverse]

/-! ### `_handle_star` -/

def decMap3 (k : Bool) (t : PS × It × List Item) : PS × It × List Item := (t.1, t.2.1, Item.decorL k t.2.2)
def decMap4 (k : Bool) (t : Bool × PS × It × List Item) : Bool × PS × It × List Item :=
  (t.1, t.2.1, t.2.2.1, Item.decorL k t.2.2.2)
def decMapEL (k : Bool) : Except PS (PS × It × List Item) → Except PS (PS × It × List Item)
  | .ok t => .ok (decMap3 k t)
  | .error e => .error e

@[simp] theorem decMap3_mk (k a b c) : decMap3 k (a, b, c) = (a, b, Item.decorL k c) := rfl
@[simp] theorem decMap4_mk (k a b c d) : decMap4 k (a, b, c, d) = (a, b, c, Item.decorL k d) := rfl
@[simp] theorem decMapEL_ok (k t) : decMapEL k (.ok t) = .ok (decMap3 k t) := rfl
@[simp] theorem decMapEL_error (k e) : decMapEL k (.error e) = .error e := rfl

theorem hsBody_decor (c : Cfg) (cur : List Item) (star g : Re) (t : Bool × Bool × It × PS) :
    hsBody c (Item.decorL c.capture cur) star g t = decMap3 c.capture (hsBody c cur star g t) := by
  obtain ⟨isGlob, cap, it, ps⟩ := t
  unfold hsBody
  simp only
  split
  · split <;> simp
  · cases cur with
    | nil => simp
    | cons last before =>
      simp only [Item.decorL_cons, Item.isDiv_decor, Item.isEmpty_decor]
      split
      · simp
      · split <;> simp

theorem handleStar_decor (c : Cfg) (ps : PS) (it : It) (cur : List Item) :
    handleStar c ps it (Item.decorL c.capture cur) = decMap3 c.capture (handleStar c ps it cur) := by
  rw [handleStar_eq, handleStar_eq]
  exact hsBody_decor c cur _ _ _

/-! ### `parse_extend` -/

theorem peFinish_decor (k : Bool) (ps0 : PS) (s : Bool) (ps : PS) (it : It) (cur : List Item) :
    peFinish ps0 s ps it (Item.decorL k cur) = decMap4 k (peFinish ps0 s ps it cur) := rfl

theorem peFail_decor (k : Bool) (ps0 : PS) (index : It) (cur : List Item) (ps : PS) :
    peFail ps0 index (Item.decorL k cur) ps = decMap4 k (peFail ps0 index cur ps) := rfl

theorem peBuild_decor (c : Cfg) (ps0 : PS) (lt : Char) (cur : List Item) (ps1 : PS) (body : List Item) :
    peBuild c ps0 lt (Item.decorL c.capture cur) ps1 (Item.decorL c.capture body) =
      (Item.decorL c.capture (peBuild c ps0 lt cur ps1 body).1, (peBuild c ps0 lt cur ps1 body).2) := by
  unfold peBuild
  simp only
  split
  · simp
  split
  · simp
  split
  · simp
  split
  · simp
  · simp

theorem peClose_decor (c : Cfg) (ps0 : PS) (it : It) (r : List Item × PS) :
    peClose c ps0 it (Item.decorL c.capture r.1, r.2) = decMap4 c.capture (peClose c ps0 it r) := by
  obtain ⟨cur, ps⟩ := r
  unfold peClose
  simp only
  split
  · rw [cleanUpInverse_decor]
    rfl
  · rfl

theorem parseExtend_decor_step (c : Cfg) (n : Nat)
    (hEL : ∀ it ps ext a b, extLoop c n it ps (Item.decorL c.capture ext) a b = decMapEL c.capture (extLoop c n it ps ext a b))
    (lt : Char) (it : It) (ps : PS) (cur : List Item) (rd : Bool) :
    parseExtend c (n+1) lt it ps (Item.decorL c.capture cur) rd =
      decMap4 c.capture (parseExtend c (n+1) lt it ps cur rd) := by
  rw [parseExtend_succ, parseExtend_succ]
  split
  · rfl
  · split
    · rfl
    · rename_i c2 it2 _ _
      have hfix := hEL it2 (peEnter ps lt rd) [] ps.afterStart ps.invNest
      simp only [Item.decorL_nil] at hfix
      cases h : extLoop c n it2 (peEnter ps lt rd) [] ps.afterStart ps.invNest with
      | error e => rfl
      | ok t =>
        obtain ⟨ps1, it1, ext⟩ := t
        rw [h] at hfix
        simp only [decMapEL_ok, decMap3_mk, Except.ok.injEq, Prod.mk.injEq, true_and] at hfix
        simp only
        have hr : ext.reverse = Item.decorL c.capture ext.reverse := by
          rw [Item.decorL_reverse, ← hfix]
        rw [hr, peBuild_decor, peClose_decor, ← hr]

theorem elCont_decor (c : Cfg) (n : Nat)
    (hEL : ∀ it ps ext a b, extLoop c n it ps (Item.decorL c.capture ext) a b = decMapEL c.capture (extLoop c n it ps ext a b))
    (ch : Char) (a b : Bool) (ps : PS) (it : It) (ext : List Item) (upd : Bool) :
    elCont c n ch a b ps it (Item.decorL c.capture ext) upd = decMapEL c.capture (elCont c n ch a b ps it ext upd) := by
  unfold elCont
  simp only
  split
  · rfl
  · exact hEL _ _ _ _ _

theorem elOther_decor (c : Cfg) (n : Nat)
    (hEL : ∀ it ps ext a b, extLoop c n it ps (Item.decorL c.capture ext) a b = decMapEL c.capture (extLoop c n it ps ext a b))
    (ch : Char) (a b : Bool) (ps : PS) (it : It) (ext : List Item) :
    elOther c n ch a b ps it (Item.decorL c.capture ext) = decMapEL c.capture (elOther c n ch a b ps it ext) := by
  have C := elCont_decor c n hEL ch a b
  unfold elOther
  simp only [handleStar_decor]
  split
  · -- star
    rcases handleStar c ps it ext with ⟨ps', it', ext'⟩
    exact C _ _ _ _
  split
  · -- dot
    rw [← C]; simp
  split
  · -- qmark
    rw [← C]; simp
  split
  · -- slash
    rw [← C]
    split
    · rename_i g heq
      have : g.ungcap = g := by
        unfold restrictExtendedSlash at heq
        split at heq
        · cases heq; rfl
        · cases heq
      simp [this]
    · simp
  split
  · -- bar
    rw [← C]
    cases ps.invNest
    · simp
    · simp [cleanUpInverse_decor]
  split
  · -- backslash
    split
    · rename_i v it' ps' heq
      rw [← C]; simp [ungcap_references heq]
    · exact C _ _ _ _
    · exact C _ _ _ _
  split
  · -- bracket
    split
    · rename_i r ps' it' heq
      have := ungcap_sequence heq
      simp only at this
      rw [← C]; simp [this]
    · rw [← C]; simp
  split
  · rw [← C]; simp
  · exact C _ _ _ _

theorem extLoop_decor_step (c : Cfg) (n : Nat)
    (hPE : ∀ lt it ps cur rd, parseExtend c n lt it ps (Item.decorL c.capture cur) rd =
      decMap4 c.capture (parseExtend c n lt it ps cur rd))
    (hEL : ∀ it ps ext a b, extLoop c n it ps (Item.decorL c.capture ext) a b = decMapEL c.capture (extLoop c n it ps ext a b))
    (it : It) (ps : PS) (ext : List Item) (a b : Bool) :
    extLoop c (n+1) it ps (Item.decorL c.capture ext) a b = decMapEL c.capture (extLoop c (n+1) it ps ext a b) := by
  rw [extLoop_succ, extLoop_succ]
  split
  · rfl
  · rename_i ch it' _
    simp only [hPE]
    rcases parseExtend c n ch it' ps ext false with ⟨b0, ps0, it0, ext0⟩
    by_cases hx : (c.extend && decide (ch ∈ extTypes)) = true
    · simp only [hx, if_true, decMap4_mk]
      cases b0
      · simp only
        exact elOther_decor c n hEL ch a b ps0 it' ext
      · simp only
        exact elCont_decor c n hEL ch a b ps0 it0 ext0 true
    · simp only [hx]
      exact elOther_decor c n hEL ch a b ps it' ext

theorem ext_decor (c : Cfg) : ∀ n : Nat,
    (∀ lt it ps cur rd, parseExtend c n lt it ps (Item.decorL c.capture cur) rd =
      decMap4 c.capture (parseExtend c n lt it ps cur rd)) ∧
    (∀ it ps ext a b, extLoop c n it ps (Item.decorL c.capture ext) a b = decMapEL c.capture (extLoop c n it ps ext a b))
  | 0 => by
    refine ⟨fun lt it ps cur rd => ?_, fun it ps ext a b => ?_⟩
    · rw [parseExtend, parseExtend]; rfl
    · rw [extLoop, extLoop]; rfl
  | n+1 =>
    have ih := ext_decor c n
    ⟨parseExtend_decor_step c n ih.2, extLoop_decor_step c n ih.1 ih.2⟩

/-! ### the top-level loop, `root`, `_parse` -/

def decMap2 (k : Bool) (t : PS × List Item) : PS × List Item := (t.1, Item.decorL k t.2)
@[simp] theorem decMap2_mk (k a b) : decMap2 k (a, b) = (a, Item.decorL k b) := rfl

theorem rlOther_decor (c : Cfg) (n : Nat)
    (ih : ∀ it ps cur, rootLoop c n it ps (Item.decorL c.capture cur) = decMap2 c.capture (rootLoop c n it ps cur))
    (ch : Char) (ps : PS) (it : It) (cur : List Item) :
    rlOther c n ch ps it (Item.decorL c.capture cur) = decMap2 c.capture (rlOther c n ch ps it cur) := by
  unfold rlOther
  simp only [handleStar_decor, cleanUpInverse_decor]
  split
  · rw [← ih]; simp
  split
  · rcases handleStar c ps it cur with ⟨ps', it', cur'⟩
    exact ih _ _ _
  split
  · rw [← ih]; simp
  split
  · split
    · rw [← ih]; simp
    · rw [← ih]; simp
  split
  · split
    · rename_i v it' ps' heq
      split
      · rw [← ih]; simp [ungcap_references heq]
      · rw [← ih]; simp [ungcap_references heq]
    · exact ih _ _ _
    · exact ih _ _ _
  split
  · split
    · rename_i r ps' it' heq
      have := ungcap_sequence heq
      simp only at this
      rw [← ih]; simp [this]
    · rw [← ih]; simp
  · rw [← ih]; simp

theorem rootLoop_decor (c : Cfg) : ∀ (n : Nat) (it : It) (ps : PS) (cur : List Item),
    rootLoop c n it ps (Item.decorL c.capture cur) = decMap2 c.capture (rootLoop c n it ps cur)
  | 0, it, ps, cur => by rw [rootLoop, rootLoop]; rfl
  | n+1, it, ps, cur => by
    have ih := rootLoop_decor c n
    rw [rootLoop_succ, rootLoop_succ]
    split
    · rfl
    · rename_i ch it' _
      simp only [(ext_decor c _).1]
      rcases parseExtend c (2 * it'.rest.length + 8) ch it' ps cur true with ⟨b0, ps0, it0, cur0⟩
      by_cases hx : (c.extend && decide (ch ∈ extTypes)) = true
      · simp only [hx, if_true, decMap4_mk]
        cases b0
        · simp only
          exact rlOther_decor c n ih ch ps0 it' cur
        · simp only
          exact ih _ _ _
      · simp only [hx]
        exact rlOther_decor c n ih ch ps it' cur

def DriveInfo.decor (k : Bool) (d : DriveInfo) : DriveInfo := { d with drive := d.drive.map (Item.decorL k) }
/-- the drive scanner with its items re-decorated -/
def decorDrive (k : Bool) (drive : List Char → DriveInfo) : List Char → DriveInfo := fun s => (drive s).decor k

def decMapER (k : Bool) : Except ParseErr (PS × List Item) → Except ParseErr (PS × List Item)
  | .ok t => .ok (decMap2 k t)
  | .error e => .error e
@[simp] theorem decMapER_ok (k t) : decMapER k (.ok t) = .ok (decMap2 k t) := rfl
@[simp] theorem decMapER_error (k e) : decMapER k (.error e) = .error e := rfl

def Parsed.decor (k : Bool) (p : Parsed) : Parsed := { items := Item.decorL k p.items, ci := p.ci }
def decMapP (k : Bool) : Except ParseErr Parsed → Except ParseErr Parsed
  | .ok t => .ok (t.decor k)
  | .error e => .error e
@[simp] theorem decMapP_ok (k t) : decMapP k (.ok t) = .ok (t.decor k) := rfl
@[simp] theorem decMapP_error (k e) : decMapP k (.error e) = .error e := rfl

def decMapPre (k : Bool) (t : Bool × It × List Item) : Bool × It × List Item := (t.1, t.2.1, Item.decorL k t.2.2)

theorem rootPre_decor (c : Cfg) (drive : List Char → DriveInfo) (pattern : List Char) (cur : List Item) :
    rootPre c (decorDrive c.capture drive) pattern (Item.decorL c.capture cur) = decMapPre c.capture (rootPre c drive pattern cur) := by
  unfold rootPre
  simp only [    decorDrive, DriveInfo.decor]
  by_cases hw : c.winDriveDetect = true
  · rw [if_pos hw, if_pos hw]
    cases (drive pattern).drive with
    | none => rfl
    | some items =>
      simp only [Option.map_some]
      by_cases hs : (drive pattern).slash = true
      · simp [hs, decMapPre]
      · simp [hs, decMapPre]
  · rw [if_neg hw, if_neg hw]
    by_cases hh : (c.pathname && decide (pattern.head? = some '/')) = true
    · rw [if_pos hh, if_pos hh]; rfl
    · rw [if_neg hh, if_neg hh]; rfl

theorem rootPost_decor (c : Cfg) (ps : PS) (a : Bool) (it : It) (cur : List Item) :
    rootPost c ps (a, it, Item.decorL c.capture cur) = decMapER c.capture (rootPost c ps (a, it, cur)) := by
  unfold rootPost
  simp only
  by_cases hn : (c.noAbs && a) = true
  · rw [if_pos hn, if_pos hn]; rfl
  · rw [if_neg hn, if_neg hn]
    have e : (if (!a && c.realpath) = true then
          Item.empty :: Item.re (if c.winDriveDetect = true then Frag.noWinRoot else Frag.noRoot) ::
            Item.decorL c.capture cur
        else Item.decorL c.capture cur) =
        Item.decorL c.capture (if (!a && c.realpath) = true then
          Item.empty :: Item.re (if c.winDriveDetect = true then Frag.noWinRoot else Frag.noRoot) :: cur
        else cur) := by
      split
      · split <;> simp
      · rfl
    rw [e, rootLoop_decor]
    rcases rootLoop c (it.rest.length + 1) it _ _ with ⟨ps1, cur1⟩
    simp only [decMap2_mk, cleanUpInverse_decor]
    rcases cleanUpInverse c ps1 cur1 false with ⟨cur2, ps2⟩
    simp only
    cases c.pathname <;> simp

theorem root_decor (c : Cfg) (drive : List Char → DriveInfo) (pattern : List Char) (ps : PS)
    (cur : List Item) :
    root c (decorDrive c.capture drive) pattern ps (Item.decorL c.capture cur) = decMapER c.capture (root c drive pattern ps cur) := by
  rw [root_eq, root_eq, rootPre_decor]
  rcases rootPre c drive pattern cur with ⟨a, it, cur'⟩
  exact rootPost_decor c _ a it cur'

theorem parsePrepend_decor (c : Cfg) (drive : List Char → DriveInfo) (ps : PS) :
    parsePrepend c (decorDrive c.capture drive) ps = decMapER c.capture (parsePrepend c drive ps) := by
  unfold parsePrepend
  have h1 := root_decor c drive ['*', '*', '*'] ps [.empty]
  have h2 := root_decor c drive ['*', '*'] { ps with globstar := true } [.empty]
  simp only [Item.decorL_cons, Item.decor_empty, Item.decorL_nil] at h1 h2
  by_cases hm : (ps.matchbase || ps.extmatchbase) = true
  · rw [if_pos hm, if_pos hm]
    by_cases hf : (c.globstarlong && c.follow) = true
    · rw [if_pos hf, if_pos hf]; exact h1
    · rw [if_neg hf, if_neg hf, h2]
      cases root c drive ['*', '*'] { ps with globstar := true } [.empty] with
      | error e => rfl
      | ok t => rfl
  · rw [if_neg hm, if_neg hm]; rfl

theorem parseBody_decor (c : Cfg) (drive : List Char → DriveInfo) (p : List Char) (ps : PS)
    (prepend : List Item) :
    parseBody c (decorDrive c.capture drive) p ps (Item.decorL c.capture prepend) =
      decMapP c.capture (parseBody c drive p ps prepend) := by
  unfold parseBody
  simp only
  generalize (if p = ['\\'] then [] else p) = p'
  have h1 := root_decor c drive p' ps [.empty]
  simp only [Item.decorL_cons, Item.decor_empty, Item.decorL_nil] at h1
  by_cases hp : p'.isEmpty = true
  · simp [hp, Parsed.decor]
  · simp only [hp, h1, Bool.false_eq_true, if_false]
    cases root c drive p' ps [.empty] with
    | error e => rfl
    | ok t =>
      obtain ⟨ps1, result⟩ := t
      simp only [decMapER_ok, decMap2_mk, decMapP_ok, Parsed.decor]
      split <;> simp

/-- **lock-step**: the pass commutes with re-decoration in its own capture mode -/
theorem parseItems_decor (c : Cfg) (drive : List Char → DriveInfo) (p : List Char) :
    parseItems c (decorDrive c.capture drive) p = decMapP c.capture (parseItems c drive p) := by
  unfold parseItems
  simp only
  rw [parsePrepend_decor]
  cases parsePrepend c drive (anchorStep c p _).2 with
  | error e => rfl
  | ok t =>
    obtain ⟨ps1, pre⟩ := t
    simp only [decMapER_ok, decMap2_mk]
    exact parseBody_decor c drive _ ps1 pre

/-- drive functions whose items are plain regex leaves (true of `_get_win_drive`): nothing to
    decorate -/
def DriveLeaf (drive : List Char → DriveInfo) : Prop :=
  ∀ s items, (drive s).drive = some items → ∀ x ∈ items, ∃ r, x = Item.re r

theorem decorL_of_leaves (k : Bool) : ∀ (l : List Item), (∀ x ∈ l, ∃ r, x = Item.re r) →
    Item.decorL k l = l
  | [], _ => rfl
  | x :: xs, h => by
    obtain ⟨r, rfl⟩ := h x (by simp)
    simp [decorL_of_leaves k xs (fun y hy => h y (by simp [hy]))]

theorem DriveLeaf.decorDrive_eq {drive : List Char → DriveInfo} (h : DriveLeaf drive) (k : Bool) :
    decorDrive k drive = drive := by
  funext s
  unfold decorDrive DriveInfo.decor
  cases hd : (drive s).drive with
  | none =>
    have : (drive s) = { (drive s) with drive := none } := by rw [← hd]
    rw [this]; rfl
  | some items =>
    have e := decorL_of_leaves k items (h s items hd)
    have : (drive s) = { (drive s) with drive := some items } := by rw [← hd]
    rw [this]; simp [e]

theorem DriveLeaf.ok {drive : List Char → DriveInfo} (h : DriveLeaf drive) : ∀ s, DriveOK (drive s) := by
  intro s items hi x hx
  obtain ⟨r, rfl⟩ := h s items hi x hx
  trivial

theorem winDrive_leaf (c : Cfg) : DriveLeaf (winDrive c) := by
  intro s items hi x hx
  rcases winDrive_drive c s with h0 | ⟨r, h0⟩
  · rw [h0] at hi; cases hi
  · rw [h0] at hi; cases hi
    simp only [List.mem_singleton] at hx
    exact ⟨r, hx⟩

/-- **canonical decoration**: the item list a run returns is a fixed point of the
    re-decoration for the run's own capture mode -/
theorem parseItems_decor_fixed (c : Cfg) (drive : List Char → DriveInfo) (hd : DriveLeaf drive)
    (p : List Char) (parsed : Parsed) (h : parseItems c drive p = .ok parsed) :
    Item.decorL c.capture parsed.items = parsed.items := by
  have := parseItems_decor c drive p
  rw [hd.decorDrive_eq, h] at this
  simp only [decMapP_ok, Except.ok.injEq] at this
  have := congrArg Parsed.items this
  exact this.symm

/-! ### what the canonical decoration says about the number of capturing nodes -/

mutual
/-- extended-group nodes of an item tree, not counting the look-ahead copies kept in the
    tails of closed `!(…)` groups -/
def Item.groupCount : Item → Nat
  | .group _ _ body => 1 + Item.groupCountL body
  | .invOpen _ body => 1 + Item.groupCountL body
  | _ => 0
def Item.groupCountL : List Item → Nat
  | [] => 0
  | x :: xs => Item.groupCount x + Item.groupCountL xs
end

mutual
theorem Item.yesCount_eraseCap : ∀ x : Item, (Item.eraseCap x).yesCount = 0
  | .re _ => rfl
  | .empty => rfl
  | .bar => rfl
  | .ph _ => rfl
  | .group kd c body => by
    have := Item.yesCountL_eraseCapL body
    cases c <;> simp [Item.eraseCap, Item.yesCount, Capt.bit, this]
  | .invOpen c body => by
    simp [Item.eraseCap, Item.yesCount, Item.yesCountL_eraseCapL body]
  | .closed tail eop star => by
    simp [Item.eraseCap, Item.yesCount, Item.yesCountL_eraseCapL tail]
theorem Item.yesCountL_eraseCapL : ∀ l : List Item, Item.yesCountL (Item.eraseCapL l) = 0
  | [] => rfl
  | x :: xs => by
    simp [Item.eraseCapL, Item.yesCountL, Item.yesCount_eraseCap x, Item.yesCountL_eraseCapL xs]
end

mutual
theorem Item.yesCount_decor_true : ∀ x : Item, (x.decor true).yesCount = x.groupCount
  | .re _ => rfl
  | .empty => rfl
  | .bar => rfl
  | .ph _ => rfl
  | .group kd c body => by
    simp [Item.yesCount, Item.groupCount, Capt.bit, Item.yesCountL_decorL_true body]
  | .invOpen c body => by
    simp [Item.yesCount, Item.groupCount, Item.yesCountL_decorL_true body]
  | .closed tail eop star => by
    simp [Item.yesCount, Item.groupCount, Item.yesCountL_eraseCapL]
theorem Item.yesCountL_decorL_true : ∀ l : List Item,
    Item.yesCountL (Item.decorL true l) = Item.groupCountL l
  | [] => rfl
  | x :: xs => by
    simp [Item.yesCountL, Item.groupCountL, Item.yesCount_decor_true x, Item.yesCountL_decorL_true xs]
end

mutual
theorem Item.yesCount_decor_false : ∀ x : Item, (x.decor false).yesCount = 0
  | .re _ => rfl
  | .empty => rfl
  | .bar => rfl
  | .ph _ => rfl
  | .group kd c body => by
    simp [Item.yesCount, Capt.bit, Item.yesCountL_decorL_false body]
  | .invOpen c body => by
    simp [Item.yesCount, Item.yesCountL_decorL_false body]
  | .closed tail eop star => by
    simp [Item.yesCount, Item.yesCountL_decorL_false tail]
theorem Item.yesCountL_decorL_false : ∀ l : List Item, Item.yesCountL (Item.decorL false l) = 0
  | [] => rfl
  | x :: xs => by
    simp [Item.yesCountL, Item.yesCount_decor_false x, Item.yesCountL_decorL_false xs]
end

mutual
theorem Item.groupCount_norm : ∀ x : Item, x.norm.groupCount = x.groupCount
  | .re _ => rfl
  | .empty => rfl
  | .bar => rfl
  | .ph _ => rfl
  | .group kd c body => by simp [Item.groupCount, Item.groupCountL_normL body]
  | .invOpen c body => by simp [Item.groupCount, Item.groupCountL_normL body]
  | .closed tail eop star => by simp [Item.groupCount]
theorem Item.groupCountL_normL : ∀ l : List Item, Item.groupCountL (Item.normL l) = Item.groupCountL l
  | [] => rfl
  | x :: xs => by
    simp [Item.groupCountL, Item.groupCount_norm x, Item.groupCountL_normL xs]
end

end WcModel

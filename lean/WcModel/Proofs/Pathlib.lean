import WcModel.Model.Pathlib
/-
  Lemmas for C16: bit-level facts about `translateFlags` for **every** flag word (`Nat`),
  and the seen-set lemmas behind the uniqueness clause.  Core only (no Mathlib).

  Method: every constant pathlib.py uses is a single bit (`v = 2 ^ log2 v`, checked by
  `decide` against the generated value), `x &&& 2^k ≠ 0 ↔ x.testBit k`, and `testBit`
  distributes over `&&&` / `|||`; equalities of flag words are proved by `testBit`
  extensionality.  Nothing is enumerated: the statements hold for all `n : Nat`.
-/
namespace WcModel.Pathlib
open WcModel

/-! ### single bits -/

theorem and_pow_ne_zero (n k : Nat) : (n &&& 2 ^ k ≠ 0) ↔ n.testBit k = true := by
  constructor
  · intro h
    cases hb : n.testBit k with
    | true => rfl
    | false =>
      exfalso; apply h
      apply Nat.eq_of_testBit_eq
      intro i
      simp only [Nat.testBit_and, Nat.testBit_two_pow, Nat.zero_testBit]
      by_cases hki : k = i
      · subst hki; simp [hb]
      · simp [hki]
  · intro h h0
    have := congrArg (fun x => x.testBit k) h0
    simp [Nat.testBit_and, h] at this

theorem hasBit_pow (n k : Nat) : hasBit n (2 ^ k) = n.testBit k := by
  unfold hasBit
  cases hb : n.testBit k with
  | true =>
    have := (and_pow_ne_zero n k).2 hb
    simpa [bne_iff_ne] using this
  | false =>
    have : ¬ (n &&& 2 ^ k ≠ 0) := by
      intro h; have := (and_pow_ne_zero n k).1 h; simp [hb] at this
    have h0 : n &&& 2 ^ k = 0 := Decidable.not_not.mp this
    show ((n &&& 2 ^ k) != 0) = false
    rw [h0]; rfl

/-- bit positions of the constants `pathlib.py` names -/
abbrev pPN : Nat := Nat.log2 Gen.plPATHNAME
abbrev pRP : Nat := Nat.log2 Gen.plREALPATH
abbrev pFW : Nat := Nat.log2 Gen.plFORCEWIN
abbrev pFU : Nat := Nat.log2 Gen.plFORCEUNIX
abbrev pNA : Nat := Nat.log2 Gen.plNOABSOLUTE
abbrev pEM : Nat := Nat.log2 Gen.plEXTMATCHBASE
abbrev pPL : Nat := Nat.log2 Gen.plPATHLIB
abbrev pSD : Nat := Nat.log2 Gen.plSCANDOTDIR

theorem PN_pow : Gen.plPATHNAME = 2 ^ pPN := by decide
theorem RP_pow : Gen.plREALPATH = 2 ^ pRP := by decide
theorem FW_pow : Gen.plFORCEWIN = 2 ^ pFW := by decide
theorem FU_pow : Gen.plFORCEUNIX = 2 ^ pFU := by decide
theorem NA_pow : Gen.plNOABSOLUTE = 2 ^ pNA := by decide
theorem EM_pow : Gen.plEXTMATCHBASE = 2 ^ pEM := by decide
theorem PL_pow : Gen.plPATHLIB = 2 ^ pPL := by decide
theorem SD_pow : Gen.plSCANDOTDIR = 2 ^ pSD := by decide

/-- the positions are pairwise different (a renumbering that merges two flags breaks this) -/
theorem pos_distinct : [pPN, pRP, pFW, pFU, pNA, pEM, pPL, pSD].Nodup := by decide

/-- which of them the pathlib `FLAG_MASK` contains -/
theorem mask_bits :
    Gen.pathlibFlagMask.testBit pRP = true ∧ Gen.pathlibFlagMask.testBit pNA = true ∧
    Gen.pathlibFlagMask.testBit pEM = true ∧
    Gen.pathlibFlagMask.testBit pPN = false ∧ Gen.pathlibFlagMask.testBit pFW = false ∧
    Gen.pathlibFlagMask.testBit pFU = false ∧ Gen.pathlibFlagMask.testBit pPL = false ∧
    Gen.pathlibFlagMask.testBit pSD = false := by decide

/-- `n & REALPATH` as a Boolean -/
def hasRP (n : Nat) : Bool := n.testBit pRP

theorem hasRP_eq (n : Nat) : hasRP n = hasBit n Gen.plREALPATH := by
  rw [RP_pow, hasBit_pow]; rfl

/-- the platform bit a class forces -/
def platBit (cls : PathClass) : Nat := if cls.isWindows then Gen.plFORCEWIN else Gen.plFORCEUNIX

/-- the word `_translate_flags` returns when it returns -/
def okWord (cls : PathClass) (n : Nat) : Nat :=
  ((n &&& Gen.pathlibFlagMask) ||| Gen.plPATHNAME) ||| platBit cls

/-- the error a class raises -/
def clsErr (cls : PathClass) : Err := if cls.isWindows then .winForcedPosix else .posixForcedWin

private theorem tb_base (n i : Nat) :
    ((n &&& Gen.pathlibFlagMask) ||| Gen.plPATHNAME).testBit i =
      ((n.testBit i && Gen.pathlibFlagMask.testBit i) || decide (pPN = i)) := by
  rw [Nat.testBit_or, Nat.testBit_and, PN_pow, Nat.testBit_two_pow]

private theorem base_rp (n : Nat) :
    (((n &&& Gen.pathlibFlagMask) ||| Gen.plPATHNAME) &&& Gen.plREALPATH ≠ 0) ↔ hasRP n = true := by
  rw [RP_pow, and_pow_ne_zero, tb_base]
  have h1 := mask_bits.1
  have : decide (pPN = pRP) = false := by decide
  simp [hasRP, h1, this]

private theorem or_or_self (a b : Nat) : (a ||| b) ||| b = a ||| b := by
  rw [Nat.or_assoc, Nat.or_self]

/-- **closed form of `_translate_flags`, for every flag word, class and host.** -/
theorem translateFlags_closed (hw : Bool) (cls : PathClass) (n : Nat) :
    translateFlags hw cls n =
      if hasRP n && (hw != cls.isWindows) then .error (clsErr cls) else .ok (okWord cls n) := by
  unfold translateFlags okWord platBit clsErr
  have hrp := base_rp n
  have hmFW := mask_bits.2.2.2.2.1
  have hmFU := mask_bits.2.2.2.2.2.1
  -- the base word has neither platform bit
  have hbFW : ((n &&& Gen.pathlibFlagMask) ||| Gen.plPATHNAME).testBit pFW = false := by
    rw [tb_base]; have : decide (pPN = pFW) = false := by decide
    simp [hmFW, this]
  have hbFU : ((n &&& Gen.pathlibFlagMask) ||| Gen.plPATHNAME).testBit pFU = false := by
    rw [tb_base]; have : decide (pPN = pFU) = false := by decide
    simp [hmFU, this]
  have hFWFU : decide (pFW = pFU) = false := by decide
  have hFUFW : decide (pFU = pFW) = false := by decide
  generalize hB : (n &&& Gen.pathlibFlagMask) ||| Gen.plPATHNAME = B at *
  dsimp only
  cases hr : hasRP n
  · -- no REALPATH: nothing is added before the class test
    have h0 : ¬ (B &&& Gen.plREALPATH ≠ 0) := by
      intro h; have := hrp.1 h; simp [hr] at this
    rw [if_neg h0]
    simp only [Bool.false_and, Bool.false_eq_true, if_false]
    cases hc : cls.isWindows
    · have : ¬ (B &&& Gen.plFORCEWIN ≠ 0) := by
        rw [FW_pow, and_pow_ne_zero, hbFW]; simp
      simp only [Bool.false_eq_true, if_false]
      rw [if_neg this]
    · have : ¬ (B &&& Gen.plFORCEUNIX ≠ 0) := by
        rw [FU_pow, and_pow_ne_zero, hbFU]; simp
      simp only [if_true]
      rw [if_neg this]
  · have h1 : (B &&& Gen.plREALPATH ≠ 0) := hrp.2 hr
    rw [if_pos h1]
    cases hc : cls.isWindows <;> cases hh : hw <;>
      simp only [Bool.true_and, Bool.false_eq_true, if_false, if_true, bne_self_eq_false,
        Bool.bne_true, Bool.bne_false, Bool.not_false]
    · -- posix class, posix host: FORCEUNIX added, FORCEWIN absent
      have : ¬ ((B ||| Gen.plFORCEUNIX) &&& Gen.plFORCEWIN ≠ 0) := by
        rw [FW_pow, and_pow_ne_zero, Nat.testBit_or, hbFW, FU_pow, Nat.testBit_two_pow, hFUFW]; simp
      rw [if_neg this, or_or_self]
    · -- posix class, windows host: FORCEWIN added → error
      have : ((B ||| Gen.plFORCEWIN) &&& Gen.plFORCEWIN ≠ 0) := by
        rw [FW_pow, and_pow_ne_zero, Nat.testBit_or, Nat.testBit_two_pow_self]; simp
      rw [if_pos this]
    · -- windows class, posix host: FORCEUNIX added → error
      have : ((B ||| Gen.plFORCEUNIX) &&& Gen.plFORCEUNIX ≠ 0) := by
        rw [FU_pow, and_pow_ne_zero, Nat.testBit_or, Nat.testBit_two_pow_self]; simp
      rw [if_pos this]
    · have : ¬ ((B ||| Gen.plFORCEWIN) &&& Gen.plFORCEUNIX ≠ 0) := by
        rw [FU_pow, and_pow_ne_zero, Nat.testBit_or, hbFU, FW_pow, Nat.testBit_two_pow, hFWFU]; simp
      rw [if_neg this, or_or_self]

/-- every bit of the returned word -/
theorem okWord_testBit (cls : PathClass) (n i : Nat) :
    (okWord cls n).testBit i =
      ((n.testBit i && Gen.pathlibFlagMask.testBit i) || decide (pPN = i) ||
        decide ((if cls.isWindows then pFW else pFU) = i)) := by
  unfold okWord platBit
  rw [Nat.testBit_or, tb_base]
  cases cls.isWindows
  · simp only [Bool.false_eq_true, if_false]; rw [FU_pow, Nat.testBit_two_pow]
  · simp only [if_true]; rw [FW_pow, Nat.testBit_two_pow]

/-- the result depends on the user's word only through `n &&& FLAG_MASK` -/
theorem okWord_congr (cls : PathClass) {n n' : Nat}
    (h : n &&& Gen.pathlibFlagMask = n' &&& Gen.pathlibFlagMask) : okWord cls n = okWord cls n' := by
  unfold okWord; rw [h]

theorem hasRP_congr {n n' : Nat} (h : n &&& Gen.pathlibFlagMask = n' &&& Gen.pathlibFlagMask) :
    hasRP n = hasRP n' := by
  have := congrArg (fun x => x.testBit pRP) h
  simp only [Nat.testBit_and, mask_bits.1, Bool.and_true] at this
  exact this

theorem translateFlags_congr (hw : Bool) (cls : PathClass) {n n' : Nat}
    (h : n &&& Gen.pathlibFlagMask = n' &&& Gen.pathlibFlagMask) :
    translateFlags hw cls n = translateFlags hw cls n' := by
  rw [translateFlags_closed, translateFlags_closed, okWord_congr cls h, hasRP_congr h]

theorem or_outside_mask (n x : Nat) (hx : x &&& Gen.pathlibFlagMask = 0) :
    (n ||| x) &&& Gen.pathlibFlagMask = n &&& Gen.pathlibFlagMask := by
  rw [Nat.and_or_distrib_right, hx, Nat.or_zero]

/-! ### `Path.glob` / `rglob` / `match` words -/

/-- the word `Path.glob` hands to `iglob` when nothing is raised -/
def globWord (cls : PathClass) (n : Nat) : Nat :=
  okWord cls (n ||| Gen.plNOABSOLUTE) |||
    (if n &&& Gen.plSCANDOTDIR ≠ 0 then Gen.plPATHLIB ||| Gen.plSCANDOTDIR else Gen.plPATHLIB)

theorem hasRP_or_NA (n : Nat) : hasRP (n ||| Gen.plNOABSOLUTE) = hasRP n := by
  unfold hasRP
  rw [Nat.testBit_or, NA_pow, Nat.testBit_two_pow]
  have : decide (pNA = pRP) = false := by decide
  simp [this]

theorem hasRP_or_EM (n : Nat) : hasRP (n ||| Gen.plEXTMATCHBASE) = hasRP n := by
  unfold hasRP
  rw [Nat.testBit_or, EM_pow, Nat.testBit_two_pow]
  have : decide (pEM = pRP) = false := by decide
  simp [this]

theorem globFlags_closed (hw : Bool) (cls : PathClass) (n : Nat) :
    globFlags hw cls n =
      if hasRP n && (hw != cls.isWindows) then .error (clsErr cls) else .ok (globWord cls n) := by
  unfold globFlags globWord
  rw [translateFlags_closed, hasRP_or_NA]
  cases hasRP n && (hw != cls.isWindows) <;> simp

theorem sd_bit (n : Nat) : (n &&& Gen.plSCANDOTDIR ≠ 0) ↔ n.testBit pSD = true := by
  rw [SD_pow, and_pow_ne_zero]

/-- every bit of the word `Path.glob` passes on -/
theorem globWord_testBit (cls : PathClass) (n i : Nat) :
    (globWord cls n).testBit i =
      ((n.testBit i && Gen.pathlibFlagMask.testBit i) || decide (pPN = i) || decide (pNA = i) ||
        decide ((if cls.isWindows then pFW else pFU) = i) || decide (pPL = i) ||
        (n.testBit pSD && decide (pSD = i))) := by
  unfold globWord
  rw [Nat.testBit_or, okWord_testBit, Nat.testBit_or, NA_pow, Nat.testBit_two_pow]
  by_cases hs : n &&& Gen.plSCANDOTDIR ≠ 0
  · have hb := (sd_bit n).1 hs
    rw [if_pos hs, hb, Nat.testBit_or, PL_pow, SD_pow, Nat.testBit_two_pow, Nat.testBit_two_pow]
    by_cases h1 : pNA = i
    · subst h1; simp [mask_bits.2.1]
    · simp [h1, Bool.or_assoc]
  · have hb : n.testBit pSD = false := by
      cases h : n.testBit pSD with
      | false => rfl
      | true => exact absurd ((sd_bit n).2 h) hs
    rw [if_neg hs, hb, PL_pow, Nat.testBit_two_pow]
    by_cases h1 : pNA = i
    · subst h1; simp [mask_bits.2.1]
    · simp [h1]

theorem rglob_sd (n : Nat) : (n ||| Gen.plEXTMATCHBASE).testBit pSD = n.testBit pSD := by
  rw [Nat.testBit_or, EM_pow, Nat.testBit_two_pow]
  have : decide (pEM = pSD) = false := by decide
  simp [this]

/-- `rglob`'s word is `glob`'s word with `_EXTMATCHBASE` or-ed in -/
theorem rglobWord_eq (cls : PathClass) (n : Nat) :
    globWord cls (n ||| Gen.plEXTMATCHBASE) = globWord cls n ||| Gen.plEXTMATCHBASE := by
  apply Nat.eq_of_testBit_eq
  intro i
  rw [Nat.testBit_or, globWord_testBit, globWord_testBit, rglob_sd, Nat.testBit_or, EM_pow,
    Nat.testBit_two_pow]
  by_cases h : pEM = i
  · subst h; simp [mask_bits.2.2.1]
  · simp [h]

theorem rglobFlags_closed (hw : Bool) (cls : PathClass) (n : Nat) :
    rglobFlags hw cls n =
      if hasRP n && (hw != cls.isWindows) then .error (clsErr cls)
      else .ok (globWord cls n ||| Gen.plEXTMATCHBASE) := by
  unfold rglobFlags
  rw [globFlags_closed, hasRP_or_EM, rglobWord_eq]

theorem matchWord_eq (cls : PathClass) (n : Nat) :
    okWord cls (n ||| Gen.plEXTMATCHBASE) = okWord cls n ||| Gen.plEXTMATCHBASE := by
  apply Nat.eq_of_testBit_eq
  intro i
  rw [Nat.testBit_or, okWord_testBit, okWord_testBit, Nat.testBit_or, EM_pow, Nat.testBit_two_pow]
  by_cases h : pEM = i
  · subst h; simp [mask_bits.2.2.1]
  · simp [h]

theorem matchFlags_closed (hw : Bool) (cls : PathClass) (n : Nat) :
    matchFlags hw cls n =
      if hasRP n && (hw != cls.isWindows) then .error (clsErr cls)
      else .ok (okWord cls n ||| Gen.plEXTMATCHBASE) := by
  unfold matchFlags
  rw [translateFlags_closed, hasRP_or_EM, matchWord_eq]

/-! ### the seen-set -/

section Seen
variable {α κ : Type} [DecidableEq κ]

theorem seenFilter_sublist (key : α → κ) (seen : List κ) (l : List α) :
    (seenFilter key seen l).Sublist l := by
  induction l generalizing seen with
  | nil => exact List.Sublist.slnil
  | cons x xs ih =>
    unfold seenFilter
    split
    · exact (ih seen).cons x
    · exact (ih (key x :: seen)).cons_cons x

theorem seenFilter_keys_not_seen (key : α → κ) (seen : List κ) (l : List α) :
    ∀ y ∈ seenFilter key seen l, key y ∉ seen := by
  induction l generalizing seen with
  | nil => intro y hy; simp [seenFilter] at hy
  | cons x xs ih =>
    intro y hy
    unfold seenFilter at hy
    split at hy
    · exact ih seen y hy
    · rename_i hx
      rcases List.mem_cons.1 hy with h | h
      · subst h; exact hx
      · have := ih (key x :: seen) y h
        intro hc; exact this (List.mem_cons_of_mem _ hc)

/-- the keys of what gets through are pairwise different -/
theorem seenFilter_nodup_keys (key : α → κ) (seen : List κ) (l : List α) :
    ((seenFilter key seen l).map key).Nodup := by
  induction l generalizing seen with
  | nil => simp [seenFilter]
  | cons x xs ih =>
    unfold seenFilter
    split
    · exact ih seen
    · rw [List.map_cons, List.nodup_cons]
      refine ⟨?_, ih (key x :: seen)⟩
      intro hmem
      obtain ⟨y, hy, hk⟩ := List.mem_map.1 hmem
      have := seenFilter_keys_not_seen key (key x :: seen) xs y hy
      apply this; rw [hk]; exact List.mem_cons_self

/-- nothing is lost up to the key: every candidate's key is either already seen or is the key
    of something that gets through -/
theorem seenFilter_covers (key : α → κ) (seen : List κ) (l : List α) :
    ∀ x ∈ l, key x ∈ seen ∨ ∃ y ∈ seenFilter key seen l, key y = key x := by
  induction l generalizing seen with
  | nil => intro x hx; cases hx
  | cons a as ih =>
    intro x hx
    unfold seenFilter
    rcases List.mem_cons.1 hx with h | h
    · subst h
      split
      · rename_i hs; exact Or.inl hs
      · exact Or.inr ⟨x, List.mem_cons_self, rfl⟩
    · split
      · exact ih seen x h
      · rcases ih (key a :: seen) x h with h' | ⟨y, hy, hk⟩
        · rcases List.mem_cons.1 h' with h'' | h''
          · exact Or.inr ⟨a, List.mem_cons_self, h''.symm⟩
          · exact Or.inl h''
        · exact Or.inr ⟨y, List.mem_cons_of_mem _ hy, hk⟩

/-- filtering by a coarser key after filtering by a finer key is filtering by the coarser key:
    `k₁ a = k₁ b → k₂ a = k₂ b` (that is `pathlib_norm_key`) is all that is needed. -/
theorem seenFilter_coarse_of_fine {κ₁ κ₂ : Type} [DecidableEq κ₁] [DecidableEq κ₂]
    (k₁ : α → κ₁) (k₂ : α → κ₂) (hk : ∀ a b, k₁ a = k₁ b → k₂ a = k₂ b)
    (s₁ : List κ₁) (s₂ : List κ₂) (l : List α)
    (inv : ∀ x, k₁ x ∈ s₁ → k₂ x ∈ s₂) :
    seenFilter k₂ s₂ (seenFilter k₁ s₁ l) = seenFilter k₂ s₂ l := by
  induction l generalizing s₁ s₂ with
  | nil => simp [seenFilter]
  | cons x xs ih =>
    by_cases h1 : k₁ x ∈ s₁
    · have h2 : k₂ x ∈ s₂ := inv x h1
      rw [show seenFilter k₁ s₁ (x :: xs) = seenFilter k₁ s₁ xs by simp [seenFilter, h1]]
      rw [show seenFilter k₂ s₂ (x :: xs) = seenFilter k₂ s₂ xs by simp [seenFilter, h2]]
      exact ih s₁ s₂ inv
    · rw [show seenFilter k₁ s₁ (x :: xs) = x :: seenFilter k₁ (k₁ x :: s₁) xs by simp [seenFilter, h1]]
      by_cases h2 : k₂ x ∈ s₂
      · rw [show seenFilter k₂ s₂ (x :: seenFilter k₁ (k₁ x :: s₁) xs) =
              seenFilter k₂ s₂ (seenFilter k₁ (k₁ x :: s₁) xs) by simp [seenFilter, h2]]
        rw [show seenFilter k₂ s₂ (x :: xs) = seenFilter k₂ s₂ xs by simp [seenFilter, h2]]
        apply ih
        intro y hy
        rcases List.mem_cons.1 hy with h | h
        · rw [hk y x h]; exact h2
        · exact inv y h
      · rw [show seenFilter k₂ s₂ (x :: seenFilter k₁ (k₁ x :: s₁) xs) =
              x :: seenFilter k₂ (k₂ x :: s₂) (seenFilter k₁ (k₁ x :: s₁) xs) by simp [seenFilter, h2]]
        rw [show seenFilter k₂ s₂ (x :: xs) = x :: seenFilter k₂ (k₂ x :: s₂) xs by simp [seenFilter, h2]]
        congr 1
        apply ih
        intro y hy
        rcases List.mem_cons.1 hy with h | h
        · rw [hk y x h]; exact List.mem_cons_self
        · exact List.mem_cons_of_mem _ (inv y h)

end Seen

/-! ### `_pathlib_norm` commutes with (ASCII) `lower`: none of `.`, `/`, `\`, newline is a letter -/

private theorem lower_tbl (x : Char) (hx : x = '.' ∨ x = '/' ∨ x = '\\' ∨ x = '\n') :
    ∀ k, k < 26 → (Char.ofNat (97 + k) == x) = false ∧ (Char.ofNat (65 + k) == x) = false := by
  rcases hx with h | h | h | h <;> subst h <;> decide

private theorem upper_k (c : Char) (h : ('A' ≤ c && c ≤ 'Z') = true) : ∃ k, k < 26 ∧ c.toNat = 65 + k := by
  simp only [Bool.and_eq_true, decide_eq_true_eq] at h
  have h1 : 65 ≤ c.toNat := UInt32.le_iff_toNat_le.1 (Char.le_def.1 h.1)
  have h2 : c.toNat ≤ 90 := UInt32.le_iff_toNat_le.1 (Char.le_def.1 h.2)
  exact ⟨c.toNat - 65, by omega, by omega⟩

theorem lowerChar_beq (c x : Char) (hx : x = '.' ∨ x = '/' ∨ x = '\\' ∨ x = '\n') :
    (lowerChar c == x) = (c == x) := by
  unfold lowerChar
  by_cases h : ('A' ≤ c && c ≤ 'Z') = true
  · rw [if_pos h]
    obtain ⟨k, hk, hc⟩ := upper_k c h
    have t := lower_tbl x hx k hk
    have e1 : c.toNat + 32 = 97 + k := by omega
    have e2 : c = Char.ofNat (65 + k) := by rw [← hc, Char.ofNat_toNat]
    rw [e1, t.1, e2, t.2]
  · rw [if_neg h]

theorem isSep_lower (win : Bool) (c : Char) : isSep win (lowerChar c) = isSep win c := by
  unfold isSep
  rw [lowerChar_beq c '/' (by simp), lowerChar_beq c '\\' (by simp)]

theorem dotNormGo_lower (win : Bool) : ∀ (s : List Char) (b : Bool),
    dotNormGo win b (lowerAscii s) = lowerAscii (dotNormGo win b s)
  | [], b => by simp [lowerAscii, dotNormGo]
  | [c], b => by
    simp only [lowerAscii, List.map, dotNormGo, lowerChar_beq c '.' (by simp)]
    split <;> simp
  | c :: d :: rest, b => by
    have ih1 := dotNormGo_lower win rest true
    have ih2 := dotNormGo_lower win (d :: rest) false
    have ih3 := dotNormGo_lower win (d :: rest) (isSep win c)
    simp only [lowerAscii, List.map] at ih1 ih2 ih3 ⊢
    simp only [dotNormGo, lowerChar_beq c '.' (by simp), lowerChar_beq d '\n' (by simp), isSep_lower,
      List.isEmpty_map]
    split
    · split
      · exact ih1
      · split
        · simp
        · simp only [List.map]; rw [ih2]
    · simp only [List.map]; rw [ih3]

/-- `_pathlib_norm(path.lower()) = _pathlib_norm(path).lower()` (ASCII) -/
theorem pathlibNorm_lower (rw sw : Bool) (s : List Char) :
    pathlibNorm rw sw (lowerAscii s) = lowerAscii (pathlibNorm rw sw s) := by
  unfold pathlibNorm dotNorm
  rw [dotNormGo_lower]
  generalize dotNormGo rw true s = p
  simp only [lowerAscii, List.getLast?_map, List.length_map]
  cases h : p.getLast? with
  | none => simp
  | some c =>
    simp only [Option.map_some, isSep_lower]
    split
    · exact List.map_dropLast.symm
    · rfl

end WcModel.Pathlib

import WcModel.Spec.RawChars
/- Lemmas linking the scanner model (`Model/Norm`) to the token contract (`Spec/RawChars`). -/
namespace WcModel.RawChars
open WcModel.Norm

theorem asciiHex_lt {c : Char} {v : Nat} (h : asciiHex? c = some v) : v < 16 := by
  unfold asciiHex? at h
  have h0 : ('0' : Char).toNat = 48 := rfl
  have ha : ('a' : Char).toNat = 97 := rfl
  have hA : ('A' : Char).toNat = 65 := rfl
  split at h
  · rename_i hc
    have h2 : c.toNat ≤ 57 := hc.2
    cases h; omega
  · split at h
    · rename_i hc
      have h2 : c.toNat ≤ 102 := hc.2
      cases h; omega
    · split at h
      · rename_i hc
        have h2 : c.toNat ≤ 70 := hc.2
        cases h; omega
      · cases h

theorem octVal_lt {c : Char} {v : Nat} (h : octVal? c = some v) : v < 8 := by
  unfold octVal? at h
  have h0 : ('0' : Char).toNat = 48 := rfl
  split at h
  · rename_i hc
    have h2 : c.toNat ≤ 55 := hc.2
    cases h; omega
  · cases h

theorem hexVal_of_ascii (cfg : Cfg) {c : Char} (h : isAsciiHex c = true) :
    hexVal? cfg c = some ((asciiHex? c).getD 0) := by
  unfold isAsciiHex at h
  unfold hexVal?
  cases hc : asciiHex? c with
  | none => simp [hc] at h
  | some v => simp

theorem takeHex_ascii (cfg : Cfg) (ds rest : List Char) (acc : Nat)
    (h : ∀ c ∈ ds, isAsciiHex c = true) :
    takeHex cfg ds.length acc (ds ++ rest) =
      some (ds.foldl (fun a c => a * 16 + (asciiHex? c).getD 0) acc, ds, rest) := by
  induction ds generalizing acc with
  | nil => simp [takeHex]
  | cons d ds ih =>
    have hd := hexVal_of_ascii cfg (h d (by simp))
    have := ih (acc * 16 + (asciiHex? d).getD 0) (fun c hc => h c (by simp [hc]))
    simp [takeHex, hd, this]

theorem foldl_hex_bound (ds : List Char) (acc : Nat) :
    ds.foldl (fun a c => a * 16 + (asciiHex? c).getD 0) acc < (acc + 1) * 16 ^ ds.length := by
  induction ds generalizing acc with
  | nil => simp
  | cons d ds ih =>
    have hv : (asciiHex? d).getD 0 < 16 := by
      cases hd : asciiHex? d with
      | none => simp
      | some v => simpa using asciiHex_lt hd
    have := ih (acc * 16 + (asciiHex? d).getD 0)
    simp only [List.foldl_cons, List.length_cons]
    calc _ < (acc * 16 + (asciiHex? d).getD 0 + 1) * 16 ^ ds.length := this
      _ ≤ ((acc + 1) * 16) * 16 ^ ds.length := Nat.mul_le_mul_right _ (by omega)
      _ = (acc + 1) * 16 ^ (ds.length + 1) := by rw [Nat.pow_succ, Nat.mul_assoc, Nat.mul_comm 16]

theorem foldl_oct_bound (ds : List Char) (acc : Nat) :
    ds.foldl (fun a c => a * 8 + (octVal? c).getD 0) acc < (acc + 1) * 8 ^ ds.length := by
  induction ds generalizing acc with
  | nil => simp
  | cons d ds ih =>
    have hv : (octVal? d).getD 0 < 8 := by
      cases hd : octVal? d with
      | none => simp
      | some v => simpa using octVal_lt hd
    have := ih (acc * 8 + (octVal? d).getD 0)
    simp only [List.foldl_cons, List.length_cons]
    calc _ < (acc * 8 + (octVal? d).getD 0 + 1) * 8 ^ ds.length := this
      _ ≤ ((acc + 1) * 8) * 8 ^ ds.length := Nat.mul_le_mul_right _ (by omega)
      _ = (acc + 1) * 8 ^ (ds.length + 1) := by rw [Nat.pow_succ, Nat.mul_assoc, Nat.mul_comm 8]

theorem hexValue_lt (ds : List Char) : hexValue ds < 16 ^ ds.length := by
  have := foldl_hex_bound ds 0
  simpa [hexValue] using this

theorem octValue_lt (ds : List Char) : octValue ds < 8 ^ ds.length := by
  have := foldl_oct_bound ds 0
  simpa [octValue] using this

theorem chrOf_small {v : Nat} (h : v < 0xD800) : chrOf v = .ok (Char.ofNat v) := by
  unfold chrOf
  have : v.isValidChar := Or.inl h
  simp [this]

/-- greedy octal run: the digits of the token, provided the run cannot be extended -/
theorem takeOct_spec (n : Nat) (ds rest : List Char) (acc : Nat)
    (h : ∀ c ∈ ds, isOct c = true) (hn : ds.length ≤ n)
    (hadj : ds.length < n → noOctAhead rest) :
    takeOct n acc (ds ++ rest) =
      (ds.foldl (fun a c => a * 8 + (octVal? c).getD 0) acc, ds, rest) := by
  induction ds generalizing acc n with
  | nil =>
    cases n with
    | zero => simp [takeOct]
    | succ n =>
      cases rest with
      | nil => simp [takeOct]
      | cons c r =>
        have : isOct c = false := hadj (by simp)
        unfold isOct at this
        cases hc : octVal? c with
        | none => simp [takeOct, hc]
        | some v => simp [hc] at this
  | cons d ds ih =>
    cases n with
    | zero => simp at hn
    | succ n =>
      have hd : isOct d = true := h d (by simp)
      unfold isOct at hd
      cases hv : octVal? d with
      | none => simp [hv] at hd
      | some v =>
        have := ih n (acc * 8 + v) (fun c hc => h c (by simp [hc])) (by simpa using hn)
          (fun hlt => hadj (by simpa using hlt))
        simp [takeOct, hv, this]

theorem splitBrace_append (n rest : List Char) (h : '}' ∉ n) :
    splitBrace (n ++ '}' :: rest) = some (n, rest) := by
  induction n with
  | nil => simp [splitBrace]
  | cons c n ih =>
    have hc : c ≠ '}' := fun e => h (by simp [e])
    have := ih (fun hm => h (by simp [hm]))
    simp [splitBrace, hc, this]


/-- One token: the alternation at the head of `print t ++ rest` consumes exactly `print t`, and
    the callback yields `denote t`. -/
theorem scan1_print (cfg : Cfg) (t : Tok) (rest : List Char)
    (hwf : t.WF cfg.isBytes) (hadj : adjOK cfg t rest) :
    ∃ m, scan1 cfg (t.print ++ rest) = some (m, rest) ∧ callback cfg m = t.denote cfg := by
  cases t with
  | plain c =>
    by_cases hs : c = '/'
    · subst hs; exact ⟨.sep, by simp [Tok.print, scan1], by simp [callback, Tok.denote]⟩
    · by_cases hb : c = '\\'
      · subst hb
        have : rest = [] := hadj rfl
        subst this
        exact ⟨.copy '\\', by simp [Tok.print, scan1], by simp [callback, Tok.denote]⟩
      · refine ⟨.copy c, ?_, by simp [callback, Tok.denote]⟩
        simp only [Tok.print, List.cons_append, List.nil_append]
        unfold scan1
        split <;> simp_all
  | bsbs =>
    refine ⟨.simple '\\', by simp [Tok.print, scan1, simpleSet], ?_⟩
    cases hr : cfg.raw <;> simp [callback, Tok.denote, hr, simpleTrans]
  | simple e =>
    have he : e ∈ ctrlSet := hwf
    have hs : e ∈ simpleSet := by
      simp [ctrlSet] at he; rcases he with rfl | rfl | rfl | rfl | rfl | rfl | rfl <;> simp [simpleSet]
    have hne : e ≠ '/' := by
      simp [ctrlSet] at he; rcases he with rfl | rfl | rfl | rfl | rfl | rfl | rfl <;> decide
    refine ⟨.simple e, by simp [Tok.print, scan1, hs, hne], ?_⟩
    cases hr : cfg.raw
    · simp [callback, Tok.denote, hr, Tok.print]
    · simp [ctrlSet] at he
      rcases he with rfl | rfl | rfl | rfl | rfl | rfl | rfl <;>
        simp [callback, Tok.denote, hr, simpleTrans, ctrl]
  | hex2 ds =>
    obtain ⟨hl, hh⟩ := hwf
    have ht := takeHex_ascii cfg ds rest 0 hh
    rw [hl] at ht
    refine ⟨.code 'x' ds (hexValue ds), ?_, ?_⟩
    · simp [Tok.print, scan1, simpleSet, ht, hexValue]
    · cases hr : cfg.raw
      · simp [callback, Tok.denote, hr, Tok.print]
      · have hb : hexValue ds < 0xD800 := by
          have := hexValue_lt ds; rw [hl] at this; omega
        simp [callback, Tok.denote, hr, chrOf_small hb, Except.map]
  | oct ds =>
    obtain ⟨h1, h3, ho⟩ := hwf
    cases ds with
    | nil => simp at h1
    | cons d ds =>
      have hd : isOct d = true := ho d (by simp)
      unfold isOct at hd
      cases hv : octVal? d with
      | none => simp [hv] at hd
      | some v =>
        have hd1 : d ≠ '/' := by rintro rfl; simp [octVal?] at hv
        have hd2 : d ∉ simpleSet := by
          intro hm; simp [simpleSet] at hm
          rcases hm with rfl | rfl | rfl | rfl | rfl | rfl | rfl | rfl <;> simp [octVal?] at hv
        have hd3 : d ≠ 'U' ∧ d ≠ 'u' ∧ d ≠ 'x' := by
          refine ⟨?_, ?_, ?_⟩ <;> (rintro rfl; simp [octVal?] at hv)
        have hto := takeOct_spec 2 ds rest v (fun c hc => ho c (by simp [hc]))
          (by simpa using h3) (fun hlt => hadj (by simp; omega))
        have hval : octValue (d :: ds) = ds.foldl (fun a c => a * 8 + (octVal? c).getD 0) v := by
          simp [octValue, hv]
        refine ⟨.oct (d :: ds) (octValue (d :: ds)), ?_, ?_⟩
        · simp [Tok.print, scan1, hd1, hd2, hd3, hv, hto, hval]
        · cases hr : cfg.raw
          · simp [callback, Tok.denote, hr, Tok.print]
          · cases hbt : cfg.isBytes
            · have hb : octValue (d :: ds) < 0xD800 := by
                have := octValue_lt (d :: ds)
                have : octValue (d :: ds) < 8 ^ 3 :=
                  Nat.lt_of_lt_of_le this (Nat.pow_le_pow_right (by omega) h3)
                omega
              simp [callback, Tok.denote, hr, hbt, chrOf_small hb, Except.map]
            · simp [callback, Tok.denote, hr, hbt]
  | u4 ds =>
    obtain ⟨hb, hl, hh⟩ := hwf
    have ht := takeHex_ascii cfg ds rest 0 hh
    rw [hl] at ht
    refine ⟨.code 'u' ds (hexValue ds), ?_, ?_⟩
    · simp [Tok.print, scan1, simpleSet, ht, hexValue, hb]
    · cases hr : cfg.raw <;> simp [callback, Tok.denote, hr, Tok.print]
  | U8 ds =>
    obtain ⟨hb, hl, hh⟩ := hwf
    have ht := takeHex_ascii cfg ds rest 0 hh
    rw [hl] at ht
    refine ⟨.code 'U' ds (hexValue ds), ?_, ?_⟩
    · simp [Tok.print, scan1, simpleSet, ht, hexValue, hb]
    · cases hr : cfg.raw <;> simp [callback, Tok.denote, hr, Tok.print]
  | named n =>
    obtain ⟨hb, hn⟩ := hwf
    have hraw : cfg.raw = true := by simpa [adjOK] using hadj
    have hsb := splitBrace_append n rest hn
    refine ⟨.named n, ?_, ?_⟩
    · simp [Tok.print, scan1, simpleSet, hb, octVal?, hsb, hraw]
    · cases hl : cfg.lookup n <;> simp [callback, Tok.denote, hraw, hl]
  | other c =>
    obtain ⟨h1, h2, h3, h4⟩ := hwf
    unfold isOct at h2
    have hv : octVal? c = none := by
      cases hc : octVal? c with
      | none => rfl
      | some v => simp [hc] at h2
    by_cases hs : c = '/'
    · subst hs
      refine ⟨.escSep, by simp [Tok.print, scan1], ?_⟩
      cases hn : cfg.normalize <;> simp [callback, Tok.denote, hn]
    · refine ⟨.other c, ?_, ?_⟩
      · rcases h4 with hb | ⟨hN, hU, hu⟩
        · simp [Tok.print, scan1, hs, h1, hb, h3, hv]
        · cases hb : cfg.isBytes <;> simp [Tok.print, scan1, hs, h1, hb, h3, hv, hN, hU, hu]
      · simp [callback, Tok.denote, hs]
  | incomplete k =>
    refine ⟨.incomplete k, ?_, ?_⟩
    · rcases hwf with rfl | ⟨hb, rfl | rfl | rfl⟩
      · have : takeHex cfg 2 0 rest = none := by simpa [adjOK] using hadj
        cases hb : cfg.isBytes <;> simp [Tok.print, scan1, simpleSet, this, hb]
      · cases hraw : cfg.raw with
        | false =>
          -- without RAWCHARS the `\N{…}` alternative does not exist: `\N` is read on its own whatever follows
          simp [Tok.print, scan1, simpleSet, hb, octVal?, hraw]
        | true =>
          have hnb : noBraceAhead rest := by
            have := hadj; simp only [adjOK] at this; simpa [hraw] using this
          cases rest with
          | nil => simp [Tok.print, scan1, simpleSet, hb, octVal?]
          | cons c r =>
            by_cases hc : c = '{'
            · subst hc
              have : splitBrace r = none := hnb
              simp [Tok.print, scan1, simpleSet, hb, octVal?, this]
            · simp only [Tok.print, List.cons_append, List.nil_append]
              unfold scan1
              simp [simpleSet, hb, octVal?]
              split <;> simp_all
      · have : takeHex cfg 8 0 rest = none := by simpa [adjOK] using hadj
        simp [Tok.print, scan1, simpleSet, this, hb]
      · have : takeHex cfg 4 0 rest = none := by simpa [adjOK] using hadj
        simp [Tok.print, scan1, simpleSet, this, hb]
    · cases hr : cfg.raw <;> simp [callback, Tok.denote, hr, Tok.print]

theorem print_ne_nil (t : Tok) : t.print ≠ [] := by cases t <;> simp [Tok.print]

theorem go_tokens (cfg : Cfg) (ts : List Tok) (fuel : Nat)
    (hwf : ∀ t ∈ ts, t.WF cfg.isBytes) (hadj : Adjacent cfg ts)
    (hf : (ts.flatMap Tok.print).length ≤ fuel) :
    go cfg fuel (ts.flatMap Tok.print) = denoteAll cfg ts := by
  induction ts generalizing fuel with
  | nil => cases fuel <;> simp [go, scan1, denoteAll]
  | cons t ts ih =>
    obtain ⟨ha, hrest⟩ := hadj
    obtain ⟨m, hs, hc⟩ := scan1_print cfg t _ (hwf t (by simp)) ha
    have hlen : 1 ≤ t.print.length := by
      cases hp : t.print with
      | nil => exact absurd hp (print_ne_nil t)
      | cons _ _ => simp
    cases fuel with
    | zero => rw [List.flatMap_cons, List.length_append] at hf; omega
    | succ f =>
      have hf' : (ts.flatMap Tok.print).length ≤ f := by
        rw [List.flatMap_cons, List.length_append] at hf; omega
      have := ih f (fun t ht => hwf t (by simp [ht])) hrest hf'
      simp only [List.flatMap_cons, go, hs, hc, this, denoteAll]
      cases Tok.denote cfg t with
      | error e => rfl
      | ok a => cases denoteAll cfg ts <;> rfl

end WcModel.RawChars

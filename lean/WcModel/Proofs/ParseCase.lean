import WcModel.Proofs.ParseLift
import WcModel.Proofs.ParseWF
import WcModel.Proofs.CaseClosed
import WcModel.Proofs.Literal
/-
  PATTERN CASE through the whole pass: lowering the ASCII case of the pattern COMMUTES with the
  faithful pass, on every pattern that contains no `[`:

      parseItems cfg drive (p.map asciiLower) = (parseItems cfg drive p).map Parsed.low

  where `Parsed.low` lowers every literal (`.lit c ↦ .lit (asciiLower c)`) of every regex in the
  item list, and `Parsed.toRe` commutes with it as well.  Outside bracket expressions the pass
  inspects characters only through comparisons with non-letters (`* ? . / \ ( ) | ! + @ …`), so
  both runs take the same branches; the proof follows the pass function by function (equations,
  not relations), using the one-step equations of `ParseWF.lean` for the three loops.

  Inside bracket expressions the statement is false (POSIX names, range order), which is why the
  text invariant `NB` ("no `[` left to read") is threaded through the loops.
-/
namespace WcModel

/-- the case map on characters -/
abbrev L : Char → Char := asciiLower

/-! ### characters -/

theorem L_eq_iff {k : Char} (hk : nonLetter k) (c : Char) : L c = k ↔ c = k :=
  asciiLower_eq_nonLetter hk c

theorem L_eq {k : Char} (hk : nonLetter k) (c : Char) : (L c = k) = (c = k) :=
  propext (L_eq_iff hk c)

theorem L_beq {k : Char} (hk : nonLetter k) (c : Char) : (L c == k) = (c == k) := by
  rw [Bool.eq_iff_iff]; simp [L_eq_iff hk]

theorem L_bne {k : Char} (hk : nonLetter k) (c : Char) : (L c != k) = (c != k) := by
  simp only [bne, L_beq hk]

theorem L_fix {k : Char} (hk : nonLetter k) : L k = k := (L_eq_iff hk k).mpr rfl

macro "nl" : tactic => `(tactic| (unfold nonLetter; decide))

@[simp] theorem L_star (c) : (L c = '*') = (c = '*') := L_eq (by nl) c
@[simp] theorem L_qm (c) : (L c = '?') = (c = '?') := L_eq (by nl) c
@[simp] theorem L_dot (c) : (L c = '.') = (c = '.') := L_eq (by nl) c
@[simp] theorem L_slash (c) : (L c = '/') = (c = '/') := L_eq (by nl) c
@[simp] theorem L_bslash (c) : (L c = '\\') = (c = '\\') := L_eq (by nl) c
@[simp] theorem L_lbr (c) : (L c = '[') = (c = '[') := L_eq (by nl) c
@[simp] theorem L_lpar (c) : (L c = '(') = (c = '(') := L_eq (by nl) c
@[simp] theorem L_rpar (c) : (L c = ')') = (c = ')') := L_eq (by nl) c
@[simp] theorem L_bar (c) : (L c = '|') = (c = '|') := L_eq (by nl) c
@[simp] theorem L_bang (c) : (L c = '!') = (c = '!') := L_eq (by nl) c
@[simp] theorem L_plus (c) : (L c = '+') = (c = '+') := L_eq (by nl) c
@[simp] theorem L_at (c) : (L c = '@') = (c = '@') := L_eq (by nl) c
@[simp] theorem L_nl (c) : (L c = '\n') = (c = '\n') := L_eq (by nl) c
@[simp] theorem L_colon (c) : (L c = ':') = (c = ':') := L_eq (by nl) c
@[simp] theorem L_star_bne (c) : (L c != '*') = (c != '*') := L_bne (by nl) c
@[simp] theorem L_lpar_bne (c) : (L c != '(') = (c != '(') := L_bne (by nl) c
@[simp] theorem L_rpar_bne (c) : (L c != ')') = (c != ')') := L_bne (by nl) c

@[simp] theorem L_extTypes (c : Char) : (L c ∈ extTypes) = (c ∈ extTypes) := by
  rw [extTypes_eq]; simp

@[simp] theorem L_reEscapeSet (c : Char) : (L c ∈ reEscapeSet) = (c ∈ reEscapeSet) := by
  unfold reEscapeSet
  simp only [List.mem_cons, List.not_mem_nil, or_false]
  rw [L_eq (k := '\t') (by nl), L_eq (k := '\n') (by nl), L_eq (k := '\x0b') (by nl),
    L_eq (k := '\x0c') (by nl), L_eq (k := '\r') (by nl), L_eq (k := ' ') (by nl),
    L_eq (k := '#') (by nl), L_eq (k := '$') (by nl), L_eq (k := '&') (by nl), L_eq (k := '(') (by nl),
    L_eq (k := ')') (by nl), L_eq (k := '*') (by nl), L_eq (k := '+') (by nl), L_eq (k := '-') (by nl),
    L_eq (k := '.') (by nl), L_eq (k := '?') (by nl), L_eq (k := '[') (by nl), L_eq (k := '\\') (by nl),
    L_eq (k := ']') (by nl), L_eq (k := '^') (by nl), L_eq (k := '{') (by nl), L_eq (k := '|') (by nl),
    L_eq (k := '}') (by nl), L_eq (k := '~') (by nl)]

/-! ### the case map on regexes, items, iterators -/

def Re.low : Re → Re
  | .lit c => .lit (L c)
  | .cat a b => .cat a.low b.low
  | .alt a b => .alt a.low b.low
  | .grp r => .grp r.low
  | .cap r => .cap r.low
  | .gcap r => .gcap r.low
  | .opt r => .opt r.low
  | .star l r => .star l r.low
  | .plus r => .plus r.low
  | .rep lo hi r => .rep lo hi r.low
  | .look n r => .look n r.low
  | .flags s i r => .flags s i r.low
  | r => r

/-- no literal below -/
def Re.noLit : Re → Bool
  | .lit _ => false
  | .cat a b => a.noLit && b.noLit
  | .alt a b => a.noLit && b.noLit
  | .grp r => r.noLit
  | .cap r => r.noLit
  | .gcap r => r.noLit
  | .opt r => r.noLit
  | .star _ r => r.noLit
  | .plus r => r.noLit
  | .rep _ _ r => r.noLit
  | .look _ r => r.noLit
  | .flags _ _ r => r.noLit
  | _ => true

/-- all literals below are non-letters -/
def Re.nlLit : Re → Prop
  | .lit c => nonLetter c
  | .cat a b => a.nlLit ∧ b.nlLit
  | .alt a b => a.nlLit ∧ b.nlLit
  | .grp r => r.nlLit
  | .cap r => r.nlLit
  | .gcap r => r.nlLit
  | .opt r => r.nlLit
  | .star _ r => r.nlLit
  | .plus r => r.nlLit
  | .rep _ _ r => r.nlLit
  | .look _ r => r.nlLit
  | .flags _ _ r => r.nlLit
  | _ => True

theorem Re.low_of_nlLit : ∀ r : Re, r.nlLit → r.low = r := by
  intro r
  induction r <;> simp_all [Re.nlLit, Re.low]
  next c => intro h; exact L_fix h

/-- a regex whose lowering has no literal has none itself, and is its own lowering -/
theorem Re.low_eq_noLit : ∀ (r g : Re), g.noLit = true → (r.low = g ↔ r = g) := by
  intro r
  induction r with
  | lit c => intro g hg; cases g <;> simp_all [Re.low, Re.noLit]
  | cat a b iha ihb =>
    intro g hg; cases g <;> simp_all [Re.low, Re.noLit]
  | alt a b iha ihb =>
    intro g hg; cases g <;> simp_all [Re.low, Re.noLit]
  | grp r ih => intro g hg; cases g <;> simp_all [Re.low, Re.noLit]
  | cap r ih => intro g hg; cases g <;> simp_all [Re.low, Re.noLit]
  | gcap r ih => intro g hg; cases g <;> simp_all [Re.low, Re.noLit]
  | opt r ih => intro g hg; cases g <;> simp_all [Re.low, Re.noLit]
  | star l r ih => intro g hg; cases g <;> simp_all [Re.low, Re.noLit]
  | plus r ih => intro g hg; cases g <;> simp_all [Re.low, Re.noLit]
  | rep lo hi r ih => intro g hg; cases g <;> simp_all [Re.low, Re.noLit]
  | look n r ih => intro g hg; cases g <;> simp_all [Re.low, Re.noLit]
  | flags s i r ih => intro g hg; cases g <;> simp_all [Re.low, Re.noLit]
  | eps => intro g _; simp [Re.low]
  | any => intro g _; simp [Re.low]
  | cls n i => intro g _; simp [Re.low]
  | bos => intro g _; simp [Re.low]
  | eos => intro g _; simp [Re.low]

@[simp] theorem Re.low_eq_eps (r : Re) : (r.low = .eps) = (r = .eps) :=
  propext (Re.low_eq_noLit r .eps rfl)

mutual
def Item.low : Item → Item
  | .re r => .re r.low
  | .empty => .empty
  | .bar => .bar
  | .group k c body => .group k c (Item.lowL body)
  | .invOpen c body => .invOpen c (Item.lowL body)
  | .ph star => .ph star.low
  | .closed tail eop star => .closed (Item.lowL tail) (eop.map Re.low) star.low
def Item.lowL : List Item → List Item
  | [] => []
  | x :: xs => Item.low x :: Item.lowL xs
end

theorem Item.lowL_eq_map (l : List Item) : Item.lowL l = l.map Item.low := by
  induction l with
  | nil => rfl
  | cons x xs ih => simp [Item.lowL, ih]

@[simp] theorem Item.lowL_nil : Item.lowL [] = [] := rfl
@[simp] theorem Item.lowL_cons (x : Item) (xs : List Item) :
    Item.lowL (x :: xs) = x.low :: Item.lowL xs := rfl
@[simp] theorem Item.lowL_append (a b : List Item) :
    Item.lowL (a ++ b) = Item.lowL a ++ Item.lowL b := by
  simp [Item.lowL_eq_map]
@[simp] theorem Item.lowL_reverse (a : List Item) : Item.lowL a.reverse = (Item.lowL a).reverse := by
  simp [Item.lowL_eq_map]

@[simp] theorem Item.low_re (r : Re) : (Item.re r).low = .re r.low := by simp [Item.low]
@[simp] theorem Item.low_empty : Item.empty.low = .empty := by simp [Item.low]
@[simp] theorem Item.low_bar : Item.bar.low = .bar := by simp [Item.low]
@[simp] theorem Item.low_group (k c b) : (Item.group k c b).low = .group k c (Item.lowL b) := by
  simp [Item.low]
@[simp] theorem Item.low_invOpen (c b) : (Item.invOpen c b).low = .invOpen c (Item.lowL b) := by
  simp [Item.low]
@[simp] theorem Item.low_ph (s : Re) : (Item.ph s).low = .ph s.low := by simp [Item.low]
@[simp] theorem Item.low_closed (t e s) :
    (Item.closed t e s).low = .closed (Item.lowL t) (e.map Re.low) s.low := by simp [Item.low]

def It.low (it : It) : It := ⟨it.idx, it.rest.map L⟩

@[simp] theorem It.low_idx (it : It) : it.low.idx = it.idx := rfl
@[simp] theorem It.low_rest (it : It) : it.low.rest = it.rest.map L := rfl
@[simp] theorem It.low_mk (i : Nat) (r : List Char) : (It.mk i r).low = ⟨i, r.map L⟩ := rfl

theorem It.next_low (it : It) : it.low.next = it.next.map (fun x => (L x.1, x.2.low)) := by
  rcases it with ⟨i, r⟩
  cases r <;> rfl

@[simp] theorem It.advance_low (it : It) (n : Nat) : it.low.advance n = (it.advance n).low := by
  simp [It.advance, It.low, List.map_drop]

/-! ### the fragments are their own lowering -/

namespace Frag
@[simp] theorem sep_low (w : Bool) : (sep w).low = sep w := by cases w <;> rfl
@[simp] theorem pathEop_low (w : Bool) : (pathEop w).low = pathEop w := by cases w <;> rfl
@[simp] theorem noDir_low (w : Bool) : (noDir w).low = noDir w := by cases w <;> decide
@[simp] theorem seqPath_low (w : Bool) : (seqPath w).low = seqPath w := by cases w <;> rfl
@[simp] theorem seqPathDot_low (w : Bool) : (seqPathDot w).low = seqPathDot w := by cases w <;> rfl
@[simp] theorem pathStar_low (w : Bool) : (pathStar w).low = pathStar w := by cases w <;> rfl
@[simp] theorem pathStarDot1_low (w : Bool) : (pathStarDot1 w).low = pathStarDot1 w := by
  cases w <;> decide
@[simp] theorem pathStarDot2_low (w : Bool) : (pathStarDot2 w).low = pathStarDot2 w := by
  cases w <;> decide
@[simp] theorem pathGstarDot1_low (w : Bool) : (pathGstarDot1 w).low = pathGstarDot1 w := by
  cases w <;> decide
@[simp] theorem pathGstarDot2_low (w : Bool) : (pathGstarDot2 w).low = pathGstarDot2 w := by
  cases w <;> decide
@[simp] theorem noDot_low : noDot.low = noDot := rfl
@[simp] theorem star_low : star.low = star := rfl
@[simp] theorem qmark_low : qmark.low = qmark := rfl
@[simp] theorem needCharPath_low (w : Bool) : (needCharPath w).low = needCharPath w := by cases w <;> rfl
@[simp] theorem needChar_low : needChar.low = needChar := rfl
@[simp] theorem needSep_low (w : Bool) : (needSep w).low = needSep w := by cases w <;> rfl
@[simp] theorem globstarDiv_low (w : Bool) : (globstarDiv w).low = globstarDiv w := by cases w <;> rfl
@[simp] theorem pathTrail_low (w : Bool) : (pathTrail w).low = pathTrail w := by cases w <;> rfl
@[simp] theorem sepPlus_low (w : Bool) : (sepPlus w).low = sepPlus w := by cases w <;> rfl
@[simp] theorem noRoot_low : noRoot.low = noRoot := by decide
@[simp] theorem noWinRoot_low : noWinRoot.low = noWinRoot := by decide
@[simp] theorem guardedDot_low (w : Bool) : (guardedDot w).low = guardedDot w := by cases w <;> decide
theorem globstarDiv_noLit (w : Bool) : (globstarDiv w).noLit = true := by cases w <;> rfl
end Frag

@[simp] theorem lit_dot_low : (Re.lit '.').low = .lit '.' := by decide
@[simp] theorem lit_bslash_low : (Re.lit '\\').low = .lit '\\' := by decide
@[simp] theorem lit_lbr_low : (Re.lit '[').low = .lit '[' := by decide

@[simp] theorem Cfg.eop_low (cfg : Cfg) : cfg.eop.low = cfg.eop := by
  unfold Cfg.eop; split <;> simp [Re.low]

@[simp] theorem Cfg.needChar_low (cfg : Cfg) : cfg.needChar.low = cfg.needChar := by
  unfold Cfg.needChar; split <;> simp

@[simp] theorem catE_low (a b : Re) : (catE a b).low = catE a.low b.low := by
  unfold catE
  simp only [Re.low_eq_eps]
  split <;> simp [Re.low]

/-! ### iterator helpers -/

theorem dropWhileCount_low {k : Char} (hk : nonLetter k) : ∀ (l : List Char) (n : Nat),
    dropWhileCount k (l.map L) n = ((dropWhileCount k l n).1, (dropWhileCount k l n).2.map L)
  | [], n => rfl
  | d :: r, n => by
    simp only [List.map_cons, dropWhileCount, L_eq hk]
    split
    · exact dropWhileCount_low hk r (n+1)
    · rfl

theorem consumeUnix_low (it : It) : consumeUnix it.low = (consumeUnix it).low := by
  unfold consumeUnix
  simp [dropWhileCount_low (k := '/') (by nl), It.low]

theorem consumeWin_low : ∀ (fuel : Nat) (it prev : It) (count : Int),
    consumeWin fuel it.low prev.low count = (consumeWin fuel it prev count).low := by
  intro fuel
  induction fuel with
  | zero => intro it prev count; rfl
  | succ n ih =>
    intro it prev count
    unfold consumeWin
    rw [It.next_low]
    cases it.next with
    | none => rfl
    | some x =>
      obtain ⟨c, it'⟩ := x
      simp only [Option.map_some, L_bslash, L_slash]
      split
      · exact ih _ _ _
      · split
        · exact ih _ _ _
        · split <;> rfl

theorem consumePathSep_low (cfg : Cfg) (it : It) :
    consumePathSep cfg it.low = (consumePathSep cfg it).low := by
  unfold consumePathSep
  split
  · simp only [It.low_rest, List.length_map]
    exact consumeWin_low _ _ _ _
  · exact consumeUnix_low it

theorem head?_map_L_lpar (r : List Char) : ((r.map L).head? = some '(') = (r.head? = some '(') := by
  cases r <;> simp

theorem dropStars_low (ext : Bool) (it : It) : dropStars ext it.low = (dropStars ext it).low := by
  unfold dropStars
  simp only [It.low_rest, It.low_idx, dropWhileCount_low (k := '*') (by nl), head?_map_L_lpar]
  split <;> simp [It.low, L_fix (k := '*') (by nl)]

def CTok.low : CTok → CTok
  | .chr c e => .chr (L c) e
  | t => t

def RefSeq.low : RefSeq → RefSeq
  | .val t it => .val t.low it.low
  | .stop => .stop
  | .pathname => .pathname
  | .dot it => .dot it.low

theorem referencesSeq_low (cfg : Cfg) (it : It) :
    referencesSeq cfg it.low = (referencesSeq cfg it).low := by
  unfold referencesSeq
  rw [It.next_low]
  cases h : it.next with
  | none => rfl
  | some x =>
    obtain ⟨c, it'⟩ := x
    simp only [Option.map_some, L_bslash, L_slash, L_dot, L_reEscapeSet]
    repeat' split
    all_goals simp [RefSeq.low, CTok.low, L_fix (k := '\\') (by nl), L_fix (k := '/') (by nl)]
    all_goals
      rcases it with ⟨i, r⟩
      cases r <;> simp_all [It.next, It.low]

def RefOut.low : RefOut → RefOut
  | .val r it ps => .val r.low it.low ps
  | .stop => .stop
  | .dot it => .dot it.low

theorem restrictExtendedSlash_low (cfg : Cfg) :
    (restrictExtendedSlash cfg).map Re.low = restrictExtendedSlash cfg := by
  unfold restrictExtendedSlash; split <;> simp

theorem references_low (cfg : Cfg) (ps : PS) (it : It) :
    references cfg ps it.low = (references cfg ps it).low := by
  unfold references
  rw [It.next_low]
  cases h : it.next with
  | none => rfl
  | some x =>
    obtain ⟨c, it'⟩ := x
    simp only [Option.map_some, L_bslash, L_slash, L_dot]
    have hres := restrictExtendedSlash_low cfg
    repeat' split
    all_goals simp_all [RefOut.low, Re.low, L_fix (k := '\\') (by nl)]

/-! ### `_handle_dot` -/

theorem dotScan_low (cfg : Cfg) (inList : Bool) : ∀ (fuel : Nat) (it : It) (cur prev : Bool),
    dotScan cfg inList fuel it.low cur prev = dotScan cfg inList fuel it cur prev := by
  intro fuel
  induction fuel with
  | zero => intro it cur prev; rfl
  | succ n ih =>
    intro it cur prev
    unfold dotScan
    rw [It.next_low]
    cases it.next with
    | none => rfl
    | some x =>
      obtain ⟨c, it'⟩ := x
      simp only [Option.map_some, L_dot, L_bar, L_rpar, L_bslash, L_slash, referencesSeq_low]
      split
      · exact ih _ _ _
      · split
        · rfl
        · split
          · rfl
          · split
            · cases hr : referencesSeq cfg it' with
              | val t i => rfl
              | stop => rfl
              | pathname => rfl
              | dot i0 =>
                simp only [RefSeq.low]
                split
                · rw [It.next_low]
                  cases i0.next with
                  | none => rfl
                  | some y => exact ih _ _ _
                · rfl
            · rfl

theorem handleDot_low (cfg : Cfg) (ps : PS) (it : It) : handleDot cfg ps it.low = handleDot cfg ps it := by
  unfold handleDot
  simp only [It.low_rest, List.length_map, dotScan_low]

@[simp] theorem handleDot_self_low (cfg : Cfg) (ps : PS) (it : It) :
    (handleDot cfg ps it).low = handleDot cfg ps it := by
  unfold handleDot
  dsimp only
  repeat' split
  all_goals simp

/-! ### `clean_up_inverse` -/

mutual
theorem Item.eraseCap_low : ∀ x : Item, x.low.eraseCap = x.eraseCap.low
  | .group _ _ body => by simp [Item.eraseCap, Item.eraseCapL_low body]
  | .invOpen _ body => by simp [Item.eraseCap, Item.eraseCapL_low body]
  | .closed tail _ _ => by simp [Item.eraseCap, Item.eraseCapL_low tail]
  | .re _ => by simp [Item.eraseCap]
  | .empty => by simp [Item.eraseCap]
  | .bar => by simp [Item.eraseCap]
  | .ph _ => by simp [Item.eraseCap]
theorem Item.eraseCapL_low : ∀ l : List Item, Item.eraseCapL (Item.lowL l) = Item.lowL (Item.eraseCapL l)
  | [] => by simp [Item.eraseCapL]
  | x :: xs => by simp [Item.eraseCapL, Item.eraseCap_low x, Item.eraseCapL_low xs]
end

theorem cleanUpGo_low (cfg : Cfg) (nested : Bool) : ∀ (rev done : List Item) (n : Nat),
    cleanUpGo cfg nested (Item.lowL rev) (Item.lowL done) n =
      (Item.lowL (cleanUpGo cfg nested rev done n).1, (cleanUpGo cfg nested rev done n).2) := by
  intro rev
  induction rev with
  | nil => intro done n; rfl
  | cons x rest ih =>
    intro done n
    cases x with
    | ph star =>
      simp only [Item.lowL_cons, Item.low_ph, cleanUpGo]
      rw [← ih]
      congr 1
      simp only [Item.lowL_cons, Item.low_closed]
      congr 1
      congr 1
      · split <;> simp [Item.eraseCapL_low]
      · split <;> simp
    | re r => simp only [Item.lowL_cons, Item.low_re, cleanUpGo]; rw [← ih]; rfl
    | empty => simp only [Item.lowL_cons, Item.low_empty, cleanUpGo]; rw [← ih]; rfl
    | bar => simp only [Item.lowL_cons, Item.low_bar, cleanUpGo]; rw [← ih]; rfl
    | group k c b => simp only [Item.lowL_cons, Item.low_group, cleanUpGo]; rw [← ih]; rfl
    | invOpen c b => simp only [Item.lowL_cons, Item.low_invOpen, cleanUpGo]; rw [← ih]; rfl
    | closed t e s => simp only [Item.lowL_cons, Item.low_closed, cleanUpGo]; rw [← ih]; rfl

theorem cleanUpInverse_low (cfg : Cfg) (ps : PS) (cur : List Item) (nested : Bool) :
    cleanUpInverse cfg ps (Item.lowL cur) nested =
      (Item.lowL (cleanUpInverse cfg ps cur nested).1, (cleanUpInverse cfg ps cur nested).2) := by
  unfold cleanUpInverse
  split
  · rfl
  · have := cleanUpGo_low cfg nested cur [] 0
    simp only [Item.lowL_nil] at this
    simp only [this, Item.lowL_reverse]

/-! ### `_handle_star` -/

@[simp] theorem Item.isDiv_low (w : Bool) (x : Item) : x.low.isDiv w = x.isDiv w := by
  cases x <;> simp [Item.isDiv]
  next r =>
    rw [Bool.eq_iff_iff]
    simp only [beq_iff_eq]
    exact Re.low_eq_noLit r _ (Frag.globstarDiv_noLit w)

@[simp] theorem Item.isEmpty_low (x : Item) : x.low.isEmpty = x.isEmpty := by
  cases x <;> simp [Item.isEmpty]

theorem hsStars_low (cfg : Cfg) (ps : PS) :
    (hsStars cfg ps).1.low = (hsStars cfg ps).1 ∧ (hsStars cfg ps).2.low = (hsStars cfg ps).2 := by
  unfold hsStars
  dsimp only
  repeat' split
  all_goals simp [Re.low]

/-- the case map on the selector's result -/
def selLow (t : Bool × Bool × It × PS) : Bool × Bool × It × PS := (t.1, t.2.1, t.2.2.1.low, t.2.2.2)

theorem hsPeek_low (cfg : Cfg) (c0 : Bool) (it : It) :
    hsPeek cfg c0 it.low =
      ((hsPeek cfg c0 it).1, (hsPeek cfg c0 it).2.1, (hsPeek cfg c0 it).2.2.1.low,
        (hsPeek cfg c0 it).2.2.2.low) := by
  unfold hsPeek
  rw [It.next_low]
  cases it.next with
  | none => rfl
  | some x =>
    obtain ⟨c, it1⟩ := x
    simp only [Option.map_some, L_star_bne]
    split
    · rfl
    · split
      · rw [It.next_low]
        cases it1.next with
        | none => rfl
        | some y =>
          obtain ⟨c2, it2⟩ := y
          simp only [Option.map_some, L_star_bne]
          split <;> rfl
      · rfl

theorem hsSelCls_low (cfg : Cfg) (ps : PS) (it : It) :
    hsSelCls cfg ps it.low = selLow (hsSelCls cfg ps it) := by
  unfold hsSelCls
  dsimp only
  split
  · rw [hsPeek_low]
    rcases hsPeek cfg (cfg.pathname && cfg.globstarCapture) it with ⟨skip, capture, it2, prev⟩
    dsimp only
    split
    · rfl
    · rw [It.next_low]
      cases it2.next with
      | none => rfl
      | some x =>
        obtain ⟨c, it1⟩ := x
        simp only [Option.map_some, L_bslash, L_slash, L_lpar, referencesSeq_low]
        split
        · cases referencesSeq cfg it1 <;> simp [RefSeq.low, selLow]
        · split
          · rfl
          · split <;> rfl
  · rfl

theorem hsFinish_low (cfg : Cfg) (cur : List Item) (sg : Re × Re) (sel : Bool × Bool × It × PS)
    (hs : sg.1.low = sg.1 ∧ sg.2.low = sg.2) :
    hsFinish cfg (Item.lowL cur) sg (selLow sel) =
      ((hsFinish cfg cur sg sel).1, (hsFinish cfg cur sg sel).2.1.low,
        Item.lowL (hsFinish cfg cur sg sel).2.2) := by
  obtain ⟨isGlob, capture, it, ps⟩ := sel
  obtain ⟨star, globstar⟩ := sg
  obtain ⟨h1, h2⟩ := hs
  dsimp only at h1 h2
  unfold hsFinish selLow
  dsimp only
  have hg : (if capture = true then Re.gcap globstar else globstar).low =
      (if capture = true then Re.gcap globstar else globstar) := by
    split <;> simp [Re.low, h2]
  split
  · split <;> simp [Re.low, h1, dropStars_low]
  · cases cur with
    | nil => rfl
    | cons last before =>
      simp only [Item.lowL_cons, Item.isDiv_low, Item.isEmpty_low]
      split
      · simp [consumePathSep_low]
      · split <;> simp [consumePathSep_low, hg]

theorem handleStar_low (cfg : Cfg) (ps : PS) (it : It) (cur : List Item) :
    handleStar cfg ps it.low (Item.lowL cur) =
      ((handleStar cfg ps it cur).1, (handleStar cfg ps it cur).2.1.low,
        Item.lowL (handleStar cfg ps it cur).2.2) := by
  rw [handleStar_eq_cls, handleStar_eq_cls, hsSelCls_low]
  exact hsFinish_low cfg cur _ _ (hsStars_low cfg ps)

/-! ### `?` -/

@[simp] theorem restrictSequence_low (cfg : Cfg) (ps : PS) :
    (restrictSequence cfg ps).1.low = (restrictSequence cfg ps).1 := by
  unfold restrictSequence
  dsimp only
  repeat' split
  all_goals simp [Re.low]

@[simp] theorem qmarkItem_low (cfg : Cfg) (ps : PS) : (qmarkItem cfg ps).1.low = (qmarkItem cfg ps).1 := by
  unfold qmarkItem
  simp

/-! ### the text invariant: no `[` left to read -/

def NB (l : List Char) : Prop := '[' ∉ l

theorem TextInv.nb : TextInv NB :=
  ⟨fun pre _ h hm => h (List.mem_append_right pre hm), by unfold NB; decide⟩

theorem Lift.true : Lift (fun _ => True) := by constructor <;> intros <;> trivial

theorem SeqOK.nb (cfg : Cfg) : SeqOK (fun _ => True) NB cfg :=
  SeqOK.ofSuffix Lift.true TextInv.nb (fun _ _ => trivial) cfg

theorem allL_true (l : List Item) : Item.AllL (fun _ => True) l := by
  rw [Item.allL_iff]
  intro x _
  exact Item.rec (motive_1 := fun x => x.All (fun _ => True))
    (motive_2 := fun l => Item.AllL (fun _ => True) l)
    (fun r => by simp [Item.All]) (by simp [Item.All]) (by simp [Item.All])
    (fun k c body ih => by simpa [Item.All] using ih)
    (fun c body ih => by simpa [Item.All] using ih)
    (fun s => by simp [Item.All])
    (fun tail eop star ih => by simp [Item.All, ih])
    (by simp [Item.AllL])
    (fun x xs ih1 ih2 => by simp [Item.AllL, ih1, ih2]) x

theorem NB.head {it it' : It} {c : Char} (h : JI NB it) (hn : it.next = some (c, it')) : c ≠ '[' := by
  intro hc
  unfold JI NB at h
  rw [(It.next_some hn).1, hc] at h
  exact h (by simp)

theorem parseExtend_nb (cfg : Cfg) (fuel : Nat) (lt : Char) (it : It) (ps : PS) (cur : List Item)
    (rd : Bool) (h : JI NB it) : JI NB (parseExtend cfg fuel lt it ps cur rd).2.2.1 :=
  ((pe_el_lift Lift.true TextInv.nb cfg (SeqOK.nb cfg) fuel).1 lt it ps cur rd _ _ _ _ h
    (allL_true cur) rfl).1

theorem extLoop_nb (cfg : Cfg) (fuel : Nat) (it : It) (ps : PS) (ext : List Item) (ta tn : Bool)
    (ps' : PS) (it' : It) (ext' : List Item) (h : JI NB it)
    (he : extLoop cfg fuel it ps ext ta tn = .ok (ps', it', ext')) : JI NB it' :=
  ((pe_el_lift Lift.true TextInv.nb cfg (SeqOK.nb cfg) fuel).2 it ps ext ta tn ps' it' ext' h
    (allL_true ext) he).1

/-! ### `parse_extend` -/

def peLow (r : Bool × PS × It × List Item) : Bool × PS × It × List Item :=
  (r.1, r.2.1, r.2.2.1.low, Item.lowL r.2.2.2)

def elLow : Except PS (PS × It × List Item) → Except PS (PS × It × List Item)
  | .ok (ps, it, ext) => .ok (ps, it.low, Item.lowL ext)
  | .error ps => .error ps

theorem peEnter_low (ps : PS) (lt : Char) (rd : Bool) : peEnter ps (L lt) rd = peEnter ps lt rd := by
  unfold peEnter
  simp only [L_bang]

theorem peFinish_low (ps0 : PS) (s : Bool) (ps : PS) (it : It) (cur : List Item) :
    peFinish ps0 s ps it.low (Item.lowL cur) = peLow (peFinish ps0 s ps it cur) := rfl

theorem peFail_low (ps0 : PS) (it : It) (cur : List Item) (ps : PS) :
    peFail ps0 it.low (Item.lowL cur) ps = peLow (peFail ps0 it cur ps) := rfl

theorem peBuild_low (cfg : Cfg) (ps0 : PS) (lt : Char) (cur : List Item) (ps : PS) (body : List Item) :
    peBuild cfg ps0 (L lt) (Item.lowL cur) ps (Item.lowL body) =
      (Item.lowL (peBuild cfg ps0 lt cur ps body).1, (peBuild cfg ps0 lt cur ps body).2) := by
  unfold peBuild
  simp only [L_qm, L_star, L_plus, L_at]
  split
  · simp
  · split
    · simp
    · split
      · simp
      · split
        · simp
        · simp only [Item.lowL_cons, Item.low_ph, Item.low_invOpen, Prod.mk.injEq, List.cons.injEq,
            Item.ph.injEq, and_true]
          repeat' split
          all_goals simp [Re.low]

theorem peClose_low (cfg : Cfg) (ps0 : PS) (it : It) (r : List Item × PS) :
    peClose cfg ps0 it.low (Item.lowL r.1, r.2) = peLow (peClose cfg ps0 it r) := by
  obtain ⟨cur, ps⟩ := r
  unfold peClose
  dsimp only
  split
  · rw [cleanUpInverse_low]
    rfl
  · rfl

def ExtC (cfg : Cfg) (fuel : Nat) : Prop :=
  ∀ (lt : Char) (it : It) (ps : PS) (cur : List Item) (rd : Bool), JI NB it →
    parseExtend cfg fuel (L lt) it.low ps (Item.lowL cur) rd = peLow (parseExtend cfg fuel lt it ps cur rd)

def ExtLoopC (cfg : Cfg) (fuel : Nat) : Prop :=
  ∀ (it : It) (ps : PS) (ext : List Item) (ta tn : Bool), JI NB it →
    extLoop cfg fuel it.low ps (Item.lowL ext) ta tn = elLow (extLoop cfg fuel it ps ext ta tn)

theorem pe_step_low (cfg : Cfg) (n : Nat) (ihE : ExtLoopC cfg n) : ExtC cfg (n+1) := by
  intro lt it ps cur rd hi
  rw [parseExtend_succ, parseExtend_succ, It.next_low, peEnter_low]
  cases hn : it.next with
  | none => exact peFail_low _ _ _ _
  | some x =>
    obtain ⟨c, it1⟩ := x
    simp only [Option.map_some, L_lpar_bne]
    split
    · exact peFail_low _ _ _ _
    · have := ihE it1 (peEnter ps lt rd) [] ps.afterStart ps.invNest (JI.next TextInv.nb hi hn)
      simp only [Item.lowL_nil] at this
      rw [this]
      cases extLoop cfg n it1 (peEnter ps lt rd) [] ps.afterStart ps.invNest with
      | error e => exact peFail_low _ _ _ _
      | ok v =>
        obtain ⟨ps1, it2, extended⟩ := v
        simp only [elLow]
        rw [← Item.lowL_reverse, peBuild_low]
        exact peClose_low cfg ps it2 _

theorem elCont_low (cfg : Cfg) (n : Nat) (ihE : ExtLoopC cfg n) (c : Char) (ta tn : Bool) (ps : PS)
    (it : It) (ext : List Item) (upd : Bool) (hi : JI NB it) :
    elCont cfg n (L c) ta tn ps it.low (Item.lowL ext) upd = elLow (elCont cfg n c ta tn ps it ext upd) := by
  unfold elCont
  simp only [L_rpar]
  split
  · rfl
  · exact ihE _ _ _ _ _ hi

theorem elOther_low (cfg : Cfg) (n : Nat) (ihE : ExtLoopC cfg n) (c : Char) (ta tn : Bool) (ps : PS)
    (it : It) (ext : List Item) (hi : JI NB it) (hc : c ≠ '[') :
    elOther cfg n (L c) ta tn ps it.low (Item.lowL ext) = elLow (elOther cfg n c ta tn ps it ext) := by
  unfold elOther
  simp only [L_star, L_dot, L_qm, L_slash, L_bar, L_bslash, L_lbr, L_rpar_bne]
  split
  · -- star
    rw [handleStar_low]
    have h1 := handleStar_ji TextInv.nb cfg ps ext hi
    generalize handleStar cfg ps it ext = r at h1 ⊢
    obtain ⟨p3, i3, e3⟩ := r
    exact elCont_low cfg n ihE c ta tn _ _ _ _ h1
  · split
    · rw [handleDot_low]
      have : Item.re (handleDot cfg ps it) :: Item.lowL ext =
          Item.lowL (Item.re (handleDot cfg ps it) :: ext) := by simp
      rw [this]
      exact elCont_low cfg n ihE c ta tn _ _ _ _ hi
    · split
      · have h2 := qmarkItem_low cfg ps
        generalize qmarkItem cfg ps = r at h2 ⊢
        obtain ⟨q3, p3⟩ := r
        dsimp only at h2 ⊢
        have : q3 :: Item.lowL ext = Item.lowL (q3 :: ext) := by simp [h2]
        rw [this]
        exact elCont_low cfg n ihE c ta tn _ _ _ _ hi
      · split
        · have hres := restrictExtendedSlash_low cfg
          cases hr : restrictExtendedSlash cfg with
          | none =>
            dsimp only
            have : Item.re (Frag.sep cfg.win) :: Item.lowL ext =
                Item.lowL (Item.re (Frag.sep cfg.win) :: ext) := by simp
            rw [this]
            exact elCont_low cfg n ihE c ta tn _ _ _ _ hi
          | some g =>
            rw [hr] at hres
            simp only [Option.map_some, Option.some.injEq] at hres
            dsimp only
            have : Item.re (Frag.sep cfg.win) :: Item.re g :: Item.lowL ext =
                Item.lowL (Item.re (Frag.sep cfg.win) :: Item.re g :: ext) := by simp [hres]
            rw [this]
            exact elCont_low cfg n ihE c ta tn _ _ _ _ hi
        · split
          · have : ((if ps.invNest = true then cleanUpInverse cfg ps (Item.lowL ext) tn
                else (Item.lowL ext, ps)) : List Item × PS) =
                (Item.lowL (if ps.invNest = true then cleanUpInverse cfg ps ext tn else (ext, ps)).1,
                  (if ps.invNest = true then cleanUpInverse cfg ps ext tn else (ext, ps)).2) := by
              split
              · exact cleanUpInverse_low _ _ _ _
              · rfl
            rw [this]
            generalize (if ps.invNest = true then cleanUpInverse cfg ps ext tn else (ext, ps)) = r
            obtain ⟨e3, p3⟩ := r
            dsimp only
            have : Item.bar :: Item.lowL e3 = Item.lowL (Item.bar :: e3) := by simp
            rw [this]
            exact elCont_low cfg n ihE c ta tn _ _ _ _ hi
          · split
            · rw [references_low]
              cases hr : references cfg ps it with
              | val v i3 p3 =>
                simp only [RefOut.low]
                have : Item.re v.low :: Item.lowL ext = Item.lowL (Item.re v :: ext) := by simp
                rw [this]
                exact elCont_low cfg n ihE c ta tn _ _ _ _
                  (references_val_lift Lift.true TextInv.nb hr hi).2
              | dot i3 =>
                simp only [RefOut.low]
                exact elCont_low cfg n ihE c ta tn _ _ _ _ (references_dot_lift hr hi)
              | stop =>
                simp only [RefOut.low]
                exact elCont_low cfg n ihE c ta tn _ _ _ _ hi
            · split
              · have : Item.re (Re.lit (L c)) :: Item.lowL ext = Item.lowL (Item.re (Re.lit c) :: ext) := by
                  simp [Re.low]
                rw [this]
                exact elCont_low cfg n ihE c ta tn _ _ _ _ hi
              · exact elCont_low cfg n ihE c ta tn _ _ _ _ hi

theorem el_step_low (cfg : Cfg) (n : Nat) (ihP : ExtC cfg n) (ihE : ExtLoopC cfg n) :
    ExtLoopC cfg (n+1) := by
  intro it ps ext ta tn hi
  rw [extLoop_succ, extLoop_succ, It.next_low]
  cases hn : it.next with
  | none => rfl
  | some x =>
    obtain ⟨c, it1⟩ := x
    have hi1 := JI.next TextInv.nb hi hn
    have hc := NB.head hi hn
    simp only [Option.map_some, L_extTypes]
    by_cases hx : (cfg.extend && decide (c ∈ extTypes)) = true
    · simp only [hx, ite_true]
      rw [ihP c it1 ps ext false hi1]
      have hnb := parseExtend_nb cfg n c it1 ps ext false hi1
      generalize parseExtend cfg n c it1 ps ext false = r at hnb ⊢
      obtain ⟨b, p2, i2, e2⟩ := r
      cases b
      · exact elOther_low cfg n ihE c ta tn _ _ _ hi1 hc
      · exact elCont_low cfg n ihE c ta tn _ _ _ _ hnb
    · simp only [hx, Bool.false_eq_true, ite_false]
      exact elOther_low cfg n ihE c ta tn _ _ _ hi1 hc

theorem pe_el_low (cfg : Cfg) : ∀ fuel, ExtC cfg fuel ∧ ExtLoopC cfg fuel := by
  intro fuel
  induction fuel with
  | zero =>
    constructor
    · intro lt it ps cur rd _; rfl
    · intro it ps ext ta tn _; rfl
  | succ n ih => exact ⟨pe_step_low cfg n ih.2, el_step_low cfg n ih.1 ih.2⟩

/-! ### the root loop -/

def RootLoopC (cfg : Cfg) (fuel : Nat) : Prop :=
  ∀ (it : It) (ps : PS) (cur : List Item), JI NB it →
    rootLoop cfg fuel it.low ps (Item.lowL cur) =
      ((rootLoop cfg fuel it ps cur).1, Item.lowL (rootLoop cfg fuel it ps cur).2)

theorem rlOther_low (cfg : Cfg) (n : Nat) (ih : RootLoopC cfg n) (c : Char) (ps : PS) (it : It)
    (cur : List Item) (hi : JI NB it) (hc : c ≠ '[') :
    rlOther cfg n (L c) ps it.low (Item.lowL cur) =
      ((rlOther cfg n c ps it cur).1, Item.lowL (rlOther cfg n c ps it cur).2) := by
  unfold rlOther
  simp only [L_star, L_dot, L_qm, L_slash, L_bslash, L_lbr]
  split
  · rw [handleDot_low]
    have : Item.re (handleDot cfg ps it) :: Item.lowL cur =
        Item.lowL (Item.re (handleDot cfg ps it) :: cur) := by simp
    rw [this]
    exact ih _ _ _ hi
  · split
    · rw [handleStar_low]
      have h1 := handleStar_ji TextInv.nb cfg ps cur hi
      generalize handleStar cfg ps it cur = r at h1 ⊢
      obtain ⟨p3, i3, e3⟩ := r
      exact ih _ _ _ h1
    · split
      · have h2 := qmarkItem_low cfg ps
        generalize qmarkItem cfg ps = r at h2 ⊢
        obtain ⟨q3, p3⟩ := r
        dsimp only at h2 ⊢
        have : q3 :: Item.lowL cur = Item.lowL (q3 :: cur) := by simp [h2]
        rw [this]
        exact ih _ _ _ hi
      · split
        · split
          · rw [cleanUpInverse_low, consumePathSep_low]
            generalize cleanUpInverse cfg ps.setStartDir cur false = r
            obtain ⟨c3, p3⟩ := r
            dsimp only
            have : Item.re (Frag.sepPlus cfg.win) :: Item.lowL c3 =
                Item.lowL (Item.re (Frag.sepPlus cfg.win) :: c3) := by simp
            rw [this]
            exact ih _ _ _ (JI.consumePathSep TextInv.nb cfg hi)
          · have : Item.re (Frag.sep cfg.win) :: Item.lowL cur =
                Item.lowL (Item.re (Frag.sep cfg.win) :: cur) := by simp
            rw [this]
            exact ih _ _ _ hi
        · split
          · rw [references_low]
            cases hr : references cfg ps it with
            | val v i3 p3 =>
              simp only [RefOut.low]
              have hi3 := (references_val_lift Lift.true TextInv.nb hr hi).2
              split
              · rw [cleanUpInverse_low, consumePathSep_low]
                generalize cleanUpInverse cfg p3 cur false = r
                obtain ⟨c4, p4⟩ := r
                dsimp only
                have : Item.re v.low :: Item.lowL c4 = Item.lowL (Item.re v :: c4) := by simp
                rw [this]
                exact ih _ _ _ (JI.consumePathSep TextInv.nb cfg hi3)
              · have : Item.re v.low :: Item.lowL cur = Item.lowL (Item.re v :: cur) := by simp
                rw [this]
                exact ih _ _ _ hi3
            | dot i3 =>
              simp only [RefOut.low]
              exact ih _ _ _ (references_dot_lift hr hi)
            | stop =>
              simp only [RefOut.low]
              exact ih _ _ _ hi
          · have : Item.re (Re.lit (L c)) :: Item.lowL cur = Item.lowL (Item.re (Re.lit c) :: cur) := by
              simp [Re.low]
            rw [this]
            exact ih _ _ _ hi

theorem rootLoop_low (cfg : Cfg) : ∀ fuel, RootLoopC cfg fuel := by
  intro fuel
  induction fuel with
  | zero => intro it ps cur _; rfl
  | succ n ih =>
    intro it ps cur hi
    rw [rootLoop_succ, rootLoop_succ, It.next_low]
    cases hn : it.next with
    | none => rfl
    | some x =>
      obtain ⟨c, it1⟩ := x
      have hi1 := JI.next TextInv.nb hi hn
      have hc := NB.head hi hn
      simp only [Option.map_some, L_extTypes, It.low_rest, List.length_map]
      by_cases hx : (cfg.extend && decide (c ∈ extTypes)) = true
      · simp only [hx, ite_true]
        rw [(pe_el_low cfg _).1 c it1 ps cur true hi1]
        have hnb := parseExtend_nb cfg (2 * it1.rest.length + 8) c it1 ps cur true hi1
        generalize parseExtend cfg (2 * it1.rest.length + 8) c it1 ps cur true = r at hnb ⊢
        obtain ⟨b, p2, i2, e2⟩ := r
        cases b
        · exact rlOther_low cfg n ih c _ _ _ hi1 hc
        · exact ih _ _ _ hnb
      · simp only [hx, Bool.false_eq_true, ite_false]
        exact rlOther_low cfg n ih c _ _ _ hi1 hc

/-! ### `root` -/

def DriveInfo.low (d : DriveInfo) : DriveInfo := { d with drive := d.drive.map Item.lowL }

/-- the drive scanner (consulted only under `winDriveDetect`) commutes with the case map -/
def DriveC (cfg : Cfg) (drive : List Char → DriveInfo) : Prop :=
  cfg.winDriveDetect = true → ∀ p, drive (p.map L) = (drive p).low

def rootLow : Except ParseErr (PS × List Item) → Except ParseErr (PS × List Item)
  | .ok (ps, cur) => .ok (ps, Item.lowL cur)
  | .error e => .error e

theorem head?_map_L_slash (r : List Char) : ((r.map L).head? = some '/') = (r.head? = some '/') := by
  cases r <;> simp

theorem rootPre_low (cfg : Cfg) (drive : List Char → DriveInfo) (hd : DriveC cfg drive) (p : List Char)
    (cur : List Item) :
    rootPre cfg drive (p.map L) (Item.lowL cur) =
      ((rootPre cfg drive p cur).1, (rootPre cfg drive p cur).2.1.low,
        Item.lowL (rootPre cfg drive p cur).2.2) := by
  unfold rootPre
  simp only [head?_map_L_slash]
  split
  · rename_i hw
    simp only [hd hw p, DriveInfo.low]
    cases (drive p).drive with
    | none => rfl
    | some items =>
      simp only [Option.map_some]
      rw [← It.low_mk, It.advance_low, consumePathSep_low]
      split <;> simp [*]
  · split <;> rfl

theorem rootPre_nb (cfg : Cfg) (drive : List Char → DriveInfo) (p : List Char) (cur : List Item)
    (hp : NB p) : JI NB (rootPre cfg drive p cur).2.1 := by
  have hi0 : JI NB (⟨0, p⟩ : It) := hp
  unfold rootPre
  dsimp only
  split
  · split
    · exact JI.consumePathSep TextInv.nb cfg (JI.advance TextInv.nb hi0 _)
    · exact hi0
  · split <;> exact hi0

theorem rootPost_low (cfg : Cfg) (ps : PS) (t : Bool × It × List Item) (hi : JI NB t.2.1) :
    rootPost cfg ps (t.1, t.2.1.low, Item.lowL t.2.2) = rootLow (rootPost cfg ps t) := by
  obtain ⟨rs, it, cur⟩ := t
  unfold rootPost
  dsimp only at hi ⊢
  split
  · rfl
  · have hcur : (if (!rs && cfg.realpath) = true then
          Item.empty :: Item.re (if cfg.winDriveDetect = true then Frag.noWinRoot else Frag.noRoot) ::
            Item.lowL cur
        else Item.lowL cur) =
        Item.lowL (if (!rs && cfg.realpath) = true then
          Item.empty :: Item.re (if cfg.winDriveDetect = true then Frag.noWinRoot else Frag.noRoot) :: cur
        else cur) := by
      split
      · split <;> simp
      · rfl
    rw [hcur]
    simp only [It.low_rest, List.length_map]
    rw [rootLoop_low cfg _ it _ _ hi]
    generalize rootLoop cfg (it.rest.length + 1) it _ _ = r
    obtain ⟨p3, c3⟩ := r
    dsimp only
    rw [cleanUpInverse_low]
    generalize cleanUpInverse cfg p3 c3 false = r
    obtain ⟨c4, p4⟩ := r
    dsimp only
    split <;> simp [rootLow]

theorem root_low (cfg : Cfg) (drive : List Char → DriveInfo) (hd : DriveC cfg drive) (p : List Char)
    (ps : PS) (cur : List Item) (hp : NB p) :
    root cfg drive (p.map L) ps (Item.lowL cur) = rootLow (root cfg drive p ps cur) := by
  rw [root_eq, root_eq, rootPre_low cfg drive hd]
  exact rootPost_low cfg _ _ (rootPre_nb cfg drive p cur hp)

/-! ### `_parse` -/

def Parsed.low (p : Parsed) : Parsed := { items := Item.lowL p.items, ci := p.ci }

def parsedLow : Except ParseErr Parsed → Except ParseErr Parsed
  | .ok p => .ok p.low
  | .error e => .error e

theorem stripAnchor_low (w : Bool) : ∀ p : List Char,
    stripAnchor w (p.map L) = ((stripAnchor w p).1.map L, (stripAnchor w p).2) := by
  intro p
  fun_induction stripAnchor w p with
  | case1 r ih =>
    simp only [List.map_cons, L_fix (k := '/') (by nl), stripAnchor, ih]
  | case2 r hw ih =>
    subst hw
    simp only [List.map_cons, L_fix (k := '\\') (by nl), stripAnchor, ih, ite_true]
  | case3 r hw =>
    simp only [List.map_cons, L_fix (k := '\\') (by nl), stripAnchor, hw, Bool.false_eq_true, ite_false,
      List.map_cons]
  | case4 s h1 h2 =>
    have h1' : ∀ r, s.map L = '/' :: r → False := by
      intro r hr
      cases s with
      | nil => simp at hr
      | cons c t =>
        simp only [List.map_cons, List.cons.injEq] at hr
        exact h1 t (by rw [(L_eq_iff (k := '/') (by nl) c).mp hr.1])
    have h2' : ∀ r, s.map L = '\\' :: '\\' :: r → False := by
      intro r hr
      cases s with
      | nil => simp at hr
      | cons c t =>
        cases t with
        | nil => simp at hr
        | cons d u =>
          simp only [List.map_cons, List.cons.injEq] at hr
          exact h2 u (by rw [(L_eq_iff (k := '\\') (by nl) c).mp hr.1,
            (L_eq_iff (k := '\\') (by nl) d).mp hr.2.1])
    rw [stripAnchor.eq_def]
    split
    · rename_i r hr; exact (h1' r hr).elim
    · rename_i r hr; exact (h2' r hr).elim
    · rfl

theorem anchorStep_low (cfg : Cfg) (p : List Char) (ps : PS) :
    anchorStep cfg (p.map L) ps = ((anchorStep cfg p ps).1.map L, (anchorStep cfg p ps).2) := by
  unfold anchorStep
  split
  · simp only [stripAnchor_low]
  · rfl

theorem anchorStep_nb (cfg : Cfg) (p : List Char) (ps : PS) (hp : NB p) : NB (anchorStep cfg p ps).1 := by
  unfold anchorStep
  split
  · obtain ⟨pre, hpre⟩ := stripAnchor_suffix cfg.winDriveDetect p
    rw [hpre] at hp
    exact TextInv.nb.suffix pre hp
  · exact hp

/-- the implicit prefix does not depend on the pattern: it is its own lowering -/
theorem parsePrepend_low (cfg : Cfg) (drive : List Char → DriveInfo) (hd : DriveC cfg drive) (ps : PS) :
    parsePrepend cfg drive ps = rootLow (parsePrepend cfg drive ps) := by
  have h3 := root_low cfg drive hd ['*', '*', '*'] ps [.empty] (by unfold NB; decide)
  have h2 := root_low cfg drive hd ['*', '*'] { ps with globstar := true } [.empty] (by unfold NB; decide)
  have e3 : (['*', '*', '*'] : List Char).map L = ['*', '*', '*'] := by decide
  have e2 : (['*', '*'] : List Char).map L = ['*', '*'] := by decide
  rw [e3] at h3
  rw [e2] at h2
  simp only [Item.lowL_cons, Item.low_empty, Item.lowL_nil] at h2 h3
  unfold parsePrepend
  split
  · split
    · exact h3
    · generalize root cfg drive ['*', '*'] { ps with globstar := true } [.empty] = r at h2 ⊢
      cases r with
      | error e => rfl
      | ok v =>
        obtain ⟨p2, pre⟩ := v
        simp only [rootLow, Except.ok.injEq, Prod.mk.injEq, true_and] at h2 ⊢
        exact h2
  · rfl

theorem map_L_eq_bslash (p : List Char) : (p.map L = ['\\']) = (p = ['\\']) := by
  cases p with
  | nil => simp
  | cons c t => cases t <;> simp

theorem parseBody_low (cfg : Cfg) (drive : List Char → DriveInfo) (hd : DriveC cfg drive) (p : List Char)
    (hp : NB p) (ps : PS) (pre : List Item) :
    parseBody cfg drive (p.map L) ps (Item.lowL pre) = parsedLow (parseBody cfg drive p ps pre) := by
  unfold parseBody
  simp only [map_L_eq_bslash]
  have hp2 : NB (if p = ['\\'] then [] else p) := by
    split
    · unfold NB; simp
    · exact hp
  have he : (if p = ['\\'] then [] else p.map L) = (if p = ['\\'] then [] else p).map L := by
    split <;> rfl
  rw [he]
  generalize (if p = ['\\'] then [] else p) = q at hp2
  simp only [List.isEmpty_map]
  have hroot := root_low cfg drive hd q ps [.empty] hp2
  simp only [Item.lowL_cons, Item.low_empty, Item.lowL_nil] at hroot
  by_cases hq : q.isEmpty = true
  · simp [hq, parsedLow, Parsed.low]
  · simp only [hq, Bool.false_eq_true, ite_false, hroot]
    cases root cfg drive q ps [.empty] with
    | error e => rfl
    | ok v =>
      obtain ⟨p2, result⟩ := v
      simp only [rootLow, parsedLow, Parsed.low, Bool.not_false, Bool.true_and]
      split <;> simp

/-- **lowering the ASCII case of a bracket-free pattern commutes with the whole pass** -/
theorem parseItems_low (cfg : Cfg) (drive : List Char → DriveInfo) (hd : DriveC cfg drive) (p : List Char)
    (hp : NB p) :
    parseItems cfg drive (p.map L) = parsedLow (parseItems cfg drive p) := by
  unfold parseItems
  simp only [anchorStep_low]
  conv => lhs; rw [parsePrepend_low cfg drive hd]
  cases parsePrepend cfg drive _ with
  | error e => rfl
  | ok v =>
    obtain ⟨p2, pre⟩ := v
    simp only [rootLow]
    exact parseBody_low cfg drive hd _ (anchorStep_nb cfg p _ hp) _ _

/-! ### `Parsed.toRe` -/

mutual
theorem Item.size_low : ∀ x : Item, x.low.size = x.size
  | .group _ _ body => by simp [Item.size, Item.sizeL_low body]
  | .invOpen _ body => by simp [Item.size, Item.sizeL_low body]
  | .closed tail _ _ => by simp [Item.size, Item.sizeL_low tail]
  | .re _ => by simp [Item.size]
  | .empty => by simp [Item.size]
  | .bar => by simp [Item.size]
  | .ph _ => by simp [Item.size]
theorem Item.sizeL_low : ∀ l : List Item, Item.sizeL (Item.lowL l) = Item.sizeL l
  | [] => by simp [Item.sizeL]
  | x :: xs => by simp [Item.sizeL, Item.size_low x, Item.sizeL_low xs]
end

theorem splitBars_low : ∀ l : List Item, splitBars (Item.lowL l) = (splitBars l).map Item.lowL
  | [] => by simp [splitBars]
  | x :: rest => by
    have ih := splitBars_low rest
    cases x
    case bar => simp [splitBars, ih]
    all_goals
      simp only [Item.lowL_cons, Item.low_re, Item.low_empty, Item.low_group, Item.low_invOpen,
        Item.low_ph, Item.low_closed, splitBars, ih]
      cases splitBars rest <;> simp

theorem altOfList_low : ∀ l : List Re, altOfList (l.map Re.low) = (altOfList l).low
  | [] => rfl
  | [r] => rfl
  | r :: r2 :: rs => by
    have ih := altOfList_low (r2 :: rs)
    simp only [List.map_cons] at ih
    simp only [List.map_cons, altOfList, Re.low, ih]

theorem quant_low (k : GKind) (cap : Capt) (inner : Re) : quant k cap inner.low = (quant k cap inner).low := by
  unfold quant
  cases k <;> cases cap <;> simp [Re.low]

theorem catE'_low (a b : Re) : catE' a.low b.low = (catE' a b).low := by
  unfold catE'
  simp only [Re.low_eq_eps]
  split
  · rfl
  · split <;> simp [Re.low]

theorem mapM_option_comm {α β : Type} (f : α → Option β) (g : α → α) (h : β → β)
    (hf : ∀ x, f (g x) = (f x).map h) : ∀ l : List α,
    (l.map g).mapM f = (l.mapM f).map (List.map h) := by
  intro l
  induction l with
  | nil => simp
  | cons a as ih =>
    simp only [List.map_cons, List.mapM_cons, hf, ih]
    cases f a with
    | none => simp
    | some b =>
      cases as.mapM f with
      | none => simp
      | some bs => simp

def SeqToReC (fuel : Nat) : Prop :=
  ∀ l : List Item, Item.seqToRe fuel (Item.lowL l) = (Item.seqToRe fuel l).map Re.low
def ListToReC (fuel : Nat) : Prop :=
  ∀ l : List Item, Item.listToRe fuel (Item.lowL l) = (Item.listToRe fuel l).map Re.low

theorem lr_step_low (n : Nat) (ihS : SeqToReC n) : ListToReC (n+1) := by
  intro l
  simp only [Item.listToRe, splitBars_low]
  rw [mapM_option_comm (Item.seqToRe n) Item.lowL Re.low ihS]
  cases (splitBars l).mapM (Item.seqToRe n) with
  | none => simp
  | some parts => simp [altOfList_low]

theorem sr_step_low (n : Nat) (ihS : SeqToReC n) (ihL : ListToReC n) : SeqToReC (n+1) := by
  intro l
  cases l with
  | nil => simp [Item.seqToRe, Re.low]
  | cons x rest =>
    cases x with
    | re r =>
      simp only [Item.lowL_cons, Item.low_re, Item.seqToRe, ihS rest]
      cases Item.seqToRe n rest <;> simp [catE'_low]
    | empty => simp only [Item.lowL_cons, Item.low_empty, Item.seqToRe, ihS rest]
    | bar => simp [Item.seqToRe]
    | ph s => simp [Item.seqToRe]
    | closed t e s => simp [Item.seqToRe]
    | group k cap body =>
      simp only [Item.lowL_cons, Item.low_group, Item.seqToRe, ihS rest, ihL body]
      cases Item.listToRe n body <;> cases Item.seqToRe n rest <;> simp [catE'_low, quant_low]
    | invOpen cap body =>
      cases rest with
      | nil => simp [Item.seqToRe]
      | cons y rest2 =>
        cases y with
        | closed tail eop star =>
          simp only [Item.lowL_cons, Item.low_invOpen, Item.low_closed, Item.seqToRe, ihS rest2, ihL body]
          cases hb : Item.listToRe n body with
          | none => simp
          | some b =>
            have hla : ∀ extra : List Item,
                Item.listToRe n (Item.re (Re.grp b.low) :: (Item.lowL tail ++ Item.lowL extra)) =
                  (Item.listToRe n (Item.re (Re.grp b) :: (tail ++ extra))).map Re.low := by
              intro extra
              rw [← ihL]
              simp [Re.low]
            have key : ∀ (extra : List Item),
                ((Item.listToRe n (Item.re (Re.grp b.low) :: (Item.lowL tail ++ Item.lowL extra))).bind
                  fun la => (Option.map Re.low (Item.seqToRe n rest2)).bind fun r =>
                    pure (catE' (if cap = true then ((Re.look true la).cat star.low).cap
                      else ((Re.look true la).cat star.low).grp) r)) =
                Option.map Re.low
                  ((Item.listToRe n (Item.re (Re.grp b) :: (tail ++ extra))).bind
                    fun la => (Item.seqToRe n rest2).bind fun r =>
                      pure (catE' (if cap = true then ((Re.look true la).cat star).cap
                        else ((Re.look true la).cat star).grp) r)) := by
              intro extra
              rw [hla extra]
              cases Item.listToRe n (Item.re (Re.grp b) :: (tail ++ extra)) with
              | none => simp
              | some la =>
                cases Item.seqToRe n rest2 with
                | none => simp
                | some rr =>
                  simp only [Option.map_some, Option.bind_some, Option.pure_def, Option.some.injEq]
                  rw [← catE'_low]
                  congr 1
                  cases cap <;> simp [Re.low]
            simp only [Option.map_some, Option.bind_eq_bind, Option.bind_some]
            cases eop with
            | none =>
              have := key []
              simpa using this
            | some e =>
              have := key [Item.re e]
              simpa using this
        | re r => simp [Item.seqToRe]
        | empty => simp [Item.seqToRe]
        | bar => simp [Item.seqToRe]
        | ph s => simp [Item.seqToRe]
        | group k c b => simp [Item.seqToRe]
        | invOpen c b => simp [Item.seqToRe]

theorem sr_lr_low : ∀ fuel, SeqToReC fuel ∧ ListToReC fuel := by
  intro fuel
  induction fuel with
  | zero =>
    constructor
    · intro l; simp [Item.seqToRe]
    · intro l; simp [Item.listToRe]
  | succ n ih => exact ⟨sr_step_low n ih.1 ih.2, lr_step_low n ih.1⟩

/-- **`Parsed.toRe` commutes with the case map** -/
theorem toRe_low (p : Parsed) : p.low.toRe = p.toRe.map Re.low := by
  unfold Parsed.toRe
  simp only [Parsed.low, Item.sizeL_low, (sr_lr_low _).2 p.items]
  cases Item.listToRe (2 * Item.sizeL p.items + 4) p.items <;> simp [Re.low]

end WcModel

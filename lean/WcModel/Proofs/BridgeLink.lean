import WcModel.Proofs.BridgeSpec
/-
  C04 bridge, part 3: `Denotes` (walker specification) = documented path language + existence +
  link rule, below a directory — by induction on the segments.

  `segsLink` is `segsMatch` (Spec/PathLang.lean) with two additions: the display path reached so
  far is threaded along, and the pieces a globstar stands for must not be symbolic links
  (`noLinks`: `fs.islink` of every joined prefix — the test `_fs_match` makes on a captured group;
  for a FINAL globstar the last piece is exempt, as in `_fs_match` when the group reaches the end).
-/
namespace WcModel.Bridge

/-- none of `pre/n₁`, `pre/n₁/n₂`, … is a symbolic link -/
def noLinks (fs : FS) : List Char → List Name → Bool
  | _, [] => true
  | pre, n :: ns => !fs.islink (pjoin pre n) && noLinks fs (pjoin pre n) ns

/-- the documented path language with the link rule: segments against the components that follow
    the display path `pre` -/
def segsLink (fs : FS) (ctx : PCtx) : List Seg → List Char → List Name → Bool → Bool → Bool → Bool
  | [], _, pieces, pt, ptr, _ => pieces.isEmpty && (!pt || ptr)
  | .pat g :: ss, pre, x :: xs, pt, ptr, _ => segMatch ctx .free g x && segsLink fs ctx ss (pjoin pre x) xs pt ptr true
  | .pat _ :: _, _, [], _, _, _ => false
  | [.glob], pre, pieces, pt, ptr, afterSep =>
    pieces.all (visible ctx.dot) && (if pieces.isEmpty then (!(afterSep || pt) || ptr) else true) &&
      noLinks fs pre pieces.dropLast
  | .glob :: ss, pre, pieces, pt, ptr, _ =>
    (List.range (pieces.length + 1)).any (fun k =>
      (pieces.take k).all (visible ctx.dot) && noLinks fs pre (pieces.take k) &&
        segsLink fs ctx ss (pjoins pre (pieces.take k)) (pieces.drop k) pt ptr true)

theorem segsLink_pat_cons (fs : FS) (ctx : PCtx) (g : Pat) (ss : List Seg) (pre : List Char) (x : Name)
    (xs : List Name) (pt ptr a : Bool) :
    segsLink fs ctx (.pat g :: ss) pre (x :: xs) pt ptr a =
      (segMatch ctx .free g x && segsLink fs ctx ss (pjoin pre x) xs pt ptr true) := by
  simp [segsLink]

theorem segsLink_pat_nil (fs : FS) (ctx : PCtx) (g : Pat) (ss : List Seg) (pre : List Char) (pt ptr a : Bool) :
    segsLink fs ctx (.pat g :: ss) pre [] pt ptr a = false := by
  simp [segsLink]

theorem segsLink_glob_last (fs : FS) (ctx : PCtx) (pre : List Char) (pieces : List Name) (pt ptr a : Bool) :
    segsLink fs ctx [.glob] pre pieces pt ptr a =
      (pieces.all (visible ctx.dot) && (if pieces.isEmpty then (!(a || pt) || ptr) else true) &&
        noLinks fs pre pieces.dropLast) := by
  simp [segsLink]

theorem segsLink_glob_cons (fs : FS) (ctx : PCtx) (s : Seg) (ss : List Seg) (pre : List Char) (pieces : List Name)
    (pt ptr a : Bool) :
    segsLink fs ctx (.glob :: s :: ss) pre pieces pt ptr a =
      (List.range (pieces.length + 1)).any (fun k =>
        (pieces.take k).all (visible ctx.dot) && noLinks fs pre (pieces.take k) &&
          segsLink fs ctx (s :: ss) (pjoins pre (pieces.take k)) (pieces.drop k) pt ptr true) := by
  simp [segsLink]

/-- dropping the link rule leaves the documented language -/
theorem segsLink_segsMatch (fs : FS) (ctx : PCtx) : ∀ (segs : List Seg) (pre : List Char) (pieces : List Name)
    (pt ptr a : Bool), segsLink fs ctx segs pre pieces pt ptr a = true →
      segsMatch ctx .free segs pieces pt ptr a = true := by
  intro segs
  induction segs with
  | nil => intro pre pieces pt ptr a h; simpa [segsLink, segsMatch] using h
  | cons s ss ih =>
    intro pre pieces pt ptr a h
    cases s with
    | pat g =>
      cases pieces with
      | nil => rw [segsLink_pat_nil] at h; cases h
      | cons x xs =>
        rw [segsLink_pat_cons, Bool.and_eq_true] at h
        simp only [segsMatch, Bool.and_eq_true]
        exact ⟨h.1, ih _ _ _ _ _ h.2⟩
    | glob =>
      cases ss with
      | nil =>
        rw [segsLink_glob_last, Bool.and_eq_true] at h
        simpa [segsMatch] using h.1
      | cons s2 ss2 =>
        rw [segsLink_glob_cons, List.any_eq_true] at h
        obtain ⟨k, hk, hb⟩ := h
        simp only [Bool.and_eq_true] at hb
        simp only [segsMatch, List.any_eq_true, Bool.and_eq_true]
        exact ⟨k, hk, hb.1.1, ih _ _ _ _ _ hb.2⟩

/-- without a globstar there is no link rule -/
theorem segsLink_globfree (fs : FS) (ctx : PCtx) : ∀ (segs : List Seg), segs.all (fun s => s != .glob) = true →
    ∀ (pre : List Char) (pieces : List Name) (pt ptr a : Bool),
      segsLink fs ctx segs pre pieces pt ptr a = segsMatch ctx .free segs pieces pt ptr a := by
  intro segs
  induction segs with
  | nil => intro _ pre pieces pt ptr a; simp [segsLink, segsMatch]
  | cons s ss ih =>
    intro h pre pieces pt ptr a
    simp only [List.all_cons, Bool.and_eq_true] at h
    cases s with
    | glob => simp at h
    | pat g =>
      cases pieces with
      | nil => simp [segsLink, segsMatch]
      | cons x xs => rw [segsLink_pat_cons, ih h.2]; simp [segsMatch]

/-! ### how the parts correspond to the segments -/

/-- a part stands for a segment: a globstar part (not `***`) for a globstar; for a file-name
    segment a name part whose matcher agrees with the segment's language on the names in scope -/
structure SegPart (ctx : PCtx) (cs : Bool) (s : Seg) (p : GPart) : Prop where
  star : p.isStar = (match s with | .glob => true | .pat _ => false)
  long : p.isGlobstarLong = false
  sem : ∀ g, s = .pat g → ∀ n, NameOK ctx.dot n → segOK cs p.pat n = segMatch ctx .free g n

/-- one part per segment; the last part is `dir_only` exactly when the pattern ends with a separator -/
def PartsFor (ctx : PCtx) (cs : Bool) (tr : Bool) : List Seg → List GPart → Prop
  | [], [] => True
  | s :: ss, p :: ps => SegPart ctx cs s p ∧ (ps = [] → p.dirOnly = tr) ∧ PartsFor ctx cs tr ss ps
  | _, _ => False

theorem PartsFor.nil_right {ctx : PCtx} {cs tr : Bool} {ss : List Seg} (h : PartsFor ctx cs tr ss []) : ss = [] := by
  cases ss with
  | nil => rfl
  | cons s r => exact h.elim

theorem PartsFor.nil_left {ctx : PCtx} {cs tr : Bool} {ps : List GPart} (h : PartsFor ctx cs tr [] ps) : ps = [] := by
  cases ps with
  | nil => rfl
  | cons s r => exact h.elim

/-! ### the tree side -/

theorem lstep_of_step {fs : FS} {l : Loc} {n : Name} (h : (fs.step l n).isSome = true) : fs.lstep l n = true := by
  cases l with
  | none => simp [step_none] at h
  | some rp =>
    unfold FS.step at h
    unfold FS.lstep
    cases he : fs.entries (some rp) with
    | none => simp [he] at h
    | some es =>
      simp only [he] at h ⊢
      by_cases h1 : n = [] ∨ n = dot
      · have : n = [] ∨ n = dot ∨ n = dotdot := by rcases h1 with h1 | h1 <;> simp [h1]
        simp [this]
      · by_cases h2 : n = dotdot
        · simp [h2]
        · have : ¬ (n = [] ∨ n = dot ∨ n = dotdot) := by
            rintro (h | h | h)
            · exact h1 (Or.inl h)
            · exact h1 (Or.inr h)
            · exact h2 h
          simp only [h1, h2, if_false] at h
          simp only [this, if_false]
          cases hf : findEntry n es with
          | none => simp [hf] at h
          | some nd => rfl

/-- what the string-level resolver says about an entry of a directory we stand in -/
theorem entry_str {fs : FS} (hwf : fs.WFTree) {d : Dir} (hr : Dir.Rel fs d) {o : Offer} (ho : o ∈ entriesOf fs d) :
    Clean o.name ∧ fs.lexists (pjoin d.path o.name) = true ∧ o.isDir = fs.isdir (pjoin d.path o.name) ∧
      o.isLink = (o.isDir && fs.islink (pjoin d.path o.name)) ∧ o.loc = fs.step d.loc o.name := by
  obtain ⟨hc, hloc, hdir, hls, hlk⟩ := entry_char hwf ho
  obtain ⟨e1, e2, e3⟩ := resolve_pjoin fs d.path o.name hc.2.2.2 hc.1
  refine ⟨hc, ?_, ?_, ?_, hloc⟩
  · rw [e2, hr.1]; exact hls
  · unfold FS.isdir; rw [e1, hr.1, ← hloc]; exact hdir
  · rw [e3, hr.1]; exact hlk

theorem entry_of_lexists {fs : FS} {d : Dir} (hr : Dir.Rel fs d) {n : Name} (hc : Clean n)
    (h : fs.lexists (pjoin d.path n) = true) : ∃ o ∈ entriesOf fs d, o.name = n := by
  rw [(resolve_pjoin fs d.path n hc.2.2.2 hc.1).2.1, hr.1] at h
  exact entry_of_lstep hc h

theorem noLinks_append (fs : FS) : ∀ (xs ys : List Name) (pre : List Char),
    noLinks fs pre (xs ++ ys) = (noLinks fs pre xs && noLinks fs (pjoins pre xs) ys) := by
  intro xs
  induction xs with
  | nil => intro ys pre; simp [noLinks]
  | cons x r ih => intro ys pre; simp [noLinks, ih, Bool.and_assoc]

/-- the presentation of `noLinks` as the test `_fs_match` makes: every joined prefix -/
theorem noLinks_iff (fs : FS) : ∀ (ns : List Name) (pre : List Char),
    noLinks fs pre ns = true ↔ ∀ j, j < ns.length → fs.islink (pjoins pre (ns.take (j + 1))) = false := by
  intro ns
  induction ns with
  | nil => intro pre; simp [noLinks]
  | cons n r ih =>
    intro pre
    simp only [noLinks, Bool.and_eq_true, Bool.not_eq_true', ih, List.length_cons]
    constructor
    · rintro ⟨h1, h2⟩ j hj
      cases j with
      | zero => simpa using h1
      | succ j => simpa using h2 j (by omega)
    · intro h
      refine ⟨by simpa using h 0 (by omega), fun j hj => ?_⟩
      simpa using h (j + 1) (by omega)

/-- what `Below` went through contains no link (no FOLLOW, not `***`) -/
theorem belowN_noLinks {fs : FS} (hwf : fs.WFTree) {c : WalkCfg} (hfol : c.followLinks = false) {d d' : Dir}
    {ns : List Name} (h : BelowN fs c false d ns d') (hr : Dir.Rel fs d) : noLinks fs d.path ns = true := by
  induction h with
  | here => rfl
  | @down d d' o ns ho hd _ ih =>
    obtain ⟨_, _, hdir, hlk, _⟩ := entry_str hwf hr ho
    simp only [descends, hfol, Bool.or_false, Bool.and_eq_true, Bool.not_eq_true'] at hd
    have hl : fs.islink (pjoin d.path o.name) = false := by
      rw [hd.2, hd.1.1] at hlk
      simpa using hlk.symm
    simp only [noLinks, hl, Bool.not_false, Bool.true_and]
    exact ih (offer_rel hwf hr (entriesOf_sub_offered ho) hd.1.1)

/-- a chain of visible directories none of which is a link is gone through by `Below` -/
theorem belowN_of {fs : FS} (hwf : fs.WFTree) (c : WalkCfg) : ∀ (ns : List Name) (d : Dir), Dir.Rel fs d →
    (∀ n ∈ ns, NameOK c.dot n) → fs.locIsDir (fs.steps d.loc ns) = true → noLinks fs d.path ns = true →
    BelowN fs c false d ns ⟨pjoins d.path ns, fs.steps d.loc ns⟩ := by
  intro ns
  induction ns with
  | nil => intro d _ _ _ _; exact BelowN.here _
  | cons n r ih =>
    intro d hr hok hdir hnl
    have hn := hok n List.mem_cons_self
    simp only [FS.steps] at hdir
    have hd1 : fs.locIsDir (fs.step d.loc n) = true := by
      cases r with
      | nil => exact hdir
      | cons m r' => exact locIsDir_of_steps (m :: r') _ (by simp) (locIsDir_isSome hdir)
    obtain ⟨o, ho, rfl⟩ := entry_of_lstep (d := d) hn.clean (lstep_of_step (locIsDir_isSome hd1))
    obtain ⟨_, _, hisd, hlk, hloc⟩ := entry_str hwf hr ho
    simp only [noLinks, Bool.and_eq_true, Bool.not_eq_true'] at hnl
    have hod : o.isDir = true := by
      rw [(entry_char hwf ho).2.2.1, hloc]; exact hd1
    have hdesc : descends c false o = true := by
      simp only [descends, hod, hn.notHidden, hlk, hnl.1]
      rfl
    have hr1 := offer_rel hwf hr (entriesOf_sub_offered ho) hod
    have := ih ⟨pjoin d.path o.name, o.loc⟩ hr1 (fun m hm => hok m (List.mem_cons_of_mem _ hm))
      (by simp only; rw [hloc]; exact hdir) hnl.2
    simp only at this
    rw [hloc] at this
    exact BelowN.down ho hdesc (by rw [hloc]; exact this)

theorem rel_steps {fs : FS} {d : Dir} (hr : Dir.Rel fs d) (ns : List Name) (h : ∀ n ∈ ns, Sane n) :
    fs.resolve (pjoins d.path ns) = fs.steps d.loc ns := by
  rw [resolve_pjoins fs d.path ns h, hr.1]

theorem rel_isdir {fs : FS} {d : Dir} (hr : Dir.Rel fs d) (ns : List Name) (h : ∀ n ∈ ns, Sane n) :
    fs.isdir (pjoins d.path ns) = fs.locIsDir (fs.steps d.loc ns) := by
  unfold FS.isdir; rw [rel_steps hr ns h]

/-- if `d/xs/y/ys` exists then `d/xs` is a directory -/
theorem prefix_dir {fs : FS} {d : Dir} (hr : Dir.Rel fs d) (xs : List Name) (y : Name) (ys : List Name)
    (h : ∀ n ∈ xs ++ y :: ys, Sane n) (he : fs.lexists (pjoins d.path (xs ++ y :: ys)) = true) :
    fs.locIsDir (fs.steps d.loc xs) = true := by
  rcases List.eq_nil_or_concat (y :: ys) with h0 | ⟨init, l, hl⟩
  · cases h0
  · rw [List.concat_eq_append] at hl
    rw [hl, ← List.append_assoc] at he h
    rw [lexists_pjoins_snoc fs d.path (xs ++ init) l (fun m hm => h m (List.mem_append_left _ hm))
      (h l (by simp)), hr.1, steps_append] at he
    have := locIsDir_of_lstep he
    cases init with
    | nil => exact this
    | cons a b => exact locIsDir_of_steps (a :: b) _ (by simp) (locIsDir_isSome this)

/-- a directory we stand in exists -/
theorem rel_lexists {fs : FS} {d : Dir} (hr : Dir.Rel fs d) : fs.lexists d.path = true := by
  have h1 := hr.1
  have h2 := locIsDir_isSome hr.2
  rw [← h1] at h2
  unfold FS.resolve at h2
  unfold FS.lexists
  simp only
  rcases List.eq_nil_or_concat (splitSlash d.path) with h0 | ⟨init, l, hl⟩
  · exact absurd h0 (splitSlash_ne_nil _)
  · rw [List.concat_eq_append] at hl
    rw [hl] at h2 ⊢
    rw [steps_append] at h2
    simp only [FS.steps] at h2
    simp only [List.dropLast_concat, List.getLast?_append, List.getLast?_singleton, Option.some_or, Option.getD_some]
    exact lstep_of_step h2

/-- a non-empty list of segments that starts with a file-name segment or a globstar followed by
    one cannot match the empty list of pieces unless the path is written as a directory -/
theorem segsLink_nil_ptr (fs : FS) (ctx : PCtx) (s : Seg) (ss : List Seg) (hgg : noGG (s :: ss) = true)
    (pre : List Char) (pt ptr : Bool) (h : segsLink fs ctx (s :: ss) pre [] pt ptr true = true) : ptr = true := by
  cases s with
  | pat g => rw [segsLink_pat_nil] at h; cases h
  | glob =>
    cases ss with
    | nil => simpa [segsLink_glob_last, noLinks] using h
    | cons s2 ss2 =>
      cases s2 with
      | glob => simp [noGG] at hgg
      | pat g =>
        rw [segsLink_glob_cons, List.any_eq_true] at h
        obtain ⟨k, _, hb⟩ := h
        simp only [List.drop_nil, Bool.and_eq_true] at hb
        rw [segsLink_pat_nil] at hb
        cases hb.2

theorem denP_ne_nil {fs : FS} (hwf : fs.WFTree) {c : WalkCfg} {q : GPart} {rest : List GPart}
    (hq : q.isStar = false) {d : Dir} (hd : NoTrail d.path) {cs : List Name} (hc : ∀ n ∈ cs, Sane n)
    (h : DenP fs c (q :: rest) d cs) : cs ≠ [] := by
  cases rest with
  | nil =>
    obtain ⟨o, _, rfl, _⟩ := (denP_last hwf hq hd hc).1 h
    simp
  | cons r rest' =>
    obtain ⟨o, _, cs', rfl, _⟩ := (denP_inner hwf hq hd hc).1 h
    simp

/-- **the bridge below a directory.**  For a part list that stands for the segments (`PartsFor`),
    below a directory `d` we stand in, and components in scope (`NameOK`: sane, visible):
    the parts denote `d/comps` exactly when the segments accept the components (documented language
    with the link rule), the path exists, and it is a directory when the pattern ends with a
    separator. -/
theorem denP_iff_segsLink {fs : FS} (hwf : fs.WFTree) (ctx : PCtx) (c : WalkCfg) (hdot : c.dot = ctx.dot)
    (hfol : c.followLinks = false) (tr : Bool) :
    ∀ (segs : List Seg) (parts : List GPart), PartsFor ctx c.caseSensitive tr segs parts → noGG segs = true →
      segs ≠ [] →
    ∀ (d : Dir), Dir.Rel fs d → NoTrail d.path → ∀ (comps : List Name), (∀ n ∈ comps, NameOK ctx.dot n) →
      (d.path = [] → comps ≠ []) → ∀ (afterSep : Bool), (segs = [.glob] → (afterSep = true ↔ d.path ≠ [])) →
      (DenP fs c parts d comps ↔
        segsLink fs ctx segs d.path comps tr (fs.isdir (pjoins d.path comps)) afterSep = true ∧
        fs.lexists (pjoins d.path comps) = true ∧ (tr = true → fs.isdir (pjoins d.path comps) = true)) := by
  intro segs
  induction segs with
  | nil => intro _ _ _ h; exact absurd rfl h
  | cons s ss ih =>
    intro parts hpf hgg _ d hr hd comps hok hne afterSep hsep
    have hsane : ∀ n ∈ comps, Sane n := fun n hn => (hok n hn).sane
    cases parts with
    | nil => exact hpf.elim
    | cons p ps =>
      obtain ⟨hsp, hlast, hrest⟩ := hpf
      cases s with
      | pat g =>
        have hpstar : p.isStar = false := hsp.star
        have hsem := hsp.sem g rfl
        cases ss with
        | nil =>
          have hps := hrest.nil_left
          subst hps
          have hdo : p.dirOnly = tr := hlast rfl
          rw [denP_last hwf hpstar hd hsane]
          cases comps with
          | nil =>
            rw [segsLink_pat_nil]
            constructor
            · rintro ⟨o, _, h, _⟩; cases h
            · rintro ⟨h, _⟩; cases h
          | cons x xs =>
            rw [segsLink_pat_cons]
            have hx := hok x List.mem_cons_self
            constructor
            · rintro ⟨o, ho, he, hs, hdir⟩
              simp only [List.cons.injEq] at he
              obtain ⟨rfl, rfl⟩ := he
              have hoe := offer_clean ho hx.clean
              obtain ⟨_, hex, hisd, _, _⟩ := entry_str hwf hr hoe
              simp only [pjoins_cons, pjoins_nil]
              rw [hsem _ hx] at hs
              refine ⟨?_, hex, ?_⟩
              · simp only [hs, segsLink, List.isEmpty_nil, Bool.true_and]
                cases tr with
                | false => rfl
                | true => rw [← hisd, hdir hdo]; rfl
              · intro ht; rw [← hisd]; exact hdir (by rw [hdo]; exact ht)
            · rintro ⟨hm, hex, hdir⟩
              simp only [Bool.and_eq_true] at hm
              have hxs : xs = [] := by
                have := hm.2
                simp only [segsLink, Bool.and_eq_true, List.isEmpty_iff] at this
                exact this.1
              subst hxs
              simp only [pjoins_cons, pjoins_nil] at hex hdir
              obtain ⟨o, hoe, rfl⟩ := entry_of_lexists hr hx.clean hex
              obtain ⟨_, _, hisd, _, _⟩ := entry_str hwf hr hoe
              refine ⟨o, entriesOf_sub_offered hoe, rfl, ?_, ?_⟩
              · rw [hsem _ hx]; exact hm.1
              · intro h; rw [hisd]; exact hdir (by rw [← hdo]; exact h)
        | cons s2 ss2 =>
          cases ps with
          | nil => exact hrest.elim
          | cons q rest =>
            rw [denP_inner hwf hpstar hd hsane]
            have hgg2 : noGG (s2 :: ss2) = true := by simpa [noGG] using hgg
            cases comps with
            | nil =>
              rw [segsLink_pat_nil]
              constructor
              · rintro ⟨o, _, cs, h, _⟩; cases h
              · rintro ⟨h, _⟩; cases h
            | cons x xs =>
              rw [segsLink_pat_cons]
              have hx := hok x List.mem_cons_self
              have hxs : ∀ n ∈ xs, NameOK ctx.dot n := fun n hn => hok n (List.mem_cons_of_mem _ hn)
              constructor
              · rintro ⟨o, ho, cs, he, hs, hdir, hsub⟩
                simp only [List.cons.injEq] at he
                obtain ⟨rfl, rfl⟩ := he
                have hoe := offer_clean ho hx.clean
                have hr1 := offer_rel hwf hr ho hdir
                have hd1 : NoTrail (pjoin d.path o.name) := pjoin_noTrail _ hx.sane hd
                have := (ih (q :: rest) hrest hgg2 (by simp) ⟨pjoin d.path o.name, o.loc⟩ hr1 hd1 xs hxs
                  (fun h => absurd h (pjoin_ne_nil _ hx.sane hd)) true
                  (fun _ => ⟨fun _ => pjoin_ne_nil _ hx.sane hd, fun _ => rfl⟩)).1 hsub
                simp only [pjoins_cons]
                rw [hsem _ hx] at hs
                exact ⟨by rw [hs]; exact this.1, this.2.1, this.2.2⟩
              · rintro ⟨hm, hex, hdir⟩
                simp only [Bool.and_eq_true] at hm
                simp only [pjoins_cons] at hm hex hdir
                have hex1 : fs.lexists (pjoin d.path x) = true := by
                  cases xs with
                  | nil => exact hex
                  | cons y ys =>
                    have hpd := prefix_dir hr [x] y ys (fun n hn => hsane n (by simpa using hn)) hex
                    simp only [FS.steps] at hpd
                    rw [(resolve_pjoin fs d.path x hx.sane.2 hx.sane.1).2.1, hr.1]
                    exact lstep_of_step (locIsDir_isSome hpd)
                obtain ⟨o, hoe, rfl⟩ := entry_of_lexists hr hx.clean hex1
                obtain ⟨_, _, hisd, _, hloc⟩ := entry_str hwf hr hoe
                have hod : o.isDir = true := by
                  cases xs with
                  | nil =>
                    have := segsLink_nil_ptr fs ctx s2 ss2 hgg2 _ _ _ hm.2
                    simp only [pjoins_nil] at this
                    rw [hisd]; exact this
                  | cons y ys =>
                    have hpd := prefix_dir hr [o.name] y ys (fun n hn => hsane n (by simpa using hn)) hex
                    simp only [FS.steps] at hpd
                    rw [(entry_char hwf hoe).2.2.1, hloc]; exact hpd
                have ho := entriesOf_sub_offered hoe
                have hr1 := offer_rel hwf hr ho hod
                have hd1 : NoTrail (pjoin d.path o.name) := pjoin_noTrail _ hx.sane hd
                refine ⟨o, ho, xs, rfl, ?_, hod, ?_⟩
                · rw [hsem _ hx]; exact hm.1
                · exact (ih (q :: rest) hrest hgg2 (by simp) ⟨pjoin d.path o.name, o.loc⟩ hr1 hd1 xs hxs
                    (fun h => absurd h (pjoin_ne_nil _ hx.sane hd)) true
                    (fun _ => ⟨fun _ => pjoin_ne_nil _ hx.sane hd, fun _ => rfl⟩)).2 ⟨hm.2, hex, hdir⟩
      | glob =>
        have hpstar : p.isStar = true := hsp.star
        have hpl := hsp.long
        cases ss with
        | nil =>
          have hps := hrest.nil_left
          subst hps
          have hdo : p.dirOnly = tr := hlast rfl
          rw [denP_star hwf hpstar hpl hd hsane, segsLink_glob_last]
          rcases List.eq_nil_or_concat comps with rfl | ⟨init, l, rfl⟩
          · have hne' : d.path ≠ [] := fun h => hne h rfl
            have hdir : fs.isdir d.path = true := by unfold FS.isdir; rw [hr.1]; exact hr.2
            simp only [pjoins_nil, List.all_nil, List.isEmpty_nil, if_true, List.dropLast_nil, noLinks, Bool.and_true,
              hdir, Bool.or_true]
            constructor
            · intro _; exact ⟨trivial, rel_lexists hr, fun _ => trivial⟩
            · intro _; exact Or.inl ⟨trivial, hne'⟩
          · rw [List.concat_eq_append] at hok hsane ⊢
            have hl := hok l (by simp)
            have hin : ∀ n ∈ init, NameOK ctx.dot n := fun n hn => hok n (List.mem_append_left _ hn)
            have hins : ∀ n ∈ init, Sane n := fun n hn => (hin n hn).sane
            have hvis : (init ++ [l]).all (visible ctx.dot) = true :=
              List.all_eq_true.2 (fun n hn => (hok n hn).vis)
            have hemp : (init ++ [l]).isEmpty = false := by simp
            simp only [hvis, hemp, Bool.false_eq_true, if_false, List.dropLast_concat, Bool.true_and]
            rw [pjoins_snoc]
            constructor
            · rintro (⟨h, _⟩ | ⟨pre, d', o, hn, ho, he, hh, hdir⟩)
              · simp at h
              · obtain ⟨rfl, he2⟩ := List.append_inj' he rfl
                simp only [List.cons.injEq, and_true] at he2
                subst he2
                have hr' := below_rel hwf hn.toBelow hr
                obtain ⟨_, hex, hisd, _, _⟩ := entry_str hwf hr' ho
                rw [hn.path] at hex hisd
                refine ⟨belowN_noLinks hwf hfol hn hr, hex, ?_⟩
                intro ht; rw [← hisd]; exact hdir (by rw [hdo]; exact ht)
            · rintro ⟨hnl, hex, hdir⟩
              right
              have hls : fs.lstep (fs.steps d.loc init) l = true := by
                rw [← pjoins_snoc, lexists_pjoins_snoc fs d.path init l hins hl.sane, hr.1] at hex
                exact hex
              have hbn := belowN_of hwf c init d hr (by rw [hdot]; exact hin) (locIsDir_of_lstep hls) hnl
              have hr' := below_rel hwf hbn.toBelow hr
              obtain ⟨o, hoe, rfl⟩ := entry_of_lexists hr' hl.clean (by simpa using hex)
              obtain ⟨_, _, hisd, _, _⟩ := entry_str hwf hr' hoe
              refine ⟨init, _, o, hbn, hoe, rfl, by rw [hdot]; exact hl.notHidden, ?_⟩
              intro h; rw [hisd]; exact hdir (by rw [← hdo]; exact h)
        | cons s2 ss2 =>
          cases ps with
          | nil => exact hrest.elim
          | cons q rest =>
            cases s2 with
            | glob => simp [noGG] at hgg
            | pat g2 =>
              have hgg2 : noGG (Seg.pat g2 :: ss2) = true := by simpa [noGG] using hgg
              have hq : q.isStar = false := hrest.1.star
              rw [denP_star_cons hwf hpstar hq hpl hd hsane, segsLink_glob_cons]
              constructor
              · rintro ⟨pre, d', cs, hn, rfl, hsub⟩
                have hpre : ∀ n ∈ pre, NameOK ctx.dot n := fun n hm => hok n (List.mem_append_left _ hm)
                have hcs : ∀ n ∈ cs, NameOK ctx.dot n := fun n hm => hok n (List.mem_append_right _ hm)
                have hr' := below_rel hwf hn.toBelow hr
                have hd' := belowN_noTrail hwf hn hd
                have hcne := denP_ne_nil hwf hq hd' (fun n hm => (hcs n hm).sane) hsub
                have := (ih (q :: rest) hrest hgg2 (by simp) d' hr' hd' cs hcs (fun _ => hcne) true
                  (fun h => by cases h)).1 hsub
                rw [hn.path, ← pjoins_append] at this
                refine ⟨?_, this.2.1, this.2.2⟩
                rw [List.any_eq_true]
                refine ⟨pre.length, by rw [List.mem_range]; simp; omega, ?_⟩
                rw [List.take_left' rfl, List.drop_left' rfl]
                simp only [Bool.and_eq_true]
                exact ⟨⟨List.all_eq_true.2 (fun n hm => (hpre n hm).vis), belowN_noLinks hwf hfol hn hr⟩, this.1⟩
              · rintro ⟨hany, hex, hdir⟩
                rw [List.any_eq_true] at hany
                obtain ⟨k, _, hb⟩ := hany
                simp only [Bool.and_eq_true] at hb
                obtain ⟨⟨_, hnl⟩, hsl⟩ := hb
                have hsplit : comps.take k ++ comps.drop k = comps := List.take_append_drop k comps
                have hpre : ∀ n ∈ comps.take k, NameOK ctx.dot n := fun n hm => hok n (List.mem_of_mem_take hm)
                have hcs : ∀ n ∈ comps.drop k, NameOK ctx.dot n := fun n hm => hok n (List.mem_of_mem_drop hm)
                cases hdk : comps.drop k with
                | nil => rw [hdk, segsLink_pat_nil] at hsl; cases hsl
                | cons y ys =>
                  have hex' := hex
                  rw [← hsplit, hdk] at hex'
                  have hpd := prefix_dir hr (comps.take k) y ys (by
                    intro n hm; rw [← hdk, hsplit] at hm; exact hsane n hm) hex'
                  have hbn := belowN_of hwf c (comps.take k) d hr (by rw [hdot]; exact hpre) hpd hnl
                  have hr' := below_rel hwf hbn.toBelow hr
                  have hd' := belowN_noTrail hwf hbn hd
                  refine ⟨comps.take k, _, comps.drop k, hbn, hsplit.symm, ?_⟩
                  have hj : pjoins (pjoins d.path (comps.take k)) (comps.drop k) = pjoins d.path comps := by
                    rw [← pjoins_append, hsplit]
                  refine (ih (q :: rest) hrest hgg2 (by simp) _ hr' hd' (comps.drop k) hcs
                    (fun _ => by rw [hdk]; simp) true (fun h => by cases h)).2 ?_
                  simp only [hj]
                  exact ⟨hsl, hex, hdir⟩

end WcModel.Bridge

import WcModel.Proofs.PathlibBridgeTwin
import WcModel.Properties.C16views
import WcModel.Properties.C04bridge
/-
  C16 bridge, part 2: what `WcParse.parse` produces under `_EXTMATCHBASE` + REALPATH for a printed
  RELATIVE path pattern that does not begin with a globstar (`Bridge.relOK`):

      ''  (?!/)  (GSTAR)  (?:^|$|[/])+  [/]*?      -- the implicit `**`, parsed as a pattern of its own
      ''  (?!/)  ''  <items of the pattern>  [/]*?  -- the pattern, as without `_EXTMATCHBASE`

  (`parseItems_em_path`).  The prefix is `C16views.extmatchbase_parse_shape`; the pattern run starts
  from the state the prefix left, in which `extmatchbase` is still set, under a configuration with
  `extmatchbase0` (and possibly `noAbs`) set: `PB.root_E` carries `Bridge.root_path_real` over.
-/
namespace WcModel.PB
open Bridge PP PPP PathlibViews

/-- `root` looks at its state argument through `setAfterStart` only -/
theorem root_setAfterStart (cfg : Cfg) (drive : List Char → DriveInfo) (p : List Char) (ps : PS) (cur : List Item) :
    root cfg drive p ps cur = root cfg drive p ps.setAfterStart cur := rfl

theorem cfgE_back (cfg : Cfg) (hem : cfg.extmatchbase0 = true) : cfgE (cfgE cfg false false) cfg.noAbs true = cfg := by
  obtain ⟨a1, a2, a3, a4, a5, a6, a7, a8, a9, a10, a11, a12, a13, a14, a15, a16, a17, a18, a19, a20⟩ := cfg
  simp only at hem
  subst hem
  rfl

/-- the items of the implicit `**` prefix, in the order `_parse` emits them -/
def emPrefix : List Item :=
  [.empty, .re Frag.noRoot, .re (.gcap emG), .re (Frag.globstarDiv false), .re (Frag.pathTrail false)]

/-- **`WcParse.parse` under `_EXTMATCHBASE` + REALPATH on a printed relative path pattern** (no
    leading globstar): the implicit `**` prefix, then the items of the pattern as without the flag.
    `cfg0 := cfgE cfg false false` is `cfg` with `_EXTMATCHBASE` and `_NOABSOLUTE` cleared. -/
theorem parseItems_em_path (cfg : Cfg) (h : PathX ((cfgE cfg false false).rp false)) (hrp : cfg.realpath = true)
    (hcap : cfg.globstarCapture = true) (hdot : cfg.dot = false) (hem : cfg.extmatchbase0 = true)
    (hgl : (cfg.globstarlong && cfg.follow) = false)
    (drive : List Char → DriveInfo) (tr : Bool) (segs : List Seg)
    (hok : ∀ s ∈ segs, PPP.segOK s = true) (hgg : noGG segs = true)
    (hlead : segs.head?.map Seg.isGlob ≠ some true) (hne : segs ≠ [])
    (hgs : segs.any Seg.isGlob = true → cfg.globstar0 = true) :
    parseItems cfg drive (printSegs tr segs false) =
      .ok { items := emPrefix ++ ([.empty, .re Frag.noRoot, .empty] ++
              (segItems ((cfgE cfg false false).rp false) tr segs false ++ [.re (Frag.pathTrail false)])),
            ci := !cfg.caseSensitive } := by
  have hpu : PathUnix cfg := ⟨h.pathname, h.unix, h.bslash, h.wdd⟩
  have han : cfg.anchor = false := h.anchor
  have hmb : cfg.matchbase0 = false := h.matchbase
  have hp1 : printSegs tr segs false ≠ [] := printSegs_ne_nil tr segs false hok (fun he => absurd he hne)
  have hp2 : printSegs tr segs false ≠ ['\\'] := printSegs_ne_bs tr segs false hok
  rw [C16views.extmatchbase_parse_shape cfg hpu hrp hcap hdot han hem hgl drive _ hp1 hp2]
  -- the pattern run, without the two flags, from a state with `extmatchbase` clear
  obtain ⟨ps', hr, hm, he⟩ := root_path_real (cfgE cfg false false) h hrp drive tr segs hok hgg hlead
    { matchbase := false, extmatchbase := false, globstar := cfg.globstar0 } hgs ⟨rfl, rfl, rfl, rfl, rfl, rfl⟩
  rw [root_setAfterStart] at hr
  have hhd : (printSegs tr segs false).head? ≠ some '/' := printSegs_false_head tr segs hok
  have hE := root_E (cfgE cfg false false) h.wdd cfg.noAbs true true drive (printSegs tr segs false) hhd _ _ _ _ hr
  rw [cfgE_back cfg hem] at hE
  have hst : ({ afterPrefix { matchbase := cfg.matchbase0, extmatchbase := cfg.extmatchbase0, globstar := true } with
        globstar := cfg.globstar0 } : PS) =
      setE true ({ matchbase := false, extmatchbase := false, globstar := cfg.globstar0 } : PS).setAfterStart := by
    rw [hmb, hem]; rfl
  rw [hst, hE]
  simp only [setE_emb, Bool.or_true, if_true, setE_mb]
  simp [emPrefix]

end WcModel.PB

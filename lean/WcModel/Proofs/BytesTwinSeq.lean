import WcModel.Proofs.BytesTwinRe
import WcModel.Proofs.ParseWF
/-
  C18 (all patterns) — the configuration twin and the bracket code.

  `cfg.withBytes b` is `cfg` with `isBytes := b`.  Every helper of the pass except `sequence`
  ignores the field (`*_wb` lemmas); `seqLoop` reads it only through `CTok.key` of POSIX tokens,
  and the keys coincide because the two POSIX tables have the same text (`posixText_agree`);
  `sequence` itself emits the same class up to the spelling of the full range
  (`sequence_wb`).
-/
namespace WcModel

def Cfg.withBytes (c : Cfg) (b : Bool) : Cfg := { c with isBytes := b }

section proj
variable (c : Cfg) (b : Bool)
@[simp] theorem Cfg.wb_isBytes : (c.withBytes b).isBytes = b := rfl
@[simp] theorem Cfg.wb_noAbs : (c.withBytes b).noAbs = c.noAbs := rfl
@[simp] theorem Cfg.wb_pathname : (c.withBytes b).pathname = c.pathname := rfl
@[simp] theorem Cfg.wb_globstarlong : (c.withBytes b).globstarlong = c.globstarlong := rfl
@[simp] theorem Cfg.wb_globstar0 : (c.withBytes b).globstar0 = c.globstar0 := rfl
@[simp] theorem Cfg.wb_follow : (c.withBytes b).follow = c.follow := rfl
@[simp] theorem Cfg.wb_realpath : (c.withBytes b).realpath = c.realpath := rfl
@[simp] theorem Cfg.wb_translate : (c.withBytes b).translate = c.translate := rfl
@[simp] theorem Cfg.wb_globstarCapture : (c.withBytes b).globstarCapture = c.globstarCapture := rfl
@[simp] theorem Cfg.wb_dot : (c.withBytes b).dot = c.dot := rfl
@[simp] theorem Cfg.wb_extend : (c.withBytes b).extend = c.extend := rfl
@[simp] theorem Cfg.wb_matchbase0 : (c.withBytes b).matchbase0 = c.matchbase0 := rfl
@[simp] theorem Cfg.wb_extmatchbase0 : (c.withBytes b).extmatchbase0 = c.extmatchbase0 := rfl
@[simp] theorem Cfg.wb_anchor : (c.withBytes b).anchor = c.anchor := rfl
@[simp] theorem Cfg.wb_nodotdir : (c.withBytes b).nodotdir = c.nodotdir := rfl
@[simp] theorem Cfg.wb_capture : (c.withBytes b).capture = c.capture := rfl
@[simp] theorem Cfg.wb_caseSensitive : (c.withBytes b).caseSensitive = c.caseSensitive := rfl
@[simp] theorem Cfg.wb_unix : (c.withBytes b).unix = c.unix := rfl
@[simp] theorem Cfg.wb_winDriveDetect : (c.withBytes b).winDriveDetect = c.winDriveDetect := rfl
@[simp] theorem Cfg.wb_bslashAbort : (c.withBytes b).bslashAbort = c.bslashAbort := rfl
@[simp] theorem Cfg.wb_win : (c.withBytes b).win = c.win := rfl
@[simp] theorem Cfg.wb_needChar : (c.withBytes b).needChar = c.needChar := rfl
@[simp] theorem Cfg.wb_eop : (c.withBytes b).eop = c.eop := rfl
end proj

theorem Cfg.withBytes_self (c : Cfg) : c.withBytes c.isBytes = c := by cases c; rfl
theorem Cfg.withBytes_withBytes (c : Cfg) (b b' : Bool) : (c.withBytes b).withBytes b' = c.withBytes b' := rfl

/-- two configurations that differ at most in `isBytes` -/
theorem Cfg.eq_withBytes {c₁ c₂ : Cfg} (h : c₁.withBytes false = c₂.withBytes false) :
    c₂ = c₁.withBytes c₂.isBytes := by
  have : c₂ = (c₂.withBytes false).withBytes c₂.isBytes := by
    rw [Cfg.withBytes_withBytes, Cfg.withBytes_self]
  rw [this, ← h]; rfl

/-! ### helpers that never read `isBytes` -/

@[simp] theorem restrictExtendedSlash_wb (c : Cfg) (b : Bool) :
    restrictExtendedSlash (c.withBytes b) = restrictExtendedSlash c := rfl
@[simp] theorem restrictSequence_wb (c : Cfg) (b : Bool) (ps : PS) :
    restrictSequence (c.withBytes b) ps = restrictSequence c ps := rfl
@[simp] theorem referencesSeq_wb (c : Cfg) (b : Bool) (it : It) :
    referencesSeq (c.withBytes b) it = referencesSeq c it := rfl
@[simp] theorem references_wb (c : Cfg) (b : Bool) (ps : PS) (it : It) :
    references (c.withBytes b) ps it = references c ps it := rfl
@[simp] theorem consumePathSep_wb (c : Cfg) (b : Bool) (it : It) :
    consumePathSep (c.withBytes b) it = consumePathSep c it := rfl
@[simp] theorem qmarkItem_wb (c : Cfg) (b : Bool) (ps : PS) :
    qmarkItem (c.withBytes b) ps = qmarkItem c ps := rfl

@[simp] theorem dotScan_wb (c : Cfg) (b : Bool) (inList : Bool) : ∀ (fuel : Nat) (it : It) (cur prev : Bool),
    dotScan (c.withBytes b) inList fuel it cur prev = dotScan c inList fuel it cur prev
  | 0, _, _, _ => rfl
  | fuel+1, it, cur, prev => by
    simp only [dotScan, referencesSeq_wb, dotScan_wb c b inList fuel]

@[simp] theorem handleDot_wb (c : Cfg) (b : Bool) (ps : PS) (it : It) :
    handleDot (c.withBytes b) ps it = handleDot c ps it := by
  simp only [handleDot, dotScan_wb, Cfg.wb_pathname, Cfg.wb_nodotdir, Cfg.wb_win]

@[simp] theorem cleanUpGo_wb (c : Cfg) (b : Bool) (nested : Bool) : ∀ (rev done : List Item) (n : Nat),
    cleanUpGo (c.withBytes b) nested rev done n = cleanUpGo c nested rev done n := by
  intro rev
  induction rev with
  | nil => intro done n; rfl
  | cons x rest ih =>
    intro done n
    cases x <;> simp only [cleanUpGo, ih, Cfg.wb_capture, Cfg.wb_eop] <;> rfl

@[simp] theorem cleanUpInverse_wb (c : Cfg) (b : Bool) (ps : PS) (cur : List Item) (nested : Bool) :
    cleanUpInverse (c.withBytes b) ps cur nested = cleanUpInverse c ps cur nested := by
  simp only [cleanUpInverse, cleanUpGo_wb]

@[simp] theorem handleStar_wb (c : Cfg) (b : Bool) (ps : PS) (it : It) (cur : List Item) :
    handleStar (c.withBytes b) ps it cur = handleStar c ps it cur := rfl

@[simp] theorem winDrive_wb (c : Cfg) (b : Bool) : winDrive (c.withBytes b) = winDrive c := rfl

/-! ### POSIX tables and range keys -/

theorem posixText_agree (b b' : Bool) (n : PosixName) : posixText b n = posixText b' n := by
  have h : ∀ n ∈ PosixName.all, posixText true n = posixText false n := by decide +kernel
  have hn : n ∈ PosixName.all := by cases n <;> decide
  cases b <;> cases b' <;> first | rfl | exact h n hn | exact (h n hn).symm

theorem posixItem_agree (b b' : Bool) (n : PosixName) : posixItem b n = posixItem b' n := by
  simp only [posixItem, posixText_agree b b' n]

theorem CTok.key_agree (b b' : Bool) (t : CTok) : t.key b = t.key b' := by
  cases t <;> simp only [CTok.key, posixText_agree b b']

theorem seqRangeCheck_agree (b b' : Bool) (res : List CTok) (last : CTok) :
    seqRangeCheck b res last = seqRangeCheck b' res last := by
  unfold seqRangeCheck
  split
  · simp only [CTok.key_agree b b']
  · rfl

theorem tokAtoms_agree (b b' : Bool) : ∀ l : List CTok, tokAtoms b l = tokAtoms b' l
  | [] => rfl
  | t :: r => by
    cases t <;> simp only [tokAtoms, tokAtoms_agree b b' r, posixItem_agree b b']

theorem seqLoop_wb (c : Cfg) (b : Bool) : ∀ (fuel : Nat) (ch : Char) (it : It) (st : SeqSt),
    seqLoop (c.withBytes b) fuel ch it st = seqLoop c fuel ch it st
  | 0, _, _, _ => rfl
  | fuel+1, ch, it, st => by
    simp only [seqLoop, seqLoop_wb c b fuel, Cfg.wb_isBytes, Cfg.wb_pathname, referencesSeq_wb,
      seqRangeCheck_agree b c.isBytes]
    rfl

/-! ### fragments contain no full range -/

theorem Re.bnorm_eq_eps {r : Re} : r.bnorm = .eps ↔ r = .eps := by
  cases r <;> simp [Re.bnorm]

namespace Frag
@[simp] theorem sep_bnorm (win : Bool) : (sep win).bnorm = sep win := by cases win <;> decide
@[simp] theorem pathEop_bnorm (win : Bool) : (pathEop win).bnorm = pathEop win := by cases win <;> decide
@[simp] theorem noDir_bnorm (win : Bool) : (noDir win).bnorm = noDir win := by cases win <;> decide
@[simp] theorem seqPath_bnorm (win : Bool) : (seqPath win).bnorm = seqPath win := by cases win <;> decide
@[simp] theorem seqPathDot_bnorm (win : Bool) : (seqPathDot win).bnorm = seqPathDot win := by cases win <;> decide
@[simp] theorem pathStar_bnorm (win : Bool) : (pathStar win).bnorm = pathStar win := by cases win <;> decide
@[simp] theorem pathStarDot1_bnorm (win : Bool) : (pathStarDot1 win).bnorm = pathStarDot1 win := by cases win <;> decide
@[simp] theorem pathStarDot2_bnorm (win : Bool) : (pathStarDot2 win).bnorm = pathStarDot2 win := by cases win <;> decide
@[simp] theorem pathGstarDot1_bnorm (win : Bool) : (pathGstarDot1 win).bnorm = pathGstarDot1 win := by cases win <;> decide
@[simp] theorem pathGstarDot2_bnorm (win : Bool) : (pathGstarDot2 win).bnorm = pathGstarDot2 win := by cases win <;> decide
@[simp] theorem noDot_bnorm : noDot.bnorm = noDot := by decide
@[simp] theorem star_bnorm : star.bnorm = star := by decide
@[simp] theorem qmark_bnorm : qmark.bnorm = qmark := by decide
@[simp] theorem needCharPath_bnorm (win : Bool) : (needCharPath win).bnorm = needCharPath win := by cases win <;> decide
@[simp] theorem needChar_bnorm : needChar.bnorm = needChar := by decide
@[simp] theorem needSep_bnorm (win : Bool) : (needSep win).bnorm = needSep win := by cases win <;> decide
@[simp] theorem globstarDiv_bnorm (win : Bool) : (globstarDiv win).bnorm = globstarDiv win := by cases win <;> decide
@[simp] theorem pathTrail_bnorm (win : Bool) : (pathTrail win).bnorm = pathTrail win := by cases win <;> decide
@[simp] theorem sepPlus_bnorm (win : Bool) : (sepPlus win).bnorm = sepPlus win := by cases win <;> decide
@[simp] theorem noRoot_bnorm : noRoot.bnorm = noRoot := by decide
@[simp] theorem noWinRoot_bnorm : noWinRoot.bnorm = noWinRoot := by decide
@[simp] theorem guardedDot_bnorm (win : Bool) : (guardedDot win).bnorm = guardedDot win := by cases win <;> decide
end Frag

@[simp] theorem Cfg.needChar_bnorm (c : Cfg) : c.needChar.bnorm = c.needChar := by
  unfold Cfg.needChar; split <;> simp
@[simp] theorem Cfg.eop_bnorm (c : Cfg) : c.eop.bnorm = c.eop := by
  unfold Cfg.eop; split <;> simp [Re.bnorm]

theorem catE_bnorm (a b : Re) : (catE a b).bnorm = catE a.bnorm b.bnorm := by
  unfold catE
  by_cases h : a = .eps
  · subst h; simp [Re.bnorm]
  · have : a.bnorm ≠ .eps := fun h' => h (Re.bnorm_eq_eps.mp h')
    simp [h, this, Re.bnorm]

@[simp] theorem restrictSequence_bnorm (c : Cfg) (ps : PS) :
    (restrictSequence c ps).1.bnorm = (restrictSequence c ps).1 := by
  unfold restrictSequence
  simp only
  repeat' split
  all_goals simp [Re.bnorm]

/-! ### `sequence` -/

def seqNorm (x : Re × PS × It) : Re × PS × It := (x.1.bnorm, x.2.1, x.2.2)

theorem sequence_wb (c : Cfg) (b : Bool) (ps : PS) (it : It) :
    (sequence (c.withBytes b) ps it).map seqNorm = (sequence c ps it).map seqNorm := by
  unfold sequence
  simp only [Cfg.wb_isBytes, Cfg.wb_pathname, seqLoop_wb, restrictSequence_wb,
    tokAtoms_agree b c.isBytes]
  repeat' split
  all_goals simp [seqNorm, catE_bnorm, Re.bnorm, normItems_full]

end WcModel

import WcModel.Proofs.BridgeReal
import WcModel.Properties.C04cap
/-
  C04 bridge, part 8: the flag words of `C04_main_partial` and what `glob` / `globmatch` compute
  from them.

  `wordF dot gs` = EXTGLOB | SCANDOTDIR (+ DOTGLOB) (+ GLOBSTAR): `glob(…, flags=wordF)` against
  `globmatch(…, flags=wordF | REALPATH)`.  SCANDOTDIR keeps `Glob.__init__` from adding NODOTDIR to
  the flags the segments are compiled with (glob.py 434-435) — the segment theorems of
  `PassPrintPath` are stated without NODOTDIR; `globmatch` ignores the bit.
-/
namespace WcModel.Bridge
open PP PPP

def wordF (dot gs : Bool) : Nat :=
  Gen.FEXTMATCH ||| Gen.globSCANDOTDIR ||| (if dot then Gen.FDOTMATCH else 0) ||| (if gs then Gen.FGLOBSTAR else 0)

/-- `glob`'s side -/
def gInit (dot gs : Bool) : GInit := GInit.ofNat (wordF dot gs) false false false

/-- the flags `_GlobSplit` compiles the parts with -/
def gFlags (dot gs : Bool) : Flags := (SplitCfg.ofFlags (gInit dot gs).flags false).flags

def cfgG (dot gs : Bool) : Cfg := Cfg.ofFlags false (gFlags dot gs)

/-- `globmatch`'s side: `_flag_transform(wordF | REALPATH)`, masked as `_compile` does -/
def wordMT (dot gs : Bool) : Nat := globFlagTransform (wordF dot gs ||| Gen.FREALPATH)

def cfgM (dot gs : Bool) : Cfg := Cfg.ofFlags false (Flags.ofNat (wordMT dot gs &&& Gen.parseFlagMask))

def ctxF (dot gs : Bool) : PCtx :=
  { ci := false, dot := dot, ext := true, globstar := gs, globstarlong := false, matchbase := false }

theorem gFlags_negate (dot gs : Bool) : (gFlags dot gs).negate = false := by cases dot <;> cases gs <;> decide
theorem gInit_flags_negate (dot gs : Bool) : (gInit dot gs).flags.negate = false := by cases dot <;> cases gs <;> decide
theorem gInit_unix (dot gs : Bool) : isUnixStyle (gInit dot gs).flags = true := by cases dot <;> cases gs <;> decide
theorem gFlags_extmatch (dot gs : Bool) : (gFlags dot gs).extmatch = true := by cases dot <;> cases gs <;> decide
theorem gFlags_extmatchbase (dot gs : Bool) : (gFlags dot gs).extmatchbase = false := by
  cases dot <;> cases gs <;> decide
theorem gFlags_matchbase (dot gs : Bool) : (gFlags dot gs).matchbase = false := by cases dot <;> cases gs <;> decide
theorem gFlags_noabsolute (dot gs : Bool) : (gFlags dot gs).noabsolute = false := by cases dot <;> cases gs <;> decide
theorem gFlags_globstar (dot gs : Bool) : (gFlags dot gs).globstar = gs := by cases dot <;> cases gs <;> decide
theorem gFlags_globstarlong (dot gs : Bool) : (gFlags dot gs).globstarlong = false := by
  cases dot <;> cases gs <;> decide

theorem pathX_cfgG (dot gs : Bool) : PathX ((cfgG dot gs).rp false) := by
  cases dot <;> cases gs <;> exact
    { pathname := by decide, unix := by decide, bslash := by decide, wdd := by decide, anchor := by decide,
      matchbase := by decide, extmatchbase := by decide, noAbs := by decide, extend := by decide,
      realpath := by decide, nodotdir := by decide, isBytes := by decide }

theorem cfgG_realpath (dot gs : Bool) : (cfgG dot gs).realpath = true := by cases dot <;> cases gs <;> decide
theorem cfgG_dot (dot gs : Bool) : (cfgG dot gs).dot = dot := by cases dot <;> cases gs <;> decide
theorem cfgG_cs (dot gs : Bool) : (cfgG dot gs).caseSensitive = true := by cases dot <;> cases gs <;> decide
theorem cfgG_capture (dot gs : Bool) : (cfgG dot gs).capture = false := by cases dot <;> cases gs <;> decide
theorem cfgG_gs (dot gs : Bool) : (cfgG dot gs).globstar0 = gs := by cases dot <;> cases gs <;> decide

theorem pathX_cfgM (dot gs : Bool) : PathX ((cfgM dot gs).rp false) := by
  cases dot <;> cases gs <;> exact
    { pathname := by decide, unix := by decide, bslash := by decide, wdd := by decide, anchor := by decide,
      matchbase := by decide, extmatchbase := by decide, noAbs := by decide, extend := by decide,
      realpath := by decide, nodotdir := by decide, isBytes := by decide }

theorem cfgM_realpath (dot gs : Bool) : (cfgM dot gs).realpath = true := by cases dot <;> cases gs <;> decide
theorem cfgM_dot (dot gs : Bool) : (cfgM dot gs).dot = dot := by cases dot <;> cases gs <;> decide
theorem cfgM_cs (dot gs : Bool) : (cfgM dot gs).caseSensitive = true := by cases dot <;> cases gs <;> decide
theorem cfgM_capture (dot gs : Bool) : (cfgM dot gs).capture = false := by cases dot <;> cases gs <;> decide
theorem cfgM_gs (dot gs : Bool) : (cfgM dot gs).globstar0 = gs := by cases dot <;> cases gs <;> decide

theorem wordMT_real (dot gs : Bool) : hasBit (wordMT dot gs) Gen.FREALPATH = true := by
  cases dot <;> cases gs <;> decide
theorem wordMT_follow (dot gs : Bool) : hasBit (wordMT dot gs) Gen.FFOLLOW = false := by
  cases dot <;> cases gs <;> decide
theorem wordMT_nodir (dot gs : Bool) : hasBit (wordMT dot gs) Gen.FNODIR = false := by
  cases dot <;> cases gs <;> decide
theorem wordMT_negate (dot gs : Bool) : (Flags.ofNat (wordMT dot gs)).negate = false := by
  cases dot <;> cases gs <;> decide

theorem isNegative_of_negate (f : Flags) (h : f.negate = false) (p : List Char) : isNegative f p = false := by
  unfold isNegative
  simp [h]

/-- **what `globmatch` compiles for one pattern** under `wordF | REALPATH`: one inclusion regex (the
    faithful port's), no exclusion, REALPATH on, the link rule on (no FOLLOW) -/
theorem compileMatch_single (dot gs : Bool) (p : List Char) (parsed : Parsed) (r : Re)
    (hp : parseItems (cfgM dot gs) (winDrive (cfgM dot gs)) p = .ok parsed) (hr : parsed.toRe = some r) :
    compileMatch (wordF dot gs ||| Gen.FREALPATH) false [p] none =
      .ok { incl := [r], excl := [], real := true, follow := false } := by
  have hone : compileOne (wordMT dot gs) false p = .ok r := by
    unfold compileOne compilePart Driver.parsePattern
    rw [Flags.ofNat_toNat]
    have : parseItems (Cfg.ofFlags false (Flags.ofNat (wordMT dot gs &&& Gen.parseFlagMask)))
        (winDrive (Cfg.ofFlags false (Flags.ofNat (wordMT dot gs &&& Gen.parseFlagMask)))) p = .ok parsed := hp
    simp only [this, hr]
  unfold compileMatch compilePattern
  have hw : globFlagTransform (wordF dot gs ||| Gen.FREALPATH) = wordMT dot gs := rfl
  simp only [hw, Option.isSome_none, Bool.false_eq_true, ite_false, compileSeq, List.not_mem_nil,
    isNegative_of_negate _ (wordMT_negate dot gs), hone, List.nil_append, List.isEmpty_nil, Bool.not_true,
    Bool.false_and, List.isEmpty_cons, Bool.not_false, wordMT_nodir, Bool.and_false, wordMT_real, wordMT_follow]

end WcModel.Bridge

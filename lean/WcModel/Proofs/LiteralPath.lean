import WcModel.Proofs.LiteralLang
import WcModel.Proofs.CompPath
import WcModel.Proofs.ParseWF
/-
  C09 in PATH MODE (glob.escape / globmatch), Unix rules, on the faithful port of `WcParse`.

  Part 1 (this file, first half): what the pass emits for a pattern made of literal units (plain
  characters other than `* ? [ \`, and `\c` for `c` other than `.` and `/`) — in particular for
  `escape(s)`, for EVERY string `s`, and for every non-magic pattern:
  one literal per ordinary character, `[/]+` for a run of separators (`consume_path_sep`
  swallows the rest of the run), `_handle_dot`'s output for a dot (plain `\.`, or the guarded
  dot under NODOTDIR when the dot opens a segment that is not exactly `.` / `..`), the
  `_NO_ROOT` look-ahead under REALPATH for a relative pattern and the final `_PATH_TRAIL`.

  Part 2 (second half): the regex built from those items and its language, first as a
  character-level recursion (`PM`), then cut into pieces (`PathLitEq`).
-/
namespace WcModel

/-- path mode, Unix rules (what `Cfg.ofFlags` gives for PATHNAME on a Unix-style flag word) -/
structure PathUnix (cfg : Cfg) : Prop where
  pathname : cfg.pathname = true
  unix : cfg.unix = true
  bslash : cfg.bslashAbort = false
  wdd : cfg.winDriveDetect = false

/-! ### literal units in path mode -/

/-- the side conditions on a unit (given what follows it) in path mode: an escaped character
    that is not `.` or `/` (`\.` is re-read as a dot, `\/` is a separator — `escape` writes
    neither), or a plain character that is not `* ? [ \` and does not open an extended group -/
def pokTok (cfg : Cfg) (t : LTok) (rest : List LTok) : Prop :=
  (t.esc = true ∧ t.c ≠ '.' ∧ t.c ≠ '/') ∨
    (t.esc = false ∧ t.c ≠ '*' ∧ t.c ≠ '?' ∧ t.c ≠ '[' ∧ t.c ≠ '\\' ∧
      (cfg.extend = true → t.c ∈ extTypes → nextNotParen rest))

def pokToks (cfg : Cfg) : List LTok → Prop
  | [] => True
  | t :: rest => pokTok cfg t rest ∧ pokToks cfg rest

/-- the characters the units stand for -/
def tokChars (ts : List LTok) : List Char := ts.map (·.c)

theorem pokTok_slash_unesc {cfg : Cfg} {t : LTok} {rest : List LTok} (h : pokTok cfg t rest) (hc : t.c = '/') :
    t.esc = false := by
  rcases h with ⟨_, _, h⟩ | ⟨h, _⟩
  · exact absurd hc h
  · exact h

/-- the first character of the text is `/` exactly when the first unit is a `/` -/
theorem printToks_head_slash (cfg : Cfg) (ts : List LTok) (hok : pokToks cfg ts) :
    (printToks ts).head? = some '/' ↔ (tokChars ts).head? = some '/' := by
  cases ts with
  | nil => simp [printToks, tokChars]
  | cons t r =>
    rw [printToks_cons]
    rcases hok.1 with ⟨he, _, hs⟩ | ⟨he, _⟩
    · simp [LTok.print, he, tokChars, hs]
    · simp [LTok.print, he, tokChars]

theorem printToks_isEmpty (ts : List LTok) : (printToks ts).isEmpty = ts.isEmpty := by
  cases ts with
  | nil => rfl
  | cons t r => rw [printToks_cons]; cases he : t.esc <;> simp [LTok.print, he]

theorem pokToks_bs (cfg : Cfg) (ts : List LTok) (hok : pokToks cfg ts) : ∀ t ∈ ts, t.esc = false → t.c ≠ '\\' := by
  induction ts with
  | nil => intro t ht; cases ht
  | cons x r ih =>
    intro t ht he
    rcases List.mem_cons.mp ht with rfl | hm
    · rcases hok.1 with h | h
      · simp [he] at h
      · exact h.2.2.2.2.1
    · exact ih hok.2 t hm he

/-! ### one iteration of the `root` loop on each kind of unit (path mode) -/

/-- an ordinary character that is neither `.` nor `/` -/
theorem rootLoop_pplain (cfg : Cfg) (fuel i : Nat) (c : Char) (rest : List Char) (ps : PS)
    (cur : List Item) (hinv : TopInv ps)
    (h1 : c ≠ '*') (h2 : c ≠ '?') (h3 : c ≠ '[') (h4 : c ≠ '\\') (h5 : c ≠ '.') (h6 : c ≠ '/')
    (hext : cfg.extend = true → c ∈ extTypes → rest.head? ≠ some '(') :
    rootLoop cfg (fuel + 1) ⟨i, c :: rest⟩ ps cur =
      rootLoop cfg fuel ⟨i + 1, rest⟩ ps.updateDirState (.re (.lit c) :: cur) := by
  have hfail : cfg.extend = true → c ∈ extTypes →
      parseExtend cfg (2 * rest.length + 8) c ⟨i + 1, rest⟩ ps cur true = (false, ps, ⟨i + 1, rest⟩, cur) := by
    intro he hm
    have := hext he hm
    apply parseExtend_fail_noparen cfg (2 * rest.length + 7) c ⟨i + 1, rest⟩ ps cur hinv
    intro d it' hn
    cases rest with
    | nil => simp [It.next] at hn
    | cons x xs =>
      simp [It.next] at hn
      simp at this
      rw [← hn.1]; exact this
  conv => lhs; unfold rootLoop
  simp only [It.next]
  by_cases hx : (cfg.extend && decide (c ∈ extTypes)) = true
  · simp only [Bool.and_eq_true, decide_eq_true_eq] at hx
    simp only [hx.1, hx.2, decide_true, Bool.and_self, ite_true, hfail hx.1 hx.2]
    simp [h1, h2, h3, h4, h5, h6]
  · simp only [hx, Bool.false_eq_true, ite_false]
    simp [h1, h2, h3, h4, h5, h6]

theorem dot_not_ext : ('.' ∈ extTypes) = False := by rw [extTypes_eq]; decide
theorem slash_not_ext : ('/' ∈ extTypes) = False := by rw [extTypes_eq]; decide

/-- a dot: `_handle_dot` decides between `\.` and the guarded dot -/
theorem rootLoop_pdot (cfg : Cfg) (fuel i : Nat) (rest : List Char) (ps : PS) (cur : List Item) :
    rootLoop cfg (fuel + 1) ⟨i, '.' :: rest⟩ ps cur =
      rootLoop cfg fuel ⟨i + 1, rest⟩ ps.updateDirState (.re (handleDot cfg ps ⟨i + 1, rest⟩) :: cur) := by
  conv => lhs; unfold rootLoop
  simp [It.next, dot_not_ext]

/-- a separator: `[/]+`, and `consume_path_sep` skips the rest of the run -/
theorem rootLoop_pslash (cfg : Cfg) (h : PathUnix cfg) (fuel i : Nat) (rest : List Char) (ps : PS)
    (cur : List Item) (hinv : TopInv ps) :
    rootLoop cfg (fuel + 1) ⟨i, '/' :: rest⟩ ps cur =
      rootLoop cfg fuel (consumeUnix ⟨i + 1, rest⟩)
        ({ ps.setStartDir with matchbase := false } : PS).updateDirState (.re (Frag.sepPlus false) :: cur) := by
  have hwin : cfg.win = false := by simp [Cfg.win, h.unix]
  have hcl : cleanUpInverse cfg ps.setStartDir cur false = (cur, ps.setStartDir) := by
    simp [cleanUpInverse, PS.setStartDir, hinv.inv0]
  conv => lhs; unfold rootLoop
  simp [It.next, slash_not_ext, h.pathname, hcl, consumePathSep, h.bslash, hwin]

/-- an escaped character other than `.` and `/` -/
theorem rootLoop_pesc (cfg : Cfg) (h : PathUnix cfg) (fuel i : Nat) (c : Char) (rest : List Char) (ps : PS)
    (cur : List Item) (hinv : TopInv ps) (hd : c ≠ '.') (hs : c ≠ '/') :
    rootLoop cfg (fuel + 1) ⟨i, '\\' :: c :: rest⟩ ps cur =
      rootLoop cfg fuel ⟨i + 2, rest⟩ ps.updateDirState (.re (.lit c) :: cur) := by
  conv => lhs; unfold rootLoop
  simp only [It.next, bs_not_ext, decide_false, Bool.and_false, Bool.false_eq_true, ite_false]
  by_cases hb : c = '\\'
  · subst hb
    simp [references, It.next, h.bslash, h.unix, hinv.dirStart]
  · simp [references, It.next, hb, hs, hd, hinv.dirStart]

/-! ### `_handle_dot` on the rest of a literal pattern -/

/-- the segment that the dot opens is exactly `.` or `..` (what follows the dot is nothing, a
    separator, or one more dot and then nothing or a separator) -/
def dotPlain : List Char → Bool
  | [] => true
  | c :: r => c == '/' || (c == '.' && (match r with | [] => true | d :: _ => d == '/'))

/-- the look-ahead scan stops with "neither" at a backslash escape that is not a separator or dot -/
theorem dotScan_esc (cfg : Cfg) (h : PathUnix cfg) (fuel i : Nat) (c : Char) (rest : List Char) (cur prev : Bool)
    (hd : c ≠ '.') (hs : c ≠ '/') :
    dotScan cfg false (fuel + 1) ⟨i, '\\' :: c :: rest⟩ cur prev = (false, false) := by
  unfold dotScan
  have e1 : (('\\' : Char) = '.') = False := by decide
  have e2 : (('\\' : Char) = '|') = False := by decide
  have e3 : (('\\' : Char) = ')') = False := by decide
  simp only [It.next, e1, e2, e3, decide_false, Bool.false_and, Bool.false_eq_true, ite_false, Bool.or_self,
    Bool.and_false, ite_true]
  by_cases hb : c = '\\'
  · subst hb; simp [referencesSeq, It.next, h.bslash, h.unix]
  · simp [referencesSeq, It.next, hb, hs, hd]

theorem dotScan_plainPath (cfg : Cfg) (fuel i : Nat) (c : Char) (rest : List Char) (cur prev : Bool)
    (hd : c ≠ '.') (hs : c ≠ '/') (hb : c ≠ '\\') :
    dotScan cfg false (fuel + 1) ⟨i, c :: rest⟩ cur prev = (false, false) := by
  unfold dotScan
  simp [It.next, hd, hs, hb]

theorem dotScan_slash (cfg : Cfg) (fuel i : Nat) (rest : List Char) (cur prev : Bool) :
    dotScan cfg false (fuel + 1) ⟨i, '/' :: rest⟩ cur prev = (cur, prev) := by
  unfold dotScan
  have e1 : (('/' : Char) = '.') = False := by decide
  have e2 : (('/' : Char) = '\\') = False := by decide
  simp [It.next, e1, e2]

theorem dotScan_nil (cfg : Cfg) (fuel i : Nat) (cur prev : Bool) :
    dotScan cfg false fuel ⟨i, []⟩ cur prev = (cur, prev) := by
  cases fuel <;> simp [dotScan, It.next]

/-- the first unit is not a dot or a separator: the scan says "neither" -/
theorem dotScan_other (cfg : Cfg) (h : PathUnix cfg) (fuel i : Nat) (t : LTok) (r : List LTok) (cur prev : Bool)
    (hok : pokTok cfg t r) (hd : t.c ≠ '.') (hs : t.c ≠ '/') :
    dotScan cfg false (fuel + 1) ⟨i, printToks (t :: r)⟩ cur prev = (false, false) := by
  rw [printToks_cons]
  rcases hok with ⟨he, _⟩ | ⟨he, _, _, _, hb, _⟩
  · simp only [LTok.print, he, ite_true, List.cons_append, List.nil_append]
    exact dotScan_esc cfg h fuel i t.c _ cur prev hd hs
  · simp only [LTok.print, he, Bool.false_eq_true, ite_false, List.cons_append, List.nil_append]
    exact dotScan_plainPath cfg fuel i t.c _ cur prev hd hs hb

theorem printToks_unesc (c : Char) (r : List LTok) : printToks (⟨c, false⟩ :: r) = c :: printToks r := by
  simp [printToks_cons, LTok.print]

theorem tok_eq_unesc {t : LTok} (he : t.esc = false) : t = ⟨t.c, false⟩ := by
  cases t; simp_all

theorem dotScan_toks (cfg : Cfg) (h : PathUnix cfg) (i : Nat) (r : List LTok) (hok : pokToks cfg r) :
    (!(dotScan cfg false ((printToks r).length + 1) ⟨i, printToks r⟩ true false).1 &&
      !(dotScan cfg false ((printToks r).length + 1) ⟨i, printToks r⟩ true false).2) = !dotPlain (tokChars r) := by
  cases r with
  | nil => simp [printToks, dotScan_nil, dotPlain, tokChars]
  | cons t r =>
    by_cases hs : t.c = '/'
    · have he := pokTok_slash_unesc hok.1 hs
      rw [tok_eq_unesc he, hs, printToks_unesc]
      simp [dotScan_slash, dotPlain, tokChars]
    by_cases hd : t.c = '.'
    · have he : t.esc = false := by
        rcases hok.1 with ⟨_, h1, _⟩ | ⟨h1, _⟩
        · exact absurd hd h1
        · exact h1
      rw [tok_eq_unesc he, hd, printToks_unesc]
      have step : ∀ f, dotScan cfg false (f + 1) ⟨i, '.' :: printToks r⟩ true false =
          dotScan cfg false f ⟨i + 1, printToks r⟩ false true := by
        intro f
        conv => lhs; unfold dotScan
        simp [It.next]
      rw [step]
      cases r with
      | nil => simp [printToks, dotScan_nil, dotPlain, tokChars]
      | cons t2 r' =>
        obtain ⟨f, hf⟩ : ∃ f, ('.' :: printToks (t2 :: r')).length = f + 1 :=
          ⟨(printToks (t2 :: r')).length, by simp⟩
        rw [hf]
        by_cases hs2 : t2.c = '/'
        · have he2 := pokTok_slash_unesc hok.2.1 hs2
          rw [tok_eq_unesc he2, hs2, printToks_unesc]
          simp [dotScan_slash, dotPlain, tokChars]
        by_cases hd2 : t2.c = '.'
        · have he2 : t2.esc = false := by
            rcases hok.2.1 with ⟨_, h1, _⟩ | ⟨h1, _⟩
            · exact absurd hd2 h1
            · exact h1
          rw [tok_eq_unesc he2, hd2, printToks_unesc]
          have : dotScan cfg false (f + 1) ⟨i + 1, '.' :: printToks r'⟩ false true = (false, false) := by
            unfold dotScan
            simp [It.next]
          rw [this]
          simp [dotPlain, tokChars]
        · rw [dotScan_other cfg h f (i + 1) t2 r' false true hok.2.1 hd2 hs2]
          simp [dotPlain, tokChars, hs2]
    · rw [dotScan_other cfg h _ i t r true false hok.1 hd hs]
      simp [dotPlain, tokChars, hs, hd]

/-- what `_handle_dot` emits for a dot followed by the units `r`; `after` = the dot opens a segment -/
def dotRe (cfg : Cfg) (after : Bool) (r : List Char) : Re :=
  if after && cfg.nodotdir && !dotPlain r then Frag.guardedDot false else .lit '.'

theorem handleDot_toks (cfg : Cfg) (h : PathUnix cfg) (ps : PS) (hinv : TopInv ps) (i : Nat) (r : List LTok)
    (hok : pokToks cfg r) :
    handleDot cfg ps ⟨i, printToks r⟩ = dotRe cfg ps.afterStart (tokChars r) := by
  have hwin : cfg.win = false := by simp [Cfg.win, h.unix]
  unfold handleDot dotRe
  simp only [h.pathname, Bool.and_true, hinv.inList, hwin]
  by_cases hc : (ps.afterStart && cfg.nodotdir) = true
  · simp only [hc, ite_true, Bool.true_and]
    have := dotScan_toks cfg h i r hok
    generalize dotScan cfg false ((printToks r).length + 1) ⟨i, printToks r⟩ true false = p at this
    obtain ⟨a, b⟩ := p
    simp only at this ⊢
    rw [this]
  · simp [hc]

/-! ### the whole loop -/

/-- where the loop stands: at the very start of the pattern, just after a run of separators,
    or inside a segment -/
inductive LPos | start | sep | mid
  deriving DecidableEq, Repr

/-- `after_start` -/
def LPos.after : LPos → Bool
  | .mid => false
  | _ => true

/-- **the fragments the pass emits for a literal pattern that stands for the string `s`**, in order -/
def pathRes (cfg : Cfg) : LPos → List Char → List Re
  | _, [] => []
  | st, c :: r =>
    if c = '/' then (if st = .sep then pathRes cfg .sep r else Frag.sepPlus false :: pathRes cfg .sep r)
    else if c = '.' then dotRe cfg st.after r :: pathRes cfg .mid r
    else .lit c :: pathRes cfg .mid r

theorem dropWhileCount_ne (r : List Char) (n : Nat) (hr : r.head? ≠ some '/') :
    dropWhileCount '/' r n = (n, r) := by
  cases r with
  | nil => rfl
  | cons x r =>
    have : x ≠ '/' := by simpa using hr
    simp [dropWhileCount, this]

/-- `consume_path_sep` on the rest of a literal pattern: the separators are skipped, they emit
    nothing, and what is left does not begin with one -/
theorem consumeUnix_toks (cfg : Cfg) : ∀ (r : List LTok) (i : Nat), pokToks cfg r →
    ∃ k r', consumeUnix ⟨i, printToks r⟩ = ⟨i + k, printToks r'⟩ ∧ pokToks cfg r' ∧
      (tokChars r').head? ≠ some '/' ∧ pathRes cfg .sep (tokChars r) = pathRes cfg .sep (tokChars r') ∧
      r'.length ≤ r.length ∧ (printToks r').length + k ≤ (printToks r).length := by
  intro r
  induction r with
  | nil =>
    intro i _
    exact ⟨0, [], by simp [consumeUnix, printToks, dropWhileCount], trivial, by simp [tokChars], rfl,
      Nat.le_refl _, Nat.le_refl _⟩
  | cons t r ih =>
    intro i hok
    by_cases hs : t.c = '/'
    · have he := pokTok_slash_unesc hok.1 hs
      obtain ⟨k, r', e1, e2, e3, e4, e5, e6⟩ := ih (i + 1) hok.2
      refine ⟨k + 1, r', ?_, e2, e3, ?_, by simp; omega, ?_⟩
      · rw [tok_eq_unesc he, hs, printToks_unesc]
        simp only [consumeUnix, dropWhileCount, ite_true] at e1 ⊢
        rw [e1]
        simp; omega
      · simp only [tokChars, List.map_cons, hs, pathRes, ite_true] at e4 ⊢
        exact e4
      · rw [tok_eq_unesc he, printToks_unesc]; simp; omega
    · have hh : (printToks (t :: r)).head? ≠ some '/' := by
        intro e
        have := (printToks_head_slash cfg (t :: r) hok).mp e
        simp [tokChars] at this
        exact hs this
      refine ⟨0, t :: r, ?_, hok, by simpa [tokChars] using hs, rfl, Nat.le_refl _, Nat.le_refl _⟩
      simp [consumeUnix, dropWhileCount_ne _ i hh]

theorem TopInv.afterNonSep {ps : PS} (h : TopInv ps) :
    TopInv ps.updateDirState ∧ ps.updateDirState.afterStart = false := by
  refine ⟨h.update, ?_⟩
  unfold PS.updateDirState
  simp only [h.dirStart, Bool.false_and, Bool.false_eq_true, ite_false, Bool.not_false, Bool.true_and]
  split
  · rfl
  · rename_i hn; simpa using hn

theorem TopInv.afterSep {ps : PS} (h : TopInv ps) :
    TopInv ({ ps.setStartDir with matchbase := false } : PS).updateDirState ∧
      ({ ps.setStartDir with matchbase := false } : PS).updateDirState.afterStart = true := by
  have e : ({ ps.setStartDir with matchbase := false } : PS).updateDirState =
      { ps with afterStart := true, dirStart := false, matchbase := false } := by
    simp [PS.updateDirState, PS.setStartDir, PS.setAfterStart]
  rw [e]
  exact ⟨⟨rfl, h.inList, h.invNest, h.mdd, h.inv0, rfl, h.emb⟩, rfl⟩

/-- **the loop of `root` on a literal pattern**, any run of units, any flags of path mode / Unix rules -/
theorem rootLoop_plits (cfg : Cfg) (h : PathUnix cfg) : ∀ (n : Nat) (ts : List LTok), ts.length ≤ n →
    ∀ (fuel i : Nat) (ps : PS) (cur : List Item) (st : LPos), pokToks cfg ts → TopInv ps →
      ps.afterStart = st.after → (st = .sep → (tokChars ts).head? ≠ some '/') →
      (printToks ts).length + 1 ≤ fuel →
      ∃ ps', rootLoop cfg fuel ⟨i, printToks ts⟩ ps cur =
          (ps', ((pathRes cfg st (tokChars ts)).map Item.re).reverse ++ cur) ∧ TopInv ps' := by
  intro n
  induction n with
  | zero =>
    intro ts hs fuel i ps cur st _ hinv _ _ hf
    have : ts = [] := List.eq_nil_of_length_eq_zero (Nat.le_zero.mp hs)
    subst this
    cases fuel with
    | zero => simp at hf
    | succ f => exact ⟨ps, by simp [printToks, rootLoop, It.next, pathRes, tokChars], hinv⟩
  | succ n ih =>
    intro ts hs fuel i ps cur st hok hinv haft hsep hf
    cases ts with
    | nil =>
      cases fuel with
      | zero => simp at hf
      | succ f => exact ⟨ps, by simp [printToks, rootLoop, It.next, pathRes, tokChars], hinv⟩
    | cons t r =>
      have hr : r.length ≤ n := by simpa using hs
      obtain ⟨hk, hrest⟩ := hok
      by_cases hsl : t.c = '/'
      · -- a separator: the rest of the run is skipped
        have he := pokTok_slash_unesc hk hsl
        have hst : st ≠ .sep := fun e => hsep e (by simp [tokChars, hsl])
        rw [tok_eq_unesc he, hsl, printToks_unesc] at hf ⊢
        obtain ⟨f, rfl⟩ : ∃ f, fuel = f + 1 := ⟨fuel - 1, by simp at hf; omega⟩
        rw [rootLoop_pslash cfg h f i _ ps cur hinv]
        obtain ⟨k, r', c1, c2, c3, c4, c5, c6⟩ := consumeUnix_toks cfg r (i + 1) hrest
        rw [c1]
        obtain ⟨i1, i2⟩ := hinv.afterSep
        obtain ⟨ps', e1, e2⟩ := ih r' (Nat.le_trans c5 hr) f (i + 1 + k) _ (.re (Frag.sepPlus false) :: cur) .sep c2 i1
          (by rw [i2]; rfl) (fun _ => c3) (by simp at hf; omega)
        refine ⟨ps', ?_, e2⟩
        rw [e1]
        simp [pathRes, hst, tokChars] at c4 ⊢
        rw [c4]
      · obtain ⟨i1, i2⟩ := hinv.afterNonSep
        rw [printToks_cons] at hf ⊢
        by_cases hd : t.c = '.'
        · -- a dot
          have he : t.esc = false := by
            rcases hk with ⟨_, h1, _⟩ | ⟨h1, _⟩
            · exact absurd hd h1
            · exact h1
          simp only [LTok.print, he, Bool.false_eq_true, ite_false, List.cons_append, List.nil_append, hd,
            List.length_cons] at hf ⊢
          obtain ⟨f, rfl⟩ : ∃ f, fuel = f + 1 := ⟨fuel - 1, by omega⟩
          rw [rootLoop_pdot, handleDot_toks cfg h ps hinv _ r hrest, haft]
          obtain ⟨ps', e1, e2⟩ := ih r hr f (i + 1) _ (.re (dotRe cfg st.after (tokChars r)) :: cur) .mid hrest i1
            (by rw [i2]; rfl) (fun e => by cases e) (by omega)
          refine ⟨ps', ?_, e2⟩
          rw [e1]
          simp [pathRes, tokChars, hd]
        · rcases hk with ⟨he, _, _⟩ | ⟨he, h1, h2, h3, h4, hext⟩
          · -- `\c`
            simp only [LTok.print, he, ite_true, List.cons_append, List.nil_append, List.length_cons] at hf ⊢
            obtain ⟨f, rfl⟩ : ∃ f, fuel = f + 1 := ⟨fuel - 1, by omega⟩
            rw [rootLoop_pesc cfg h f i t.c _ ps cur hinv hd hsl]
            obtain ⟨ps', e1, e2⟩ := ih r hr f (i + 2) _ (.re (.lit t.c) :: cur) .mid hrest i1
              (by rw [i2]; rfl) (fun e => by cases e) (by omega)
            refine ⟨ps', ?_, e2⟩
            rw [e1]
            simp [pathRes, tokChars, hsl, hd]
          · -- an ordinary character
            simp only [LTok.print, he, Bool.false_eq_true, ite_false, List.cons_append, List.nil_append,
              List.length_cons] at hf ⊢
            obtain ⟨f, rfl⟩ : ∃ f, fuel = f + 1 := ⟨fuel - 1, by omega⟩
            rw [rootLoop_pplain cfg f i t.c _ ps cur hinv h1 h2 h3 h4 hd hsl
              (fun e m => head_printToks_ne_paren r (hext e m))]
            obtain ⟨ps', e1, e2⟩ := ih r hr f (i + 1) _ (.re (.lit t.c) :: cur) .mid hrest i1
              (by rw [i2]; rfl) (fun e => by cases e) (by omega)
            refine ⟨ps', ?_, e2⟩
            rw [e1]
            simp [pathRes, tokChars, hsl, hd]

/-! ### `root` and `_parse` -/

/-- glob entry conditions on the configuration: path mode, Unix rules, no MATCHBASE, the pattern
    may be absolute -/
structure PathEntry (cfg : Cfg) : Prop extends PathUnix cfg where
  anchor : cfg.anchor = false
  matchbase : cfg.matchbase0 = false
  extmatchbase : cfg.extmatchbase0 = false
  noAbs : cfg.noAbs = false

/-- what stands before the first unit: nothing (`''`), or under REALPATH, for a pattern that does
    not begin with a separator, `_NO_ROOT` -/
def pathPrefix (cfg : Cfg) (s : List Char) : List Item :=
  if s.head? ≠ some '/' ∧ cfg.realpath = true then [.empty, .re Frag.noRoot, .empty] else [.empty]

theorem root_plits (cfg : Cfg) (h : PathUnix cfg) (hna : cfg.noAbs = false) (drive : List Char → DriveInfo)
    (ts : List LTok) (hok : pokToks cfg ts) (ps : PS) (hinv : TopInv ps) :
    ∃ ps', root cfg drive (printToks ts) ps [.empty] =
      .ok (ps', .re (Frag.pathTrail false) :: (((pathRes cfg .start (tokChars ts)).map Item.re).reverse ++
        (pathPrefix cfg (tokChars ts)).reverse)) ∧ TopInv ps' := by
  have hwin : cfg.win = false := by simp [Cfg.win, h.unix]
  have hhd : (decide ((printToks ts).head? = some '/')) = decide ((tokChars ts).head? = some '/') := by
    rw [decide_eq_decide]; exact printToks_head_slash cfg ts hok
  rw [root_eq]
  unfold rootPre rootPost
  simp only [h.wdd, Bool.false_eq_true, ite_false, h.pathname, Bool.true_and, hhd, hna, Bool.false_and]
  by_cases hs : (tokChars ts).head? = some '/'
  · simp only [hs, decide_true, ite_true, Bool.not_true, Bool.false_and, Bool.false_eq_true, ite_false]
    have hinv' : TopInv ({ ps.setAfterStart with matchbase := false, extmatchbase := false } : PS) :=
      ⟨rfl, hinv.inList, hinv.invNest, hinv.mdd, hinv.inv0, rfl, rfl⟩
    obtain ⟨ps', e1, e2⟩ := rootLoop_plits cfg h ts.length ts (Nat.le_refl _) ((printToks ts).length + 1) 0 _
      [.empty] .start hok hinv' rfl (fun e => by cases e) (Nat.le_refl _)
    refine ⟨ps', ?_, e2⟩
    simp only [e1, cleanUpInverse, e2.inv0, ite_true, hwin]
    simp [pathPrefix, hs]
  · have hinv' : TopInv ps.setAfterStart :=
      ⟨rfl, hinv.inList, hinv.invNest, hinv.mdd, hinv.inv0, hinv.mb, hinv.emb⟩
    simp only [hs, decide_false, Bool.false_eq_true, ite_false, Bool.not_false, Bool.true_and]
    by_cases hr : cfg.realpath = true
    · simp only [hr, ite_true]
      obtain ⟨ps', e1, e2⟩ := rootLoop_plits cfg h ts.length ts (Nat.le_refl _) ((printToks ts).length + 1) 0
        ps.setAfterStart [.empty, .re Frag.noRoot, .empty] .start hok hinv' rfl (fun e => by cases e) (Nat.le_refl _)
      refine ⟨ps', ?_, e2⟩
      simp only [e1, cleanUpInverse, e2.inv0, ite_true, hwin]
      simp [pathPrefix, hs, hr]
    · simp only [hr, Bool.false_eq_true, ite_false]
      obtain ⟨ps', e1, e2⟩ := rootLoop_plits cfg h ts.length ts (Nat.le_refl _) ((printToks ts).length + 1) 0
        ps.setAfterStart [.empty] .start hok hinv' rfl (fun e => by cases e) (Nat.le_refl _)
      refine ⟨ps', ?_, e2⟩
      simp only [e1, cleanUpInverse, e2.inv0, ite_true, hwin]
      simp [pathPrefix, hr]

/-- the items of a whole literal pattern that stands for `s` (forward order) -/
def pathItems (cfg : Cfg) (s : List Char) : List Item :=
  if s = [] then [.empty]
  else pathPrefix cfg s ++ (pathRes cfg .start s).map Item.re ++ [.re (Frag.pathTrail false)]

/-- **(a) the whole pass on a literal pattern** — every run of literal units, every flag record of
    path mode with Unix rules and without MATCHBASE -/
theorem parseItems_plits (cfg : Cfg) (h : PathEntry cfg) (drive : List Char → DriveInfo) (ts : List LTok)
    (hok : pokToks cfg ts) :
    parseItems cfg drive (printToks ts) =
      .ok { items := pathItems cfg (tokChars ts), ci := !cfg.caseSensitive } := by
  unfold parseItems
  simp only [anchorStep, h.anchor, Bool.false_eq_true, ite_false]
  simp only [parsePrepend, h.matchbase, h.extmatchbase, Bool.or_self, Bool.false_eq_true, ite_false]
  unfold parseBody
  simp only [printToks_ne_bs ts (pokToks_bs cfg ts hok), ite_false, printToks_isEmpty]
  cases ts with
  | nil => simp [pathItems, tokChars]
  | cons t r =>
    obtain ⟨ps', hr, hi⟩ := root_plits cfg h.toPathUnix h.noAbs drive (t :: r) hok
      { matchbase := false, extmatchbase := false, globstar := cfg.globstar0 } ⟨rfl, rfl, rfl, rfl, rfl, rfl, rfl⟩
    simp only [List.isEmpty_cons, Bool.false_eq_true, ite_false, hr]
    simp [hi.mb, hi.emb, pathItems, tokChars]

/-! ## Part 2 — from the item list to the regex and its language -/

def optItem : Option Re → Item
  | some r => .re r
  | none => .empty

/-- concatenation of a list of fragments, as `Item.seqToRe` builds it -/
def seqRe : List Re → Re
  | [] => .eps
  | r :: rs => catE' r (seqRe rs)

theorem splitBars_opts (os : List (Option Re)) : splitBars (os.map optItem) = [os.map optItem] := by
  induction os with
  | nil => rfl
  | cons o os ih => cases o <;> simp [splitBars, optItem, ih]

theorem sizeL_opts (os : List (Option Re)) : Item.sizeL (os.map optItem) = os.length + 1 := by
  induction os with
  | nil => rfl
  | cons o os ih => cases o <;> (simp [Item.sizeL, Item.size, optItem] at ih ⊢; omega)

theorem seqToRe_opts (os : List (Option Re)) : ∀ fuel, os.length + 1 ≤ fuel →
    Item.seqToRe fuel (os.map optItem) = some (seqRe (os.filterMap id)) := by
  induction os with
  | nil => intro fuel hf; cases fuel with
    | zero => simp at hf
    | succ f => simp [Item.seqToRe, seqRe]
  | cons o os ih =>
    intro fuel hf
    cases fuel with
    | zero => simp at hf
    | succ f =>
      have := ih f (by simp at hf; omega)
      cases o with
      | none => simp [Item.seqToRe, optItem, this]
      | some r => simp [Item.seqToRe, optItem, this, seqRe]

theorem toRe_opts (os : List (Option Re)) (ci : Bool) :
    (Parsed.toRe { items := os.map optItem, ci := ci }) =
      some (.cat .bos (.cat (.flags true ci (seqRe (os.filterMap id))) .eos)) := by
  unfold Parsed.toRe
  simp only [sizeL_opts]
  have : 2 * (os.length + 1) + 4 = (2 * os.length + 5) + 1 := by omega
  rw [this]
  simp only [Item.listToRe, splitBars_opts, List.mapM_cons, List.mapM_nil]
  rw [seqToRe_opts os (2 * os.length + 5) (by omega)]
  rfl

/-- the fragments of the whole pattern -/
def pathReList (cfg : Cfg) (s : List Char) : List Re :=
  if s = [] then []
  else (if s.head? ≠ some '/' ∧ cfg.realpath = true then [Frag.noRoot] else []) ++ pathRes cfg .start s ++
    [Frag.pathTrail false]

/-- the regex of `escape(s)` -/
def pathLitRe (cfg : Cfg) (s : List Char) : Re :=
  .cat .bos (.cat (.flags true (!cfg.caseSensitive) (seqRe (pathReList cfg s))) .eos)

theorem toRe_pathItems (cfg : Cfg) (s : List Char) (ci : Bool) :
    (Parsed.toRe { items := pathItems cfg s, ci := ci }) =
      some (.cat .bos (.cat (.flags true ci (seqRe (pathReList cfg s))) .eos)) := by
  by_cases hs : s = []
  · subst hs
    exact toRe_opts [none] ci
  · have e : pathItems cfg s = (((if s.head? ≠ some '/' ∧ cfg.realpath = true then [none, some Frag.noRoot, none]
        else [none]) ++ (pathRes cfg .start s).map some ++ [some (Frag.pathTrail false)]).map optItem) := by
      simp only [pathItems, hs, ite_false, pathPrefix]
      split <;> simp [optItem, Function.comp_def]
    rw [e, toRe_opts]
    congr 6
    simp only [pathReList, hs, ite_false]
    split <;> simp [List.filterMap_append]

/-! ### the language of a run of fragments -/

def MSeq (md : Mode) : List Re → St → St → Prop
  | [], a, b => b = a
  | r :: rs, a, b => ∃ m, Re.M md r a m ∧ MSeq md rs m b

theorem M_seqRe (md : Mode) (rs : List Re) (hne : ∀ r ∈ rs, r ≠ .eps) :
    ∀ a b, Re.M md (seqRe rs) a b ↔ MSeq md rs a b := by
  induction rs with
  | nil => intro a b; simp [seqRe, Re.M, MSeq]
  | cons r rs ih =>
    intro a b
    simp only [seqRe, MSeq]
    rw [M_catE' md _ _ (hne r (by simp))]
    have ih' := ih (fun x hx => hne x (by simp [hx]))
    constructor
    · rintro ⟨m, h1, h2⟩; exact ⟨m, h1, (ih' m b).mp h2⟩
    · rintro ⟨m, h1, h2⟩; exact ⟨m, h1, (ih' m b).mpr h2⟩

theorem MSeq_single (md : Mode) (r : Re) (a b : St) : MSeq md [r] a b ↔ Re.M md r a b := by
  simp only [MSeq]
  constructor
  · rintro ⟨m, h, rfl⟩; exact h
  · intro h; exact ⟨b, h, rfl⟩

theorem MSeq_append (md : Mode) (xs ys : List Re) : ∀ a b,
    MSeq md (xs ++ ys) a b ↔ ∃ m, MSeq md xs a m ∧ MSeq md ys m b := by
  induction xs with
  | nil => intro a b; simp [MSeq]
  | cons x xs ih =>
    intro a b
    simp only [List.cons_append, MSeq]
    constructor
    · rintro ⟨m, h1, h2⟩
      obtain ⟨m', h3, h4⟩ := (ih m b).mp h2
      exact ⟨m', ⟨m, h1, h3⟩, h4⟩
    · rintro ⟨m', ⟨m, h1, h3⟩, h4⟩
      exact ⟨m, h1, (ih m b).mpr ⟨m', h3, h4⟩⟩

theorem dotRe_ne_eps (cfg : Cfg) (a : Bool) (r : List Char) : dotRe cfg a r ≠ .eps := by
  unfold dotRe; split <;> simp [Frag.guardedDot]

theorem pathRes_ne_eps (cfg : Cfg) : ∀ (s : List Char) (st : LPos), ∀ r ∈ pathRes cfg st s, r ≠ .eps := by
  intro s
  induction s with
  | nil => intro st r hr; simp [pathRes] at hr
  | cons c s ih =>
    intro st r hr
    simp only [pathRes] at hr
    split at hr
    · split at hr
      · exact ih _ r hr
      · rcases List.mem_cons.mp hr with rfl | hr
        · simp [Frag.sepPlus]
        · exact ih _ r hr
    · split at hr
      · rcases List.mem_cons.mp hr with rfl | hr
        · exact dotRe_ne_eps _ _ _
        · exact ih _ r hr
      · rcases List.mem_cons.mp hr with rfl | hr
        · simp
        · exact ih _ r hr

theorem pathReList_ne_eps (cfg : Cfg) (s : List Char) : ∀ r ∈ pathReList cfg s, r ≠ .eps := by
  intro r hr
  unfold pathReList at hr
  split at hr
  · simp at hr
  · simp only [List.mem_append, List.mem_singleton] at hr
    rcases hr with (hr | hr) | rfl
    · split at hr
      · simp only [List.mem_singleton] at hr; subst hr; simp [Frag.noRoot]
      · simp at hr
    · exact pathRes_ne_eps cfg s _ r hr
    · simp [Frag.pathTrail]

/-! ### the fragments, semantically -/

theorem charEq_nonLetter_right {x : Char} (hx : nonLetter x) (ci : Bool) (c : Char)
    (h : charEq ci c x = true) : c = x := by
  unfold charEq at h
  cases ci with
  | false => simpa using h
  | true =>
    simp only [ite_true, beq_iff_eq] at h
    have hx' : asciiLower x = x := (asciiLower_eq_nonLetter hx x).mpr rfl
    rw [hx'] at h
    exact (asciiLower_eq_nonLetter hx c).mp h

theorem charEq_nonLetter_left {x : Char} (hx : nonLetter x) (ci : Bool) (d : Char)
    (h : charEq ci x d = true) : d = x := by
  unfold charEq at h
  cases ci with
  | false => simp at h; exact h.symm
  | true =>
    simp only [ite_true, beq_iff_eq] at h
    have hx' : asciiLower x = x := (asciiLower_eq_nonLetter hx x).mpr rfl
    rw [hx'] at h
    exact (asciiLower_eq_nonLetter hx d).mp h.symm

theorem charEq_refl (ci : Bool) (c : Char) : charEq ci c c = true := by
  unfold charEq; split <;> simp

theorem nonLetter_newline : nonLetter '\n' := by unfold nonLetter; decide

/-- where `(?:$|[/])` can match: at the end, before a final newline, or at a separator -/
def eopAt (x : List Char) : Bool := x == [] || x == ['\n'] || x.head? == some '/'

theorem M_pathEop_ex (md : Mode) (m : St) :
    (∃ c, Re.M md (Frag.pathEop false) m c) ↔ eopAt m.rest = true := by
  unfold Frag.pathEop
  simp only [Re.M.eq_7, Re.M.eq_6, Re.M.eq_17]
  constructor
  · rintro ⟨c, (⟨rfl, h⟩ | h)⟩
    · simp only [atEos, Bool.or_eq_true] at h
      simp only [eopAt, Bool.or_eq_true]
      exact Or.inl h
    · obtain ⟨d, s, e, hd, _⟩ := (M_sep md m c).mp h
      simp only [beq_iff_eq] at hd
      simp [eopAt, e, hd]
  · intro h
    simp only [eopAt, Bool.or_eq_true] at h
    rcases h with h | h
    · exact ⟨m, Or.inl ⟨rfl, by simpa [atEos] using h⟩⟩
    · cases hr : m.rest with
      | nil => simp [hr] at h
      | cons d s =>
        rw [hr] at h
        simp only [List.head?_cons, beq_iff_eq, Option.some.injEq] at h
        exact ⟨⟨false, s⟩, Or.inr ((M_sep md m _).mpr ⟨d, s, hr, by simp [h], rfl⟩)⟩

/-- the text ahead is `.` or `..` followed by the end, a final newline, or a separator: exactly
    where the look-ahead of the guarded dot, `\.[.]?(?:$|[/])`, matches -/
def dotDirAhead : List Char → Bool
  | [] => false
  | c :: x => c == '.' && (eopAt x || (match x with | [] => false | d :: y => d == '.' && eopAt y))

theorem guard_iff (md : Mode) (a : St) :
    (∃ c, Re.M md (.cat (.cat (.lit '.') (.opt (.cls false [.chr '.' false]))) (Frag.pathEop false)) a c) ↔
      dotDirAhead a.rest = true := by
  simp only [Re.M.eq_5, Re.M.eq_10]
  constructor
  · rintro ⟨c, m1, ⟨m0, h0, hopt⟩, heop⟩
    obtain ⟨d, x, e, hd, rfl⟩ := (M_lit_dot md a m0).mp h0
    simp only [beq_iff_eq] at hd
    subst hd
    have he := (M_pathEop_ex md m1).mp ⟨c, heop⟩
    rw [e]
    rcases hopt with rfl | hcls
    · simp only at he
      simp [dotDirAhead, he]
    · simp only [Re.M.eq_4] at hcls
      obtain ⟨d2, y, e2, hd2, rfl⟩ := hcls
      have := (clsDot_iff md.ci d2).mp hd2
      subst this
      simp only at e2 he
      simp [dotDirAhead, e2, he]
  · intro h
    cases hr : a.rest with
    | nil => simp [hr, dotDirAhead] at h
    | cons c x =>
      rw [hr] at h
      simp only [dotDirAhead, Bool.and_eq_true, beq_iff_eq, Bool.or_eq_true] at h
      obtain ⟨rfl, h⟩ := h
      have h0 : Re.M md (.lit '.') a ⟨false, x⟩ := (M_lit_dot md a _).mpr ⟨'.', x, hr, rfl, rfl⟩
      rcases h with h | h
      · obtain ⟨c, hc⟩ := (M_pathEop_ex md ⟨false, x⟩).mpr h
        exact ⟨c, ⟨false, x⟩, ⟨⟨false, x⟩, h0, Or.inl rfl⟩, hc⟩
      · cases x with
        | nil => simp at h
        | cons d y =>
          simp only [Bool.and_eq_true, beq_iff_eq] at h
          obtain ⟨rfl, h⟩ := h
          obtain ⟨c, hc⟩ := (M_pathEop_ex md ⟨false, y⟩).mpr h
          refine ⟨c, ⟨false, y⟩, ⟨⟨false, '.' :: y⟩, h0, Or.inr ?_⟩, hc⟩
          simp only [Re.M.eq_4]
          exact ⟨'.', y, rfl, (clsDot_iff md.ci '.').mpr rfl, rfl⟩

/-- the side condition the guarded dot puts on the text at the dot -/
def dotOK (cfg : Cfg) (after : Bool) (r t : List Char) : Prop :=
  (after && cfg.nodotdir && !dotPlain r) = true → dotDirAhead t = false

theorem M_dotRe (cfg : Cfg) (md : Mode) (after : Bool) (r : List Char) (a m : St) :
    Re.M md (dotRe cfg after r) a m ↔ consume1 (charEq md.ci '.') a m ∧ dotOK cfg after r a.rest := by
  unfold dotRe dotOK
  split
  · rename_i hc
    simp only [hc, forall_const, Frag.guardedDot, Re.M.eq_5, Re.M.eq_15]
    constructor
    · rintro ⟨c, ⟨rfl, hno⟩, hl⟩
      refine ⟨by simpa [Re.M] using hl, ?_⟩
      cases hg : dotDirAhead c.rest with
      | false => rfl
      | true => exact absurd ((guard_iff md c).mpr hg) hno
    · rintro ⟨hl, hg⟩
      refine ⟨a, ⟨rfl, fun hex => ?_⟩, by simpa [Re.M] using hl⟩
      rw [(guard_iff md a).mp hex] at hg
      cases hg
  · rename_i hc
    simp [hc, Re.M]

/-! ### the language, character by character -/

/-- `PM cfg ci st s t` : the text `t` is matched to its end by the fragments of `s` from position
    `st` followed by `_PATH_TRAIL` -/
def PM (cfg : Cfg) (ci : Bool) : LPos → List Char → List Char → Prop
  | _, [], t => allSl t = true
  | st, c :: r, t =>
    if c = '/' then
      (if st = .sep then PM cfg ci .sep r t
       else ∃ pre t', pre ≠ [] ∧ allSl pre = true ∧ t = pre ++ t' ∧ PM cfg ci .sep r t')
    else ∃ d t', t = d :: t' ∧ charEq ci c d = true ∧ (c = '.' → dotOK cfg st.after r t) ∧ PM cfg ci .mid r t'

theorem MSeq_consume_step (md : Mode) (x : Re) (rs : List Re) (c : Char) (P Q : List Char → Prop)
    (hx : ∀ a m, Re.M md x a m ↔ consume1 (charEq md.ci c) a m ∧ P a.rest)
    (hQ : ∀ m : St, (∃ y : St, y.rest = [] ∧ MSeq md rs m y) ↔ Q m.rest) (a : St) :
    (∃ y : St, y.rest = [] ∧ MSeq md (x :: rs) a y) ↔
      ∃ d t', a.rest = d :: t' ∧ charEq md.ci c d = true ∧ P a.rest ∧ Q t' := by
  simp only [MSeq]
  constructor
  · rintro ⟨y, hy, m, hm, hrest⟩
    obtain ⟨⟨d, t', e, hd, rfl⟩, hp⟩ := (hx a m).mp hm
    exact ⟨d, t', e, hd, hp, (hQ _).mp ⟨y, hy, hrest⟩⟩
  · rintro ⟨d, t', e, hd, hp, hq⟩
    obtain ⟨y, hy, hrest⟩ := (hQ ⟨false, t'⟩).mpr hq
    exact ⟨y, hy, ⟨false, t'⟩, (hx a _).mpr ⟨⟨d, t', e, hd, rfl⟩, hp⟩, hrest⟩

theorem MSeq_pathRes_iff (cfg : Cfg) (md : Mode) : ∀ (s : List Char) (st : LPos) (a : St),
    (∃ y : St, y.rest = [] ∧ MSeq md (pathRes cfg st s ++ [Frag.pathTrail false]) a y) ↔
      PM cfg md.ci st s a.rest := by
  intro s
  induction s with
  | nil =>
    intro st a
    simp only [pathRes, List.nil_append, PM]
    rw [← M_pathTrail_end md a]
    constructor
    · rintro ⟨y, hy, hm⟩; exact ⟨y, hy, (MSeq_single md _ a y).mp hm⟩
    · rintro ⟨y, hy, hm⟩; exact ⟨y, hy, (MSeq_single md _ a y).mpr hm⟩
  | cons c r ih =>
    intro st a
    by_cases hsl : c = '/'
    · subst hsl
      by_cases hst : st = .sep
      · subst hst
        simp only [pathRes, PM, ite_true]
        exact ih .sep a
      · simp only [pathRes, PM, ite_true, hst, ite_false, List.cons_append, MSeq]
        constructor
        · rintro ⟨y, hy, m, hm, hrest⟩
          obtain ⟨_, pre, hne, hall, e⟩ := (M_sepPlus_iff md a m).mp hm
          exact ⟨pre, m.rest, hne, hall, e, (ih .sep m).mp ⟨y, hy, hrest⟩⟩
        · rintro ⟨pre, t', hne, hall, e, hpm⟩
          obtain ⟨y, hy, hrest⟩ := (ih .sep ⟨false, t'⟩).mpr hpm
          exact ⟨y, hy, ⟨false, t'⟩, (M_sepPlus_iff md a _).mpr ⟨rfl, pre, hne, hall, e⟩, hrest⟩
    · by_cases hd : c = '.'
      · subst hd
        simp only [pathRes, hsl, ite_false, ite_true, List.cons_append, PM, forall_const]
        rw [MSeq_consume_step md _ _ '.' (dotOK cfg st.after r) (PM cfg md.ci .mid r)
          (fun a m => M_dotRe cfg md st.after r a m) (fun m => ih .mid m) a]
      · simp only [pathRes, hsl, hd, ite_false, List.cons_append, PM, false_implies, true_and]
        rw [MSeq_consume_step md _ _ c (fun _ => True) (PM cfg md.ci .mid r)
          (fun a m => by simp [Re.M]) (fun m => ih .mid m) a]
        constructor
        · rintro ⟨d, t', e, h1, _, h3⟩; exact ⟨d, t', e, h1, h3⟩
        · rintro ⟨d, t', e, h1, h3⟩; exact ⟨d, t', e, h1, trivial, h3⟩

theorem PM_head (cfg : Cfg) (ci : Bool) (st : LPos) (s t : List Char) (hs : s ≠ []) (hh : s.head? ≠ some '/')
    (h : PM cfg ci st s t) : t.head? ≠ some '/' := by
  cases s with
  | nil => exact absurd rfl hs
  | cons c r =>
    have hc : c ≠ '/' := by simpa using hh
    simp only [PM, hc, ite_false] at h
    obtain ⟨d, t', rfl, hd, _, _⟩ := h
    simp only [List.head?_cons, ne_eq, Option.some.injEq]
    intro e; subst e
    exact hc (charEq_nonLetter_right nonLetter_slash ci c hd)

theorem M_noRoot (md : Mode) (a m : St) : Re.M md Frag.noRoot a m ↔ m = a ∧ a.rest.head? ≠ some '/' := by
  unfold Frag.noRoot
  simp only [Re.M.eq_15, Re.M.eq_2]
  constructor
  · rintro ⟨rfl, hno⟩
    refine ⟨rfl, fun hh => hno ?_⟩
    cases hr : m.rest with
    | nil => simp [hr] at hh
    | cons d x =>
      rw [hr] at hh
      simp only [List.head?_cons, Option.some.injEq] at hh
      subst hh
      exact ⟨⟨false, x⟩, '/', x, hr, charEq_refl _ _, rfl⟩
  · rintro ⟨rfl, hh⟩
    refine ⟨rfl, ?_⟩
    rintro ⟨c, d, x, e, hd, _⟩
    have := charEq_nonLetter_left nonLetter_slash md.ci d hd
    subst this
    simp [e] at hh

/-- **the language of `escape(s)`, character level** -/
theorem pathLitRe_fullMatch (cfg : Cfg) (s name : List Char) :
    (pathLitRe cfg s).FullMatch name ↔
      (if s = [] then name = [] else PM cfg (!cfg.caseSensitive) .start s name) := by
  have key : (pathLitRe cfg s).FullMatch name ↔
      ∃ b, MSeq ⟨true, !cfg.caseSensitive⟩ (pathReList cfg s) ⟨true, name⟩ ⟨b, []⟩ := by
    unfold Re.FullMatch pathLitRe
    simp only [Re.M]
    constructor
    · rintro ⟨b, c, ⟨rfl, _⟩, c', hm, rfl, _⟩
      exact ⟨b, (M_seqRe _ _ (pathReList_ne_eps cfg s) _ _).mp hm⟩
    · rintro ⟨b, hm⟩
      exact ⟨b, _, ⟨rfl, trivial⟩, _, (M_seqRe ⟨true, !cfg.caseSensitive⟩ _ (pathReList_ne_eps cfg s) _ _).mpr hm,
        rfl, by simp [atEos]⟩
  rw [key]
  by_cases hs : s = []
  · subst hs
    simp only [pathReList, ite_true, MSeq]
    constructor
    · rintro ⟨b, hb⟩; injection hb with _ h2; exact h2.symm
    · rintro rfl; exact ⟨true, rfl⟩
  · simp only [hs, ite_false, pathReList]
    have main := MSeq_pathRes_iff cfg ⟨true, !cfg.caseSensitive⟩ s .start ⟨true, name⟩
    simp only at main
    rw [← main]
    split
    · rename_i hc
      simp only [List.append_assoc, List.cons_append, MSeq]
      constructor
      · rintro ⟨b, m, hm, hrest⟩
        obtain ⟨rfl, _⟩ := (M_noRoot _ _ _).mp hm
        exact ⟨⟨b, []⟩, rfl, hrest⟩
      · rintro ⟨y, hy, hrest⟩
        obtain ⟨yb, yr⟩ := y
        simp only at hy; subst hy
        refine ⟨yb, ⟨true, name⟩, (M_noRoot _ _ _).mpr ⟨rfl, ?_⟩, hrest⟩
        exact PM_head cfg _ .start s name hs hc.1 (main.mp ⟨_, rfl, hrest⟩)
    · simp only [List.nil_append]
      constructor
      · rintro ⟨b, h⟩; exact ⟨⟨b, []⟩, rfl, h⟩
      · rintro ⟨y, hy, h⟩
        obtain ⟨yb, yr⟩ := y
        simp only at hy; subst hy
        exact ⟨yb, h⟩

/-! ### separating the NODOTDIR guard from the rest -/

/-- `PM` without the guard of the dot -/
def PM0 (ci : Bool) : LPos → List Char → List Char → Prop
  | _, [], t => allSl t = true
  | st, c :: r, t =>
    if c = '/' then
      (if st = .sep then PM0 ci .sep r t
       else ∃ pre t', pre ≠ [] ∧ allSl pre = true ∧ t = pre ++ t' ∧ PM0 ci .sep r t')
    else ∃ d t', t = d :: t' ∧ charEq ci c d = true ∧ PM0 ci .mid r t'

theorem beq_false_of_ne {c x : Char} (h : c ≠ x) : (c == x) = false := by simpa using h

/-- at the end or at a separator -/
def atSepB : List Char → Bool
  | [] => true
  | c :: _ => c == '/'

theorem allSl_ne_nil {pre : List Char} (hne : pre ≠ []) (h : allSl pre = true) : ∃ p', pre = '/' :: p' := by
  cases pre with
  | nil => exact absurd rfl hne
  | cons x p' =>
    simp only [allSl, List.all_cons, Bool.and_eq_true, beq_iff_eq] at h
    exact ⟨p', by rw [h.1]⟩

theorem PM0_atSep (ci : Bool) (st : LPos) (hst : st ≠ .sep) (r t : List Char) (h : PM0 ci st r t) :
    atSepB r = atSepB t := by
  cases r with
  | nil =>
    simp only [PM0] at h
    cases t with
    | nil => rfl
    | cons x t =>
      simp only [allSl, List.all_cons, Bool.and_eq_true, beq_iff_eq] at h
      simp [atSepB, h.1]
  | cons c r =>
    by_cases hc : c = '/'
    · subst hc
      simp only [PM0, ite_true, hst, ite_false] at h
      obtain ⟨pre, t', hne, hall, rfl, _⟩ := h
      obtain ⟨p', rfl⟩ := allSl_ne_nil hne hall
      simp [atSepB]
    · simp only [PM0, hc, ite_false] at h
      obtain ⟨d, t', rfl, hd, _⟩ := h
      have : d ≠ '/' := fun e => hc (charEq_nonLetter_right nonLetter_slash ci c (e ▸ hd))
      simp [atSepB, beq_false_of_ne hc, beq_false_of_ne this]

theorem dotPlain_dot (r : List Char) : dotPlain ('.' :: r) = atSepB r := by
  cases r <;> simp [dotPlain, atSepB]

/-- a matched pair: the pattern's segment is exactly `.` / `..` iff the text's is -/
theorem PM0_dotPlain (ci : Bool) (r t : List Char) (h : PM0 ci .mid r t) : dotPlain r = dotPlain t := by
  have h0 := PM0_atSep ci .mid (by decide) r t h
  cases r with
  | nil =>
    cases t with
    | nil => rfl
    | cons x t => simp only [atSepB] at h0; simp [dotPlain, ← h0]
  | cons c r =>
    by_cases hc : c = '/'
    · subst hc
      cases t with
      | nil => simp [dotPlain]
      | cons x t => simp only [atSepB] at h0; simp [dotPlain, ← h0]
    · simp only [PM0, hc, ite_false] at h
      obtain ⟨d, t', rfl, hd, h'⟩ := h
      have hds : d ≠ '/' := fun e => hc (charEq_nonLetter_right nonLetter_slash ci c (e ▸ hd))
      by_cases hdot : c = '.'
      · subst hdot
        have := charEq_nonLetter_left nonLetter_dot ci d hd
        subst this
        rw [dotPlain_dot, dotPlain_dot]
        exact PM0_atSep ci .mid (by decide) r t' h'
      · have hdd : d ≠ '.' := fun e => hdot (charEq_nonLetter_right nonLetter_dot ci c (e ▸ hd))
        simp [dotPlain, beq_false_of_ne hc, beq_false_of_ne hdot, beq_false_of_ne hds, beq_false_of_ne hdd]

/-- the text is `.\n` or `..\n` -/
def nlDot (t : List Char) : Bool := t == ['.', '\n'] || t == ['.', '.', '\n']

/-- **the only way the guard can refuse a text equal to the pattern**: `$` before a final newline -/
theorem nlDot_iff (t : List Char) : nlDot ('.' :: t) = (dotDirAhead ('.' :: t) && !dotPlain t) := by
  cases t with
  | nil => simp [nlDot, dotDirAhead, dotPlain, eopAt]
  | cons d y =>
    by_cases h1 : d = '/'
    · subst h1; simp [nlDot, dotDirAhead, dotPlain, eopAt]
    by_cases h2 : d = '.'
    · subst h2
      cases y with
      | nil => simp [nlDot, dotDirAhead, dotPlain, eopAt]
      | cons e z =>
        by_cases h3 : e = '/'
        · subst h3; simp [nlDot, dotDirAhead, dotPlain, eopAt]
        · simp [nlDot, dotDirAhead, dotPlain, eopAt, beq_false_of_ne h3]
    · simp [nlDot, dotDirAhead, dotPlain, eopAt, beq_false_of_ne h1, beq_false_of_ne h2]

/-- some segment-opening position of the text (the first one counts iff `ps`) reads `.\n` / `..\n`
    up to the end of the text -/
def dotNlTail : Bool → List Char → Bool
  | _, [] => false
  | ps, c :: r => (ps && nlDot (c :: r)) || dotNlTail (c == '/') r

theorem dotNlTail_allSl (b : Bool) (t : List Char) (h : allSl t = true) : dotNlTail b t = false := by
  induction t generalizing b with
  | nil => rfl
  | cons x t ih =>
    simp only [allSl, List.all_cons, Bool.and_eq_true, beq_iff_eq] at h
    obtain ⟨rfl, h2⟩ := h
    simp [dotNlTail, nlDot, ih _ h2]

theorem dotNlTail_allSl_append (b : Bool) (pre t : List Char) (hne : pre ≠ []) (h : allSl pre = true) :
    dotNlTail b (pre ++ t) = dotNlTail true t := by
  induction pre generalizing b with
  | nil => exact absurd rfl hne
  | cons x pre ih =>
    simp only [allSl, List.all_cons, Bool.and_eq_true, beq_iff_eq] at h
    obtain ⟨rfl, h2⟩ := h
    cases pre with
    | nil => simp [dotNlTail, nlDot]
    | cons y pre' =>
      have := ih true (by simp) h2
      simp only [List.cons_append] at this ⊢
      rw [dotNlTail]
      simp only [nlDot, beq_self_eq_true]
      rw [this]
      simp

theorem PM_split (cfg : Cfg) (ci : Bool) : ∀ (s : List Char) (st : LPos) (t : List Char),
    PM cfg ci st s t ↔ PM0 ci st s t ∧ (cfg.nodotdir = true → dotNlTail st.after t = false) := by
  intro s
  induction s with
  | nil =>
    intro st t
    simp only [PM, PM0]
    constructor
    · intro h; exact ⟨h, fun _ => dotNlTail_allSl _ t h⟩
    · intro h; exact h.1
  | cons c r ih =>
    intro st t
    by_cases hc : c = '/'
    · subst hc
      by_cases hst : st = .sep
      · subst hst
        simp only [PM, PM0, ite_true]
        exact ih .sep t
      · simp only [PM, PM0, ite_true, hst, ite_false]
        constructor
        · rintro ⟨pre, t', hne, hall, rfl, h⟩
          obtain ⟨h1, h2⟩ := (ih .sep t').mp h
          refine ⟨⟨pre, t', hne, hall, rfl, h1⟩, fun hn => ?_⟩
          rw [dotNlTail_allSl_append _ pre t' hne hall]
          exact h2 hn
        · rintro ⟨⟨pre, t', hne, hall, rfl, h1⟩, h2⟩
          refine ⟨pre, t', hne, hall, rfl, (ih .sep t').mpr ⟨h1, fun hn => ?_⟩⟩
          have := h2 hn
          rw [dotNlTail_allSl_append _ pre t' hne hall] at this
          exact this
    · simp only [PM, PM0, hc, ite_false]
      have key : ∀ d t', charEq ci c d = true → PM0 ci .mid r t' →
          ((c = '.' → dotOK cfg st.after r (d :: t')) ∧ (cfg.nodotdir = true → dotNlTail false t' = false) ↔
            (cfg.nodotdir = true → dotNlTail st.after (d :: t') = false)) := by
        intro d t' hd h0
        have hds : d ≠ '/' := fun e => hc (charEq_nonLetter_right nonLetter_slash ci c (e ▸ hd))
        have e1 : dotNlTail st.after (d :: t') = ((st.after && nlDot (d :: t')) || dotNlTail false t') := by
          simp [dotNlTail, beq_false_of_ne hds]
        rw [e1]
        by_cases hdot : c = '.'
        · subst hdot
          have := charEq_nonLetter_left nonLetter_dot ci d hd
          subst this
          rw [nlDot_iff, ← PM0_dotPlain ci r t' h0]
          unfold dotOK
          cases st.after <;> cases cfg.nodotdir <;> cases dotPlain r <;> cases dotDirAhead ('.' :: t') <;>
            cases dotNlTail false t' <;> simp
        · have hdd : d ≠ '.' := fun e => hdot (charEq_nonLetter_right nonLetter_dot ci c (e ▸ hd))
          have : nlDot (d :: t') = false := by simp [nlDot, hdd]
          simp [this, hdot]
      constructor
      · rintro ⟨d, t', rfl, hd, hg, h⟩
        obtain ⟨h1, h2⟩ := (ih .mid t').mp h
        exact ⟨⟨d, t', rfl, hd, h1⟩, (key d t' hd h1).mp ⟨hg, h2⟩⟩
      · rintro ⟨⟨d, t', rfl, hd, h1⟩, h2⟩
        obtain ⟨hg, h3⟩ := (key d t' hd h1).mpr h2
        exact ⟨d, t', rfl, hd, hg, (ih .mid t').mpr ⟨h1, h3⟩⟩

/-! ### cutting both sides into pieces -/

/-- equality of two pieces under the case rule -/
def ciEq (ci : Bool) : List Char → List Char → Bool
  | [], [] => true
  | c :: cs, d :: ds => charEq ci c d && ciEq ci cs ds
  | _, _ => false

/-- piece by piece -/
def piecesEq (ci : Bool) : List (List Char) → List (List Char) → Bool
  | [], [] => true
  | q :: qs, p :: ps => ciEq ci q p && piecesEq ci qs ps
  | _, _ => false

theorem ciEq_nil_left (ci : Bool) (p : List Char) : ciEq ci [] p = true ↔ p = [] := by
  cases p <;> simp [ciEq]

theorem ciEq_ne_nil (ci : Bool) {q p : List Char} (h : ciEq ci q p = true) (hq : q ≠ []) : p ≠ [] := by
  cases q with
  | nil => exact absurd rfl hq
  | cons c q => cases p with
    | nil => simp [ciEq] at h
    | cons d p => simp

theorem ciEq_noSlash (ci : Bool) : ∀ {q p : List Char}, ciEq ci q p = true → '/' ∉ q → '/' ∉ p := by
  intro q
  induction q with
  | nil => intro p h _; rw [(ciEq_nil_left ci p).mp h]; simp
  | cons c q ih =>
    intro p h hq
    cases p with
    | nil => simp
    | cons d p =>
      simp only [ciEq, Bool.and_eq_true] at h
      simp only [List.mem_cons, not_or] at hq ⊢
      refine ⟨fun e => hq.1 ?_, ih h.2 hq.2⟩
      exact (charEq_nonLetter_right nonLetter_slash ci c (e ▸ h.1)).symm

theorem piecesEq_nil_left (ci : Bool) (ps : List (List Char)) : piecesEq ci [] ps = true ↔ ps = [] := by
  cases ps <;> simp [piecesEq]

theorem piecesEq_ne_nil (ci : Bool) {qs ps : List (List Char)} (h : piecesEq ci qs ps = true) (hq : qs ≠ []) :
    ps ≠ [] := by
  cases qs with
  | nil => exact absurd rfl hq
  | cons c q => cases ps with
    | nil => simp [piecesEq] at h
    | cons d p => simp

theorem allSl_iff_pieces_nil (t : List Char) : allSl t = true ↔ pieces t = [] :=
  ⟨pieces_allSl t, allSl_of_pieces_nil t⟩

theorem PM0_nonsep_irrel (ci : Bool) (st st' : LPos) (c : Char) (r t : List Char) (hc : c ≠ '/') :
    PM0 ci st (c :: r) t ↔ PM0 ci st' (c :: r) t := by
  simp [PM0, hc]

/-- a run of non-separator characters is matched by a run of the same length, equal to it under the
    case rule -/
theorem PM0_run (ci : Bool) : ∀ (q : List Char), '/' ∉ q → ∀ (rs t : List Char),
    PM0 ci .mid (q ++ rs) t ↔ ∃ p rt, t = p ++ rt ∧ ciEq ci q p = true ∧ PM0 ci .mid rs rt := by
  intro q
  induction q with
  | nil =>
    intro _ rs t
    constructor
    · intro h; exact ⟨[], t, rfl, rfl, h⟩
    · rintro ⟨p, rt, rfl, hp, h⟩
      rw [(ciEq_nil_left ci p).mp hp]; exact h
  | cons c q ih =>
    intro hq rs t
    simp only [List.mem_cons, not_or] at hq
    have hc : c ≠ '/' := Ne.symm hq.1
    simp only [List.cons_append, PM0, hc, ite_false]
    constructor
    · rintro ⟨d, t', rfl, hd, h⟩
      obtain ⟨p, rt, rfl, hp, h'⟩ := (ih hq.2 rs t').mp h
      exact ⟨d :: p, rt, rfl, by simp [ciEq, hd, hp], h'⟩
    · rintro ⟨p, rt, rfl, hp, h'⟩
      cases p with
      | nil => simp [ciEq] at hp
      | cons d p =>
        simp only [ciEq, Bool.and_eq_true] at hp
        exact ⟨d, p ++ rt, rfl, hp.1, (ih hq.2 rs (p ++ rt)).mpr ⟨p, rt, rfl, hp.2, h'⟩⟩

theorem PM0_sep_allSl (ci : Bool) (sl s t : List Char) (h : allSl sl = true) :
    PM0 ci .sep (sl ++ s) t ↔ PM0 ci .sep s t := by
  induction sl with
  | nil => exact Iff.rfl
  | cons x sl ih =>
    simp only [allSl, List.all_cons, Bool.and_eq_true, beq_iff_eq] at h
    obtain ⟨rfl, h2⟩ := h
    simp only [List.cons_append, PM0, ite_true]
    exact ih h2

/-- the statement about `PM0 .sep` (just after a run of separators on both sides) -/
def SepSpec (ci : Bool) (s t : List Char) : Prop :=
  piecesEq ci (pieces s) (pieces t) = true ∧ (pieces s ≠ [] → t.head? ≠ some '/') ∧
    (pieces s ≠ [] → s.getLast? = some '/' → t.getLast? = some '/')

theorem getLast_cons_ne (x : Char) (r : List Char) (hr : r ≠ []) : (x :: r).getLast? = r.getLast? := by
  cases r with
  | nil => exact absurd rfl hr
  | cons y r => simp

theorem ne_nil_of_pieces_ne_nil {t : List Char} (h : pieces t ≠ []) : t ≠ [] := by
  rintro rfl; exact h pieces_nil

/-- a written separator (not preceded by one): the text has one or more here -/
theorem PM0_slash (ci : Bool) (st : LPos) (hst : st ≠ .sep) (r : List Char)
    (H : ∀ t, PM0 ci .sep r t ↔ SepSpec ci r t) (t : List Char) :
    PM0 ci st ('/' :: r) t ↔
      t.head? = some '/' ∧ piecesEq ci (pieces r) (pieces t) = true ∧
        (('/' :: r).getLast? = some '/' → t.getLast? = some '/') := by
  simp only [PM0, ite_true, hst, ite_false]
  constructor
  · rintro ⟨pre, t', hne, hall, rfl, h⟩
    obtain ⟨e1, e2, e3⟩ := (H t').mp h
    obtain ⟨p', rfl⟩ := allSl_ne_nil hne hall
    refine ⟨rfl, by rw [pieces_allSl_append _ t' hall]; exact e1, fun hl => ?_⟩
    by_cases hp : pieces r = []
    · rw [hp] at e1
      have hall' : allSl t' = true := (allSl_iff_pieces_nil t').mpr ((piecesEq_nil_left ci _).mp e1)
      apply allSl_getLast _ _ (by simp)
      simp only [allSl, List.all_append, Bool.and_eq_true] at hall hall' ⊢
      exact ⟨hall, hall'⟩
    · have hr : r ≠ [] := ne_nil_of_pieces_ne_nil hp
      rw [getLast_cons_ne _ r hr] at hl
      have ht' : t' ≠ [] := ne_nil_of_pieces_ne_nil (piecesEq_ne_nil ci e1 hp)
      rw [getLast_append_ne _ t' ht']
      exact e3 hp hl
  · rintro ⟨hh, hp, hl⟩
    obtain ⟨pre, t', rfl, hall, hhd⟩ := slash_decomp t
    have hne : pre ≠ [] := by
      rintro rfl
      exact hhd hh
    rw [pieces_allSl_append _ t' hall] at hp
    refine ⟨pre, t', hne, hall, rfl, (H t').mpr ⟨hp, fun _ => hhd, fun hpr hlr => ?_⟩⟩
    have hr : r ≠ [] := ne_nil_of_pieces_ne_nil hpr
    have ht' : t' ≠ [] := ne_nil_of_pieces_ne_nil (piecesEq_ne_nil ci hp hpr)
    rw [getLast_cons_ne _ r hr] at hl
    have := hl hlr
    rw [getLast_append_ne _ t' ht'] at this
    exact this

theorem PM0_sep_spec (ci : Bool) : ∀ (n : Nat) (s : List Char), s.length ≤ n →
    ∀ t, PM0 ci .sep s t ↔ SepSpec ci s t := by
  intro n
  induction n with
  | zero =>
    intro s hs t
    have : s = [] := List.eq_nil_of_length_eq_zero (Nat.le_zero.mp hs)
    subst this
    simp only [PM0, SepSpec, pieces_nil, ne_eq, not_true_eq_false, false_implies, and_true]
    rw [piecesEq_nil_left, allSl_iff_pieces_nil]
  | succ n ih =>
    intro s0 hs0 t
    -- drop the separators that the previous `[/]+` already stands for
    obtain ⟨sl, s, rfl, hall, hhd⟩ := slash_decomp s0
    rw [PM0_sep_allSl ci sl s t hall]
    have hlen : s.length ≤ n + 1 := by simp at hs0; omega
    have hred : SepSpec ci (sl ++ s) t ↔ SepSpec ci s t := by
      unfold SepSpec
      rw [pieces_allSl_append sl s hall]
      by_cases hs : s = []
      · subst hs; simp [pieces_nil]
      · rw [getLast_append_ne sl s hs]
    rw [hred]
    clear hred hs0
    by_cases hs : s = []
    · subst hs
      simp only [PM0, SepSpec, pieces_nil, ne_eq, not_true_eq_false, false_implies, and_true]
      rw [piecesEq_nil_left, allSl_iff_pieces_nil]
    · -- the first piece `q`, then nothing or a separator
      obtain ⟨q, rs, rfl, hq, hrs⟩ := piece_decomp s
      have hqne : q ≠ [] := by
        rintro rfl
        rcases hrs with rfl | ⟨r', rfl⟩
        · exact hs rfl
        · exact hhd rfl
      obtain ⟨c, q', rfl⟩ : ∃ c q', q = c :: q' := by
        cases q with
        | nil => exact absurd rfl hqne
        | cons c q' => exact ⟨c, q', rfl⟩
      have hc : c ≠ '/' := by
        simp only [List.mem_cons, not_or] at hq; exact Ne.symm hq.1
      rw [show (c :: q') ++ rs = c :: (q' ++ rs) from rfl, PM0_nonsep_irrel ci .sep .mid c _ t hc,
        show c :: (q' ++ rs) = (c :: q') ++ rs from rfl, PM0_run ci (c :: q') hq rs t]
      have hps : pieces ((c :: q') ++ rs) = (c :: q') :: pieces rs := pieces_append _ rs hq hqne hrs
      unfold SepSpec
      rw [hps]
      simp only [ne_eq, reduceCtorEq, not_false_eq_true, forall_const]
      rcases hrs with rfl | ⟨rs', rfl⟩
      · -- the pattern ends here
        simp only [PM0, pieces_nil, List.append_nil]
        constructor
        · rintro ⟨p, rt, rfl, hp, hrt⟩
          have hpn : '/' ∉ p := ciEq_noSlash ci hp hq
          have hpne : p ≠ [] := ciEq_ne_nil ci hp hqne
          refine ⟨?_, head_not_slash_of_piece p rt hpn hpne, fun hl => ?_⟩
          · rw [pieces_append p rt hpn hpne (allSl_head rt hrt), pieces_allSl rt hrt]
            simp [piecesEq, hp]
          · exact absurd hl (getLast_piece_ne_slash _ hq)
        · rintro ⟨hp, hh, _⟩
          obtain ⟨p, rt, rfl, hpn, hrt⟩ := piece_decomp t
          have hpne : p ≠ [] := by
            rintro rfl
            rcases hrt with rfl | ⟨r', rfl⟩
            · simp [pieces_nil, piecesEq] at hp
            · exact hh rfl
          rw [pieces_append p rt hpn hpne hrt] at hp
          simp only [piecesEq, Bool.and_eq_true] at hp
          exact ⟨p, rt, rfl, hp.1, (allSl_iff_pieces_nil rt).mpr ((piecesEq_nil_left ci _).mp hp.2)⟩
      · -- a separator follows
        have hlen' : rs'.length ≤ n := by simp at hlen; omega
        have HD := PM0_slash ci .mid (by decide) rs' (ih rs' hlen')
        rw [pieces_slash]
        have hrsne : ('/' :: rs') ≠ [] := by simp
        rw [getLast_append_ne (c :: q') _ hrsne]
        constructor
        · rintro ⟨p, rt, rfl, hp, hrt⟩
          obtain ⟨h1, h2, h3⟩ := (HD rt).mp hrt
          have hpn : '/' ∉ p := ciEq_noSlash ci hp hq
          have hpne : p ≠ [] := ciEq_ne_nil ci hp hqne
          have hrtne : rt ≠ [] := by rintro rfl; simp at h1
          have hat : AtSep rt := by
            cases rt with
            | nil => exact Or.inl rfl
            | cons x rt' =>
              simp only [List.head?_cons, Option.some.injEq] at h1
              exact Or.inr ⟨rt', by rw [h1]⟩
          refine ⟨?_, head_not_slash_of_piece p rt hpn hpne, fun hl => ?_⟩
          · rw [pieces_append p rt hpn hpne hat]
            simp [piecesEq, hp, h2]
          · rw [getLast_append_ne p rt hrtne]
            exact h3 hl
        · rintro ⟨hp, hh, hl⟩
          obtain ⟨p, rt, rfl, hpn, hrt⟩ := piece_decomp t
          have hpne : p ≠ [] := by
            rintro rfl
            rcases hrt with rfl | ⟨r', rfl⟩
            · simp [pieces_nil, piecesEq] at hp
            · exact hh rfl
          rw [pieces_append p rt hpn hpne hrt] at hp
          simp only [piecesEq, Bool.and_eq_true] at hp
          have hrtne : rt ≠ [] := by
            rintro rfl
            rw [pieces_nil] at hp
            have hprs : pieces rs' = [] := by
              cases hx : pieces rs' with
              | nil => rfl
              | cons a b => rw [hx] at hp; simp [piecesEq] at hp
            have hallrs : allSl ('/' :: rs') = true := by
              have := (allSl_iff_pieces_nil rs').mpr hprs
              simpa [allSl] using this
            have := hl (allSl_getLast _ hallrs hrsne)
            rw [List.append_nil] at this
            exact getLast_piece_ne_slash p hpn this
          have h1 : rt.head? = some '/' := by
            rcases hrt with rfl | ⟨r', rfl⟩
            · exact absurd rfl hrtne
            · rfl
          refine ⟨p, rt, rfl, hp.1, (HD rt).mpr ⟨h1, hp.2, fun hlr => ?_⟩⟩
          have := hl hlr
          rw [getLast_append_ne p rt hrtne] at this
          exact this

/-- **the language of `escape(s)` cut into pieces** (without the guard): same leading-separator
    status, a trailing separator of `s` must be there, and the non-empty pieces agree one by one -/
theorem PM0_start_spec (ci : Bool) (s t : List Char) (hs : s ≠ []) :
    PM0 ci .start s t ↔
      ((t.head? = some '/' ↔ s.head? = some '/') ∧ (s.getLast? = some '/' → t.getLast? = some '/') ∧
        piecesEq ci (pieces s) (pieces t) = true) := by
  cases s with
  | nil => exact absurd rfl hs
  | cons c r =>
    by_cases hc : c = '/'
    · subst hc
      rw [PM0_slash ci .start (by decide) r (PM0_sep_spec ci r.length r (Nat.le_refl _)) t, pieces_slash]
      simp only [List.head?_cons, iff_true]
      constructor
      · rintro ⟨h1, h2, h3⟩; exact ⟨h1, h3, h2⟩
      · rintro ⟨h1, h3, h2⟩; exact ⟨h1, h2, h3⟩
    · rw [PM0_nonsep_irrel ci .start .sep c r t hc, PM0_sep_spec ci _ (c :: r) (Nat.le_refl _) t]
      have hp : pieces (c :: r) ≠ [] := by
        intro h
        have := (allSl_iff_pieces_nil (c :: r)).mpr h
        simp only [allSl, List.all_cons, Bool.and_eq_true, beq_iff_eq] at this
        exact hc this.1
      unfold SepSpec
      simp only [ne_eq, hp, not_false_eq_true, forall_const, List.head?_cons, Option.some.injEq, hc, iff_false]
      constructor
      · rintro ⟨h1, h2, h3⟩; exact ⟨h2, h3, h1⟩
      · rintro ⟨h2, h3, h1⟩; exact ⟨h1, h2, h3⟩

end WcModel

import WcModel.Proofs.TranslateTwin
/-
  C08 (all patterns), second half: `Item.listToRe` / `Parsed.toRe` do not see the capture
  decoration.  `Item.Sim` relates two items of the same shape whose regex leaves have the
  same `Re.strip`; related lists convert to regexes with the same `strip` and fail together.
  Every list is related to its normal form (`Item.simL_normL`).
-/
set_option linter.unusedSimpArgs false
namespace WcModel

/-- same `strip`, and empty together (`catE'` drops a syntactically empty factor) -/
def ReSim (r r' : Re) : Prop := r.strip = r'.strip ∧ (r = .eps ↔ r' = .eps)

theorem ReSim.refl (r : Re) : ReSim r r := ⟨rfl, Iff.rfl⟩
theorem ReSim.symm {a b : Re} (h : ReSim a b) : ReSim b a := ⟨h.1.symm, h.2.symm⟩
theorem ReSim.trans {a b c : Re} (h : ReSim a b) (g : ReSim b c) : ReSim a c :=
  ⟨h.1.trans g.1, h.2.trans g.2⟩

mutual
inductive Item.Sim : Item → Item → Prop
  | re {r r'} : ReSim r r' → Item.Sim (.re r) (.re r')
  | empty : Item.Sim .empty .empty
  | bar : Item.Sim .bar .bar
  | group {k c c' b b'} : Item.SimL b b' → Item.Sim (.group k c b) (.group k c' b')
  | invOpen {c c' b b'} : Item.SimL b b' → Item.Sim (.invOpen c b) (.invOpen c' b')
  | ph {s} : Item.Sim (.ph s) (.ph s)
  | closed {t t' e s} : Item.SimL t t' → Item.Sim (.closed t e s) (.closed t' e s)
inductive Item.SimL : List Item → List Item → Prop
  | nil : Item.SimL [] []
  | cons {x y xs ys} : Item.Sim x y → Item.SimL xs ys → Item.SimL (x :: xs) (y :: ys)
end

theorem Re.ungcap_sim (r : Re) : ReSim r r.ungcap := by
  unfold Re.ungcap
  split
  · exact ⟨rfl, by simp⟩
  · exact ReSim.refl _

mutual
theorem Item.sim_norm : ∀ x : Item, Item.Sim x x.norm
  | .re r => by simpa using Item.Sim.re (Re.ungcap_sim r)
  | .empty => .empty
  | .bar => .bar
  | .ph _ => .ph
  | .group k c body => by simpa using Item.Sim.group (Item.simL_normL body)
  | .invOpen c body => by simpa using Item.Sim.invOpen (Item.simL_normL body)
  | .closed tail eop star => by simpa using Item.Sim.closed (Item.simL_normL tail)
theorem Item.simL_normL : ∀ l : List Item, Item.SimL l (Item.normL l)
  | [] => .nil
  | x :: xs => by simpa using Item.SimL.cons (Item.sim_norm x) (Item.simL_normL xs)
end

mutual
theorem Item.size_norm : ∀ x : Item, x.norm.size = x.size
  | .re r => by simp [Item.size]
  | .empty => rfl
  | .bar => rfl
  | .ph _ => rfl
  | .group k c body => by simp [Item.size, Item.sizeL_normL body]
  | .invOpen c body => by simp [Item.size, Item.sizeL_normL body]
  | .closed tail eop star => by simp [Item.size, Item.sizeL_normL tail]
theorem Item.sizeL_normL : ∀ l : List Item, Item.sizeL (Item.normL l) = Item.sizeL l
  | [] => rfl
  | x :: xs => by simp [Item.sizeL, Item.size_norm x, Item.sizeL_normL xs]
end

theorem Item.SimL.refl : ∀ l : List Item, (∀ x ∈ l, Item.Sim x x) → Item.SimL l l
  | [], _ => .nil
  | x :: xs, h => .cons (h x (by simp)) (Item.SimL.refl xs (fun y hy => h y (by simp [hy])))

theorem Item.SimL.append {a a' b b' : List Item} (h : Item.SimL a a') (g : Item.SimL b b') :
    Item.SimL (a ++ b) (a' ++ b') := by
  induction a generalizing a' with
  | nil => cases h; simpa using g
  | cons x xs ih =>
    cases h with
    | cons hx hxs => exact .cons hx (ih hxs)

/-! ### options and lists of regexes -/

def ReSimO : Option Re → Option Re → Prop
  | none, none => True
  | some r, some r' => ReSim r r'
  | _, _ => False

theorem ReSimO.trans {a b c : Option Re} (h : ReSimO a b) (g : ReSimO b c) : ReSimO a c := by
  cases a <;> cases b <;> cases c <;> simp [ReSimO] at *
  exact h.trans g
theorem ReSimO.symm {a b : Option Re} (h : ReSimO a b) : ReSimO b a := by
  cases a <;> cases b <;> simp [ReSimO] at *
  exact h.symm
theorem ReSimO.of_eq {a b : Option Re} (h : a = b) : ReSimO a b := by
  subst h; cases a <;> simp [ReSimO]; exact ReSim.refl _

inductive ReSimL : List Re → List Re → Prop
  | nil : ReSimL [] []
  | cons {x y xs ys} : ReSim x y → ReSimL xs ys → ReSimL (x :: xs) (y :: ys)

def ReSimLO : Option (List Re) → Option (List Re) → Prop
  | none, none => True
  | some r, some r' => ReSimL r r'
  | _, _ => False

theorem altOfList_sim {a b : List Re} (h : ReSimL a b) : ReSim (altOfList a) (altOfList b) := by
  induction h with
  | nil => exact ReSim.refl _
  | @cons x y xs ys hx hxs ih =>
    cases hxs with
    | nil => simpa [altOfList] using hx
    | cons hx2 hxs2 =>
      simp only [altOfList] at ih ⊢
      exact ⟨by simp [Re.strip, hx.1, ih.1], by simp⟩

theorem catE'_sim {a a' b b' : Re} (ha : ReSim a a') (hb : ReSim b b') :
    ReSim (catE' a b) (catE' a' b') := by
  unfold catE'
  by_cases h1 : b = .eps
  · have h1' := hb.2.mp h1
    simp only [h1, h1', if_true]
    exact ha
  · have h1' : ¬ b' = .eps := fun h => h1 (hb.2.mpr h)
    by_cases h2 : a = .eps
    · have h2' := ha.2.mp h2
      simp only [h1, h1', h2, h2', if_true, if_false]
      exact hb
    · have h2' : ¬ a' = .eps := fun h => h2 (ha.2.mpr h)
      simp only [h1, h1', h2, h2', if_false]
      exact ⟨by simp [Re.strip, ha.1, hb.1], by simp⟩

theorem quant_sim (k : GKind) (c c' : Capt) {b b' : Re} (h : ReSim b b') :
    ReSim (quant k c b) (quant k c' b') := by
  have := h.1
  cases k <;> cases c <;> cases c' <;> exact ⟨by simp [quant, Re.strip, this], by simp [quant]⟩

/-! ### `splitBars` -/

inductive ItemSimLL : List (List Item) → List (List Item) → Prop
  | nil : ItemSimLL [] []
  | cons {x y xs ys} : Item.SimL x y → ItemSimLL xs ys → ItemSimLL (x :: xs) (y :: ys)

def twConsHead (x : Item) : List (List Item) → List (List Item)
  | [] => [[x]]
  | a :: as => (x :: a) :: as

theorem twConsHead_sim {x y : Item} (hx : Item.Sim x y) {A B : List (List Item)} (h : ItemSimLL A B) :
    ItemSimLL (twConsHead x A) (twConsHead y B) := by
  cases h with
  | nil => exact .cons (.cons hx .nil) .nil
  | cons h1 h2 => exact .cons (.cons hx h1) h2

theorem splitBars_sim : ∀ (xs ys : List Item), Item.SimL xs ys → ItemSimLL (splitBars xs) (splitBars ys)
  | [], _, h => by cases h; exact .cons .nil .nil
  | x :: xs, _, h => by
    cases h with
    | @cons _ y _ ys hx hxs =>
      have ih := splitBars_sim xs ys hxs
      cases hx with
      | bar => simpa [splitBars] using ItemSimLL.cons .nil ih
      | re hr => exact twConsHead_sim (.re hr) ih
      | empty => exact twConsHead_sim .empty ih
      | group hb => exact twConsHead_sim (.group hb) ih
      | invOpen hb => exact twConsHead_sim (.invOpen hb) ih
      | ph => exact twConsHead_sim .ph ih
      | closed hb => exact twConsHead_sim (.closed hb) ih

theorem mapM_sim (g : List Item → Option Re)
    (hg : ∀ a b, Item.SimL a b → ReSimO (g a) (g b)) :
    ∀ {xs ys : List (List Item)}, ItemSimLL xs ys → ReSimLO (xs.mapM g) (ys.mapM g) := by
  intro xs ys h
  induction h with
  | nil => simp [ReSimLO]; exact .nil
  | @cons x y xs ys hx hxs ih =>
    have h1 := hg x y hx
    simp only [List.mapM_cons]
    cases hgx : g x <;> cases hgy : g y <;> rw [hgx, hgy] at h1 <;> simp [ReSimO] at h1
    · simp [ReSimLO]
    · cases hmx : xs.mapM g <;> cases hmy : ys.mapM g <;> rw [hmx, hmy] at ih <;> simp [ReSimLO] at ih
      · simp [ReSimLO]
      · simp [ReSimLO]
        exact .cons h1 ih

/-! ### the conversion -/

theorem ReSimO.bind₂ {a a' : Option Re} (h : ReSimO a a') {f f' : Re → Option Re}
    (hf : ∀ r r', ReSim r r' → ReSimO (f r) (f' r')) : ReSimO (a >>= f) (a' >>= f') := by
  cases a <;> cases a' <;> simp [ReSimO] at h
  · simp [ReSimO]
  · simpa using hf _ _ h

theorem toRe_sim : ∀ f : Nat,
    (∀ xs ys, Item.SimL xs ys → ReSimO (Item.seqToRe f xs) (Item.seqToRe f ys)) ∧
    (∀ xs ys, Item.SimL xs ys → ReSimO (Item.listToRe f xs) (Item.listToRe f ys))
  | 0 => by
    refine ⟨fun xs ys _ => ?_, fun xs ys _ => ?_⟩
    · simp [Item.seqToRe, ReSimO]
    · simp [Item.listToRe, ReSimO]
  | f+1 => by
    have ih := toRe_sim f
    refine ⟨fun xs ys h => ?_, fun xs ys h => ?_⟩
    · cases h with
      | nil => simp [Item.seqToRe, ReSimO]; exact ReSim.refl _
      | @cons x y xs ys hx hxs =>
        have hrest := ih.1 xs ys hxs
        cases hx with
        | re hr =>
          simp only [Item.seqToRe]
          exact hrest.bind₂ (fun r r' h => by simpa [ReSimO] using catE'_sim hr h)
        | empty => simpa [Item.seqToRe] using hrest
        | bar => simp [Item.seqToRe, ReSimO]
        | ph => simp [Item.seqToRe, ReSimO]
        | closed _ => simp [Item.seqToRe, ReSimO]
        | @group k c c' b b' hb =>
          simp only [Item.seqToRe]
          exact (ih.2 b b' hb).bind₂ (fun r r' h =>
            hrest.bind₂ (fun q q' g => by simpa [ReSimO] using catE'_sim (quant_sim k c c' h) g))
        | @invOpen c c' b b' hb =>
          clear hrest
          cases hxs with
          | nil => simp [Item.seqToRe, ReSimO]
          | @cons x2 y2 xs2 ys2 hx2 hxs2 =>
            cases hx2 with
            | re _ => simp [Item.seqToRe, ReSimO]
            | empty => simp [Item.seqToRe, ReSimO]
            | bar => simp [Item.seqToRe, ReSimO]
            | ph => simp [Item.seqToRe, ReSimO]
            | group _ => simp [Item.seqToRe, ReSimO]
            | invOpen _ => simp [Item.seqToRe, ReSimO]
            | @closed t t' e s ht =>
              have hrest2 := ih.1 xs2 ys2 hxs2
              simp only [Item.seqToRe]
              refine (ih.2 b b' hb).bind₂ (fun r r' h => ?_)
              have hla : Item.SimL (Item.re (.grp r) :: t ++ (match e with | some e => [Item.re e] | none => []))
                  (Item.re (.grp r') :: t' ++ (match e with | some e => [Item.re e] | none => [])) := by
                refine .cons (.re ⟨by simp [Re.strip, h.1], by simp⟩) (ht.append ?_)
                cases e with
                | none => exact .nil
                | some e => exact .cons (.re (ReSim.refl _)) .nil
              refine (ih.2 _ _ hla).bind₂ (fun la la' hl => ?_)
              refine hrest2.bind₂ (fun q q' g => ?_)
              have : ReSim (if c = true then Re.cap (.cat (.look true la) s) else .grp (.cat (.look true la) s))
                  (if c' = true then Re.cap (.cat (.look true la') s) else .grp (.cat (.look true la') s)) := by
                cases c <;> cases c' <;> exact ⟨by simp [Re.strip, hl.1], by simp⟩
              simpa [ReSimO] using catE'_sim this g
    · simp only [Item.listToRe]
      have := mapM_sim (Item.seqToRe f) ih.1 (splitBars_sim xs ys h)
      cases h1 : (splitBars xs).mapM (Item.seqToRe f) <;>
        cases h2 : (splitBars ys).mapM (Item.seqToRe f) <;> rw [h1, h2] at this <;> simp [ReSimLO] at this
      · simp [ReSimO]
      · simpa [ReSimO] using altOfList_sim this

/-- strip-equal results (or both ill formed) at the top level -/
theorem Parsed.toRe_norm (p : Parsed) : ReSimO p.toRe p.norm.toRe := by
  unfold Parsed.toRe Parsed.norm
  simp only [Item.sizeL_normL]
  have := (toRe_sim (2 * Item.sizeL p.items + 4)).2 _ _ (Item.simL_normL p.items)
  refine this.bind₂ (fun r r' h => ?_)
  simp only [ReSimO]
  exact ⟨by simp [Re.strip, h.1], by simp⟩

end WcModel

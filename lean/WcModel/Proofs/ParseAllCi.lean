import WcModel.Proofs.ParseLift
import WcModel.Proofs.CaseClosed
/-
  INSTANCE of the generic lifting (`Proofs/ParseLift.lean`) at `P := fun r => r.allCi = true`
  ("every inline flag scope inside `r` is case-insensitive", `Proofs/CaseClosed.lean`).

  The only `.flags` nodes the pass can emit below the outer `(?s:` / `(?si:` come from the Windows
  drive code: `Win.escapeDrive s true = (?i:s)` — a case-INSENSITIVE scope — so the side condition
  of `C17.ci_closed`, evaluated until now per sampled pattern by the driver command `allci`, holds
  for EVERY pattern string, every configuration, with the real drive scanner:  `parse_allCi`.
-/
namespace WcModel

/-- the predicate as a `Prop` on `Re` -/
def AllCi (r : Re) : Prop := r.allCi = true

theorem Lift.allCi : Lift AllCi := by
  apply Lift.ofCompositional <;> intros <;> simp_all [AllCi, Re.allCi]

theorem allCi_cls (neg : Bool) (items : List ClsItem) : AllCi (.cls neg items) := rfl

/-- `escape_drive` wraps the drive text in `(?i:…)` (never in a case-sensitive scope) -/
theorem escapeDrive_allCi (s : List Char) (cs : Bool) : AllCi (Win.escapeDrive s cs) := by
  have h : AllCi (Win.litsOf s) := litsOf_lift Lift.allCi s
  unfold Win.escapeDrive
  split
  · simpa [AllCi, Re.allCi] using h
  · exact h

/-- the real drive scanner only emits case-insensitive scopes -/
theorem winDrive_allCi (cfg : Cfg) : DriveP AllCi (winDrive cfg) :=
  winDrive_lift Lift.allCi cfg rfl (fun s => escapeDrive_allCi s _)

/-- for ANY drive function whose items are `allCi`: the regex of the whole pass is
    `^(?s[i]:inner)$` with `inner.allCi` -/
theorem parse_allCi_drive (cfg : Cfg) (drive : List Char → DriveInfo) (hd : DriveP AllCi drive)
    (p : List Char) (parsed : Parsed) (r : Re)
    (h : parseItems cfg drive p = .ok parsed) (hr : parsed.toRe = some r) :
    ∃ inner, r = .cat .bos (.cat (.flags true parsed.ci inner) .eos) ∧ inner.allCi = true :=
  parse_lift_cls Lift.allCi allCi_cls cfg drive hd p parsed r h hr

/-- **every pattern, every configuration, the real drive scanner**: all inline flag scopes of the
    emitted regex are case-insensitive -/
theorem parse_allCi (cfg : Cfg) (p : List Char) (parsed : Parsed) (ci : Bool) (inner : Re)
    (h : parseItems cfg (winDrive cfg) p = .ok parsed)
    (hr : parsed.toRe = some (.cat .bos (.cat (.flags true ci inner) .eos))) :
    inner.allCi = true := by
  obtain ⟨inner', he, hi⟩ := parse_allCi_drive cfg (winDrive cfg) (winDrive_allCi cfg) p parsed _ h hr
  cases he
  exact hi

/-- the same, existential form (no shape assumption on the regex) -/
theorem parse_allCi' (cfg : Cfg) (p : List Char) (parsed : Parsed) (r : Re)
    (h : parseItems cfg (winDrive cfg) p = .ok parsed) (hr : parsed.toRe = some r) :
    ∃ inner, r = .cat .bos (.cat (.flags true parsed.ci inner) .eos) ∧ inner.allCi = true :=
  parse_allCi_drive cfg (winDrive cfg) (winDrive_allCi cfg) p parsed r h hr

/-- the case mode of the wrapper is decided by the configuration alone -/
theorem parseItems_ci (cfg : Cfg) (drive : List Char → DriveInfo) (p : List Char) (parsed : Parsed)
    (h : parseItems cfg drive p = .ok parsed) : parsed.ci = !cfg.caseSensitive := by
  unfold parseItems at h
  extract_lets ps0 a at h
  split at h
  · cases h
  · unfold parseBody at h
    extract_lets p2 at h
    split at h
    · cases h
    · cases h; rfl

/-! ### non-vacuity: a drive pattern whose regex really contains an inner `(?i:` scope -/

/-- does the regex contain a `.flags` node? -/
def Re.hasFlags : Re → Bool
  | .flags _ _ _ => true
  | .cat a b => a.hasFlags || b.hasFlags
  | .alt a b => a.hasFlags || b.hasFlags
  | .grp r => r.hasFlags
  | .cap r => r.hasFlags
  | .gcap r => r.hasFlags
  | .opt r => r.hasFlags
  | .star _ r => r.hasFlags
  | .plus r => r.hasFlags
  | .rep _ _ r => r.hasFlags
  | .look _ r => r.hasFlags
  | _ => false

/-- the inner regex of the pass, if the pass succeeds -/
def innerOf (cfg : Cfg) (p : String) : Option (Bool × Re) :=
  match parseItems cfg (winDrive cfg) p.toList with
  | .ok parsed =>
    match parsed.toRe with
    | some (.cat .bos (.cat (.flags true ci inner) .eos)) => some (ci, inner)
    | _ => none
  | .error _ => none

/-- `C:/a*` under FORCEWIN|PATHNAME|CASE: the outer scope is case-SENSITIVE, the drive is wrapped
    in an inner `(?i:…)` scope, and `parse_allCi` applies (its conclusion checked by evaluation) -/
example :
    (innerOf (Cfg.ofFlags false (Flags.ofNat (Gen.FFORCEWIN + Gen.FPATHNAME + Gen.FCASE))) "C:/a*").map
      (fun x => (x.1, x.2.hasFlags, x.2.allCi)) = some (false, true, true) := by
  decide +kernel

/-- … and a UNC drive `//server/share/x` -/
example :
    (innerOf (Cfg.ofFlags false (Flags.ofNat (Gen.FFORCEWIN + Gen.FPATHNAME + Gen.FCASE)))
      "//server/share/x").map (fun x => (x.1, x.2.hasFlags, x.2.allCi)) = some (false, true, true) := by
  decide +kernel

/-- an EXTMATCH pattern under IGNORECASE (no inner scope at all) -/
example :
    (innerOf (Cfg.ofFlags false (Flags.ofNat (Gen.FFORCEUNIX + Gen.FEXTMATCH + Gen.FIGNORECASE)))
      "@(a|!(b))[c-e]*.TXT").map (fun x => (x.1, x.2.hasFlags, x.2.allCi)) = some (true, false, true) := by
  decide +kernel

end WcModel

import WcModel.Proofs.PathlibViewsWalk
/-
  C16: what `_GlobSplit.split` and `WcParse.parse` produce for a literal one-segment pattern under
  `_EXTMATCHBASE` — the two inputs of `matchReal_emLit_iff_denotes`:

    * `globSplit_plain`   : the part list is `[**, s]`;
    * `parseItems_emLit`  : the regex is `emLitRe`  (the implicit `**` prefix, parsed as a pattern
                            of its own — `parsePrepend` — followed by the translation of `s`).
-/
namespace WcModel.PathlibViews
open WcModel

/-- the characters some flag makes special to `_GlobSplit` / `WcParse`, and the separator -/
def specials : List Char := ['*', '?', '[', ']', '\\', '/', '{', '}', '|', '~', '(', ')']

/-- a literal one-segment pattern, whatever the flags: no special character, does not begin
    like an exclusion pattern (`!`, `-`), is not `.` or `..` -/
structure PlainSeg (s : List Char) : Prop where
  ne : s ≠ []
  plain : ∀ c ∈ s, c ∉ specials
  head : s.head? ≠ some '!' ∧ s.head? ≠ some '-'
  notDots : s ≠ dot ∧ s ≠ dotdot

theorem PlainSeg.compOK {s : List Char} (h : PlainSeg s) : CompOK s :=
  ⟨h.ne, fun c hc e => h.plain c hc (by subst e; decide)⟩

theorem PlainSeg.not_negative {s : List Char} (h : PlainSeg s) (f : Flags) : isNegative f s = false := by
  unfold isNegative
  obtain ⟨h1, h2⟩ := h.head
  cases hs : s.head? with
  | none => simp
  | some c =>
    rw [hs] at h1 h2
    have c1 : c ≠ '!' := fun e => h1 (by rw [e])
    have c2 : c ≠ '-' := fun e => h2 (by rw [e])
    simp [c1, c2]

theorem not_special {c : Char} (h : c ∉ specials) :
    c ≠ '*' ∧ c ≠ '?' ∧ c ≠ '[' ∧ c ≠ ']' ∧ c ≠ '\\' ∧ c ≠ '/' ∧ c ≠ '{' ∧ c ≠ '}' ∧ c ≠ '|' ∧ c ≠ '~' ∧
      c ≠ '(' ∧ c ≠ ')' := by
  simp only [specials, List.mem_cons, List.mem_nil_iff, or_false, not_or] at h
  exact h

/-! ### `_GlobSplit.split` -/

theorem gsplit_parseExtend_noparen (e : Bool) (fuel : Nat) (it : It) (h : it.rest.head? ≠ some '(') :
    GSplit.parseExtend e (fuel + 1) it = (false, it) := by
  unfold GSplit.parseExtend
  cases hr : it.rest with
  | nil => simp [It.next, hr]
  | cons c r =>
    have : c ≠ '(' := by rw [hr] at h; simpa using h
    simp [It.next, hr, this]

/-- the scanner finds no split point in a run of ordinary characters -/
theorem scan_plain (e : Bool) : ∀ (s : List Char) (fuel i : Nat) (acc : List (Nat × Nat)),
    (∀ c ∈ s, c ∉ specials) → s.length < fuel → GSplit.scan e fuel ⟨i, s⟩ acc = acc.reverse := by
  intro s
  induction s with
  | nil =>
    intro fuel i acc _ hf
    cases fuel with
    | zero => simp at hf
    | succ n => simp [GSplit.scan, It.next]
  | cons c r ih =>
    intro fuel i acc hp hf
    cases fuel with
    | zero => simp at hf
    | succ n =>
      obtain ⟨_, _, h3, _, h5, h6, _⟩ := not_special (hp c List.mem_cons_self)
      have hr : ∀ x ∈ r, x ∉ specials := fun x hx => hp x (List.mem_cons_of_mem _ hx)
      have hhead : (⟨i + 1, r⟩ : It).rest.head? ≠ some '(' := by
        cases r with
        | nil => simp
        | cons d r' => simpa using (not_special (hr d List.mem_cons_self)).2.2.2.2.2.2.2.2.2.2.1
      unfold GSplit.scan
      simp only [It.next]
      have hext : (if (e && extTypes.contains c) = true then GSplit.parseExtend e (r.length + 2) ⟨i + 1, r⟩
          else (false, ⟨i + 1, r⟩)) = (false, ⟨i + 1, r⟩) := by
        split
        · exact gsplit_parseExtend_noparen e (r.length + 1) _ hhead
        · rfl
      simp only [hext, Bool.false_eq_true, if_false, h5, h6, h3]
      exact ih n (i + 1) acc hr (by simp at hf; omega)

theorem isMagic_plain (f : Flags) (s : List Char) (hp : ∀ c ∈ s, c ∉ specials) (hn : f.negate = false) :
    GSplit.isMagic f s = false := by
  unfold GSplit.isMagic
  rw [List.any_eq_false]
  intro c hc
  simp only [List.contains_eq_mem, decide_eq_true_eq]
  intro hcs
  have := not_special (hp c hcs)
  simp only [GSplit.magicSymbols, hn, Bool.false_eq_true, if_false, List.append_nil, List.mem_append] at hc
  rcases hc with (((hc | hc) | hc) | hc) | hc
  · have : c ∈ ['*', '?', '[', '\\', ']'] := hc
    simp only [List.mem_cons, List.mem_nil_iff, or_false] at this
    rcases this with rfl | rfl | rfl | rfl | rfl <;> simp_all
  · split at hc
    · have : c ∈ ['{', '}'] := hc
      simp only [List.mem_cons, List.mem_nil_iff, or_false] at this
      rcases this with rfl | rfl <;> simp_all
    · cases hc
  · split at hc
    · have : c ∈ ['|'] := hc
      simp only [List.mem_cons, List.mem_nil_iff, or_false] at this
      subst this; simp_all
    · cases hc
  · split at hc
    · have : c ∈ ['~'] := hc
      simp only [List.mem_cons, List.mem_nil_iff, or_false] at this
      subst this; simp_all
    · cases hc
  · split at hc
    · have : c ∈ ['(', ')'] := hc
      simp only [List.mem_cons, List.mem_nil_iff, or_false] at this
      rcases this with rfl | rfl <;> simp_all
    · cases hc

/-- **`_GlobSplit(s, flags).split()` for a literal one-segment pattern under `_EXTMATCHBASE`**:
    the implicit recursive part, then the literal -/
theorem globSplit_plain (f : Flags) (isBytes : Bool) (s : List Char) (hp : PlainSeg s)
    (hu : isUnixStyle f = true) (hem : f.extmatchbase = true) :
    globSplit f isBytes s = .ok [basePart (SplitCfg.ofFlags f isBytes), litPart s] := by
  rw [globSplit_eq]
  simp only [hu, Bool.not_true, Bool.false_eq_true, if_false]
  have heff : effPattern f s = s := by simp [effPattern, hp.not_negative f]
  rw [heff]
  have hhead : s.head? ≠ some '/' := by
    have := joinSl_head [s] (by intro c hc; simp only [List.mem_singleton] at hc; subst hc; exact hp.compOK)
    simpa [joinSl] using this
  have hstored : storedParts (SplitCfg.ofFlags f isBytes) s = .ok [litPart s] := by
    unfold storedParts
    rcases driveInit_cases s with ⟨r, rfl, _⟩ | ⟨_, hd⟩
    · simp at hhead
    · rw [hd]
      simp only
      rw [scan_plain _ s (s.length + 2) 0 [] hp.plain (by omega)]
      simp only [List.reverse_nil, GSplit.storeAll]
      have hlen : (-1 : Int) < (s.length : Int) := by omega
      have hdrop : List.drop ((-1 : Int) + 1).toNat s = s := by simp
      have hne : s.isEmpty = false := by
        cases s with
        | nil => exact absurd rfl hp.ne
        | cons _ _ => rfl
      simp only [hlen, hdrop, hne, Bool.not_false, and_self, if_true]
      have hmag : GSplit.isMagic (SplitCfg.ofFlags f isBytes).flags s = false :=
        isMagic_plain _ s hp.plain rfl
      have hs2 : (s == ['*', '*']) = false := by
        rw [beq_eq_false_iff_ne]; rintro rfl
        exact (not_special (hp.plain '*' (by simp))).1 rfl
      have hs3 : (s == ['*', '*', '*']) = false := by
        rw [beq_eq_false_iff_ne]; rintro rfl
        exact (not_special (hp.plain '*' (by simp))).1 rfl
      simp [GSplit.store, hmag, hs2, hs3, litPart]
  rw [hstored]
  have hbase : (basePart (SplitCfg.ofFlags f isBytes)).isDrive = false := by
    rcases basePart_cases (SplitCfg.ofFlags f isBytes) with ⟨h, _, _⟩ | h <;> rw [h]
  have hnb : needBase (SplitCfg.ofFlags f isBytes) [litPart s] = true := by
    have : (SplitCfg.ofFlags f isBytes).flags.extmatchbase = true := hem
    simp [needBase, this, litPart]
  have hgs : (litPart s).isGlobstar = false := rfl
  simp [withBase, hnb, hbase, hgs]

/-! ### `WcParse`: a literal segment, with `matchbase` / `extmatchbase` still set in the state

  `Proofs/LiteralPath.lean` proves what `root` emits for literal text under the invariant `TopInv`,
  which includes `matchbase = extmatchbase = false`.  The loop never reads these two fields; the
  lemmas needed here are re-proved under the invariant without them (`TopInvE`). -/

structure TopInvE (ps : PS) : Prop where
  dirStart : ps.dirStart = false
  inList : ps.inList = false
  invNest : ps.invNest = false
  mdd : ps.matchDotDir = false
  inv0 : ps.invExt = 0

def clrPS (ps : PS) : PS := { ps with matchbase := false, extmatchbase := false }

theorem TopInvE.clr {ps : PS} (h : TopInvE ps) : TopInv (clrPS ps) :=
  ⟨h.dirStart, h.inList, h.invNest, h.mdd, h.inv0, rfl, rfl⟩

theorem handleDot_clr (cfg : Cfg) (ps : PS) (it : It) : handleDot cfg ps it = handleDot cfg (clrPS ps) it := rfl

theorem updateDirState_E {ps : PS} (h : TopInvE ps) :
    TopInvE ps.updateDirState ∧ ps.updateDirState.afterStart = false ∧
    ps.updateDirState.extmatchbase = ps.extmatchbase ∧ ps.updateDirState.matchbase = ps.matchbase ∧
    ps.updateDirState.globstar = ps.globstar := by
  unfold PS.updateDirState
  simp only [h.dirStart, Bool.false_and, Bool.false_eq_true, if_false, Bool.not_false, Bool.true_and]
  split
  · exact ⟨⟨rfl, h.inList, h.invNest, h.mdd, h.inv0⟩, rfl, rfl, rfl, rfl⟩
  · rename_i hn
    exact ⟨h, by simpa using hn, rfl, rfl, rfl⟩

theorem parseExtendE_fail_noparen (cfg : Cfg) (fuel : Nat) (c : Char) (it : It) (ps : PS) (cur : List Item)
    (hinv : TopInvE ps) (hn : ∀ d it', it.next = some (d, it') → d ≠ '(') :
    parseExtend cfg (fuel + 1) c it ps cur true = (false, ps, it, cur) := by
  have hps : ({ afterStart := ps.afterStart, dirStart := ps.dirStart, inList := false, invNest := false,
                 invExt := ps.invExt, matchDotDir := false, matchbase := ps.matchbase,
                 extmatchbase := ps.extmatchbase, globstar := ps.globstar } : PS) = ps := by
    have h1 := hinv.inList; have h2 := hinv.invNest; have h3 := hinv.mdd
    cases ps; simp_all
  unfold parseExtend
  simp only [hinv.inList, hinv.invNest, Bool.not_false, ite_true]
  cases hnx : it.next with
  | none => simp [hps]
  | some v =>
    obtain ⟨d, it'⟩ := v
    have := hn d it' hnx
    simp [this, hps]

theorem rootLoopE_pplain (cfg : Cfg) (fuel i : Nat) (c : Char) (rest : List Char) (ps : PS)
    (cur : List Item) (hinv : TopInvE ps)
    (h1 : c ≠ '*') (h2 : c ≠ '?') (h3 : c ≠ '[') (h4 : c ≠ '\\') (h5 : c ≠ '.') (h6 : c ≠ '/')
    (hext : rest.head? ≠ some '(') :
    rootLoop cfg (fuel + 1) ⟨i, c :: rest⟩ ps cur =
      rootLoop cfg fuel ⟨i + 1, rest⟩ ps.updateDirState (.re (.lit c) :: cur) := by
  have hfail : parseExtend cfg (2 * rest.length + 8) c ⟨i + 1, rest⟩ ps cur true = (false, ps, ⟨i + 1, rest⟩, cur) := by
    apply parseExtendE_fail_noparen cfg (2 * rest.length + 7) c ⟨i + 1, rest⟩ ps cur hinv
    intro d it' hn
    cases rest with
    | nil => simp [It.next] at hn
    | cons x xs =>
      simp [It.next] at hn
      simp at hext
      rw [← hn.1]; exact hext
  conv => lhs; unfold rootLoop
  simp only [It.next]
  by_cases hx : (cfg.extend && decide (c ∈ extTypes)) = true
  · simp only [hx, ite_true, hfail]
    simp [h1, h2, h3, h4, h5, h6]
  · simp only [hx, Bool.false_eq_true, ite_false]
    simp [h1, h2, h3, h4, h5, h6]

/-- a plain string as a run of unescaped literal units -/
def plainToks (s : List Char) : List LTok := s.map (fun c => (⟨c, false⟩ : LTok))

theorem printToks_plain (s : List Char) : printToks (plainToks s) = s := by
  induction s with
  | nil => rfl
  | cons c cs ih =>
    unfold plainToks at ih ⊢
    rw [List.map_cons, printToks_cons, ih]; simp [LTok.print]

theorem tokChars_plain (s : List Char) : tokChars (plainToks s) = s := by
  unfold tokChars plainToks
  rw [List.map_map]
  exact List.map_id' s

theorem pokToks_plain (cfg : Cfg) (s : List Char) (hp : ∀ c ∈ s, c ∉ specials) : pokToks cfg (plainToks s) := by
  induction s with
  | nil => exact trivial
  | cons c cs ih =>
    have hc := not_special (hp c List.mem_cons_self)
    refine ⟨?_, ih (fun x hx => hp x (List.mem_cons_of_mem _ hx))⟩
    right
    refine ⟨rfl, hc.1, hc.2.1, hc.2.2.1, hc.2.2.2.2.1, ?_⟩
    intro _ _
    cases cs with
    | nil => exact trivial
    | cons d ds =>
      right
      exact (not_special (hp d (List.mem_cons_of_mem _ List.mem_cons_self))).2.2.2.2.2.2.2.2.2.2.1

/-- **the loop of `root` on a plain string**, from a state that may still carry `matchbase` /
    `extmatchbase`: the fragments of `Proofs/LiteralPath.lean`, and the three base flags untouched -/
theorem rootLoopE_plain (cfg : Cfg) (h : PathUnix cfg) : ∀ (s : List Char), (∀ c ∈ s, c ∉ specials) →
    ∀ (fuel i : Nat) (ps : PS) (cur : List Item) (st : LPos), TopInvE ps → ps.afterStart = st.after →
      s.length + 1 ≤ fuel →
      ∃ ps', rootLoop cfg fuel ⟨i, s⟩ ps cur = (ps', ((pathRes cfg st s).map Item.re).reverse ++ cur) ∧
        TopInvE ps' ∧ ps'.extmatchbase = ps.extmatchbase ∧ ps'.matchbase = ps.matchbase ∧
        ps'.globstar = ps.globstar := by
  intro s
  induction s with
  | nil =>
    intro _ fuel i ps cur st hinv _ hf
    cases fuel with
    | zero => simp at hf
    | succ f => exact ⟨ps, by simp [rootLoop, It.next, pathRes], hinv, rfl, rfl, rfl⟩
  | cons c r ih =>
    intro hp fuel i ps cur st hinv haft hf
    obtain ⟨f, rfl⟩ : ∃ f, fuel = f + 1 := ⟨fuel - 1, by simp at hf; omega⟩
    have hc := not_special (hp c List.mem_cons_self)
    have hr : ∀ x ∈ r, x ∉ specials := fun x hx => hp x (List.mem_cons_of_mem _ hx)
    obtain ⟨i1, i2, i3, i4, i5⟩ := updateDirState_E hinv
    have hsl : c ≠ '/' := hc.2.2.2.2.2.1
    by_cases hd : c = '.'
    · subst hd
      rw [rootLoop_pdot, handleDot_clr]
      have hdot := handleDot_toks cfg h (clrPS ps) hinv.clr (i + 1) (plainToks r) (pokToks_plain cfg r hr)
      rw [printToks_plain, tokChars_plain] at hdot
      rw [hdot]
      obtain ⟨ps', e1, e2, e3, e4, e5⟩ := ih hr f (i + 1) _
        (.re (dotRe cfg (clrPS ps).afterStart r) :: cur) .mid i1 (by rw [i2]; rfl) (by simp at hf; omega)
      refine ⟨ps', ?_, e2, e3.trans i3, e4.trans i4, e5.trans i5⟩
      rw [e1]
      have : (clrPS ps).afterStart = st.after := haft
      simp [pathRes, this]
    · have hhead : r.head? ≠ some '(' := by
        cases r with
        | nil => simp
        | cons d r' => simpa using (not_special (hr d List.mem_cons_self)).2.2.2.2.2.2.2.2.2.2.1
      rw [rootLoopE_pplain cfg f i c r ps cur hinv hc.1 hc.2.1 hc.2.2.1 hc.2.2.2.2.1 hd hsl hhead]
      obtain ⟨ps', e1, e2, e3, e4, e5⟩ := ih hr f (i + 1) _ (.re (.lit c) :: cur) .mid i1 (by rw [i2]; rfl)
        (by simp at hf; omega)
      refine ⟨ps', ?_, e2, e3.trans i3, e4.trans i4, e5.trans i5⟩
      rw [e1]
      simp [pathRes, hsl, hd]

/-- **`root` on a plain one-segment pattern** (path mode, Unix rules, REALPATH), whatever
    `matchbase` / `extmatchbase` say -/
theorem rootE_plain (cfg : Cfg) (h : PathUnix cfg) (hrp : cfg.realpath = true) (drive : List Char → DriveInfo)
    (s : List Char) (hp : ∀ c ∈ s, c ∉ specials) (ps : PS) (hinv : TopInvE ps) :
    ∃ ps', root cfg drive s ps [.empty] =
      .ok (ps', .re (Frag.pathTrail false) :: (((pathRes cfg .start s).map Item.re).reverse ++
        [.empty, .re Frag.noRoot, .empty])) ∧ ps'.extmatchbase = ps.extmatchbase ∧ ps'.matchbase = ps.matchbase := by
  have hwin : cfg.win = false := by simp [Cfg.win, h.unix]
  have hhd : s.head? ≠ some '/' := by
    cases s with
    | nil => simp
    | cons c r => simpa using (not_special (hp c List.mem_cons_self)).2.2.2.2.2.1
  rw [root_eq]
  unfold rootPre rootPost
  simp only [h.wdd, Bool.false_eq_true, ite_false, h.pathname, Bool.true_and, hhd, decide_false, Bool.and_false,
    Bool.not_false, hrp, ite_true]
  have hinv' : TopInvE ps.setAfterStart := ⟨rfl, hinv.inList, hinv.invNest, hinv.mdd, hinv.inv0⟩
  obtain ⟨ps', e1, e2, e3, e4, _⟩ := rootLoopE_plain cfg h s hp (s.length + 1) 0 ps.setAfterStart
    [.empty, .re Frag.noRoot, .empty] .start hinv' rfl (Nat.le_refl _)
  refine ⟨ps', ?_, e3, e4⟩
  simp only [e1, cleanUpInverse, e2.inv0, ite_true, hwin]

/-! ### `WcParse`: the implicit `**` of `_EXTMATCHBASE` (`parsePrepend`) -/

theorem hsSel_second (cfg : Cfg) (ps : PS) (c0 : Bool) (i : Nat) (ha : ps.afterStart = true) (hg : ps.globstar = true)
    (hl : ps.inList = false) :
    hsSel cfg ps ⟨i, ['*']⟩ c0 = (true, c0, ⟨i + 1, []⟩, ps) := by
  unfold hsSel
  simp only [ha, hg, hl, Bool.not_false, Bool.and_self, ite_true, It.next]
  cases cfg.globstarlong <;> simp [It.next]

theorem hsBody_glob (cfg : Cfg) (before : List Item) (star G : Re) (cap : Bool) (it : It) (ps : PS) :
    hsBody cfg (.empty :: before) star G (true, cap, it, ps) =
      (ps.resetDirTrack.setStartDir, consumePathSep cfg it,
        .re (Frag.globstarDiv cfg.win) :: .re (if cap then Re.gcap G else G) :: before) := by
  unfold hsBody
  simp [Item.isDiv, Item.isEmpty]

theorem consumePathSep_end (cfg : Cfg) (h : PathUnix cfg) (i : Nat) : consumePathSep cfg ⟨i, []⟩ = ⟨i, []⟩ := by
  simp [consumePathSep, h.bslash, consumeUnix, dropWhileCount]

/-- the state the implicit `**` leaves behind -/
def afterPrefix (ps : PS) : PS := { ps with afterStart := true, dirStart := false }

/-- **the implicit `**` prefix**, parsed as a pattern of its own with GLOBSTAR forced on: under
    REALPATH (globstar capture on) and without DOTMATCH it is
    `'' (?!/) (GSTAR) (?:^|$|[/])+ [/]*?` -/
theorem root_starstar (cfg : Cfg) (h : PathUnix cfg) (hrp : cfg.realpath = true) (hcap : cfg.globstarCapture = true)
    (hdot : cfg.dot = false) (drive : List Char → DriveInfo) (ps : PS) (hinv : TopInvE ps)
    (hgs : ps.globstar = true) :
    root cfg drive ['*', '*'] ps [.empty] =
      .ok (afterPrefix ps, [.re (Frag.pathTrail false), .re (Frag.globstarDiv false), .re (.gcap emG),
        .re Frag.noRoot, .empty]) := by
  have hwin : cfg.win = false := by simp [Cfg.win, h.unix]
  rw [root_eq]
  unfold rootPre rootPost
  have hhd : (['*', '*'] : List Char).head? ≠ some '/' := by decide
  simp only [h.wdd, Bool.false_eq_true, ite_false, h.pathname, Bool.true_and, hhd, decide_false, Bool.and_false,
    Bool.not_false, hrp, ite_true]
  have hinv' : TopInvE ps.setAfterStart := ⟨rfl, hinv.inList, hinv.invNest, hinv.mdd, hinv.inv0⟩
  have hloop : rootLoop cfg (['*', '*'].length + 1) ⟨0, ['*', '*']⟩ ps.setAfterStart [.empty, .re Frag.noRoot, .empty] =
      (afterPrefix ps, [.re (Frag.globstarDiv false), .re (.gcap emG), .re Frag.noRoot, .empty]) := by
    show rootLoop cfg (2 + 1) ⟨0, ['*', '*']⟩ ps.setAfterStart [.empty, .re Frag.noRoot, .empty] = _
    rw [rootLoop_succ]
    simp only [It.next]
    have hfail : parseExtend cfg (2 * ['*'].length + 8) '*' ⟨0 + 1, ['*']⟩ ps.setAfterStart
        [.empty, .re Frag.noRoot, .empty] true = (false, ps.setAfterStart, ⟨0 + 1, ['*']⟩, [.empty, .re Frag.noRoot, .empty]) := by
      apply parseExtendE_fail_noparen cfg (2 * ['*'].length + 7) '*' _ _ _ hinv'
      intro d it' hn
      simp [It.next] at hn
      rw [← hn.1]; decide
    have hother : rlOther cfg 2 '*' ps.setAfterStart ⟨0 + 1, ['*']⟩ [.empty, .re Frag.noRoot, .empty] =
        (afterPrefix ps, [.re (Frag.globstarDiv false), .re (.gcap emG), .re Frag.noRoot, .empty]) := by
      unfold rlOther
      have e1 : ('*' : Char) ≠ '.' := by decide
      simp only [e1, ite_false, ite_true]
      rw [handleStar_eq, hsSel_second cfg ps.setAfterStart _ _ rfl hgs hinv.inList, hsBody_glob, consumePathSep_end cfg h]
      simp only [h.pathname, hcap, Bool.and_self, ite_true, hwin]
      have hstar : (hsStar cfg ps.setAfterStart).2 = emG := by
        simp [hsStar, h.pathname, hdot, PS.setAfterStart, hwin, emG]
      rw [hstar]
      rw [rootLoop_succ]
      simp only [It.next]
      simp [PS.updateDirState, PS.setStartDir, PS.resetDirTrack, PS.setAfterStart, afterPrefix]
    by_cases hx : (cfg.extend && decide ('*' ∈ extTypes)) = true
    · simp only [hx, ite_true, hfail]
      exact hother
    · simp only [hx, Bool.false_eq_true, ite_false]
      exact hother
  rw [hloop]
  simp only [cleanUpInverse, afterPrefix, hinv.inv0, ite_true, hwin]

/-! ### the whole pass -/

/-- the items `WcParse(s, …).parse()` builds for a plain one-segment `s` under `_EXTMATCHBASE` + REALPATH -/
def emItems (cfg : Cfg) (s : List Char) : List Item :=
  [.empty, .re Frag.noRoot, .re (.gcap emG), .re (Frag.globstarDiv false), .re (Frag.pathTrail false)] ++
  ([.empty, .re Frag.noRoot, .empty] ++ (pathRes cfg .start s).map Item.re ++ [.re (Frag.pathTrail false)])

theorem parseBody_emLit (cfg : Cfg) (h : PathUnix cfg) (hrp : cfg.realpath = true)
    (drive : List Char → DriveInfo) (s : List Char) (hp : PlainSeg s) (ps2 : PS) (hinv : TopInvE ps2)
    (he : ps2.extmatchbase = true) (pre : List Item) :
    parseBody cfg drive s ps2 pre =
      .ok { items := pre.reverse ++ ([.empty, .re Frag.noRoot, .empty] ++ (pathRes cfg .start s).map Item.re ++
              [.re (Frag.pathTrail false)]), ci := !cfg.caseSensitive } := by
  unfold parseBody
  have hbs : s ≠ ['\\'] := by
    rintro rfl
    exact (not_special (hp.plain '\\' (by simp))).2.2.2.2.1 rfl
  have hne : s.isEmpty = false := by
    cases s with
    | nil => exact absurd rfl hp.ne
    | cons _ _ => rfl
  simp only [hbs, ite_false, hne, Bool.false_eq_true]
  obtain ⟨ps', hr, he2, _⟩ := rootE_plain cfg h hrp drive s hp.plain ps2 hinv
  rw [hr]
  have he' : ps'.extmatchbase = true := by rw [he2]; exact he
  simp [he']

/-- **`WcParse.parse` on a plain one-segment pattern under `_EXTMATCHBASE`** (path mode, Unix rules,
    REALPATH with globstar capture, no DOTMATCH, no `_ANCHOR`, the implicit part is `**` not `***`):
    the implicit `**` is translated as a pattern of its own and put in front of the translation
    of `s` -/
theorem parseItems_emLit (cfg : Cfg) (h : PathUnix cfg) (hrp : cfg.realpath = true)
    (hcap : cfg.globstarCapture = true) (hdot : cfg.dot = false) (han : cfg.anchor = false)
    (hem : cfg.extmatchbase0 = true) (hgl : (cfg.globstarlong && cfg.follow) = false)
    (drive : List Char → DriveInfo) (s : List Char) (hp : PlainSeg s) :
    parseItems cfg drive s = .ok { items := emItems cfg s, ci := !cfg.caseSensitive } := by
  unfold parseItems
  simp only [anchorStep, han, Bool.false_eq_true, ite_false]
  simp only [parsePrepend, hem, Bool.or_true, ite_true, hgl, Bool.false_eq_true, ite_false]
  rw [root_starstar cfg h hrp hcap hdot drive _ ⟨rfl, rfl, rfl, rfl, rfl⟩ rfl]
  simp only
  rw [parseBody_emLit cfg h hrp drive s hp _ ⟨rfl, rfl, rfl, rfl, rfl⟩ rfl]
  simp [emItems]

theorem emItems_toRe (cfg : Cfg) (hrp : cfg.realpath = true) (s : List Char) (hs : s ≠ [])
    (hh : s.head? ≠ some '/') (ci : Bool) :
    (Parsed.toRe { items := emItems cfg s, ci := ci }) =
      some (.cat .bos (.cat (.flags true ci (seqRe (emList cfg s))) .eos)) := by
  have e : emItems cfg s = (([none, some Frag.noRoot, some (.gcap emG), some (Frag.globstarDiv false),
      some (Frag.pathTrail false), none, some Frag.noRoot, none] ++ (pathRes cfg .start s).map some ++
      [some (Frag.pathTrail false)]).map optItem) := by
    simp [emItems, optItem, Function.comp_def]
  rw [e, toRe_opts]
  congr 6
  simp [emList, emRestList, pathReList, hs, hh, hrp, List.filterMap_append]

end WcModel.PathlibViews

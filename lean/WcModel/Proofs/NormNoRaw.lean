import WcModel.Proofs.Norm
/-
  Without RAWCHARS the normaliser does not depend on the type of the pattern (C18, after the D38
  repair): for every text, `util.norm_pattern` rewrites `\/` (to four backslashes, under Windows
  rules) and copies everything else — whatever tokens the two scanners `RE_NORM` / `RE_BNORM` cut
  the text into on the way.  `ref` is that description; `go_noraw` shows the scanner computes it.
-/
namespace WcModel.Norm

/-- what the normaliser does without RAWCHARS, written out: an escape keeps its character, `\/` is
    rewritten under `normalize`, everything else is copied -/
def ref (normalize : Bool) : List Char → List Char
  | [] => []
  | '\\' :: c :: r => (if c = '/' then (if normalize then bs4 else ['\\', '/']) else ['\\', c]) ++ ref normalize r
  | c :: r => c :: ref normalize r

theorem ref_plain (n : Bool) (c : Char) (r : List Char) (h : c ≠ '\\') : ref n (c :: r) = c :: ref n r := by
  cases r <;> simp [ref, h]

theorem ref_digits (n : Bool) : ∀ (ds rest : List Char), (∀ d ∈ ds, d ≠ '\\') → ref n (ds ++ rest) = ds ++ ref n rest
  | [], _, _ => by simp
  | d :: ds, rest, h => by
    have hd : d ≠ '\\' := h d (by simp)
    rw [List.cons_append, ref_plain n d _ hd, ref_digits n ds rest (fun x hx => h x (by simp [hx]))]
    simp

theorem asciiHex_ne_bs {c : Char} {v : Nat} (h : asciiHex? c = some v) : c ≠ '\\' := by
  rintro rfl; simp [asciiHex?] at h

theorem octVal_ne_bs {c : Char} {v : Nat} (h : octVal? c = some v) : c ≠ '\\' := by
  rintro rfl; simp [octVal?] at h

theorem takeHex_split (cfg : Cfg) : ∀ (n acc : Nat) (s : List Char) (v : Nat) (ds rest : List Char),
    takeHex cfg n acc s = some (v, ds, rest) → s = ds ++ rest ∧ ∀ d ∈ ds, d ≠ '\\'
  | 0, acc, s, v, ds, rest, h => by
    simp [takeHex] at h; obtain ⟨_, rfl, rfl⟩ := h; simp
  | n + 1, acc, [], v, ds, rest, h => by simp [takeHex] at h
  | n + 1, acc, c :: s, v, ds, rest, h => by
    simp only [takeHex] at h
    cases hv : hexVal? cfg c with
    | none => simp [hv] at h
    | some w =>
      simp only [hv] at h
      cases ht : takeHex cfg n (acc * 16 + w) s with
      | none => simp [ht] at h
      | some t =>
        obtain ⟨v', ds', rest'⟩ := t
        simp only [ht, Option.some.injEq, Prod.mk.injEq] at h
        obtain ⟨_, rfl, rfl⟩ := h
        obtain ⟨hs, hd⟩ := takeHex_split cfg n _ s v' ds' rest' ht
        refine ⟨by simp [hs], ?_⟩
        intro d hm
        rcases List.mem_cons.1 hm with rfl | hm
        · exact asciiHex_ne_bs (by simpa [hexVal?] using hv)
        · exact hd d hm

theorem takeOct_split : ∀ (n acc : Nat) (s : List Char),
    s = (takeOct n acc s).2.1 ++ (takeOct n acc s).2.2 ∧ ∀ d ∈ (takeOct n acc s).2.1, d ≠ '\\'
  | 0, acc, s => by simp [takeOct]
  | n + 1, acc, [] => by simp [takeOct]
  | n + 1, acc, c :: s => by
    simp only [takeOct]
    cases hv : octVal? c with
    | none => simp
    | some w =>
      obtain ⟨hs, hd⟩ := takeOct_split n (acc * 8 + w) s
      simp only
      refine ⟨by simp; exact hs, ?_⟩
      intro d hm
      rcases List.mem_cons.1 hm with rfl | hm
      · exact octVal_ne_bs hv
      · exact hd d hm

/-- one scanner step without RAWCHARS: the token's output followed by `ref` of the rest is `ref` of the text, and the rest is shorter -/
theorem scan1_noraw (cfg : Cfg) (hr : cfg.raw = false) (s : List Char) (m : NMatch) (rest : List Char)
    (h : scan1 cfg s = some (m, rest)) :
    ∃ a, callback cfg m = .ok a ∧ a ++ ref cfg.normalize rest = ref cfg.normalize s ∧ rest.length < s.length := by
  cases s with
  | nil => simp [scan1] at h
  | cons c0 t =>
    by_cases hsl : c0 = '/'
    · subst hsl
      simp only [scan1, Option.some.injEq, Prod.mk.injEq] at h
      obtain ⟨rfl, rfl⟩ := h
      exact ⟨['/'], by simp [callback], by rw [ref_plain _ _ _ (by decide)]; simp, by simp⟩
    by_cases hbs : c0 = '\\'
    · subst hbs
      cases t with
      | nil =>
        simp only [scan1, Option.some.injEq, Prod.mk.injEq] at h
        obtain ⟨rfl, rfl⟩ := h
        exact ⟨['\\'], by simp [callback], by simp [ref], by simp⟩
      | cons c r =>
        simp only [scan1] at h
        by_cases hc : c = '/'
        · subst hc
          simp only [if_true, Option.some.injEq, Prod.mk.injEq] at h
          obtain ⟨rfl, rfl⟩ := h
          exact ⟨if cfg.normalize then bs4 else ['\\', '/'], by simp [callback], by simp [ref], by simp; omega⟩
        simp only [hc, if_false] at h
        have hrefc : ∀ out, ref cfg.normalize ('\\' :: c :: out) = '\\' :: c :: ref cfg.normalize out := by
          intro out; simp [ref, hc]
        by_cases hsimp : c ∈ simpleSet
        · simp only [hsimp, if_true, Option.some.injEq, Prod.mk.injEq] at h
          obtain ⟨rfl, rfl⟩ := h
          exact ⟨['\\', c], by simp [callback, hr], by simp [hrefc], by simp; omega⟩
        simp only [hsimp, if_false] at h
        -- the remaining alternatives: every one of them gives back its own text
        split at h
        · -- group 3
          rename_i x hx
          simp only [Option.some.injEq] at h
          subst h
          split at hx
          · -- \U + 8 hex
            rename_i hU
            cases ht : takeHex cfg 8 0 r with
            | none => simp [ht] at hx
            | some t3 =>
              obtain ⟨v, ds, rest'⟩ := t3
              simp only [ht, Option.map_some, Option.some.injEq, Prod.mk.injEq] at hx
              obtain ⟨rfl, rfl⟩ := hx
              obtain ⟨hs, hd⟩ := takeHex_split cfg 8 0 r v ds rest' ht
              have e := ref_digits cfg.normalize ds rest' hd
              rw [← hs] at e
              refine ⟨'\\' :: c :: ds, by simp [callback, hr, hU.1], ?_, by rw [hs]; simp; omega⟩
              rw [hrefc, e]; simp
          · split at hx
            · rename_i hu
              cases ht : takeHex cfg 4 0 r with
              | none => simp [ht] at hx
              | some t3 =>
                obtain ⟨v, ds, rest'⟩ := t3
                simp only [ht, Option.map_some, Option.some.injEq, Prod.mk.injEq] at hx
                obtain ⟨rfl, rfl⟩ := hx
                obtain ⟨hs, hd⟩ := takeHex_split cfg 4 0 r v ds rest' ht
                have e := ref_digits cfg.normalize ds rest' hd
                rw [← hs] at e
                refine ⟨'\\' :: c :: ds, by simp [callback, hr, hu.1], ?_, by rw [hs]; simp; omega⟩
                rw [hrefc, e]; simp
            · split at hx
              · rename_i hxx
                cases ht : takeHex cfg 2 0 r with
                | none => simp [ht] at hx
                | some t3 =>
                  obtain ⟨v, ds, rest'⟩ := t3
                  simp only [ht, Option.map_some, Option.some.injEq, Prod.mk.injEq] at hx
                  obtain ⟨rfl, rfl⟩ := hx
                  obtain ⟨hs, hd⟩ := takeHex_split cfg 2 0 r v ds rest' ht
                  have e := ref_digits cfg.normalize ds rest' hd
                  rw [← hs] at e
                  refine ⟨'\\' :: c :: ds, by simp [callback, hr, hxx], ?_, by rw [hs]; simp; omega⟩
                  rw [hrefc, e]; simp
              · -- octal
                cases hv : octVal? c with
                | none => simp [hv] at hx
                | some v =>
                  simp only [hv, Option.some.injEq, Prod.mk.injEq] at hx
                  obtain ⟨rfl, rfl⟩ := hx
                  obtain ⟨hs, hd⟩ := takeOct_split 2 v r
                  have e := ref_digits cfg.normalize (takeOct 2 v r).2.1 (takeOct 2 v r).2.2 hd
                  rw [← hs] at e
                  refine ⟨'\\' :: c :: (takeOct 2 v r).2.1, by simp [callback, hr], ?_, ?_⟩
                  · rw [hrefc, e]; simp
                  · have hl : r.length = (takeOct 2 v r).2.1.length + (takeOct 2 v r).2.2.length := by
                      have := congrArg List.length hs
                      simpa using this
                    simp only [List.length_cons]; omega
        · -- not group 3: group 5 (only under RAWCHARS), `other`, `incomplete`
          simp only [hr, Bool.false_eq_true, and_false, if_false] at h
          generalize (if cfg.isBytes = true then c == 'x' else c == 'N' || c == 'U' || c == 'u' || c == 'x') = sp at h
          cases sp
          · simp only [Bool.false_eq_true, if_false, Option.some.injEq, Prod.mk.injEq] at h
            obtain ⟨rfl, rfl⟩ := h
            exact ⟨['\\', c], by simp [callback], by simp [hrefc], by simp; omega⟩
          · simp only [if_true, Option.some.injEq, Prod.mk.injEq] at h
            obtain ⟨rfl, rfl⟩ := h
            exact ⟨['\\', c], by simp [callback, hr], by simp [hrefc], by simp; omega⟩
    · -- an ordinary character
      have : scan1 cfg (c0 :: t) = some (.copy c0, t) := by
        unfold scan1; split <;> simp_all
      rw [this] at h
      simp only [Option.some.injEq, Prod.mk.injEq] at h
      obtain ⟨rfl, rfl⟩ := h
      exact ⟨[c0], by simp [callback], by rw [ref_plain _ _ _ hbs]; simp, by simp⟩

/-- **without RAWCHARS the scanner computes `ref`** — for every configuration, in particular for both types -/
theorem go_noraw (cfg : Cfg) (hr : cfg.raw = false) : ∀ (f : Nat) (s : List Char), s.length ≤ f →
    go cfg f s = .ok (ref cfg.normalize s)
  | 0, s, h => by
    have : s = [] := List.length_eq_zero_iff.1 (Nat.le_zero.1 h)
    subst this; simp [go, ref]
  | f + 1, s, h => by
    rw [go]
    cases hs : scan1 cfg s with
    | none =>
      cases s with
      | nil => simp [ref]
      | cons c t =>
        exfalso
        unfold scan1 at hs
        split at hs <;> simp_all
        all_goals (repeat' split at hs) <;> simp_all
    | some mr =>
      obtain ⟨m, rest⟩ := mr
      obtain ⟨a, ha, href, hlt⟩ := scan1_noraw cfg hr s m rest hs
      simp only [ha, go_noraw cfg hr f rest (by omega), href]

/-- **`util.norm_pattern` without RAWCHARS is type-blind** (C18): the bytes and the str normaliser return the same text for every pattern,
    under Unix and under Windows rules -/
theorem normPattern_noraw_type_blind (cfg : Cfg) (hr : cfg.raw = false) (b₁ b₂ : Bool) (s : List Char) :
    normPattern { cfg with isBytes := b₁ } s = normPattern { cfg with isBytes := b₂ } s := by
  unfold normPattern
  simp only [hr]
  cases cfg.normalize
  · simp
  · simp only [Bool.not_true, Bool.false_and, Bool.false_eq_true, if_false]
    rw [go_noraw { isBytes := b₁, normalize := true, raw := false, lookup := cfg.lookup } rfl _ _ (Nat.le_refl _),
      go_noraw { isBytes := b₂, normalize := true, raw := false, lookup := cfg.lookup } rfl _ _ (Nat.le_refl _)]

end WcModel.Norm

import WcModel.Spec.Lang
import WcModel.Proofs.Regex
/-
  The executable specification `Pat.ends` / `Pat.langB` computes exactly the declarative
  `Pat.L` / `Pat.Lang`.  (So the oracle the failing-input search runs *is* the specification
  the theorems are about.)
-/
namespace WcModel

theorem Pat.L_le (ci : Bool) (g : Pat) : ∀ a b, Pat.L ci g a b → St.Le b a := by
  induction g with
  | eps => intro a b h; simp only [Pat.L] at h; exact h ▸ St.Le.refl a
  | lit c => intro a b h; exact consume1_le h
  | any => intro a b h; exact consume1_le h
  | star => intro a b h; exact Iter.le (fun _ _ h => consume1_le h) h
  | cls n i => intro a b h; exact consume1_le h
  | seq p q ihp ihq =>
    intro a b h; obtain ⟨c, h1, h2⟩ := h
    exact (ihq _ _ h2).trans (ihp _ _ h1)
  | alt p q ihp ihq =>
    intro a b h; rcases h with h | h
    · exact ihp _ _ h
    · exact ihq _ _ h
  | ext k p ih =>
    intro a b h
    cases k with
    | opt => rcases h with h | h
             · exact h ▸ St.Le.refl a
             · exact ih _ _ h
    | star => exact Iter.le ih h
    | plus => obtain ⟨c, h1, h2⟩ := h; exact (Iter.le ih h2).trans (ih _ _ h1)
    | one => exact ih _ _ h
    | neg => exact Iter.le (fun _ _ h => consume1_le h) h.1

/-! ### `suffixStates` is the reflexive–transitive closure of "consume one character" -/

theorem mem_suffixStatesAux (r : List Char) (b : St) :
    b ∈ suffixStates.suffixStatesAux r ↔ b.atStart = false ∧ ∃ pre, r = pre ++ b.rest := by
  induction r with
  | nil =>
    simp only [suffixStates.suffixStatesAux, List.mem_singleton]
    constructor
    · rintro rfl; exact ⟨rfl, [], rfl⟩
    · rintro ⟨h1, pre, h2⟩
      have : pre = [] ∧ b.rest = [] := by
        cases pre with
        | nil => exact ⟨rfl, by simpa using h2.symm⟩
        | cons x xs => simp at h2
      cases b; simp_all
  | cons c r ih =>
    simp only [suffixStates.suffixStatesAux, List.mem_cons, ih]
    constructor
    · rintro (rfl | ⟨h1, pre, h2⟩)
      · exact ⟨rfl, [], rfl⟩
      · exact ⟨h1, c :: pre, by simp [h2]⟩
    · rintro ⟨h1, pre, h2⟩
      cases pre with
      | nil => left; cases b; simp_all
      | cons x xs =>
        right
        simp only [List.cons_append, List.cons.injEq] at h2
        exact ⟨h1, xs, h2.2⟩

theorem consumeAny_iter_of_split (f : Bool) (pre rest : List Char) (hne : pre ≠ []) :
    Iter (consume1 (fun _ => true)) ⟨f, pre ++ rest⟩ ⟨false, rest⟩ := by
  induction pre generalizing f with
  | nil => exact absurd rfl hne
  | cons c pre ih =>
    refine Iter.step (b := ⟨false, pre ++ rest⟩) ⟨c, pre ++ rest, rfl, rfl, rfl⟩ ?_
    cases pre with
    | nil => exact Iter.refl _
    | cons d pre' => exact ih false (by simp)

theorem iter_consumeAny_split {a b : St} (h : Iter (consume1 (fun _ => true)) a b) :
    b = a ∨ (b.atStart = false ∧ ∃ pre, pre ≠ [] ∧ a.rest = pre ++ b.rest) := by
  induction h with
  | refl a => exact Or.inl rfl
  | step hab _ ih =>
    rename_i a m c
    obtain ⟨d, s, h1, _, rfl⟩ := hab
    rcases ih with rfl | ⟨h2, pre, _, h3⟩
    · exact Or.inr ⟨rfl, [d], by simp, by simp [h1]⟩
    · exact Or.inr ⟨h2, d :: pre, by simp, by simp only at h3; simp [h1, h3]⟩

theorem mem_suffixStates (a b : St) :
    b ∈ suffixStates a ↔ Iter (consume1 (fun _ => true)) a b := by
  rcases a with ⟨f, r⟩
  cases r with
  | nil =>
    simp only [suffixStates, List.mem_singleton]
    constructor
    · rintro rfl; exact Iter.refl _
    · intro h
      rcases iter_consumeAny_split h with h | ⟨_, pre, hne, h3⟩
      · exact h
      · simp at h3; exact absurd h3.1 hne
  | cons c r =>
    simp only [suffixStates, List.mem_cons, mem_suffixStatesAux]
    constructor
    · rintro (rfl | ⟨h1, pre, h2⟩)
      · exact Iter.refl _
      · rcases b with ⟨bf, br⟩
        simp only at h1 h2; subst h1; subst h2
        exact consumeAny_iter_of_split f (c :: pre) br (by simp)
    · intro h
      rcases iter_consumeAny_split h with h | ⟨h2, pre, hne, h3⟩
      · exact Or.inl h
      · right
        refine ⟨h2, ?_⟩
        cases pre with
        | nil => exact absurd rfl hne
        | cons x xs =>
          simp only [List.cons_append, List.cons.injEq] at h3
          exact ⟨xs, h3.2⟩

/-! ### the main equivalence -/

theorem Pat.mem_ends_iff (ci : Bool) (g : Pat) : ∀ a b, b ∈ Pat.ends ci g a ↔ Pat.L ci g a b := by
  induction g with
  | eps => intro a b; simp [Pat.ends, Pat.L]
  | lit c => intro a b; simp only [Pat.ends, Pat.L]; exact mem_step1
  | any => intro a b; simp only [Pat.ends, Pat.L]; exact mem_step1
  | star => intro a b; simp only [Pat.ends, Pat.L]; exact mem_suffixStates a b
  | cls n i => intro a b; simp only [Pat.ends, Pat.L]; exact mem_step1
  | seq p q ihp ihq =>
    intro a b
    simp only [Pat.ends, Pat.L, mem_dedup, List.mem_flatMap]
    constructor
    · rintro ⟨c, hc, hb⟩; exact ⟨c, (ihp _ _).mp hc, (ihq _ _).mp hb⟩
    · rintro ⟨c, hc, hb⟩; exact ⟨c, (ihp _ _).mpr hc, (ihq _ _).mpr hb⟩
  | alt p q ihp ihq =>
    intro a b
    simp only [Pat.ends, Pat.L, mem_dedup, List.mem_append, ihp, ihq]
  | ext k p ih =>
    intro a b
    cases k with
    | opt => simp only [Pat.ends, Pat.L, mem_dedup, List.mem_cons, ih]
    | star =>
      simp only [Pat.ends, Pat.L]
      exact mem_closeN_iff ih (Pat.L_le ci p) a b
    | plus =>
      simp only [Pat.ends, Pat.L, mem_dedup, List.mem_flatMap]
      constructor
      · rintro ⟨c, hc, hb⟩
        exact ⟨c, (ih _ _).mp hc, (mem_closeN_iff ih (Pat.L_le ci p) c b).mp hb⟩
      · rintro ⟨c, hc, hb⟩
        exact ⟨c, (ih _ _).mpr hc, (mem_closeN_iff ih (Pat.L_le ci p) c b).mpr hb⟩
    | one => simp only [Pat.ends, Pat.L]; exact ih a b
    | neg =>
      simp only [Pat.ends, Pat.L, List.mem_filter, mem_suffixStates, Bool.not_eq_true']
      constructor
      · rintro ⟨h1, h2⟩
        refine ⟨h1, fun hL => ?_⟩
        have := (ih a b).mpr hL
        have hc : (Pat.ends ci p a).contains b = true := by simpa using this
        rw [hc] at h2; cases h2
      · rintro ⟨h1, h2⟩
        refine ⟨h1, ?_⟩
        cases hc : (Pat.ends ci p a).contains b with
        | false => rfl
        | true =>
          have : b ∈ Pat.ends ci p a := by simpa using hc
          exact absurd ((ih a b).mp this) h2

theorem Pat.langB_iff (ci : Bool) (g : Pat) (s : List Char) : g.langB ci s = true ↔ g.Lang ci s := by
  unfold Pat.langB Pat.Lang
  rw [List.any_eq_true]
  constructor
  · rintro ⟨e, he, hr⟩
    rcases e with ⟨f, rest⟩
    have : rest = [] := by simpa using hr
    subst this
    exact ⟨f, (Pat.mem_ends_iff _ _ _ _).mp he⟩
  · rintro ⟨f, h⟩
    exact ⟨⟨f, []⟩, (Pat.mem_ends_iff _ _ _ _).mpr h, rfl⟩

end WcModel

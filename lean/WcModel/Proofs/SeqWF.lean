import WcModel.Model.Parse
import WcModel.Model.ToRe
/-
  C10 — "bracket expressions never produce an invalid character class" on the faithful port
  `sequence` (Model/Parse.lean).

  History: on the pinned code the statement was FALSE (finding D29): `[a-\z-b0]` was translated to
  `[a-0]` (`re.error: bad character range`), because `escape_hyphen = i.index + 1` assumed that the
  END of a range is one character long; after a two-character escape (`\z`) the next `-` was
  taken for a range operator again, `_sequence_range_check` compared against the END of the
  previous range and, when it popped, left the `a-` of the previous range dangling.  The repair
  (`escape_hyphen = i.index` at the two places where a pending range is resolved) is mirrored in
  `seqLoop`.  This file proves, from ONE invariant about `seqLoopG fix`
  (`seqLoopG true = seqLoop`, `seqLoopG false` = the loop before the repair):

  * `sequenceG_clsWF true`  : the theorem for EVERY cfg / ps / it (→ `C10cls.sequence_clsWF`);
  * `sequenceG_clsWF false` : the old loop was already right on every text without `-\x-`.
-/
namespace WcModel

/-! ### well-formed classes -/

/-- a class member Python's `re` accepts: a range must not be reversed -/
def ClsItem.WF : ClsItem → Prop
  | .range lo _ hi _ => lo.toNat ≤ hi.toNat
  | .chr _ _ => True
  | .posix _ _ _ => True

instance : DecidablePred ClsItem.WF := fun i => by
  cases i <;> unfold ClsItem.WF <;> exact inferInstance

/-- every `[...]` anywhere in the regex is non-empty and has no reversed range -/
def Re.ClsWF : Re → Prop
  | .cls _ items => items ≠ [] ∧ ∀ i ∈ items, i.WF
  | .cat a b => a.ClsWF ∧ b.ClsWF
  | .alt a b => a.ClsWF ∧ b.ClsWF
  | .grp r => r.ClsWF
  | .cap r => r.ClsWF
  | .gcap r => r.ClsWF
  | .opt r => r.ClsWF
  | .star _ r => r.ClsWF
  | .plus r => r.ClsWF
  | .rep _ _ r => r.ClsWF
  | .look _ r => r.ClsWF
  | .flags _ _ r => r.ClsWF
  | .eps => True
  | .lit _ => True
  | .any => True
  | .bos => True
  | .eos => True

instance Re.decClsWF : (r : Re) → Decidable r.ClsWF
  | .cls _ items => by unfold Re.ClsWF; exact inferInstance
  | .cat a b => by
      unfold Re.ClsWF
      exact @instDecidableAnd _ _ (Re.decClsWF a) (Re.decClsWF b)
  | .alt a b => by
      unfold Re.ClsWF
      exact @instDecidableAnd _ _ (Re.decClsWF a) (Re.decClsWF b)
  | .grp r => by unfold Re.ClsWF; exact Re.decClsWF r
  | .cap r => by unfold Re.ClsWF; exact Re.decClsWF r
  | .gcap r => by unfold Re.ClsWF; exact Re.decClsWF r
  | .opt r => by unfold Re.ClsWF; exact Re.decClsWF r
  | .star _ r => by unfold Re.ClsWF; exact Re.decClsWF r
  | .plus r => by unfold Re.ClsWF; exact Re.decClsWF r
  | .rep _ _ r => by unfold Re.ClsWF; exact Re.decClsWF r
  | .look _ r => by unfold Re.ClsWF; exact Re.decClsWF r
  | .flags _ _ r => by unfold Re.ClsWF; exact Re.decClsWF r
  | .eps => by unfold Re.ClsWF; exact inferInstance
  | .lit _ => by unfold Re.ClsWF; exact inferInstance
  | .any => by unfold Re.ClsWF; exact inferInstance
  | .bos => by unfold Re.ClsWF; exact inferInstance
  | .eos => by unfold Re.ClsWF; exact inferInstance

theorem catE_clsWF {a b : Re} (ha : a.ClsWF) (hb : b.ClsWF) : (catE a b).ClsWF := by
  unfold catE; split
  · exact hb
  · exact ⟨ha, hb⟩

/-! ### regrouping: `groupAtoms` on a well-shaped atom list -/

/-- atom lists on which `groupAtoms` provably emits only well-formed members: single members,
    checked triples `lo - hi`, and possibly one trailing bare dash -/
inductive GoodA : List (Option ClsItem) → Prop
  | nil : GoodA []
  | dashEnd : GoodA [none]
  | one {a r} : a.WF → GoodA r → GoodA (some a :: r)
  | rng {lo le hi he r} : lo.toNat ≤ hi.toNat → GoodA r →
      GoodA (some (.chr lo le) :: none :: some (.chr hi he) :: r)

theorem GoodA.shape {l} (h : GoodA l) : l = [] ∨ l = [none] ∨ ∃ a r, l = some a :: r := by
  cases h
  · exact .inl rfl
  · exact .inr (.inl rfl)
  · exact .inr (.inr ⟨_, _, rfl⟩)
  · exact .inr (.inr ⟨_, _, rfl⟩)

theorem groupAtoms_one (fuel : Nat) (a : ClsItem) (r : List (Option ClsItem))
    (hr : r = [] ∨ r = [none] ∨ ∃ b r', r = some b :: r') :
    groupAtoms (fuel + 1) (some a :: r) = a :: groupAtoms fuel r := by
  rcases hr with rfl | rfl | ⟨b, r', rfl⟩
  · cases a <;> simp [groupAtoms]
  · cases a <;> simp [groupAtoms]
  · cases a <;> simp [groupAtoms]

theorem groupAtoms_wf {l} (h : GoodA l) : ∀ fuel, ∀ i ∈ groupAtoms fuel l, i.WF := by
  induction h with
  | nil => intro fuel i hi; cases fuel <;> simp [groupAtoms] at hi
  | dashEnd =>
    intro fuel i hi
    cases fuel with
    | zero => simp [groupAtoms] at hi
    | succ f =>
      cases f <;> simp [groupAtoms] at hi <;> subst hi <;> trivial
  | @one a r ha hr ih =>
    intro fuel i hi
    cases fuel with
    | zero => simp [groupAtoms] at hi
    | succ f =>
      rw [groupAtoms_one f a r hr.shape] at hi
      rcases List.mem_cons.1 hi with rfl | hi
      · exact ha
      · exact ih f i hi
  | @rng lo le hi he r hle hr ih =>
    intro fuel i hi'
    cases fuel with
    | zero => simp [groupAtoms] at hi'
    | succ f =>
      simp only [groupAtoms] at hi'
      rcases List.mem_cons.1 hi' with rfl | hi'
      · exact hle
      · exact ih f i hi'

theorem groupAtoms_ne_nil (fuel : Nat) {l : List (Option ClsItem)} (h : l ≠ []) :
    groupAtoms (fuel + 1) l ≠ [] := by
  unfold groupAtoms
  split <;> simp_all


/-! ### the token stack -/

/-- members (everything the loop pushes except the bare dash) -/
def CTok.isMem : CTok → Bool
  | .chr _ _ => true
  | .posix _ => true
  | .sepBare => true
  | _ => false

/-- tokens that can start or end a range -/
def CTok.isRS : CTok → Bool
  | .chr _ _ => true
  | .sepBare => true
  | _ => false

theorem CTok.isMem_of_isRS {t : CTok} (h : t.isRS = true) : t.isMem = true := by
  cases t <;> simp_all [CTok.isRS, CTok.isMem]

/-- a *settled* member stack (head = most recent token, no pending range): free members and
    triples `y - x` (pushed in the order `x`, `-`, `y`) that `seqRangeCheck` accepted.  By
    construction a range end is never directly followed by another bare dash. -/
inductive GoodS (b : Bool) : List CTok → Prop
  | nil : GoodS b []
  | free {z s} : z.isMem = true → GoodS b s → GoodS b (z :: s)
  | rng {y x s} : x.isRS = true → y.isRS = true → x.key b ≤ y.key b → GoodS b s →
      GoodS b (y :: .dash :: x :: s)

theorem tokAtoms_append (b : Bool) (f g : List CTok) :
    tokAtoms b (f ++ g) = tokAtoms b f ++ tokAtoms b g := by
  induction f with
  | nil => rfl
  | cons t f ih => cases t <;> simp [tokAtoms, ih]

theorem goodA_unit (b : Bool) {z : CTok} (hz : z.isMem = true) {acc} (h : GoodA acc) :
    GoodA (tokAtoms b [z] ++ acc) := by
  cases z <;> simp [CTok.isMem] at hz
  · exact .one trivial h
  · exact .one (by simp [posixItem, ClsItem.WF]) h
  · exact .one trivial (.one trivial h)

theorem goodA_triple (b : Bool) {x y : CTok} (hx : x.isRS = true) (hy : y.isRS = true)
    (hk : x.key b ≤ y.key b) {acc} (h : GoodA acc) :
    GoodA (tokAtoms b [x, .dash, y] ++ acc) := by
  have h47 : '/'.toNat = 47 := by decide
  have h92 : '\\'.toNat = 92 := by decide
  cases x <;> simp [CTok.isRS] at hx <;> cases y <;> simp [CTok.isRS] at hy
  · exact .rng (by simpa [CTok.key] using hk) h
  · exact .rng (by simpa [CTok.key] using hk) (.one trivial h)
  · simp only [CTok.key, h92] at hk
    exact .one trivial (.rng (by omega) h)
  · exact .one trivial (.rng (by omega) (.one trivial h))

/-- a settled stack, read forwards, is a good atom list -/
theorem goodS_atoms (b : Bool) {s : List CTok} (h : GoodS b s) :
    ∀ {acc}, GoodA acc → GoodA (tokAtoms b s.reverse ++ acc) := by
  induction h with
  | nil => intro acc ha; simpa [tokAtoms] using ha
  | @free z s hz _ ih =>
    intro acc ha
    rw [List.reverse_cons, tokAtoms_append, List.append_assoc]
    exact ih (goodA_unit b hz ha)
  | @rng y x s hx hy hk _ ih =>
    intro acc ha
    have : (y :: CTok.dash :: x :: s).reverse = s.reverse ++ [x, .dash, y] := by simp
    rw [this, tokAtoms_append, List.append_assoc]
    exact ih (goodA_triple b hx hy hk ha)

/-- what the loop can leave behind: a settled stack, or a settled stack with one pending
    `x -` on top (`[a-]`) -/
def FinalS (b : Bool) (m : List CTok) : Prop :=
  GoodS b m ∨ ∃ x s, m = .dash :: x :: s ∧ x.isRS = true ∧ GoodS b s

theorem finalS_atoms (b : Bool) {m : List CTok} (h : FinalS b m) : GoodA (tokAtoms b m.reverse) := by
  rcases h with h | ⟨x, s, rfl, hx, hs⟩
  · simpa using goodS_atoms b h .nil
  · have : (CTok.dash :: x :: s).reverse = s.reverse ++ ([x] ++ [.dash]) := by simp
    rw [this, tokAtoms_append, tokAtoms_append]
    exact goodS_atoms b hs (goodA_unit b (CTok.isMem_of_isRS hx) (by simpa [tokAtoms] using GoodA.dashEnd))

theorem tokAtoms_ne_nil (b : Bool) {m : List CTok} (h : m ≠ []) : tokAtoms b m ≠ [] := by
  cases m with
  | nil => exact absurd rfl h
  | cons t m => cases t <;> simp [tokAtoms]


/-! ### the loop, with and without the repair -/

/-- the text has no `-\x-`: no `-` that comes three characters after a `-` with a backslash
    right after that first `-` (the shape the defect needs: a range whose END is a two-character
    escape, directly followed by another `-`) -/
def NoEscDash : List Char → Bool
  | [] => true
  | c :: r => !(c == '-' && r.head? == some '\\' && (r.drop 2).head? == some '-') && NoEscDash r

theorem NoEscDash.tail {c : Char} {r : List Char} (h : NoEscDash (c :: r) = true) :
    NoEscDash r = true := by
  simp [NoEscDash] at h; exact h.2

theorem NoEscDash.suffix : ∀ (pre : List Char) {r : List Char}, NoEscDash (pre ++ r) = true →
    NoEscDash r = true
  | [], _, h => h
  | _ :: pre, _, h => NoEscDash.suffix pre (NoEscDash.tail h)

theorem NoEscDash.esc {x c : Char} {r : List Char}
    (h : NoEscDash ('-' :: '\\' :: x :: c :: r) = true) : c ≠ '-' := by
  simp [NoEscDash] at h; exact h.1

theorem NoEscDash.cons_ne {p : Char} (hp : p ≠ '-') (l : List Char) :
    NoEscDash (p :: l) = NoEscDash l := by
  simp [NoEscDash, hp]

/-- the side condition of the partial theorem: either the repaired loop, or a harmless text -/
def QOK (fix : Bool) (l : List Char) : Prop := fix = true ∨ NoEscDash l = true

theorem QOK.suffix {fix : Bool} (pre : List Char) {r : List Char} (h : QOK fix (pre ++ r)) :
    QOK fix r := h.imp id (NoEscDash.suffix pre)

theorem QOK.cons_ne {fix : Bool} {l : List Char} (h : QOK fix l) {p : Char} (hp : p ≠ '-') :
    QOK fix (p :: l) := h.imp id (fun h => by rw [NoEscDash.cons_ne hp]; exact h)

/-- any later position, with the character in front of it -/
theorem QOK.later {fix : Bool} : ∀ (pre : List Char) {p c : Char} {l r' : List Char} {c' : Char},
    QOK fix (p :: c :: l) → l = pre ++ c' :: r' → ∃ p', QOK fix (p' :: c' :: r')
  | [], p, c, _, _, _, h, hl => by subst hl; exact ⟨c, QOK.suffix [p] h⟩
  | x :: pre, p, c, _, _, _, h, hl => by
    subst hl
    exact QOK.later pre (QOK.suffix [p] h) rfl

/-- the `-` branch of the loop (1090-1111).  `fix = true` adds `escape_hyphen = i.index`
    where the pending range is resolved. -/
def dashStep (fix : Bool) (isBytes : Bool) (it : It) (st : SeqSt) : SeqSt :=
  if st.lastPosix then { st with res := .chr '-' true :: st.res, lastPosix := false }
  else if (it.idx : Int) - 1 > st.escapeHyphen then
    { st with res := .dash :: st.res, escapeHyphen := it.idx + 1, endRange := it.idx }
  else if st.endRange != 0 && it.idx - 1 ≥ st.endRange then
    let (res, rm) := seqRangeCheck isBytes st.res (.chr '-' true)
    { st with res := res, removed := st.removed || rm, endRange := 0,
              escapeHyphen := if fix then (it.idx : Int) else st.escapeHyphen }
  else { st with res := .chr '-' true :: st.res }

/-- the end of the member branch (1143-1148) -/
def valStep (fix : Bool) (isBytes : Bool) (it : It) (value : CTok) (st : SeqSt) : SeqSt :=
  if st.endRange != 0 && it.idx - 1 ≥ st.endRange then
    let (res, rm) := seqRangeCheck isBytes st.res value
    { st with res := res, removed := st.removed || rm, endRange := 0,
              escapeHyphen := if fix then (it.idx : Int) else st.escapeHyphen }
  else { st with res := value :: st.res }

/-- the member read at `c` (1122-1141); `none` = StopIteration -/
def valueOf (cfg : Cfg) (c : Char) (it : It) : Option (CTok × It) :=
  if c = '\\' then
    match referencesSeq cfg it with
    | .val t it' => some (t, it')
    | .dot it0 =>
      match it0.next with
      | some (d, it') => some (.chr d (d ∈ reEscapeSet), it')
      | none => none
    | .pathname => none
    | .stop => none
  else if c = '/' then
    if cfg.pathname then none else some (.chr c false, it)
  else if c ∈ setOperators || c = '#' then some (.chr c true, it)
  else some (.chr c false, it)

/-- `seqLoop` with a switch: `fix = true` is `seqLoop` verbatim (`seqLoopG_true`),
    `fix = false` is the loop before the repair of D29. -/
def seqLoopG (fix : Bool) (cfg : Cfg) : Nat → Char → It → SeqSt → Option (It × SeqSt)
  | 0, _, _, _ => none
  | fuel+1, c, it, st =>
    if c = ']' then some (it, st) else
    if c = '-' then
      match it.next with
      | none => none
      | some (c', it') => seqLoopG fix cfg fuel c' it' (dashStep fix cfg.isBytes it st)
    else
      match (if c = '[' then handlePosix it st.res st.endRange else none) with
      | some (it', res) =>
        match it'.next with
        | none => none
        | some (c', it'') =>
          seqLoopG fix cfg fuel c' it'' { st with res := res, lastPosix := true, endRange := 0 }
      | none =>
        match valueOf cfg c it with
        | none => none
        | some (value, it2) =>
          match it2.next with
          | none => none
          | some (c', it') =>
            seqLoopG fix cfg fuel c' it' (valStep fix cfg.isBytes it2 value { st with lastPosix := false })

theorem seqLoopG_true (cfg : Cfg) : ∀ fuel c it st,
    seqLoopG true cfg fuel c it st = seqLoop cfg fuel c it st := by
  intro fuel
  induction fuel with
  | zero => intro c it st; rfl
  | succ n ih =>
    intro c it st
    unfold seqLoopG seqLoop
    simp only [ih, dashStep, valStep, valueOf]
    rfl


/-! ### iterator facts -/

theorem It.next_some {it it' : It} {c : Char} (h : it.next = some (c, it')) :
    it.rest = c :: it'.rest ∧ it'.idx = it.idx + 1 := by
  unfold It.next at h
  split at h
  · cases h
  · rename_i c0 r hr
    cases h
    exact ⟨hr, rfl⟩

theorem drop_eq_suffix {l a : List Char} {k : Nat} (h : l.drop k = a) : ∃ pre, l = pre ++ a :=
  ⟨l.take k, by rw [← h, List.take_append_drop]⟩

theorem matchPosix_suffix {s : List Char} {n : PosixName} {len : Nat} {rest' : List Char}
    (h : matchPosix s = some (n, len, rest')) : ∃ pre, s = pre ++ rest' := by
  unfold matchPosix at h
  split at h
  · rename_i rest
    obtain ⟨m, _, hm⟩ := List.exists_of_findSome?_eq_some h
    dsimp only at hm
    split at hm
    · split at hm
      · rename_i r' hd
        simp only [Option.some.injEq, Prod.mk.injEq] at hm
        obtain ⟨pre, hp⟩ := drop_eq_suffix hd
        refine ⟨':' :: pre ++ [':', ']'], ?_⟩
        rw [hp, ← hm.2.2]; simp
      · cases hm
    · cases hm
  · cases h

theorem handlePosix_spec {it it' : It} {res res' : List CTok} {e : Nat}
    (h : handlePosix it res e = some (it', res')) :
    it.idx ≤ it'.idx ∧ (∃ pre, it.rest = pre ++ it'.rest) ∧
    ∃ n, res' = .posix n ::
      (if e != 0 && it'.idx - 1 ≥ e then
        match res with
        | .dash :: r => .chr '-' true :: r
        | .chr c false :: r => .chr c true :: r
        | r => r
      else res) := by
  unfold handlePosix at h
  split at h
  · cases h
  · rename_i n len rest' hm
    simp only [Option.some.injEq, Prod.mk.injEq] at h
    obtain ⟨rfl, rfl⟩ := h
    exact ⟨Nat.le_add_right _ _, matchPosix_suffix hm, n, rfl⟩

theorem valueOf_spec {cfg : Cfg} {c : Char} {it it2 : It} {v : CTok}
    (h : valueOf cfg c it = some (v, it2)) :
    v.isRS = true ∧
    (it2 = it ∨ (c = '\\' ∧ ∃ x, it.rest = x :: it2.rest ∧ it2.idx = it.idx + 1)) := by
  unfold valueOf at h
  split at h
  · rename_i hc
    split at h
    · rename_i t it' hr
      cases h
      unfold referencesSeq at hr
      split at hr
      · cases hr
      · rename_i d it1 hn
        have hn' := It.next_some hn
        have key : ∀ t', RefSeq.val t' it1 = RefSeq.val v it2 → t'.isRS = true →
            v.isRS = true ∧ (it2 = it ∨ (c = '\\' ∧ ∃ x, it.rest = x :: it2.rest ∧ it2.idx = it.idx + 1)) := by
          intro t' ht hrs
          cases ht
          exact ⟨hrs, .inr ⟨hc, d, hn'.1, hn'.2⟩⟩
        repeat' split at hr
        all_goals first | (cases hr; done) | exact key _ hr rfl
    · rename_i it0 hr
      split at h
      · rename_i d it' hn
        cases h
        unfold referencesSeq at hr
        split at hr
        · cases hr
        · rename_i d0 it1 hn0
          have : it0 = it := by
            repeat' split at hr
            all_goals first | (cases hr; done) | (cases hr; rfl)
          subst this
          have hn' := It.next_some hn
          exact ⟨rfl, .inr ⟨hc, d, hn'.1, hn'.2⟩⟩
      · cases h
    · cases h
    · cases h
  · split at h
    · split at h
      · cases h
      · cases h; exact ⟨rfl, .inl rfl⟩
    · split at h
      · cases h; exact ⟨rfl, .inl rfl⟩
      · cases h; exact ⟨rfl, .inl rfl⟩


/-! ### the loop invariant -/

/-- the next character cannot become a range operator -/
def Blocked (c : Char) (it : It) (st : SeqSt) : Prop :=
  c ≠ '-' ∨ (it.idx : Int) - 1 ≤ st.escapeHyphen ∨ st.lastPosix = true

/-- State of the loop on entry (`c` read, `it` after it).  `base` is whatever was on the
    stack below the members (`[` and possibly `^`): the loop never looks at it.
    * pending (`endRange ≠ 0`): the stack is `- x …` with `x` a free member, the very next
      token resolves it (`endRange = idx-1`, `escapeHyphen = idx`);
    * settled: a `GoodS` stack, and a `-` can become an operator only if the head is a free
      member (never a range end, never a POSIX class). -/
structure Inv (fix b : Bool) (base : List CTok) (c : Char) (it : It) (st : SeqSt) (m : List CTok) :
    Prop where
  idx : 1 ≤ it.idx
  res : st.res = m ++ base
  shape :
    (st.endRange ≠ 0 ∧ (∃ x s, m = .dash :: x :: s ∧ x.isRS = true ∧ GoodS b s) ∧
        st.endRange = it.idx - 1 ∧ st.escapeHyphen = (it.idx : Int) ∧ st.lastPosix = false) ∨
    (st.endRange = 0 ∧ GoodS b m ∧
        (Blocked c it st ∨ ∃ z s, m = z :: s ∧ z.isRS = true ∧ GoodS b s))
  nonempty : st.removed = true ∨ m ≠ [] ∨ c ≠ ']'
  /-- `p` is the character read just before `c`; while a range is pending it is the `-` -/
  q : ∃ p, QOK fix (p :: c :: it.rest) ∧ (st.endRange ≠ 0 → p = '-')

theorem seqRangeCheck_pending (b : Bool) (x last : CTok) (s base : List CTok) :
    seqRangeCheck b ((.dash :: x :: s) ++ base) last =
      if last.key b < x.key b then (s ++ base, true)
      else ((last :: .dash :: x :: s) ++ base, false) := by
  simp [seqRangeCheck]

/-- resolving a pending range with a range-capable token -/
theorem Inv.resolve {fix b base c it st m} (h : Inv fix b base c it st m) (hp : st.endRange ≠ 0)
    {v : CTok} (hv : v.isRS = true) {it2 : It} {e : Int} {lp : Bool}
    {c' : Char} {it' : It} (hn : it2.next = some (c', it'))
    (hq : ∃ p, QOK fix (p :: c' :: it'.rest))
    (hb : c' ≠ '-' ∨ (it'.idx : Int) - 1 ≤ e)
    {r : List CTok} {rm : Bool} (hsr : seqRangeCheck b st.res v = (r, rm)) :
    ∃ m', Inv fix b base c' it'
      { st with res := r, removed := st.removed || rm, endRange := 0, escapeHyphen := e,
                lastPosix := lp } m' := by
  obtain ⟨hi, hres, hshape, _, _⟩ := h
  obtain ⟨p, hq⟩ := hq
  have hq : ∃ p, QOK fix (p :: c' :: it'.rest) ∧ ((0 : Nat) ≠ 0 → p = '-') :=
    ⟨p, hq, fun h => absurd rfl h⟩
  rcases hshape with ⟨_, ⟨x, s, rfl, hx, hs⟩, _, _, _⟩ | ⟨h0, _⟩
  · have hn' := It.next_some hn
    have hblk : ∀ r rm, Blocked c' it'
        { st with res := r, removed := rm, endRange := 0, escapeHyphen := e, lastPosix := lp } := by
      intro r rm
      rcases hb with hb | hb
      · exact .inl hb
      · exact .inr (.inl hb)
    rw [hres, seqRangeCheck_pending] at hsr
    by_cases hk : v.key b < x.key b
    · rw [if_pos hk] at hsr
      cases hsr
      refine ⟨s, ⟨by omega, rfl, .inr ⟨rfl, hs, .inl (hblk _ _)⟩, .inl (by simp), hq⟩⟩
    · rw [if_neg hk] at hsr
      cases hsr
      refine ⟨v :: .dash :: x :: s, ⟨by omega, rfl,
        .inr ⟨rfl, .rng hx hv (by omega) hs, .inl (hblk _ _)⟩, .inr (.inl (by simp)), hq⟩⟩
  · exact absurd h0 hp

theorem QOK.next {fix : Bool} {p c c' : Char} {it it' : It} (h : QOK fix (p :: c :: it.rest))
    (hn : it.next = some (c', it')) : QOK fix (c :: c' :: it'.rest) := by
  have := (It.next_some hn).1
  rw [this] at h
  exact QOK.suffix [p] h

/-- pushing a free range-capable member on a settled stack -/
theorem Inv.push {fix b base c it st m} (h : Inv fix b base c it st m) (h0 : st.endRange = 0)
    {v : CTok} (hv : v.isRS = true) {lp : Bool} {c' : Char} {it' : It} (hi : 1 ≤ it'.idx)
    (hq : ∃ p, QOK fix (p :: c' :: it'.rest)) :
    Inv fix b base c' it' { st with res := v :: st.res, lastPosix := lp } (v :: m) := by
  obtain ⟨_, hres, hshape, _, _⟩ := h
  obtain ⟨p, hq⟩ := hq
  have hq : ∃ p, QOK fix (p :: c' :: it'.rest) ∧ (st.endRange ≠ 0 → p = '-') :=
    ⟨p, hq, fun h => absurd h0 h⟩
  rcases hshape with ⟨hp, _⟩ | ⟨_, hg, _⟩
  · exact absurd h0 hp
  · exact ⟨hi, by simp [hres], .inr ⟨h0, .free (CTok.isMem_of_isRS hv) hg, .inr ⟨v, m, rfl, hv, hg⟩⟩,
      .inr (.inl (by simp)), hq⟩

theorem Inv.dash {fix b base it st m} (h : Inv fix b base '-' it st m)
    {c' : Char} {it' : It} (hn : it.next = some (c', it')) :
    ∃ m', Inv fix b base c' it' (dashStep fix b it st) m' := by
  obtain ⟨p, hqp, _⟩ := h.q
  have hq1 := hqp.next hn
  have hq : ∃ p, QOK fix (p :: c' :: it'.rest) := ⟨_, hq1⟩
  have hn' := It.next_some hn
  have hi' : 1 ≤ it'.idx := by omega
  unfold dashStep
  rcases h.shape with ⟨hp, ⟨x, s, rfl, hx, hs⟩, he, hh, hl⟩ | ⟨h0, hg, hbf⟩
  · -- pending: the dash is the range end
    rw [if_neg (by simp [hl]), if_neg (by omega), if_pos (by simp [hp]; omega)]
    rcases hsr : seqRangeCheck b st.res (.chr '-' true) with ⟨r, rm⟩
    refine h.resolve hp rfl hn hq (.inr ?_) hsr
    cases fix <;> simp <;> omega
  · by_cases hl : st.lastPosix = true
    · rw [if_pos hl]
      exact ⟨_, h.push h0 rfl hi' hq⟩
    · rw [if_neg hl]
      by_cases hgt : (it.idx : Int) - 1 > st.escapeHyphen
      · rw [if_pos hgt]
        rcases hbf with hb | ⟨z, s, rfl, hz, hs⟩
        · rcases hb with hb | hb | hb
          · exact absurd rfl hb
          · omega
          · exact absurd hb hl
        · have hidx := h.idx
          refine ⟨.dash :: z :: s, ⟨hi', by simp [h.res], .inl ⟨?_, ⟨z, s, rfl, hz, hs⟩, ?_, ?_, ?_⟩,
            .inr (.inl (by simp)), ⟨'-', hq1, fun _ => rfl⟩⟩⟩
          · show it.idx ≠ 0; omega
          · show it.idx = it'.idx - 1; omega
          · show ((it.idx : Int) + 1) = (it'.idx : Int); omega
          · simpa using hl
      · rw [if_neg hgt, if_neg (by simp [h0])]
        have := h.push (lp := st.lastPosix) h0 (v := .chr '-' true) rfl hi' hq
        exact ⟨_, this⟩

theorem Inv.posix {fix b base c it st m} (h : Inv fix b base c it st m)
    {it1 : It} {res1 : List CTok} (hp : handlePosix it st.res st.endRange = some (it1, res1))
    {c' : Char} {it' : It} (hn : it1.next = some (c', it')) :
    ∃ m', Inv fix b base c' it' { st with res := res1, lastPosix := true, endRange := 0 } m' := by
  obtain ⟨hle, ⟨pre, hpre⟩, n, hres1⟩ := handlePosix_spec hp
  have hn' := It.next_some hn
  have hq : ∃ p, QOK fix (p :: c' :: it'.rest) ∧ ((0 : Nat) ≠ 0 → p = '-') := by
    obtain ⟨p, hqp, _⟩ := h.q
    obtain ⟨p', hp'⟩ := hqp.later pre (by rw [hpre, hn'.1])
    exact ⟨p', hp', fun h => absurd rfl h⟩
  have hi' : 1 ≤ it'.idx := by omega
  have hblk : ∀ r, Blocked c' it' { st with res := r, lastPosix := true, endRange := 0 } :=
    fun r => .inr (.inr rfl)
  rcases h.shape with ⟨hpn, ⟨x, s, rfl, hx, hs⟩, he, hh, hl⟩ | ⟨h0, hg, _⟩
  · have hidx := h.idx
    rw [if_pos (by simp [hpn]; omega), h.res] at hres1
    simp only [List.cons_append] at hres1
    subst hres1
    refine ⟨.posix n :: .chr '-' true :: x :: s, ⟨hi', by simp, .inr ⟨rfl, ?_, .inl (hblk _)⟩,
      .inr (.inl (by simp)), hq⟩⟩
    exact .free rfl (.free rfl (.free (CTok.isMem_of_isRS hx) hs))
  · rw [if_neg (by simp [h0])] at hres1
    subst hres1
    exact ⟨.posix n :: m, ⟨hi', by simp [h.res], .inr ⟨rfl, .free rfl hg, .inl (hblk _)⟩,
      .inr (.inl (by simp)), hq⟩⟩

theorem Inv.clearPosix {fix b base c it st m} (h : Inv fix b base c it st m) (hc : c ≠ '-') :
    Inv fix b base c it { st with lastPosix := false } m := by
  obtain ⟨hi, hres, hshape, hne, hq⟩ := h
  refine ⟨hi, hres, ?_, hne, hq⟩
  rcases hshape with ⟨hp, hm, he, hh, _⟩ | ⟨h0, hg, _⟩
  · exact .inl ⟨hp, hm, he, hh, rfl⟩
  · exact .inr ⟨h0, hg, .inl (.inl hc)⟩

theorem Inv.value {fix b base c it st m} {cfg : Cfg} (h : Inv fix b base c it st m) (hc : c ≠ '-')
    {v : CTok} {it2 : It} (hv : valueOf cfg c it = some (v, it2))
    {c' : Char} {it' : It} (hn : it2.next = some (c', it')) :
    ∃ m', Inv fix b base c' it' (valStep fix b it2 v { st with lastPosix := false }) m' := by
  obtain ⟨hrs, hit⟩ := valueOf_spec hv
  have hn' := It.next_some hn
  have hidx := h.idx
  have hi' : 1 ≤ it'.idx := by omega
  obtain ⟨p, hqp, hpd⟩ := h.q
  have hq : ∃ p, QOK fix (p :: c' :: it'.rest) := by
    rcases hit with rfl | ⟨_, x, hx, _⟩
    · exact ⟨_, hqp.next hn⟩
    · exact hqp.later [x] (by rw [hx, hn'.1]; rfl)
  have h' := h.clearPosix hc
  unfold valStep
  rcases h.shape with ⟨hp, _, he, hh, hl⟩ | ⟨h0, hg, _⟩
  · have hcond : ((st.endRange != 0) && decide (it2.idx - 1 ≥ st.endRange)) = true := by
      rcases hit with rfl | ⟨_, _, _, h2⟩ <;> simp [hp] <;> omega
    rw [if_pos hcond]
    rcases hsr : seqRangeCheck b st.res v with ⟨r, rm⟩
    refine h'.resolve hp hrs hn hq ?_ hsr
    rcases hit with rfl | ⟨hc', x, hx, h2⟩
    · right; cases fix <;> simp <;> omega
    · cases fix
      · left
        rcases hqp with hf | hnd
        · cases hf
        · rw [hpd hp, hc', hx, hn'.1] at hnd
          exact NoEscDash.esc hnd
      · right; simp; omega
  · rw [if_neg (by simp [h0])]
    exact ⟨_, h'.push h0 hrs hi' hq⟩


/-! ### the loop theorem -/

/-- What the loop returns: the base (`[`, `^`) is still at the bottom — `seqRangeCheck` never
    popped it —, above it a settled stack or a settled stack plus one pending `x -`, and the
    stack has a member unless something was removed. -/
theorem seqLoopG_final (fix : Bool) (cfg : Cfg) (base : List CTok) :
    ∀ fuel c it st m, Inv fix cfg.isBytes base c it st m →
    ∀ it' st', seqLoopG fix cfg fuel c it st = some (it', st') →
      ∃ m', st'.res = m' ++ base ∧ FinalS cfg.isBytes m' ∧ (st'.removed = true ∨ m' ≠ []) ∧
        QOK fix it'.rest := by
  intro fuel
  induction fuel with
  | zero => intro c it st m _ it' st' h; simp [seqLoopG] at h
  | succ n ih =>
    intro c it st m hinv it' st' h
    unfold seqLoopG at h
    split at h
    · rename_i hc
      cases h
      refine ⟨m, hinv.res, ?_, ?_, (by obtain ⟨p, hqp, _⟩ := hinv.q; exact QOK.suffix [p, c] hqp)⟩
      · rcases hinv.shape with ⟨_, hm, _⟩ | ⟨_, hg, _⟩
        · exact .inr hm
        · exact .inl hg
      · rcases hinv.nonempty with hr | hr | hr
        · exact .inl hr
        · exact .inr hr
        · exact absurd hc hr
    · split at h
      · rename_i hc
        subst hc
        split at h
        · cases h
        · rename_i c' it1 hn
          obtain ⟨m', hm'⟩ := hinv.dash hn
          exact ih _ _ _ _ hm' _ _ h
      · rename_i hc
        split at h
        · rename_i it1 res1 hp
          split at hp
          · split at h
            · cases h
            · rename_i c' it2 hn
              obtain ⟨m', hm'⟩ := hinv.posix hp hn
              exact ih _ _ _ _ hm' _ _ h
          · cases hp
        · split at h
          · cases h
          · rename_i v it2 hv
            split at h
            · cases h
            · rename_i c' it3 hn
              obtain ⟨m', hm'⟩ := hinv.value hc hv hn
              exact ih _ _ _ _ hm' _ _ h


/-! ### the constant fragments -/

namespace Frag
theorem sep_clsWF (win : Bool) : (sep win).ClsWF := by cases win <;> decide
theorem pathEop_clsWF (win : Bool) : (pathEop win).ClsWF := by cases win <;> decide
theorem noDir_clsWF (win : Bool) : (noDir win).ClsWF := by cases win <;> decide
theorem seqPath_clsWF (win : Bool) : (seqPath win).ClsWF := by cases win <;> decide
theorem seqPathDot_clsWF (win : Bool) : (seqPathDot win).ClsWF := by cases win <;> decide
theorem pathStar_clsWF (win : Bool) : (pathStar win).ClsWF := by cases win <;> decide
theorem pathStarDot1_clsWF (win : Bool) : (pathStarDot1 win).ClsWF := by cases win <;> decide
theorem pathStarDot2_clsWF (win : Bool) : (pathStarDot2 win).ClsWF := by cases win <;> decide
theorem pathGstarDot1_clsWF (win : Bool) : (pathGstarDot1 win).ClsWF := by cases win <;> decide
theorem pathGstarDot2_clsWF (win : Bool) : (pathGstarDot2 win).ClsWF := by cases win <;> decide
theorem noDot_clsWF : noDot.ClsWF := by decide
theorem star_clsWF : star.ClsWF := by decide
theorem qmark_clsWF : qmark.ClsWF := by decide
theorem needCharPath_clsWF (win : Bool) : (needCharPath win).ClsWF := by cases win <;> decide
theorem needChar_clsWF : needChar.ClsWF := by decide
theorem needSep_clsWF (win : Bool) : (needSep win).ClsWF := by cases win <;> decide
theorem globstarDiv_clsWF (win : Bool) : (globstarDiv win).ClsWF := by cases win <;> decide
theorem pathTrail_clsWF (win : Bool) : (pathTrail win).ClsWF := by cases win <;> decide
theorem sepPlus_clsWF (win : Bool) : (sepPlus win).ClsWF := by cases win <;> decide
theorem noRoot_clsWF : noRoot.ClsWF := by decide
theorem noWinRoot_clsWF : noWinRoot.ClsWF := by decide
theorem guardedDot_clsWF (win : Bool) : (guardedDot win).ClsWF := by cases win <;> decide
theorem noNixDir_clsWF : noNixDir.ClsWF := by decide
theorem noWinDir_clsWF : noWinDir.ClsWF := by decide
end Frag

theorem restrictSequence_clsWF (cfg : Cfg) (ps : PS) : (restrictSequence cfg ps).1.ClsWF := by
  unfold restrictSequence
  dsimp only
  split
  · split
    · split
      · exact ⟨Frag.noDir_clsWF _, Frag.seqPathDot_clsWF _⟩
      · exact ⟨Frag.noDir_clsWF _, Frag.seqPath_clsWF _⟩
    · split
      · exact Frag.seqPathDot_clsWF _
      · exact Frag.seqPath_clsWF _
  · split
    · exact Frag.noDot_clsWF
    · trivial

theorem fullRange_wf (b : Bool) : (fullRange b).WF := by cases b <;> decide


/-! ### `_sequence` -/

/-- `sequence` (Model/Parse.lean) verbatim, with `seqLoopG fix` for `seqLoop` -/
def sequenceG (fix : Bool) (cfg : Cfg) (ps : PS) (it : It) : Option (Re × PS × It) :=
  match it.next with
  | none => none
  | some (c, it) =>
    let step1 : Option (Bool × Char × It) :=
      if c = '!' || c = '^' then
        match it.next with
        | none => none
        | some (c', it') => some (true, c', it')
      else some (false, c, it)
    match step1 with
    | none => none
    | some (neg, c, it) =>
      let res0 : List CTok := if neg then [.caret, .opn] else [.opn]
      let step2 : Option (Char × It × List CTok × Bool) :=
        if c = '[' then
          match handlePosix it res0 0 with
          | some (it', res) =>
            match it'.next with
            | none => none
            | some (c', it'') => some (c', it'', res, true)
          | none =>
            match it.next with
            | none => none
            | some (c', it') => some (c', it', .chr '[' true :: res0, false)
        else if c = '-' || c = ']' then
          match it.next with
          | none => none
          | some (c', it') => some (c', it', .chr c true :: res0, false)
        else some (c, it, res0, false)
      match step2 with
      | none => none
      | some (c, it, res, lastPosix) =>
        match seqLoopG fix cfg (it.rest.length + 2) c it ⟨res, 0, -1, false, lastPosix⟩ with
        | none => none
        | some (it, st) =>
          let toks := st.res.reverse
          let body := toks.drop (if neg then 2 else 1)
          let cls : Re :=
            if st.removed && body.isEmpty then
              .cls (!neg) [fullRange cfg.isBytes]
            else if st.removed && !neg && body == [.chr '^' false] then
              .cls false [fullRange cfg.isBytes]
            else
              let atoms := tokAtoms cfg.isBytes body
              .cls neg (groupAtoms (atoms.length + 1) atoms)
          if cfg.pathname || ps.afterStart then
            let (pre, ps') := restrictSequence cfg ps
            some (catE pre cls, ps', it)
          else some (cls, ps, it)

theorem sequenceG_true (cfg : Cfg) (ps : PS) (it : It) :
    sequenceG true cfg ps it = sequence cfg ps it := by
  unfold sequenceG sequence
  simp only [seqLoopG_true]
  rfl

/-- the class built from the final stack is well formed -/
theorem finalCls_wf (b neg : Bool) (removed : Bool) (m : List CTok) (hm : FinalS b m)
    (hne : removed = true ∨ m ≠ []) :
    Re.ClsWF
      (if removed && (m.reverse).isEmpty then .cls (!neg) [fullRange b]
       else if removed && !neg && m.reverse == [.chr '^' false] then .cls false [fullRange b]
       else .cls neg (groupAtoms ((tokAtoms b m.reverse).length + 1) (tokAtoms b m.reverse))) := by
  have hfull : ∀ n, Re.ClsWF (.cls n [fullRange b]) := by
    intro n
    refine ⟨by simp, ?_⟩
    intro i hi
    rcases List.mem_singleton.1 hi with rfl
    exact fullRange_wf b
  split
  · exact hfull _
  · rename_i h1
    split
    · exact hfull _
    · refine ⟨groupAtoms_ne_nil _ (tokAtoms_ne_nil b ?_), groupAtoms_wf (finalS_atoms b hm) _⟩
      rcases hne with hr | hr
      · intro hnil
        simp [hr, hnil] at h1
      · simpa using hr

theorem Inv.init {fix b base c it m lp} (hi : 1 ≤ it.idx) (hg : GoodS b m)
    (hb : c ≠ '-' ∨ lp = true ∨ ∃ z s, m = z :: s ∧ z.isRS = true ∧ GoodS b s)
    (hne : m ≠ [] ∨ c ≠ ']') (hq : ∃ p, QOK fix (p :: c :: it.rest)) :
    Inv fix b base c it ⟨m ++ base, 0, -1, false, lp⟩ m := by
  obtain ⟨p, hq⟩ := hq
  refine ⟨hi, rfl, .inr ⟨rfl, hg, ?_⟩, .inr hne, ⟨p, hq, fun h => absurd rfl h⟩⟩
  rcases hb with hb | hb | hb
  · exact .inl (.inl hb)
  · exact .inl (.inr (.inr hb))
  · exact .inr hb

/-- **Main theorem, generic form.**  With the repair (`fix = true`) for every input; without
    it (`fix = false`, i.e. the real `sequence`) for every text satisfying `NoEscDash`. -/
theorem sequenceG_clsWF (fix : Bool) (cfg : Cfg) (ps : PS) (it : It) (r : Re) (ps' : PS) (it' : It)
    (hq : QOK fix it.rest) (h : sequenceG fix cfg ps it = some (r, ps', it')) :
    Re.ClsWF r ∧ QOK fix it'.rest := by
  unfold sequenceG at h
  split at h
  · cases h
  · rename_i c0 it0 hn0
    have hn0' := It.next_some hn0
    have hq0 : QOK fix ('[' :: c0 :: it0.rest) := by
      rw [← hn0'.1]; exact hq.cons_ne (by decide)
    dsimp only at h
    split at h
    · cases h
    · rename_i neg c1 it1 hs1
      -- after the negation step
      have h1 : 1 ≤ it1.idx ∧ ∃ p, QOK fix (p :: c1 :: it1.rest) := by
        split at hs1
        · split at hs1
          · cases hs1
          · rename_i c' it'' hn
            cases hs1
            have := It.next_some hn
            exact ⟨by omega, _, hq0.next hn⟩
        · cases hs1
          exact ⟨by omega, _, hq0⟩
      obtain ⟨hi1, p1, hq1⟩ := h1
      split at h
      · cases h
      · rename_i c2 it2 res2 lp2 hs2
        generalize hbase : (if neg = true then [CTok.caret, CTok.opn] else [CTok.opn]) = base at hs2 h
        -- the initial invariant
        have hinit : ∃ m, Inv fix cfg.isBytes base c2 it2 ⟨res2, 0, -1, false, lp2⟩ m := by
          split at hs2
          · split at hs2
            · rename_i itp resp hp
              split at hs2
              · cases hs2
              · rename_i c' it'' hn
                cases hs2
                obtain ⟨hle, ⟨pre, hpre⟩, n, hres⟩ := handlePosix_spec hp
                have hn' := It.next_some hn
                rw [if_neg (by simp)] at hres
                subst hres
                refine ⟨[.posix n], Inv.init (by omega) (.free rfl .nil) (.inr (.inl rfl))
                  (.inl (by simp)) ?_⟩
                exact hq1.later pre (by rw [hpre, hn'.1])
            · split at hs2
              · cases hs2
              · rename_i c' it'' hn
                cases hs2
                have hn' := It.next_some hn
                exact ⟨[.chr '[' true], Inv.init (by omega) (.free rfl .nil)
                  (.inr (.inr ⟨_, _, rfl, rfl, .nil⟩)) (.inl (by simp)) ⟨_, hq1.next hn⟩⟩
          · split at hs2
            · split at hs2
              · cases hs2
              · rename_i c' it'' hn
                cases hs2
                have hn' := It.next_some hn
                exact ⟨[.chr c1 true], Inv.init (by omega) (.free rfl .nil)
                  (.inr (.inr ⟨_, _, rfl, rfl, .nil⟩)) (.inl (by simp)) ⟨_, hq1.next hn⟩⟩
            · rename_i hc
              cases hs2
              simp only [Bool.or_eq_true, decide_eq_true_eq, not_or] at hc
              exact ⟨[], Inv.init hi1 .nil (.inl hc.1) (.inr hc.2) ⟨_, hq1⟩⟩
        obtain ⟨m, hinv⟩ := hinit
        split at h
        · cases h
        · rename_i itE stE hloop
          obtain ⟨m', hres, hfin, hne, hqE⟩ := seqLoopG_final fix cfg base _ _ _ _ _ hinv _ _ hloop
          have hbody : (stE.res.reverse).drop (if neg = true then 2 else 1) = m'.reverse := by
            rw [hres, ← hbase]
            cases neg <;> simp
          rw [hbody] at h
          have hcls := finalCls_wf cfg.isBytes neg stE.removed m' hfin hne
          split at h
          · cases h
            exact ⟨catE_clsWF (restrictSequence_clsWF cfg ps) hcls, hqE⟩
          · cases h
            exact ⟨hcls, hqE⟩

end WcModel

import WcModel.Proofs.HiddenPath
/-
  Hidden pieces at ANY position, path mode: the semantic half.

  Part 1  `NoSlash x` — what `x` consumes contains no separator; closure lemmas; the fragments the
          pass emits in path mode (each wildcard sits behind a `(?![/])`-type guard, a separator
          inside an extended group sits behind one too and is therefore dead).
  Part 2  hidden pieces of a subject read piecewise (`Hid`, `nextFresh`).
  Part 3  item lists: `SF` (bodies of groups: every item is `NoSlash`, separators are dead pairs),
          `TopOK` (the top-level list: `NoSlash` items, separators, globstar units), the scan
          `segScan` that classifies the segments, and the theorem `topOK_sem`: if every segment of a
          `TopOK` list starts well, the regex matches no subject with a hidden piece.
-/
namespace WcModel
namespace HP
open HF (DotRefusing NoBar isBar Rel)

/-! ## Part 1: `NoSlash` -/

/-- whatever `x` consumes contains no separator -/
def NoSlash (x : Re) : Prop := ∀ md a b, Re.M md x a b → ∃ w, a.rest = w ++ b.rest ∧ '/' ∉ w

theorem NoSlash.eps : NoSlash .eps := fun _ a b h => ⟨[], by simp only [Re.M] at h; simp [h], by simp⟩

theorem NoSlash.look (n : Bool) (x : Re) : NoSlash (.look n x) := by
  intro md a b h
  have : b = a := by cases n <;> simp only [Re.M] at h <;> exact h.1
  exact ⟨[], by simp [this], by simp⟩

theorem NoSlash.cat {x y : Re} (hx : NoSlash x) (hy : NoSlash y) : NoSlash (.cat x y) := by
  intro md a b h
  simp only [Re.M] at h
  obtain ⟨c, h1, h2⟩ := h
  obtain ⟨w1, e1, n1⟩ := hx md a c h1
  obtain ⟨w2, e2, n2⟩ := hy md c b h2
  exact ⟨w1 ++ w2, by rw [e1, e2, List.append_assoc], by simp [n1, n2]⟩

theorem NoSlash.alt {x y : Re} (hx : NoSlash x) (hy : NoSlash y) : NoSlash (.alt x y) := by
  intro md a b h
  simp only [Re.M] at h
  rcases h with h | h
  · exact hx md a b h
  · exact hy md a b h

theorem NoSlash.grp {x : Re} (hx : NoSlash x) : NoSlash (.grp x) :=
  fun md a b h => hx md a b (by simpa [Re.M] using h)
theorem NoSlash.cap {x : Re} (hx : NoSlash x) : NoSlash (.cap x) :=
  fun md a b h => hx md a b (by simpa [Re.M] using h)
theorem NoSlash.gcap {x : Re} (hx : NoSlash x) : NoSlash (.gcap x) :=
  fun md a b h => hx md a b (by simpa [Re.M] using h)

theorem NoSlash.opt {x : Re} (hx : NoSlash x) : NoSlash (.opt x) := by
  intro md a b h
  simp only [Re.M] at h
  rcases h with h | h
  · exact ⟨[], by simp [h], by simp⟩
  · exact hx md a b h

theorem NoSlash.iter {x : Re} (hx : NoSlash x) (md : Mode) {a b : St} (h : Iter (Re.M md x) a b) :
    ∃ w, a.rest = w ++ b.rest ∧ '/' ∉ w := by
  induction h with
  | refl a => exact ⟨[], by simp, by simp⟩
  | step hab _ ih =>
    obtain ⟨w1, e1, n1⟩ := hx md _ _ hab
    obtain ⟨w2, e2, n2⟩ := ih
    exact ⟨w1 ++ w2, by rw [e1, e2, List.append_assoc], by simp [n1, n2]⟩

theorem NoSlash.star {x : Re} (l : Bool) (hx : NoSlash x) : NoSlash (.star l x) :=
  fun md a b h => hx.iter md (by simpa [Re.M] using h)

theorem NoSlash.plus {x : Re} (hx : NoSlash x) : NoSlash (.plus x) := by
  intro md a b h
  simp only [Re.M] at h
  obtain ⟨c, h1, h2⟩ := h
  obtain ⟨w1, e1, n1⟩ := hx md a c h1
  obtain ⟨w2, e2, n2⟩ := hx.iter md h2
  exact ⟨w1 ++ w2, by rw [e1, e2, List.append_assoc], by simp [n1, n2]⟩

theorem charEq_slash (ci : Bool) (c : Char) (h : charEq ci c '/' = true) : c = '/' := by
  unfold charEq at h
  cases ci
  · simpa using h
  · simp only [ite_true, beq_iff_eq] at h
    have h1 : asciiLower '/' = '/' := by decide
    rw [h1] at h
    exact (asciiLower_eq_nonLetter nonLetter_slash c).mp h

theorem NoSlash.lit {c : Char} (hc : c ≠ '/') : NoSlash (.lit c) := by
  intro md a b h
  simp only [Re.M] at h
  obtain ⟨d, s, e1, e2, rfl⟩ := h
  refine ⟨[d], by simp [e1], ?_⟩
  simp only [List.mem_singleton]
  intro hd
  exact hc (charEq_slash md.ci c (by rw [hd]; exact e2))

/-- `pre` consumes nothing and fails when the next character is a separator -/
def SlashGuard (pre : Re) : Prop := ∀ md a b, Re.M md pre a b → b = a ∧ a.rest.head? ≠ some '/'

/-- `y` consumes exactly one character -/
def OneChar (y : Re) : Prop := ∀ md a b, Re.M md y a b → ∃ d s, a.rest = d :: s ∧ b.rest = s

theorem oneChar_any : OneChar .any := by
  intro md a b h
  simp only [Re.M] at h
  obtain ⟨d, s, e1, _, rfl⟩ := h
  exact ⟨d, s, e1, rfl⟩

theorem oneChar_cls (neg : Bool) (items : List ClsItem) : OneChar (.cls neg items) := by
  intro md a b h
  simp only [Re.M] at h
  obtain ⟨d, s, e1, _, rfl⟩ := h
  exact ⟨d, s, e1, rfl⟩

theorem guard_seqPath : SlashGuard (Frag.seqPath false) := by
  intro md a b h
  simp only [Frag.seqPath, Re.M] at h
  refine ⟨h.1, fun hh => h.2 ?_⟩
  cases hr : a.rest with
  | nil => simp [hr] at hh
  | cons x xs =>
    simp [hr] at hh; subst hh
    exact ⟨⟨false, xs⟩, (M_sep md a _).mpr ⟨'/', xs, hr, rfl, rfl⟩⟩

theorem guard_seqPathDot : SlashGuard (Frag.seqPathDot false) := by
  intro md a b h
  simp only [Frag.seqPathDot, Re.M] at h
  refine ⟨h.1, fun hh => h.2 ?_⟩
  cases hr : a.rest with
  | nil => simp [hr] at hh
  | cons x xs =>
    simp [hr] at hh; subst hh
    refine ⟨⟨false, xs⟩, '/', xs, hr, ?_, rfl⟩
    cases md.ci <;> decide

theorem guard_noDir_cat {g : Re} (hg : SlashGuard g) : SlashGuard (.cat (Frag.noDir false) g) := by
  intro md a b h
  simp only [Re.M.eq_5] at h
  obtain ⟨c, h1, h2⟩ := h
  have : c = a := by simp only [Frag.noDir, Re.M] at h1; exact h1.1
  subst this
  exact hg md c b h2

theorem guard_guard2 : SlashGuard guard2 := guard_noDir_cat guard_seqPathDot

theorem NoSlash.guarded {pre y : Re} (hp : SlashGuard pre) (hy : OneChar y) : NoSlash (.cat pre y) := by
  intro md a b h
  simp only [Re.M] at h
  obtain ⟨c, h1, h2⟩ := h
  obtain ⟨rfl, hh⟩ := hp md a c h1
  obtain ⟨d, s, e1, e2⟩ := hy md c b h2
  refine ⟨[d], by simp [e1, e2], ?_⟩
  simp only [List.mem_singleton]
  intro hd
  apply hh
  rw [e1, ← hd]; rfl

/-- a separator behind the `(?![/])` guard never matches -/
theorem NoSlash.dead {pre : Re} (hp : SlashGuard pre) (y : Re) : NoSlash (.cat pre (.cat (Frag.sep false) y)) := by
  intro md a b h
  exfalso
  simp only [Re.M.eq_5] at h
  obtain ⟨c, h1, m, h2, _⟩ := h
  obtain ⟨rfl, hh⟩ := hp md a c h1
  obtain ⟨d, s, e1, e2, _⟩ := (M_sep md c m).mp h2
  simp at e2; subst e2
  exact hh (by rw [e1]; rfl)

theorem NoSlash.dead0 {pre : Re} (hp : SlashGuard pre) : NoSlash (.cat pre (Frag.sep false)) := by
  intro md a b h
  exfalso
  simp only [Re.M.eq_5] at h
  obtain ⟨c, h1, h2⟩ := h
  obtain ⟨rfl, hh⟩ := hp md a c h1
  obtain ⟨d, s, e1, e2, _⟩ := (M_sep md c b).mp h2
  simp at e2; subst e2
  exact hh (by rw [e1]; rfl)

theorem NoSlash.pathStar : NoSlash (Frag.pathStar false) :=
  fun md a b h => pathStar_no_sep md a b h

theorem NoSlash.pathStarDot2 : NoSlash (Frag.pathStarDot2 false) :=
  .cat (.look _ _) (.opt (.grp (.cat (.look _ _) .pathStar)))

theorem NoSlash.pathStarDot1 : NoSlash (Frag.pathStarDot1 false) :=
  .cat (.look _ _) .pathStar

theorem NoSlash.needCharPath_cat {x : Re} (hx : NoSlash x) : NoSlash (.cat (Frag.needCharPath false) x) :=
  .cat (.look _ _) hx

theorem NoSlash.guardedDot : NoSlash (Frag.guardedDot false) :=
  .cat (.look _ _) (.lit (by decide))

theorem NoSlash.noRoot : NoSlash Frag.noRoot := .look _ _
theorem NoSlash.needSep : NoSlash (Frag.needSep false) := .look _ _

theorem NoSlash.catE' {x y : Re} (hx : NoSlash x) (hy : NoSlash y) : NoSlash (catE' x y) := by
  unfold WcModel.catE'
  split
  · exact hx
  · split
    · exact hy
    · exact .cat hx hy

theorem NoSlash.quant (k : GKind) (cap : Capt) {b : Re} (hb : NoSlash b) : NoSlash (quant k cap b) := by
  unfold WcModel.quant
  cases k <;> cases cap <;> simp only [] <;>
    first
      | exact .opt (.grp hb) | exact .cap (.opt (.grp hb)) | exact .grp (.opt (.grp hb))
      | exact .star _ (.grp hb) | exact .cap (.star _ (.grp hb)) | exact .grp (.star _ (.grp hb))
      | exact .plus (.grp hb) | exact .cap (.plus (.grp hb)) | exact .grp (.plus (.grp hb))
      | exact .grp hb | exact .cap hb | exact .grp hb | (simp; first | exact .grp hb | exact .cap hb | exact .grp hb | exact hb)

theorem NoSlash.altOfList : ∀ (parts : List Re), (∀ r ∈ parts, NoSlash r) → NoSlash (altOfList parts)
  | [], _ => .eps
  | [r], h => h r List.mem_cons_self
  | r :: r' :: rs, h => by
    simp only [WcModel.altOfList]
    exact .alt (h r List.mem_cons_self)
      (NoSlash.altOfList (r' :: rs) (fun x hx => h x (List.mem_cons_of_mem _ hx)))


/-! ## Part 2: hidden pieces of a subject read piecewise -/

/-- `w`, read from a position that is (`f = true`) or is not at the start of a piece, contains the
    start of a hidden piece: a `.` at the start of a piece -/
def Hid (f : Bool) (w : List Char) : Prop :=
  (f = true ∧ w.head? = some '.') ∨ ∃ u v, w = u ++ '/' :: '.' :: v

/-- are we at the start of a piece after reading `w`? -/
def nextFresh (f : Bool) (w : List Char) : Bool :=
  match w.getLast? with
  | none => f
  | some c => c == '/'

theorem nextFresh_nil (f : Bool) : nextFresh f [] = f := rfl

theorem nextFresh_of_noSlash {f : Bool} {w : List Char} (hw : w ≠ []) (hn : '/' ∉ w) : nextFresh f w = false := by
  unfold nextFresh
  cases hl : w.getLast? with
  | none => simp at hl; exact absurd hl hw
  | some c =>
    simp only [beq_eq_false_iff_ne, ne_eq]
    intro hc
    subst hc
    exact hn (List.mem_of_getLast? hl)

theorem nextFresh_noSlash_false {w : List Char} (hn : '/' ∉ w) : nextFresh false w = false := by
  by_cases hw : w = []
  · subst hw; rfl
  · exact nextFresh_of_noSlash hw hn

theorem not_hid_nil (f : Bool) : ¬ Hid f [] := by
  rintro (⟨_, h⟩ | ⟨u, v, h⟩)
  · simp at h
  · simp at h

theorem not_hid_noSlash_false {w : List Char} (hn : '/' ∉ w) : ¬ Hid false w := by
  rintro (⟨h, _⟩ | ⟨u, v, h⟩)
  · cases h
  · exact hn (by rw [h]; simp)

theorem not_hid_noSlash_head {f : Bool} {w : List Char} (hn : '/' ∉ w) (hh : w.head? ≠ some '.') : ¬ Hid f w := by
  rintro (⟨_, h⟩ | ⟨u, v, h⟩)
  · exact hh h
  · exact hn (by rw [h]; simp)

theorem not_hid_noDot {f : Bool} {w : List Char} (hn : '.' ∉ w) : ¬ Hid f w := by
  rintro (⟨_, h⟩ | ⟨u, v, h⟩)
  · cases w with
    | nil => simp at h
    | cons d t => simp at h; subst h; simp at hn
  · exact hn (by rw [h]; simp)

/-- reading `w₁` and then `w₂` -/
theorem Hid_append {f : Bool} {w₁ w₂ : List Char} (h : Hid f (w₁ ++ w₂)) :
    Hid f w₁ ∨ Hid (nextFresh f w₁) w₂ := by
  rcases h with ⟨hf, hh⟩ | ⟨u, v, he⟩
  · cases w₁ with
    | nil => right; left; exact ⟨by simpa [nextFresh] using hf, by simpa using hh⟩
    | cons d t => left; left; exact ⟨hf, by simpa using hh⟩
  · rcases List.append_eq_append_iff.mp he with ⟨a', e1, e2⟩ | ⟨c', e1, e2⟩
    · -- u = w₁ ++ a', w₂ = a' ++ "/." ++ v
      right; right; exact ⟨a', v, e2⟩
    · -- w₁ = u ++ c', "/." ++ v = c' ++ w₂
      cases c' with
      | nil =>
        right; right
        exact ⟨[], v, by simpa using e2.symm⟩
      | cons x c'' =>
        simp only [List.cons_append, List.cons.injEq] at e2
        obtain ⟨hx, e2⟩ := e2
        subst hx
        cases c'' with
        | nil =>
          -- w₁ = u ++ ['/'], w₂ = '.' :: v
          right; left
          simp only [List.nil_append] at e2
          refine ⟨?_, by rw [← e2]; rfl⟩
          rw [e1]
          simp [nextFresh]
        | cons y c''' =>
          simp only [List.cons_append, List.cons.injEq] at e2
          obtain ⟨hy, e2⟩ := e2
          subst hy
          left; right
          exact ⟨u, c''', e1⟩

theorem not_hid_append {f : Bool} {w₁ w₂ : List Char} (h1 : ¬ Hid f w₁) (h2 : ¬ Hid (nextFresh f w₁) w₂) :
    ¬ Hid f (w₁ ++ w₂) := fun h => (Hid_append h).elim h1 h2

theorem nextFresh_append (f : Bool) (w₁ w₂ : List Char) :
    nextFresh f (w₁ ++ w₂) = nextFresh (nextFresh f w₁) w₂ := by
  unfold nextFresh
  cases w₂ with
  | nil =>
    simp only [List.append_nil, List.getLast?_nil]
  | cons d t =>
    have : (w₁ ++ d :: t).getLast? = (d :: t).getLast? := by
      rw [List.getLast?_append]
      cases h : (d :: t).getLast? with
      | none => simp at h
      | some c => rfl
    rw [this]
    cases h : (d :: t).getLast? with
    | none => simp at h
    | some c => rfl


/-! ## Part 3: item lists -/

/-- the regex of a group body consumes no separator -/
def BodyNoSlash (body : List Item) : Prop := ∀ fuel r, Item.listToRe fuel body = some r → NoSlash r

/-- forward item lists inside groups: every item consumes no separator; a separator stands
    directly behind a guard that rejects it -/
inductive SF : List Item → Prop
  | nil : SF []
  | re {x : Re} {l : List Item} : NoSlash x → SF l → SF (.re x :: l)
  | dead {g : Re} {l : List Item} : SlashGuard g → SF l → SF (.re g :: .re (Frag.sep false) :: l)
  | bar {l : List Item} : SF l → SF (.bar :: l)
  | group {k : GKind} {c : Capt} {body l : List Item} : BodyNoSlash body → SF l → SF (.group k c body :: l)
  | invph {c : Bool} {body : List Item} {star : Re} {l : List Item} : NoSlash star → SF l →
      SF (.invOpen c body :: .ph star :: l)
  | invcl {c : Bool} {body t : List Item} {e : Option Re} {star : Re} {l : List Item} : NoSlash star → SF l →
      SF (.invOpen c body :: .closed t e star :: l)

theorem SF.append {l m : List Item} (h : SF l) (hm : SF m) : SF (l ++ m) := by
  induction h with
  | nil => exact hm
  | re hx _ ih => exact .re hx ih
  | dead hg _ ih => exact .dead hg ih
  | bar _ ih => exact .bar ih
  | group hb _ ih => exact .group hb ih
  | invph hs _ ih => exact .invph hs ih
  | invcl hs _ ih => exact .invcl hs ih

theorem SF.rel {l l' : List Item} (h : SF l) (hr : Rel l l') : SF l' := by
  induction h generalizing l' with
  | nil => cases hr; exact .nil
  | re hx _ ih => cases hr with | same _ h' => exact .re hx (ih h')
  | dead hg _ ih =>
    cases hr with
    | same _ h' => cases h' with | same _ h'' => exact .dead hg (ih h'')
  | bar _ ih => cases hr with | same _ h' => exact .bar (ih h')
  | group hb _ ih => cases hr with | same _ h' => exact .group hb (ih h')
  | invph hs _ ih =>
    cases hr with
    | same _ h' =>
      cases h' with
      | same _ h'' => exact .invph hs (ih h'')
      | ph _ t e h'' => exact .invcl hs (ih h'')
  | invcl hs _ ih =>
    cases hr with
    | same _ h' => cases h' with | same _ h'' => exact .invcl hs (ih h'')

theorem slashGuard_ne_eps {g : Re} (hg : SlashGuard g) : g ≠ .eps := by
  intro he; subst he
  exact (hg ⟨false, false⟩ ⟨false, ['/']⟩ ⟨false, ['/']⟩ rfl).2 rfl

theorem sep_ne_eps : Frag.sep false ≠ .eps := by simp [Frag.sep]

/-- a bar-free `SF` list -/
theorem SF.seqToRe {l : List Item} (h : SF l) :
    ∀ (fuel : Nat) (r : Re), Item.seqToRe fuel l = some r → NoSlash r := by
  induction h with
  | nil =>
    intro fuel r hr
    cases fuel with
    | zero => simp [Item.seqToRe] at hr
    | succ f => simp [Item.seqToRe] at hr; rw [← hr]; exact .eps
  | @re x l hx _ ih =>
    intro fuel r hr
    cases fuel with
    | zero => simp [Item.seqToRe] at hr
    | succ f =>
      simp only [Item.seqToRe] at hr
      cases hs : Item.seqToRe f l with
      | none => simp [hs] at hr
      | some r' => simp [hs] at hr; rw [← hr]; exact .catE' hx (ih f r' hs)
  | @dead g l hg _ ih =>
    intro fuel r hr
    cases fuel with
    | zero => simp [Item.seqToRe] at hr
    | succ f =>
      simp only [Item.seqToRe] at hr
      cases f with
      | zero => simp [Item.seqToRe] at hr
      | succ f' =>
        simp only [Item.seqToRe] at hr
        cases hs : Item.seqToRe f' l with
        | none => simp [hs] at hr
        | some r' =>
          simp [hs] at hr
          rw [← hr]
          unfold WcModel.catE'
          by_cases h1 : r' = .eps
          · simp only [h1, if_true, sep_ne_eps, if_false, slashGuard_ne_eps hg]
            exact .dead0 hg
          · simp only [h1, if_false, sep_ne_eps, slashGuard_ne_eps hg]
            have : (Re.cat (Frag.sep false) r' = Re.eps) = False := by simp
            simp only [this, if_false]
            exact .dead hg r'
  | bar _ _ =>
    intro fuel r hr
    cases fuel with
    | zero => simp [Item.seqToRe] at hr
    | succ f => simp [Item.seqToRe] at hr
  | @group k c body l hb _ ih =>
    intro fuel r hr
    cases fuel with
    | zero => simp [Item.seqToRe] at hr
    | succ f =>
      simp only [Item.seqToRe, Option.bind_eq_bind, Option.bind_eq_some_iff, Option.pure_def,
        Option.some.injEq] at hr
      obtain ⟨b', hb', r', hr', hr⟩ := hr
      rw [← hr]
      exact .catE' (.quant k c (hb f b' hb')) (ih f r' hr')
  | invph _ _ _ =>
    intro fuel r hr
    cases fuel with
    | zero => simp [Item.seqToRe] at hr
    | succ f => simp [Item.seqToRe] at hr
  | @invcl c body t e star l hs _ ih =>
    intro fuel r hr
    cases fuel with
    | zero => simp [Item.seqToRe] at hr
    | succ f =>
      simp only [Item.seqToRe, Option.bind_eq_bind, Option.bind_eq_some_iff, Option.pure_def,
        Option.some.injEq] at hr
      obtain ⟨b', _, la, _, r', hr', hr⟩ := hr
      rw [← hr]
      apply NoSlash.catE' _ (ih f r' hr')
      cases c
      · exact .grp (.cat (.look _ _) hs)
      · exact .cap (.cat (.look _ _) hs)

/-- the pieces between bars of an `SF` list are `SF` -/
theorem SF.pieces {l : List Item} (h : SF l) : ∀ p ∈ splitBars l, SF p := by
  induction h with
  | nil => intro p hp; simp [splitBars] at hp; subst hp; exact .nil
  | @re x l hx _ ih =>
    obtain ⟨a, as, h1, h2⟩ := HF.splitBars_cons_nonbar (.re x) rfl l
    intro p hp
    rw [h2] at hp
    rcases List.mem_cons.mp hp with rfl | hp
    · exact .re hx (ih a (by rw [h1]; exact List.mem_cons_self))
    · exact ih p (by rw [h1]; exact List.mem_cons_of_mem _ hp)
  | @dead g l hg _ ih =>
    obtain ⟨a, as, h1, h2⟩ := HF.splitBars_cons_nonbar (.re (Frag.sep false)) rfl l
    obtain ⟨a', as', h1', h2'⟩ := HF.splitBars_cons_nonbar (.re g) rfl (.re (Frag.sep false) :: l)
    rw [h2] at h1'
    injection h1' with e1 e2
    subst e1; subst e2
    intro p hp
    rw [h2'] at hp
    rcases List.mem_cons.mp hp with rfl | hp
    · exact .dead hg (ih a (by rw [h1]; exact List.mem_cons_self))
    · exact ih p (by rw [h1]; exact List.mem_cons_of_mem _ hp)
  | bar _ ih =>
    intro p hp
    simp only [splitBars, List.mem_cons] at hp
    rcases hp with rfl | hp
    · exact .nil
    · exact ih p hp
  | @group k c body l hb _ ih =>
    obtain ⟨a, as, h1, h2⟩ := HF.splitBars_cons_nonbar (.group k c body) rfl l
    intro p hp
    rw [h2] at hp
    rcases List.mem_cons.mp hp with rfl | hp
    · exact .group hb (ih a (by rw [h1]; exact List.mem_cons_self))
    · exact ih p (by rw [h1]; exact List.mem_cons_of_mem _ hp)
  | @invph c body star l hs _ ih =>
    obtain ⟨a, as, h1, h2⟩ := HF.splitBars_cons_nonbar (.ph star) rfl l
    obtain ⟨a', as', h1', h2'⟩ := HF.splitBars_cons_nonbar (.invOpen c body) rfl (.ph star :: l)
    rw [h2] at h1'
    injection h1' with e1 e2
    subst e1; subst e2
    intro p hp
    rw [h2'] at hp
    rcases List.mem_cons.mp hp with rfl | hp
    · exact .invph hs (ih a (by rw [h1]; exact List.mem_cons_self))
    · exact ih p (by rw [h1]; exact List.mem_cons_of_mem _ hp)
  | @invcl c body t e star l hs _ ih =>
    obtain ⟨a, as, h1, h2⟩ := HF.splitBars_cons_nonbar (.closed t e star) rfl l
    obtain ⟨a', as', h1', h2'⟩ := HF.splitBars_cons_nonbar (.invOpen c body) rfl (.closed t e star :: l)
    rw [h2] at h1'
    injection h1' with e1 e2
    subst e1; subst e2
    intro p hp
    rw [h2'] at hp
    rcases List.mem_cons.mp hp with rfl | hp
    · exact .invcl hs (ih a (by rw [h1]; exact List.mem_cons_self))
    · exact ih p (by rw [h1]; exact List.mem_cons_of_mem _ hp)

theorem mapM_noSlash (f : Nat) : ∀ (pieces : List (List Item)) (parts : List Re),
    pieces.mapM (Item.seqToRe f) = some parts → (∀ p ∈ pieces, SF p) → ∀ r ∈ parts, NoSlash r := by
  intro pieces
  induction pieces with
  | nil => intro parts h _; simp at h; subst h; intro r hr; cases hr
  | cons p ps ih =>
    intro parts h hp
    simp only [List.mapM_cons, Option.bind_eq_bind, Option.bind_eq_some_iff, Option.pure_def,
      Option.some.injEq] at h
    obtain ⟨r, hr, rs, hrs, he⟩ := h
    subst he
    intro x hx
    rcases List.mem_cons.mp hx with rfl | hx
    · exact (hp p List.mem_cons_self).seqToRe f _ hr
    · exact ih rs hrs (fun q hq => hp q (List.mem_cons_of_mem _ hq)) x hx

/-- **the regex of an `SF` body consumes no separator** -/
theorem SF.body {l : List Item} (h : SF l) : BodyNoSlash l := by
  intro fuel r hr
  cases fuel with
  | zero => simp [Item.listToRe] at hr
  | succ f =>
    simp only [Item.listToRe, Option.bind_eq_bind, Option.bind_eq_some_iff, Option.pure_def,
      Option.some.injEq] at hr
    obtain ⟨parts, hm, hr⟩ := hr
    subst hr
    exact .altOfList parts (mapM_noSlash f _ parts hm h.pieces)


/-! ### what the individual top-level fragments consume -/

/-- the segment-start star, `(?=[^/])(?!(?:\.{1,2})(?:$|[/]))(?:(?!\.)[^/]*?)?` -/
def starRe : Re := .cat (Frag.needCharPath false) (Frag.pathStarDot2 false)

theorem starRe_fact (md : Mode) (a m : St) (h : Re.M md starRe a m) :
    ∃ w, a.rest = w ++ m.rest ∧ '/' ∉ w ∧ w.head? ≠ some '.' := by
  simp only [starRe, Frag.pathStarDot2, Re.M.eq_5] at h
  obtain ⟨c1, h1, c2, h2, h3⟩ := h
  have e1 : c1 = a := by simp only [Frag.needCharPath, Re.M] at h1; exact h1.1
  have e2 : c2 = c1 := by simp only [Frag.noDir, Re.M] at h2; exact h2.1
  subst e2; subst e1
  simp only [Re.M.eq_10, Re.M.eq_7, Re.M.eq_5] at h3
  rcases h3 with h3 | ⟨c, h4, h5⟩
  · exact ⟨[], by simp [h3], by simp, by simp⟩
  · simp only [Re.M] at h4
    obtain ⟨rfl, hno⟩ := h4
    obtain ⟨w, e, hw⟩ := pathStar_no_sep md c m h5
    refine ⟨w, e, hw, ?_⟩
    intro hh
    apply hno
    cases w with
    | nil => simp at hh
    | cons d t =>
      simp at hh; subst hh
      exact ⟨⟨false, t ++ m.rest⟩, '.', t ++ m.rest, by simp [e], by simp [charEq], rfl⟩

def isSepRe (r : Re) : Bool :=
  r == Frag.sepPlus false || r == Frag.globstarDiv false || r == Frag.needSep false || r == Frag.pathTrail false

theorem iter_sep_noDot (md : Mode) {a b : St} (h : Iter (Re.M md (Frag.sep false)) a b) :
    ∃ w, a.rest = w ++ b.rest ∧ '.' ∉ w := by
  induction h with
  | refl a => exact ⟨[], by simp, by simp⟩
  | step hab _ ih =>
    obtain ⟨d, s, e1, e2, rfl⟩ := (M_sep md _ _).mp hab
    obtain ⟨w, e3, hw⟩ := ih
    simp at e2; subst e2
    exact ⟨'/' :: w, by simp [e1, ← e3], by simp [hw]⟩

theorem div_step_noDot (md : Mode) {a b : St}
    (h : Re.M md (.grp (.alt .bos (.alt .eos (Frag.sep false)))) a b) :
    ∃ w, a.rest = w ++ b.rest ∧ '.' ∉ w := by
  simp only [Re.M.eq_7, Re.M.eq_6] at h
  rcases h with h | h | h
  · simp only [Re.M] at h; exact ⟨[], by simp [h.1], by simp⟩
  · simp only [Re.M] at h; exact ⟨[], by simp [h.1], by simp⟩
  · obtain ⟨d, s, e1, e2, rfl⟩ := (M_sep md _ _).mp h
    simp at e2; subst e2
    exact ⟨['/'], by simp [e1], by simp⟩

theorem iter_div_noDot (md : Mode) {a b : St}
    (h : Iter (Re.M md (.grp (.alt .bos (.alt .eos (Frag.sep false))))) a b) :
    ∃ w, a.rest = w ++ b.rest ∧ '.' ∉ w := by
  induction h with
  | refl a => exact ⟨[], by simp, by simp⟩
  | step hab _ ih =>
    obtain ⟨w1, e1, h1⟩ := div_step_noDot md hab
    obtain ⟨w2, e2, h2⟩ := ih
    exact ⟨w1 ++ w2, by rw [e1, e2, List.append_assoc], by simp [h1, h2]⟩

theorem div_noDot (md : Mode) (a m : St) (h : Re.M md (Frag.globstarDiv false) a m) :
    ∃ w, a.rest = w ++ m.rest ∧ '.' ∉ w := by
  simp only [Frag.globstarDiv, Re.M.eq_12] at h
  obtain ⟨c, h1, h2⟩ := h
  obtain ⟨w1, e1, n1⟩ := div_step_noDot md h1
  obtain ⟨w2, e2, n2⟩ := iter_div_noDot md h2
  exact ⟨w1 ++ w2, by rw [e1, e2, List.append_assoc], by simp [n1, n2]⟩

/-- the separator-like fragments consume separators only -/
theorem sepRe_noDot (md : Mode) (x : Re) (hx : isSepRe x = true) (a m : St) (h : Re.M md x a m) :
    ∃ w, a.rest = w ++ m.rest ∧ '.' ∉ w := by
  simp only [isSepRe, Bool.or_eq_true, beq_iff_eq] at hx
  rcases hx with ((rfl | rfl) | rfl) | rfl
  · simp only [Frag.sepPlus, Re.M.eq_12] at h
    obtain ⟨c, h1, h2⟩ := h
    obtain ⟨w, e, hw⟩ := iter_sep_noDot md (Iter.step h1 h2)
    exact ⟨w, e, hw⟩
  · exact div_noDot md a m h
  · simp only [Frag.needSep, Re.M] at h
    exact ⟨[], by simp [h.1], by simp⟩
  · simp only [Frag.pathTrail, Re.M.eq_11] at h
    exact iter_sep_noDot md h

/-- the guarded one-character fragments of a segment start, and a literal other than `.` -/
def isGuardRe : Re → Bool
  | .lit c => c != '.'
  | .cat g .any => g == guard2
  | .cat g (.cls _ _) => g == guard2
  | _ => false

theorem guard2_fact {y : Re} (hy : OneChar y) (md : Mode) (a m : St) (h : Re.M md (.cat guard2 y) a m) :
    ∃ d, a.rest = d :: m.rest ∧ d ≠ '.' ∧ d ≠ '/' := by
  simp only [Re.M.eq_5] at h
  obtain ⟨c, h1, h2⟩ := h
  have hr := refuse_guard2 md a c
  obtain ⟨rfl, hs⟩ := guard_guard2 md a c h1
  obtain ⟨d, s, e1, e2⟩ := hy md c m h2
  refine ⟨d, by rw [e1, e2], ?_, ?_⟩
  · intro hd; exact hr (by rw [e1, hd]; rfl) h1
  · intro hd; exact hs (by rw [e1, hd]; rfl)

theorem guardRe_fact (x : Re) (hx : isGuardRe x = true) (hn : NoSlash x) (md : Mode) (a m : St)
    (h : Re.M md x a m) : ∃ d, a.rest = d :: m.rest ∧ d ≠ '.' ∧ d ≠ '/' := by
  cases x with
  | lit c =>
    simp only [isGuardRe, bne_iff_ne, ne_eq] at hx
    obtain ⟨w, e, hw⟩ := hn md a m h
    simp only [Re.M] at h
    obtain ⟨d, s, e1, e2, rfl⟩ := h
    refine ⟨d, e1, ?_, ?_⟩
    · intro hd; subst hd; exact hx (HF.charEq_dot md.ci c e2)
    · intro hd; subst hd
      rw [e1] at e
      simp only at e
      cases w with
      | nil => simp at e
      | cons d' t =>
        simp at e
        exact hw (by rw [← e.1]; simp)
  | cat g y =>
    cases y with
    | any =>
      simp only [isGuardRe, beq_iff_eq] at hx; subst hx
      exact guard2_fact oneChar_any md a m h
    | cls neg items =>
      simp only [isGuardRe, beq_iff_eq] at hx; subst hx
      exact guard2_fact (oneChar_cls neg items) md a m h
    | _ => simp [isGuardRe] at hx
  | _ => simp [isGuardRe] at hx

def isGstarRe (r : Re) : Bool :=
  r == Frag.pathGstarDot2 false || r == .gcap (Frag.pathGstarDot2 false)

/-- the globstar started at the very beginning of the subject, or where the next character is not
    a dot: what it consumes contains no start of a hidden piece, from whatever position it is read -/
theorem gstar_fact (ci : Bool) (g : Re) (hg : isGstarRe g = true) (a m : St)
    (ha : a.atStart = true ∨ a.rest.head? ≠ some '.')
    (h : Re.M ⟨true, ci⟩ g a m) : ∃ w, a.rest = w ++ m.rest ∧ ∀ f, ¬ Hid f w := by
  have h' : Re.M ⟨true, ci⟩ (Frag.pathGstarDot2 false) a m := by
    simp only [isGstarRe, Bool.or_eq_true, beq_iff_eq] at hg
    rcases hg with rfl | rfl
    · exact h
    · simpa [Re.M] using h
  have hstop := gstarDot2_stops_at_hidden ci a m h'
  have hit : Iter (fun x y => ¬ hiddenAhead x ∧ consume1 (fun _ => true) x y) a m := by
    simp only [Frag.pathGstarDot2, Re.M.eq_11] at h'
    exact (Iter.congr (fun x y => gstarStep_iff ci x y)).mp h'
  have hw : ∃ w, a.rest = w ++ m.rest := by
    clear hstop ha h h'
    induction hit with
    | refl a => exact ⟨[], by simp⟩
    | step hab _ ih =>
      obtain ⟨_, d, s, e1, _, rfl⟩ := hab
      obtain ⟨w, e⟩ := ih
      exact ⟨d :: w, by simp [e1, ← e]⟩
  obtain ⟨w, e⟩ := hw
  refine ⟨w, e, fun f => ?_⟩
  rintro (⟨_, hh⟩ | ⟨u, v, he⟩)
  · -- the first character consumed would be a dot
    cases hit with
    | refl _ =>
      have : w = [] := by simpa using e
      subst this; simp at hh
    | step hab _ =>
      obtain ⟨hno, d, s, e1, _, _⟩ := hab
      cases w with
      | nil => simp at hh
      | cons d' t =>
        simp at hh; subst hh
        rw [e1] at e
        simp at e
        obtain ⟨rfl, _⟩ := e
        rcases ha with ha | ha
        · exact hno (Or.inr ⟨ha, s, e1⟩)
        · exact ha (by rw [e1]; rfl)
  · have := hstop u (v ++ m.rest) (by rw [e, he]; simp)
    simp at this
    omega

theorem gstar_not_noSlash (g : Re) (hg : isGstarRe g = true) : ¬ NoSlash g := by
  intro hn
  have hm : Re.M ⟨true, false⟩ g ⟨false, ['/']⟩ ⟨false, []⟩ := by
    have h' : Re.M ⟨true, false⟩ (Frag.pathGstarDot2 false) ⟨false, ['/']⟩ ⟨false, []⟩ := by
      simp only [Frag.pathGstarDot2, Re.M.eq_11]
      refine .step ((gstarStep_iff false _ _).mpr ⟨?_, '/', [], rfl, rfl, rfl⟩) (.refl _)
      rintro (⟨s, hs⟩ | ⟨hs, _⟩)
      · simp at hs
      · cases hs
    simp only [isGstarRe, Bool.or_eq_true, beq_iff_eq] at hg
    rcases hg with rfl | rfl
    · exact h'
    · simpa [Re.M] using h'
  obtain ⟨w, e, hw⟩ := hn _ _ _ hm
  simp at e
  exact hw (by rw [← e]; simp)


/-! ### the top-level list -/

/-- the top-level item list of a path pattern (`gs` recognises the globstar fragment of the mode;
    `st` = nothing has been consumed before this list for sure): items that consume no separator, the separators `[/]+`, `(?:^|$|[/])+`, the final `[/]*?`,
    and globstars — each either at the very start or behind `(?=[/])`, and followed by its divider -/
inductive TopOK (gs : Re → Bool) : Bool → List Item → Prop
  | nil {st : Bool} : TopOK gs st []
  | empty {st : Bool} {l : List Item} : TopOK gs st l → TopOK gs st (.empty :: l)
  | transp {st : Bool} {l : List Item} : TopOK gs st l → TopOK gs st (.re Frag.noRoot :: l)
  | re {st : Bool} {x : Re} {l : List Item} : NoSlash x → TopOK gs false l → TopOK gs st (.re x :: l)
  | sep {st : Bool} {x : Re} {l : List Item} :
      (x = Frag.sepPlus false ∨ x = Frag.globstarDiv false ∨ x = Frag.pathTrail false) →
      TopOK gs false l → TopOK gs st (.re x :: l)
  | gstarStart {g : Re} {l : List Item} : gs g = true → TopOK gs false l →
      TopOK gs true (.re g :: .re (Frag.globstarDiv false) :: l)
  | gstarSep {st : Bool} {g : Re} {l : List Item} : gs g = true → TopOK gs false l →
      TopOK gs st (.re (Frag.needSep false) :: .re g :: .re (Frag.globstarDiv false) :: l)
  | group {st : Bool} {k : GKind} {c : Capt} {body l : List Item} : BodyNoSlash body → TopOK gs false l →
      TopOK gs st (.group k c body :: l)
  | invph {st : Bool} {c : Bool} {body : List Item} {star : Re} {l : List Item} : NoSlash star →
      TopOK gs false l → TopOK gs st (.invOpen c body :: .ph star :: l)
  | invcl {st : Bool} {c : Bool} {body t : List Item} {e : Option Re} {star : Re} {l : List Item} :
      NoSlash star → TopOK gs false l → TopOK gs st (.invOpen c body :: .closed t e star :: l)

theorem TopOK.mono {gs : Re → Bool} {l : List Item} (h : TopOK gs false l) : ∀ st, TopOK gs st l := by
  intro st
  cases st
  · exact h
  · generalize hb : false = b at h
    induction h with
    | nil => exact .nil
    | empty _ ih => exact .empty (ih hb)
    | transp _ ih => exact .transp (ih hb)
    | re hx h' _ => exact .re hx h'
    | sep hx h' _ => exact .sep hx h'
    | gstarStart _ _ _ => cases hb
    | gstarSep hg h' _ => exact .gstarSep hg h'
    | group hb' h' _ => exact .group hb' h'
    | invph hs h' _ => exact .invph hs h'
    | invcl hs h' _ => exact .invcl hs h'

theorem TopOK.append {gs : Re → Bool} {st : Bool} {l m : List Item} (h : TopOK gs st l) (hm : TopOK gs false m) : TopOK gs st (l ++ m) := by
  induction h with
  | nil => exact hm.mono _
  | empty _ ih => exact .empty ih
  | transp _ ih => exact .transp ih
  | re hx _ ih => exact .re hx ih
  | sep hx _ ih => exact .sep hx ih
  | gstarStart hg _ ih => exact .gstarStart hg ih
  | gstarSep hg _ ih => exact .gstarSep hg ih
  | group hb _ ih => exact .group hb ih
  | invph hs _ ih => exact .invph hs ih
  | invcl hs _ ih => exact .invcl hs ih

theorem TopOK.rel {gs : Re → Bool} {st : Bool} {l l' : List Item} (h : TopOK gs st l) (hr : Rel l l') : TopOK gs st l' := by
  induction h generalizing l' with
  | nil => cases hr; exact .nil
  | empty _ ih => cases hr with | same _ h' => exact .empty (ih h')
  | transp _ ih => cases hr with | same _ h' => exact .transp (ih h')
  | re hx _ ih => cases hr with | same _ h' => exact .re hx (ih h')
  | sep hx _ ih => cases hr with | same _ h' => exact .sep hx (ih h')
  | gstarStart hg _ ih =>
    cases hr with
    | same _ h' => cases h' with | same _ h'' => exact .gstarStart hg (ih h'')
  | gstarSep hg _ ih =>
    cases hr with
    | same _ h' =>
      cases h' with
      | same _ h'' => cases h'' with | same _ h''' => exact .gstarSep hg (ih h''')
  | group hb _ ih => cases hr with | same _ h' => exact .group hb (ih h')
  | invph hs _ ih =>
    cases hr with
    | same _ h' =>
      cases h' with
      | same _ h'' => exact .invph hs (ih h'')
      | ph _ t e h'' => exact .invcl hs (ih h'')
  | invcl hs _ ih =>
    cases hr with
    | same _ h' => cases h' with | same _ h'' => exact .invcl hs (ih h'')

/-! ### the scan of the segments -/

inductive RK | sep | keep | guard | other
  deriving DecidableEq

/-- the kind of a top-level fragment: a separator (a new segment starts after it); a fragment that
    leaves the segment start where it was (a globstar, `_NO_ROOT`, the segment-start star: they can
    match the empty string, the star even at a dot — D4); a guarded one-character fragment or a
    literal other than `.`; anything else -/
def reKind (r : Re) : RK :=
  if isSepRe r then .sep
  else if isGstarRe r || r == Frag.noRoot || r == starRe then .keep
  else if isGuardRe r then .guard
  else .other

/-- what a group at a segment start must satisfy to count as a guarded item: its regex consumes at
    least one character, no separator, and not a dot first -/
def GFactRe (x : Re) : Prop :=
  ∀ md a m, Re.M md x a m → ∃ w, a.rest = w ++ m.rest ∧ '/' ∉ w ∧ w ≠ [] ∧ w.head? ≠ some '.'

/-- `grp k body = true` only for groups that are guarded in the sense of `GFactRe` -/
def GrpOK (grp : GKind → List Item → Bool) : Prop :=
  ∀ k c body, grp k body = true → BodyNoSlash body →
    ∀ fuel b, Item.listToRe fuel body = some b → GFactRe (quant k c b)

/-- no group is accepted at a segment start (the coarse scan) -/
def noGrp : GKind → List Item → Bool := fun _ _ => false

theorem grpOK_noGrp : GrpOK noGrp := fun _ _ _ h => by simp [noGrp] at h

/-- do all segments of the top-level list start well?  `start = true`: no character of the current
    segment has certainly been consumed by the items read so far.  At a segment start only separators,
    "keep" fragments, an `!(…)` group whose closing star is the segment-start star, guarded
    fragments and the extended groups `grp` accepts pass; the latter two end the segment
    start.  Everything else there — a written dot, an unguarded wildcard (D4), any other extended
    group (D5) — makes the scan fail. -/
def segScanG (grp : GKind → List Item → Bool) : Bool → List Item → Bool
  | _, [] => true
  | start, .re r :: l =>
    match reKind r with
    | .sep => segScanG grp true l
    | .keep => segScanG grp start l
    | .guard => segScanG grp false l
    | .other => if start then false else segScanG grp false l
  | start, .empty :: l => segScanG grp start l
  | start, .invOpen _ _ :: .closed _ _ star :: l =>
    if start then (star == starRe && segScanG grp true l) else segScanG grp false l
  | start, .invOpen _ _ :: .ph star :: l =>
    if start then (star == starRe && segScanG grp true l) else segScanG grp false l
  | start, .group k _ body :: l =>
    if start then (grp k body && segScanG grp false l) else segScanG grp false l
  | start, _ :: l => if start then false else segScanG grp false l

theorem segScanG_re (grp : GKind → List Item → Bool) (start : Bool) (r : Re) (l : List Item) :
    segScanG grp start (.re r :: l) =
      match reKind r with
      | .sep => segScanG grp true l
      | .keep => segScanG grp start l
      | .guard => segScanG grp false l
      | .other => if start then false else segScanG grp false l := by
  rw [segScanG]

/-- the coarse scan: every extended group at a segment start makes it fail -/
abbrev segScan : Bool → List Item → Bool := segScanG noGrp

theorem M_catE'_split (md : Mode) (x y : Re) (a b : St) (h : Re.M md (catE' x y) a b) :
    ∃ m, Re.M md x a m ∧ Re.M md y m b := by
  unfold catE' at h
  split at h
  · rename_i hy; subst hy; exact ⟨b, h, rfl⟩
  · split at h
    · rename_i hx; subst hx; exact ⟨a, rfl, h⟩
    · simpa [Re.M] using h


theorem reKind_sep {r : Re} (h : reKind r = .sep) : isSepRe r = true := by
  unfold reKind at h
  split at h
  · assumption
  · split at h
    · cases h
    · split at h <;> cases h

theorem reKind_keep {r : Re} (h : reKind r = .keep) : isGstarRe r = true ∨ r = Frag.noRoot ∨ r = starRe := by
  unfold reKind at h
  split at h
  · cases h
  · split at h
    · rename_i hk
      simp only [Bool.or_eq_true, beq_iff_eq] at hk
      rcases hk with (hk | hk) | hk
      · exact Or.inl hk
      · exact Or.inr (Or.inl hk)
      · exact Or.inr (Or.inr hk)
    · split at h <;> cases h

theorem reKind_guard {r : Re} (h : reKind r = .guard) : isGuardRe r = true := by
  unfold reKind at h
  split at h
  · cases h
  · split at h
    · cases h
    · split at h
      · assumption
      · cases h

theorem reKind_gstar {g : Re} (hg : isGstarRe g = true) : reKind g = .keep := by
  simp only [isGstarRe, Bool.or_eq_true, beq_iff_eq] at hg
  rcases hg with rfl | rfl <;> decide

theorem combine {f : Bool} {a m b : St} {w₁ : List Char} (e1 : a.rest = w₁ ++ m.rest) (h1 : ¬ Hid f w₁)
    (h2 : ∃ w₂, m.rest = w₂ ++ b.rest ∧ ¬ Hid (nextFresh f w₁) w₂) :
    ∃ w, a.rest = w ++ b.rest ∧ ¬ Hid f w := by
  obtain ⟨w₂, e2, h2⟩ := h2
  exact ⟨w₁ ++ w₂, by rw [e1, e2, List.append_assoc], not_hid_append h1 h2⟩

theorem not_hid_single {f : Bool} {d : Char} (hd : d ≠ '.') : ¬ Hid f [d] := by
  rintro (⟨_, h⟩ | ⟨u, v, h⟩)
  · simp at h; exact hd h
  · have := congrArg List.length h
    simp at this
    omega

theorem nextFresh_single {f : Bool} {d : Char} (hd : d ≠ '/') : nextFresh f [d] = false := by
  simp [nextFresh, hd]

/-- **the semantic theorem for top-level lists**: if every segment starts well, what the regex
    consumes contains no start of a hidden piece -/
theorem topOK_semG (grp : GKind → List Item → Bool) (hgrp : GrpOK grp) (ci : Bool) {st : Bool} {l : List Item}
    (h : TopOK isGstarRe st l) :
    ∀ (fuel : Nat) (r : Re) (start f : Bool) (a b : St),
      segScanG grp start l = true → (start = false → f = false) → (st = true → a.atStart = true) →
      Item.seqToRe fuel l = some r → Re.M ⟨true, ci⟩ r a b →
      ∃ w, a.rest = w ++ b.rest ∧ ¬ Hid f w := by
  induction h with
  | nil =>
    intro fuel r start f a b _ _ _ hr hm
    cases fuel with
    | zero => simp [Item.seqToRe] at hr
    | succ n =>
      simp [Item.seqToRe] at hr; subst hr
      simp only [Re.M] at hm; subst hm
      exact ⟨[], by simp, not_hid_nil f⟩
  | empty _ ih =>
    intro fuel r start f a b hs hf hst hr hm
    cases fuel with
    | zero => simp [Item.seqToRe] at hr
    | succ n =>
      simp only [Item.seqToRe] at hr
      exact ih n r start f a b (by simpa [segScanG] using hs) hf hst hr hm
  | @transp st l _ ih =>
    intro fuel r start f a b hs hf hst hr hm
    cases fuel with
    | zero => simp [Item.seqToRe] at hr
    | succ n =>
      simp only [Item.seqToRe] at hr
      cases hq : Item.seqToRe n l with
      | none => simp [hq] at hr
      | some r' =>
        simp [hq] at hr; subst hr
        obtain ⟨m, h1, h2⟩ := M_catE'_split _ _ _ _ _ hm
        have : m = a := by simp only [Frag.noRoot, Re.M] at h1; exact h1.1
        subst this
        have hk : reKind Frag.noRoot = .keep := by decide
        rw [segScanG_re, hk] at hs
        exact ih n r' start f m b hs hf hst hq h2
  | @re st x l hx _ ih =>
    intro fuel r start f a b hs hf hst hr hm
    cases fuel with
    | zero => simp [Item.seqToRe] at hr
    | succ n =>
      simp only [Item.seqToRe] at hr
      cases hq : Item.seqToRe n l with
      | none => simp [hq] at hr
      | some r' =>
        simp [hq] at hr; subst hr
        obtain ⟨m, h1, h2⟩ := M_catE'_split _ _ _ _ _ hm
        -- the generic step in the middle of a segment
        have mid : f = false → segScanG grp false l = true → ∃ w, a.rest = w ++ b.rest ∧ ¬ Hid f w := by
          intro hf0 hs'
          subst hf0
          obtain ⟨w₁, e1, n1⟩ := hx _ a m h1
          refine combine e1 (not_hid_noSlash_false n1) ?_
          rw [nextFresh_noSlash_false n1]
          exact ih n r' false false m b hs' (fun _ => rfl) (fun hh => by cases hh) hq h2
        rw [segScanG_re] at hs
        cases hk : reKind x with
        | sep =>
          rw [hk] at hs
          obtain ⟨w₁, e1, n1⟩ := sepRe_noDot _ x (reKind_sep hk) a m h1
          exact combine e1 (not_hid_noDot n1)
            (ih n r' true _ m b hs (fun hh => by cases hh) (fun hh => by cases hh) hq h2)
        | keep =>
          rw [hk] at hs
          cases start with
          | false => exact mid (hf rfl) hs
          | true =>
            rcases reKind_keep hk with hg | rfl | rfl
            · exact absurd hx (gstar_not_noSlash x hg)
            · have : m = a := by simp only [Frag.noRoot, Re.M] at h1; exact h1.1
              subst this
              exact ih n r' true f m b hs (fun hh => by cases hh) (fun hh => by cases hh) hq h2
            · obtain ⟨w₁, e1, n1, n2⟩ := starRe_fact _ a m h1
              exact combine e1 (not_hid_noSlash_head n1 n2)
                (ih n r' true _ m b hs (fun hh => by cases hh) (fun hh => by cases hh) hq h2)
        | guard =>
          rw [hk] at hs
          obtain ⟨d, e1, d1, d2⟩ := guardRe_fact x (reKind_guard hk) hx _ a m h1
          refine combine (w₁ := [d]) (by simpa using e1) (not_hid_single d1) ?_
          rw [nextFresh_single d2]
          exact ih n r' false false m b hs (fun _ => rfl) (fun hh => by cases hh) hq h2
        | other =>
          rw [hk] at hs
          cases start with
          | false => exact mid (hf rfl) (by simpa using hs)
          | true => simp at hs
  | @sep st x l hx _ ih =>
    intro fuel r start f a b hs hf hst hr hm
    cases fuel with
    | zero => simp [Item.seqToRe] at hr
    | succ n =>
      simp only [Item.seqToRe] at hr
      cases hq : Item.seqToRe n l with
      | none => simp [hq] at hr
      | some r' =>
        simp [hq] at hr; subst hr
        obtain ⟨m, h1, h2⟩ := M_catE'_split _ _ _ _ _ hm
        have hk : reKind x = .sep := by rcases hx with rfl | rfl | rfl <;> decide
        rw [segScanG_re, hk] at hs
        obtain ⟨w₁, e1, n1⟩ := sepRe_noDot _ x (reKind_sep hk) a m h1
        exact combine e1 (not_hid_noDot n1)
          (ih n r' true _ m b hs (fun hh => by cases hh) (fun hh => by cases hh) hq h2)
  | @gstarStart g l hg _ ih =>
    intro fuel r start f a b hs hf hst hr hm
    cases fuel with
    | zero => simp [Item.seqToRe] at hr
    | succ n =>
      simp only [Item.seqToRe] at hr
      cases n with
      | zero => simp [Item.seqToRe] at hr
      | succ n =>
        simp only [Item.seqToRe] at hr
        cases hq : Item.seqToRe n l with
        | none => simp [hq] at hr
        | some r' =>
          simp [hq] at hr; subst hr
          obtain ⟨m, h1, h2⟩ := M_catE'_split _ _ _ _ _ hm
          obtain ⟨m2, h3, h4⟩ := M_catE'_split _ _ _ _ _ h2
          have hk2 : reKind (Frag.globstarDiv false) = .sep := by decide
          rw [segScanG_re, reKind_gstar hg, segScanG_re, hk2] at hs
          obtain ⟨w₁, e1, n1⟩ := gstar_fact ci g hg a m (Or.inl (hst rfl)) h1
          obtain ⟨w₂, e2, n2⟩ := div_noDot _ m m2 h3
          refine combine e1 (n1 f) (combine e2 (not_hid_noDot n2) ?_)
          exact ih n r' true _ m2 b hs (fun hh => by cases hh) (fun hh => by cases hh) hq h4
  | @gstarSep st g l hg _ ih =>
    intro fuel r start f a b hs hf hst hr hm
    cases fuel with
    | zero => simp [Item.seqToRe] at hr
    | succ n =>
      simp only [Item.seqToRe] at hr
      cases n with
      | zero => simp [Item.seqToRe] at hr
      | succ n =>
        simp only [Item.seqToRe] at hr
        cases n with
        | zero => simp [Item.seqToRe] at hr
        | succ n =>
          simp only [Item.seqToRe] at hr
          cases hq : Item.seqToRe n l with
          | none => simp [hq] at hr
          | some r' =>
            simp [hq] at hr; subst hr
            obtain ⟨m0, h0, h2⟩ := M_catE'_split _ _ _ _ _ hm
            obtain ⟨m, h1, h2⟩ := M_catE'_split _ _ _ _ _ h2
            obtain ⟨m2, h3, h4⟩ := M_catE'_split _ _ _ _ _ h2
            have hk0 : reKind (Frag.needSep false) = .sep := by decide
            have hk2 : reKind (Frag.globstarDiv false) = .sep := by decide
            rw [segScanG_re, hk0, segScanG_re, reKind_gstar hg, segScanG_re, hk2] at hs
            have hns : m0 = a ∧ a.rest.head? ≠ some '.' := by
              simp only [Frag.needSep, Re.M] at h0
              obtain ⟨e, c, hc⟩ := h0
              refine ⟨e, fun hd => ?_⟩
              exact not_sep_at_dot _ a c hd hc
            obtain ⟨rfl, hnd⟩ := hns
            obtain ⟨w₁, e1, n1⟩ := gstar_fact ci g hg m0 m (Or.inr hnd) h1
            obtain ⟨w₂, e2, n2⟩ := div_noDot _ m m2 h3
            refine combine e1 (n1 f) (combine e2 (not_hid_noDot n2) ?_)
            exact ih n r' true _ m2 b hs (fun hh => by cases hh) (fun hh => by cases hh) hq h4
  | @group st k c body l hb _ ih =>
    intro fuel r start f a b hs hf hst hr hm
    cases fuel with
    | zero => simp [Item.seqToRe] at hr
    | succ n =>
      simp only [Item.seqToRe, Option.bind_eq_bind, Option.bind_eq_some_iff, Option.pure_def,
        Option.some.injEq] at hr
      obtain ⟨b', hb', r', hq, hr⟩ := hr
      subst hr
      obtain ⟨m, h1, h2⟩ := M_catE'_split _ _ _ _ _ hm
      cases start with
      | true =>
        simp only [segScanG, if_true, Bool.and_eq_true] at hs
        obtain ⟨hg, hs'⟩ := hs
        obtain ⟨w₁, e1, n1, n2, n3⟩ := hgrp k c body hg hb n b' hb' _ a m h1
        refine combine e1 (not_hid_noSlash_head n1 n3) ?_
        rw [nextFresh_of_noSlash n2 n1]
        exact ih n r' false false m b hs' (fun _ => rfl) (fun hh => by cases hh) hq h2
      | false =>
        have hs' : segScanG grp false l = true := by simpa [segScanG] using hs
        have hf0 := hf rfl
        subst hf0
        obtain ⟨w₁, e1, n1⟩ := (NoSlash.quant k c (hb n b' hb')) _ a m h1
        refine combine e1 (not_hid_noSlash_false n1) ?_
        rw [nextFresh_noSlash_false n1]
        exact ih n r' false false m b hs' (fun _ => rfl) (fun hh => by cases hh) hq h2
  | invph _ _ _ =>
    intro fuel r start f a b hs hf hst hr hm
    cases fuel with
    | zero => simp [Item.seqToRe] at hr
    | succ n => simp [Item.seqToRe] at hr
  | @invcl st c body t e star l hstar _ ih =>
    intro fuel r start f a b hs hf hst hr hm
    cases fuel with
    | zero => simp [Item.seqToRe] at hr
    | succ n =>
      simp only [Item.seqToRe, Option.bind_eq_bind, Option.bind_eq_some_iff, Option.pure_def,
        Option.some.injEq] at hr
      obtain ⟨b', _, la, _, r', hq, hr⟩ := hr
      subst hr
      obtain ⟨m, h1, h2⟩ := M_catE'_split _ _ _ _ _ hm
      have h1' : Re.M ⟨true, ci⟩ star a m := by
        have : Re.M ⟨true, ci⟩ (.cat (.look true la) star) a m := by
          cases c <;> simpa [Re.M] using h1
        simp only [Re.M.eq_5] at this
        obtain ⟨c', h3, h4⟩ := this
        have : c' = a := by simp only [Re.M] at h3; exact h3.1
        subst this
        exact h4
      cases start with
      | true =>
        simp only [segScanG, if_true, Bool.and_eq_true, beq_iff_eq] at hs
        obtain ⟨rfl, hs'⟩ := hs
        obtain ⟨w₁, e1, n1, n2⟩ := starRe_fact _ a m h1'
        exact combine e1 (not_hid_noSlash_head n1 n2)
          (ih n r' true _ m b hs' (fun hh => by cases hh) (fun hh => by cases hh) hq h2)
      | false =>
        have hs' : segScanG grp false l = true := by simpa [segScanG] using hs
        have hf0 := hf rfl
        subst hf0
        obtain ⟨w₁, e1, n1⟩ := hstar _ a m h1'
        refine combine e1 (not_hid_noSlash_false n1) ?_
        rw [nextFresh_noSlash_false n1]
        exact ih n r' false false m b hs' (fun _ => rfl) (fun hh => by cases hh) hq h2


/-- the subject has a hidden piece: it begins with a dot, or a dot follows a separator -/
def HasHidden (s : List Char) : Prop := Hid true s

/-- **a compiled path pattern whose top-level list is well formed and all of whose segments start
    well matches no subject that has a hidden piece** -/
theorem toRe_no_hiddenG (grp : GKind → List Item → Bool) (hgrp : GrpOK grp) (parsed : Parsed)
    (hn : NoBar parsed.items) (ht : TopOK isGstarRe true parsed.items)
    (hs : segScanG grp true parsed.items = true) (r : Re) (hr : parsed.toRe = some r)
    (s : List Char) (hh : HasHidden s) : ¬ r.FullMatch s := by
  unfold Parsed.toRe at hr
  cases hi : Item.listToRe (2 * Item.sizeL parsed.items + 4) parsed.items with
  | none => simp [hi] at hr
  | some inner =>
    simp [hi] at hr
    rw [← hr]
    rintro ⟨b, hm⟩
    simp only [Re.M] at hm
    obtain ⟨c, ⟨rfl, _⟩, c', hm, rfl, _⟩ := hm
    generalize 2 * Item.sizeL parsed.items + 4 = fuel at hi
    cases fuel with
    | zero => simp [Item.listToRe] at hi
    | succ n =>
      simp only [Item.listToRe, HF.splitBars_noBar parsed.items hn, List.mapM_cons, List.mapM_nil] at hi
      cases hq : Item.seqToRe n parsed.items with
      | none => simp [hq] at hi
      | some r' =>
        simp [hq, altOfList] at hi
        subst hi
        obtain ⟨w, e, hw⟩ := topOK_semG grp hgrp parsed.ci ht n r' true true _ _ hs (fun hh => by cases hh)
          (fun _ => rfl) hq hm
        simp at e
        subst e
        exact hw hh

/-- the coarse form: every extended group at a segment start counts as unguarded -/
theorem toRe_no_hidden (parsed : Parsed) (hn : NoBar parsed.items) (ht : TopOK isGstarRe true parsed.items)
    (hs : segScan true parsed.items = true) (r : Re) (hr : parsed.toRe = some r)
    (s : List Char) (hh : HasHidden s) : ¬ r.FullMatch s :=
  toRe_no_hiddenG noGrp grpOK_noGrp parsed hn ht hs r hr s hh

end HP
end WcModel

import WcModel.Driver.Lists
import WcModel.Proofs.BytesWalkLoop
import WcModel.Proofs.BytesWalkList
/-
  C18 on the walkers — the K4 world of the driver (`Driver/Lists.lean: extOf isBytes r`) is a pair of
  worlds that differ only in their compilers, up to the normal form of the compiled regex
  (`extOf_twin`): the per-pattern compiler is `WcParse(…).parse()` on `Cfg.ofFlags isBytes fl`
  (`C18.bytes_str_winDrive`), the NODIR regex is one model regex for both types, and bracex,
  `WcSplit`, `expand_tilde` do not take the type.  The NORMALISER (`util.norm_pattern`) does take
  the type and is given to both worlds as the same function `nm` (see `Properties/C18walk.lean`).
-/
namespace WcModel.Driver.Lists
open WcModel.Compile

/-- what is compared of a compiled pattern of the driver: the regex up to the spelling of the
    full range, and whether the parse failed (the rendered text differs by that spelling) -/
def CR.bnorm (c : CR) : Option Re × Bool := (c.re.map Re.bnorm, c.bad)

theorem extOf_parse_twin (r : Req) (fl : Flags) (p : List Char) :
    CR.bnorm ((extOf true r).parse fl p) = CR.bnorm ((extOf false r).parse fl p) := by
  simp only [extOf]
  rcases C18.bytes_str_winDrive fl p with ⟨hB, hS⟩ | ⟨pB, pS, rB, rS, hB, hS, _, hrB, hrS, ht, _⟩
  · rw [hB, hS]
  · rw [hB, hS]
    simp only [CR.bnorm, hrB, hrS, Option.map_some, ht.bnorm_eq]

/-- the two K4 worlds with a common normaliser -/
def extN (b : Bool) (r : Req) (nm : Flags → Compile.Pat → Except Norm.NormErr Compile.Pat) : Ext CR :=
  { extOf b r with norm := nm }

theorem extOf_twin (r : Req) (nm : Flags → Compile.Pat → Except Norm.NormErr Compile.Pat) :
    (extN true r nm).mapR CR.bnorm = (extN false r nm).mapR CR.bnorm := by
  simp only [Ext.mapR, extN, Ext.mk.injEq, true_and]
  refine ⟨rfl, rfl, rfl, ?_, rfl⟩
  funext fl p
  exact extOf_parse_twin r fl p

/-- the driver's per-pattern test (`matchBits`) -/
def crMatch (r : CR) (n : List Char) : Bool :=
  match r.re with
  | some re => re.fullmatch n
  | none => false

def crMatch' (c : Option Re × Bool) (n : List Char) : Bool :=
  match c.1 with
  | some re => re.fullmatch n
  | none => false

theorem crMatch_bnorm (r : CR) (n : List Char) (hn : Latin1 n) : crMatch' (CR.bnorm r) n = crMatch r n := by
  unfold crMatch crMatch' CR.bnorm
  cases r.re with
  | none => rfl
  | some re =>
    simp only [Option.map_some]
    exact (ReBytesTwin.of_bnorm_eq (Re.bnorm_idem re)).fullmatch_eq n hn

/-- compiled lists `CR.bnorm` cannot tell apart give the same `any(include) and not any(exclude)`
    on Latin-1 names -/
theorem matchPN_twin {posB posS negB negS : List CR} (hp : posB.map CR.bnorm = posS.map CR.bnorm)
    (hn : negB.map CR.bnorm = negS.map CR.bnorm) (n : List Char) (hl : Latin1 n) :
    matchPN crMatch posB negB n = matchPN crMatch posS negS n := by
  rw [← matchPN_map CR.bnorm crMatch crMatch' n (fun r => crMatch_bnorm r n hl) posB negB,
    ← matchPN_map CR.bnorm crMatch crMatch' n (fun r => crMatch_bnorm r n hl) posS negS, hp, hn]

end WcModel.Driver.Lists

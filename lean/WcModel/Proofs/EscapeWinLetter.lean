import WcModel.Proofs.EscapeWinCarve
/-
  C09 under Windows rules, part (3): the agreement hypothesis `DriveAgree` PROVED for the
  drive-letter forms — for every ASCII letter `l` and every rest:

      l:/rest      l:\rest      l:      l:\n

  (`RE_WIN_DRIVE`'s third alternative on one side, `RE_WIN_DRIVE_START`'s `[\\]?[a-z][\\]?:` +
  `RE_WIN_DRIVE_LETTER` on the other), so that `escape_drive_language` holds for them without
  any hypothesis on the string.
-/
set_option linter.unusedSimpArgs false
namespace WcModel

open EscW

theorem isLetter_props {l : Char} (h : Win.isLetter l = true) :
    l ≠ '/' ∧ l ≠ '\\' ∧ l ≠ '{' ∧ l ≠ '}' ∧ l ≠ '|' ∧ l ≠ ':' := by
  refine ⟨?_, ?_, ?_, ?_, ?_, ?_⟩ <;> (rintro rfl; revert h; decide)

theorem dbl_letter (l : Char) (hl : Win.isLetter l = true) (x : List Char) :
    dbl (l :: ':' :: x) = l :: ':' :: dbl x := by
  obtain ⟨_, h2, _⟩ := isLetter_props hl
  simp [dbl, h2]

/-! ### escape's side -/

theorem reWinDrive_letter_slash (l : Char) (hl : Win.isLetter l = true) (R : List Char) :
    reWinDrive (l :: ':' :: '/' :: R) = some R := by
  obtain ⟨h1, h2, _⟩ := isLetter_props hl
  unfold reWinDrive
  simp [sepD, h1, h2, letterColon, hl, tailD, Option.orElse]

theorem reWinDrive_letter_bs (l : Char) (hl : Win.isLetter l = true) (R : List Char) :
    reWinDrive (l :: ':' :: '\\' :: '\\' :: R) = some R := by
  obtain ⟨h1, h2, _⟩ := isLetter_props hl
  unfold reWinDrive
  simp [sepD, h1, h2, letterColon, hl, tailD, Option.orElse]

theorem reWinDrive_letter_end (l : Char) (hl : Win.isLetter l = true) :
    reWinDrive [l, ':'] = some [] := by
  obtain ⟨h1, h2, _⟩ := isLetter_props hl
  unfold reWinDrive
  simp [sepD, h1, h2, letterColon, hl, tailD, Option.orElse, atEos]

theorem reWinDrive_letter_nl (l : Char) (hl : Win.isLetter l = true) :
    reWinDrive [l, ':', '\n'] = some ['\n'] := by
  obtain ⟨h1, h2, _⟩ := isLetter_props hl
  unfold reWinDrive
  simp [sepD, h1, h2, letterColon, hl, tailD, Option.orElse, atEos]

/-! ### the parser's side -/

theorem winDrive_letter_slash (cfg : Cfg) (l : Char) (hl : Win.isLetter l = true) (R : List Char) :
    winDrive cfg (l :: ':' :: '/' :: R) =
      { rootSpecified := true, drive := some [.re (Win.escapeDrive [l, ':'] cfg.caseSensitive)],
        slash := true, endIdx := 3 } := by
  obtain ⟨h1, h2, _, _, _, h6⟩ := isLetter_props hl
  unfold winDrive
  simp [Win.sep2, h1, h2, hl, Win.sepOrEnd, Win.unescape, h6]

theorem winDrive_letter_bs (cfg : Cfg) (l : Char) (hl : Win.isLetter l = true) (R : List Char) :
    winDrive cfg (l :: ':' :: '\\' :: '\\' :: R) =
      { rootSpecified := true, drive := some [.re (Win.escapeDrive [l, ':'] cfg.caseSensitive)],
        slash := true, endIdx := 4 } := by
  obtain ⟨h1, h2, _, _, _, h6⟩ := isLetter_props hl
  unfold winDrive
  simp [Win.sep2, h1, h2, hl, Win.sepOrEnd, Win.unescape, h6]

theorem winDrive_letter_end (cfg : Cfg) (l : Char) (hl : Win.isLetter l = true) :
    winDrive cfg [l, ':'] =
      { rootSpecified := true, drive := some [.re (Win.escapeDrive [l, ':'] cfg.caseSensitive)],
        slash := false, endIdx := 2 } := by
  obtain ⟨h1, h2, _, _, _, h6⟩ := isLetter_props hl
  unfold winDrive
  simp [Win.sep2, h1, h2, hl, Win.sepOrEnd, Win.unescape, h6, atEos]

theorem winDrive_letter_nl (cfg : Cfg) (l : Char) (hl : Win.isLetter l = true) :
    winDrive cfg [l, ':', '\n'] =
      { rootSpecified := true, drive := some [.re (Win.escapeDrive [l, ':'] cfg.caseSensitive)],
        slash := false, endIdx := 2 } := by
  obtain ⟨h1, h2, _, _, _, h6⟩ := isLetter_props hl
  unfold winDrive
  simp [Win.sep2, h1, h2, hl, Win.sepOrEnd, Win.unescape, h6, atEos]

theorem driveReOf_letter (cs : Bool) (l : Char) (hl : Win.isLetter l = true) :
    driveReOf cs [l, ':'] = Win.escapeDrive [l, ':'] cs := by
  obtain ⟨h1, h2, _⟩ := isLetter_props hl
  simp [driveReOf, isSepW, h1, h2]

theorem driveMagicSub_letter (l : Char) (hl : Win.isLetter l = true) (x : List Char) :
    driveMagicSub (l :: ':' :: x) = l :: ':' :: driveMagicSub x := by
  obtain ⟨_, _, h3, h4, h5, _⟩ := isLetter_props hl
  simp [driveMagicSub, driveMagicChars, h3, h4, h5]

/-! ### the four forms -/

/-- `l:/rest` -/
theorem driveAgree_letter_slash (cfg : Cfg) (l : Char) (hl : Win.isLetter l = true) (rest : List Char) :
    DriveAgree cfg [l, ':', '/'] rest = true := by
  have hc : reWinDrive (dbl ([l, ':', '/'] ++ rest)) = some (dbl rest) := by
    have : dbl ([l, ':', '/'] ++ rest) = l :: ':' :: '/' :: dbl rest := by
      rw [show [l, ':', '/'] ++ rest = l :: ':' :: ('/' :: rest) from rfl, dbl_letter l hl]
      simp [dbl]
    rw [this]; exact reWinDrive_letter_slash l hl _
  have hp := escapeWin_carve _ _ hc
  have hd : driveMagicSub (dbl [l, ':', '/']) = [l, ':', '/'] := by
    rw [dbl_letter l hl, driveMagicSub_letter l hl]; rfl
  rw [hd] at hp
  have hw := winDrive_letter_slash cfg l hl (escapeUnix rest)
  apply DriveAgreeP.agree
  refine ⟨hc, ?_, ?_, ?_, ?_⟩
  · rw [hp]; simp only [List.cons_append, List.nil_append]; rw [hw]
  · rw [hp, hd]; simp only [List.cons_append, List.nil_append]; rw [hw]; rfl
  · rw [hp]; simp only [List.cons_append, List.nil_append]; rw [hw]; rfl
  · rw [hp]; simp only [List.cons_append, List.nil_append]; rw [hw]
    have : driveCore [l, ':', '/'] = [l, ':'] := by simp [driveCore, endsSepW, isSepW]
    rw [this, driveReOf_letter _ l hl]

/-- `l:\rest` -/
theorem driveAgree_letter_bs (cfg : Cfg) (l : Char) (hl : Win.isLetter l = true) (rest : List Char) :
    DriveAgree cfg [l, ':', '\\'] rest = true := by
  have hc : reWinDrive (dbl ([l, ':', '\\'] ++ rest)) = some (dbl rest) := by
    have : dbl ([l, ':', '\\'] ++ rest) = l :: ':' :: '\\' :: '\\' :: dbl rest := by
      rw [show [l, ':', '\\'] ++ rest = l :: ':' :: ('\\' :: rest) from rfl, dbl_letter l hl]
      simp [dbl]
    rw [this]; exact reWinDrive_letter_bs l hl _
  have hp := escapeWin_carve _ _ hc
  have hd : driveMagicSub (dbl [l, ':', '\\']) = [l, ':', '\\', '\\'] := by
    rw [dbl_letter l hl, driveMagicSub_letter l hl]; rfl
  rw [hd] at hp
  have hw := winDrive_letter_bs cfg l hl (escapeUnix rest)
  apply DriveAgreeP.agree
  refine ⟨hc, ?_, ?_, ?_, ?_⟩
  · rw [hp]; simp only [List.cons_append, List.nil_append]; rw [hw]
  · rw [hp, hd]; simp only [List.cons_append, List.nil_append]; rw [hw]; rfl
  · rw [hp]; simp only [List.cons_append, List.nil_append]; rw [hw]; rfl
  · rw [hp]; simp only [List.cons_append, List.nil_append]; rw [hw]
    have : driveCore [l, ':', '\\'] = [l, ':'] := by simp [driveCore, endsSepW, isSepW]
    rw [this, driveReOf_letter _ l hl]

theorem driveCore_letter (l : Char) : driveCore [l, ':'] = [l, ':'] := by
  simp [driveCore, endsSepW, isSepW]

/-- `l:` -/
theorem driveAgree_letter_end (cfg : Cfg) (l : Char) (hl : Win.isLetter l = true) :
    DriveAgree cfg [l, ':'] [] = true := by
  have hc : reWinDrive (dbl ([l, ':'] ++ [])) = some (dbl []) := by
    have : dbl ([l, ':'] ++ []) = [l, ':'] := by
      rw [show [l, ':'] ++ [] = l :: ':' :: [] from rfl, dbl_letter l hl]; rfl
    rw [this]; exact reWinDrive_letter_end l hl
  have hp := escapeWin_carve _ _ hc
  have hd : driveMagicSub (dbl [l, ':']) = [l, ':'] := by
    rw [dbl_letter l hl, driveMagicSub_letter l hl]; rfl
  rw [hd] at hp
  have hp' : escapeWin ([l, ':'] ++ []) = [l, ':'] := by rw [hp]; rfl
  have hw := winDrive_letter_end cfg l hl
  apply DriveAgreeP.agree
  refine ⟨hc, ?_, ?_, ?_, ?_⟩
  · rw [hp', hw]
  · rw [hp', hd, hw]; rfl
  · rw [hp', hw]; simp [endsSepW, isSepW]
  · rw [hp', hw, driveCore_letter, driveReOf_letter _ l hl]

/-- `l:\n` (the `$` of both regexes matches before a final newline) -/
theorem driveAgree_letter_nl (cfg : Cfg) (l : Char) (hl : Win.isLetter l = true) :
    DriveAgree cfg [l, ':'] ['\n'] = true := by
  have hc : reWinDrive (dbl ([l, ':'] ++ ['\n'])) = some (dbl ['\n']) := by
    have : dbl ([l, ':'] ++ ['\n']) = [l, ':', '\n'] := by
      rw [show [l, ':'] ++ ['\n'] = l :: ':' :: ['\n'] from rfl, dbl_letter l hl]; rfl
    rw [this]; exact reWinDrive_letter_nl l hl
  have hp := escapeWin_carve _ _ hc
  have hd : driveMagicSub (dbl [l, ':']) = [l, ':'] := by
    rw [dbl_letter l hl, driveMagicSub_letter l hl]; rfl
  rw [hd] at hp
  have hp' : escapeWin ([l, ':'] ++ ['\n']) = [l, ':', '\n'] := by rw [hp]; rfl
  have hw := winDrive_letter_nl cfg l hl
  apply DriveAgreeP.agree
  refine ⟨hc, ?_, ?_, ?_, ?_⟩
  · rw [hp', hw]
  · rw [hp', hd, hw]; rfl
  · rw [hp', hw]; simp [endsSepW, isSepW]
  · rw [hp', hw, driveCore_letter, driveReOf_letter _ l hl]

end WcModel

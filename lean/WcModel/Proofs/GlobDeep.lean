import WcModel.Proofs.GlobSpec
import WcModel.Proofs.GlobFuel
/-
  C05, the heart of the model/spec relation: **what a `**` expansion of the walker yields is
  exactly the one-level listing of the directories `Below` the one it starts in** — for every
  tree, every matcher, with or without FOLLOW / `***` (soundness for every fuel, completeness
  for every sufficiently large fuel; with `Proofs/GlobFuel` that is every fuel above the
  tree height when links are not followed).
-/
namespace WcModel

/-- what `_glob_dir` yields for one item of `_iter` (676-685) -/
def yieldOf (m : Matcher) (curdir : List Char) (e : IEnt) : List Y :=
  if e.special then (if m.test e.name then [⟨pjoin curdir e.name, true, e.loc⟩] else [])
  else (if (m.isNone && !e.hidden) || m.test e.name then [⟨pjoin curdir e.name, e.isDir, e.loc⟩] else [])

/-- whether `_glob_dir` recurses into the item (687-689) -/
def recOf (w : WalkCfg) (deep gf : Bool) (e : IEnt) : Bool :=
  !e.special && (deep && !e.hidden && e.isDir && (!e.isLink || w.followLinks || gf))

theorem results_globDir_succ (w : WalkCfg) (fs : FS) (absPat : Bool) (m : Matcher) (dirOnly deep gf : Bool)
    (f : Nat) (curdir : List Char) (loc : Loc) :
    results (globDir w fs absPat m dirOnly deep gf (f + 1) curdir loc) =
      (iterDir w fs (absPat && !curdir.isEmpty) loc dirOnly).flatMap (fun e =>
        yieldOf m curdir e ++
          (if recOf w deep gf e then results (globDir w fs absPat m dirOnly deep gf f (pjoin curdir e.name) e.loc) else [])) := by
  simp only [globDir, results_cons_scan, results_flatMap]
  apply flatMap_congr'
  intro e _
  unfold yieldOf recOf
  cases hs : e.special with
  | true =>
    simp only [if_true, Bool.not_true, Bool.false_and, Bool.false_eq_true, if_false, List.append_nil]
    split <;> rfl
  | false =>
    simp only [Bool.false_eq_true, if_false, Bool.not_false, Bool.true_and, results_append]
    congr 1
    · split <;> rfl
    · split <;> rfl

/-- the one-level listing of a directory -/
def shallow (w : WalkCfg) (fs : FS) (absPat : Bool) (m : Matcher) (dirOnly gf : Bool) (d : Dir) : List Y :=
  results (globDir w fs absPat m dirOnly false gf 1 d.path d.loc)

theorem mem_shallow {w : WalkCfg} {fs : FS} {absPat : Bool} {m : Matcher} {dirOnly gf : Bool} {d : Dir} {v : Y} :
    v ∈ shallow w fs absPat m dirOnly gf d ↔
      ∃ e ∈ iterDir w fs (absPat && !d.path.isEmpty) d.loc dirOnly, v ∈ yieldOf m d.path e := by
  unfold shallow
  rw [results_globDir_succ]
  simp only [List.mem_flatMap, List.mem_append]
  constructor
  · rintro ⟨e, he, h | h⟩
    · exact ⟨e, he, h⟩
    · simp [recOf] at h
  · rintro ⟨e, he, h⟩
    exact ⟨e, he, Or.inl h⟩

/-- an item `**` descends into is an entry the specification lets `**` descend into -/
theorem rec_is_descends {w : WalkCfg} {fs : FS} {a : Bool} {d : Dir} {dirOnly gf : Bool} {e : IEnt}
    (he : e ∈ iterDir w fs a d.loc dirOnly) (hr : recOf w true gf e = true) :
    ∃ o ∈ entriesOf fs d, descends w gf o = true ∧ o.name = e.name ∧ o.loc = e.loc := by
  simp only [recOf, Bool.and_eq_true, Bool.not_eq_true', Bool.true_and] at hr
  obtain ⟨hs, ⟨⟨hh, hd⟩, hl⟩⟩ := hr
  obtain ⟨ds, x, hsc, hx, hn, hdir, hlnk, hloc, hhid⟩ := iterDir_real he hs
  refine ⟨⟨x.name, x.isDir, x.loc, x.isLink⟩, ?_, ?_, hn.symm, hloc.symm⟩
  · simp only [entriesOf, hsc, List.mem_map]
    exact ⟨x, hx, rfl⟩
  · simp only [descends, Bool.and_eq_true, Bool.not_eq_true']
    refine ⟨⟨hdir ▸ hd, ?_⟩, ?_⟩
    · rw [← hhid]; exact hh
    · rw [← hlnk]; exact hl

/-- **soundness, every fuel**: whatever the deep walk yields is in the one-level listing of
    some directory `Below` the starting one -/
theorem deep_sound (w : WalkCfg) (fs : FS) (absPat : Bool) (m : Matcher) (dirOnly gf : Bool) :
    ∀ (fuel : Nat) (d : Dir) (v : Y),
      v ∈ results (globDir w fs absPat m dirOnly true gf fuel d.path d.loc) →
      ∃ d', Below fs w gf d d' ∧ v ∈ shallow w fs absPat m dirOnly gf d' := by
  intro fuel
  induction fuel with
  | zero => intro d v h; simp [globDir, results, Ev.result?] at h
  | succ f ih =>
    intro d v h
    rw [results_globDir_succ] at h
    obtain ⟨e, he, hv⟩ := List.mem_flatMap.1 h
    rcases List.mem_append.1 hv with hv | hv
    · exact ⟨d, Below.here d, mem_shallow.2 ⟨e, he, hv⟩⟩
    · split at hv
      · rename_i hr
        obtain ⟨o, ho, hd, hn, hl⟩ := rec_is_descends he hr
        obtain ⟨d', hb, hs⟩ := ih ⟨pjoin d.path e.name, e.loc⟩ v hv
        refine ⟨d', Below.trans ?_ hb, ?_⟩
        · have := Below.step (fs := fs) (c := w) (long := gf) ho hd
          rw [hn, hl] at this
          exact this
        · -- the `absPat && !path.isEmpty` argument of `_iter` does not matter below a non-empty path
          exact hs
      · cases hv

/-- an entry `**` may descend into is an item the walker recurses into -/
theorem descends_is_rec {w : WalkCfg} {fs : FS} {a : Bool} {d : Dir} {dirOnly gf : Bool} {o : Offer}
    (ho : o ∈ entriesOf fs d) (hd : descends w gf o = true) :
    ∃ e ∈ iterDir w fs a d.loc dirOnly, recOf w true gf e = true ∧ e.name = o.name ∧ e.loc = o.loc := by
  unfold entriesOf at ho
  cases hsc : fs.scandir d.loc with
  | none => simp [hsc] at ho
  | some ds =>
    simp only [hsc, List.mem_map] at ho
    obtain ⟨x, hx, rfl⟩ := ho
    simp only [descends, Bool.and_eq_true, Bool.not_eq_true'] at hd
    obtain ⟨⟨hdir, hh⟩, hl⟩ := hd
    refine ⟨⟨x.name, x.isDir, isHidden w.dot x.name, x.isLink, false, x.loc⟩, ?_, ?_, rfl, rfl⟩
    · unfold iterDir
      simp only [hsc, List.mem_append, List.mem_map, List.mem_filter]
      exact Or.inr ⟨x, ⟨hx, by simp [hdir]⟩, rfl⟩
    · simp only [recOf, Bool.not_false, Bool.true_and, Bool.and_eq_true, Bool.not_eq_true']
      exact ⟨⟨hh, hdir⟩, hl⟩

/-- **completeness**: the one-level listing of every directory `belowList` reaches within `n`
    levels is yielded by the deep walk for every fuel above `n` -/
theorem deep_complete_list (w : WalkCfg) (fs : FS) (absPat : Bool) (m : Matcher) (dirOnly gf : Bool) :
    ∀ (n : Nat) (d d' : Dir), d' ∈ belowList fs w gf n d → ∀ f, n < f → ∀ v,
      v ∈ shallow w fs absPat m dirOnly gf d' →
      v ∈ results (globDir w fs absPat m dirOnly true gf f d.path d.loc) := by
  intro n
  induction n with
  | zero =>
    intro d d' hd f hf v hv
    simp [belowList] at hd; subst hd
    obtain ⟨f', rfl⟩ : ∃ f', f = f' + 1 := ⟨f - 1, by omega⟩
    rw [results_globDir_succ]
    obtain ⟨e, he, hy⟩ := mem_shallow.1 hv
    exact List.mem_flatMap.2 ⟨e, he, List.mem_append_left _ hy⟩
  | succ n ih =>
    intro d d' hd f hf v hv
    obtain ⟨f', rfl⟩ : ∃ f', f = f' + 1 := ⟨f - 1, by omega⟩
    rw [results_globDir_succ]
    simp only [belowList, List.mem_cons, List.mem_flatMap, List.mem_filter] at hd
    rcases hd with rfl | ⟨o, ⟨ho, hdesc⟩, hin⟩
    · obtain ⟨e, he, hy⟩ := mem_shallow.1 hv
      exact List.mem_flatMap.2 ⟨e, he, List.mem_append_left _ hy⟩
    · obtain ⟨e, he, hr, hn, hl⟩ := descends_is_rec (a := absPat && !d.path.isEmpty) (dirOnly := dirOnly) ho hdesc
      refine List.mem_flatMap.2 ⟨e, he, List.mem_append_right _ ?_⟩
      simp only [hr, if_true]
      have := ih ⟨pjoin d.path o.name, o.loc⟩ d' hin f' (by omega) v hv
      rw [hn, hl]
      exact this

/-- **`**` expansion = one-level listings of everything `Below`** -/
theorem deep_iff_below (w : WalkCfg) (fs : FS) (absPat : Bool) (m : Matcher) (dirOnly gf : Bool) (d : Dir) (v : Y) :
    (∃ fuel, v ∈ results (globDir w fs absPat m dirOnly true gf fuel d.path d.loc)) ↔
      ∃ d', Below fs w gf d d' ∧ v ∈ shallow w fs absPat m dirOnly gf d' := by
  constructor
  · rintro ⟨fuel, h⟩
    exact deep_sound w fs absPat m dirOnly gf fuel d v h
  · rintro ⟨d', hb, hv⟩
    obtain ⟨n, hn⟩ := belowList_complete fs w gf hb
    exact ⟨n + 1, deep_complete_list w fs absPat m dirOnly gf n d d' hn (n + 1) (by omega) v hv⟩

/-- the listing a final `**` uses (`matcher = None`): the non-hidden entries, directories only
    when the pattern ended with a separator — the specification's `starAny` rule -/
theorem shallow_none_iff (w : WalkCfg) (fs : FS) (absPat : Bool) (dirOnly gf : Bool) (d : Dir) (v : Y) :
    v ∈ shallow w fs absPat none dirOnly gf d ↔
      ∃ o ∈ entriesOf fs d, isHidden w.dot o.name = false ∧ (dirOnly = true → o.isDir = true) ∧ v = o.toY d := by
  rw [mem_shallow]
  constructor
  · rintro ⟨e, he, hv⟩
    unfold yieldOf at hv
    cases hs : e.special with
    | true => simp [hs, Matcher.test] at hv
    | false =>
      simp only [hs, Bool.false_eq_true, if_false, Option.isNone_none, Bool.true_and, Matcher.test,
        Bool.or_false] at hv
      split at hv
      · rename_i hh
        simp at hv; subst hv
        obtain ⟨ds, x, hsc, hx, hn, hdir, hlnk, hloc, hhid⟩ := iterDir_real he hs
        refine ⟨⟨x.name, x.isDir, x.loc, x.isLink⟩, ?_, ?_, ?_, ?_⟩
        · simp only [entriesOf, hsc, List.mem_map]; exact ⟨x, hx, rfl⟩
        · rw [← hhid]; simpa using hh
        · intro hdo
          -- `_iter` kept the entry although `dir_only`: it is a directory
          unfold iterDir at he
          simp only [hsc, List.mem_append, List.mem_map, List.mem_filter] at he
          rcases he with he | ⟨y, ⟨_, hf⟩, hy⟩
          · simp at he; rcases he with rfl | rfl <;> simp at hs
          · subst hy; simp [hdo] at hf; simpa using hdir ▸ hf
        · simp [Offer.toY, hn, hdir, hloc]
      · cases hv
  · rintro ⟨o, ho, hh, hdo, rfl⟩
    unfold entriesOf at ho
    cases hsc : fs.scandir d.loc with
    | none => simp [hsc] at ho
    | some ds =>
      simp only [hsc, List.mem_map] at ho
      obtain ⟨x, hx, rfl⟩ := ho
      refine ⟨⟨x.name, x.isDir, isHidden w.dot x.name, x.isLink, false, x.loc⟩, ?_, ?_⟩
      · unfold iterDir
        simp only [hsc, List.mem_append, List.mem_map, List.mem_filter]
        refine Or.inr ⟨x, ⟨hx, ?_⟩, rfl⟩
        cases hd : dirOnly with
        | false => simp
        | true => have := hdo hd; simp only at this; simp [this]
      · simp only [yieldOf, Bool.false_eq_true, if_false, Option.isNone_none, Bool.true_and, Matcher.test,
          Bool.or_false]
        simp only at hh
        simp [hh, Offer.toY]

end WcModel

import WcModel.Proofs.WinUnixMap
import WcModel.Proofs.ParseCase
import WcModel.Proofs.BytesTwinDir   -- only so that the auxiliary `groupAtoms` match lemmas are generated once
/-
  C17, syntactic half (2): THE LOCK-STEP.  For a configuration `c` with Unix rules and its Windows
  twin `c.toWin` (same fields except `unix`, `winDriveDetect`, `bslashAbort`), on a pattern
  without a backslash (and, outside path mode, without a bracket or without a `/`: invariant
  `JW`), for which the Windows drive scanner finds no drive:

      parseItems c.toWin driveW p = (parseItems c driveU p).map Parsed.ms

  i.e. the Windows run is the Unix run with every regex mapped by `Re.ms`.  Proof: the pass
  function by function (equations), as in `ParseCase.lean` / `TranslateTwin.lean`.

  REALPATH is excluded (`c.realpath = false`): there the Windows run emits `_NO_WIN_ROOT`
  where the Unix run emits `_NO_ROOT`, and the two are not related by `Re.ms`.
-/
set_option linter.unusedSimpArgs false
namespace WcModel

/-! ### the two configurations -/

/-- the Windows twin of a configuration -/
@[reducible] def Cfg.toWin (c : Cfg) : Cfg :=
  { c with unix := false, winDriveDetect := c.pathname, bslashAbort := c.pathname }

/-- Unix rules, no REALPATH -/
structure UnixCfg (c : Cfg) : Prop where
  unix : c.unix = true
  wdd : c.winDriveDetect = false
  bsa : c.bslashAbort = false
  rp : c.realpath = false

@[simp] theorem Cfg.toWin_isBytes (c : Cfg) : c.toWin.isBytes = c.isBytes := rfl
@[simp] theorem Cfg.toWin_noAbs (c : Cfg) : c.toWin.noAbs = c.noAbs := rfl
@[simp] theorem Cfg.toWin_pathname (c : Cfg) : c.toWin.pathname = c.pathname := rfl
@[simp] theorem Cfg.toWin_globstarlong (c : Cfg) : c.toWin.globstarlong = c.globstarlong := rfl
@[simp] theorem Cfg.toWin_globstar0 (c : Cfg) : c.toWin.globstar0 = c.globstar0 := rfl
@[simp] theorem Cfg.toWin_follow (c : Cfg) : c.toWin.follow = c.follow := rfl
@[simp] theorem Cfg.toWin_realpath (c : Cfg) : c.toWin.realpath = c.realpath := rfl
@[simp] theorem Cfg.toWin_translate (c : Cfg) : c.toWin.translate = c.translate := rfl
@[simp] theorem Cfg.toWin_globstarCapture (c : Cfg) : c.toWin.globstarCapture = c.globstarCapture := rfl
@[simp] theorem Cfg.toWin_dot (c : Cfg) : c.toWin.dot = c.dot := rfl
@[simp] theorem Cfg.toWin_extend (c : Cfg) : c.toWin.extend = c.extend := rfl
@[simp] theorem Cfg.toWin_matchbase0 (c : Cfg) : c.toWin.matchbase0 = c.matchbase0 := rfl
@[simp] theorem Cfg.toWin_extmatchbase0 (c : Cfg) : c.toWin.extmatchbase0 = c.extmatchbase0 := rfl
@[simp] theorem Cfg.toWin_anchor (c : Cfg) : c.toWin.anchor = c.anchor := rfl
@[simp] theorem Cfg.toWin_nodotdir (c : Cfg) : c.toWin.nodotdir = c.nodotdir := rfl
@[simp] theorem Cfg.toWin_capture (c : Cfg) : c.toWin.capture = c.capture := rfl
@[simp] theorem Cfg.toWin_caseSensitive (c : Cfg) : c.toWin.caseSensitive = c.caseSensitive := rfl
@[simp] theorem Cfg.toWin_unix (c : Cfg) : c.toWin.unix = false := rfl
@[simp] theorem Cfg.toWin_winDriveDetect (c : Cfg) : c.toWin.winDriveDetect = c.pathname := rfl
@[simp] theorem Cfg.toWin_bslashAbort (c : Cfg) : c.toWin.bslashAbort = c.pathname := rfl
@[simp] theorem Cfg.toWin_win (c : Cfg) : c.toWin.win = true := rfl

theorem UnixCfg.win {c : Cfg} (hc : UnixCfg c) : c.win = false := by
  unfold Cfg.win; rw [hc.unix]; rfl

theorem needChar_toWin {c : Cfg} (hc : UnixCfg c) : c.toWin.needChar = c.needChar.ms := by
  unfold Cfg.needChar
  rw [hc.win]
  simp only [Cfg.toWin_pathname, Cfg.toWin_win]
  split <;> simp

theorem eop_toWin {c : Cfg} (hc : UnixCfg c) : c.toWin.eop = c.eop.ms := by
  unfold Cfg.eop
  rw [hc.win]
  simp only [Cfg.toWin_pathname, Cfg.toWin_win]
  split <;> simp

/-! ### the text invariant -/

/-- the text invariant of the lock-step: no backslash left to read; outside path mode, no
    bracket or no `/` (so that no user class can name `/`) -/
def JW (pathname : Bool) (l : List Char) : Prop :=
  '\\' ∉ l ∧ (pathname = false → ('[' ∉ l ∨ '/' ∉ l))

/-- the strict invariant (used for the side condition `sepOK`): outside path mode no bracket -/
def JWs (pathname : Bool) (l : List Char) : Prop := '\\' ∉ l ∧ (pathname = false → '[' ∉ l)

theorem JWs.toJW {b : Bool} {l : List Char} (h : JWs b l) : JW b l := ⟨h.1, fun hb => .inl (h.2 hb)⟩

theorem TextInv.jw (b : Bool) : TextInv (JW b) :=
  ⟨fun pre _ h => ⟨fun hm => h.1 (List.mem_append_right pre hm),
      fun hb => (h.2 hb).imp (fun h1 hm => h1 (List.mem_append_right pre hm))
        (fun h1 hm => h1 (List.mem_append_right pre hm))⟩,
    ⟨by decide, fun _ => .inl (by decide)⟩⟩

theorem TextInv.jws (b : Bool) : TextInv (JWs b) :=
  ⟨fun pre _ h => ⟨fun hm => h.1 (List.mem_append_right pre hm),
      fun hb hm => h.2 hb (List.mem_append_right pre hm)⟩,
    ⟨by decide, fun _ => by decide⟩⟩

theorem JW.head {b : Bool} {it it' : It} {c : Char} (h : JI (JW b) it) (hn : it.next = some (c, it')) :
    c ≠ '\\' ∧ (b = false → c = '[' → '/' ∉ it'.rest) := by
  unfold JI JW at h
  rw [(It.next_some hn).1] at h
  refine ⟨fun hc => h.1 (by simp [hc]), fun hb hc => ?_⟩
  rcases h.2 hb with h1 | h1
  · exact absurd (by simp [hc]) h1
  · exact fun hm => h1 (by simp [hm])

theorem JWs.head {b : Bool} {it it' : It} {c : Char} (h : JI (JWs b) it) (hn : it.next = some (c, it')) :
    c ≠ '\\' ∧ (b = false → c ≠ '[') := by
  unfold JI JWs at h
  rw [(It.next_some hn).1] at h
  exact ⟨fun hc => h.1 (by simp [hc]), fun hb hc => h.2 hb (by simp [hc])⟩

theorem JW.noBs {b : Bool} {it : It} (h : JI (JW b) it) : '\\' ∉ it.rest := h.1

theorem SeqOK.jw (b : Bool) (cfg : Cfg) : SeqOK (fun _ => True) (JW b) cfg :=
  SeqOK.ofSuffix Lift.true (TextInv.jw b) (fun _ _ => trivial) cfg

theorem parseExtend_jw (b : Bool) (cfg : Cfg) (fuel : Nat) (lt : Char) (it : It) (ps : PS)
    (cur : List Item) (rd : Bool) (h : JI (JW b) it) :
    JI (JW b) (parseExtend cfg fuel lt it ps cur rd).2.2.1 :=
  ((pe_el_lift Lift.true (TextInv.jw b) cfg (SeqOK.jw b cfg) fuel).1 lt it ps cur rd _ _ _ _ h
    (allL_true cur) rfl).1

/-! ### iterator helpers -/

theorem It.head_ne_of_not_mem {c : Char} {it it' : It} {k : Char} (h : k ∉ it.rest)
    (hn : it.next = some (c, it')) : c ≠ k ∧ k ∉ it'.rest := by
  rw [(It.next_some hn).1] at h
  exact ⟨fun hc => h (by simp [hc]), fun hm => h (by simp [hm])⟩

theorem consumeUnix_cons_slash (i : Nat) (r : List Char) :
    consumeUnix ⟨i, '/' :: r⟩ = consumeUnix ⟨i + 1, r⟩ := by
  simp [consumeUnix, dropWhileCount]

theorem consumeUnix_cons_ne (i : Nat) {c : Char} (hc : c ≠ '/') (r : List Char) :
    consumeUnix ⟨i, c :: r⟩ = ⟨i, c :: r⟩ := by
  simp [consumeUnix, dropWhileCount, hc]

theorem consumeWin_noBs : ∀ (fuel : Nat) (it prev : It) (count : Int), '\\' ∉ it.rest →
    it.rest.length < fuel → count % 2 = 0 → consumeWin fuel it prev count = consumeUnix it := by
  intro fuel
  induction fuel with
  | zero => intro it prev count _ hl _; omega
  | succ n ih =>
    intro it prev count hb hl hcnt
    rcases it with ⟨i, r⟩
    cases r with
    | nil => simp [consumeWin, It.next, consumeUnix, dropWhileCount]
    | cons c r =>
      have hc : c ≠ '\\' := fun e => hb (by simp [e])
      have hr : '\\' ∉ r := fun e => hb (by simp [e])
      simp only [List.length_cons] at hl
      unfold consumeWin
      simp only [It.next, hc, ite_false]
      by_cases hs : c = '/'
      · subst hs
        simp only [ite_true]
        have h2 : (count % 2 != 0) = false := by simp [hcnt]
        rw [h2]
        simp only [Bool.false_eq_true, ite_false]
        rw [ih ⟨i + 1, r⟩ ⟨i, '/' :: r⟩ (count + 2) hr (by simpa using by omega) (by omega)]
        exact (consumeUnix_cons_slash i r).symm
      · simp only [hs, ite_false]
        have h2 : (count % 2 != 0) = false := by simp [hcnt]
        rw [h2, consumeUnix_cons_ne i hs]
        simp

theorem consumePathSep_toWin {c : Cfg} (hc : UnixCfg c) (it : It) (hb : '\\' ∉ it.rest) :
    consumePathSep c.toWin it = consumePathSep c it := by
  unfold consumePathSep
  rw [hc.bsa]
  simp only [Cfg.toWin_bslashAbort, Bool.false_eq_true, ite_false]
  split
  · exact consumeWin_noBs _ _ _ _ hb (by omega) (by decide)
  · rfl

/-! ### `_handle_dot` -/

theorem dotScan_toWin (c : Cfg) (inList : Bool) : ∀ (fuel : Nat) (it : It) (cur prev : Bool),
    '\\' ∉ it.rest → dotScan c.toWin inList fuel it cur prev = dotScan c inList fuel it cur prev := by
  intro fuel
  induction fuel with
  | zero => intro it cur prev _; rfl
  | succ n ih =>
    intro it cur prev hb
    unfold dotScan
    cases hn : it.next with
    | none => rfl
    | some x =>
      obtain ⟨ch, it'⟩ := x
      obtain ⟨hch, hb'⟩ := It.head_ne_of_not_mem hb hn
      simp only [hch, ite_false]
      split
      · exact ih _ _ _ hb'
      · rfl

theorem handleDot_toWin {c : Cfg} (hc : UnixCfg c) (ps : PS) (it : It) (hb : '\\' ∉ it.rest) :
    handleDot c.toWin ps it = (handleDot c ps it).ms := by
  unfold handleDot
  rw [hc.win]
  simp only [Cfg.toWin_pathname, Cfg.toWin_nodotdir, Cfg.toWin_win, dotScan_toWin c _ _ it _ _ hb]
  generalize (if (ps.afterStart && c.pathname && c.nodotdir) = true then
      dotScan c ps.inList (it.rest.length + 1) it true false else (true, false)) = r
  obtain ⟨a, b⟩ := r
  dsimp only
  split <;> simp

/-! ### `?`, `[`-guards, `/` in a list -/

theorem restrictSequence_toWin {c : Cfg} (hc : UnixCfg c) (ps : PS) :
    restrictSequence c.toWin ps = ((restrictSequence c ps).1.ms, (restrictSequence c ps).2) := by
  unfold restrictSequence
  rw [hc.win]
  simp only [Cfg.toWin_pathname, Cfg.toWin_dot, Cfg.toWin_win]
  repeat' split
  all_goals simp

theorem qmarkItem_toWin {c : Cfg} (hc : UnixCfg c) (ps : PS) :
    qmarkItem c.toWin ps = ((qmarkItem c ps).1.ms, (qmarkItem c ps).2) := by
  unfold qmarkItem
  rw [restrictSequence_toWin hc]
  simp [catE_ms]

theorem restrictExtendedSlash_toWin {c : Cfg} (hc : UnixCfg c) :
    restrictExtendedSlash c.toWin = (restrictExtendedSlash c).map Re.ms := by
  unfold restrictExtendedSlash
  rw [hc.win]
  simp only [Cfg.toWin_pathname, Cfg.toWin_win]
  split <;> simp

/-! ### `clean_up_inverse` -/

theorem cleanUpGo_toWin {c : Cfg} (hc : UnixCfg c) (nested : Bool) : ∀ (rev done : List Item) (n : Nat),
    cleanUpGo c.toWin nested (Item.msL rev) (Item.msL done) n =
      (Item.msL (cleanUpGo c nested rev done n).1, (cleanUpGo c nested rev done n).2) := by
  intro rev
  induction rev with
  | nil => intro done n; rfl
  | cons x rest ih =>
    intro done n
    cases x with
    | ph star =>
      simp only [Item.msL_cons, Item.ms_ph, cleanUpGo]
      rw [← ih]
      congr 1
      simp only [Item.msL_cons, Item.ms_closed, Cfg.toWin_capture, eop_toWin hc]
      congr 1
      congr 1
      · split <;> simp [Item.eraseCapL_ms]
      · split <;> simp
    | re r => simp only [Item.msL_cons, Item.ms_re, cleanUpGo]; rw [← ih]; rfl
    | empty => simp only [Item.msL_cons, Item.ms_empty, cleanUpGo]; rw [← ih]; rfl
    | bar => simp only [Item.msL_cons, Item.ms_bar, cleanUpGo]; rw [← ih]; rfl
    | group k c b => simp only [Item.msL_cons, Item.ms_group, cleanUpGo]; rw [← ih]; rfl
    | invOpen c b => simp only [Item.msL_cons, Item.ms_invOpen, cleanUpGo]; rw [← ih]; rfl
    | closed t e s => simp only [Item.msL_cons, Item.ms_closed, cleanUpGo]; rw [← ih]; rfl

theorem cleanUpInverse_toWin {c : Cfg} (hc : UnixCfg c) (ps : PS) (cur : List Item) (nested : Bool) :
    cleanUpInverse c.toWin ps (Item.msL cur) nested =
      (Item.msL (cleanUpInverse c ps cur nested).1, (cleanUpInverse c ps cur nested).2) := by
  unfold cleanUpInverse
  split
  · rfl
  · have := cleanUpGo_toWin hc nested cur [] 0
    simp only [Item.msL_nil] at this
    simp only [this, Item.msL_reverse]

/-! ### `_handle_star` -/

theorem hsStars_toWin {c : Cfg} (hc : UnixCfg c) (ps : PS) :
    hsStars c.toWin ps = ((hsStars c ps).1.ms, (hsStars c ps).2.ms) := by
  unfold hsStars
  rw [hc.win]
  simp only [Cfg.toWin_pathname, Cfg.toWin_dot, Cfg.toWin_win]
  repeat' split
  all_goals simp

theorem hsPeek_toWin (c : Cfg) (c0 : Bool) (it : It) : hsPeek c.toWin c0 it = hsPeek c c0 it := rfl

theorem hsSelCls_toWin (c : Cfg) (ps : PS) (it : It) (hb : '\\' ∉ it.rest) :
    hsSelCls c.toWin ps it = hsSelCls c ps it := by
  unfold hsSelCls
  dsimp only
  split
  · have hpk := hsPeek_ji (J := fun l => '\\' ∉ l)
      ⟨fun pre _ h hm => h (List.mem_append_right pre hm), by decide⟩ c
      (c.pathname && c.globstarCapture) (it := it) hb
    rw [hsPeek_toWin]
    rcases hq : hsPeek c (c.pathname && c.globstarCapture) it with ⟨skip, capture, it2, prev⟩
    rw [hq] at hpk
    dsimp only at hpk ⊢
    split
    · rfl
    · cases hn : it2.next with
      | none => rfl
      | some x =>
        obtain ⟨ch, it1⟩ := x
        obtain ⟨hch, _⟩ := It.head_ne_of_not_mem (show '\\' ∉ it2.rest from hpk.1) hn
        simp only [hch, ite_false]
  · rfl

theorem hsFinish_toWin {c : Cfg} (hc : UnixCfg c) (cur : List Item) (sg : Re × Re)
    (sel : Bool × Bool × It × PS) (hb : '\\' ∉ sel.2.2.1.rest) :
    hsFinish c.toWin (Item.msL cur) (sg.1.ms, sg.2.ms) sel =
      ((hsFinish c cur sg sel).1, (hsFinish c cur sg sel).2.1, Item.msL (hsFinish c cur sg sel).2.2) := by
  obtain ⟨isGlob, capture, it, ps⟩ := sel
  obtain ⟨star, globstar⟩ := sg
  dsimp only at hb
  unfold hsFinish
  rw [hc.win]
  dsimp only
  simp only [Cfg.toWin_win, Cfg.toWin_extend, needChar_toWin hc, consumePathSep_toWin hc it hb]
  have hg : (if capture = true then Re.gcap globstar.ms else globstar.ms) =
      (if capture = true then Re.gcap globstar else globstar).ms := by
    split <;> simp
  split
  · split <;> simp
  · cases cur with
    | nil => rfl
    | cons last before =>
      simp only [Item.msL_cons, Item.isDiv_ms, Item.isEmpty_ms]
      split
      · simp
      · split <;> simp [hg]

theorem handleStar_toWin {c : Cfg} (hc : UnixCfg c) (ps : PS) (it : It) (cur : List Item)
    (hb : '\\' ∉ it.rest) :
    handleStar c.toWin ps it (Item.msL cur) =
      ((handleStar c ps it cur).1, (handleStar c ps it cur).2.1,
        Item.msL (handleStar c ps it cur).2.2) := by
  rw [handleStar_eq_cls, handleStar_eq_cls, hsSelCls_toWin c ps it hb, hsStars_toWin hc]
  refine hsFinish_toWin hc cur _ _ ?_
  exact hsSel_ji (J := fun l => '\\' ∉ l)
    ⟨fun pre _ h hm => h (List.mem_append_right pre hm), by decide⟩ c ps hb

/-! ### `_sequence` (path mode; outside path mode the text has no bracket) -/

def wuStep1 (c : Char) (it : It) : Option (Bool × Char × It) :=
  if c = '!' || c = '^' then
    match it.next with
    | none => none
    | some (c', it') => some (true, c', it')
  else some (false, c, it)

def wuRes0 (neg : Bool) : List CTok := if neg then [.caret, .opn] else [.opn]

def wuStep2 (neg : Bool) (c : Char) (it : It) : Option (Char × It × List CTok × Bool) :=
  if c = '[' then
    match handlePosix it (wuRes0 neg) 0 with
    | some (it', res) =>
      match it'.next with
      | none => none
      | some (c', it'') => some (c', it'', res, true)
    | none =>
      match it.next with
      | none => none
      | some (c', it') => some (c', it', .chr '[' true :: wuRes0 neg, false)
  else if c = '-' || c = ']' then
    match it.next with
    | none => none
    | some (c', it') => some (c', it', .chr c true :: wuRes0 neg, false)
  else some (c, it, wuRes0 neg, false)

def wuBody (neg : Bool) (st : SeqSt) : List CTok := st.res.reverse.drop (if neg then 2 else 1)

def wuCls (isBytes neg : Bool) (st : SeqSt) : Re :=
  if st.removed && (wuBody neg st).isEmpty then .cls (!neg) [fullRange isBytes]
  else if st.removed && !neg && wuBody neg st == [.chr '^' false] then .cls false [fullRange isBytes]
  else .cls neg (groupAtoms ((tokAtoms isBytes (wuBody neg st)).length + 1) (tokAtoms isBytes (wuBody neg st)))

def wuOut (cfg : Cfg) (ps : PS) (cls : Re) (it : It) : Option (Re × PS × It) :=
  if cfg.pathname || ps.afterStart then
    some (catE (restrictSequence cfg ps).1 cls, (restrictSequence cfg ps).2, it)
  else some (cls, ps, it)

theorem sequence_eq_steps (cfg : Cfg) (ps : PS) (it : It) :
    sequence cfg ps it =
      match it.next with
      | none => none
      | some (c, it) =>
        match wuStep1 c it with
        | none => none
        | some (neg, c, it) =>
          match wuStep2 neg c it with
          | none => none
          | some (c, it, res, lp) =>
            match seqLoop cfg (it.rest.length + 2) c it ⟨res, 0, -1, false, lp⟩ with
            | none => none
            | some (it, st) => wuOut cfg ps (wuCls cfg.isBytes neg st) it := by
  rfl

/-! the loop does not look at the platform unless it reads a backslash -/

theorem valueOf_toWin (c : Cfg) {ch : Char} (hch : ch ≠ '\\') (it : It) :
    valueOf c.toWin ch it = valueOf c ch it := by
  unfold valueOf
  simp only [hch, ite_false, Cfg.toWin_pathname]

theorem valueOf_it {cfg : Cfg} {ch : Char} (hch : ch ≠ '\\') {it it2 : It} {v : CTok}
    (h : valueOf cfg ch it = some (v, it2)) : it2 = it := by
  rcases (valueOf_spec h).2 with e | ⟨e, _⟩
  · exact e
  · exact absurd e hch

theorem seqLoopG_toWin (c : Cfg) : ∀ (fuel : Nat) (ch : Char) (it : It) (st : SeqSt),
    ch ≠ '\\' → '\\' ∉ it.rest →
    seqLoopG true c.toWin fuel ch it st = seqLoopG true c fuel ch it st := by
  intro fuel
  induction fuel with
  | zero => intro ch it st _ _; rfl
  | succ n ih =>
    intro ch it st hch hb
    unfold seqLoopG
    simp only [Cfg.toWin_isBytes, valueOf_toWin c hch]
    split
    · rfl
    · split
      · cases hn : it.next with
        | none => rfl
        | some x =>
          obtain ⟨c', it'⟩ := x
          obtain ⟨h1, h2⟩ := It.head_ne_of_not_mem hb hn
          exact ih _ _ _ h1 h2
      · cases hp : (if ch = '[' then handlePosix it st.res st.endRange else none) with
        | some y =>
          obtain ⟨it1, res⟩ := y
          have hp' : handlePosix it st.res st.endRange = some (it1, res) := by
            split at hp
            · exact hp
            · cases hp
          obtain ⟨pre, hpre⟩ := (handlePosix_spec hp').2.1
          have hb1 : '\\' ∉ it1.rest := fun hm => hb (by rw [hpre]; exact List.mem_append_right pre hm)
          dsimp only
          cases hn : it1.next with
          | none => rfl
          | some x =>
            obtain ⟨c', it'⟩ := x
            obtain ⟨h1, h2⟩ := It.head_ne_of_not_mem hb1 hn
            exact ih _ _ _ h1 h2
        | none =>
          dsimp only
          cases hv : valueOf c ch it with
          | none => rfl
          | some y =>
            obtain ⟨value, it2⟩ := y
            have := valueOf_it hch hv
            subst this
            dsimp only
            cases hn : it2.next with
            | none => rfl
            | some x =>
              obtain ⟨c', it'⟩ := x
              obtain ⟨h1, h2⟩ := It.head_ne_of_not_mem hb hn
              exact ih _ _ _ h1 h2

/-! in path mode no member of a user class is the bare `/` -/

def NoSlashTok (l : List CTok) : Prop := ∀ t ∈ l, t ≠ .chr '/' false ∧ t ≠ .sepBare

theorem NoSlashTok.cons {t : CTok} {l : List CTok} (ht : t ≠ .chr '/' false ∧ t ≠ .sepBare) (hl : NoSlashTok l) :
    NoSlashTok (t :: l) := by
  intro x hx
  rcases List.mem_cons.1 hx with rfl | hx
  · exact ht
  · exact hl x hx

theorem NoSlashTok.tail {t : CTok} {l : List CTok} (h : NoSlashTok (t :: l)) : NoSlashTok l :=
  fun x hx => h x (List.mem_cons_of_mem _ hx)

theorem seqRangeCheck_tok (b : Bool) {res : List CTok} {last : CTok} (hr : NoSlashTok res)
    (hl : last ≠ .chr '/' false ∧ last ≠ .sepBare) : NoSlashTok (seqRangeCheck b res last).1 := by
  unfold seqRangeCheck
  split
  · split
    · exact hr.tail.tail
    · exact NoSlashTok.cons hl hr
  · exact NoSlashTok.cons hl hr

theorem dashStep_tok (b : Bool) (it : It) {st : SeqSt} (h : NoSlashTok st.res) :
    NoSlashTok (dashStep true b it st).res := by
  unfold dashStep
  split
  · exact NoSlashTok.cons (by decide) h
  · split
    · exact NoSlashTok.cons (by decide) h
    · split
      · exact seqRangeCheck_tok b h (by decide)
      · exact NoSlashTok.cons (by decide) h

theorem valStep_tok (b : Bool) (it : It) {v : CTok} {st : SeqSt} (h : NoSlashTok st.res)
    (hv : v ≠ .chr '/' false ∧ v ≠ .sepBare) : NoSlashTok (valStep true b it v st).res := by
  unfold valStep
  split
  · exact seqRangeCheck_tok b h hv
  · exact NoSlashTok.cons hv h

theorem handlePosix_tok {it it' : It} {res res' : List CTok} {e : Nat}
    (h : handlePosix it res e = some (it', res')) (hr : NoSlashTok res) : NoSlashTok res' := by
  obtain ⟨_, _, n, rfl⟩ := handlePosix_spec h
  refine NoSlashTok.cons (by simp) ?_
  split
  · split
    · exact NoSlashTok.cons (by decide) hr.tail
    · exact NoSlashTok.cons (by simp) hr.tail
    · exact hr
  · exact hr

theorem valueOf_tok {cfg : Cfg} {ch : Char} (hp : cfg.pathname = true ∨ ch ≠ '/') (hch : ch ≠ '\\')
    {it it2 : It} {v : CTok} (h : valueOf cfg ch it = some (v, it2)) :
    v ≠ .chr '/' false ∧ v ≠ .sepBare := by
  unfold valueOf at h
  simp only [hch, ite_false] at h
  split at h
  · rename_i hs
    split at h
    · cases h
    · rename_i hpn
      rcases hp with hp | hp
      · exact absurd hp hpn
      · exact absurd hs hp
  · rename_i hs
    split at h
    · cases h; simp
    · cases h; simp [hs]

theorem seqLoopG_tok (cfg : Cfg) : ∀ (fuel : Nat) (ch : Char) (it : It)
    (st : SeqSt) (it' : It) (st' : SeqSt), ch ≠ '\\' → '\\' ∉ it.rest →
    (cfg.pathname = true ∨ (ch ≠ '/' ∧ '/' ∉ it.rest)) → NoSlashTok st.res →
    seqLoopG true cfg fuel ch it st = some (it', st') → NoSlashTok st'.res := by
  intro fuel
  induction fuel with
  | zero => intro ch it st it' st' _ _ _ _ h; simp [seqLoopG] at h
  | succ n ih =>
    intro ch it st it' st' hch hb hs ht h
    have hnext : ∀ {i1 i2 : It} {c' : Char}, (cfg.pathname = true ∨ '/' ∉ i1.rest) →
        i1.next = some (c', i2) → (cfg.pathname = true ∨ (c' ≠ '/' ∧ '/' ∉ i2.rest)) := by
      intro i1 i2 c' h1 hn
      rcases h1 with h1 | h1
      · exact .inl h1
      · exact .inr (It.head_ne_of_not_mem h1 hn)
    have hs0 : cfg.pathname = true ∨ '/' ∉ it.rest := hs.imp id (fun x => x.2)
    unfold seqLoopG at h
    split at h
    · cases h; exact ht
    · split at h
      · split at h
        · cases h
        · rename_i c' i' hn
          obtain ⟨h1, h2⟩ := It.head_ne_of_not_mem hb hn
          exact ih _ _ _ _ _ h1 h2 (hnext hs0 hn) (dashStep_tok _ _ ht) h
      · split at h
        · rename_i i1 res hpx
          have hp' : handlePosix it st.res st.endRange = some (i1, res) := by
            split at hpx
            · exact hpx
            · cases hpx
          obtain ⟨pre, hpre⟩ := (handlePosix_spec hp').2.1
          have hb1 : '\\' ∉ i1.rest := fun hm => hb (by rw [hpre]; exact List.mem_append_right pre hm)
          have hs1 : cfg.pathname = true ∨ '/' ∉ i1.rest :=
            hs0.imp id (fun x hm => x (by rw [hpre]; exact List.mem_append_right pre hm))
          split at h
          · cases h
          · rename_i c' i2 hn
            obtain ⟨h1, h2⟩ := It.head_ne_of_not_mem hb1 hn
            exact ih _ _ _ _ _ h1 h2 (hnext hs1 hn) (handlePosix_tok hp' ht) h
        · split at h
          · cases h
          · rename_i value i2 hv
            have := valueOf_it hch hv
            subst this
            split at h
            · cases h
            · rename_i c' i3 hn
              obtain ⟨h1, h2⟩ := It.head_ne_of_not_mem hb hn
              exact ih _ _ _ _ _ h1 h2 (hnext hs0 hn)
                (valStep_tok _ _ (st := { st with lastPosix := false }) ht
                  (valueOf_tok (hs.imp id (fun x => x.1)) hch hv)) h

/-! from tokens to class members -/

theorem mem_groupAtoms_cases : ∀ (fuel : Nat) (l : List (Option ClsItem)) (x : ClsItem),
    x ∈ groupAtoms fuel l → some x ∈ l ∨ x = .chr '-' false ∨ ∃ lo le hi he, x = .range lo le hi he := by
  intro fuel l
  fun_induction groupAtoms fuel l with
  | case1 => intro x h; simp at h
  | case2 => intro x h; simp at h
  | case3 fuel lo le hi he r ih =>
    intro x h
    rcases List.mem_cons.1 h with rfl | h
    · exact .inr (.inr ⟨_, _, _, _, rfl⟩)
    · rcases ih x h with h | h
      · exact .inl (by simp [h])
      · exact .inr h
  | case4 fuel lo le r ih =>
    intro x h
    rcases List.mem_cons.1 h with rfl | h
    · exact .inr (.inr ⟨_, _, _, _, rfl⟩)
    · rcases ih x h with h | h
      · exact .inl (by simp [h])
      · exact .inr h
  | case5 fuel hi he r ih =>
    intro x h
    rcases List.mem_cons.1 h with rfl | h
    · exact .inr (.inr ⟨_, _, _, _, rfl⟩)
    · rcases ih x h with h | h
      · exact .inl (by simp [h])
      · exact .inr h
  | case6 fuel y r _ _ ih =>
    intro x h
    rcases List.mem_cons.1 h with rfl | h
    · exact .inl (by simp)
    · rcases ih x h with h | h
      · exact .inl (by simp [h])
      · exact .inr h
  | case7 fuel r _ ih =>
    intro x h
    rcases List.mem_cons.1 h with rfl | h
    · exact .inr (.inl rfl)
    · rcases ih x h with h | h
      · exact .inl (by simp [h])
      · exact .inr h

theorem slash_mem_tokAtoms (b : Bool) : ∀ (l : List CTok), some slashItem ∈ tokAtoms b l →
    .chr '/' false ∈ l ∨ .sepBare ∈ l
  | [], h => by simp [tokAtoms] at h
  | .dash :: r, h => by
    simp only [tokAtoms, List.mem_cons, reduceCtorEq, false_or] at h
    rcases slash_mem_tokAtoms b r h with h | h <;> simp [h]
  | .chr c e :: r, h => by
    simp only [tokAtoms, List.mem_cons, Option.some.injEq] at h
    rcases h with h | h
    · simp only [slashItem, ClsItem.chr.injEq] at h
      left; simp [← h.1, ← h.2]
    · rcases slash_mem_tokAtoms b r h with h | h <;> simp [h]
  | .posix n :: r, h => by
    simp only [tokAtoms, List.mem_cons, Option.some.injEq] at h
    rcases h with h | h
    · simp [slashItem, posixItem] at h
    · rcases slash_mem_tokAtoms b r h with h | h <;> simp [h]
  | .sepBare :: r, _ => by simp
  | .opn :: r, h => by
    simp only [tokAtoms, List.mem_cons, Option.some.injEq] at h
    rcases h with h | h
    · simp [slashItem] at h
    · rcases slash_mem_tokAtoms b r h with h | h <;> simp [h]
  | .caret :: r, h => by
    simp only [tokAtoms, List.mem_cons, Option.some.injEq] at h
    rcases h with h | h
    · simp [slashItem] at h
    · rcases slash_mem_tokAtoms b r h with h | h <;> simp [h]

theorem wuCls_ms (b neg : Bool) (st : SeqSt) (ht : NoSlashTok st.res) :
    (wuCls b neg st).ms = wuCls b neg st := by
  have hfull : mapCls [fullRange b] = [fullRange b] :=
    mapCls_of_noSlash (by simp [fullRange, slashItem])
  unfold wuCls
  split
  · simp [hfull]
  · split
    · simp [hfull]
    · simp only [Re.ms_cls, Re.cls.injEq, true_and]
      apply mapCls_of_noSlash
      intro hm
      rcases mem_groupAtoms_cases _ _ _ hm with h | h | ⟨_, _, _, _, h⟩
      · have hsub : ∀ t ∈ wuBody neg st, t ∈ st.res := by
          intro t htm
          unfold wuBody at htm
          exact List.mem_reverse.1 (List.mem_of_mem_drop htm)
        rcases slash_mem_tokAtoms b _ h with h | h
        · exact (ht _ (hsub _ h)).1 rfl
        · exact (ht _ (hsub _ h)).2 rfl
      · simp [slashItem] at h
      · simp [slashItem] at h

theorem wuStep1_spec {k : Char} {c : Char} {it : It} (hc : c ≠ k) (hb : k ∉ it.rest)
    {neg : Bool} {c1 : Char} {it1 : It} (h : wuStep1 c it = some (neg, c1, it1)) :
    c1 ≠ k ∧ k ∉ it1.rest := by
  unfold wuStep1 at h
  split at h
  · split at h
    · cases h
    · rename_i c' it' hn
      cases h
      exact It.head_ne_of_not_mem hb hn
  · cases h; exact ⟨hc, hb⟩

theorem wuRes0_tok (neg : Bool) : NoSlashTok (wuRes0 neg) := by
  unfold wuRes0
  cases neg <;> intro t ht <;> simp at ht <;> rcases ht with rfl | rfl <;> decide

theorem wuStep2_spec {k : Char} {neg : Bool} {c : Char} {it : It} (hc : c ≠ k) (hb : k ∉ it.rest)
    {c2 : Char} {it2 : It} {res : List CTok} {lp : Bool}
    (h : wuStep2 neg c it = some (c2, it2, res, lp)) :
    c2 ≠ k ∧ k ∉ it2.rest ∧ NoSlashTok res := by
  unfold wuStep2 at h
  split at h
  · split at h
    · rename_i i1 r1 hpx
      obtain ⟨pre, hpre⟩ := (handlePosix_spec hpx).2.1
      have hb1 : k ∉ i1.rest := fun hm => hb (by rw [hpre]; exact List.mem_append_right pre hm)
      split at h
      · cases h
      · rename_i c' i2 hn
        cases h
        obtain ⟨h1, h2⟩ := It.head_ne_of_not_mem hb1 hn
        exact ⟨h1, h2, handlePosix_tok hpx (wuRes0_tok neg)⟩
    · split at h
      · cases h
      · rename_i c' i2 hn
        cases h
        obtain ⟨h1, h2⟩ := It.head_ne_of_not_mem hb hn
        exact ⟨h1, h2, NoSlashTok.cons (by decide) (wuRes0_tok neg)⟩
  · split at h
    · split at h
      · cases h
      · rename_i c' i2 hn
        cases h
        obtain ⟨h1, h2⟩ := It.head_ne_of_not_mem hb hn
        exact ⟨h1, h2, NoSlashTok.cons (by simp) (wuRes0_tok neg)⟩
    · cases h
      exact ⟨hc, hb, wuRes0_tok neg⟩

/-- **`_sequence`**: same class, mapped guard — in path mode (where a `/` ends the bracket
    attempt), or when the text has no `/` -/
theorem sequence_toWin {c : Cfg} (hc : UnixCfg c) (ps : PS) (it : It)
    (hb : '\\' ∉ it.rest) (hs : c.pathname = true ∨ '/' ∉ it.rest) :
    sequence c.toWin ps it = (sequence c ps it).map (fun x => (x.1.ms, x.2.1, x.2.2)) := by
  rw [sequence_eq_steps, sequence_eq_steps]
  cases hn : it.next with
  | none => rfl
  | some x =>
    obtain ⟨c0, it0⟩ := x
    obtain ⟨hc0, hb0⟩ := It.head_ne_of_not_mem hb hn
    dsimp only
    cases h1 : wuStep1 c0 it0 with
    | none => rfl
    | some y =>
      obtain ⟨neg, c1, it1⟩ := y
      obtain ⟨hc1, hb1⟩ := wuStep1_spec hc0 hb0 h1
      dsimp only
      cases h2 : wuStep2 neg c1 it1 with
      | none => rfl
      | some z =>
        obtain ⟨c2, it2, res, lp⟩ := z
        obtain ⟨hc2, hb2, ht2⟩ := wuStep2_spec hc1 hb1 h2
        have hs2 : c.pathname = true ∨ (c2 ≠ '/' ∧ '/' ∉ it2.rest) := by
          rcases hs with hs | hs
          · exact .inl hs
          · obtain ⟨a0, b0⟩ := It.head_ne_of_not_mem hs hn
            obtain ⟨a1, b1⟩ := wuStep1_spec a0 b0 h1
            obtain ⟨a2, b2, _⟩ := wuStep2_spec a1 b1 h2
            exact .inr ⟨a2, b2⟩
        dsimp only
        rw [← seqLoopG_true, ← seqLoopG_true, seqLoopG_toWin c _ _ _ _ hc2 hb2]
        cases hl : seqLoopG true c (it2.rest.length + 2) c2 it2 ⟨res, 0, -1, false, lp⟩ with
        | none => rfl
        | some w =>
          obtain ⟨itE, stE⟩ := w
          have htE := seqLoopG_tok c _ _ _ _ _ _ hc2 hb2 hs2 ht2 hl
          dsimp only
          unfold wuOut
          simp only [Cfg.toWin_pathname, restrictSequence_toWin hc, Cfg.toWin_isBytes]
          split <;> simp [catE_ms, wuCls_ms _ _ _ htE]

theorem sequence_noBs (cfg : Cfg) (ps : PS) (it : It) (r : Re) (ps' : PS) (it' : It)
    (hb : '\\' ∉ it.rest) (h : sequence cfg ps it = some (r, ps', it')) : '\\' ∉ it'.rest := by
  obtain ⟨pre, hpre⟩ := sequence_suffix cfg ps it r ps' it' h
  exact fun hm => hb (by rw [hpre]; exact List.mem_append_right pre hm)

/-! ### `parse_extend` -/

def peMs (r : Bool × PS × It × List Item) : Bool × PS × It × List Item :=
  (r.1, r.2.1, r.2.2.1, Item.msL r.2.2.2)

def elMs : Except PS (PS × It × List Item) → Except PS (PS × It × List Item)
  | .ok (ps, it, ext) => .ok (ps, it, Item.msL ext)
  | .error ps => .error ps

theorem peFinish_ms (ps0 : PS) (s : Bool) (ps : PS) (it : It) (cur : List Item) :
    peFinish ps0 s ps it (Item.msL cur) = peMs (peFinish ps0 s ps it cur) := rfl

theorem peFail_ms (ps0 : PS) (it : It) (cur : List Item) (ps : PS) :
    peFail ps0 it (Item.msL cur) ps = peMs (peFail ps0 it cur ps) := rfl

theorem peBuild_toWin {c : Cfg} (hc : UnixCfg c) (ps0 : PS) (lt : Char) (cur : List Item) (ps : PS)
    (body : List Item) :
    peBuild c.toWin ps0 lt (Item.msL cur) ps (Item.msL body) =
      (Item.msL (peBuild c ps0 lt cur ps body).1, (peBuild c ps0 lt cur ps body).2) := by
  unfold peBuild
  rw [hc.win]
  simp only [Cfg.toWin_capture, Cfg.toWin_pathname, Cfg.toWin_win, Cfg.toWin_dot, needChar_toWin hc]
  split
  · simp
  · split
    · simp
    · split
      · simp
      · split
        · simp
        · simp only [Item.msL_cons, Item.ms_ph, Item.ms_invOpen, Prod.mk.injEq, List.cons.injEq,
            Item.ph.injEq, and_true]
          repeat' split
          all_goals simp

theorem peClose_toWin {c : Cfg} (hc : UnixCfg c) (ps0 : PS) (it : It) (r : List Item × PS) :
    peClose c.toWin ps0 it (Item.msL r.1, r.2) = peMs (peClose c ps0 it r) := by
  obtain ⟨cur, ps⟩ := r
  unfold peClose
  dsimp only
  split
  · rw [cleanUpInverse_toWin hc]
    rfl
  · rfl

def ExtT (c : Cfg) (fuel : Nat) : Prop :=
  ∀ (lt : Char) (it : It) (ps : PS) (cur : List Item) (rd : Bool), JI (JW c.pathname) it →
    parseExtend c.toWin fuel lt it ps (Item.msL cur) rd = peMs (parseExtend c fuel lt it ps cur rd)

def ExtLoopT (c : Cfg) (fuel : Nat) : Prop :=
  ∀ (it : It) (ps : PS) (ext : List Item) (ta tn : Bool), JI (JW c.pathname) it →
    extLoop c.toWin fuel it ps (Item.msL ext) ta tn = elMs (extLoop c fuel it ps ext ta tn)

theorem pe_step_toWin {c : Cfg} (hc : UnixCfg c) (n : Nat) (ihE : ExtLoopT c n) : ExtT c (n+1) := by
  intro lt it ps cur rd hi
  rw [parseExtend_succ, parseExtend_succ]
  cases hn : it.next with
  | none => exact peFail_ms _ _ _ _
  | some x =>
    obtain ⟨ch, it1⟩ := x
    dsimp only
    split
    · exact peFail_ms _ _ _ _
    · have := ihE it1 (peEnter ps lt rd) [] ps.afterStart ps.invNest (JI.next (TextInv.jw _) hi hn)
      simp only [Item.msL_nil] at this
      rw [this]
      cases extLoop c n it1 (peEnter ps lt rd) [] ps.afterStart ps.invNest with
      | error e => exact peFail_ms _ _ _ _
      | ok v =>
        obtain ⟨ps1, it2, extended⟩ := v
        simp only [elMs]
        rw [← Item.msL_reverse, peBuild_toWin hc]
        exact peClose_toWin hc ps it2 _

theorem elCont_toWin (c : Cfg) (n : Nat) (ihE : ExtLoopT c n) (ch : Char) (ta tn : Bool) (ps : PS)
    (it : It) (ext : List Item) (upd : Bool) (hi : JI (JW c.pathname) it) :
    elCont c.toWin n ch ta tn ps it (Item.msL ext) upd = elMs (elCont c n ch ta tn ps it ext upd) := by
  unfold elCont
  dsimp only
  split
  · rfl
  · exact ihE _ _ _ _ _ hi

theorem elOther_toWin {c : Cfg} (hc : UnixCfg c) (n : Nat) (ihE : ExtLoopT c n) (ch : Char)
    (ta tn : Bool) (ps : PS) (it : It) (ext : List Item) (hi : JI (JW c.pathname) it)
    (hch : ch ≠ '\\') (hbr : c.pathname = false → ch = '[' → '/' ∉ it.rest) :
    elOther c.toWin n ch ta tn ps it (Item.msL ext) = elMs (elOther c n ch ta tn ps it ext) := by
  have hb := JW.noBs hi
  have hJ := TextInv.jw c.pathname
  unfold elOther
  rw [hc.win]
  simp only [Cfg.toWin_win, Cfg.toWin_dot, Cfg.toWin_nodotdir, hch, ite_false]
  split
  · -- star
    rw [handleStar_toWin hc _ _ _ hb]
    have h1 := handleStar_ji hJ c ps ext hi
    generalize handleStar c ps it ext = r at h1 ⊢
    obtain ⟨p3, i3, e3⟩ := r
    exact elCont_toWin c n ihE ch ta tn _ _ _ _ h1
  · split
    · rw [handleDot_toWin hc _ _ hb]
      have : Item.re (handleDot c ps it).ms :: Item.msL ext =
          Item.msL (Item.re (handleDot c ps it) :: ext) := by simp
      rw [this]
      exact elCont_toWin c n ihE ch ta tn _ _ _ _ hi
    · split
      · rw [qmarkItem_toWin hc]
        generalize qmarkItem c ps = r
        obtain ⟨q3, p3⟩ := r
        dsimp only
        have : q3.ms :: Item.msL ext = Item.msL (q3 :: ext) := by simp
        rw [this]
        exact elCont_toWin c n ihE ch ta tn _ _ _ _ hi
      · split
        · rw [restrictExtendedSlash_toWin hc]
          cases hr : restrictExtendedSlash c with
          | none =>
            dsimp only [Option.map_none]
            have : Item.re (Frag.sep true) :: Item.msL ext =
                Item.msL (Item.re (Frag.sep false) :: ext) := by simp
            rw [this]
            exact elCont_toWin c n ihE ch ta tn _ _ _ _ hi
          | some g =>
            dsimp only [Option.map_some]
            have : Item.re (Frag.sep true) :: Item.re g.ms :: Item.msL ext =
                Item.msL (Item.re (Frag.sep false) :: Item.re g :: ext) := by simp
            rw [this]
            exact elCont_toWin c n ihE ch ta tn _ _ _ _ hi
        · split
          · have : ((if ps.invNest = true then cleanUpInverse c.toWin ps (Item.msL ext) tn
                else (Item.msL ext, ps)) : List Item × PS) =
                (Item.msL (if ps.invNest = true then cleanUpInverse c ps ext tn else (ext, ps)).1,
                  (if ps.invNest = true then cleanUpInverse c ps ext tn else (ext, ps)).2) := by
              split
              · exact cleanUpInverse_toWin hc _ _ _
              · rfl
            rw [this]
            generalize (if ps.invNest = true then cleanUpInverse c ps ext tn else (ext, ps)) = r
            obtain ⟨e3, p3⟩ := r
            dsimp only
            have : Item.bar :: Item.msL e3 = Item.msL (Item.bar :: e3) := by simp
            rw [this]
            exact elCont_toWin c n ihE ch ta tn _ _ _ _ hi
          · split
            · -- bracket
              rename_i hbk
              have hsl : c.pathname = true ∨ '/' ∉ it.rest := by
                cases hp : c.pathname
                · exact .inr (hbr hp hbk)
                · exact .inl rfl
              · rw [sequence_toWin hc _ _ hb hsl]
                cases hs : sequence c ps it with
                | none =>
                  dsimp only [Option.map_none]
                  have : Item.re (Re.lit '[') :: Item.msL ext =
                      Item.msL (Item.re (Re.lit '[') :: ext) := by simp
                  rw [this]
                  exact elCont_toWin c n ihE ch ta tn _ _ _ _ hi
                | some v =>
                  obtain ⟨r, p3, i3⟩ := v
                  dsimp only [Option.map_some]
                  have : Item.re r.ms :: Item.msL ext = Item.msL (Item.re r :: ext) := by simp
                  rw [this]
                  exact elCont_toWin c n ihE ch ta tn _ _ _ _ ((SeqOK.jw _ c _ _ _ _ _ hi hs).2)
            · split
              · have hsl : ch ≠ '/' := by assumption
                have : Item.re (Re.lit ch) :: Item.msL ext = Item.msL (Item.re (Re.lit ch) :: ext) := by
                  simp [Re.ms_lit_of hsl hch]
                rw [this]
                exact elCont_toWin c n ihE ch ta tn _ _ _ _ hi
              · exact elCont_toWin c n ihE ch ta tn _ _ _ _ hi

theorem el_step_toWin {c : Cfg} (hc : UnixCfg c) (n : Nat) (ihP : ExtT c n) (ihE : ExtLoopT c n) :
    ExtLoopT c (n+1) := by
  intro it ps ext ta tn hi
  rw [extLoop_succ, extLoop_succ]
  cases hn : it.next with
  | none => rfl
  | some x =>
    obtain ⟨ch, it1⟩ := x
    have hi1 := JI.next (TextInv.jw _) hi hn
    obtain ⟨hch, hbr⟩ := JW.head hi hn
    dsimp only [Cfg.toWin_extend]
    by_cases hx : (c.extend && decide (ch ∈ extTypes)) = true
    · simp only [hx, ite_true]
      rw [ihP ch it1 ps ext false hi1]
      have hnb := parseExtend_jw c.pathname c n ch it1 ps ext false hi1
      generalize parseExtend c n ch it1 ps ext false = r at hnb ⊢
      obtain ⟨b, p2, i2, e2⟩ := r
      cases b
      · exact elOther_toWin hc n ihE ch ta tn _ _ _ hi1 hch hbr
      · exact elCont_toWin c n ihE ch ta tn _ _ _ _ hnb
    · simp only [hx, Bool.false_eq_true, ite_false]
      exact elOther_toWin hc n ihE ch ta tn _ _ _ hi1 hch hbr

theorem pe_el_toWin {c : Cfg} (hc : UnixCfg c) : ∀ fuel, ExtT c fuel ∧ ExtLoopT c fuel := by
  intro fuel
  induction fuel with
  | zero =>
    constructor
    · intro lt it ps cur rd _; rfl
    · intro it ps ext ta tn _; rfl
  | succ n ih => exact ⟨pe_step_toWin hc n ih.2, el_step_toWin hc n ih.1 ih.2⟩

/-! ### the root loop -/

def RootLoopT (c : Cfg) (fuel : Nat) : Prop :=
  ∀ (it : It) (ps : PS) (cur : List Item), JI (JW c.pathname) it →
    rootLoop c.toWin fuel it ps (Item.msL cur) =
      ((rootLoop c fuel it ps cur).1, Item.msL (rootLoop c fuel it ps cur).2)

theorem rlOther_toWin {c : Cfg} (hc : UnixCfg c) (n : Nat) (ih : RootLoopT c n) (ch : Char) (ps : PS)
    (it : It) (cur : List Item) (hi : JI (JW c.pathname) it) (hch : ch ≠ '\\')
    (hbr : c.pathname = false → ch = '[' → '/' ∉ it.rest) :
    rlOther c.toWin n ch ps it (Item.msL cur) =
      ((rlOther c n ch ps it cur).1, Item.msL (rlOther c n ch ps it cur).2) := by
  have hb := JW.noBs hi
  have hJ := TextInv.jw c.pathname
  unfold rlOther
  rw [hc.win]
  simp only [Cfg.toWin_win, Cfg.toWin_pathname, hch, ite_false]
  split
  · rw [handleDot_toWin hc _ _ hb]
    have : Item.re (handleDot c ps it).ms :: Item.msL cur =
        Item.msL (Item.re (handleDot c ps it) :: cur) := by simp
    rw [this]
    exact ih _ _ _ hi
  · split
    · rw [handleStar_toWin hc _ _ _ hb]
      have h1 := handleStar_ji hJ c ps cur hi
      generalize handleStar c ps it cur = r at h1 ⊢
      obtain ⟨p3, i3, e3⟩ := r
      exact ih _ _ _ h1
    · split
      · rw [qmarkItem_toWin hc]
        generalize qmarkItem c ps = r
        obtain ⟨q3, p3⟩ := r
        dsimp only
        have : q3.ms :: Item.msL cur = Item.msL (q3 :: cur) := by simp
        rw [this]
        exact ih _ _ _ hi
      · split
        · split
          · rw [cleanUpInverse_toWin hc, consumePathSep_toWin hc _ hb]
            generalize cleanUpInverse c ps.setStartDir cur false = r
            obtain ⟨c3, p3⟩ := r
            dsimp only
            have : Item.re (Frag.sepPlus true) :: Item.msL c3 =
                Item.msL (Item.re (Frag.sepPlus false) :: c3) := by simp
            rw [this]
            exact ih _ _ _ (JI.consumePathSep hJ c hi)
          · have : Item.re (Frag.sep true) :: Item.msL cur =
                Item.msL (Item.re (Frag.sep false) :: cur) := by simp
            rw [this]
            exact ih _ _ _ hi
        · split
          · -- bracket
            rename_i hbk
            have hsl : c.pathname = true ∨ '/' ∉ it.rest := by
              cases hp : c.pathname
              · exact .inr (hbr hp hbk)
              · exact .inl rfl
            · rw [sequence_toWin hc _ _ hb hsl]
              cases hs : sequence c ps it with
              | none =>
                dsimp only [Option.map_none]
                have : Item.re (Re.lit '[') :: Item.msL cur =
                    Item.msL (Item.re (Re.lit '[') :: cur) := by simp
                rw [this]
                exact ih _ _ _ hi
              | some v =>
                obtain ⟨r, p3, i3⟩ := v
                dsimp only [Option.map_some]
                have : Item.re r.ms :: Item.msL cur = Item.msL (Item.re r :: cur) := by simp
                rw [this]
                exact ih _ _ _ ((SeqOK.jw _ c _ _ _ _ _ hi hs).2)
          · have hsl : ch ≠ '/' := by assumption
            have : Item.re (Re.lit ch) :: Item.msL cur = Item.msL (Item.re (Re.lit ch) :: cur) := by
              simp [Re.ms_lit_of hsl hch]
            rw [this]
            exact ih _ _ _ hi

theorem rootLoop_toWin {c : Cfg} (hc : UnixCfg c) : ∀ fuel, RootLoopT c fuel := by
  intro fuel
  induction fuel with
  | zero => intro it ps cur _; rfl
  | succ n ih =>
    intro it ps cur hi
    rw [rootLoop_succ, rootLoop_succ]
    cases hn : it.next with
    | none => rfl
    | some x =>
      obtain ⟨ch, it1⟩ := x
      have hi1 := JI.next (TextInv.jw _) hi hn
      obtain ⟨hch, hbr⟩ := JW.head hi hn
      dsimp only [Cfg.toWin_extend]
      by_cases hx : (c.extend && decide (ch ∈ extTypes)) = true
      · simp only [hx, ite_true]
        rw [(pe_el_toWin hc _).1 ch it1 ps cur true hi1]
        have hnb := parseExtend_jw c.pathname c (2 * it1.rest.length + 8) ch it1 ps cur true hi1
        generalize parseExtend c (2 * it1.rest.length + 8) ch it1 ps cur true = r at hnb ⊢
        obtain ⟨b, p2, i2, e2⟩ := r
        cases b
        · exact rlOther_toWin hc n ih ch _ _ _ hi1 hch hbr
        · exact ih _ _ _ hnb
      · simp only [hx, Bool.false_eq_true, ite_false]
        exact rlOther_toWin hc n ih ch _ _ _ hi1 hch hbr

/-! ### `root` -/

/-- the Windows drive scanner finds no drive in `q`, and reports a root exactly for a leading `/` -/
def NoDrive (d : DriveInfo) (q : List Char) : Prop :=
  d.drive = none ∧ d.rootSpecified = decide (q.head? = some '/')

def rootMs : Except ParseErr (PS × List Item) → Except ParseErr (PS × List Item)
  | .ok (ps, cur) => .ok (ps, Item.msL cur)
  | .error e => .error e

theorem rootPre_toWin {c : Cfg} (hc : UnixCfg c) (driveW driveU : List Char → DriveInfo)
    (q : List Char) (hd : c.pathname = true → NoDrive (driveW q) q) (cur : List Item) :
    rootPre c.toWin driveW q (Item.msL cur) =
      ((rootPre c driveU q cur).1, (rootPre c driveU q cur).2.1, Item.msL (rootPre c driveU q cur).2.2) := by
  unfold rootPre
  rw [hc.wdd]
  simp only [Cfg.toWin_winDriveDetect, Cfg.toWin_pathname, Bool.false_eq_true, ite_false]
  by_cases hp : c.pathname = true
  · obtain ⟨h1, h2⟩ := hd hp
    simp only [hp, ite_true, h1, h2, Bool.true_and]
    split <;> simp_all
  · have hp' : c.pathname = false := by simpa using hp
    simp [hp']

theorem rootPre_jw (c : Cfg) (drive : List Char → DriveInfo) (q : List Char) (cur : List Item)
    (hw : c.winDriveDetect = false) (hq : JW c.pathname q) : JI (JW c.pathname) (rootPre c drive q cur).2.1 := by
  have hi0 : JI (JW c.pathname) (⟨0, q⟩ : It) := hq
  unfold rootPre
  simp only [hw, Bool.false_eq_true, ite_false]
  split <;> exact hi0

theorem rootPost_toWin {c : Cfg} (hc : UnixCfg c) (ps : PS) (t : Bool × It × List Item)
    (hi : JI (JW c.pathname) t.2.1) :
    rootPost c.toWin ps (t.1, t.2.1, Item.msL t.2.2) = rootMs (rootPost c ps t) := by
  obtain ⟨rs, it, cur⟩ := t
  unfold rootPost
  rw [hc.win]
  dsimp only at hi ⊢
  simp only [Cfg.toWin_noAbs, Cfg.toWin_realpath, hc.rp, Bool.and_false, Bool.false_eq_true, ite_false,
    Cfg.toWin_pathname, Cfg.toWin_win]
  split
  · rfl
  · rw [rootLoop_toWin hc _ it _ _ hi]
    generalize rootLoop c (it.rest.length + 1) it _ _ = r
    obtain ⟨p3, c3⟩ := r
    dsimp only
    rw [cleanUpInverse_toWin hc]
    generalize cleanUpInverse c p3 c3 false = r
    obtain ⟨c4, p4⟩ := r
    dsimp only
    split <;> simp [rootMs]

theorem root_toWin {c : Cfg} (hc : UnixCfg c) (driveW driveU : List Char → DriveInfo) (q : List Char)
    (hd : c.pathname = true → NoDrive (driveW q) q) (ps : PS) (cur : List Item) (hq : JW c.pathname q) :
    root c.toWin driveW q ps (Item.msL cur) = rootMs (root c driveU q ps cur) := by
  rw [root_eq, root_eq, rootPre_toWin hc driveW driveU q hd]
  exact rootPost_toWin hc _ _ (rootPre_jw c driveU q cur hc.wdd hq)

/-! ### `_parse` -/

def parsedMs : Except ParseErr Parsed → Except ParseErr Parsed
  | .ok p => .ok p.ms
  | .error e => .error e

theorem stripAnchor_noBs : ∀ p : List Char, '\\' ∉ p → stripAnchor true p = stripAnchor false p := by
  intro p
  fun_induction stripAnchor false p with
  | case1 r ih =>
    intro hb
    have hr : '\\' ∉ r := fun hm => hb (by simp [hm])
    rw [stripAnchor, ih hr]
  | case2 r hw _ => cases hw
  | case3 r _ => intro hb; exact absurd (by simp) hb
  | case4 s h1 h2 =>
    intro hb
    rw [stripAnchor.eq_def]
    split
    · rename_i r; exact (h1 r rfl).elim
    · rename_i r; exact (h2 r rfl).elim
    · rfl

theorem anchorStep_toWin {c : Cfg} (hc : UnixCfg c) (p : List Char) (ps : PS) (hb : '\\' ∉ p) :
    anchorStep c.toWin p ps = anchorStep c p ps := by
  unfold anchorStep
  rw [hc.wdd]
  simp only [Cfg.toWin_anchor, Cfg.toWin_winDriveDetect]
  have e : ∀ b : Bool, stripAnchor b p = stripAnchor false p := by
    intro b
    cases b
    · rfl
    · exact stripAnchor_noBs p hb
  split
  · rw [e]
  · rfl

theorem anchorStep_jw (cfg : Cfg) (b : Bool) (p : List Char) (ps : PS) (hp : JW b p) :
    JW b (anchorStep cfg p ps).1 := by
  unfold anchorStep
  split
  · obtain ⟨pre, hpre⟩ := stripAnchor_suffix cfg.winDriveDetect p
    rw [hpre] at hp
    exact (TextInv.jw b).suffix pre hp
  · exact hp

/-- the hypotheses on the Windows drive scanner for the two implicit prefixes -/
def StarsNoDrive (c : Cfg) (driveW : List Char → DriveInfo) : Prop :=
  c.pathname = true → NoDrive (driveW ['*', '*', '*']) ['*', '*', '*'] ∧ NoDrive (driveW ['*', '*']) ['*', '*']

theorem parsePrepend_toWin {c : Cfg} (hc : UnixCfg c) (driveW driveU : List Char → DriveInfo)
    (hs : StarsNoDrive c driveW) (ps : PS) :
    parsePrepend c.toWin driveW ps = rootMs (parsePrepend c driveU ps) := by
  have h3 := root_toWin hc driveW driveU ['*', '*', '*'] (fun hp => (hs hp).1) ps [.empty]
    ⟨by decide, fun _ => .inl (by decide)⟩
  have h2 := root_toWin hc driveW driveU ['*', '*'] (fun hp => (hs hp).2) { ps with globstar := true } [.empty]
    ⟨by decide, fun _ => .inl (by decide)⟩
  simp only [Item.msL_cons, Item.ms_empty, Item.msL_nil] at h2 h3
  unfold parsePrepend
  simp only [Cfg.toWin_globstarlong, Cfg.toWin_follow]
  split
  · split
    · exact h3
    · rw [h2]
      cases root c driveU ['*', '*'] { ps with globstar := true } [.empty] with
      | error e => rfl
      | ok v => rfl
  · rfl

theorem parseBody_toWin {c : Cfg} (hc : UnixCfg c) (driveW driveU : List Char → DriveInfo)
    (p : List Char) (hp : JW c.pathname p) (hd : c.pathname = true → NoDrive (driveW p) p)
    (ps : PS) (pre : List Item) :
    parseBody c.toWin driveW p ps (Item.msL pre) = parsedMs (parseBody c driveU p ps pre) := by
  unfold parseBody
  have hne : p ≠ ['\\'] := fun e => hp.1 (by simp [e])
  simp only [hne, ite_false, Cfg.toWin_caseSensitive]
  have hroot := root_toWin hc driveW driveU p hd ps [.empty] hp
  simp only [Item.msL_cons, Item.ms_empty, Item.msL_nil] at hroot
  by_cases hq : p.isEmpty = true
  · simp [hq, parsedMs, Parsed.ms]
  · simp only [hq, Bool.false_eq_true, ite_false, hroot]
    cases root c driveU p ps [.empty] with
    | error e => rfl
    | ok v =>
      obtain ⟨p2, result⟩ := v
      simp only [rootMs, parsedMs, Parsed.ms, Bool.not_false, Bool.true_and]
      split <;> simp

/-- the initial parser state of `_parse` -/
def PS.start (c : Cfg) : PS :=
  { matchbase := c.matchbase0, extmatchbase := c.extmatchbase0, globstar := c.globstar0 }

theorem parseItems_eq_start (cfg : Cfg) (drive : List Char → DriveInfo) (p : List Char) :
    parseItems cfg drive p =
      match parsePrepend cfg drive (anchorStep cfg p (PS.start cfg)).2 with
      | .error e => .error e
      | .ok (ps, prepend) => parseBody cfg drive (anchorStep cfg p (PS.start cfg)).1 ps prepend := rfl

/-- **THE LOCK-STEP**: the run under Windows rules is the run under Unix rules with every regex
    mapped by `Re.ms` -/
theorem parseItems_toWin {c : Cfg} (hc : UnixCfg c) (driveW driveU : List Char → DriveInfo)
    (hs : StarsNoDrive c driveW) (p : List Char) (hp : JW c.pathname p)
    (hd : c.pathname = true →
      NoDrive (driveW (anchorStep c p (PS.start c)).1) (anchorStep c p (PS.start c)).1) :
    parseItems c.toWin driveW p = parsedMs (parseItems c driveU p) := by
  rw [parseItems_eq_start, parseItems_eq_start]
  have hi : PS.start c.toWin = PS.start c := rfl
  rw [hi, anchorStep_toWin hc p _ hp.1, parsePrepend_toWin hc driveW driveU hs]
  cases parsePrepend c driveU _ with
  | error e => rfl
  | ok v =>
    obtain ⟨p2, pre⟩ := v
    simp only [rootMs]
    exact parseBody_toWin hc driveW driveU _ (anchorStep_jw c _ p _ hp) hd _ _

end WcModel

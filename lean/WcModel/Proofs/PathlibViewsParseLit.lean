import WcModel.Proofs.PathlibViewsLit
import WcModel.Proofs.PathlibViewsParse
/-
  C16: `_GlobSplit.split` and `WcParse.parse` for a literal pattern with several segments
  `s₁/…/sₖ` under `_EXTMATCHBASE` (`globSplit_lits`, `parseItems_emLits`): the inputs of
  `matchReal_emLits_iff_denotes`.  Generalises `PathlibViewsParse` (`k = 1`).
-/
namespace WcModel.PathlibViews
open WcModel

/-- a literal pattern `s₁/…/sₖ`: every segment plain, none `.`/`..`, the first not starting like
    an exclusion pattern -/
structure PlainSegs (segs : List Name) : Prop where
  ne : segs ≠ []
  plain : ∀ s ∈ segs, s ≠ [] ∧ (∀ c ∈ s, c ∉ specials) ∧ s ≠ dot ∧ s ≠ dotdot
  head : ∀ s, segs.head? = some s → s.head? ≠ some '!' ∧ s.head? ≠ some '-'

theorem PlainSegs.compOK {segs : List Name} (h : PlainSegs segs) : ∀ s ∈ segs, CompOK s :=
  fun s hs => ⟨(h.plain s hs).1, fun c hc e => (h.plain s hs).2.1 c hc (by subst e; decide)⟩

theorem PlainSegs.segOK {segs : List Name} (h : PlainSegs segs) : ∀ s ∈ segs, SegOK s :=
  fun s hs => ⟨h.compOK s hs, (h.plain s hs).2.2.1, (h.plain s hs).2.2.2⟩

theorem PlainSegs.of_single {s : List Char} (h : PlainSeg s) : PlainSegs [s] :=
  ⟨by simp, fun t ht => by simp only [List.mem_singleton] at ht; subst ht; exact ⟨h.ne, h.plain, h.notDots⟩,
    fun t ht => by simp only [List.head?_cons, Option.some.injEq] at ht; subst ht; exact h.head⟩

theorem joinSl_chars (segs : List Name) (h : PlainSegs segs) : ∀ c ∈ joinSl segs, c = '/' ∨ c ∉ specials := by
  have hp := h.plain
  clear h
  induction segs with
  | nil => intro c hc; simp [joinSl] at hc
  | cons a r ih =>
    intro c hc
    by_cases hr : r = []
    · subst hr
      simp only [joinSl] at hc
      exact Or.inr ((hp a List.mem_cons_self).2.1 c hc)
    · rw [joinSl_cons _ _ hr] at hc
      simp only [List.mem_append, List.mem_cons] at hc
      rcases hc with hc | rfl | hc
      · exact Or.inr ((hp a List.mem_cons_self).2.1 c hc)
      · exact Or.inl rfl
      · exact ih (fun s hs => hp s (List.mem_cons_of_mem _ hs)) c hc

theorem PlainSegs.not_negative {segs : List Name} (h : PlainSegs segs) (f : Flags) :
    isNegative f (joinSl segs) = false := by
  obtain ⟨a, r, rfl⟩ : ∃ a r, segs = a :: r := by
    cases segs with
    | nil => exact absurd rfl h.ne
    | cons a r => exact ⟨a, r, rfl⟩
  have ha := (h.plain a List.mem_cons_self).1
  obtain ⟨h1, h2⟩ := h.head a rfl
  have hh : (joinSl (a :: r)).head? = a.head? := by
    cases a with
    | nil => exact absurd rfl ha
    | cons x a' => cases r <;> simp [joinSl]
  unfold isNegative
  rw [hh]
  cases hs : a.head? with
  | none => simp
  | some c =>
    rw [hs] at h1 h2
    have c1 : c ≠ '!' := fun e => h1 (by rw [e])
    have c2 : c ≠ '-' := fun e => h2 (by rw [e])
    simp [c1, c2]

/-! ### `_GlobSplit.split` -/

/-- the split points of `s₁/…/sₖ` when it starts at offset `o`: the positions of its separators -/
def splitsOf : Nat → List Name → List (Nat × Nat)
  | _, [] => []
  | _, [_] => []
  | o, s :: s2 :: r => (o + s.length, 0) :: splitsOf (o + s.length + 1) (s2 :: r)

/-- the scanner over a plain run followed by a separator: one split point, at the separator -/
theorem scan_plain_sep (e : Bool) : ∀ (s : List Char) (rest : List Char) (fuel i : Nat) (acc : List (Nat × Nat)),
    (∀ c ∈ s, c ∉ specials) → s.length + 1 ≤ fuel →
    GSplit.scan e fuel ⟨i, s ++ '/' :: rest⟩ acc =
      GSplit.scan e (fuel - s.length - 1) ⟨i + s.length + 1, rest⟩ ((i + s.length, 0) :: acc) := by
  intro s
  induction s with
  | nil =>
    intro rest fuel i acc _ hf
    obtain ⟨n, rfl⟩ : ∃ n, fuel = n + 1 := ⟨fuel - 1, by simp at hf; omega⟩
    have h1 : ('/' : Char) ≠ '\\' := by decide
    have hm : ('/' ∈ extTypes) = False := slash_not_ext
    simp only [List.nil_append, List.length_nil, Nat.add_zero]
    conv => lhs; unfold GSplit.scan
    simp [It.next, hm, h1]
  | cons c r ih =>
    intro rest fuel i acc hp hf
    obtain ⟨n, rfl⟩ : ∃ n, fuel = n + 1 := ⟨fuel - 1, by simp at hf; omega⟩
    obtain ⟨_, _, h3, _, h5, h6, _⟩ := not_special (hp c List.mem_cons_self)
    have hr : ∀ x ∈ r, x ∉ specials := fun x hx => hp x (List.mem_cons_of_mem _ hx)
    have hhead : (⟨i + 1, r ++ '/' :: rest⟩ : It).rest.head? ≠ some '(' := by
      cases r with
      | nil => simp
      | cons d r' => simpa using (not_special (hr d List.mem_cons_self)).2.2.2.2.2.2.2.2.2.2.1
    simp only [List.cons_append]
    conv => lhs; unfold GSplit.scan
    simp only [It.next]
    have hext : (if (e && extTypes.contains c) = true then
        GSplit.parseExtend e ((r ++ '/' :: rest).length + 2) ⟨i + 1, r ++ '/' :: rest⟩
          else (false, ⟨i + 1, r ++ '/' :: rest⟩)) = (false, ⟨i + 1, r ++ '/' :: rest⟩) := by
      split
      · exact gsplit_parseExtend_noparen e _ _ hhead
      · rfl
    simp only [hext, Bool.false_eq_true, if_false, h5, h6, h3]
    rw [ih rest n (i + 1) acc hr (by simp at hf; omega)]
    simp only [List.length_cons]
    have e1 : n + 1 - (r.length + 1) - 1 = n - r.length - 1 := by omega
    have e2 : i + 1 + r.length + 1 = i + (r.length + 1) + 1 := by omega
    have e3 : i + 1 + r.length = i + (r.length + 1) := by omega
    rw [e1, e2, e3]

theorem scan_join (e : Bool) : ∀ (segs : List Name), (∀ s ∈ segs, ∀ c ∈ s, c ∉ specials) →
    ∀ (o fuel : Nat) (acc : List (Nat × Nat)), (joinSl segs).length < fuel →
      GSplit.scan e fuel ⟨o, joinSl segs⟩ acc = acc.reverse ++ splitsOf o segs := by
  intro segs
  induction segs with
  | nil =>
    intro _ o fuel acc hf
    have hf' : 0 < fuel := by simpa [joinSl] using hf
    simp only [joinSl, splitsOf, List.append_nil]
    exact scan_plain e [] fuel o acc (by simp) (by simpa using hf')
  | cons s r ih =>
    intro hp o fuel acc hf
    cases r with
    | nil =>
      simp only [joinSl, splitsOf, List.append_nil] at hf ⊢
      exact scan_plain e s fuel o acc (hp s List.mem_cons_self) hf
    | cons s2 r' =>
      have hjs : joinSl (s :: s2 :: r') = s ++ '/' :: joinSl (s2 :: r') := rfl
      rw [hjs] at hf ⊢
      simp only [List.length_append, List.length_cons] at hf
      rw [scan_plain_sep e s _ fuel o acc (hp s List.mem_cons_self) (by omega),
        ih (fun t ht => hp t (List.mem_cons_of_mem _ ht)) _ _ _ (by omega)]
      simp [splitsOf]

/-- a literal directory part -/
def litD (s : Name) : GPart := ⟨.lit s, false, false, false, true, false⟩

theorem store_plain (c : SplitCfg) (hn : c.flags.negate = false) (s : List Char) (hne : s ≠ [])
    (hp : ∀ x ∈ s, x ∉ specials) (l : List GPart) (d : Bool) (hl : (l.getLast?.map (·.isGlobstar)).getD false = false ∨ True) :
    GSplit.store c s l d = .ok (l ++ [⟨.lit s, false, false, false, d, false⟩]) := by
  have hmag : GSplit.isMagic c.flags s = false := isMagic_plain _ s hp hn
  have hs2 : (s == ['*', '*']) = false := by
    rw [beq_eq_false_iff_ne]; rintro rfl
    exact (not_special (hp '*' (by simp))).1 rfl
  have hs3 : (s == ['*', '*', '*']) = false := by
    rw [beq_eq_false_iff_ne]; rintro rfl
    exact (not_special (hp '*' (by simp))).1 rfl
  have hse : s.isEmpty = false := by
    cases s with
    | nil => exact absurd rfl hne
    | cons _ _ => rfl
  simp [GSplit.store, hmag, hs2, hs3, hse]

theorem dirStr_snoc (ds : List Name) (x : Name) : dirStr (ds ++ [x]) = dirStr ds ++ x ++ ['/'] := by
  simp [dirStr, List.flatMap_append]

theorem slice_mid (pre s post : List Char) : GSplit.slice (pre ++ s ++ post) pre.length (pre.length + s.length) = s := by
  unfold GSplit.slice
  have h1 : (pre ++ s ++ post).take (pre.length + s.length) = pre ++ s :=
    List.take_left' (by simp)
  rw [h1]
  exact List.drop_left' rfl

/-- `storeAll` over the separators of `s₁/…/sₖ`: every segment but the last, as a directory part -/
theorem storeAll_join (c : SplitCfg) (hn : c.flags.negate = false) : ∀ (segs : List Name), segs ≠ [] →
    (∀ s ∈ segs, s ≠ [] ∧ ∀ x ∈ s, x ∉ specials) → ∀ (done : List Name) (parts : List GPart),
      GSplit.storeAll c (joinSl (done ++ segs)) (splitsOf (dirStr done).length segs)
        (((dirStr done).length : Int) - 1) parts =
      .ok (parts ++ segs.dropLast.map litD, (((dirStr (done ++ segs.dropLast)).length : Int) - 1)) := by
  intro segs
  induction segs with
  | nil => intro h; exact absurd rfl h
  | cons s r ih =>
    intro _ hp done parts
    cases r with
    | nil => simp [splitsOf, GSplit.storeAll]
    | cons s2 r' =>
      obtain ⟨hs1, hs2⟩ := hp s List.mem_cons_self
      have hname : joinSl (done ++ s :: s2 :: r') = dirStr done ++ s ++ ('/' :: joinSl (s2 :: r')) := by
        rw [joinSl_append_dir done _ (by simp)]
        show dirStr done ++ (s ++ '/' :: joinSl (s2 :: r')) = _
        simp
      have hstart : ((((dirStr done).length : Int) - 1) + 1).toNat = (dirStr done).length := by omega
      simp only [splitsOf, GSplit.storeAll, hstart]
      rw [hname, slice_mid, store_plain c hn s hs1 hs2 parts true (Or.inr trivial)]
      simp only
      have ih' := ih (by simp) (fun t ht => hp t (List.mem_cons_of_mem _ ht)) (done ++ [s]) (parts ++ [litD s])
      have e1 : (dirStr (done ++ [s])).length = (dirStr done).length + s.length + 1 := by
        rw [dirStr_snoc]; simp; omega
      have hl : litD s = ⟨.lit s, false, false, false, true, false⟩ := rfl
      rw [hl] at ih'
      have e2 : joinSl (done ++ [s] ++ s2 :: r') = dirStr done ++ s ++ ('/' :: joinSl (s2 :: r')) := by
        rw [List.append_assoc]; exact hname
      rw [e1, e2] at ih'
      have e3 : (Int.ofNat ((dirStr done).length + s.length + 0)) = (((dirStr done).length + s.length + 1 : Nat) : Int) - 1 := by
        simp
      rw [e3, ih']
      simp [litD, List.dropLast, List.append_assoc]

theorem litParts_eq (segs : List Name) (hne : segs ≠ []) :
    litParts segs = segs.dropLast.map litD ++ [litPart (segs.getLast hne)] := by
  induction segs with
  | nil => exact absurd rfl hne
  | cons s r ih =>
    cases r with
    | nil => simp [litParts, litPart]
    | cons s2 r' =>
      have := ih (by simp)
      simp only [litParts, List.isEmpty_cons, Bool.not_false] at this ⊢
      rw [this]
      simp [litD, List.dropLast, List.getLast_cons]

/-- **`_GlobSplit(s₁/…/sₖ, flags).split()` under `_EXTMATCHBASE`**: the implicit recursive part,
    then one literal part per segment -/
theorem globSplit_lits (f : Flags) (isBytes : Bool) (segs : List Name) (hp : PlainSegs segs)
    (hu : isUnixStyle f = true) (hem : f.extmatchbase = true) :
    globSplit f isBytes (joinSl segs) = .ok (basePart (SplitCfg.ofFlags f isBytes) :: litParts segs) := by
  rw [globSplit_eq]
  simp only [hu, Bool.not_true, Bool.false_eq_true, if_false]
  have heff : effPattern f (joinSl segs) = joinSl segs := by simp [effPattern, hp.not_negative f]
  rw [heff]
  have hC := hp.compOK
  have hhead : (joinSl segs).head? ≠ some '/' := joinSl_head segs hC
  have hpne := joinSl_ne_nil segs hp.ne hC
  have hplain : ∀ s ∈ segs, s ≠ [] ∧ ∀ x ∈ s, x ∉ specials := fun s hs => ⟨(hp.plain s hs).1, (hp.plain s hs).2.1⟩
  have hstored : storedParts (SplitCfg.ofFlags f isBytes) (joinSl segs) = .ok (litParts segs) := by
    unfold storedParts
    rcases driveInit_cases (joinSl segs) with ⟨r, hr, _⟩ | ⟨_, hd⟩
    · rw [hr] at hhead; simp at hhead
    · rw [hd]
      simp only
      rw [scan_join _ segs (fun s hs => (hplain s hs).2) 0 _ [] (by omega)]
      simp only [List.reverse_nil, List.nil_append]
      have hsa := storeAll_join (SplitCfg.ofFlags f isBytes) rfl segs hp.ne hplain [] []
      have hd0 : dirStr ([] : List Name) = [] := rfl
      simp only [List.nil_append, hd0, List.length_nil] at hsa
      have e0 : ((0 : Nat) : Int) - 1 = -1 := by omega
      rw [e0] at hsa
      rw [hsa]
      simp only
      -- the rest of the pattern after the last separator is the last segment
      have hjs : joinSl segs = dirStr segs.dropLast ++ segs.getLast hp.ne := by
        conv => lhs; rw [← List.dropLast_concat_getLast hp.ne, joinSl_snoc]
      have hdrop : (joinSl segs).drop ((((dirStr segs.dropLast).length : Int) - 1 + 1).toNat) =
          segs.getLast hp.ne := by
        have e1 : ((((dirStr segs.dropLast).length : Int) - 1 + 1).toNat) = (dirStr segs.dropLast).length := by omega
        rw [e1, hjs]
        exact List.drop_left' rfl
      have hlast := hplain _ (List.getLast_mem hp.ne)
      have hlen : (((dirStr segs.dropLast).length : Int) - 1) < ((joinSl segs).length : Int) := by
        rw [hjs]; simp only [List.length_append]; omega
      have hne2 : (segs.getLast hp.ne).isEmpty = false := by
        cases hx : segs.getLast hp.ne with
        | nil => exact absurd hx hlast.1
        | cons _ _ => rfl
      have hpe : (joinSl segs).isEmpty = false := by
        cases hx : joinSl segs with
        | nil => exact absurd hx hpne
        | cons _ _ => rfl
      simp only [hdrop, hlen, hne2, Bool.not_false, and_self, if_true, hpe, Bool.false_eq_true, if_false]
      rw [store_plain _ rfl _ hlast.1 hlast.2 _ false (Or.inr trivial)]
      simp only
      rw [litParts_eq segs hp.ne]
      rfl
  rw [hstored]
  have hbase : (basePart (SplitCfg.ofFlags f isBytes)).isDrive = false := by
    rcases basePart_cases (SplitCfg.ofFlags f isBytes) with ⟨h, _, _⟩ | h <;> rw [h]
  obtain ⟨s1, r1, rfl⟩ : ∃ a b, segs = a :: b := by
    cases segs with
    | nil => exact absurd rfl hp.ne
    | cons a b => exact ⟨a, b, rfl⟩
  have hnb : needBase (SplitCfg.ofFlags f isBytes) (litParts (s1 :: r1)) = true := by
    have : (SplitCfg.ofFlags f isBytes).flags.extmatchbase = true := hem
    simp [needBase, this, litParts]
  have hgs : ((litParts (s1 :: r1)).head?.map (·.isGlobstar)).getD false = false := rfl
  simp only [withBase, hnb, hgs, Bool.not_false, Bool.and_true, if_true]
  simp [hbase]

/-! ### `WcParse` on literal text with separators, `extmatchbase` still set -/

theorem rootLoopE_pslash (cfg : Cfg) (h : PathUnix cfg) (fuel i : Nat) (rest : List Char) (ps : PS)
    (cur : List Item) (hinv : TopInvE ps) :
    rootLoop cfg (fuel + 1) ⟨i, '/' :: rest⟩ ps cur =
      rootLoop cfg fuel (consumeUnix ⟨i + 1, rest⟩)
        ({ ps.setStartDir with matchbase := false } : PS).updateDirState (.re (Frag.sepPlus false) :: cur) := by
  have hwin : cfg.win = false := by simp [Cfg.win, h.unix]
  have hcl : cleanUpInverse cfg ps.setStartDir cur false = (cur, ps.setStartDir) := by
    simp [cleanUpInverse, PS.setStartDir, hinv.inv0]
  conv => lhs; unfold rootLoop
  simp [It.next, slash_not_ext, h.pathname, hcl, consumePathSep, h.bslash, hwin]

theorem afterSep_E {ps : PS} (h : TopInvE ps) :
    TopInvE ({ ps.setStartDir with matchbase := false } : PS).updateDirState ∧
      ({ ps.setStartDir with matchbase := false } : PS).updateDirState.afterStart = true ∧
      ({ ps.setStartDir with matchbase := false } : PS).updateDirState.extmatchbase = ps.extmatchbase ∧
      ({ ps.setStartDir with matchbase := false } : PS).updateDirState.globstar = ps.globstar := by
  have e : ({ ps.setStartDir with matchbase := false } : PS).updateDirState =
      { ps with afterStart := true, dirStart := false, matchbase := false } := by
    simp [PS.updateDirState, PS.setStartDir, PS.setAfterStart]
  rw [e]
  exact ⟨⟨rfl, h.inList, h.invNest, h.mdd, h.inv0⟩, rfl, rfl, rfl⟩

/-- a separator is followed by something that is not a separator -/
def SepOK : List Char → Prop
  | [] => True
  | c :: r => (c = '/' → r.head? ≠ some '/') ∧ SepOK r

theorem pokToks_lit (cfg : Cfg) (s : List Char) (hp : ∀ c ∈ s, c = '/' ∨ c ∉ specials) : pokToks cfg (plainToks s) := by
  induction s with
  | nil => exact trivial
  | cons c cs ih =>
    refine ⟨?_, ih (fun x hx => hp x (List.mem_cons_of_mem _ hx))⟩
    right
    have hc : c ≠ '*' ∧ c ≠ '?' ∧ c ≠ '[' ∧ c ≠ '\\' := by
      rcases hp c List.mem_cons_self with rfl | h
      · decide
      · have := not_special h; exact ⟨this.1, this.2.1, this.2.2.1, this.2.2.2.2.1⟩
    refine ⟨rfl, hc.1, hc.2.1, hc.2.2.1, hc.2.2.2, ?_⟩
    intro _ _
    cases cs with
    | nil => exact trivial
    | cons d ds =>
      right
      rcases hp d (List.mem_cons_of_mem _ List.mem_cons_self) with rfl | h
      · decide
      · exact (not_special h).2.2.2.2.2.2.2.2.2.2.1

/-- **the loop of `root` on literal text with single separators**, from a state that may still
    carry `extmatchbase` -/
theorem rootLoopE_lit (cfg : Cfg) (h : PathUnix cfg) : ∀ (s : List Char), (∀ c ∈ s, c = '/' ∨ c ∉ specials) →
    SepOK s → ∀ (fuel i : Nat) (ps : PS) (cur : List Item) (st : LPos), TopInvE ps → ps.afterStart = st.after →
      (st = .sep → s.head? ≠ some '/') → s.length + 1 ≤ fuel →
      ∃ ps', rootLoop cfg fuel ⟨i, s⟩ ps cur = (ps', ((pathRes cfg st s).map Item.re).reverse ++ cur) ∧
        TopInvE ps' ∧ ps'.extmatchbase = ps.extmatchbase ∧ ps'.globstar = ps.globstar := by
  intro s
  induction s with
  | nil =>
    intro _ _ fuel i ps cur st hinv _ _ hf
    cases fuel with
    | zero => simp at hf
    | succ f => exact ⟨ps, by simp [rootLoop, It.next, pathRes], hinv, rfl, rfl⟩
  | cons c r ih =>
    intro hp hso fuel i ps cur st hinv haft hsep hf
    obtain ⟨f, rfl⟩ : ∃ f, fuel = f + 1 := ⟨fuel - 1, by simp at hf; omega⟩
    have hr : ∀ x ∈ r, x = '/' ∨ x ∉ specials := fun x hx => hp x (List.mem_cons_of_mem _ hx)
    obtain ⟨hso1, hso2⟩ := hso
    by_cases hsl : c = '/'
    · subst hsl
      have hst : st ≠ .sep := fun e => hsep e (by simp)
      have hrh := hso1 rfl
      rw [rootLoopE_pslash cfg h f i r ps cur hinv]
      have hcu : consumeUnix ⟨i + 1, r⟩ = ⟨i + 1, r⟩ := by
        simp [consumeUnix, dropWhileCount_ne r (i + 1) hrh]
      rw [hcu]
      obtain ⟨j1, j2, j3, j4⟩ := afterSep_E hinv
      obtain ⟨ps', e1, e2, e3, e4⟩ := ih hr hso2 f (i + 1) _ (.re (Frag.sepPlus false) :: cur) .sep j1
        (by rw [j2]; rfl) (fun _ => hrh) (by simp at hf; omega)
      refine ⟨ps', ?_, e2, e3.trans j3, e4.trans j4⟩
      rw [e1]
      simp [pathRes, hst]
    · obtain ⟨i1, i2, i3, _, i5⟩ := updateDirState_E hinv
      have hc := not_special ((hp c List.mem_cons_self).resolve_left hsl)
      by_cases hd : c = '.'
      · subst hd
        rw [rootLoop_pdot, handleDot_clr]
        have hdot := handleDot_toks cfg h (clrPS ps) hinv.clr (i + 1) (plainToks r) (pokToks_lit cfg r hr)
        rw [printToks_plain, tokChars_plain] at hdot
        rw [hdot]
        obtain ⟨ps', e1, e2, e3, e4⟩ := ih hr hso2 f (i + 1) _
          (.re (dotRe cfg (clrPS ps).afterStart r) :: cur) .mid i1 (by rw [i2]; rfl) (fun e => by cases e)
          (by simp at hf; omega)
        refine ⟨ps', ?_, e2, e3.trans i3, e4.trans i5⟩
        rw [e1]
        have : (clrPS ps).afterStart = st.after := haft
        simp [pathRes, this]
      · have hhead : r.head? ≠ some '(' := by
          cases r with
          | nil => simp
          | cons d r' =>
            rcases hr d List.mem_cons_self with rfl | hh
            · simp
            · simpa using (not_special hh).2.2.2.2.2.2.2.2.2.2.1
        rw [rootLoopE_pplain cfg f i c r ps cur hinv hc.1 hc.2.1 hc.2.2.1 hc.2.2.2.2.1 hd hsl hhead]
        obtain ⟨ps', e1, e2, e3, e4⟩ := ih hr hso2 f (i + 1) _ (.re (.lit c) :: cur) .mid i1 (by rw [i2]; rfl)
          (fun e => by cases e) (by simp at hf; omega)
        refine ⟨ps', ?_, e2, e3.trans i3, e4.trans i5⟩
        rw [e1]
        simp [pathRes, hsl, hd]

theorem sepOK_joinSl (segs : List Name) (hc : ∀ s ∈ segs, CompOK s) : SepOK (joinSl segs) := by
  have comp : ∀ (a : Name) (rest : List Char), (∀ x ∈ a, x ≠ '/') → SepOK rest → SepOK (a ++ rest) := by
    intro a rest ha hrest
    induction a with
    | nil => exact hrest
    | cons x a' ih =>
      refine ⟨fun e => absurd e (ha x List.mem_cons_self), ih (fun y hy => ha y (List.mem_cons_of_mem _ hy))⟩
  induction segs with
  | nil => exact trivial
  | cons a r ih =>
    have ha := (hc a List.mem_cons_self).2
    have hr := ih (fun s hs => hc s (List.mem_cons_of_mem _ hs))
    by_cases hre : r = []
    · subst hre
      simpa [joinSl] using comp a [] ha trivial
    · rw [joinSl_cons _ _ hre]
      refine comp a _ ha ⟨fun _ => joinSl_head r (fun s hs => hc s (List.mem_cons_of_mem _ hs)), hr⟩

/-- **`root` on a literal pattern `s₁/…/sₖ`** (path mode, Unix rules, REALPATH), whatever
    `matchbase` / `extmatchbase` say: `extmatchbase` survives (the pattern is not rooted) -/
theorem rootE_lits (cfg : Cfg) (h : PathUnix cfg) (hrp : cfg.realpath = true) (drive : List Char → DriveInfo)
    (segs : List Name) (hp : PlainSegs segs) (ps : PS) (hinv : TopInvE ps) :
    ∃ ps', root cfg drive (joinSl segs) ps [.empty] =
      .ok (ps', .re (Frag.pathTrail false) :: (((pathRes cfg .start (joinSl segs)).map Item.re).reverse ++
        [.empty, .re Frag.noRoot, .empty])) ∧ ps'.extmatchbase = ps.extmatchbase := by
  have hwin : cfg.win = false := by simp [Cfg.win, h.unix]
  have hhd : (joinSl segs).head? ≠ some '/' := joinSl_head segs hp.compOK
  rw [root_eq]
  unfold rootPre rootPost
  simp only [h.wdd, Bool.false_eq_true, ite_false, h.pathname, Bool.true_and, hhd, decide_false, Bool.and_false,
    Bool.not_false, hrp, ite_true]
  have hinv' : TopInvE ps.setAfterStart := ⟨rfl, hinv.inList, hinv.invNest, hinv.mdd, hinv.inv0⟩
  obtain ⟨ps', e1, e2, e3, _⟩ := rootLoopE_lit cfg h (joinSl segs) (joinSl_chars segs hp)
    (sepOK_joinSl segs hp.compOK) ((joinSl segs).length + 1) 0 ps.setAfterStart
    [.empty, .re Frag.noRoot, .empty] .start hinv' rfl (fun e => by cases e) (Nat.le_refl _)
  refine ⟨ps', ?_, e3⟩
  simp only [e1, cleanUpInverse, e2.inv0, ite_true, hwin]

theorem parseBody_emLits (cfg : Cfg) (h : PathUnix cfg) (hrp : cfg.realpath = true)
    (drive : List Char → DriveInfo) (segs : List Name) (hp : PlainSegs segs) (ps2 : PS) (hinv : TopInvE ps2)
    (he : ps2.extmatchbase = true) (pre : List Item) :
    parseBody cfg drive (joinSl segs) ps2 pre =
      .ok { items := pre.reverse ++ ([.empty, .re Frag.noRoot, .empty] ++ (pathRes cfg .start (joinSl segs)).map Item.re ++
              [.re (Frag.pathTrail false)]), ci := !cfg.caseSensitive } := by
  have hpne := joinSl_ne_nil segs hp.ne hp.compOK
  have hbs : joinSl segs ≠ ['\\'] := by
    intro e
    have := joinSl_chars segs hp '\\' (by rw [e]; simp)
    rcases this with h1 | h1
    · exact absurd h1 (by decide)
    · exact h1 (by decide)
  unfold parseBody
  have hne : (joinSl segs).isEmpty = false := by
    cases hj : joinSl segs with
    | nil => exact absurd hj hpne
    | cons _ _ => rfl
  simp only [hbs, ite_false, hne, Bool.false_eq_true]
  obtain ⟨ps', hr, he2⟩ := rootE_lits cfg h hrp drive segs hp ps2 hinv
  rw [hr]
  have he' : ps'.extmatchbase = true := by rw [he2]; exact he
  simp [he']

/-- **`WcParse.parse` on a literal pattern `s₁/…/sₖ` under `_EXTMATCHBASE`** -/
theorem parseItems_emLits (cfg : Cfg) (h : PathUnix cfg) (hrp : cfg.realpath = true)
    (hcap : cfg.globstarCapture = true) (hdot : cfg.dot = false) (han : cfg.anchor = false)
    (hem : cfg.extmatchbase0 = true) (hgl : (cfg.globstarlong && cfg.follow) = false)
    (drive : List Char → DriveInfo) (segs : List Name) (hp : PlainSegs segs) :
    parseItems cfg drive (joinSl segs) = .ok { items := emItems cfg (joinSl segs), ci := !cfg.caseSensitive } := by
  unfold parseItems
  simp only [anchorStep, han, Bool.false_eq_true, ite_false]
  simp only [parsePrepend, hem, Bool.or_true, ite_true, hgl, Bool.false_eq_true, ite_false]
  rw [root_starstar cfg h hrp hcap hdot drive _ ⟨rfl, rfl, rfl, rfl, rfl⟩ rfl]
  simp only
  rw [parseBody_emLits cfg h hrp drive segs hp _ ⟨rfl, rfl, rfl, rfl, rfl⟩ rfl]
  simp [emItems]

end WcModel.PathlibViews

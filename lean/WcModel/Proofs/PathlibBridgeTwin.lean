import WcModel.Proofs.ParseWF
/-
  C16 bridge, part 1: `_EXTMATCHBASE` and `_NOABSOLUTE` are passengers of `root`.

  * The CONFIGURATION fields `noAbs` and `extmatchbase0` are read in exactly two places of the
    faithful port: `root` raises for a rooted pattern under `noAbs` (`rootPost`), and `_parse`
    initialises the parser state from `extmatchbase0` (`parseItems`).  No function of the pass below
    them reads either (`cfgE`).
  * The STATE field `extmatchbase` is read by `_parse` only (`parsePrepend`, `parseBody`) and written
    only by `root` for a rooted pattern and by the `_ANCHOR` step.  So every function of the pass
    COMMUTES with setting the field (`setE`) — on every text (unlike `matchbase`, which the loop
    clears at a separator: `Proofs/PassPrintPathNeg.lean` Part 6).

  `rootLoop_E` / `root_E`: the loop of `root` (and `root` itself, on a pattern that is not rooted)
  run with the two configuration fields changed and `extmatchbase` set in the state is the run
  without, the field set in the state it returns.  This is what lets the theorems about the pass
  that assume `extmatchbase0 = false`, `noAbs = false` (`PPP.PathX`) and a state with
  `extmatchbase = false` (`PP.Inv.emb`) speak about

    * `PurePath.match`: the pattern run of `_parse` under `_EXTMATCHBASE`, which starts from the state
      the implicit `**` prefix left (`extmatchbase` still set);
    * `Path.rglob` / `Path.glob`: `_GlobSplit` compiles every magic part with `_NOABSOLUTE` set.
-/
namespace WcModel.PB

def cfgE (cfg : Cfg) (a e : Bool) : Cfg := { cfg with noAbs := a, extmatchbase0 := e }
def setE (b : Bool) (ps : PS) : PS := { ps with extmatchbase := b }

@[simp] theorem cfgE_pathname (cfg : Cfg) (a e : Bool) : (cfgE cfg a e).pathname = cfg.pathname := rfl
@[simp] theorem cfgE_isBytes (cfg : Cfg) (a e : Bool) : (cfgE cfg a e).isBytes = cfg.isBytes := rfl
@[simp] theorem cfgE_win (cfg : Cfg) (a e : Bool) : (cfgE cfg a e).win = cfg.win := rfl
@[simp] theorem cfgE_extend (cfg : Cfg) (a e : Bool) : (cfgE cfg a e).extend = cfg.extend := rfl
@[simp] theorem cfgE_needChar (cfg : Cfg) (a e : Bool) : (cfgE cfg a e).needChar = cfg.needChar := rfl
@[simp] theorem cfgE_eop (cfg : Cfg) (a e : Bool) : (cfgE cfg a e).eop = cfg.eop := rfl
@[simp] theorem cfgE_capture (cfg : Cfg) (a e : Bool) : (cfgE cfg a e).capture = cfg.capture := rfl
@[simp] theorem cfgE_bslashAbort (cfg : Cfg) (a e : Bool) : (cfgE cfg a e).bslashAbort = cfg.bslashAbort := rfl
@[simp] theorem cfgE_unix (cfg : Cfg) (a e : Bool) : (cfgE cfg a e).unix = cfg.unix := rfl
@[simp] theorem cfgE_dot (cfg : Cfg) (a e : Bool) : (cfgE cfg a e).dot = cfg.dot := rfl
@[simp] theorem cfgE_nodotdir (cfg : Cfg) (a e : Bool) : (cfgE cfg a e).nodotdir = cfg.nodotdir := rfl
@[simp] theorem cfgE_globstarlong (cfg : Cfg) (a e : Bool) : (cfgE cfg a e).globstarlong = cfg.globstarlong := rfl
@[simp] theorem cfgE_globstarCapture (cfg : Cfg) (a e : Bool) :
    (cfgE cfg a e).globstarCapture = cfg.globstarCapture := rfl
@[simp] theorem cfgE_realpath (cfg : Cfg) (a e : Bool) : (cfgE cfg a e).realpath = cfg.realpath := rfl
@[simp] theorem cfgE_wdd (cfg : Cfg) (a e : Bool) : (cfgE cfg a e).winDriveDetect = cfg.winDriveDetect := rfl
@[simp] theorem cfgE_noAbs (cfg : Cfg) (a e : Bool) : (cfgE cfg a e).noAbs = a := rfl
@[simp] theorem cfgE_res (cfg : Cfg) (a e : Bool) : restrictExtendedSlash (cfgE cfg a e) = restrictExtendedSlash cfg := rfl

@[simp] theorem setE_afterStart (b : Bool) (ps : PS) : (setE b ps).afterStart = ps.afterStart := rfl
@[simp] theorem setE_dirStart (b : Bool) (ps : PS) : (setE b ps).dirStart = ps.dirStart := rfl
@[simp] theorem setE_inList (b : Bool) (ps : PS) : (setE b ps).inList = ps.inList := rfl
@[simp] theorem setE_invNest (b : Bool) (ps : PS) : (setE b ps).invNest = ps.invNest := rfl
@[simp] theorem setE_invExt (b : Bool) (ps : PS) : (setE b ps).invExt = ps.invExt := rfl
@[simp] theorem setE_mdd (b : Bool) (ps : PS) : (setE b ps).matchDotDir = ps.matchDotDir := rfl
@[simp] theorem setE_globstar (b : Bool) (ps : PS) : (setE b ps).globstar = ps.globstar := rfl
@[simp] theorem setE_mb (b : Bool) (ps : PS) : (setE b ps).matchbase = ps.matchbase := rfl
@[simp] theorem setE_emb (b : Bool) (ps : PS) : (setE b ps).extmatchbase = b := rfl

theorem setE_self (ps : PS) : setE ps.extmatchbase ps = ps := rfl
theorem setE_setE (b b' : Bool) (ps : PS) : setE b (setE b' ps) = setE b ps := rfl

/-! ### the small pieces -/

theorem restrictSequence_E (cfg : Cfg) (a e b : Bool) (ps : PS) :
    restrictSequence (cfgE cfg a e) (setE b ps) = ((restrictSequence cfg ps).1, setE b (restrictSequence cfg ps).2) := rfl

theorem seqLoop_cfgE (cfg : Cfg) (a e : Bool) : ∀ (fuel : Nat) (c : Char) (it : It) (st : SeqSt),
    seqLoop (cfgE cfg a e) fuel c it st = seqLoop cfg fuel c it st := by
  intro fuel
  induction fuel with
  | zero => intro c it st; rfl
  | succ n ih =>
    intro c it st
    rw [seqLoop, seqLoop]
    simp only [ih]
    rfl

theorem sequence_E (cfg : Cfg) (a e b : Bool) (ps : PS) (it : It) :
    sequence (cfgE cfg a e) (setE b ps) it =
      (sequence cfg ps it).map (fun x => (x.1, setE b x.2.1, x.2.2)) := by
  unfold sequence
  simp only [seqLoop_cfgE]
  cases it.next with
  | none => rfl
  | some v =>
    obtain ⟨c, it1⟩ := v
    dsimp only
    split
    · rfl
    · split
      · rfl
      · split
        · rfl
        · simp only [cfgE_pathname, setE_afterStart, restrictSequence_E, cfgE_isBytes]
          by_cases hc : (cfg.pathname || ps.afterStart) = true
          · simp only [hc, if_true, Option.map]
          · simp only [hc, if_false, Option.map]; rfl

def mapRef (b : Bool) : RefOut → RefOut
  | .val v it ps => .val v it (setE b ps)
  | x => x

theorem references_E (cfg : Cfg) (a e b : Bool) (ps : PS) (it : It) :
    references (cfgE cfg a e) (setE b ps) it = mapRef b (references cfg ps it) := by
  unfold references
  cases it.next with
  | none => rfl
  | some v =>
    obtain ⟨c, it1⟩ := v
    simp only [cfgE_bslashAbort, cfgE_unix, cfgE_pathname, cfgE_win, cfgE_res, setE_inList]
    have refl1 : RefOut.val
          (if (!ps.inList) = true then (Frag.sepPlus cfg.win, (setE b ps).setStartDir)
            else (match restrictExtendedSlash cfg with
                  | some g => g.cat (Frag.sep cfg.win)
                  | none => Frag.sep cfg.win, setE b ps)).fst it1
          (if (!ps.inList) = true then (Frag.sepPlus cfg.win, (setE b ps).setStartDir)
            else (match restrictExtendedSlash cfg with
                  | some g => g.cat (Frag.sep cfg.win)
                  | none => Frag.sep cfg.win, setE b ps)).snd =
        mapRef b (RefOut.val
          (if (!ps.inList) = true then (Frag.sepPlus cfg.win, ps.setStartDir)
            else (match restrictExtendedSlash cfg with
                  | some g => g.cat (Frag.sep cfg.win)
                  | none => Frag.sep cfg.win, ps)).fst it1
          (if (!ps.inList) = true then (Frag.sepPlus cfg.win, ps.setStartDir)
            else (match restrictExtendedSlash cfg with
                  | some g => g.cat (Frag.sep cfg.win)
                  | none => Frag.sep cfg.win, ps)).snd) := by
      rcases Bool.eq_false_or_eq_true ps.inList with hl | hl <;> simp only [hl] <;> rfl
    by_cases h1 : c = '\\'
    · simp only [h1, if_true]
      rcases Bool.eq_false_or_eq_true cfg.bslashAbort with hb | hb <;> simp only [hb]
      · exact refl1
      · rcases Bool.eq_false_or_eq_true cfg.unix with hu | hu <;> simp only [hu] <;> rfl
    · simp only [h1, if_false]
      by_cases h2 : c = '/'
      · simp only [h2, if_true]
        rcases Bool.eq_false_or_eq_true cfg.pathname with hb | hb <;> simp only [hb]
        · exact refl1
        · rfl
      · simp only [h2, if_false]
        by_cases h3 : c = '.'
        · simp only [h3, if_true]; rfl
        · simp only [h3, if_false]; rfl

theorem referencesSeq_cfgE (cfg : Cfg) (a e : Bool) (it : It) : referencesSeq (cfgE cfg a e) it = referencesSeq cfg it := rfl

theorem dotScan_cfgE (cfg : Cfg) (a e il : Bool) : ∀ (fuel : Nat) (it : It) (x y : Bool),
    dotScan (cfgE cfg a e) il fuel it x y = dotScan cfg il fuel it x y := by
  intro fuel
  induction fuel with
  | zero => intro it x y; rfl
  | succ n ih =>
    intro it x y
    rw [dotScan, dotScan]
    simp only [ih]
    rfl

theorem handleDot_E (cfg : Cfg) (a e b : Bool) (ps : PS) (it : It) :
    handleDot (cfgE cfg a e) (setE b ps) it = handleDot cfg ps it := by
  unfold handleDot
  simp only [dotScan_cfgE]
  rfl

theorem qmarkItem_E (cfg : Cfg) (a e b : Bool) (ps : PS) :
    qmarkItem (cfgE cfg a e) (setE b ps) = ((qmarkItem cfg ps).1, setE b (qmarkItem cfg ps).2) := rfl

theorem cleanUpGo_cfgE (cfg : Cfg) (a e nested : Bool) : ∀ (rev done : List Item) (n : Nat),
    cleanUpGo (cfgE cfg a e) nested rev done n = cleanUpGo cfg nested rev done n := by
  intro rev
  induction rev with
  | nil => intro done n; rfl
  | cons x rest ih =>
    intro done n
    cases x <;> simp only [cleanUpGo, ih, cfgE_capture, cfgE_eop]
    all_goals rfl

theorem cleanUpInverse_E (cfg : Cfg) (a e b : Bool) (ps : PS) (cur : List Item) (nested : Bool) :
    cleanUpInverse (cfgE cfg a e) (setE b ps) cur nested =
      ((cleanUpInverse cfg ps cur nested).1, setE b (cleanUpInverse cfg ps cur nested).2) := by
  unfold cleanUpInverse
  simp only [setE_invExt, cleanUpGo_cfgE]
  split <;> rfl

theorem updateDirState_E (b : Bool) (ps : PS) : (setE b ps).updateDirState = setE b ps.updateDirState := by
  obtain ⟨a1, a2, a3, a4, a5, a6, a7, a8, a9⟩ := ps
  cases a1 <;> cases a2 <;> rfl

theorem consumePathSep_cfgE (cfg : Cfg) (a e : Bool) : consumePathSep (cfgE cfg a e) = consumePathSep cfg := rfl

/-! ### `_handle_star` -/

def mapSel (b : Bool) (r : Bool × Bool × It × PS) : Bool × Bool × It × PS := (r.1, r.2.1, r.2.2.1, setE b r.2.2.2)

theorem hsStar_E (cfg : Cfg) (a e b : Bool) (ps : PS) : hsStar (cfgE cfg a e) (setE b ps) = hsStar cfg ps := rfl

/-- the look-ahead of `hsSel` (second / third star) -/
def hsPeek (cfg : Cfg) (c0 : Bool) (it : It) : Bool × Bool × It × It :=
  match it.next with
  | none => (true, c0, it, it)
  | some (c, it1) =>
    if c != '*' then (true, c0, it, it)
    else if cfg.globstarlong then
      match it1.next with
      | none => (false, c0, it1, it)
      | some (c2, it2) => if c2 != '*' then (false, c0, it1, it) else (false, false, it2, it1)
    else (false, c0, it1, it)

/-- `hsSel` after the look-ahead -/
def hsAfter (cfg : Cfg) (ps : PS) (pk : Bool × Bool × It × It) : Bool × Bool × It × PS :=
  let (skip, capture, it, prev) := pk
  if skip then (false, capture, it, ps)
  else
    match it.next with
    | none => (true, capture, it, ps)
    | some (c, it1) =>
      if c = '\\' then
        match referencesSeq cfg it1 with
        | .val _ _ => (false, capture, it, ps)
        | .dot _ => (false, capture, it, ps)
        | .pathname => (true, capture, it1.advance 1, { ps with matchbase := false })
        | .stop => (true, capture, it1, ps)
      else if c = '/' then (true, capture, it1, { ps with matchbase := false })
      else if c = '(' && cfg.extend then (false, capture, prev, ps)
      else (false, capture, it, ps)

theorem hsSel_eq (cfg : Cfg) (ps : PS) (it : It) (c0 : Bool) :
    hsSel cfg ps it c0 =
      if ps.afterStart && ps.globstar && !ps.inList then hsAfter cfg ps (hsPeek cfg c0 it)
      else (false, c0, it, ps) := rfl

theorem hsPeek_cfgE (cfg : Cfg) (a e c0 : Bool) (it : It) : hsPeek (cfgE cfg a e) c0 it = hsPeek cfg c0 it := rfl

theorem hsAfter_E (cfg : Cfg) (a e b : Bool) (ps : PS) (pk : Bool × Bool × It × It) :
    hsAfter (cfgE cfg a e) (setE b ps) pk = mapSel b (hsAfter cfg ps pk) := by
  obtain ⟨skip, capture, it', prev⟩ := pk
  unfold hsAfter
  simp only [cfgE_extend, referencesSeq_cfgE]
  cases skip with
  | true => rfl
  | false =>
    simp only [Bool.false_eq_true, if_false]
    cases it'.next with
    | none => rfl
    | some v =>
      obtain ⟨c, it1⟩ := v
      dsimp only
      by_cases h1 : c = '\\'
      · simp only [h1, if_true]
        cases referencesSeq cfg it1 <;> rfl
      · simp only [h1, if_false]
        by_cases h2 : c = '/'
        · simp only [h2, if_true]; rfl
        · simp only [h2, if_false]
          by_cases h3 : (decide (c = '(') && cfg.extend) = true
          · simp only [h3, if_true]; rfl
          · simp only [h3, if_false]; rfl

theorem hsSel_E (cfg : Cfg) (a e b : Bool) (ps : PS) (it : It) (c0 : Bool) :
    hsSel (cfgE cfg a e) (setE b ps) it c0 = mapSel b (hsSel cfg ps it c0) := by
  rw [hsSel_eq, hsSel_eq]
  simp only [setE_afterStart, setE_globstar, setE_inList, hsPeek_cfgE, hsAfter_E]
  by_cases h : (ps.afterStart && ps.globstar && !ps.inList) = true
  · simp only [h, if_true]
  · simp only [h, if_false]; rfl

theorem hsBody_E (cfg : Cfg) (a e b : Bool) (cur : List Item) (star G : Re) (t : Bool × Bool × It × PS) :
    hsBody (cfgE cfg a e) cur star G (mapSel b t) =
      (setE b (hsBody cfg cur star G t).1, (hsBody cfg cur star G t).2.1, (hsBody cfg cur star G t).2.2) := by
  obtain ⟨isGlob, capture, it, ps⟩ := t
  unfold hsBody mapSel
  simp only [cfgE_win, cfgE_needChar, cfgE_extend, setE_afterStart, consumePathSep_cfgE]
  cases isGlob with
  | false =>
    simp only [Bool.not_false, if_true]
    rfl
  | true =>
    simp only [Bool.not_true, Bool.false_eq_true, if_false]
    cases cur with
    | nil => rfl
    | cons last before =>
      dsimp only
      by_cases h : Item.isDiv cfg.win last = true
      · simp only [h, if_true]; rfl
      · simp only [h, if_false]; rfl

theorem handleStar_E (cfg : Cfg) (a e b : Bool) (ps : PS) (it : It) (cur : List Item) :
    handleStar (cfgE cfg a e) (setE b ps) it cur =
      (setE b (handleStar cfg ps it cur).1, (handleStar cfg ps it cur).2.1, (handleStar cfg ps it cur).2.2) := by
  rw [handleStar_eq, handleStar_eq, hsStar_E, hsSel_E]
  exact hsBody_E cfg a e b cur _ _ _

/-! ### `parse_extend` -/

theorem peEnter_E (b : Bool) (ps : PS) (c : Char) (rd : Bool) : peEnter (setE b ps) c rd = setE b (peEnter ps c rd) := by
  cases rd <;> rfl

theorem peFinish_E (b : Bool) (t ps : PS) (s : Bool) (it : It) (cur : List Item) :
    peFinish (setE b t) s (setE b ps) it cur =
      ((peFinish t s ps it cur).1, setE b (peFinish t s ps it cur).2.1, (peFinish t s ps it cur).2.2) := by
  obtain ⟨a1, a2, il, iv, a5, a6, a7, a8, a9⟩ := t
  unfold peFinish
  cases il <;> cases iv <;> cases s <;> rfl

theorem peFail_E (b : Bool) (t ps : PS) (it : It) (cur : List Item) :
    peFail (setE b t) it cur (setE b ps) =
      ((peFail t it cur ps).1, setE b (peFail t it cur ps).2.1, (peFail t it cur ps).2.2) :=
  peFinish_E b t { ps with invExt := t.invExt } false it cur

theorem peBuild_E (cfg : Cfg) (a e b : Bool) (ps0 : PS) (lt : Char) (cur : List Item) (ps : PS) (body : List Item) :
    peBuild (cfgE cfg a e) (setE b ps0) lt cur (setE b ps) body =
      ((peBuild cfg ps0 lt cur ps body).1, setE b (peBuild cfg ps0 lt cur ps body).2) := by
  unfold peBuild
  simp only [setE_afterStart, cfgE_capture, cfgE_pathname, cfgE_win, cfgE_dot, cfgE_needChar, setE_mdd, setE_invExt]
  by_cases hc : cfg.capture = true <;> by_cases h1 : lt = '?' <;> by_cases h2 : lt = '*' <;> by_cases h3 : lt = '+' <;>
    by_cases h4 : lt = '@' <;> simp only [hc, h1, h2, h3, h4, if_true, if_false] <;> rfl

theorem peClose_E (cfg : Cfg) (a e b : Bool) (ps0 : PS) (it : It) (r : List Item × PS) :
    peClose (cfgE cfg a e) (setE b ps0) it (r.1, setE b r.2) =
      ((peClose cfg ps0 it r).1, setE b (peClose cfg ps0 it r).2.1, (peClose cfg ps0 it r).2.2) := by
  obtain ⟨cur, ps⟩ := r
  unfold peClose
  simp only [setE_inList, setE_invNest, cleanUpInverse_E]
  split
  · exact peFinish_E b ps0 _ true it _
  · exact peFinish_E b ps0 ps true it cur

def mapPE (b : Bool) (r : Bool × PS × It × List Item) : Bool × PS × It × List Item := (r.1, setE b r.2.1, r.2.2)

def mapEL (b : Bool) : Except PS (PS × It × List Item) → Except PS (PS × It × List Item)
  | .ok (ps, it, ext) => .ok (setE b ps, it, ext)
  | .error ps => .error (setE b ps)

/-- the two claims, at one fuel -/
def PEc (cfg : Cfg) (a e : Bool) (n : Nat) : Prop :=
  ∀ (lt : Char) (it : It) (ps : PS) (cur : List Item) (rd b : Bool),
    parseExtend (cfgE cfg a e) n lt it (setE b ps) cur rd = mapPE b (parseExtend cfg n lt it ps cur rd)

def ELc (cfg : Cfg) (a e : Bool) (n : Nat) : Prop :=
  ∀ (it : It) (ps : PS) (ext : List Item) (x y b : Bool),
    extLoop (cfgE cfg a e) n it (setE b ps) ext x y = mapEL b (extLoop cfg n it ps ext x y)

theorem elCont_E (cfg : Cfg) (a e : Bool) (n : Nat) (hel : ELc cfg a e n) (c : Char) (x y : Bool) (ps : PS) (it : It)
    (ext : List Item) (upd b : Bool) :
    elCont (cfgE cfg a e) n c x y (setE b ps) it ext upd = mapEL b (elCont cfg n c x y ps it ext upd) := by
  unfold elCont
  have hu : (if upd = true then (setE b ps).updateDirState else setE b ps) =
      setE b (if upd = true then ps.updateDirState else ps) := by
    cases upd
    · rfl
    · simp only [if_true, updateDirState_E]
  simp only [hu]
  split
  · rfl
  · exact hel it _ ext x y b

theorem elOther_E (cfg : Cfg) (a e : Bool) (n : Nat) (hel : ELc cfg a e n) (c : Char) (x y : Bool) (ps : PS) (it : It)
    (ext : List Item) (b : Bool) :
    elOther (cfgE cfg a e) n c x y (setE b ps) it ext = mapEL b (elOther cfg n c x y ps it ext) := by
  have hc := elCont_E cfg a e n hel c x y
  unfold elOther
  simp only [handleStar_E, handleDot_E, qmarkItem_E, cfgE_res, cfgE_win, cleanUpInverse_E, references_E, sequence_E,
    setE_afterStart, setE_invNest, cfgE_dot, cfgE_nodotdir]
  split
  · exact hc _ _ _ true b
  split
  · by_cases ha : ps.afterStart = true
    · simp only [ha, if_true]
      exact hc ({ ps with matchDotDir := cfg.dot && !cfg.nodotdir } : PS).resetDirTrack it _ true b
    · simp only [ha, if_false]
      exact hc ps it _ true b
  split
  · exact hc _ it _ true b
  split
  · exact hc ps it _ true b
  split
  · cases x <;> cases hn : ps.invNest <;> simp only [Bool.false_eq_true, if_true, if_false]
    · exact hc ps it _ true b
    · exact hc (cleanUpInverse cfg ps ext y).2 it _ true b
    · exact hc ps.setStartDir it _ true b
    · exact hc (cleanUpInverse cfg ps ext y).2.setStartDir it _ true b
  split
  · cases references cfg ps it with
    | val v it' ps' => exact hc ps' it' _ true b
    | dot it' => exact hc ps it' ext false b
    | stop => exact hc ps it ext true b
  split
  · cases sequence cfg ps it with
    | none => exact hc ps it _ true b
    | some r =>
      obtain ⟨r1, ps', it'⟩ := r
      exact hc ps' it' _ true b
  split
  · exact hc ps it _ true b
  · exact hc ps it ext true b

theorem pe_el_E (cfg : Cfg) (a e : Bool) : ∀ n, PEc cfg a e n ∧ ELc cfg a e n := by
  intro n
  induction n with
  | zero =>
    constructor
    · intro lt it ps cur rd b; simp only [parseExtend]; rfl
    · intro it ps ext x y b; simp only [extLoop]; rfl
  | succ n ih =>
    constructor
    · intro lt it ps cur rd b
      rw [parseExtend_succ, parseExtend_succ]
      cases it.next with
      | none =>
        simp only [peEnter_E]
        exact peFail_E b ps _ it cur
      | some v =>
        obtain ⟨c, it1⟩ := v
        simp only [peEnter_E, setE_afterStart, setE_invNest]
        split
        · exact peFail_E b ps _ it cur
        · rw [ih.2 it1 _ [] ps.afterStart ps.invNest b]
          cases extLoop cfg n it1 (peEnter ps lt rd) [] ps.afterStart ps.invNest with
          | error ps' => exact peFail_E b ps ps' it cur
          | ok r =>
            obtain ⟨ps2, it2, extended⟩ := r
            simp only [mapEL, peBuild_E]
            exact peClose_E cfg a e b ps it2 _
    · intro it ps ext x y b
      rw [extLoop_succ, extLoop_succ]
      cases it.next with
      | none => rfl
      | some v =>
        obtain ⟨c, it1⟩ := v
        simp only [cfgE_extend]
        by_cases hx : (cfg.extend && decide (c ∈ extTypes)) = true
        · simp only [hx, if_true, ih.1 c it1 ps ext false b]
          obtain ⟨s, ps', it', ext'⟩ := parseExtend cfg n c it1 ps ext false
          cases s with
          | true => exact elCont_E cfg a e n ih.2 c x y ps' it' ext' true b
          | false => exact elOther_E cfg a e n ih.2 c x y ps' it1 ext b
        · simp only [hx, Bool.false_eq_true, if_false]
          exact elOther_E cfg a e n ih.2 c x y ps it1 ext b

theorem parseExtend_E (cfg : Cfg) (a e : Bool) (n : Nat) (lt : Char) (it : It) (ps : PS) (cur : List Item) (rd b : Bool) :
    parseExtend (cfgE cfg a e) n lt it (setE b ps) cur rd = mapPE b (parseExtend cfg n lt it ps cur rd) :=
  (pe_el_E cfg a e n).1 lt it ps cur rd b

/-! ### the top-level loop -/

theorem rlOther_E (cfg : Cfg) (a e : Bool) (n : Nat)
    (ih : ∀ (it : It) (ps : PS) (cur : List Item) (b : Bool), rootLoop (cfgE cfg a e) n it (setE b ps) cur =
      (setE b (rootLoop cfg n it ps cur).1, (rootLoop cfg n it ps cur).2))
    (c : Char) (ps : PS) (it : It) (cur : List Item) (b : Bool) :
    rlOther (cfgE cfg a e) n c (setE b ps) it cur =
      (setE b (rlOther cfg n c ps it cur).1, (rlOther cfg n c ps it cur).2) := by
  unfold rlOther
  simp only [handleStar_E, handleDot_E, qmarkItem_E, cfgE_pathname, cfgE_win, cleanUpInverse_E, references_E, sequence_E,
    consumePathSep_cfgE, updateDirState_E]
  have hmb : ∀ q : PS, ({ setE b q with matchbase := false } : PS) = setE b { q with matchbase := false } := fun _ => rfl
  split
  · exact ih _ _ _ b
  split
  · exact ih _ _ _ b
  split
  · exact ih _ _ _ b
  split
  · split
    · have : (setE b ps).setStartDir = setE b ps.setStartDir := rfl
      simp only [this, cleanUpInverse_E, hmb, updateDirState_E]
      exact ih _ _ _ b
    · exact ih _ _ _ b
  split
  · cases references cfg ps it with
    | val v it' ps' =>
      simp only [mapRef, setE_dirStart]
      by_cases hd : ps'.dirStart = true
      · simp only [hd, if_true, cleanUpInverse_E, hmb, updateDirState_E]
        exact ih _ _ _ b
      · simp only [hd, if_false, updateDirState_E]
        exact ih _ _ _ b
    | dot it' => exact ih _ _ _ b
    | stop => exact ih _ _ _ b
  split
  · cases sequence cfg ps it with
    | none => exact ih _ _ _ b
    | some r =>
      obtain ⟨r1, ps', it'⟩ := r
      simp only [Option.map, updateDirState_E]
      exact ih _ _ _ b
  · exact ih _ _ _ b

/-- **the top-level loop neither reads the two configuration fields nor touches `extmatchbase`** -/
theorem rootLoop_E (cfg : Cfg) (a e : Bool) : ∀ (n : Nat) (it : It) (ps : PS) (cur : List Item) (b : Bool),
    rootLoop (cfgE cfg a e) n it (setE b ps) cur = (setE b (rootLoop cfg n it ps cur).1, (rootLoop cfg n it ps cur).2)
  | 0, it, ps, cur, b => by rw [rootLoop, rootLoop]
  | n+1, it, ps, cur, b => by
    have ih := rootLoop_E cfg a e n
    rw [rootLoop_succ, rootLoop_succ]
    cases it.next with
    | none => rfl
    | some v =>
      obtain ⟨c, it1⟩ := v
      simp only [cfgE_extend]
      by_cases hx : (cfg.extend && decide (c ∈ extTypes)) = true
      · simp only [hx, if_true, parseExtend_E]
        obtain ⟨s, ps', it', cur'⟩ := parseExtend cfg (2 * it1.rest.length + 8) c it1 ps cur true
        cases s with
        | true =>
          simp only [mapPE, updateDirState_E]
          exact ih _ _ _ b
        | false => exact rlOther_E cfg a e n ih c ps' it1 cur b
      · simp only [hx, Bool.false_eq_true, if_false]
        exact rlOther_E cfg a e n ih c ps it1 cur b

/-- **`root` on a pattern that is not rooted** (Unix rules: no drive detection): the run with the two
    configuration fields changed, from a state with `extmatchbase` set to `b`, is the run without,
    with the field set to `b` in the state it returns -/
theorem root_E (cfg : Cfg) (hw : cfg.winDriveDetect = false) (a e b : Bool) (drive : List Char → DriveInfo)
    (p : List Char) (hhd : p.head? ≠ some '/') (ps : PS) (cur : List Item) (ps' : PS) (cur' : List Item)
    (h : root cfg drive p ps cur = .ok (ps', cur')) :
    root (cfgE cfg a e) drive p (setE b ps) cur = .ok (setE b ps', cur') := by
  rw [root_eq] at h ⊢
  unfold rootPre rootPost at h ⊢
  have hhd' : decide (p.head? = some '/') = false := decide_eq_false hhd
  simp only [cfgE_wdd, hw, Bool.false_eq_true, if_false, cfgE_pathname, hhd', Bool.and_false, cfgE_noAbs,
    cfgE_realpath, Bool.not_false, Bool.true_and, cfgE_win] at h ⊢
  have e1 : (setE b ps).setAfterStart = setE b ps.setAfterStart := rfl
  rw [e1]
  split at h
  · rename_i hrp
    simp only [hrp, if_true, rootLoop_E, cleanUpInverse_E] at h ⊢
    simp only [Except.ok.injEq, Prod.mk.injEq] at h ⊢
    obtain ⟨h1, h2⟩ := h
    exact ⟨by rw [← h1], h2⟩
  · rename_i hrp
    simp only [hrp, Bool.false_eq_true, if_false, rootLoop_E, cleanUpInverse_E] at h ⊢
    simp only [Except.ok.injEq, Prod.mk.injEq] at h ⊢
    obtain ⟨h1, h2⟩ := h
    exact ⟨by rw [← h1], h2⟩

end WcModel.PB

import WcModel.Proofs.BridgeLink
import WcModel.Properties.C04cap
/-
  C04 bridge, part 4: whole patterns.

  * `denotesTop_iff_denP`  `DenotesTop` (with its rules for a literal first part) is `Denotes`
                           below the root, on paths made of clean components;
  * `pathLangR_real`       `pathLangR` on the name `_match_real` hands to the regex (`realName`: `/`
                           appended to a directory) is `segsMatch` on the components;
  * `segsLink_one_glob`    with ONE globstar the link rule is a condition on a determined range of
                           components (the split is unique).
-/
namespace WcModel.Bridge

open C04cap (realName)

/-- the first part of a relative pattern: magic, or a literal name that is not taken as written -/
def FirstOK (parts : List GPart) : Prop :=
  ∀ p rest, parts = p :: rest → p.isMagic = false → asWritten p.pat.text = false ∧ p.pat.text ≠ []

theorem rootDir_path (fs : FS) : fs.rootDir.path = [] := rfl

theorem isStar_of_not_magic {p : GPart} (h : p.isMagic = false) : p.isStar = false := by
  simp [GPart.isStar, h]

/-- **whole pattern = below the root**, on paths made of clean components -/
theorem denotesTop_iff_denP {fs : FS} (hwf : fs.WFTree) (c : WalkCfg) (parts : List GPart) (hfirst : FirstOK parts)
    (comps : List Name) (hc : ∀ n ∈ comps, Clean n) :
    (∃ v, DenotesTop fs c parts v ∧ untrail v.path = pjoins [] comps) ↔ DenP fs c parts fs.rootDir comps := by
  have hsane : ∀ n ∈ comps, Sane n := fun n hn => (hc n hn).sane
  cases parts with
  | nil =>
    constructor
    · rintro ⟨v, h, _⟩; cases h
    · rintro ⟨v, h, _⟩; cases h
  | cons p rest =>
    by_cases hm : p.isMagic = true
    · constructor
      · rintro ⟨v, h, he⟩
        cases h with
        | magic _ h => exact ⟨v, h, he⟩
        | writtenOnly h _ => rw [hm] at h; cases h
        | writtenThen h _ _ => rw [hm] at h; cases h
        | nameOnly h _ _ _ _ _ => rw [hm] at h; cases h
        | nameThen h _ _ _ _ _ _ => rw [hm] at h; cases h
      · rintro ⟨v, h, he⟩
        exact ⟨v, DenotesTop.magic hm h, he⟩
    · have hm' : p.isMagic = false := by simpa using hm
      have hps := isStar_of_not_magic hm'
      obtain ⟨haw, hte⟩ := hfirst p rest rfl hm'
      constructor
      · rintro ⟨v, h, he⟩
        cases h with
        | magic h _ => rw [hm'] at h; cases h
        | writtenOnly _ h => rw [haw] at h; cases h
        | writtenThen _ h _ => rw [haw] at h; cases h
        | @nameOnly _ o _ _ _ ho hs hdo =>
          have hn := (entry_char hwf ho).1.sane
          refine ⟨o.toY fs.rootDir, Denotes.last hps (entriesOf_sub_offered ho) hs hdo, ?_⟩
          simp only [Offer.toY, rootDir_path, pjoin_nil_sane hn]
          exact he
        | @nameThen _ q rest' o _ _ _ _ ho hs hdir hsub =>
          have hn := (entry_char hwf ho).1.sane
          refine ⟨v, Denotes.inner hps (entriesOf_sub_offered ho) hs hdir ?_, he⟩
          simp only [rootDir_path, pjoin_nil_sane hn]
          exact hsub
      · intro h
        cases rest with
        | nil =>
          obtain ⟨o, ho, rfl, hs, hdo⟩ := (denP_last hwf hps noTrail_nil hsane).1 h
          have hoe := offer_clean ho (hc o.name (by simp))
          refine ⟨⟨o.name, o.isDir, o.loc⟩, DenotesTop.nameOnly hm' haw hte hoe hs hdo, ?_⟩
          simp only [pjoins_cons, pjoins_nil, pjoin_nil_sane (hsane o.name (by simp))]
          exact untrail_noTrail (hsane o.name (by simp)).noTrail
        | cons q rest' =>
          obtain ⟨o, ho, cs, rfl, hs, hdir, v, hsub, he⟩ := (denP_inner hwf hps noTrail_nil hsane).1 h
          have hoe := offer_clean ho (hc o.name (by simp))
          have hn := hsane o.name (by simp)
          simp only [rootDir_path, pjoin_nil_sane hn] at hsub he
          refine ⟨v, DenotesTop.nameThen hm' haw hte hoe hs hdir hsub, ?_⟩
          rw [he]
          simp only [pjoins_cons, pjoin_nil_sane hn]

/-! ### the documented language on the name `_match_real` builds -/

theorem realName_eq (fs : FS) (q : List Char) (hq : NoTrail q) :
    realName fs q = if fs.isdir q then q ++ ['/'] else q := by
  unfold realName
  have : (q.getLast? == some '/') = false := by
    cases h : q.getLast? == some '/'
    · rfl
    · exact absurd (by simpa using h) hq
  simp [this]

/-- **`pathLangR` on the name `_match_real` hands to the regexes** — a relative path made of sane
    components, `/` appended when it is a directory — is `segsMatch` on the components, the path
    counting as "written with a trailing separator" exactly when it is a directory -/
theorem pathLangR_real (fs : FS) (ctx : PCtx) (r : DotRule) (pp : PathPat) (habs : pp.abs = false)
    (n : Name) (ns : List Name) (h : ∀ m ∈ n :: ns, Sane m) :
    pathLangR ctx r pp (realName fs (pjoins [] (n :: ns))) =
      segsMatch ctx r pp.segs (n :: ns) pp.trailing (fs.isdir (pjoins [] (n :: ns))) false := by
  have hnt : NoTrail (pjoins [] (n :: ns)) := pjoins_noTrail [] noTrail_nil _ h
  have hhd := pjoins_head n ns h
  rw [realName_eq fs _ hnt]
  unfold pathLangR
  simp only [habs, Bool.false_eq_true, if_false]
  cases hd : fs.isdir (pjoins [] (n :: ns))
  · simp only [Bool.false_eq_true, if_false]
    have hp : (cutAtSlash (pjoins [] (n :: ns))).filter (fun p => !p.isEmpty) = n :: ns := pieces_pjoins _ h
    have hl : decide ((pjoins [] (n :: ns)).getLast? = some '/') = false := decide_eq_false hnt
    have hh : decide ((pjoins [] (n :: ns)).head? = some '/') = false := decide_eq_false hhd
    rw [hp, hl, hh]
    simp
  · simp only [if_true]
    have hp : (cutAtSlash (pjoins [] (n :: ns) ++ ['/'])).filter (fun p => !p.isEmpty) = n :: ns :=
      pieces_pjoins_slash _ h
    have hl : decide ((pjoins [] (n :: ns) ++ ['/']).getLast? = some '/') = true := by simp
    have hne : pjoins [] (n :: ns) ≠ [] := pjoins_ne_nil [] noTrail_nil n ns h
    have hh : decide ((pjoins [] (n :: ns) ++ ['/']).head? = some '/') = false := by
      cases hq : pjoins [] (n :: ns) with
      | nil => exact absurd hq hne
      | cons c t => rw [hq] at hhd; simpa using hhd
    rw [hp, hl, hh]
    simp

/-! ### one globstar: the link rule on a determined range -/

def globFree (segs : List Seg) : Bool := segs.all (fun s => s != .glob)

theorem segsMatch_globfree_length (ctx : PCtx) (r : DotRule) : ∀ (segs : List Seg), globFree segs = true →
    ∀ (pieces : List Name) (pt ptr a : Bool), segsMatch ctx r segs pieces pt ptr a = true →
      pieces.length = segs.length := by
  intro segs
  induction segs with
  | nil => intro _ pieces pt ptr a h; simp [segsMatch] at h; simp [h.1]
  | cons s ss ih =>
    intro hg pieces pt ptr a h
    simp only [globFree, List.all_cons, Bool.and_eq_true] at hg
    cases s with
    | glob => simp at hg
    | pat g =>
      cases pieces with
      | nil => simp [segsMatch] at h
      | cons x xs =>
        simp only [segsMatch, Bool.and_eq_true] at h
        simp [ih hg.2 xs _ _ _ h.2]

/-- the pieces a single globstar stands for whose link status is tested: the pieces between the
    `A.length` first and the `B.length` last ones — all of them when a segment follows, all but the
    last one when the globstar ends the pattern -/
def starPieces (nA nB : Nat) (lastGlob : Bool) (comps : List Name) : List Name :=
  let mid := (comps.drop nA).take (comps.length - nA - nB)
  if lastGlob then mid.dropLast else mid

theorem segsLink_one_glob (fs : FS) (ctx : PCtx) (B : List Seg) (hB : globFree B = true) :
    ∀ (A : List Seg), globFree A = true → ∀ (pre : List Char) (comps : List Name) (pt ptr a : Bool),
      (segsLink fs ctx (A ++ .glob :: B) pre comps pt ptr a = true ↔
        segsMatch ctx .free (A ++ .glob :: B) comps pt ptr a = true ∧
        noLinks fs (pjoins pre (comps.take A.length)) (starPieces A.length B.length B.isEmpty comps) = true) := by
  intro A
  induction A with
  | nil =>
    intro _ pre comps pt ptr a
    simp only [List.nil_append, List.length_nil, List.take_zero, pjoins_nil, starPieces, List.drop_zero, Nat.sub_zero]
    cases B with
    | nil =>
      rw [segsLink_glob_last]
      simp only [segsMatch, List.length_nil, Nat.sub_zero, List.take_length, List.isEmpty_nil, if_true,
        Bool.and_eq_true]
    | cons s ss =>
      rw [segsLink_glob_cons]
      simp only [List.isEmpty_cons, Bool.false_eq_true, if_false]
      have key : ∀ k, k ∈ List.range (comps.length + 1) →
          segsMatch ctx .free (s :: ss) (comps.drop k) pt ptr true = true → k = comps.length - (s :: ss).length := by
        intro k hk hm
        have := segsMatch_globfree_length ctx .free (s :: ss) hB _ _ _ _ hm
        rw [List.length_drop] at this
        rw [List.mem_range] at hk
        omega
      simp only [segsMatch, List.any_eq_true, Bool.and_eq_true]
      constructor
      · rintro ⟨k, hk, ⟨hv, hnl⟩, hsl⟩
        rw [segsLink_globfree fs ctx (s :: ss) hB] at hsl
        have hk' := key k hk hsl
        refine ⟨⟨k, hk, hv, hsl⟩, ?_⟩
        rw [← hk']; exact hnl
      · rintro ⟨⟨k, hk, hv, hsl⟩, hnl⟩
        have hk' := key k hk hsl
        refine ⟨k, hk, ⟨hv, ?_⟩, ?_⟩
        · rw [hk']; exact hnl
        · rw [segsLink_globfree fs ctx (s :: ss) hB]; exact hsl
  | cons s A' ih =>
    intro hA pre comps pt ptr a
    simp only [globFree, List.all_cons, Bool.and_eq_true] at hA
    cases s with
    | glob => simp at hA
    | pat g =>
      cases comps with
      | nil => simp [segsLink_pat_nil, segsMatch]
      | cons x xs =>
        simp only [List.cons_append, segsLink_pat_cons, segsMatch, Bool.and_eq_true, List.length_cons, List.take_succ_cons,
          pjoins_cons]
        rw [ih hA.2 (pjoin pre x) xs pt ptr true]
        have : starPieces (A'.length + 1) B.length B.isEmpty (x :: xs) = starPieces A'.length B.length B.isEmpty xs := by
          simp only [starPieces, List.drop_succ_cons, List.length_cons]
          have : xs.length + 1 - (A'.length + 1) - B.length = xs.length - A'.length - B.length := by omega
          rw [this]
        rw [this]
        constructor
        · rintro ⟨h1, h2, h3⟩; exact ⟨⟨h1, h2⟩, h3⟩
        · rintro ⟨⟨h1, h2⟩, h3⟩; exact ⟨h1, h2, h3⟩

end WcModel.Bridge

import WcModel.Proofs.PassPrintPath
import WcModel.Proofs.BridgeRealTwin
import WcModel.Proofs.LiteralPath
import WcModel.Proofs.BridgeNoCap
/-
  C04 bridge, part 6: the faithful port on a printed RELATIVE path pattern under REALPATH.

  `PPP.pass_print_path` assumes `cfg.realpath = false` (`PPP.PathX`).  Under REALPATH `root` pushes
  `'' _NO_ROOT` below the items of a pattern that is not rooted, and nothing else changes
  (`rootLoop_rp`).  So, for `cfg` with REALPATH whose REALPATH-free twin `cfg.rp false` is in
  `PathX`, and a relative printed pattern that does not begin with a globstar:

      parseItems cfg drive (printPath pp) = .ok ['' _NO_ROOT ''  <items of pp>  _PATH_TRAIL]
      its regex  ≋  wrapRe ci ((?!/) · compPath dot pp)

  (`pass_print_path_real`), hence `FullMatch s ↔ s does not begin with '/' ∧ FullMatch of the
  REALPATH-free regex` (`fullMatch_noRoot`).
  A pattern that BEGINS with a globstar is not covered here: `_handle_star` overwrites the `''`
  on top of the stack, which under REALPATH is the second `''` (the first stays below `_NO_ROOT`).
-/
namespace WcModel.Bridge
open PP PPP

theorem root_path_real (cfg : Cfg) (h : PathX (cfg.rp false)) (hrp : cfg.realpath = true)
    (drive : List Char → DriveInfo) (tr : Bool) (segs : List Seg)
    (hok : ∀ s ∈ segs, PPP.segOK s = true) (hgg : noGG segs = true)
    (hlead : segs.head?.map Seg.isGlob ≠ some true) (ps : PS)
    (hgs : segs.any Seg.isGlob = true → ps.globstar = true) (hi : PP.Inv ps false false 0) :
    ∃ ps', root cfg drive (printSegs tr segs false) ps [.empty] =
        .ok (ps', .re (Frag.pathTrail false) ::
          ((segItems (cfg.rp false) tr segs false).reverse ++ [.empty, .re Frag.noRoot, .empty])) ∧
      ps'.matchbase = false ∧ ps'.extmatchbase = false := by
  have hhd : decide ((printSegs tr segs false).head? = some '/') = false := by
    simpa using printSegs_false_head tr segs hok
  have hwdd : cfg.winDriveDetect = false := h.wdd
  have hpn : cfg.pathname = true := h.pathname
  have hna : cfg.noAbs = false := h.noAbs
  have hwin : cfg.win = false := h.win
  have hi' : PP.Inv ps.setAfterStart true false 0 := ⟨rfl, rfl, hi.inList, hi.invExt, hi.mb, hi.emb⟩
  obtain ⟨ps1, e1, h0, hm, he⟩ := segs_loop (cfg.rp false) h tr segs false _ 0 ps.setAfterStart
    [.empty, .re Frag.noRoot, .empty] true hok hgg (fun _ => hlead)
    (by simpa [PS.setAfterStart] using hgs) hi' (fun _ _ => rfl) (Nat.le_refl _)
  rw [rootLoop_rp] at e1
  refine ⟨ps1, ?_, hm, he⟩
  rw [root_eq]
  unfold rootPre rootPost
  simp only [hwdd, Bool.false_eq_true, ite_false, hpn, Bool.true_and, hhd, hna,
    hrp, Bool.not_false, Bool.and_self, ite_true, e1]
  rw [← cleanUpInverse_rp cfg false, cleanUp_zero (cfg.rp false) ps1 _ false h0]
  simp only [hwin]

/-- the whole pass on a printed relative path pattern, under REALPATH -/
theorem parseItems_path_real (cfg : Cfg) (h : PathX (cfg.rp false)) (hrp : cfg.realpath = true)
    (drive : List Char → DriveInfo) (tr : Bool) (segs : List Seg)
    (hok : ∀ s ∈ segs, PPP.segOK s = true) (hgg : noGG segs = true)
    (hlead : segs.head?.map Seg.isGlob ≠ some true) (hne : segs ≠ [])
    (hgs : segs.any Seg.isGlob = true → cfg.globstar0 = true) :
    parseItems cfg drive (printSegs tr segs false) =
      .ok { items := [.empty, .re Frag.noRoot, .empty] ++
              (segItems (cfg.rp false) tr segs false ++ [.re (Frag.pathTrail false)]),
            ci := !cfg.caseSensitive } := by
  have hanchor : cfg.anchor = false := h.anchor
  have hmb : cfg.matchbase0 = false := h.matchbase
  have hemb : cfg.extmatchbase0 = false := h.extmatchbase
  unfold parseItems
  simp only [anchorStep, hanchor, Bool.false_eq_true, ite_false]
  simp only [parsePrepend, hmb, hemb, Bool.or_self, Bool.false_eq_true, ite_false]
  unfold parseBody
  have hemp : (printSegs tr segs false).isEmpty = false := by
    simpa using printSegs_ne_nil tr segs false hok (fun he => absurd he hne)
  obtain ⟨ps', hr, hm, he⟩ := root_path_real cfg h hrp drive tr segs hok hgg hlead
    { matchbase := false, extmatchbase := false, globstar := cfg.globstar0 } hgs ⟨rfl, rfl, rfl, rfl, rfl, rfl⟩
  simp only [printSegs_ne_bs tr segs false hok, ite_false, hemp, Bool.false_eq_true, hr]
  simp [hm, he]

/-- the REALPATH item list to the regex: `(?!/)` in front of the tidy path regex -/
theorem toRe_path_real (cfg : Cfg) (h : PathX cfg) (tr : Bool) (segs : List Seg)
    (hok : ∀ s ∈ segs, PPP.segOK s = true) (ci : Bool) :
    ∃ r, (Parsed.toRe { items := [.empty, .re Frag.noRoot, .empty] ++
                          (segItems cfg tr segs false ++ [.re (Frag.pathTrail false)]), ci := ci }) = some r ∧
      Eqv r (wrapRe ci (.cat Frag.noRoot (pathRe cfg.dot tr segs false))) := by
  have hwf0 : WF false (segItems cfg tr segs false ++ [.re (Frag.pathTrail false)]) :=
    (segItems_WF cfg tr segs false hok).append (.re .nil)
  have hnb0 : HF.NoBar (segItems cfg tr segs false ++ [.re (Frag.pathTrail false)]) :=
    (segItems_noBar cfg tr segs false hok).append (HF.NoBar.cons rfl HF.NoBar.nil)
  have hwf : WF false ([Item.empty, .re Frag.noRoot, .empty] ++
      (segItems cfg tr segs false ++ [.re (Frag.pathTrail false)])) := .empty (.re (.empty hwf0))
  have hnb : HF.NoBar ([Item.empty, .re Frag.noRoot, .empty] ++
      (segItems cfg tr segs false ++ [.re (Frag.pathTrail false)])) :=
    HF.NoBar.cons rfl (HF.NoBar.cons rfl (HF.NoBar.cons rfl hnb0))
  obtain ⟨r, hr⟩ := Option.isSome_iff_exists.mp (Parsed.toRe_isSome_of_WF ⟨_, ci⟩ hwf)
  refine ⟨r, hr, ?_⟩
  unfold Parsed.toRe at hr
  simp only [] at hr
  generalize hL : [Item.empty, .re Frag.noRoot, .empty] ++
    (segItems cfg tr segs false ++ [.re (Frag.pathTrail false)]) = L at hr hnb
  cases hin : Item.listToRe (2 * Item.sizeL L + 4) L with
  | none => simp [hin] at hr
  | some inner =>
    simp [hin] at hr
    subst hr
    obtain ⟨f', xs, _, hm, hx⟩ := listToRe_inv hin
    rw [HF.splitBars_noBar _ hnb] at hm
    simp only [List.mapM_cons, List.mapM_nil] at hm
    cases h1 : Item.seqToRe f' L with
    | none => simp [h1] at hm
    | some x =>
      simp [h1] at hm
      have hx' : inner = x := by rw [hx, ← hm]; rfl
      have hE : Eqv x (.cat Frag.noRoot (pathRe cfg.dot tr segs false)) := by
        subst hL
        cases f' with
        | zero => simp [Item.seqToRe] at h1
        | succ f =>
          simp only [List.cons_append, List.nil_append, Item.seqToRe] at h1
          obtain ⟨f2, x2, h2, e2⟩ := seqToRe_re_eqv h1
          cases f2 with
          | zero => simp [Item.seqToRe] at h2
          | succ f3 =>
            simp only [Item.seqToRe] at h2
            exact e2.trans ((Eqv.refl _).cat (segItems_toRe cfg h tr segs false hok f3 x2 h2))
      rw [hx']
      exact (Eqv.refl _).cat ((hE.flags true ci).cat (Eqv.refl _))

/-- `(?!/)` in front of the body of `^(?s:…)$`: the subject must not begin with a separator -/
theorem fullMatch_noRoot (ci : Bool) (X : Re) (s : List Char) :
    (wrapRe ci (.cat Frag.noRoot X)).FullMatch s ↔ s.head? ≠ some '/' ∧ (wrapRe ci X).FullMatch s := by
  unfold wrapRe Re.FullMatch
  constructor
  · rintro ⟨b, hm⟩
    rw [Re.M] at hm
    obtain ⟨c, hc, hm⟩ := hm
    rw [Re.M] at hm
    obtain ⟨d, hm, hd⟩ := hm
    rw [Re.M, Re.M] at hm
    obtain ⟨e, he, hX⟩ := hm
    obtain ⟨rfl, hh⟩ := (M_noRoot _ _ _).mp he
    have hc' := hc
    rw [Re.M] at hc'
    obtain ⟨rfl, _⟩ := hc'
    refine ⟨hh, b, ?_⟩
    rw [Re.M]
    refine ⟨_, hc, ?_⟩
    rw [Re.M]
    refine ⟨d, ?_, hd⟩
    rw [Re.M]
    exact hX
  · rintro ⟨hh, b, hm⟩
    rw [Re.M] at hm
    obtain ⟨c, hc, hm⟩ := hm
    rw [Re.M] at hm
    obtain ⟨d, hm, hd⟩ := hm
    rw [Re.M] at hm
    have hc' := hc
    rw [Re.M] at hc'
    obtain ⟨rfl, _⟩ := hc'
    refine ⟨b, ?_⟩
    rw [Re.M]
    refine ⟨_, hc, ?_⟩
    rw [Re.M]
    refine ⟨d, ?_, hd⟩
    rw [Re.M, Re.M]
    exact ⟨_, (M_noRoot _ _ _).mpr ⟨rfl, hh⟩, hm⟩

/-- the relative printed patterns covered under REALPATH: `PPP.pathOK`, relative, not beginning
    with a globstar -/
def relOK (pp : PathPat) : Bool :=
  pathOK pp && !pp.abs && !(pp.segs.head?.map Seg.isGlob == some true)

/-- **pass_print under REALPATH**, relative printed patterns that do not begin with a globstar -/
theorem pass_print_path_real (cfg : Cfg) (h : PathX (cfg.rp false)) (hrp : cfg.realpath = true)
    (drive : List Char → DriveInfo) (pp : PathPat) (hok : relOK pp = true)
    (hgs : pp.segs.any Seg.isGlob = true → cfg.globstar0 = true) :
    ∃ parsed r, parseItems cfg drive (printPath pp) = .ok parsed ∧ parsed.toRe = some r ∧
      Eqv r (wrapRe (!cfg.caseSensitive) (.cat Frag.noRoot (compPath cfg.dot pp))) ∧
      (cfg.capture = false → pp.segs.any Seg.isGlob = false → r.ncaps = 0) := by
  simp only [relOK, pathOK, Bool.and_eq_true, List.all_eq_true, Bool.or_eq_true, Bool.not_eq_eq_eq_not, Bool.not_true,
    List.isEmpty_eq_false_iff, beq_eq_false_iff_ne, ne_eq] at hok
  obtain ⟨⟨⟨⟨h1, h2⟩, h3⟩, habs⟩, hlead⟩ := hok
  have hne : pp.segs ≠ [] := by
    rcases h3 with h3 | h3
    · exact h3
    · rw [habs] at h3; cases h3
  obtain ⟨r, hr, he⟩ := toRe_path_real (cfg.rp false) h pp.trailing pp.segs h1 (!cfg.caseSensitive)
  have hp := parseItems_path_real cfg h hrp drive pp.trailing pp.segs h1 h2 hlead hne hgs
  unfold printPath
  rw [habs]
  refine ⟨_, r, hp, hr, ?_, ?_⟩
  · unfold compPath; rw [habs]; exact he
  · intro hcap hng
    refine parsed_plain _ ?_ r hr
    simp only [List.cons_append, List.nil_append, plainBL, plainB, plainBL_append, Bool.and_true, Bool.true_and]
    rw [segItems_plain (cfg.rp false) hcap pp.trailing pp.segs false hng]
    decide

/-- the semantic form: the REALPATH regex accepts `s` iff `s` does not begin with a separator and
    the tidy path regex accepts it -/
theorem pass_print_path_real_sem (cfg : Cfg) (h : PathX (cfg.rp false)) (hrp : cfg.realpath = true)
    (drive : List Char → DriveInfo) (pp : PathPat) (hok : relOK pp = true)
    (hgs : pp.segs.any Seg.isGlob = true → cfg.globstar0 = true) :
    ∃ parsed r, parseItems cfg drive (printPath pp) = .ok parsed ∧ parsed.toRe = some r ∧
      (∀ s, r.FullMatch s ↔ s.head? ≠ some '/' ∧
        (wrapRe (!cfg.caseSensitive) (compPath cfg.dot pp)).FullMatch s) ∧
      (cfg.capture = false → pp.segs.any Seg.isGlob = false → r.ncaps = 0) := by
  obtain ⟨parsed, r, h1, h2, h3, h4⟩ := pass_print_path_real cfg h hrp drive pp hok hgs
  exact ⟨parsed, r, h1, h2, fun s => (h3.fullMatch s).trans (fullMatch_noRoot _ _ s), h4⟩

end WcModel.Bridge

import WcModel.Proofs.HiddenGroup
import WcModel.Proofs.LiteralPath
import WcModel.Proofs.PathFrag
/-
  Hidden names on the FAITHFUL port (`parseItems`), PATH mode, Unix rules, no DOTMATCH:
  machinery for `Properties/C03path.lean` (stage 1: the first segment).

  Part A  regex facts: fragments that refuse a dot (`HF.DotRefusing`), fragments that can only
          match the empty string at a dot (`DotStuck`: the path-mode `*` of a segment start — defect
          D4 lives here), blocked item lists (`Blk`, `AllStk`) and what they mean for `Parsed.toRe`.
  Part B  the top-level loop as a sequence of stack edits (`TStep`): pushes, `clean_up_inverse`,
          the globstar rewrite of the last item; `NoBar` and `Blk` survive them.
  Part C  the first token at a segment start in path mode (`rootTok_first_path`), the token after
          a leading star-run (`rootTok_second_path`), the `*` that is not a globstar (`hsSel_nonglob`).
-/
namespace WcModel
namespace HP
open HF (DotRefusing NoBar isBar Rel)

/-! ## Part A: regex facts -/

/-- at a state whose next character is `.`, `x` matches only the empty string -/
def DotStuck (x : Re) : Prop := ∀ md a b, a.rest.head? = some '.' → Re.M md x a b → b = a

theorem stuck_of_refuse {x : Re} (h : DotRefusing x) : DotStuck x :=
  fun md a b hd hm => (h md a b hd hm).elim

theorem stuck_eps : DotStuck .eps := fun _ _ _ _ hm => hm

theorem stuck_cat {x y : Re} (hx : DotStuck x) (hy : DotStuck y) : DotStuck (.cat x y) := by
  intro md a b hd hm
  simp only [Re.M] at hm
  obtain ⟨c, h1, h2⟩ := hm
  have := hx md a c hd h1
  subst this
  exact hy md c b hd h2

theorem stuck_look (n : Bool) (x : Re) : DotStuck (.look n x) := by
  intro md a b _ hm
  cases n <;> simp only [Re.M] at hm <;> exact hm.1

/-- the segment-start star of path mode, `(?=[^/])(?!(?:\.{1,2})(?:$|[/]))(?:(?!\.)[^/]*?)?`:
    at a dot it matches, but only the empty string (defect D4) -/
theorem stuck_pathStar2 : DotStuck (.cat (Frag.needCharPath false) (Frag.pathStarDot2 false)) :=
  stuck_cat (stuck_look _ _) (fun md a b hd hm => pathStarDot2_at_dot md a b hd hm)

theorem stuck_noRoot : DotStuck Frag.noRoot := stuck_look _ _

theorem not_sep_at_dot (md : Mode) (a b : St) (hd : a.rest.head? = some '.') :
    ¬ Re.M md (Frag.sep false) a b := by
  intro hm
  obtain ⟨d, s, e1, e2, _⟩ := (M_sep md a b).mp hm
  simp [e1] at hd; subst hd; simp at e2

theorem stuck_pathTrail : DotStuck (Frag.pathTrail false) := by
  intro md a b hd hm
  simp only [Frag.pathTrail, Re.M] at hm
  cases hm with
  | refl _ => rfl
  | step hab _ => exact (not_sep_at_dot md _ _ hd hab).elim

theorem refuse_sepPlus : DotRefusing (Frag.sepPlus false) := by
  intro md a b hd hm
  simp only [Frag.sepPlus, Re.M] at hm
  obtain ⟨c, h1, _⟩ := hm
  exact not_sep_at_dot md a c hd h1

theorem refuse_needSep : DotRefusing (Frag.needSep false) := by
  intro md a b hd hm
  simp only [Frag.needSep, Re.M] at hm
  obtain ⟨_, c, h1⟩ := hm
  exact not_sep_at_dot md a c hd h1

/-- `(?![/.])` fails at a dot -/
theorem refuse_seqPathDot : DotRefusing (Frag.seqPathDot false) := by
  intro md a b hd hm
  simp only [Frag.seqPathDot, Re.M] at hm
  apply hm.2
  cases hr : a.rest with
  | nil => simp [hr] at hd
  | cons x xs =>
    simp [hr] at hd; subst hd
    refine ⟨⟨false, xs⟩, '.', xs, hr, ?_, rfl⟩
    cases md.ci <;> decide

/-- the guard of `?` / `[…]` at a segment start, `(?!(?:\.{1,2})(?:$|[/]))(?![/.])` -/
def guard2 : Re := .cat (Frag.noDir false) (Frag.seqPathDot false)

theorem refuse_guard2 : DotRefusing guard2 := by
  intro md a b hd hm
  simp only [guard2, Re.M.eq_5] at hm
  obtain ⟨c, h1, h2⟩ := hm
  have : c = a := by simp only [Frag.noDir, Re.M] at h1; exact h1.1
  subst this
  exact refuse_seqPathDot md c b hd h2

theorem guard2_ne_eps : guard2 ≠ .eps := by simp [guard2]

theorem refuse_catE_guard2 (y : Re) : DotRefusing (catE guard2 y) := by
  unfold catE
  rw [if_neg guard2_ne_eps]
  exact HF.refuse_cat _ refuse_guard2

/-! ### blocked item lists -/

/-- a forward item list that begins with items that can only match empty at a dot, followed by one
    that refuses a dot -/
inductive Blk : List Item → Prop
  | ref {x : Re} {l : List Item} : DotRefusing x → Blk (.re x :: l)
  | emp {l : List Item} : Blk l → Blk (.empty :: l)
  | stk {x : Re} {l : List Item} : DotStuck x → Blk l → Blk (.re x :: l)

/-- a forward item list all of whose items can only match empty at a dot -/
inductive AllStk : List Item → Prop
  | nil : AllStk []
  | emp {l : List Item} : AllStk l → AllStk (.empty :: l)
  | stk {x : Re} {l : List Item} : DotStuck x → AllStk l → AllStk (.re x :: l)

theorem Blk.append {l : List Item} (h : Blk l) (m : List Item) : Blk (l ++ m) := by
  induction h with
  | ref hx => exact .ref hx
  | emp _ ih => exact .emp ih
  | stk hx _ ih => exact .stk hx ih

theorem AllStk.append {l m : List Item} (h : AllStk l) (hm : AllStk m) : AllStk (l ++ m) := by
  induction h with
  | nil => exact hm
  | emp _ ih => exact .emp ih
  | stk hx _ ih => exact .stk hx ih

theorem AllStk.blk {l m : List Item} (h : AllStk l) (hm : Blk m) : Blk (l ++ m) := by
  induction h with
  | nil => exact hm
  | emp _ ih => exact .emp ih
  | stk hx _ ih => exact .stk hx ih

theorem Blk.rel {l l' : List Item} (h : Blk l) (hr : Rel l l') : Blk l' := by
  induction h generalizing l' with
  | ref hx => cases hr with | same _ _ => exact .ref hx
  | emp _ ih => cases hr with | same _ h' => exact .emp (ih h')
  | stk hx _ ih => cases hr with | same _ h' => exact .stk hx (ih h')

/-- taking the last item off: either the rest is already blocked, or it is all stuck (and the
    last item was the refusing one) -/
theorem Blk.split_last : ∀ {B : List Item} {y : Item}, Blk (B ++ [y]) → Blk B ∨ AllStk B
  | [], _, _ => Or.inr .nil
  | x :: B, y, h => by
    cases h with
    | ref hx => exact Or.inl (.ref hx)
    | emp h' =>
      rcases Blk.split_last h' with h1 | h1
      · exact Or.inl (.emp h1)
      · exact Or.inr (.emp h1)
    | stk hx h' =>
      rcases Blk.split_last h' with h1 | h1
      · exact Or.inl (.stk hx h1)
      · exact Or.inr (.stk hx h1)

theorem Blk.drop_empty {B : List Item} (h : Blk (B ++ [.empty])) : Blk B := by
  induction B with
  | nil => cases h with | emp h' => cases h'
  | cons x B ih =>
    cases h with
    | ref hx => exact .ref hx
    | emp h' => exact .emp (ih h')
    | stk hx h' => exact .stk hx (ih h')

theorem stuck_catE' {x y : Re} (hx : DotStuck x) (hy : DotStuck y) : DotStuck (catE' x y) := by
  unfold catE'
  split
  · exact hx
  · split
    · exact hy
    · exact stuck_cat hx hy

theorem Blk.seqToRe {l : List Item} (h : Blk l) :
    ∀ (fuel : Nat) (r : Re), Item.seqToRe fuel l = some r → DotStuck r := by
  induction h with
  | @ref x l hx =>
    intro fuel r hr
    cases fuel with
    | zero => simp [Item.seqToRe] at hr
    | succ f =>
      simp only [Item.seqToRe] at hr
      cases hs : Item.seqToRe f l with
      | none => simp [hs] at hr
      | some r' =>
        simp [hs] at hr
        rw [← hr]; exact stuck_of_refuse (HF.refuse_catE' x r' hx)
  | emp _ ih =>
    intro fuel r hr
    cases fuel with
    | zero => simp [Item.seqToRe] at hr
    | succ f => simp only [Item.seqToRe] at hr; exact ih f r hr
  | @stk x l hx _ ih =>
    intro fuel r hr
    cases fuel with
    | zero => simp [Item.seqToRe] at hr
    | succ f =>
      simp only [Item.seqToRe] at hr
      cases hs : Item.seqToRe f l with
      | none => simp [hs] at hr
      | some r' =>
        simp [hs] at hr
        rw [← hr]; exact stuck_catE' hx (ih f r' hs)

theorem AllStk.seqToRe {l : List Item} (h : AllStk l) :
    ∀ (fuel : Nat) (r : Re), Item.seqToRe fuel l = some r → DotStuck r := by
  induction h with
  | nil =>
    intro fuel r hr
    cases fuel with
    | zero => simp [Item.seqToRe] at hr
    | succ f => simp [Item.seqToRe] at hr; rw [← hr]; exact stuck_eps
  | emp _ ih =>
    intro fuel r hr
    cases fuel with
    | zero => simp [Item.seqToRe] at hr
    | succ f => simp only [Item.seqToRe] at hr; exact ih f r hr
  | @stk x l hx _ ih =>
    intro fuel r hr
    cases fuel with
    | zero => simp [Item.seqToRe] at hr
    | succ f =>
      simp only [Item.seqToRe] at hr
      cases hs : Item.seqToRe f l with
      | none => simp [hs] at hr
      | some r' =>
        simp [hs] at hr
        rw [← hr]; exact stuck_catE' hx (ih f r' hs)

/-- a compiled pattern whose (bar-free) item list is blocked, or stuck throughout, matches no
    name that begins with a dot -/
theorem toRe_stuck (parsed : Parsed) (hn : NoBar parsed.items)
    (h : Blk parsed.items ∨ AllStk parsed.items)
    (r : Re) (hr : parsed.toRe = some r) (s : List Char) (hs : s.head? = some '.') : ¬ r.FullMatch s := by
  unfold Parsed.toRe at hr
  cases hi : Item.listToRe (2 * Item.sizeL parsed.items + 4) parsed.items with
  | none => simp [hi] at hr
  | some inner =>
    simp [hi] at hr
    have hst : DotStuck inner := by
      generalize 2 * Item.sizeL parsed.items + 4 = fuel at hi
      cases fuel with
      | zero => simp [Item.listToRe] at hi
      | succ f =>
        simp only [Item.listToRe, HF.splitBars_noBar parsed.items hn, List.mapM_cons, List.mapM_nil] at hi
        cases hq : Item.seqToRe f parsed.items with
        | none => simp [hq] at hi
        | some r' =>
          simp [hq, altOfList] at hi
          rw [← hi]
          rcases h with h | h
          · exact h.seqToRe f r' hq
          · exact h.seqToRe f r' hq
    rw [← hr]
    rintro ⟨b, hm⟩
    simp only [Re.M] at hm
    obtain ⟨c, ⟨rfl, _⟩, c', hm, rfl, he⟩ := hm
    have := hst _ _ _ hs hm
    injection this with _ h2
    subst h2
    simp at hs


theorem AllStk.rel {l l' : List Item} (h : AllStk l) (hr : Rel l l') : AllStk l' := by
  induction h generalizing l' with
  | nil => cases hr; exact .nil
  | emp _ ih => cases hr with | same _ h' => exact .emp (ih h')
  | stk hx _ ih => cases hr with | same _ h' => exact .stk hx (ih h')

/-! ## Part B: the top-level loop as a sequence of stack edits -/

/-- path mode, Unix rules, no DOTMATCH -/
structure PathCfg (cfg : Cfg) : Prop extends PathUnix cfg where
  dot : cfg.dot = false

theorem _root_.WcModel.PathUnix.win {cfg : Cfg} (h : PathUnix cfg) : cfg.win = false := by simp [Cfg.win, h.unix]

theorem _root_.WcModel.PathUnix.needChar {cfg : Cfg} (h : PathUnix cfg) : cfg.needChar = Frag.needCharPath false := by
  simp [Cfg.needChar, h.pathname, h.win]

/-- one edit of the top-level stack (`cur` is `current` reversed) -/
inductive TStep : List Item → List Item → Prop
  | push (x : Item) (cur : List Item) : isBar x = false → TStep cur (x :: cur)
  | rel {cur cur' : List Item} : Rel cur.reverse cur'.reverse → TStep cur cur'
  | drop (before : List Item) : TStep (.empty :: before) before
  | swap (last : Item) (x : Re) (before : List Item) : DotRefusing x → TStep (last :: before) (.re x :: before)

inductive TSteps : List Item → List Item → Prop
  | refl (a : List Item) : TSteps a a
  | step {a b c : List Item} : TStep a b → TSteps b c → TSteps a c

theorem TSteps.one {a b : List Item} (h : TStep a b) : TSteps a b := .step h (.refl _)

theorem TSteps.trans {a b c : List Item} (h₁ : TSteps a b) (h₂ : TSteps b c) : TSteps a c := by
  induction h₁ with
  | refl _ => exact h₂
  | step h _ ih => exact .step h (ih h₂)

theorem TSteps.pushes : ∀ (new cur : List Item), NoBar new → TSteps cur (new ++ cur)
  | [], cur, _ => .refl _
  | x :: new, cur, h =>
    (TSteps.pushes new cur (fun y hy => h y (List.mem_cons_of_mem _ hy))).trans
      (.one (.push x _ (h x List.mem_cons_self)))

theorem TStep.noBar {a b : List Item} (h : TStep a b) (hn : NoBar a) : NoBar b := by
  cases h with
  | push x _ hx => exact NoBar.cons hx hn
  | rel hr =>
    have := hr.noBar (NoBar.reverse hn)
    intro y hy
    exact this y (List.mem_reverse.mpr hy)
  | drop _ => exact fun y hy => hn y (List.mem_cons_of_mem _ hy)
  | swap _ x _ _ =>
    exact NoBar.cons rfl (fun y hy => hn y (List.mem_cons_of_mem _ hy))

theorem TSteps.noBar {a b : List Item} (h : TSteps a b) (hn : NoBar a) : NoBar b := by
  induction h with
  | refl _ => exact hn
  | step h _ ih => exact ih (h.noBar hn)

theorem TStep.blk {a b : List Item} (h : TStep a b) (hb : Blk a.reverse) : Blk b.reverse := by
  cases h with
  | push x _ _ => rw [List.reverse_cons]; exact hb.append _
  | rel hr => exact hb.rel hr
  | drop before => rw [List.reverse_cons] at hb; exact hb.drop_empty
  | swap last x before hx =>
    rw [List.reverse_cons] at hb ⊢
    rcases hb.split_last with h1 | h1
    · exact h1.append _
    · exact h1.blk (.ref hx)

theorem TSteps.blk {a b : List Item} (h : TSteps a b) (hb : Blk a.reverse) : Blk b.reverse := by
  induction h with
  | refl _ => exact hb
  | step h _ ih => exact ih (h.blk hb)

theorem cleanUpInverse_inList (cfg : Cfg) (ps : PS) (cur : List Item) (n : Bool) :
    (cleanUpInverse cfg ps cur n).2.inList = ps.inList := by
  unfold cleanUpInverse; split <;> rfl

theorem cleanUpInverse_step (cfg : Cfg) (ps : PS) (cur : List Item) (n : Bool) :
    TSteps cur (cleanUpInverse cfg ps cur n).1 := .one (.rel (HF.cleanUpInverse_rel cfg ps cur n))

/-- a top-level `parse_extend` in any mode: on failure only the state changes (and the start flags
    are restored); on success items are pushed -/
theorem parseExtend_top' (cfg : Cfg) (fuel : Nat) (c : Char) (it : It) (ps : PS) (cur : List Item) (rd : Bool)
    (hl : ps.inList = false) :
    (parseExtend cfg (fuel+1) c it ps cur rd).2.1.inList = false ∧
    ((parseExtend cfg (fuel+1) c it ps cur rd).1 = false →
       (parseExtend cfg (fuel+1) c it ps cur rd).2.2 = (it, cur) ∧
       (parseExtend cfg (fuel+1) c it ps cur rd).2.1.afterStart = ps.afterStart ∧
       (parseExtend cfg (fuel+1) c it ps cur rd).2.1.dirStart = ps.dirStart ∧
       ((parseExtend cfg (fuel+1) c it ps cur rd).2.1.globstar = ps.globstar ∨ it.rest.head? = some '(')) ∧
    ∃ new, (parseExtend cfg (fuel+1) c it ps cur rd).2.2.2 = new ++ cur ∧ NoBar new := by
  rw [HF.parseExtend_eq]
  have hfail : ∀ ps' : PS, (ps'.globstar = ps.globstar ∨ it.rest.head? = some '(') →
      (false, HF.peFail ps ps', it, cur).2.1.inList = false ∧
      ((false, HF.peFail ps ps', it, cur).1 = false →
        (false, HF.peFail ps ps', it, cur).2.2 = (it, cur) ∧
        (false, HF.peFail ps ps', it, cur).2.1.afterStart = ps.afterStart ∧
        (false, HF.peFail ps ps', it, cur).2.1.dirStart = ps.dirStart ∧
        ((false, HF.peFail ps ps', it, cur).2.1.globstar = ps.globstar ∨ it.rest.head? = some '(')) ∧
      ∃ new, (false, HF.peFail ps ps', it, cur).2.2.2 = new ++ cur ∧ NoBar new := by
    intro ps' hg
    refine ⟨HF.peFinish_inList _ _ _ hl, fun _ => ⟨rfl, ?_, ?_, ?_⟩, [], rfl, NoBar.nil⟩
    · simp [HF.peFail, HF.peFinish_fail_afterStart]
    · simp [HF.peFail, HF.peFinish_fail_dirStart]
    · rcases hg with hg | hg
      · left; simpa using hg
      · exact Or.inr hg
  split
  · exact hfail _ (Or.inl (by simp))
  · rename_i c1 it1 hn
    split
    · exact hfail _ (Or.inl (by simp))
    · rename_i hc
      have hc1 : c1 = '(' := by simpa using hc
      have hh : it.rest.head? = some '(' := by
        have hn' : it.next = some (c1, it1) := hn
        unfold It.next at hn'
        split at hn'
        · cases hn'
        · rename_i d r hr; injection hn' with hn'; injection hn' with h1 _; rw [hr, ← hc1, ← h1]; rfl
      split
      · exact hfail _ (Or.inr hh)
      · rename_i ps2 it2 extended h
        simp only [hl, Bool.false_eq_true, if_false]
        refine ⟨HF.peFinish_inList _ _ _ hl, ?_, ?_⟩
        · intro hc; cases hc
        · exact HF.peBuild_new cfg c ps extended.reverse cur ps2

theorem hsSel_ps (cfg : Cfg) (ps : PS) (it : It) (c0 : Bool) :
    (hsSel cfg ps it c0).2.2.2.inList = ps.inList ∧
    (hsSel cfg ps it c0).2.2.2.afterStart = ps.afterStart := by
  unfold hsSel
  repeat' split
  all_goals exact ⟨rfl, rfl⟩

/-- `_handle_star` at top level as stack edits -/
theorem handleStar_steps (cfg : Cfg) (h : PathUnix cfg) (ps : PS) (it : It) (cur : List Item) :
    TSteps cur (handleStar cfg ps it cur).2.2 ∧ (handleStar cfg ps it cur).1.inList = ps.inList := by
  rw [handleStar_eq]
  generalize (hsStar cfg ps).1 = star
  generalize (hsStar cfg ps).2 = globstar
  have := hsSel_ps cfg ps it (cfg.pathname && cfg.globstarCapture)
  generalize hsSel cfg ps it (cfg.pathname && cfg.globstarCapture) = t at this
  obtain ⟨isGlob, capture, it', ps'⟩ := t
  obtain ⟨h1, _⟩ := this
  simp only at h1
  unfold hsBody
  simp only [h.win]
  split
  · exact ⟨.one (.push _ _ rfl), by simp [h1]⟩
  · split
    · rename_i last before
      split
      · exact ⟨.refl _, by simp [h1]⟩
      · refine ⟨?_, by simp [h1]⟩
        simp only
        split
        · rename_i he
          have : last = .empty := by cases last <;> simp [Item.isEmpty] at he ⊢
          subst this
          exact (TSteps.one (.drop _)).trans ((TSteps.one (.push _ _ rfl)).trans (.one (.push _ _ rfl)))
        · exact (TSteps.one (.swap last _ _ refuse_needSep)).trans
            ((TSteps.one (.push _ _ rfl)).trans (.one (.push _ _ rfl)))
    · exact ⟨.refl _, by simp [h1]⟩

theorem references_inList (cfg : Cfg) (ps : PS) (it : It) (v : Re) (it' : It) (ps' : PS)
    (h : references cfg ps it = .val v it' ps') : ps'.inList = ps.inList := by
  rcases references_ps cfg ps it v it' ps' h with rfl | rfl <;> rfl

/-- one top-level character that is not (the start of) a group that parses -/
theorem rootPlain_steps (cfg : Cfg) (h : PathUnix cfg) (c : Char) (it : It) (ps : PS) (cur : List Item) :
    TSteps cur (HF.rootPlain cfg c it ps cur).2.2 ∧ (HF.rootPlain cfg c it ps cur).2.1.inList = ps.inList := by
  unfold HF.rootPlain
  split
  · exact ⟨.one (.push _ _ rfl), by simp⟩
  split
  · obtain ⟨h1, h2⟩ := handleStar_steps cfg h ps it cur
    exact ⟨h1, by simpa using h2⟩
  split
  · exact ⟨.one (.push _ _ rfl), by simp [HF.qmarkItem_eq]⟩
  split
  · simp only [h.pathname, if_true]
    exact ⟨(cleanUpInverse_step cfg _ cur false).trans (.one (.push _ _ rfl)),
      by simp [cleanUpInverse_inList]⟩
  split
  · split
    · rename_i v it' ps' hr
      have hi := references_inList cfg ps it v it' ps' hr
      split
      · exact ⟨(cleanUpInverse_step cfg _ cur false).trans (.one (.push _ _ rfl)),
          by simp [cleanUpInverse_inList, hi]⟩
      · exact ⟨.one (.push _ _ rfl), by simp [hi]⟩
    · exact ⟨.refl _, rfl⟩
    · exact ⟨.refl _, by simp⟩
  split
  · split
    · rename_i r ps' it' hs
      refine ⟨.one (.push _ _ rfl), ?_⟩
      rcases HF.sequence_ps cfg _ _ _ _ _ hs with h | h <;> rw [h] <;> simp
    · exact ⟨.one (.push _ _ rfl), by simp⟩
  · exact ⟨.one (.push _ _ rfl), by simp⟩

theorem rootTok_steps (cfg : Cfg) (h : PathUnix cfg) (c : Char) (it : It) (ps : PS) (cur : List Item)
    (hl : ps.inList = false) :
    TSteps cur (HF.rootTok cfg c it ps cur).2.2 ∧ (HF.rootTok cfg c it ps cur).2.1.inList = false := by
  unfold HF.rootTok
  split
  · obtain ⟨h1, _, new, h3, h4⟩ := parseExtend_top' cfg (2 * it.rest.length + 7) c it ps cur true hl
    simp only []
    split
    · exact ⟨by rw [h3]; exact TSteps.pushes new cur h4, by simpa using h1⟩
    · obtain ⟨q1, q2⟩ := rootPlain_steps cfg h c it (parseExtend cfg (2 * it.rest.length + 8) c it ps cur true).2.1 cur
      exact ⟨q1, by rw [q2]; exact h1⟩
  · obtain ⟨q1, q2⟩ := rootPlain_steps cfg h c it ps cur
    exact ⟨q1, by rw [q2]; exact hl⟩

/-- **the whole top-level loop is a sequence of stack edits** -/
theorem rootLoop_steps (cfg : Cfg) (h : PathUnix cfg) :
    ∀ (fuel : Nat) (it : It) (ps : PS) (cur : List Item), ps.inList = false →
      TSteps cur (rootLoop cfg fuel it ps cur).2 := by
  intro fuel
  induction fuel with
  | zero => intro it ps cur _; rw [rootLoop]; exact .refl _
  | succ fuel ih =>
    intro it ps cur hl
    rw [HF.rootLoop_eq]
    split
    · exact .refl _
    · rename_i c it1 _
      obtain ⟨h1, h2⟩ := rootTok_steps cfg h c it1 ps cur hl
      exact h1.trans (ih _ _ _ h2)


/-! ## Part C: the first tokens of a segment -/

theorem dropWhileCount_ge (c : Char) : ∀ (l : List Char) (n : Nat), n ≤ (dropWhileCount c l n).1
  | [], n => by simp [dropWhileCount]
  | d :: r, n => by
    unfold dropWhileCount
    split
    · exact Nat.le_trans (Nat.le_succ n) (dropWhileCount_ge c r (n+1))
    · exact Nat.le_refl _

theorem dropWhileCount_ne (c : Char) (l : List Char) (n : Nat) (h : l.head? ≠ some c) :
    dropWhileCount c l n = (n, l) := by
  cases l with
  | nil => rfl
  | cons d r =>
    have : d ≠ c := fun hd => h (by simp [hd])
    simp [dropWhileCount, this]

/-- reading one more star first: the same result, unless that star stands directly before `(` -/
theorem dropStars_star (e : Bool) (i : Nat) (r : List Char) :
    dropStars e ⟨i, '*' :: r⟩ =
      if e && r.head? = some '(' then ⟨i, '*' :: r⟩ else dropStars e ⟨i + 1, r⟩ := by
  unfold dropStars
  have h0 : dropWhileCount '*' ('*' :: r) i = dropWhileCount '*' r (i + 1) := by simp [dropWhileCount]
  simp only [h0]
  by_cases hp : r.head? = some '('
  · have h1 : dropWhileCount '*' r (i + 1) = (i + 1, r) := dropWhileCount_ne '*' r (i+1) (by rw [hp]; decide)
    simp only [h1, hp]
    cases e <;> simp
  · have hge := dropWhileCount_ge '*' r (i + 1)
    simp only [hp, decide_false, Bool.and_false, Bool.false_eq_true, if_false]
    by_cases hs : r.head? = some '*'
    · cases r with
      | nil => simp at hs
      | cons d r' =>
        simp at hs; subst hs
        have h2 : dropWhileCount '*' ('*' :: r') (i + 1) = dropWhileCount '*' r' (i + 2) := by simp [dropWhileCount]
        have hge2 := dropWhileCount_ge '*' r' (i + 2)
        rw [h2]
        have a1 : decide ((dropWhileCount '*' r' (i + 2)).1 > i) = true := by simp; omega
        have a2 : decide ((dropWhileCount '*' r' (i + 2)).1 > i + 1) = true := by simp; omega
        simp only [a1, a2]
    · have h1 : dropWhileCount '*' r (i + 1) = (i + 1, r) := dropWhileCount_ne '*' r (i+1) hs
      simp only [h1, hp]
      simp

/-- what may follow the stars of a globstar: the end, a separator, an escaped separator, a lone backslash -/
def gsTail : List Char → Bool
  | [] => true
  | '/' :: _ => true
  | ['\\'] => true
  | '\\' :: '/' :: _ => true
  | _ => false

/-- does the text begin with a globstar token (`**`, or `***` under GLOBSTARLONG, followed by `gsTail`)? -/
def gsText (long : Bool) : List Char → Bool
  | '*' :: '*' :: r =>
    if long then (match r with | '*' :: r' => gsTail r' | _ => gsTail r) else gsTail r
  | _ => false

/-- the look-ahead after the stars of a would-be globstar (the second `match` of `hsSel`) -/
theorem hsSel_tail (cfg : Cfg) (h : PathUnix cfg) (ps : PS) (cap : Bool) (j : Nat) (r : List Char) (prev : It)
    (hg : gsTail r = false) :
    (match (⟨j, r⟩ : It).next with
        | none => (true, cap, (⟨j, r⟩ : It), ps)
        | some (c, it1) =>
          if c = '\\' then
            match referencesSeq cfg it1 with
            | .val _ _ => (false, cap, ⟨j, r⟩, ps)
            | .dot _ => (false, cap, ⟨j, r⟩, ps)
            | .pathname => (true, cap, it1.advance 1, { ps with matchbase := false })
            | .stop => (true, cap, it1, ps)
          else if c = '/' then (true, cap, it1, { ps with matchbase := false })
          else if c = '(' && cfg.extend then (false, cap, prev, ps)
          else (false, cap, ⟨j, r⟩, ps) : Bool × Bool × It × PS) =
      (false, cap, if r.head? = some '(' ∧ cfg.extend = true then prev else ⟨j, r⟩, ps) := by
  cases r with
  | nil => simp [gsTail] at hg
  | cons c r1 =>
    simp only [It.next]
    by_cases h1 : c = '\\'
    · subst h1
      simp only [if_true]
      cases r1 with
      | nil => simp [gsTail] at hg
      | cons d r2 =>
        have hd : d ≠ '/' := by intro hd; subst hd; simp [gsTail] at hg
        simp only [referencesSeq, It.next, h.bslash, h.unix, hd, if_false, Bool.false_eq_true, Bool.not_true]
        by_cases h2 : d = '\\'
        · simp [h2]
        · by_cases h3 : d = '.'
          · simp [h3]
          · simp [h2, h3]
    · have h2 : c ≠ '/' := by intro hd; subst hd; simp [gsTail] at hg
      simp only [h1, h2, if_false]
      by_cases h3 : c = '(' ∧ cfg.extend = true
      · simp [h3.1, h3.2]
      · have a1 : ¬ ((decide (c = '(') && cfg.extend) = true) := by simpa using h3
        have a2 : ¬ ((c :: r1).head? = some '(' ∧ cfg.extend = true) := by simpa using h3
        rw [if_neg a1, if_neg a2]


/-- **a `*` that is not a globstar**: the selector reports "no globstar", leaves the state alone,
    and the iterator it returns leads `dropStars` to the same place as the one it was given -/
theorem hsSel_nonglob (cfg : Cfg) (h : PathUnix cfg) (ps : PS) (i : Nat) (rest : List Char) (c0 : Bool)
    (hg : ps.globstar = true → gsText cfg.globstarlong ('*' :: rest) = false) :
    ∃ cap it', hsSel cfg ps ⟨i, rest⟩ c0 = (false, cap, it', ps) ∧
      dropStars cfg.extend it' = dropStars cfg.extend ⟨i, rest⟩ := by
  unfold hsSel
  by_cases hcond : (ps.afterStart && ps.globstar && !ps.inList) = true
  · have hgs : ps.globstar = true := by
      simp only [Bool.and_eq_true] at hcond; exact hcond.1.2
    have hg' := hg hgs
    rw [if_pos hcond]
    cases rest with
    | nil => exact ⟨c0, ⟨i, []⟩, by simp [It.next], rfl⟩
    | cons c r1 =>
      by_cases hc : c = '*'
      · subst hc
        have e1 : (⟨i, '*' :: r1⟩ : It).next = some ('*', ⟨i + 1, r1⟩) := rfl
        simp only [e1, bne_self_eq_false, Bool.false_eq_true, if_false]
        by_cases hl : cfg.globstarlong = true
        · simp only [hl, if_true] at hg' ⊢
          cases r1 with
          | nil => simp [gsText, gsTail] at hg'
          | cons c2 r2 =>
            by_cases hc2 : c2 = '*'
            · subst hc2
              simp only [gsText, if_true] at hg'
              have e2 : (⟨i + 1, '*' :: r2⟩ : It).next = some ('*', ⟨i + 1 + 1, r2⟩) := rfl
              simp only [e2, bne_self_eq_false, Bool.false_eq_true, if_false]
              refine ⟨false, _, hsSel_tail cfg h ps false (i + 1 + 1) r2 ⟨i + 1, '*' :: r2⟩ hg', ?_⟩
              rw [dropStars_star cfg.extend i ('*' :: r2), dropStars_star cfg.extend (i + 1) r2]
              by_cases hp : r2.head? = some '(' ∧ cfg.extend = true
              · simp [hp.1, hp.2, dropStars_star]
              · rw [if_neg hp]
                have : ¬ ((cfg.extend && decide (r2.head? = some '(')) = true) := by
                  simp only [Bool.and_eq_true, decide_eq_true_eq]; exact fun hh => hp ⟨hh.2, hh.1⟩
                simp [this]
            · have hg2 : gsTail (c2 :: r2) = false := by
                simp only [gsText, if_true] at hg'
                split at hg'
                · rename_i heq; injection heq with heq _; exact absurd heq hc2
                · exact hg'
              have hne : (c2 != '*') = true := by simpa using hc2
              have e2 : (⟨i + 1, c2 :: r2⟩ : It).next = some (c2, ⟨i + 1 + 1, r2⟩) := rfl
              simp only [e2, hne, if_true]
              refine ⟨c0, _, hsSel_tail cfg h ps c0 (i + 1) (c2 :: r2) ⟨i, '*' :: c2 :: r2⟩ hg2, ?_⟩
              rw [dropStars_star cfg.extend i (c2 :: r2)]
              by_cases hp : (c2 :: r2).head? = some '(' ∧ cfg.extend = true
              · rw [if_pos hp]
                have : (cfg.extend && decide ((c2 :: r2).head? = some '(')) = true := by simp [hp.1, hp.2]
                rw [if_pos this, dropStars_star cfg.extend i (c2 :: r2), if_pos this]
              · rw [if_neg hp]
                have : ¬ ((cfg.extend && decide ((c2 :: r2).head? = some '(')) = true) := by
                  simp only [Bool.and_eq_true, decide_eq_true_eq]; exact fun hh => hp ⟨hh.2, hh.1⟩
                rw [if_neg this]
        · have hl' : cfg.globstarlong = false := by simpa using hl
          simp only [hl', Bool.false_eq_true, if_false] at hg' ⊢
          have hg2 : gsTail r1 = false := by simpa [gsText] using hg'
          refine ⟨c0, _, hsSel_tail cfg h ps c0 (i + 1) r1 ⟨i, '*' :: r1⟩ hg2, ?_⟩
          rw [dropStars_star cfg.extend i r1]
          by_cases hp : r1.head? = some '(' ∧ cfg.extend = true
          · rw [if_pos hp]
            have : (cfg.extend && decide (r1.head? = some '(')) = true := by simp [hp.1, hp.2]
            rw [if_pos this, dropStars_star cfg.extend i r1, if_pos this]
          · rw [if_neg hp]
            have : ¬ ((cfg.extend && decide (r1.head? = some '(')) = true) := by
              simp only [Bool.and_eq_true, decide_eq_true_eq]; exact fun hh => hp ⟨hh.2, hh.1⟩
            rw [if_neg this]
      · have hne : (c != '*') = true := by simpa using hc
        exact ⟨c0, ⟨i, c :: r1⟩, by simp [It.next, hne], rfl⟩
  · rw [if_neg hcond]
    exact ⟨c0, ⟨i, rest⟩, rfl, rfl⟩


/-- the segment-start star item of path mode without DOTGLOB -/
def starItem : Item := .re (.cat (Frag.needCharPath false) (Frag.pathStarDot2 false))

theorem handleStar_nonglob (cfg : Cfg) (h : PathCfg cfg) (ps : PS) (i : Nat) (rest : List Char) (cur : List Item)
    (ha : ps.afterStart = true)
    (hg : ps.globstar = true → gsText cfg.globstarlong ('*' :: rest) = false) :
    handleStar cfg ps ⟨i, rest⟩ cur = (ps.resetDirTrack, dropStars cfg.extend ⟨i, rest⟩, starItem :: cur) := by
  rw [handleStar_eq]
  obtain ⟨cap, it', e1, e2⟩ := hsSel_nonglob cfg h.toPathUnix ps i rest (cfg.pathname && cfg.globstarCapture) hg
  rw [e1]
  unfold hsBody hsStar
  simp [ha, h.pathname, h.dot, h.needChar, h.win, e2, starItem]

theorem restrictSequence_fst_path (cfg : Cfg) (h : PathCfg cfg) (ps : PS) (ha : ps.afterStart = true) :
    (restrictSequence cfg ps).1 = guard2 := by
  simp [restrictSequence, h.pathname, h.dot, ha, h.win, guard2]

/-- an escaped character outside brackets, path mode, top level -/
theorem references_path (cfg : Cfg) (h : PathUnix cfg) (ps : PS) (hl : ps.inList = false) (i : Nat) (d : Char)
    (r : List Char) (hd : d ≠ '.') :
    references cfg ps ⟨i, d :: r⟩ =
      if d = '/' then .val (Frag.sepPlus false) ⟨i + 1, r⟩ ps.setStartDir
      else .val (.lit d) ⟨i + 1, r⟩ ps := by
  unfold references
  simp only [It.next, h.bslash, h.unix, h.pathname, h.win, hl, Bool.false_eq_true, if_false, Bool.not_true,
    Bool.not_false, if_true, hd]
  by_cases h1 : d = '\\'
  · subst h1; simp
  · by_cases h2 : d = '/'
    · subst h2; simp
    · simp [h1, h2]

/-- a first character of a segment that is neither a star, nor a written dot, nor (the start of) a
    group that parses pushes one item that refuses a dot -/
theorem rootPlain_first_path (cfg : Cfg) (h : PathCfg cfg) (c : Char) (it : It) (ps : PS) (cur : List Item)
    (hl : ps.inList = false) (ha : ps.afterStart = true) (hds : ps.dirStart = false)
    (hc : c ≠ '.') (hst : c ≠ '*') (hbs : c = '\\' → ∃ d r, it.rest = d :: r ∧ d ≠ '.') :
    ∃ x cur', DotRefusing x ∧ (HF.rootPlain cfg c it ps cur).2.2 = .re x :: cur' ∧
      Rel cur.reverse cur'.reverse := by
  unfold HF.rootPlain
  rw [if_neg hc, if_neg hst]
  split
  · refine ⟨catE (restrictSequence cfg ps).1 Frag.qmark, cur, ?_, rfl, Rel.refl _⟩
    rw [restrictSequence_fst_path cfg h ps ha]; exact refuse_catE_guard2 _
  split
  · simp only [h.pathname, if_true, h.win]
    exact ⟨_, _, refuse_sepPlus, rfl, HF.cleanUpInverse_rel cfg _ cur false⟩
  split
  · rename_i hb
    obtain ⟨d, r, hr, hd⟩ := hbs hb
    obtain ⟨i, rest⟩ := it
    simp only at hr
    subst hr
    rw [references_path cfg h.toPathUnix ps hl i d r hd]
    by_cases h2 : d = '/'
    · simp only [h2, if_true, PS.setStartDir]
      exact ⟨_, _, refuse_sepPlus, rfl, HF.cleanUpInverse_rel cfg _ cur false⟩
    · simp only [h2, if_false, hds, Bool.false_eq_true]
      exact ⟨_, _, HF.refuse_lit hd, rfl, Rel.refl _⟩
  split
  · split
    · rename_i r ps' it' hs
      obtain ⟨cls, hcls⟩ := HF.sequence_shape cfg ps it r ps' it' hs
      simp only [ha, Bool.or_true, if_true] at hcls
      injection hcls with h1 _
      rw [restrictSequence_fst_path cfg h ps ha] at h1
      exact ⟨r, cur, by rw [h1]; exact refuse_catE_guard2 _, rfl, Rel.refl _⟩
    · exact ⟨_, cur, HF.refuse_lit (by decide), rfl, Rel.refl _⟩
  · exact ⟨_, cur, HF.refuse_lit hc, rfl, Rel.refl _⟩

/-- **the first token of a segment** (path mode, no DOTGLOB): a first character that is not a
    written dot opens a group that parses, or pushes one item that refuses a dot, or is a `*`
    handled by `_handle_star` in a state that is still at the segment start -/
theorem rootTok_first_path (cfg : Cfg) (h : PathCfg cfg) (c : Char) (it : It) (ps : PS) (cur : List Item)
    (hl : ps.inList = false) (ha : ps.afterStart = true) (hds : ps.dirStart = false)
    (hc : c ≠ '.') (hbs : c = '\\' → ∃ d r, it.rest = d :: r ∧ d ≠ '.') :
    (cfg.extend = true ∧ c ∈ extTypes ∧
        (parseExtend cfg (2 * it.rest.length + 8) c it ps cur true).1 = true) ∨
    (c ≠ '*' ∧ ∃ x cur', DotRefusing x ∧ (HF.rootTok cfg c it ps cur).2.2 = .re x :: cur' ∧
        Rel cur.reverse cur'.reverse) ∨
    (c = '*' ∧ ∃ ps1 : PS, ps1.inList = false ∧ ps1.afterStart = true ∧
        (ps1.globstar = ps.globstar ∨ it.rest.head? = some '(') ∧
        HF.rootTok cfg c it ps cur =
          ((handleStar cfg ps1 it cur).2.1, (handleStar cfg ps1 it cur).1.updateDirState,
            (handleStar cfg ps1 it cur).2.2)) := by
  have plain : ∀ ps1 : PS, ps1.inList = false → ps1.afterStart = true → ps1.dirStart = false →
      (ps1.globstar = ps.globstar ∨ it.rest.head? = some '(') →
      (c ≠ '*' ∧ ∃ x cur', DotRefusing x ∧ (HF.rootPlain cfg c it ps1 cur).2.2 = .re x :: cur' ∧
        Rel cur.reverse cur'.reverse) ∨
      (c = '*' ∧ ∃ ps1' : PS, ps1'.inList = false ∧ ps1'.afterStart = true ∧
        (ps1'.globstar = ps.globstar ∨ it.rest.head? = some '(') ∧
        HF.rootPlain cfg c it ps1 cur =
          ((handleStar cfg ps1' it cur).2.1, (handleStar cfg ps1' it cur).1.updateDirState,
            (handleStar cfg ps1' it cur).2.2)) := by
    intro ps1 q1 q2 q3 q4
    by_cases hst : c = '*'
    · right
      refine ⟨hst, ps1, q1, q2, q4, ?_⟩
      unfold HF.rootPlain
      rw [if_neg hc, if_pos hst]
    · left
      exact ⟨hst, rootPlain_first_path cfg h c it ps1 cur q1 q2 q3 hc hst hbs⟩
  unfold HF.rootTok
  split
  · rename_i hx
    simp only [Bool.and_eq_true, decide_eq_true_eq] at hx
    obtain ⟨h1, h2, _⟩ := parseExtend_top' cfg (2 * it.rest.length + 7) c it ps cur true hl
    simp only []
    split
    · rename_i hok
      exact Or.inl ⟨hx.1, hx.2, hok⟩
    · rename_i hno
      have hno' : (parseExtend cfg (2 * it.rest.length + 7 + 1) c it ps cur true).1 = false := by
        simpa using hno
      obtain ⟨_, e2, e3, e4⟩ := h2 hno'
      right
      exact plain _ h1 (by rw [e2]; exact ha) (by rw [e3]; exact hds) e4
  · right
    exact plain ps hl ha hds (Or.inl rfl)


/-- the text after a leading star-run continues with a *plain* token: nothing, a lone backslash, an
    escaped character other than `.`, `/`, or an ordinary character (not `.`, `*`, `?`, `[`, and not
    an extended-group opener followed by `(`) -/
def plainNext (cfg : Cfg) (r : List Char) : Bool :=
  match r with
  | [] => true
  | c :: r' =>
    if c = '\\' then (match r' with | [] => true | d :: _ => d != '.')
    else c != '.' && c != '*' && c != '?' && c != '[' &&
      !(cfg.extend && decide (c ∈ extTypes) && r'.head? == some '(')

/-- one top-level character in the middle of a segment that is a plain literal or a separator -/
theorem rootPlain_second_path (cfg : Cfg) (h : PathCfg cfg) (c : Char) (it : It) (ps : PS) (cur : List Item)
    (hl : ps.inList = false) (hds : ps.dirStart = false)
    (hc : c ≠ '.') (hst : c ≠ '*') (hq : c ≠ '?') (hbr : c ≠ '[')
    (hbs : c = '\\' → ∃ d r, it.rest = d :: r ∧ d ≠ '.') :
    ∃ x cur', DotRefusing x ∧ (HF.rootPlain cfg c it ps cur).2.2 = .re x :: cur' ∧
      Rel cur.reverse cur'.reverse := by
  unfold HF.rootPlain
  rw [if_neg hc, if_neg hst, if_neg hq]
  split
  · simp only [h.pathname, if_true, h.win]
    exact ⟨_, _, refuse_sepPlus, rfl, HF.cleanUpInverse_rel cfg _ cur false⟩
  split
  · rename_i hb
    obtain ⟨d, r, hr, hd⟩ := hbs hb
    obtain ⟨i, rest⟩ := it
    simp only at hr
    subst hr
    rw [references_path cfg h.toPathUnix ps hl i d r hd]
    by_cases h2 : d = '/'
    · simp only [h2, if_true, PS.setStartDir]
      exact ⟨_, _, refuse_sepPlus, rfl, HF.cleanUpInverse_rel cfg _ cur false⟩
    · simp only [h2, if_false, hds, Bool.false_eq_true]
      exact ⟨_, _, HF.refuse_lit hd, rfl, Rel.refl _⟩
  first | rw [if_neg hbr] | skip
  exact ⟨_, cur, HF.refuse_lit hc, rfl, Rel.refl _⟩

theorem rootLoop_nil (cfg : Cfg) (fuel i : Nat) (ps : PS) (cur : List Item) :
    rootLoop cfg fuel ⟨i, []⟩ ps cur = (ps, cur) := by
  cases fuel with
  | zero => rw [rootLoop]
  | succ f => rw [HF.rootLoop_eq]; rfl

/-- **the token after a leading star-run**: if it is plain, either the pattern is over (nothing more
    is pushed) or one item that refuses a dot is pushed -/
theorem rootLoop_second_path (cfg : Cfg) (h : PathCfg cfg) (fuel i : Nat) (r : List Char) (ps : PS)
    (cur : List Item) (hl : ps.inList = false) (hds : ps.dirStart = false)
    (hp : plainNext cfg r = true) :
    (rootLoop cfg (fuel + 1) ⟨i, r⟩ ps cur).2 = cur ∨
    ∃ x cur' it' ps', DotRefusing x ∧ Rel cur.reverse cur'.reverse ∧ ps'.inList = false ∧
      rootLoop cfg (fuel + 1) ⟨i, r⟩ ps cur = rootLoop cfg fuel it' ps' (.re x :: cur') := by
  cases r with
  | nil => left; rw [rootLoop_nil]
  | cons c r' =>
    rw [HF.rootLoop_eq]
    have e1 : (⟨i, c :: r'⟩ : It).next = some (c, ⟨i + 1, r'⟩) := rfl
    simp only [e1]
    by_cases hb : c = '\\'
    · subst hb
      have hne : (cfg.extend && decide ('\\' ∈ extTypes)) = false := by
        rw [extTypes_eq]; simp
      cases r' with
      | nil =>
        left
        have : HF.rootTok cfg '\\' ⟨i + 1, []⟩ ps cur = (⟨i + 1, []⟩, ps.updateDirState, cur) := by
          unfold HF.rootTok
          rw [hne]
          simp [HF.rootPlain, references, It.next]
        rw [this, rootLoop_nil]
      | cons d r'' =>
        right
        have hd : d ≠ '.' := by simpa [plainNext] using hp
        have hs := rootTok_steps cfg h.toPathUnix '\\' ⟨i + 1, d :: r''⟩ ps cur hl
        have htok : HF.rootTok cfg '\\' ⟨i + 1, d :: r''⟩ ps cur =
            HF.rootPlain cfg '\\' ⟨i + 1, d :: r''⟩ ps cur := by
          unfold HF.rootTok; rw [hne]; rfl
        obtain ⟨x, cur', hx, he, hrel⟩ := rootPlain_second_path cfg h '\\' ⟨i + 1, d :: r''⟩ ps cur hl hds
          (by decide) (by decide) (by decide) (by decide) (fun _ => ⟨d, r'', rfl, hd⟩)
        refine ⟨x, cur', (HF.rootTok cfg '\\' ⟨i + 1, d :: r''⟩ ps cur).1,
          (HF.rootTok cfg '\\' ⟨i + 1, d :: r''⟩ ps cur).2.1, hx, hrel, hs.2, ?_⟩
        rw [← he, htok]
    · simp only [plainNext, hb, if_false, Bool.and_eq_true, bne_iff_ne, ne_eq, Bool.not_eq_true',
        Bool.and_eq_false_iff, decide_eq_false_iff_not, beq_eq_false_iff_ne] at hp
      obtain ⟨⟨⟨⟨hc, hst⟩, hq⟩, hbr⟩, hext⟩ := hp
      right
      have hs := rootTok_steps cfg h.toPathUnix c ⟨i + 1, r'⟩ ps cur hl
      have key : ∃ ps1 : PS, ps1.inList = false ∧ ps1.dirStart = false ∧
          HF.rootTok cfg c ⟨i + 1, r'⟩ ps cur = HF.rootPlain cfg c ⟨i + 1, r'⟩ ps1 cur := by
        unfold HF.rootTok
        split
        · rename_i hx
          simp only [Bool.and_eq_true, decide_eq_true_eq] at hx
          obtain ⟨h1, h2, _⟩ := parseExtend_top' cfg (2 * r'.length + 7) c ⟨i + 1, r'⟩ ps cur true hl
          simp only []
          split
          · rename_i hok
            exfalso
            obtain ⟨_, _, _, hh⟩ := HF.parseExtend_ok_top cfg (2 * r'.length + 7) c ⟨i + 1, r'⟩ ps cur true hl hok
            simp only at hh
            rcases hext with (h5 | h5) | h5
            · rw [hx.1] at h5; cases h5
            · exact h5 hx.2
            · exact h5 hh
          · rename_i hno
            have hno' : (parseExtend cfg (2 * r'.length + 7 + 1) c ⟨i + 1, r'⟩ ps cur true).1 = false := by
              simpa using hno
            obtain ⟨_, _, e3, _⟩ := h2 hno'
            exact ⟨_, h1, by rw [e3]; exact hds, rfl⟩
        · exact ⟨ps, hl, hds, rfl⟩
      obtain ⟨ps1, q1, q2, q3⟩ := key
      obtain ⟨x, cur', hx, he, hrel⟩ := rootPlain_second_path cfg h c ⟨i + 1, r'⟩ ps1 cur q1 q2
        hc hst hq hbr (fun hh => absurd hh hb)
      refine ⟨x, cur', (HF.rootTok cfg c ⟨i + 1, r'⟩ ps cur).1,
        (HF.rootTok cfg c ⟨i + 1, r'⟩ ps cur).2.1, hx, hrel, hs.2, ?_⟩
      rw [← he, q3]


/-- `root` in path mode on Unix rules -/
theorem root_path (cfg : Cfg) (h : PathUnix cfg) (drive : List Char → DriveInfo) (p : List Char) (ps : PS)
    (cur : List Item) :
    root cfg drive p ps cur =
      if cfg.noAbs = true ∧ p.head? = some '/' then .error .noAbsolute
      else
        .ok ((cleanUpInverse cfg
              (rootLoop cfg (p.length + 1) ⟨0, p⟩
                (if p.head? = some '/' then { ps.setAfterStart with matchbase := false, extmatchbase := false }
                 else ps.setAfterStart)
                (if p.head? ≠ some '/' ∧ cfg.realpath = true then .empty :: .re Frag.noRoot :: cur else cur)).1
              (rootLoop cfg (p.length + 1) ⟨0, p⟩
                (if p.head? = some '/' then { ps.setAfterStart with matchbase := false, extmatchbase := false }
                 else ps.setAfterStart)
                (if p.head? ≠ some '/' ∧ cfg.realpath = true then .empty :: .re Frag.noRoot :: cur else cur)).2
              false).2,
            .re (Frag.pathTrail false) :: (cleanUpInverse cfg
              (rootLoop cfg (p.length + 1) ⟨0, p⟩
                (if p.head? = some '/' then { ps.setAfterStart with matchbase := false, extmatchbase := false }
                 else ps.setAfterStart)
                (if p.head? ≠ some '/' ∧ cfg.realpath = true then .empty :: .re Frag.noRoot :: cur else cur)).1
              (rootLoop cfg (p.length + 1) ⟨0, p⟩
                (if p.head? = some '/' then { ps.setAfterStart with matchbase := false, extmatchbase := false }
                 else ps.setAfterStart)
                (if p.head? ≠ some '/' ∧ cfg.realpath = true then .empty :: .re Frag.noRoot :: cur else cur)).2
              false).1) := by
  rw [root_eq]
  unfold rootPre rootPost
  by_cases hh : p.head? = some '/'
  · by_cases hna : cfg.noAbs = true
    · simp [hh, hna, h.wdd, h.pathname]
    · simp [hh, hna, h.wdd, h.pathname, h.win]
  · by_cases hna : cfg.noAbs = true <;> by_cases hr : cfg.realpath = true <;>
      simp [hh, hna, hr, h.wdd, h.pathname, h.win]

end HP
end WcModel

import WcModel.Proofs.HiddenLowerSeg
import WcModel.Proofs.CompPathGlob
/-
  Whole path patterns WITHOUT the visibility hypothesis on the subject — part 1:
    * the executable specification cut segment by segment under an arbitrary dot rule
      (`SpecAtR`, rule-generic versions of `spec_pat_cons`, `spec_sep`, `spec_glob_end`,
      `spec_glob_cons`; the globstar clauses now carry "the pieces it stands for are visible");
    * one compiled segment followed by the rest of the pattern, against `segMatch` under `.must`
      (lower bound, `segThen_must`) and under `.may` (upper bound, `segThen_may`).
-/
namespace WcModel.HL

/-- `SpecAt` (Proofs/CompPathGlob.lean) under an arbitrary dot rule -/
def SpecAtR (ctx : PCtx) (rl : DotRule) (tr : Bool) (segs : List Seg) (sb : Bool) (t : List Char) : Prop :=
  match segs with
  | [] => allSl t = true ∧ (sb = true → t ≠ [])
  | .pat _ :: _ => (if sb then t.head? = some '/' else t.head? ≠ some '/') ∧
      segsMatch ctx rl segs (pieces t) tr (decide (t.getLast? = some '/')) sb = true
  | .glob :: _ => (sb = true → t.head? = some '/') ∧
      segsMatch ctx rl segs (pieces t) tr (decide (t.getLast? = some '/')) sb = true

theorem specAtR_free (ctx : PCtx) (tr : Bool) (segs : List Seg) (sb : Bool) (t : List Char) :
    SpecAtR ctx .free tr segs sb t ↔ SpecAt ctx tr segs sb t := by
  cases segs with
  | nil => rfl
  | cons s ss => cases s <;> rfl

/-- specification: a file-name segment takes the first piece -/
theorem specR_pat_cons (ctx : PCtx) (rl : DotRule) (tr : Bool) (g : Pat) (rest : List Seg) (hgg : noGG rest = true) (t : List Char) :
    SpecAtR ctx rl tr (.pat g :: rest) false t ↔
      ∃ p r, t = p ++ r ∧ p ≠ [] ∧ '/' ∉ p ∧ AtSep r ∧ segMatch ctx rl g p = true ∧
        SpecAtR ctx rl tr rest (if rest.isEmpty then tr else true) r := by
  simp only [SpecAtR, Bool.false_eq_true, ite_false]
  constructor
  · rintro ⟨hhead, hsm⟩
    obtain ⟨p, r, e, hsl, hr⟩ := piece_decomp t
    have hpne : p ≠ [] := by
      rintro rfl
      rcases hr with rfl | ⟨r', rfl⟩
      · simp only [List.append_nil] at e
        rw [e, pieces_nil, segsMatch_pat_nil] at hsm
        exact absurd hsm (by simp)
      · simp [e] at hhead
    rw [e, pieces_append p r hsl hpne hr, segsMatch_pat_cons] at hsm
    simp only [Bool.and_eq_true] at hsm
    obtain ⟨hlang, hsm⟩ := hsm
    refine ⟨p, r, e, hpne, hsl, hr, hlang, ?_⟩
    cases rest with
    | nil =>
      rw [segsMatch_nil] at hsm
      simp only [Bool.and_eq_true, List.isEmpty_iff, Bool.or_eq_true, Bool.not_eq_true',
        decide_eq_true_eq] at hsm
      simp only [List.isEmpty_nil, ite_true]
      refine ⟨allSl_of_pieces_nil r hsm.1, ?_⟩
      intro htr hr0
      rcases hsm.2 with h | h
      · rw [h] at htr; exact absurd htr (by simp)
      · rw [hr0, List.append_nil] at h
        exact getLast_piece_ne_slash p hsl h
    | cons s2 rest2 =>
      have hrne : r ≠ [] := by
        rintro rfl
        rw [pieces_nil] at hsm
        cases s2 with
        | pat g2 => rw [segsMatch_pat_nil] at hsm; exact absurd hsm (by simp)
        | glob =>
          cases rest2 with
          | nil =>
            rw [segsMatch_glob_last] at hsm
            simp only [List.all_nil, List.isEmpty_nil, ite_true, Bool.true_or, Bool.not_true, Bool.false_or,
              Bool.true_and, decide_eq_true_eq, List.append_nil] at hsm
            exact getLast_piece_ne_slash p hsl hsm
          | cons s3 rest3 =>
            cases s3 with
            | glob => simp [noGG] at hgg
            | pat g3 =>
              rw [segsMatch_glob_cons] at hsm
              simp [segsMatch_pat_nil] at hsm
      have hlast : (p ++ r).getLast? = r.getLast? := getLast_append_ne p r hrne
      have hrhead : r.head? = some '/' := by
        rcases hr with rfl | ⟨r', rfl⟩
        · exact absurd rfl hrne
        · rfl
      rw [hlast] at hsm
      cases s2 with
      | pat g2 => exact ⟨by simpa using hrhead, hsm⟩
      | glob => exact ⟨fun _ => hrhead, hsm⟩
  · rintro ⟨p, r, e, hpne, hsl, hr, hlang, hrest⟩
    refine ⟨e ▸ head_not_slash_of_piece p r hsl hpne, ?_⟩
    rw [e, pieces_append p r hsl hpne hr, segsMatch_pat_cons, hlang, Bool.true_and]
    cases rest with
    | nil =>
      simp only [List.isEmpty_nil, ite_true] at hrest
      obtain ⟨hall, htr⟩ := hrest
      rw [pieces_allSl r hall, segsMatch_nil]
      simp only [List.isEmpty_nil, Bool.true_and, Bool.or_eq_true, Bool.not_eq_true', decide_eq_true_eq]
      cases htr' : tr with
      | false => exact Or.inl rfl
      | true =>
        right
        have hrne := htr htr'
        rw [getLast_append_ne p r hrne]
        exact allSl_getLast r hall hrne
    | cons s2 rest2 =>
      cases s2 with
      | pat g2 =>
        simp only [List.isEmpty_cons, Bool.false_eq_true, ite_false, ite_true] at hrest
        obtain ⟨hh, hsm⟩ := hrest
        have hrne : r ≠ [] := by rintro rfl; simp at hh
        rw [getLast_append_ne p r hrne]; exact hsm
      | glob =>
        simp only [List.isEmpty_cons, Bool.false_eq_true, ite_false] at hrest
        obtain ⟨hh, hsm⟩ := hrest
        have hrne : r ≠ [] := by rintro rfl; simp at hh
        rw [getLast_append_ne p r hrne]; exact hsm

/-- specification: a written separator before a file-name segment -/
theorem specR_sep (ctx : PCtx) (rl : DotRule) (tr : Bool) (g : Pat) (rest : List Seg) (t : List Char) :
    SpecAtR ctx rl tr (.pat g :: rest) true t ↔
      ∃ pre r', pre ≠ [] ∧ allSl pre = true ∧ t = pre ++ r' ∧ SpecAtR ctx rl tr (.pat g :: rest) false r' := by
  simp only [SpecAtR, ite_true, Bool.false_eq_true, ite_false]
  constructor
  · rintro ⟨hh, hsm⟩
    obtain ⟨pre, r', e, hpre, hr'head⟩ := slash_decomp t
    have hprene : pre ≠ [] := by
      rintro rfl
      simp only [List.nil_append] at e
      subst e
      exact hr'head hh
    rw [e, pieces_allSl_append pre r' hpre] at hsm
    have hr'ne : r' ≠ [] := by
      rintro rfl
      rw [pieces_nil, segsMatch_pat_nil] at hsm
      exact absurd hsm (by simp)
    rw [getLast_append_ne pre r' hr'ne, segsMatch_patfirst_asep ctx rl g rest _ _ _ true false] at hsm
    exact ⟨pre, r', hprene, hpre, e, hr'head, hsm⟩
  · rintro ⟨pre, r', hprene, hpre, e, hr'head, hsm⟩
    have hr'ne : r' ≠ [] := by
      rintro rfl
      rw [pieces_nil, segsMatch_pat_nil] at hsm
      exact absurd hsm (by simp)
    refine ⟨?_, ?_⟩
    · rw [e]
      rcases allSl_head pre hpre with rfl | ⟨x, rfl⟩
      · exact absurd rfl hprene
      · rfl
    · rw [e, pieces_allSl_append pre r' hpre, getLast_append_ne pre r' hr'ne,
        segsMatch_patfirst_asep ctx rl g rest _ _ _ true false]
      exact hsm


/-- specification: a final globstar stands for all the remaining pieces, which must be visible -/
theorem specR_glob_end (ctx : PCtx) (rl : DotRule) (tr sb f : Bool) (t : List Char)
    (hctx : if sb then AtSep t else (f = true ∧ (tr = true → t ≠ []))) :
    SpecAtR ctx rl tr [.glob] sb t ↔
      ((sb = true → t.head? = some '/') ∧ ∀ p ∈ pieces t, visible ctx.dot p = true) := by
  simp only [SpecAtR]
  constructor
  · rintro ⟨h1, h2⟩
    refine ⟨h1, ?_⟩
    rw [segsMatch_glob_last, Bool.and_eq_true, List.all_eq_true] at h2
    exact h2.1
  · rintro ⟨hsb, hvis⟩
    refine ⟨hsb, ?_⟩
    rw [segsMatch_glob_last]
    have hall : (pieces t).all (visible ctx.dot) = true := by
      rw [List.all_eq_true]; exact hvis
    rw [hall, Bool.true_and]
    cases hp : pieces t with
    | cons x xs => simp
    | nil =>
      simp only [List.isEmpty_nil, ite_true, Bool.or_eq_true, Bool.not_eq_true', Bool.or_eq_false_iff,
        decide_eq_true_eq]
      have hsl := allSl_of_pieces_nil t hp
      cases sb with
      | true =>
        right
        have hh := hsb rfl
        have hne : t ≠ [] := by rintro rfl; simp at hh
        exact allSl_getLast t hsl hne
      | false =>
        simp only [Bool.false_eq_true, ite_false] at hctx
        cases htr : tr with
        | false => exact Or.inl ⟨rfl, rfl⟩
        | true => exact Or.inr (allSl_getLast t hsl (hctx.2 htr))

/-- specification: a globstar followed by a file-name segment stands for whole, visible pieces -/
theorem specR_glob_cons (ctx : PCtx) (rl : DotRule) (tr sb f : Bool) (g2 : Pat) (ss : List Seg) (t : List Char)
    (hctx : sb = false → f = true) :
    SpecAtR ctx rl tr (.glob :: .pat g2 :: ss) sb t ↔
      ((sb = true → t.head? = some '/') ∧
        ∃ T r, t = T ++ r ∧ GapOK f T ∧ (∀ x ∈ pieces T, visible ctx.dot x = true) ∧
          SpecAtR ctx rl tr (.pat g2 :: ss) false r) := by
  simp only [SpecAtR, Bool.false_eq_true, ite_false]
  constructor
  · rintro ⟨hsb, hsm⟩
    refine ⟨hsb, ?_⟩
    rw [segsMatch_glob_cons, List.any_eq_true] at hsm
    obtain ⟨k, hk, hsm⟩ := hsm
    simp only [Bool.and_eq_true] at hsm
    have hklt : k < (pieces t).length := by
      by_cases h : k < (pieces t).length
      · exact h
      · exfalso
        have : (pieces t).drop k = [] := List.drop_eq_nil_iff.mpr (by omega)
        rw [this, segsMatch_pat_nil] at hsm
        exact absurd hsm.2 (by simp)
    obtain ⟨T, r, e, hT, hrh, hrne, hpr⟩ := split_at_piece k t hklt
    have hpT : pieces T = (pieces t).take k := by
      have h1 : pieces t = pieces T ++ pieces r := by rw [e, pieces_gap T r hT]
      have h2 : pieces T ++ (pieces t).drop k = (pieces t).take k ++ (pieces t).drop k := by
        rw [List.take_append_drop, ← hpr, ← h1]
      exact List.append_cancel_right h2
    refine ⟨T, r, e, ?_, ?_, hrh, ?_⟩
    · rcases hT with rfl | hT
      · left
        refine ⟨rfl, ?_⟩
        cases hsb' : sb with
        | false => exact hctx hsb'
        | true =>
          exfalso
          simp only [List.nil_append] at e
          subst e
          exact hrh (hsb hsb')
      · exact Or.inr hT
    · rw [hpT]
      have := hsm.1
      rw [List.all_eq_true] at this
      exact this
    · rw [hpr, ← getLast_append_ne T r hrne, ← e, segsMatch_patfirst_asep ctx rl g2 ss _ _ _ false true]
      exact hsm.2
  · rintro ⟨hsb, T, r, e, hg, hvis, hrh, hsm⟩
    refine ⟨hsb, ?_⟩
    have hrne : r ≠ [] := by
      rintro rfl
      rw [pieces_nil, segsMatch_pat_nil] at hsm
      exact absurd hsm (by simp)
    have hT : T = [] ∨ ∃ T', T = T' ++ ['/'] := by
      rcases hg with ⟨h, _⟩ | h
      · exact Or.inl h
      · exact Or.inr h
    have hp : pieces t = pieces T ++ pieces r := by rw [e, pieces_gap T r hT]
    rw [segsMatch_glob_cons, List.any_eq_true]
    refine ⟨(pieces T).length, List.mem_range.mpr (by rw [hp]; simp; omega), ?_⟩
    simp only [Bool.and_eq_true]
    refine ⟨?_, ?_⟩
    · rw [hp, List.take_left', List.all_eq_true]
      · exact hvis
      · rfl
    · rw [hp, List.drop_left, e, getLast_append_ne T r hrne,
        segsMatch_patfirst_asep ctx rl g2 ss _ _ _ true false]
      exact hsm

/-! ### `segMatch` by visibility of the piece -/

theorem segMatch_vis (ctx : PCtx) (rl : DotRule) (g : Pat) (p : List Char) (hv : visible ctx.dot p = true) :
    segMatch ctx rl g p = g.langR ctx.ci .free p := by
  simp only [visible, Bool.and_eq_true, Bool.not_eq_true', Bool.or_eq_true, bne_iff_ne, ne_eq] at hv
  unfold segMatch
  split
  · rename_i hh
    rcases hv.2 with hd | hd
    · simp [hd, hv.1]
    · exact absurd hh hd
  · rfl

theorem segMatch_hid (ctx : PCtx) (rl : DotRule) (g : Pat) (p r : List Char) (hs : HidStart ctx.dot p r) :
    segMatch ctx rl g p = g.langR ctx.ci rl p := by
  unfold segMatch
  rw [if_pos hs.head]
  rcases hs.hid with hd | hd
  · simp [hd]
  · simp [hd]

/-! ### one segment followed by the rest of the pattern -/

/-- **lower bound, one segment**: if `.must` admits the first piece and the rest of the compiled
    pattern matches what follows, the compiled segment followed by the rest matches -/
theorem segThen_must (ctx : PCtx) (g : Pat) (hn : g.negFree = true) (hs : g.noSlash = true)
    (hst : g.startSafe false = true) (R : Re) (a : St) (p r : List Char)
    (e : a.rest = p ++ r) (hne : p ≠ []) (hsl : '/' ∉ p) (hr : AtSep r)
    (hnl : ctx.dot = false ∨ a.rest.getLast? ≠ some '\n')
    (hseg : segMatch ctx .must g p = true)
    (hrest : ∃ y, y.rest = [] ∧ Re.M ⟨true, ctx.ci⟩ R ⟨false, r⟩ y) :
    ∃ y, y.rest = [] ∧ Re.M ⟨true, ctx.ci⟩ (.cat (compSeg ctx.dot true g) R) a y := by
  obtain ⟨y, hy, h2⟩ := hrest
  -- in both cases: a state `c` behind the piece, reached by the compiled segment
  have key : ∃ c, c.rest = r ∧ Re.M ⟨true, ctx.ci⟩ (compSeg ctx.dot true g) a c := by
    cases hv : visible ctx.dot p with
    | true =>
      rw [segMatch_vis ctx .must g p hv] at hseg
      obtain ⟨c, ec, hc⟩ := (L_piece_iff ctx.ci g hn a p r e).mpr ((langR_free_iff ctx.ci g p).mp hseg)
      have hps := pstart_of_piece ⟨true, ctx.ci⟩ ctx.dot a p r e hsl hne hr hv hnl
      exact ⟨c, ec, compSeg_true_complete ctx.dot ctx.ci g hn hst a c hps hc ⟨p, by rw [e, ec], hsl⟩⟩
    | false =>
      have hh := hidStart_of_not_visible (r := r) hv hne hsl hr
      rw [segMatch_hid ctx .must g p r hh] at hseg
      unfold Pat.langR at hseg
      rw [List.any_eq_true] at hseg
      obtain ⟨b', hb', hbe⟩ := hseg
      obtain ⟨b, eb, hM⟩ := compSeg_must_hidden ctx.dot ctx.ci p r hh.head hsl g hn hst b' hb' a e
      refine ⟨b, ?_, hM⟩
      rw [eb]
      simp only [List.isEmpty_iff] at hbe
      rw [hbe]; rfl
  obtain ⟨c, ec, hM⟩ := key
  have hf : c.atStart = false := by
    rcases Pat.L_suf ctx.ci g a c (compSeg_sound ctx.dot ctx.ci g hn hs true a c hM).1 with rfl | ⟨hf, _⟩
    · exfalso
      have := congrArg List.length e
      rw [ec] at this
      simp at this
      exact hne this
    · exact hf
  have hc' : c = ⟨false, r⟩ := by rcases c with ⟨cf, cr⟩; simp only at hf ec; rw [hf, ec]
  refine ⟨y, hy, ?_⟩
  rw [Re.M.eq_5]
  exact ⟨c, hM, hc' ▸ h2⟩

/-- **upper bound, one segment**: if the compiled segment followed by the rest matches, the
    segment consumed exactly one non-empty piece that `.may` admits, and the rest matches behind it -/
theorem segThen_may (ctx : PCtx) (g : Pat) (hg : g.segScope = true) (hhs : g.hiddenSafe = true) (R : Re)
    (hR : RTail ⟨true, ctx.ci⟩ R) (a : St)
    (h : ∃ y, y.rest = [] ∧ Re.M ⟨true, ctx.ci⟩ (.cat (compSeg ctx.dot true g) R) a y) :
    ∃ p r, a.rest = p ++ r ∧ p ≠ [] ∧ '/' ∉ p ∧ AtSep r ∧ segMatch ctx .may g p = true ∧
      ∃ y, y.rest = [] ∧ Re.M ⟨true, ctx.ci⟩ R ⟨false, r⟩ y := by
  obtain ⟨hn, hs, _, hnull⟩ := (segScope_iff g).mp hg
  obtain ⟨y, hy, hcat⟩ := h
  rw [Re.M.eq_5] at hcat
  obtain ⟨c, h1, h2⟩ := hcat
  obtain ⟨l, pre, e, n⟩ := compSeg_sound ctx.dot ctx.ci g hn hs true a c h1
  have hlen : c.rest.length < a.rest.length := by
    rcases compSeg_solid ctx.dot ctx.ci g hn hs true hnull a c h1 with hlt | ⟨rfl, hna⟩
    · exact hlt
    · exact absurd (hR c y h2 hy) hna
  have hpre : pre ≠ [] := by
    rintro rfl
    simp at e; rw [e] at hlen; omega
  have hf : c.atStart = false := by
    rcases Pat.L_suf ctx.ci g a c l with rfl | ⟨hf, _⟩
    · omega
    · exact hf
  have hc : c = ⟨false, c.rest⟩ := by rcases c with ⟨cf, cr⟩; simp only at hf; rw [hf]
  have hr := hR c y h2 hy
  refine ⟨pre, c.rest, e, hpre, n, hr, ?_, y, hy, by rw [← hc]; exact h2⟩
  cases hv : visible ctx.dot pre with
  | true =>
    rw [segMatch_vis ctx .may g pre hv]
    exact (langR_free_iff ctx.ci g pre).mpr ((L_piece_iff ctx.ci g hn a pre c.rest e).mp ⟨c, rfl, l⟩)
  | false =>
    have hh := hidStart_of_not_visible (r := c.rest) hv hpre n hr
    rw [segMatch_hid ctx .may g pre c.rest hh]
    have hX : g.scan .S ≠ .X := by simpa [Pat.hiddenSafe] using hhs
    have hnil : ∀ q : List Char, c.rest = q ++ c.rest → q = [] := by
      intro q eq
      have h3 := congrArg List.length eq
      rw [List.length_append] at h3
      exact List.length_eq_zero_iff.mp (by omega)
    have hfin : ∀ b' : St, b' ∈ Pat.endsR ctx.ci .may g ⟨true, pre⟩ → Sim pre c.rest .F b' c →
        g.langR ctx.ci .may pre = true := by
      intro b' hb' hF
      obtain ⟨_, _, eq, _⟩ := hF
      have := hnil _ eq
      unfold Pat.langR
      rw [List.any_eq_true]
      exact ⟨b', hb', by simp [this]⟩
    rcases compSeg_may_sim ctx.dot ctx.ci hh g hn hs .S true ⟨true, pre⟩ a c
        ⟨fun _ => rfl, fun h => by cases h⟩ ⟨rfl, e⟩ h1 with hx | ⟨b', hb', hsim⟩
    · exact absurd hx hX
    · cases hm : g.scan .S with
      | X => exact absurd hm hX
      | D => rw [hm] at hsim; exact absurd hsim id
      | S => rw [hm] at hsim; exact absurd (hnil _ hsim.2) hpre
      | H =>
        rw [hm] at hsim
        rcases hsim with h | h
        · exact absurd (hnil _ h.2) hpre
        · exact hfin b' hb' h
      | F => rw [hm] at hsim; exact hfin b' hb' hsim

end WcModel.HL

import WcModel.Proofs.BytesTwinSeq
/-
  C18 (all patterns) — the lock-step simulation.

  Two runs of the faithful pass, one under `cfg` and one under `cfg.withBytes b`, on the same
  iterator and the same parser state, keep item stacks with the same *normal form*
  (`Item.bnormL`, the item-level lift of `Re.bnorm`).  The only step where the two runs emit
  different items is `sequence` (`sequence_wb`); every other helper is natural in the
  normal form (`cleanUpGo_bnorm`, `hsBody_bnorm`, `peBuild_bnorm`, …) because all the fragments it
  emits are fixed by `Re.bnorm` and the only test on an emitted item (`Item.isDiv`) cannot
  tell a regex from its normal form (`bnorm_eq_globstarDiv`).
-/
namespace WcModel

/-! ### normal form of items -/

mutual
def Item.bnorm : Item → Item
  | .re r => .re r.bnorm
  | .empty => .empty
  | .bar => .bar
  | .group k c body => .group k c (Item.bnormL body)
  | .invOpen c body => .invOpen c (Item.bnormL body)
  | .ph star => .ph star.bnorm
  | .closed tail eop star => .closed (Item.bnormL tail) (eop.map Re.bnorm) star.bnorm
def Item.bnormL : List Item → List Item
  | [] => []
  | x :: xs => Item.bnorm x :: Item.bnormL xs
end

@[simp] theorem Item.bnormL_nil : Item.bnormL [] = [] := by simp [Item.bnormL]
@[simp] theorem Item.bnormL_cons (x : Item) (l : List Item) :
    Item.bnormL (x :: l) = x.bnorm :: Item.bnormL l := by simp [Item.bnormL]
@[simp] theorem Item.bnorm_re (r : Re) : (Item.re r).bnorm = .re r.bnorm := by simp [Item.bnorm]
@[simp] theorem Item.bnorm_empty : Item.empty.bnorm = .empty := by simp [Item.bnorm]
@[simp] theorem Item.bnorm_bar : Item.bar.bnorm = .bar := by simp [Item.bnorm]
@[simp] theorem Item.bnorm_group (k c body) :
    (Item.group k c body).bnorm = .group k c (Item.bnormL body) := by simp [Item.bnorm]
@[simp] theorem Item.bnorm_invOpen (c body) :
    (Item.invOpen c body).bnorm = .invOpen c (Item.bnormL body) := by simp [Item.bnorm]
@[simp] theorem Item.bnorm_ph (s : Re) : (Item.ph s).bnorm = .ph s.bnorm := by simp [Item.bnorm]
@[simp] theorem Item.bnorm_closed (t e s) :
    (Item.closed t e s).bnorm = .closed (Item.bnormL t) (e.map Re.bnorm) s.bnorm := by simp [Item.bnorm]

theorem Item.bnormL_eq_map (l : List Item) : Item.bnormL l = l.map Item.bnorm := by
  induction l with
  | nil => simp
  | cons x l ih => simp [ih]

@[simp] theorem Item.bnormL_append (a b : List Item) :
    Item.bnormL (a ++ b) = Item.bnormL a ++ Item.bnormL b := by
  simp [Item.bnormL_eq_map]
@[simp] theorem Item.bnormL_reverse (a : List Item) :
    Item.bnormL a.reverse = (Item.bnormL a).reverse := by
  simp [Item.bnormL_eq_map]

mutual
theorem Item.bnorm_eraseCap : ∀ x : Item, (Item.eraseCap x).bnorm = Item.eraseCap x.bnorm
  | .group k c body => by
    simp only [Item.eraseCap, Item.bnorm_group]; rw [Item.bnormL_eraseCapL body]
  | .invOpen c body => by
    simp only [Item.eraseCap, Item.bnorm_invOpen]; rw [Item.bnormL_eraseCapL body]
  | .closed tail e s => by
    simp only [Item.eraseCap, Item.bnorm_closed]; rw [Item.bnormL_eraseCapL tail]
  | .re _ => by simp [Item.eraseCap]
  | .empty => by simp [Item.eraseCap]
  | .bar => by simp [Item.eraseCap]
  | .ph _ => by simp [Item.eraseCap]
theorem Item.bnormL_eraseCapL : ∀ l : List Item,
    Item.bnormL (Item.eraseCapL l) = Item.eraseCapL (Item.bnormL l)
  | [] => by simp [Item.eraseCapL]
  | x :: xs => by
    simp only [Item.eraseCapL, Item.bnormL_cons]
    rw [Item.bnorm_eraseCap x, Item.bnormL_eraseCapL xs]
end

/-! ### `clean_up_inverse` is natural -/

theorem cleanUpGo_bnorm (cfg : Cfg) (nested : Bool) : ∀ (rev done : List Item) (n : Nat),
    cleanUpGo cfg nested (Item.bnormL rev) (Item.bnormL done) n =
      (Item.bnormL (cleanUpGo cfg nested rev done n).1, (cleanUpGo cfg nested rev done n).2) := by
  intro rev
  induction rev with
  | nil => intro done n; simp [cleanUpGo]
  | cons x rest ih =>
    intro done n
    cases x with
    | ph star =>
      simp only [Item.bnormL_cons, Item.bnorm_ph, cleanUpGo]
      rw [← ih]
      congr 1
      simp only [Item.bnormL_cons, Item.bnorm_closed]
      congr 1
      congr 1
      · split
        · rw [Item.bnormL_eraseCapL]
        · rfl
      · split <;> simp
    | re r => simp only [Item.bnormL_cons, Item.bnorm_re, cleanUpGo]; rw [← ih]; simp
    | empty => simp only [Item.bnormL_cons, Item.bnorm_empty, cleanUpGo]; rw [← ih]; simp
    | bar => simp only [Item.bnormL_cons, Item.bnorm_bar, cleanUpGo]; rw [← ih]; simp
    | group k c b => simp only [Item.bnormL_cons, Item.bnorm_group, cleanUpGo]; rw [← ih]; simp
    | invOpen c b => simp only [Item.bnormL_cons, Item.bnorm_invOpen, cleanUpGo]; rw [← ih]; simp
    | closed t e s => simp only [Item.bnormL_cons, Item.bnorm_closed, cleanUpGo]; rw [← ih]; simp

theorem cleanUpInverse_bnorm (cfg : Cfg) (ps : PS) (cur : List Item) (nested : Bool) :
    cleanUpInverse cfg ps (Item.bnormL cur) nested =
      (Item.bnormL (cleanUpInverse cfg ps cur nested).1, (cleanUpInverse cfg ps cur nested).2) := by
  unfold cleanUpInverse
  split
  · rfl
  · have := cleanUpGo_bnorm cfg nested cur [] 0
    simp only [Item.bnormL_nil] at this
    simp only [this, Item.bnormL_reverse]

/-- twin form -/
theorem cleanUpInverse_twin (cfg : Cfg) (ps : PS) {c₁ c₂ : List Item} (nested : Bool)
    (h : Item.bnormL c₁ = Item.bnormL c₂) :
    Item.bnormL (cleanUpInverse cfg ps c₁ nested).1 = Item.bnormL (cleanUpInverse cfg ps c₂ nested).1 ∧
    (cleanUpInverse cfg ps c₁ nested).2 = (cleanUpInverse cfg ps c₂ nested).2 := by
  have h1 := cleanUpInverse_bnorm cfg ps c₁ nested
  have h2 := cleanUpInverse_bnorm cfg ps c₂ nested
  rw [h] at h1
  rw [h1] at h2
  exact ⟨(Prod.mk.inj h2).1, (Prod.mk.inj h2).2⟩

/-! ### `_handle_star` is natural -/

theorem normItems_eq_sepItems {i : List ClsItem} {win : Bool} (h : normItems i = Frag.sepItems win) :
    i = Frag.sepItems win := by
  unfold normItems at h
  split at h
  · exfalso; revert h; cases win <;> decide
  · exact h

theorem bnorm_eq_globstarDiv {r : Re} {win : Bool} (h : r.bnorm = Frag.globstarDiv win) :
    r = Frag.globstarDiv win := by
  unfold Frag.globstarDiv Frag.sep at *
  cases r <;> simp only [Re.bnorm, reduceCtorEq] at h
  rename_i r1; injection h with h
  cases r1 <;> simp only [Re.bnorm, reduceCtorEq] at h
  rename_i r2; injection h with h
  cases r2 <;> simp only [Re.bnorm, reduceCtorEq] at h
  rename_i r3 r4; injection h with h3 h4
  cases r3 <;> simp only [Re.bnorm, reduceCtorEq] at h3
  cases r4 <;> simp only [Re.bnorm, reduceCtorEq] at h4
  rename_i r5 r6; injection h4 with h5 h6
  cases r5 <;> simp only [Re.bnorm, reduceCtorEq] at h5
  cases r6 <;> simp only [Re.bnorm, reduceCtorEq] at h6
  rename_i neg items; injection h6 with h7 h8
  subst h7
  rw [normItems_eq_sepItems h8]

@[simp] theorem Item.isDiv_bnorm (x : Item) (win : Bool) : x.bnorm.isDiv win = x.isDiv win := by
  cases x <;> simp only [Item.bnorm_re, Item.bnorm_empty, Item.bnorm_bar, Item.bnorm_group,
    Item.bnorm_invOpen, Item.bnorm_ph, Item.bnorm_closed, Item.isDiv]
  rename_i r
  by_cases h : r = Frag.globstarDiv win
  · subst h; simp
  · have h' : r.bnorm ≠ Frag.globstarDiv win := fun e => h (bnorm_eq_globstarDiv e)
    rw [beq_false_of_ne h, beq_false_of_ne h']

@[simp] theorem Item.isEmpty_bnorm (x : Item) : x.bnorm.isEmpty = x.isEmpty := by
  cases x <;> simp [Item.isEmpty]

theorem hsStar_bnorm (cfg : Cfg) (ps : PS) :
    (hsStar cfg ps).1.bnorm = (hsStar cfg ps).1 ∧ (hsStar cfg ps).2.bnorm = (hsStar cfg ps).2 := by
  unfold hsStar
  simp only
  repeat' split
  all_goals simp [Re.bnorm]

theorem hsBody_bnorm (cfg : Cfg) (cur : List Item) (star globstar : Re) (t : Bool × Bool × It × PS)
    (hs : star.bnorm = star) (hg : globstar.bnorm = globstar) :
    hsBody cfg (Item.bnormL cur) star globstar t =
      ((hsBody cfg cur star globstar t).1, (hsBody cfg cur star globstar t).2.1,
        Item.bnormL (hsBody cfg cur star globstar t).2.2) := by
  obtain ⟨isGlob, capture, it, ps⟩ := t
  unfold hsBody
  simp only
  split
  · split <;> simp [Re.bnorm, hs]
  · cases cur with
    | nil => simp
    | cons last before =>
      simp only [Item.bnormL_cons, Item.isDiv_bnorm, Item.isEmpty_bnorm]
      split
      · simp
      · split <;> split <;> simp [Re.bnorm, hg]

theorem handleStar_bnorm (cfg : Cfg) (ps : PS) (it : It) (cur : List Item) :
    handleStar cfg ps it (Item.bnormL cur) =
      ((handleStar cfg ps it cur).1, (handleStar cfg ps it cur).2.1,
        Item.bnormL (handleStar cfg ps it cur).2.2) := by
  rw [handleStar_eq, handleStar_eq]
  exact hsBody_bnorm cfg cur _ _ _ (hsStar_bnorm cfg ps).1 (hsStar_bnorm cfg ps).2

theorem handleStar_twin (cfg : Cfg) (ps : PS) (it : It) {c₁ c₂ : List Item}
    (h : Item.bnormL c₁ = Item.bnormL c₂) :
    (handleStar cfg ps it c₁).1 = (handleStar cfg ps it c₂).1 ∧
    (handleStar cfg ps it c₁).2.1 = (handleStar cfg ps it c₂).2.1 ∧
    Item.bnormL (handleStar cfg ps it c₁).2.2 = Item.bnormL (handleStar cfg ps it c₂).2.2 := by
  have h1 := handleStar_bnorm cfg ps it c₁
  have h2 := handleStar_bnorm cfg ps it c₂
  rw [h] at h1
  rw [h1] at h2
  have := Prod.mk.inj h2
  exact ⟨this.1, (Prod.mk.inj this.2).1, (Prod.mk.inj this.2).2⟩

/-! ### results up to normal form -/

def nPE (x : Bool × PS × It × List Item) : Bool × PS × It × List Item :=
  (x.1, x.2.1, x.2.2.1, Item.bnormL x.2.2.2)
def nEL : Except PS (PS × It × List Item) → Except PS (PS × It × List Item)
  | .ok x => .ok (x.1, x.2.1, Item.bnormL x.2.2)
  | .error p => .error p
def nRL (x : PS × List Item) : PS × List Item := (x.1, Item.bnormL x.2)

theorem sequence_twin (cfg : Cfg) (b : Bool) (ps : PS) (it : It) :
    (sequence cfg ps it = none ∧ sequence (cfg.withBytes b) ps it = none) ∨
    ∃ r₁ r₂ ps' it', sequence cfg ps it = some (r₁, ps', it') ∧
      sequence (cfg.withBytes b) ps it = some (r₂, ps', it') ∧ r₁.bnorm = r₂.bnorm := by
  have h := sequence_wb cfg b ps it
  cases h1 : sequence cfg ps it with
  | none =>
    cases h2 : sequence (cfg.withBytes b) ps it with
    | none => exact .inl ⟨rfl, rfl⟩
    | some y => rw [h1, h2] at h; simp at h
  | some x =>
    cases h2 : sequence (cfg.withBytes b) ps it with
    | none => rw [h1, h2] at h; simp at h
    | some y =>
      rw [h1, h2] at h
      simp only [Option.map_some, Option.some.injEq, seqNorm, Prod.mk.injEq] at h
      obtain ⟨r₁, ps₁, it₁⟩ := x
      obtain ⟨r₂, ps₂, it₂⟩ := y
      simp only at h
      obtain ⟨e1, e2, e3⟩ := h
      subst e2 e3
      exact .inr ⟨_, _, _, _, rfl, rfl, e1.symm⟩

/-! ### `parse_extend` -/

theorem peFinish_bnorm (ps0 : PS) (s : Bool) (ps : PS) (it : It) (cur : List Item) :
    peFinish ps0 s ps it (Item.bnormL cur) = nPE (peFinish ps0 s ps it cur) := rfl

theorem peFail_bnorm (ps0 : PS) (it : It) (cur : List Item) (ps : PS) :
    peFail ps0 it (Item.bnormL cur) ps = nPE (peFail ps0 it cur ps) := rfl

theorem peFail_twin (ps0 : PS) (it : It) {c₁ c₂ : List Item} (ps : PS)
    (h : Item.bnormL c₁ = Item.bnormL c₂) : nPE (peFail ps0 it c₁ ps) = nPE (peFail ps0 it c₂ ps) := by
  rw [← peFail_bnorm, ← peFail_bnorm, h]

theorem peBuild_wb (cfg : Cfg) (b : Bool) (ps0 : PS) (lt : Char) (cur : List Item) (ps : PS)
    (body : List Item) :
    peBuild (cfg.withBytes b) ps0 lt cur ps body = peBuild cfg ps0 lt cur ps body := rfl

theorem peClose_wb (cfg : Cfg) (b : Bool) (ps0 : PS) (it : It) (r : List Item × PS) :
    peClose (cfg.withBytes b) ps0 it r = peClose cfg ps0 it r := by
  simp only [peClose, cleanUpInverse_wb]

theorem peBuild_bnorm (cfg : Cfg) (ps0 : PS) (lt : Char) (cur : List Item) (ps : PS) (body : List Item) :
    peBuild cfg ps0 lt (Item.bnormL cur) ps (Item.bnormL body) =
      (Item.bnormL (peBuild cfg ps0 lt cur ps body).1, (peBuild cfg ps0 lt cur ps body).2) := by
  unfold peBuild
  simp only
  repeat' split
  all_goals simp [Re.bnorm]

theorem peClose_bnorm (cfg : Cfg) (ps0 : PS) (it : It) (r : List Item × PS) :
    peClose cfg ps0 it (Item.bnormL r.1, r.2) = nPE (peClose cfg ps0 it r) := by
  obtain ⟨cur, ps⟩ := r
  unfold peClose
  simp only
  split
  · rw [cleanUpInverse_bnorm]; rfl
  · rfl

theorem parseExtend_twin_step (cfg : Cfg) (b : Bool) (n : Nat)
    (hEL : ∀ it ps e₁ e₂ a' b', Item.bnormL e₁ = Item.bnormL e₂ →
      nEL (extLoop cfg n it ps e₁ a' b') = nEL (extLoop (cfg.withBytes b) n it ps e₂ a' b'))
    (lt : Char) (it : It) (ps : PS) (c₁ c₂ : List Item) (rd : Bool)
    (h : Item.bnormL c₁ = Item.bnormL c₂) :
    nPE (parseExtend cfg (n+1) lt it ps c₁ rd) =
      nPE (parseExtend (cfg.withBytes b) (n+1) lt it ps c₂ rd) := by
  rw [parseExtend_succ, parseExtend_succ]
  cases hn : it.next with
  | none => exact peFail_twin _ _ _ h
  | some p =>
    obtain ⟨c, it'⟩ := p
    simp only
    split
    · exact peFail_twin _ _ _ h
    · have := hEL it' (peEnter ps lt rd) [] [] ps.afterStart ps.invNest rfl
      generalize extLoop cfg n it' (peEnter ps lt rd) [] ps.afterStart ps.invNest = r1 at this
      generalize extLoop (cfg.withBytes b) n it' (peEnter ps lt rd) [] ps.afterStart ps.invNest = r2 at this
      cases r1 with
      | error q1 =>
        cases r2 with
        | error q2 =>
          simp only [nEL, Except.error.injEq] at this
          subst this
          exact peFail_twin _ _ _ h
        | ok y => simp [nEL] at this
      | ok x =>
        cases r2 with
        | error q2 => simp [nEL] at this
        | ok y =>
          obtain ⟨ps1, it1, x1⟩ := x
          obtain ⟨ps2, it2, x2⟩ := y
          simp only [nEL, Except.ok.injEq, Prod.mk.injEq] at this
          obtain ⟨e1, e2, e3⟩ := this
          subst e1 e2
          simp only [peBuild_wb, peClose_wb]
          rw [← peClose_bnorm, ← peClose_bnorm]
          have g1 := peBuild_bnorm cfg ps lt c₁ ps1 x1.reverse
          have g2 := peBuild_bnorm cfg ps lt c₂ ps1 x2.reverse
          rw [Item.bnormL_reverse] at g1 g2
          rw [h, e3] at g1
          rw [g1] at g2
          have g3 := Prod.mk.inj g2
          rw [g3.1, g3.2]

/-! ### the list loop -/

theorem elCont_twin (cfg : Cfg) (b : Bool) (n : Nat)
    (hEL : ∀ it ps e₁ e₂ a' b', Item.bnormL e₁ = Item.bnormL e₂ →
      nEL (extLoop cfg n it ps e₁ a' b') = nEL (extLoop (cfg.withBytes b) n it ps e₂ a' b'))
    (c : Char) (a' b' : Bool) (ps : PS) (it : It) (e₁ e₂ : List Item) (upd : Bool)
    (h : Item.bnormL e₁ = Item.bnormL e₂) :
    nEL (elCont cfg n c a' b' ps it e₁ upd) = nEL (elCont (cfg.withBytes b) n c a' b' ps it e₂ upd) := by
  unfold elCont
  simp only
  split
  · simp only [nEL, h]
  · exact hEL _ _ _ _ _ _ h

theorem elOther_twin (cfg : Cfg) (b : Bool) (n : Nat)
    (hEL : ∀ it ps e₁ e₂ a' b', Item.bnormL e₁ = Item.bnormL e₂ →
      nEL (extLoop cfg n it ps e₁ a' b') = nEL (extLoop (cfg.withBytes b) n it ps e₂ a' b'))
    (c : Char) (a' b' : Bool) (ps : PS) (it : It) (e₁ e₂ : List Item)
    (h : Item.bnormL e₁ = Item.bnormL e₂) :
    nEL (elOther cfg n c a' b' ps it e₁) = nEL (elOther (cfg.withBytes b) n c a' b' ps it e₂) := by
  have C := elCont_twin cfg b n hEL c a' b'
  unfold elOther
  simp only [handleStar_wb, handleDot_wb, qmarkItem_wb, restrictExtendedSlash_wb, cleanUpInverse_wb,
    references_wb, Cfg.wb_win, Cfg.wb_dot, Cfg.wb_nodotdir]
  split
  · -- star
    have hs := handleStar_twin cfg ps it h
    generalize handleStar cfg ps it e₁ = r1 at hs
    generalize handleStar cfg ps it e₂ = r2 at hs
    obtain ⟨p1, i1, x1⟩ := r1
    obtain ⟨p2, i2, x2⟩ := r2
    simp only at hs ⊢
    obtain ⟨rfl, rfl, hx⟩ := hs
    exact C _ _ _ _ _ hx
  split
  · -- dot
    exact C _ _ _ _ _ (by simp [h])
  split
  · -- qmark
    exact C _ _ _ _ _ (by simp [h])
  split
  · -- slash
    apply C
    split <;> simp [h]
  split
  · -- bar
    have key : Item.bnormL (if ps.invNest = true then cleanUpInverse cfg ps e₁ b' else (e₁, ps)).1 =
          Item.bnormL (if ps.invNest = true then cleanUpInverse cfg ps e₂ b' else (e₂, ps)).1 ∧
        (if ps.invNest = true then cleanUpInverse cfg ps e₁ b' else (e₁, ps)).2 =
          (if ps.invNest = true then cleanUpInverse cfg ps e₂ b' else (e₂, ps)).2 := by
      by_cases hi : ps.invNest = true
      · rw [if_pos hi, if_pos hi]; exact cleanUpInverse_twin cfg ps b' h
      · rw [if_neg hi, if_neg hi]; exact ⟨h, rfl⟩
    generalize (if ps.invNest = true then cleanUpInverse cfg ps e₁ b' else (e₁, ps)) = r1 at key
    generalize (if ps.invNest = true then cleanUpInverse cfg ps e₂ b' else (e₂, ps)) = r2 at key
    obtain ⟨x1, p1⟩ := r1
    obtain ⟨x2, p2⟩ := r2
    simp only at key ⊢
    obtain ⟨hx, rfl⟩ := key
    exact C _ _ _ _ _ (by simp [hx])
  split
  · -- backslash
    split
    · exact C _ _ _ _ _ (by simp [h])
    · exact C _ _ _ _ _ h
    · exact C _ _ _ _ _ h
  split
  · -- bracket
    rcases sequence_twin cfg b ps it with ⟨s1, s2⟩ | ⟨r₁, r₂, ps', it', s1, s2, hr⟩
    · rw [s1, s2]
      exact C _ _ _ _ _ (by simp [h])
    · rw [s1, s2]
      exact C _ _ _ _ _ (by simp [h, hr])
  split
  · exact C _ _ _ _ _ (by simp [h])
  · exact C _ _ _ _ _ h

theorem extLoop_twin_step (cfg : Cfg) (b : Bool) (n : Nat)
    (hPE : ∀ lt it ps c₁ c₂ rd, Item.bnormL c₁ = Item.bnormL c₂ →
      nPE (parseExtend cfg n lt it ps c₁ rd) = nPE (parseExtend (cfg.withBytes b) n lt it ps c₂ rd))
    (hEL : ∀ it ps e₁ e₂ a' b', Item.bnormL e₁ = Item.bnormL e₂ →
      nEL (extLoop cfg n it ps e₁ a' b') = nEL (extLoop (cfg.withBytes b) n it ps e₂ a' b'))
    (it : It) (ps : PS) (e₁ e₂ : List Item) (a' b' : Bool)
    (h : Item.bnormL e₁ = Item.bnormL e₂) :
    nEL (extLoop cfg (n+1) it ps e₁ a' b') = nEL (extLoop (cfg.withBytes b) (n+1) it ps e₂ a' b') := by
  rw [extLoop_succ, extLoop_succ]
  cases hn : it.next with
  | none => rfl
  | some p =>
    obtain ⟨c, it'⟩ := p
    simp only [Cfg.wb_extend]
    have hpe := hPE c it' ps e₁ e₂ false h
    generalize parseExtend cfg n c it' ps e₁ false = r1 at hpe
    generalize parseExtend (cfg.withBytes b) n c it' ps e₂ false = r2 at hpe
    obtain ⟨b1, p1, i1, x1⟩ := r1
    obtain ⟨b2, p2, i2, x2⟩ := r2
    simp only [nPE, Prod.mk.injEq] at hpe
    obtain ⟨rfl, rfl, rfl, hx⟩ := hpe
    by_cases hx' : (cfg.extend && decide (c ∈ extTypes)) = true
    · simp only [hx', if_true]
      cases b1
      · simp only
        exact elOther_twin cfg b n hEL c a' b' p1 it' e₁ e₂ h
      · simp only
        exact elCont_twin cfg b n hEL c a' b' _ _ _ _ _ hx
    · simp only [hx']
      exact elOther_twin cfg b n hEL c a' b' ps it' e₁ e₂ h

theorem ext_twin (cfg : Cfg) (b : Bool) : ∀ n : Nat,
    (∀ lt it ps c₁ c₂ rd, Item.bnormL c₁ = Item.bnormL c₂ →
      nPE (parseExtend cfg n lt it ps c₁ rd) = nPE (parseExtend (cfg.withBytes b) n lt it ps c₂ rd)) ∧
    (∀ it ps e₁ e₂ a' b', Item.bnormL e₁ = Item.bnormL e₂ →
      nEL (extLoop cfg n it ps e₁ a' b') = nEL (extLoop (cfg.withBytes b) n it ps e₂ a' b'))
  | 0 => by
    refine ⟨fun lt it ps c₁ c₂ rd h => ?_, fun it ps e₁ e₂ a' b' h => ?_⟩
    · rw [parseExtend, parseExtend]; simp only [nPE, h]
    · rw [extLoop, extLoop]
  | n+1 =>
    have ih := ext_twin cfg b n
    ⟨parseExtend_twin_step cfg b n ih.2, extLoop_twin_step cfg b n ih.1 ih.2⟩

/-! ### the top-level loop -/

theorem rlOther_twin (cfg : Cfg) (b : Bool) (n : Nat)
    (ih : ∀ it ps c₁ c₂, Item.bnormL c₁ = Item.bnormL c₂ →
      nRL (rootLoop cfg n it ps c₁) = nRL (rootLoop (cfg.withBytes b) n it ps c₂))
    (c : Char) (ps : PS) (it : It) (c₁ c₂ : List Item) (h : Item.bnormL c₁ = Item.bnormL c₂) :
    nRL (rlOther cfg n c ps it c₁) = nRL (rlOther (cfg.withBytes b) n c ps it c₂) := by
  unfold rlOther
  simp only [handleStar_wb, handleDot_wb, qmarkItem_wb, cleanUpInverse_wb, references_wb,
    consumePathSep_wb, Cfg.wb_win, Cfg.wb_pathname]
  split
  · exact ih _ _ _ _ (by simp [h])
  split
  · have hs := handleStar_twin cfg ps it h
    generalize handleStar cfg ps it c₁ = r1 at hs
    generalize handleStar cfg ps it c₂ = r2 at hs
    obtain ⟨p1, i1, x1⟩ := r1
    obtain ⟨p2, i2, x2⟩ := r2
    simp only at hs ⊢
    obtain ⟨rfl, rfl, hx⟩ := hs
    exact ih _ _ _ _ hx
  split
  · exact ih _ _ _ _ (by simp [h])
  split
  · split
    · have hc := cleanUpInverse_twin cfg ps.setStartDir false h
      generalize cleanUpInverse cfg ps.setStartDir c₁ false = r1 at hc
      generalize cleanUpInverse cfg ps.setStartDir c₂ false = r2 at hc
      obtain ⟨x1, p1⟩ := r1
      obtain ⟨x2, p2⟩ := r2
      simp only at hc ⊢
      obtain ⟨hx, rfl⟩ := hc
      exact ih _ _ _ _ (by simp [hx])
    · exact ih _ _ _ _ (by simp [h])
  split
  · split
    · rename_i v it' ps' heq
      split
      · have hc := cleanUpInverse_twin cfg ps' false h
        generalize cleanUpInverse cfg ps' c₁ false = r1 at hc
        generalize cleanUpInverse cfg ps' c₂ false = r2 at hc
        obtain ⟨x1, p1⟩ := r1
        obtain ⟨x2, p2⟩ := r2
        simp only at hc ⊢
        obtain ⟨hx, rfl⟩ := hc
        exact ih _ _ _ _ (by simp [hx])
      · exact ih _ _ _ _ (by simp [h])
    · exact ih _ _ _ _ h
    · exact ih _ _ _ _ h
  split
  · rcases sequence_twin cfg b ps it with ⟨s1, s2⟩ | ⟨r₁, r₂, ps', it', s1, s2, hr⟩
    · rw [s1, s2]
      exact ih _ _ _ _ (by simp [h])
    · rw [s1, s2]
      exact ih _ _ _ _ (by simp [h, hr])
  · exact ih _ _ _ _ (by simp [h])

theorem rootLoop_twin (cfg : Cfg) (b : Bool) : ∀ (n : Nat) (it : It) (ps : PS) (c₁ c₂ : List Item),
    Item.bnormL c₁ = Item.bnormL c₂ →
      nRL (rootLoop cfg n it ps c₁) = nRL (rootLoop (cfg.withBytes b) n it ps c₂)
  | 0, it, ps, c₁, c₂, h => by rw [rootLoop, rootLoop]; simp only [nRL, h]
  | n+1, it, ps, c₁, c₂, h => by
    have ih := rootLoop_twin cfg b n
    rw [rootLoop_succ, rootLoop_succ]
    cases hn : it.next with
    | none => simp only [nRL, h]
    | some p =>
      obtain ⟨c, it'⟩ := p
      simp only [Cfg.wb_extend]
      have hpe := (ext_twin cfg b (2 * it'.rest.length + 8)).1 c it' ps c₁ c₂ true h
      generalize parseExtend cfg (2 * it'.rest.length + 8) c it' ps c₁ true = r1 at hpe
      generalize parseExtend (cfg.withBytes b) (2 * it'.rest.length + 8) c it' ps c₂ true = r2 at hpe
      obtain ⟨b1, p1, i1, x1⟩ := r1
      obtain ⟨b2, p2, i2, x2⟩ := r2
      simp only [nPE, Prod.mk.injEq] at hpe
      obtain ⟨rfl, rfl, rfl, hx⟩ := hpe
      by_cases hx' : (cfg.extend && decide (c ∈ extTypes)) = true
      · simp only [hx', if_true]
        cases b1
        · simp only
          exact rlOther_twin cfg b n ih c p1 it' c₁ c₂ h
        · simp only
          exact ih _ _ _ _ hx
      · simp only [hx']
        exact rlOther_twin cfg b n ih c ps it' c₁ c₂ h

/-! ### `root`, `_parse` -/

/-- two drive scans that agree up to the spelling of the full range -/
def DriveTwin (x y : DriveInfo) : Prop :=
  x.rootSpecified = y.rootSpecified ∧ x.slash = y.slash ∧ x.endIdx = y.endIdx ∧
    x.drive.map Item.bnormL = y.drive.map Item.bnormL

theorem DriveTwin.refl (x : DriveInfo) : DriveTwin x x := ⟨rfl, rfl, rfl, rfl⟩

def nPre (x : Bool × It × List Item) : Bool × It × List Item := (x.1, x.2.1, Item.bnormL x.2.2)

theorem rootPre_twin (cfg : Cfg) (b : Bool) (d₁ d₂ : List Char → DriveInfo) (pattern : List Char)
    (hd : DriveTwin (d₁ pattern) (d₂ pattern)) (c₁ c₂ : List Item)
    (h : Item.bnormL c₁ = Item.bnormL c₂) :
    nPre (rootPre cfg d₁ pattern c₁) = nPre (rootPre (cfg.withBytes b) d₂ pattern c₂) := by
  unfold rootPre
  simp only [consumePathSep_wb, Cfg.wb_win, Cfg.wb_pathname, Cfg.wb_winDriveDetect]
  obtain ⟨h1, h2, h3, h4⟩ := hd
  by_cases hw : cfg.winDriveDetect = true
  · simp only [hw, if_true]
    cases e1 : (d₁ pattern).drive with
    | none =>
      cases e2 : (d₂ pattern).drive with
      | none => simp only [nPre, h1, h]
      | some y => rw [e1, e2] at h4; simp at h4
    | some x =>
      cases e2 : (d₂ pattern).drive with
      | none => rw [e1, e2] at h4; simp at h4
      | some y =>
        rw [e1, e2] at h4
        simp only [Option.map_some, Option.some.injEq] at h4
        simp only [nPre, h1, h2, h3]
        by_cases hs : (d₂ pattern).slash = true <;> simp [hs, h, h4]
  · by_cases hp : (cfg.pathname && decide (pattern.head? = some '/')) = true <;>
      simp only [hw, hp, Bool.false_eq_true, if_true, if_false, nPre, h]

def nRP : Except ParseErr (PS × List Item) → Except ParseErr (PS × List Item)
  | .ok x => .ok (nRL x)
  | .error e => .error e

/-- `rootPost` with the loop abstracted (verbatim copy) -/
def rootPostK (K : It → PS → List Item → PS × List Item) (cfg : Cfg) (ps : PS)
    (t : Bool × It × List Item) : Except ParseErr (PS × List Item) :=
  let (rootSpecified, it, cur) := t
  if cfg.noAbs && rootSpecified then .error .noAbsolute else
  let ps := if rootSpecified then { ps with matchbase := false, extmatchbase := false } else ps
  let cur := if !rootSpecified && cfg.realpath then
               .empty :: .re (if cfg.winDriveDetect then Frag.noWinRoot else Frag.noRoot) :: cur
             else cur
  let (ps, cur) := K it ps cur
  let (cur, ps) := cleanUpInverse cfg ps cur false
  let cur := if cfg.pathname then .re (Frag.pathTrail cfg.win) :: cur else cur
  .ok (ps, cur)

theorem rootPost_eqK (cfg : Cfg) (ps : PS) (t : Bool × It × List Item) :
    rootPost cfg ps t = rootPostK (fun it => rootLoop cfg (it.rest.length + 1) it) cfg ps t := rfl

theorem rootPostK_wb (K : It → PS → List Item → PS × List Item) (cfg : Cfg) (b : Bool) (ps : PS)
    (t : Bool × It × List Item) : rootPostK K (cfg.withBytes b) ps t = rootPostK K cfg ps t := by
  simp only [rootPostK, cleanUpInverse_wb]
  rfl

theorem rootPostK_twin (K₁ K₂ : It → PS → List Item → PS × List Item)
    (hK : ∀ it ps c₁ c₂, Item.bnormL c₁ = Item.bnormL c₂ → nRL (K₁ it ps c₁) = nRL (K₂ it ps c₂))
    (cfg : Cfg) (ps : PS) (t₁ t₂ : Bool × It × List Item) (h : nPre t₁ = nPre t₂) :
    nRP (rootPostK K₁ cfg ps t₁) = nRP (rootPostK K₂ cfg ps t₂) := by
  obtain ⟨rs, it, c₁⟩ := t₁
  obtain ⟨rs2, it2, c₂⟩ := t₂
  simp only [nPre, Prod.mk.injEq] at h
  obtain ⟨rfl, rfl, h⟩ := h
  unfold rootPostK
  simp only
  split
  · rfl
  · have hcur : Item.bnormL (if (!rs && cfg.realpath) = true then
          Item.empty :: .re (if cfg.winDriveDetect = true then Frag.noWinRoot else Frag.noRoot) :: c₁
        else c₁) =
        Item.bnormL (if (!rs && cfg.realpath) = true then
          Item.empty :: .re (if cfg.winDriveDetect = true then Frag.noWinRoot else Frag.noRoot) :: c₂
        else c₂) := by
      split
      · simp [h]
      · exact h
    have hL := hK it
      (if rs = true then { ps with matchbase := false, extmatchbase := false } else ps) _ _ hcur
    generalize K₁ it _ _ = q1 at hL ⊢
    generalize K₂ it _ _ = q2 at hL ⊢
    obtain ⟨ps1, x1⟩ := q1
    obtain ⟨ps2, x2⟩ := q2
    simp only [nRL, Prod.mk.injEq] at hL
    obtain ⟨rfl, hx⟩ := hL
    simp only
    have hc := cleanUpInverse_twin cfg ps1 false hx
    generalize cleanUpInverse cfg ps1 x1 false = r1 at hc ⊢
    generalize cleanUpInverse cfg ps1 x2 false = r2 at hc ⊢
    obtain ⟨y1, p1⟩ := r1
    obtain ⟨y2, p2⟩ := r2
    simp only at hc ⊢
    obtain ⟨hy, rfl⟩ := hc
    simp only [nRP, nRL, Except.ok.injEq, Prod.mk.injEq, true_and]
    by_cases hp : cfg.pathname = true <;> simp [hp, hy]

theorem rootPost_twin (cfg : Cfg) (b : Bool) (ps : PS) (t₁ t₂ : Bool × It × List Item)
    (h : nPre t₁ = nPre t₂) :
    nRP (rootPost cfg ps t₁) = nRP (rootPost (cfg.withBytes b) ps t₂) := by
  rw [rootPost_eqK, rootPost_eqK, rootPostK_wb]
  exact rootPostK_twin (fun it => rootLoop cfg (it.rest.length + 1) it)
    (fun it => rootLoop (cfg.withBytes b) (it.rest.length + 1) it)
    (fun it ps c₁ c₂ hc => rootLoop_twin cfg b (it.rest.length + 1) it ps c₁ c₂ hc) cfg ps t₁ t₂ h

theorem root_twin (cfg : Cfg) (b : Bool) (d₁ d₂ : List Char → DriveInfo) (pattern : List Char)
    (hd : DriveTwin (d₁ pattern) (d₂ pattern)) (ps : PS) (c₁ c₂ : List Item)
    (h : Item.bnormL c₁ = Item.bnormL c₂) :
    nRP (root cfg d₁ pattern ps c₁) = nRP (root (cfg.withBytes b) d₂ pattern ps c₂) := by
  rw [root_eq, root_eq]
  exact rootPost_twin cfg b _ _ _ (rootPre_twin cfg b d₁ d₂ pattern hd c₁ c₂ h)

/-- `parsePrepend` with `root` abstracted (verbatim copy) -/
def parsePrependK (R : List Char → PS → List Item → Except ParseErr (PS × List Item)) (cfg : Cfg)
    (ps : PS) : Except ParseErr (PS × List Item) :=
  if ps.matchbase || ps.extmatchbase then
    if cfg.globstarlong && cfg.follow then
      R ['*', '*', '*'] ps [.empty]
    else
      match R ['*', '*'] { ps with globstar := true } [.empty] with
      | .ok (ps', pre) => .ok ({ ps' with globstar := ps.globstar }, pre)
      | .error e => .error e
  else .ok (ps, [Item.empty])

theorem parsePrepend_eqK (cfg : Cfg) (drive : List Char → DriveInfo) (ps : PS) :
    parsePrepend cfg drive ps = parsePrependK (root cfg drive) cfg ps := rfl

theorem parsePrependK_wb (R : List Char → PS → List Item → Except ParseErr (PS × List Item)) (cfg : Cfg)
    (b : Bool) (ps : PS) : parsePrependK R (cfg.withBytes b) ps = parsePrependK R cfg ps := rfl

theorem parsePrependK_twin (R₁ R₂ : List Char → PS → List Item → Except ParseErr (PS × List Item))
    (hR : ∀ p ps c₁ c₂, Item.bnormL c₁ = Item.bnormL c₂ → nRP (R₁ p ps c₁) = nRP (R₂ p ps c₂))
    (cfg : Cfg) (ps : PS) :
    nRP (parsePrependK R₁ cfg ps) = nRP (parsePrependK R₂ cfg ps) := by
  unfold parsePrependK
  split
  · split
    · exact hR _ _ _ _ rfl
    · have := hR ['*', '*'] { ps with globstar := true } [.empty] [.empty] rfl
      generalize R₁ ['*', '*'] { ps with globstar := true } [.empty] = r1 at this ⊢
      generalize R₂ ['*', '*'] { ps with globstar := true } [.empty] = r2 at this ⊢
      cases r1 with
      | error e1 =>
        cases r2 with
        | error e2 => simp [nRP]
        | ok y => simp [nRP] at this
      | ok x =>
        cases r2 with
        | error e2 => simp [nRP] at this
        | ok y =>
          obtain ⟨p1, x1⟩ := x
          obtain ⟨p2, x2⟩ := y
          simp only [nRP, nRL, Except.ok.injEq, Prod.mk.injEq] at this ⊢
          obtain ⟨rfl, hx⟩ := this
          exact ⟨rfl, hx⟩
  · rfl

def Parsed.bnorm (x : Parsed) : Parsed := { items := Item.bnormL x.items, ci := x.ci }

def nPP : Except ParseErr Parsed → Except ParseErr Parsed
  | .ok x => .ok x.bnorm
  | .error e => .error e

/-- `parseBody` with `root` abstracted (verbatim copy) -/
def parseBodyK (R : List Char → PS → List Item → Except ParseErr (PS × List Item)) (cfg : Cfg)
    (p : List Char) (ps : PS) (prepend : List Item) : Except ParseErr Parsed :=
  let p := if p = ['\\'] then [] else p
  match (if p.isEmpty then .ok (ps, [Item.empty]) else R p ps [.empty]) with
  | .error e => .error e
  | .ok (ps, result) =>
    let result := if !p.isEmpty && (ps.matchbase || ps.extmatchbase) then result ++ prepend else result
    .ok { items := result.reverse, ci := !cfg.caseSensitive }

theorem parseBody_eqK (cfg : Cfg) (drive : List Char → DriveInfo) (p : List Char) (ps : PS)
    (prepend : List Item) :
    parseBody cfg drive p ps prepend = parseBodyK (root cfg drive) cfg p ps prepend := rfl

theorem parseBodyK_wb (R : List Char → PS → List Item → Except ParseErr (PS × List Item)) (cfg : Cfg)
    (b : Bool) (p : List Char) (ps : PS) (prepend : List Item) :
    parseBodyK R (cfg.withBytes b) p ps prepend = parseBodyK R cfg p ps prepend := rfl

theorem parseBodyK_twin (R₁ R₂ : List Char → PS → List Item → Except ParseErr (PS × List Item))
    (hR : ∀ p ps c₁ c₂, Item.bnormL c₁ = Item.bnormL c₂ → nRP (R₁ p ps c₁) = nRP (R₂ p ps c₂))
    (cfg : Cfg) (p : List Char) (ps : PS) (pre₁ pre₂ : List Item)
    (hp : Item.bnormL pre₁ = Item.bnormL pre₂) :
    nPP (parseBodyK R₁ cfg p ps pre₁) = nPP (parseBodyK R₂ cfg p ps pre₂) := by
  unfold parseBodyK
  simp only
  generalize (if p = ['\\'] then [] else p) = p'
  have key : nRP (if p'.isEmpty = true then .ok (ps, [Item.empty]) else R₁ p' ps [.empty]) =
      nRP (if p'.isEmpty = true then .ok (ps, [Item.empty]) else R₂ p' ps [.empty]) := by
    by_cases he : p'.isEmpty = true
    · rw [if_pos he, if_pos he]
    · rw [if_neg he, if_neg he]; exact hR _ _ _ _ rfl
  generalize (if p'.isEmpty = true then Except.ok (ps, [Item.empty]) else R₁ p' ps [.empty]) = r1 at key ⊢
  generalize (if p'.isEmpty = true then Except.ok (ps, [Item.empty]) else R₂ p' ps [.empty]) = r2 at key ⊢
  cases r1 with
  | error e1 =>
    cases r2 with
    | error e2 => simp [nPP]
    | ok y => simp [nRP] at key
  | ok x =>
    cases r2 with
    | error e2 => simp [nRP] at key
    | ok y =>
      obtain ⟨p1, x1⟩ := x
      obtain ⟨p2, x2⟩ := y
      simp only [nRP, nRL, Except.ok.injEq, Prod.mk.injEq] at key
      obtain ⟨rfl, hx⟩ := key
      simp only [nPP, Parsed.bnorm, Except.ok.injEq, Parsed.mk.injEq, and_true]
      by_cases hc : (!p'.isEmpty && (p1.matchbase || p1.extmatchbase)) = true <;>
        simp [hc, hx, hp]

/-- `parseItems` with `root` abstracted (verbatim copy) -/
def parseItemsK (R : List Char → PS → List Item → Except ParseErr (PS × List Item)) (cfg : Cfg)
    (p : List Char) : Except ParseErr Parsed :=
  let ps : PS := { matchbase := cfg.matchbase0, extmatchbase := cfg.extmatchbase0, globstar := cfg.globstar0 }
  let a := anchorStep cfg p ps
  match parsePrependK R cfg a.2 with
  | .error e => .error e
  | .ok (ps, prepend) => parseBodyK R cfg a.1 ps prepend

theorem parseItems_eqK (cfg : Cfg) (drive : List Char → DriveInfo) (p : List Char) :
    parseItems cfg drive p = parseItemsK (root cfg drive) cfg p := rfl

theorem parseItemsK_wb (R : List Char → PS → List Item → Except ParseErr (PS × List Item)) (cfg : Cfg)
    (b : Bool) (p : List Char) : parseItemsK R (cfg.withBytes b) p = parseItemsK R cfg p := rfl

theorem parseItemsK_twin (R₁ R₂ : List Char → PS → List Item → Except ParseErr (PS × List Item))
    (hR : ∀ p ps c₁ c₂, Item.bnormL c₁ = Item.bnormL c₂ → nRP (R₁ p ps c₁) = nRP (R₂ p ps c₂))
    (cfg : Cfg) (p : List Char) :
    nPP (parseItemsK R₁ cfg p) = nPP (parseItemsK R₂ cfg p) := by
  unfold parseItemsK
  simp only
  have := parsePrependK_twin R₁ R₂ hR cfg
    (anchorStep cfg p { matchbase := cfg.matchbase0, extmatchbase := cfg.extmatchbase0,
                        globstar := cfg.globstar0 }).2
  generalize parsePrependK R₁ cfg _ = r1 at this ⊢
  generalize parsePrependK R₂ cfg _ = r2 at this ⊢
  cases r1 with
  | error e1 =>
    cases r2 with
    | error e2 => simp [nPP]
    | ok y => simp [nRP] at this
  | ok x =>
    cases r2 with
    | error e2 => simp [nRP] at this
    | ok y =>
      obtain ⟨p1, x1⟩ := x
      obtain ⟨p2, x2⟩ := y
      simp only [nRP, nRL, Except.ok.injEq, Prod.mk.injEq] at this
      obtain ⟨rfl, hx⟩ := this
      exact parseBodyK_twin R₁ R₂ hR cfg _ _ _ _ hx

/-- **the two passes produce the same items up to the spelling of the full range** -/
theorem parseItems_twin (cfg : Cfg) (b : Bool) (d₁ d₂ : List Char → DriveInfo)
    (hd : ∀ p, DriveTwin (d₁ p) (d₂ p)) (p : List Char) :
    nPP (parseItems cfg d₁ p) = nPP (parseItems (cfg.withBytes b) d₂ p) := by
  rw [parseItems_eqK, parseItems_eqK, parseItemsK_wb]
  exact parseItemsK_twin _ _ (fun q ps c₁ c₂ h => root_twin cfg b d₁ d₂ q (hd q) ps c₁ c₂ h) cfg p

/-! ### from items to one regex: `toRe` is natural -/

theorem splitBars_bnorm : ∀ l : List Item,
    splitBars (Item.bnormL l) = (splitBars l).map Item.bnormL := by
  intro l
  induction l with
  | nil => simp [splitBars]
  | cons x l ih =>
    cases x <;> simp only [Item.bnormL_cons, Item.bnorm_re, Item.bnorm_empty, Item.bnorm_bar,
      Item.bnorm_group, Item.bnorm_invOpen, Item.bnorm_ph, Item.bnorm_closed, splitBars, ih,
      List.map_cons]
    all_goals cases splitBars l <;> simp

theorem altOfList_bnorm : ∀ l : List Re, (altOfList l).bnorm = altOfList (l.map Re.bnorm)
  | [] => by simp [altOfList, Re.bnorm]
  | [r] => by simp [altOfList]
  | r :: r' :: rs => by
    have := altOfList_bnorm (r' :: rs)
    simp only [List.map_cons] at this
    simp only [altOfList, Re.bnorm, List.map_cons, this]

theorem quant_bnorm (k : GKind) (cap : Capt) (inner : Re) :
    (quant k cap inner).bnorm = quant k cap inner.bnorm := by
  cases k <;> cases cap <;> simp [quant, Re.bnorm]

theorem catE'_bnorm (a b : Re) : (catE' a b).bnorm = catE' a.bnorm b.bnorm := by
  unfold catE'
  by_cases hb : b = .eps
  · subst hb; simp [Re.bnorm]
  · have hb' : b.bnorm ≠ .eps := fun h' => hb (Re.bnorm_eq_eps.mp h')
    by_cases ha : a = .eps
    · subst ha; simp [hb, hb', Re.bnorm]
    · have ha' : a.bnorm ≠ .eps := fun h' => ha (Re.bnorm_eq_eps.mp h')
      simp [ha, ha', hb, hb', Re.bnorm]

theorem mapM_bnorm (g : List Item → Option Re)
    (h : ∀ l, g (Item.bnormL l) = (g l).map Re.bnorm) : ∀ ls : List (List Item),
    (ls.map Item.bnormL).mapM g = (ls.mapM g).map (List.map Re.bnorm)
  | [] => by simp
  | x :: xs => by
    have ih := mapM_bnorm g h xs
    simp only [List.map_cons, List.mapM_cons, h, ih]
    cases g x <;> simp
    cases xs.mapM g <;> simp

theorem toRe_bnorm : ∀ f : Nat,
    (∀ l, Item.seqToRe f (Item.bnormL l) = (Item.seqToRe f l).map Re.bnorm) ∧
    (∀ l, Item.listToRe f (Item.bnormL l) = (Item.listToRe f l).map Re.bnorm)
  | 0 => by
    refine ⟨fun l => ?_, fun l => ?_⟩
    · simp [Item.seqToRe]
    · simp [Item.listToRe]
  | f+1 => by
    have ih := toRe_bnorm f
    refine ⟨fun l => ?_, fun l => ?_⟩
    · cases l with
      | nil => simp [Item.seqToRe, Re.bnorm]
      | cons x rest =>
        cases x with
        | re r =>
          simp only [Item.bnormL_cons, Item.bnorm_re, Item.seqToRe, ih.1 rest]
          cases Item.seqToRe f rest <;> simp [catE'_bnorm]
        | empty => simp only [Item.bnormL_cons, Item.bnorm_empty, Item.seqToRe, ih.1 rest]
        | bar => simp [Item.seqToRe]
        | ph s => simp [Item.seqToRe]
        | closed t e s => simp [Item.seqToRe]
        | group k c body =>
          simp only [Item.bnormL_cons, Item.bnorm_group, Item.seqToRe, ih.1 rest, ih.2 body]
          cases Item.listToRe f body <;> cases Item.seqToRe f rest <;> simp [catE'_bnorm, quant_bnorm]
        | invOpen c body =>
          cases rest with
          | nil => simp [Item.seqToRe]
          | cons y rest' =>
            cases y with
            | closed tail eop star =>
              have key : ∀ (w : Re) (E : List Item), Item.listToRe f
                    ((Item.re (Re.grp w.bnorm) :: Item.bnormL tail) ++ Item.bnormL E) =
                    (Item.listToRe f ((Item.re (Re.grp w) :: tail) ++ E)).map Re.bnorm := by
                intro w E
                rw [← ih.2]
                simp [Re.bnorm]
              cases eop with
              | none =>
                simp only [Item.bnormL_cons, Item.bnorm_invOpen, Item.bnorm_closed, Item.seqToRe,
                  ih.1 rest', ih.2 body, Option.map_none]
                cases hb : Item.listToRe f body with
                | none => simp
                | some w =>
                  have hk := key w []
                  simp only [Item.bnormL_nil] at hk
                  simp only [Option.map_some, Option.bind_eq_bind, Option.bind_some, hk]
                  cases Item.listToRe f ((Item.re (Re.grp w) :: tail) ++ []) <;> simp
                  cases Item.seqToRe f rest' <;> simp
                  cases c <;> simp [catE'_bnorm, Re.bnorm]
              | some e =>
                simp only [Item.bnormL_cons, Item.bnorm_invOpen, Item.bnorm_closed, Item.seqToRe,
                  ih.1 rest', ih.2 body, Option.map_some]
                cases hb : Item.listToRe f body with
                | none => simp
                | some w =>
                  have hk := key w [.re e]
                  simp only [Item.bnormL_cons, Item.bnorm_re, Item.bnormL_nil] at hk
                  simp only [Option.map_some, Option.bind_eq_bind, Option.bind_some, hk]
                  cases Item.listToRe f ((Item.re (Re.grp w) :: tail) ++ [Item.re e]) <;> simp
                  cases Item.seqToRe f rest' <;> simp
                  cases c <;> simp [catE'_bnorm, Re.bnorm]
            | re r => simp [Item.seqToRe]
            | empty => simp [Item.seqToRe]
            | bar => simp [Item.seqToRe]
            | ph s => simp [Item.seqToRe]
            | group k c' b' => simp [Item.seqToRe]
            | invOpen c' b' => simp [Item.seqToRe]
    · simp only [Item.listToRe, splitBars_bnorm, mapM_bnorm _ ih.1]
      cases (splitBars l).mapM (Item.seqToRe f) <;> simp [altOfList_bnorm]

mutual
theorem Item.size_bnorm : ∀ x : Item, x.bnorm.size = x.size
  | .group _ _ body => by simp only [Item.bnorm_group, Item.size, Item.sizeL_bnorm body]
  | .invOpen _ body => by simp only [Item.bnorm_invOpen, Item.size, Item.sizeL_bnorm body]
  | .closed tail _ _ => by simp only [Item.bnorm_closed, Item.size, Item.sizeL_bnorm tail]
  | .re _ => by simp [Item.size]
  | .empty => by simp [Item.size]
  | .bar => by simp [Item.size]
  | .ph _ => by simp [Item.size]
theorem Item.sizeL_bnorm : ∀ l : List Item, Item.sizeL (Item.bnormL l) = Item.sizeL l
  | [] => by simp [Item.sizeL]
  | x :: xs => by
    simp only [Item.bnormL_cons, Item.sizeL, Item.size_bnorm x, Item.sizeL_bnorm xs]
end

theorem Parsed.toRe_bnorm (p : Parsed) : p.bnorm.toRe = p.toRe.map Re.bnorm := by
  simp only [Parsed.toRe, Parsed.bnorm, Item.sizeL_bnorm, (WcModel.toRe_bnorm _).2]
  cases Item.listToRe (2 * Item.sizeL p.items + 4) p.items <;> simp [Re.bnorm]

end WcModel

"""K4: the list level — `translate` / `compile_pattern` / `Glob.__init__` loops vs the Lean model
(`Model/Compile.lean` through the driver command `lists`), for every public entry point.

What is compared (exactly): outcome kind (ok / PatternLimit / SyntaxError / KeyError), the number of
items pulled from `bracex.iexpand` (wrapped here), the lists of regex texts (positive, negative),
and for the matching APIs the boolean per name.  Brace expansions are supplied to the model from
the real bracex (`B:` fields); bracex's own count (checked against its `limit` argument before it
yields anything) is measured by bisection on its `limit` parameter.
"""
from __future__ import annotations
import os
import shutil
import tempfile
import warnings

import common

warnings.simplefilter('ignore')

CAP = 6000          # largest expansion that is materialised for the model


class Pulls:
    """wrap bracex.iexpand: count the items the library draws from it"""

    def __init__(self):
        import bracex
        self.bracex = bracex
        self.real = bracex.iexpand
        self.n = 0
        self.calls: list = []

    def __enter__(self):
        def iexpand(string, keep_escapes=False, limit=1000, **kw):
            self.calls.append((string, limit))
            for x in self.real(string, keep_escapes=keep_escapes, limit=limit, **kw):
                self.n += 1
                yield x
        self.bracex.iexpand = iexpand
        return self

    def __exit__(self, *a):
        self.bracex.iexpand = self.real
        return False

    def reset(self):
        self.n = 0
        self.calls = []


_brace_cache: dict = {}


def brace_info(q, known_count=None):
    """(count bracex checks, items or None) for a normalised pattern `q` (str or bytes)"""
    import bracex
    key = q
    if key in _brace_cache:
        return _brace_cache[key]
    try:
        items = list(bracex.iexpand(q, keep_escapes=True, limit=CAP))
    except bracex.ExpansionLimitException:
        assert known_count is not None, f'huge expansion without a known count: {q!r}'
        r = (known_count, None)
        _brace_cache[key] = r
        return r
    # bracex's own count = the smallest positive limit it accepts (>= number of items; larger when
    # empty results were dropped)
    lo, hi = 1, max(1, CAP)

    def accepts(l):
        try:
            for _ in bracex.iexpand(q, keep_escapes=True, limit=l):
                break
            return True
        except bracex.ExpansionLimitException:
            return False
    if accepts(max(1, len(items))):
        cnt = len(items)
        if cnt > 1 and accepts(cnt - 1):        # cannot happen if counts are exact; measure anyway
            while lo < hi:
                mid = (lo + hi) // 2
                if accepts(mid):
                    hi = mid
                else:
                    lo = mid + 1
            cnt = lo
    else:
        lo = max(1, len(items))
        while lo < hi:
            mid = (lo + hi) // 2
            if accepts(mid):
                hi = mid
            else:
                lo = mid + 1
        cnt = lo
    r = (cnt, items)
    _brace_cache[key] = r
    return r


def _s(x):
    return x.decode('latin-1') if isinstance(x, bytes) else x


def _norm_real(util, W, p, iflags):
    try:
        return util.norm_pattern(p, not W.is_unix_style(iflags), bool(iflags & W.RAWCHARS))
    except Exception:  # noqa: BLE001
        return None


def model_line(W, util, api: str, iflags: int, isb: bool, limit: int, pats, excl, names=(), known=None,
               scandotdir=False) -> str:
    """the `lists` request for the driver.  `iflags` = flags as the loop receives them (for `gl`:
    as `Glob.__init__` receives them)."""
    import k3_norm
    f = [f'lists {api} {iflags} {int(isb)} {limit}']
    for p in pats:
        f.append('P:' + common.enc(p))
    if excl is not None:
        f.append('X')
        for p in excl:
            f.append('E:' + common.enc(p))
    if iflags & W.BRACE:
        done = set()
        nflags = iflags
        if api == 'gl':
            nflags = (iflags | W.REALPATH) & ~W.FORCEWIN    # Glob: unix rules on this host
        for p in list(pats) + list(excl or []):
            q = _norm_real(util, W, p, nflags)
            if q is None or q in done:
                continue
            done.add(q)
            cnt, items = brace_info(q, (known or {}).get(_s(p)))
            f.append('B:' + common.enc(q) + f':{cnt}:' +
                     ('?' if items is None else (','.join(common.enc(i) for i in items) if items else '-')))
    if iflags & W.RAWCHARS:
        for p in list(pats) + list(excl or []):
            lf = k3_norm.lookup_fields(_s(p)).replace('name:', 'N:')
            if lf:
                f.append(lf.strip())
    for n in names:
        f.append('M:' + common.enc(n))
    if scandotdir:
        f.append('S:1')
    return ' '.join(f)


def parse_model(o: str):
    f = o.split(' ')
    if f[0] == 'err':
        return {'kind': f[1], 'pulls': int(f[2])}
    if f[0] != 'ok':
        return {'kind': 'MODEL:' + o}

    def lst(t):
        return [] if t == '-' else [common.dec(x) for x in t.split(',')]
    return {'kind': 'ok', 'pulls': int(f[1]), 'pos': lst(f[2]), 'neg': lst(f[3]), 'bits': None if f[4] == '-' else f[4]}


# --------------------------------------------------------------------------------------------------
# entry points: how to call the real code, and which model loop / flags it corresponds to

class Api:
    def __init__(self, name, loop, module):
        self.name = name      # e.g. 'fnmatch.fnmatch'
        self.loop = loop      # 'tr' | 'cp' | 'gl'
        self.module = module  # 'fnmatch' | 'glob' | 'pathlib' | 'wcmatch'


APIS = [Api('fnmatch.fnmatch', 'cp', 'fnmatch'), Api('fnmatch.filter', 'cp', 'fnmatch'),
        Api('fnmatch.translate', 'tr', 'fnmatch'), Api('fnmatch.compile', 'cp', 'fnmatch'),
        Api('glob.globmatch', 'cp', 'glob'), Api('glob.globfilter', 'cp', 'glob'),
        Api('glob.translate', 'tr', 'glob'), Api('glob.compile', 'cp', 'glob'),
        Api('glob.glob', 'gl', 'glob'), Api('glob.iglob', 'gl', 'glob'),
        Api('pathlib.match', 'cp', 'pathlib'), Api('pathlib.globmatch', 'cp', 'pathlib'),
        Api('pathlib.glob', 'gl', 'pathlib'), Api('pathlib.rglob', 'gl', 'pathlib'),
        Api('wcmatch.WcMatch', 'cp', 'wcmatch')]
API_BY_NAME = {a.name: a for a in APIS}


class World:
    """imports, an empty scratch directory for the walking APIs, the bracex wrapper"""

    def __init__(self):
        common.import_wcmatch()
        from wcmatch import _wcparse, fnmatch, glob, pathlib as wp, wcmatch as wm, util
        self.W, self.F, self.G, self.P, self.WM, self.util = _wcparse, fnmatch, glob, wp, wm, util
        self.tmp = tempfile.mkdtemp(prefix='k4-', dir='/tmp')
        self.pulls = Pulls()
        self.pulls.__enter__()

    def close(self):
        self.pulls.__exit__()
        shutil.rmtree(self.tmp, ignore_errors=True)

    # -- flags as the loop sees them ------------------------------------------------------------
    def internal(self, api: Api, flags: int, excl_given: bool):
        """(loop flags, patterns transformer, scandotdir) for the model"""
        W, F, G, P, WM = self.W, self.F, self.G, self.P, self.WM
        if api.module == 'fnmatch':
            return F._flag_transform(flags), False
        if api.name in ('glob.globmatch', 'glob.globfilter', 'glob.translate', 'glob.compile'):
            return G._flag_transform(flags), False
        if api.name in ('glob.glob', 'glob.iglob'):
            return flags, bool(flags & G.SCANDOTDIR)
        if api.name in ('pathlib.match', 'pathlib.globmatch'):
            pp = P.PurePosixPath('a')
            extra = P._EXTMATCHBASE if api.name == 'pathlib.match' else 0
            return G._flag_transform(pp._translate_flags(flags | extra)), False
        if api.name in ('pathlib.glob', 'pathlib.rglob'):
            pp = P.Path(self.tmp)
            extra = P._EXTMATCHBASE if api.name == 'pathlib.rglob' else 0
            sd = bool((flags | extra) & P.SCANDOTDIR)
            fl = pp._translate_flags(flags | extra | P._NOABSOLUTE) | ((G._PATHLIB | G.SCANDOTDIR) if sd else G._PATHLIB)
            return fl, sd
        if api.name == 'wcmatch.WcMatch':
            wmo = WM.WcMatch(self.tmp, '', flags=flags)      # empty pattern: nothing is compiled
            fl = wmo.flags
            if wmo.file_pathname:
                fl |= W.PATHNAME | W._ANCHOR
                if wmo.matchbase:
                    fl |= W.MATCHBASE
            return fl, False
        raise ValueError(api.name)

    # -- the real call ------------------------------------------------------------------------
    def call(self, api: Api, pats, excl, flags: int, limit, isb: bool, names=()):
        """returns dict(kind, pulls, pos, neg, bits)"""
        W, F, G, P, WM = self.W, self.F, self.G, self.P, self.WM
        kw = {} if limit is None else {'limit': limit}
        conv = (lambda s: s.encode('latin-1')) if isb else (lambda s: s)
        ps = [conv(p) for p in pats]
        ex = None if excl is None else [conv(p) for p in excl]
        self.pulls.reset()
        out = {'pos': None, 'neg': None, 'bits': None}
        try:
            if api.name == 'fnmatch.translate':
                r = F.translate(ps, flags=flags, exclude=ex, **kw)
                out['pos'], out['neg'] = [_s(x) for x in r[0]], [_s(x) for x in r[1]]
            elif api.name == 'glob.translate':
                r = G.translate(ps, flags=flags, exclude=ex, **kw)
                out['pos'], out['neg'] = [_s(x) for x in r[0]], [_s(x) for x in r[1]]
            elif api.name in ('fnmatch.compile', 'glob.compile'):
                m = (F if api.module == 'fnmatch' else G).compile(ps, flags=flags, exclude=ex, **kw)
                out['pos'] = [_s(x.pattern) for x in m._matcher._include]
                out['neg'] = [_s(x.pattern) for x in (m._matcher._exclude or ())]
                out['bits'] = ''.join('1' if m.match(conv(n)) else '0' for n in names) if names else None
            elif api.name == 'fnmatch.fnmatch':
                if names:
                    out['bits'] = ''.join('1' if F.fnmatch(conv(n), ps, flags=flags, exclude=ex, **kw) else '0' for n in names)
                else:
                    F.fnmatch(conv('a'), ps, flags=flags, exclude=ex, **kw)
            elif api.name == 'fnmatch.filter':
                nn = [conv(n) for n in (names or ['a'])]
                r = F.filter(nn, ps, flags=flags, exclude=ex, **kw)
                if names:
                    out['bits'] = ''.join('1' if n in r else '0' for n in nn)
            elif api.name == 'glob.globmatch':
                if names:
                    out['bits'] = ''.join('1' if G.globmatch(conv(n), ps, flags=flags, exclude=ex, **kw) else '0' for n in names)
                else:
                    G.globmatch(conv('a'), ps, flags=flags, exclude=ex, **kw)
            elif api.name == 'glob.globfilter':
                nn = [conv(n) for n in (names or ['a'])]
                r = G.globfilter(nn, ps, flags=flags, exclude=ex, **kw)
                if names:
                    out['bits'] = ''.join('1' if n in r else '0' for n in nn)
            elif api.name in ('glob.glob', 'glob.iglob'):
                # same constructor call as iglob(); inspect what it built, then run the walk in an empty dir
                g = G.Glob(ps, flags=flags, root_dir=conv(self.tmp), exclude=ex, **kw)
                out['neg'] = [_s(x.pattern) for x in getattr(g, 'npatterns', [])]
                out['npos'] = len(g.pattern)
                self.pulls.reset()
                if api.name == 'glob.glob':
                    G.glob(ps, flags=flags, root_dir=conv(self.tmp), exclude=ex, **kw)
                else:
                    list(G.iglob(ps, flags=flags, root_dir=conv(self.tmp), exclude=ex, **kw))
            elif api.name in ('pathlib.match', 'pathlib.globmatch'):
                fn = 'match' if api.name == 'pathlib.match' else 'globmatch'
                if names:
                    out['bits'] = ''.join('1' if getattr(P.PurePosixPath(n), fn)(ps, flags=flags, exclude=ex, **kw) else '0' for n in names)
                else:
                    getattr(P.PurePosixPath('a'), fn)(ps, flags=flags, exclude=ex, **kw)
            elif api.name in ('pathlib.glob', 'pathlib.rglob'):
                fn = 'glob' if api.name == 'pathlib.glob' else 'rglob'
                list(getattr(P.Path(self.tmp), fn)(ps, flags=flags, exclude=ex, **kw))
            elif api.name == 'wcmatch.WcMatch':
                assert len(ps) == 1 and ex is None
                wmo = WM.WcMatch(conv(self.tmp), ps[0], flags=flags, **kw)
                out['pos'] = [_s(x.pattern) for x in wmo.file_check._include]
                out['neg'] = [_s(x.pattern) for x in (wmo.file_check._exclude or ())]
            else:
                raise ValueError(api.name)
            out['kind'] = 'ok'
        except W.PatternLimitException:
            out['kind'] = 'PatternLimit'
        except SyntaxError:
            out['kind'] = 'SyntaxError'
        except KeyError:
            out['kind'] = 'KeyError'
        except Exception as e:  # noqa: BLE001
            out['kind'] = 'exc:' + type(e).__name__
        n = self.pulls.n
        calls = [(_s(a), b) for a, b in self.pulls.calls]
        if names and out['kind'] == 'ok' and api.name in ('fnmatch.fnmatch', 'glob.globmatch', 'pathlib.match', 'pathlib.globmatch'):
            n //= len(names)          # one compile per name
            calls = calls[:len(calls) // len(names)]
        out['pulls'] = n
        out['bcalls'] = calls         # (string, limit) of every bracex.iexpand call, in order
        return out

    def model(self, drv, api: Api, pats, excl, flags: int, limit, isb: bool, names=(), known=None, want_args=False):
        iflags, sd = self.internal(api, flags, excl is not None)
        lim = 1000 if limit is None else limit
        line = model_line(self.W, self.util, api.loop, iflags, isb, lim, pats, excl, names, known, sd)
        mod = parse_model(drv.ask(line))
        if want_args:
            o = drv.ask('bargs' + line[len('lists'):])
            f = o.split(' ')
            if f[0] == 'ok':
                mod['bargs'] = [] if f[1] == '-' else [(common.dec(t.rsplit(':', 1)[0]), int(t.rsplit(':', 1)[1])) for t in f[1].split(',')]
            else:
                mod['bargs'] = 'MODEL:' + o
        return mod, line


def compare(api: Api, real: dict, mod: dict, brace: bool = True) -> str | None:
    """exact comparison of what the real call exposes; returns a description of the first difference.
    `brace`: BRACE is on — only then does the code call bracex at all (the model counts the items
    of `expand_braces`, which without BRACE is the pattern itself)."""
    if mod['kind'].startswith('MODEL:'):
        return 'model could not run: ' + mod['kind']
    if real['kind'] != mod['kind']:
        return f"outcome {real['kind']} vs model {mod['kind']}"
    if real['pulls'] != (mod['pulls'] if brace else 0):
        return f"pulls {real['pulls']} vs model {mod['pulls']}"
    if brace and mod.get('bargs') is not None and real.get('bcalls') is not None and real['bcalls'] != mod['bargs']:
        k = next((i for i, (a, b) in enumerate(zip(real['bcalls'], mod['bargs'])) if a != b), min(len(real['bcalls']), len(mod['bargs'])))
        ra = real['bcalls'][k] if k < len(real['bcalls']) else None
        ma = mod['bargs'][k] if k < len(mod['bargs']) else None
        return (f"bracex call #{k}: code called iexpand{(ra[0][:40], ra[1]) if ra else '(nothing)'} , "
                f"model current_limit says {(ma[0][:40], ma[1]) if ma else '(no call)'}")
    if real['kind'] != 'ok':
        return None
    if real.get('pos') is not None and api.loop != 'gl' and real['pos'] != mod['pos']:
        return f"positive regex texts differ: {real['pos'][:3]} vs {mod['pos'][:3]}"
    if real.get('neg') is not None and real['neg'] != mod['neg']:
        return f"negative regex texts differ: {real['neg'][:3]} vs {mod['neg'][:3]}"
    if api.loop == 'gl' and real.get('npos') is not None and real['npos'] != len(mod['pos']):
        return f"number of positive glob patterns {real['npos']} vs model {len(mod['pos'])}"
    if real.get('bits') is not None and mod.get('bits') is not None and real['bits'] != mod['bits']:
        return f"match bits {real['bits']} vs model {mod['bits']}"
    return None


# --------------------------------------------------------------------------------------------------
# K3 (split part): WcSplit.split vs Split.wcSplit

SPLIT_ALPHA = 'a|\\[]()@!/-'


def stream_split(sr, drv, tier: str) -> None:
    import itertools
    common.import_wcmatch()
    from wcmatch import _wcparse as W
    maxlen = 5 if tier == 'quick' else 6
    flagsets = [W.SPLIT | a | b | c for a in (0, W.EXTMATCH) for b in (0, W.PATHNAME) for c in (W.FORCEUNIX, W.FORCEWIN)]
    sr.note = (f'WcSplit(p, flags).split() vs Split.wcSplit on ALL strings over {SPLIT_ALPHA!r} up to length {maxlen} x '
               '{EXTMATCH} x {PATHNAME} x {FORCEUNIX, FORCEWIN}; exact list of pieces (str; every 7th case also as bytes)')
    cases = [''.join(t) for L in range(0, maxlen + 1) for t in itertools.product(SPLIT_ALPHA, repeat=L)]
    sr.distinct = len(cases)
    for fl in flagsets:
        outs = drv.ask_many([f'split {fl} {common.enc(p)}' for p in cases])
        for k, (p, o) in enumerate(zip(cases, outs)):
            sr.evaluations += 1
            if k % 7 == 0:
                py = [x.decode('latin-1') for x in W.WcSplit(p.encode('latin-1'), fl).split()]
            else:
                py = list(W.WcSplit(p, fl).split())
            mo = [common.dec(x) for x in o.split(' ')[1:]]
            h = f'{len(py)} piece(s)' if len(py) < 4 else '4+ pieces'
            sr.histogram[h] = sr.histogram.get(h, 0) + 1
            if py != mo:
                sr.disagree({'stream': 'K3-split', 'pattern': p, 'flags': fl, 'code': py, 'model': mo})
            elif len(sr.samples) < 3 and len(py) == 2 and '(' in p and '[' in p:
                sr.samples.append({'pattern': p, 'flags': fl, 'pieces': py})

"""K5 / K6 support: real directory trees, their abstraction (computed by QUERYING THE OS),
recording wrappers around os.scandir / os.open, pattern and flag generators, and the model
calls (`glob`, `gsplit`, `matchreal`, `denotes` driver commands).

Layout of a generated tree:   T = mkdtemp()          (the model's tree is `/` → … → T → …)
                               T/w0/w1/w2/r           the glob root (`root_dir` / `dir_fd` / cwd)
so that a pattern with up to four `..` (or, under SCANDOTDIR, four `.*`) segments never
leaves T: everything the walker can list is inside the abstraction.
"""
from __future__ import annotations
import os
import shutil
import tempfile

import common
import gen

NAMES = ['a', 'b', 'A', '.h', 'a.b', 'ab', 'a\n', 'x\\']
ROOT_REL = ('w0', 'w1', 'w2', 'r')

_real_scandir = os.scandir
_real_open = os.open


# ------------------------------------------------------------------ tree generation

class Tree:
    def __init__(self, top: str):
        self.top = os.path.realpath(top)                      # T
        self.root = os.path.join(self.top, *ROOT_REL)          # glob root
        self.enc = ''                                          # model encoding of `/`
        self.cwd = ''                                          # model encoding of the root's real path
        self.entries: list[str] = []                           # every entry below root, relative display path
        self.cyclic = False
        self.names: set[str] = set()
        self.desc: list = []                                   # JSON-able description (for replays)

    def remove(self) -> None:
        shutil.rmtree(self.top, ignore_errors=True)


def make_tree(R, spec: list | None = None) -> Tree:
    """Build a random tree (or rebuild one from `spec`, a list of (relpath, kind, linktext))."""
    top = tempfile.mkdtemp(prefix='k5-', dir='/tmp')
    t = Tree(top)
    os.makedirs(t.root)
    if spec is None:
        spec = _random_spec(R)
    for rel, kind, text in spec:
        p = os.path.join(t.root, rel)
        try:
            if kind == 'dir':
                os.mkdir(p)
            elif kind == 'file':
                open(p, 'w').close()
            else:
                os.symlink(text, p)
        except OSError:
            continue
    t.desc = [list(x) for x in spec]
    abstract(t)
    return t


def _random_spec(R) -> list:
    n = R.randint(1, 14)
    dirs = [('', 0)]
    files: list[str] = []
    have = set()
    spec = []
    for _ in range(n):
        d, depth = R.choice(dirs)
        name = R.choice(NAMES)
        rel = os.path.join(d, name) if d else name
        if rel in have:
            continue
        k = R.random()
        if k < 0.33 and depth < 3:
            spec.append((rel, 'dir', ''))
            dirs.append((rel, depth + 1))
        elif k < 0.60:
            kind = R.choice(['file', 'dir', 'sibling', 'ancestor', 'hidden', 'nowhere', 'dir', 'ancestor'] + (['self', 'thrufile'] if R.random() < 0.5 else []))
            here = d
            if kind == 'file' and files:
                text = os.path.relpath(R.choice(files), here or '.')
            elif kind == 'dir' and len(dirs) > 1:
                text = os.path.relpath(R.choice(dirs[1:])[0], here or '.')
            elif kind == 'self':
                text = name                      # a link to itself: every stat fails with ELOOP, lstat succeeds (defect D32)
            elif kind == 'thrufile' and files:
                text = os.path.relpath(R.choice(files), here or '.') + '/x'      # a path through a regular file: ENOTDIR
            elif kind == 'sibling':
                sib = [x for x in have if os.path.dirname(x) == d]
                text = os.path.basename(R.choice(sib)) if sib else 'nowhere'
            elif kind == 'ancestor':
                up = R.randint(0, depth)
                text = '/'.join(['..'] * up) if up else '.'
            elif kind == 'hidden':
                hid = [x for x, _ in dirs if os.path.basename(x).startswith('.')]
                if hid:
                    text = os.path.relpath(R.choice(hid), here or '.')
                else:
                    spec.append(('.h', 'dir', ''))
                    if '.h' not in have:
                        have.add('.h')
                        dirs.append(('.h', 1))
                    text = os.path.relpath('.h', here or '.')
            else:
                text = 'nowhere'
            spec.append((rel, 'link', text))
        else:
            spec.append((rel, 'file', ''))
            files.append(rel)
        have.add(rel)
    return spec


def _enc_rpath(parts: list[str]) -> str:
    return '/'.join(common.enc(p) for p in parts)


def abstract(t: Tree) -> None:
    """Compute the model's tree by asking the OS about every entry (scandir order, lstat,
    stat, realpath).  Nothing is taken from the generator's intent."""
    top_parts = [p for p in t.top.split('/') if p]
    t.entries = []
    t.names = set()
    links: list[tuple[list[str], list[str] | None]] = []

    def node(path: str, parts: list[str]) -> str:
        st = os.lstat(path)
        import stat as S
        if S.S_ISLNK(st.st_mode):
            try:
                os.stat(path)
            except OSError:
                links.append((parts, None))
                return 'l-'
            rp = os.path.realpath(path)
            assert rp == t.top or rp.startswith(t.top + '/'), (rp, t.top)
            tp = [p for p in rp.split('/') if p]
            links.append((parts, tp))
            return 'l<' + _enc_rpath(tp) + '>'
        if S.S_ISDIR(st.st_mode):
            out = []
            with _real_scandir(path) as it:
                names = [e.name for e in it]
            for nm in names:
                out.append(common.enc(nm) + '=' + node(os.path.join(path, nm), parts + [nm]))
            return 'd(' + ','.join(out) + ')'
        return 'f'

    body = node(t.top, top_parts)
    for p in reversed(top_parts):
        body = 'd(' + common.enc(p) + '=' + body + ')'
    t.enc = body
    t.cwd = 'p' + _enc_rpath(top_parts + list(ROOT_REL))
    # display entries below the root (not through links), for K6 / C04 candidates
    for dp, dns, fns in os.walk(t.root):
        for nm in dns + fns:
            rel = os.path.relpath(os.path.join(dp, nm), t.root)
            t.entries.append(rel)
            t.names.add(nm)
    # cycle: some link whose target is an ancestor-or-self of the link's own directory, or
    # any cycle through several links (DFS over "directory → entries, following links")
    realdirs = {}

    def children(rp: tuple) -> list[tuple]:
        path = '/' + '/'.join(rp)
        out = []
        try:
            with _real_scandir(path) as it:
                for e in it:
                    try:
                        if e.is_dir():
                            out.append(tuple(p for p in os.path.realpath(e.path).split('/') if p))
                    except OSError:
                        pass
        except OSError:
            pass
        return out

    state: dict = {}

    def dfs(rp: tuple) -> bool:
        state[rp] = 1
        for c in realdirs.setdefault(rp, children(rp)):
            if state.get(c) == 1:
                return True
            if c not in state and dfs(c):
                return True
        state[rp] = 2
        return False
    t.cyclic = dfs(tuple(top_parts + list(ROOT_REL)))


# ------------------------------------------------------------------ recording the real walker

class Recorder:
    """Wraps os.scandir / os.open while a real glob runs; logs ('s', displaypath)."""

    def __init__(self, root: str, mode: str, log: list, budget: int = 4000):
        self.root = root
        self.mode = mode        # 'root_dir' | 'bytes' | 'pathlike' | 'cwd' | 'dir_fd'
        self.log = log
        self.budget = budget

    def _norm(self, p) -> str:
        if isinstance(p, bytes):
            p = os.fsdecode(p)
        p = os.fspath(p)
        if self.mode in ('cwd', 'dir_fd'):
            if p == '.':
                return ''
            if p.startswith('./'):
                return p[2:]
            return p
        if p == self.root:
            return ''
        if p.startswith(self.root + '/'):
            return p[len(self.root) + 1:]
        return p

    def __enter__(self):
        rec = self

        def scandir(path='.'):
            if not isinstance(path, int):
                rec.log.append(('s', rec._norm(path)))
                rec.budget -= 1
                if rec.budget < 0:
                    raise ScanBudget()
            return _real_scandir(path)

        def open_(path, flags, mode=0o777, *, dir_fd=None):
            if dir_fd is not None:
                rec.log.append(('s', rec._norm(path)))
                rec.budget -= 1
                if rec.budget < 0:
                    raise ScanBudget()
            return _real_open(path, flags, mode, dir_fd=dir_fd)
        os.scandir = scandir
        os.open = open_
        return self

    def __exit__(self, *exc):
        os.scandir = _real_scandir
        os.open = _real_open
        return False


class ScanBudget(BaseException):
    pass


def run_real(G, t: Tree, pats, flags: int, exclude=None, mode: str = 'root_dir', use_iglob: bool = True,
             limit_s: int = 10, budget: int = 4000):
    """Run the real glob/iglob; returns ('ok', events) | ('exc', name) | ('timeout', events) |
    ('budget', events).  events = [('s', path) | ('y', path)] in the order they happen."""
    log: list = []
    conv = (lambda s: os.fsencode(s)) if mode == 'bytes' else (lambda s: s)
    if mode == 'bytes':
        pats_ = [conv(p) for p in pats] if isinstance(pats, list) else conv(pats)
        excl_ = None if exclude is None else ([conv(p) for p in exclude] if isinstance(exclude, list) else conv(exclude))
    else:
        pats_, excl_ = pats, exclude
    kw = {}
    fd = None
    old = os.getcwd()
    try:
        if mode == 'root_dir':
            kw['root_dir'] = t.root
        elif mode == 'bytes':
            kw['root_dir'] = os.fsencode(t.root)
        elif mode == 'pathlike':
            import pathlib
            kw['root_dir'] = pathlib.Path(t.root)
        elif mode == 'cwd':
            os.chdir(t.root)
        elif mode == 'dir_fd':
            fd = _real_open(t.root, os.O_RDONLY | os.O_DIRECTORY)
            kw['dir_fd'] = fd
        if excl_ is not None:
            kw['exclude'] = excl_
        status = 'ok'
        try:
            with Recorder(t.root, mode, log, budget):
                with common.time_limit(limit_s):
                    if use_iglob:
                        for x in G.iglob(pats_, flags=flags, **kw):
                            log.append(('y', os.fsdecode(x) if isinstance(x, bytes) else x))
                    else:
                        for x in G.glob(pats_, flags=flags, **kw):
                            log.append(('y', os.fsdecode(x) if isinstance(x, bytes) else x))
        except common.CallTimeout:
            status = 'timeout'
        except ScanBudget:
            status = 'budget'
        except Exception as e:  # noqa: BLE001
            return 'exc', type(e).__name__ + ': ' + str(e)[:80]
        return status, log
    finally:
        os.chdir(old)
        if fd is not None:
            os.close(fd)


# ------------------------------------------------------------------ the model side

def expansions(W, U, G, pats, flags: int, exclude, isb: bool = False):
    """What `Glob._iter_patterns` feeds to its loop: per input pattern, the list that
    `_wcparse.expand(norm_pattern(p))` yields under Glob's own flag word (read from a real
    Glob object).  Returns (L-encoded patterns, L-encoded exclude or 'N')."""
    g = G.Glob(pats, flags=flags, exclude=exclude)
    if not hasattr(g, 'flags'):
        return 'L', 'N'     # empty pattern list: constructor returned early
    fl = g.flags
    unix = g.unix

    def groups(ps):
        ps = [ps] if isinstance(ps, (str, bytes)) else ps
        out = []
        for p in ps:
            p = U.norm_pattern(p, not unix, g.raw_chars)
            out.append(list(W.expand(p, fl, 0)))
        return out

    def encl(gs):
        return 'L' + ''.join(','.join(common.enc(x) for x in grp) + ';' for grp in gs)
    return encl(groups(pats)), ('N' if exclude is None else encl(groups(exclude)))


def model_line(t: Tree, flags: int, pe: str, ee: str, isb: bool, fd_mode: bool, fuel: int = 40) -> str:
    return f'glob {flags} {int(isb)} {int(fd_mode)} {fuel} {t.enc} {t.cwd} {pe} {ee}'


def norm_scan(p: str, mode: str, root: str) -> str:
    """the one canonicalisation of the scandir trace: with `root_dir=R` the walker lists
    `join(R, curdir)`, with an absolute pattern it lists `curdir` itself; both spell a
    directory below the root as `R/…`, so both sides are reduced to the root-relative form"""
    if mode in ('cwd', 'dir_fd'):
        return p
    if p == root:
        return ''
    if p.startswith(root + '/'):
        return p[len(root) + 1:]
    return p


def parse_model(reply: str, mode: str = 'cwd', root: str = ''):
    f = reply.split(' ')
    if f[0] != 'ok':
        return 'err', reply
    evs = []
    oof = False
    for tok in f[1:]:
        if tok == 'oof':
            oof = True
            evs.append(('oof', ''))
        else:
            v = common.dec(tok[1:])
            evs.append((tok[0], norm_scan(v, mode, root) if tok[0] == 's' else v))
    return ('oof' if oof else 'ok'), evs


# ------------------------------------------------------------------ generators

SEGS = ['*', '*', '**', '**', '***', '?', '.*', '*.*', 'a*', '*b', '[ab]', '[!a]', '[a]', '[A-Z]', '@(a|b|.h)', '!(a)',
        '?(a)b', '+(a|b)', '*(a)', '.', '..', '.h', 'A', 'a', 'b', 'ab', 'a.b', '??', '*\\\\', 'a?', '[.]h', '!(*.b)',
        '@(a|A)', '*/', 'x\\\\', 'a\\\n', '.[h.]', '\\a', 'nowhere', '*h']


def gen_pattern(R, G, t: Tree, allow_abs: bool = True) -> str:
    r = R.random()
    if r < 0.25:
        p = gen.gen_path_pattern(R)
        if p.startswith('/'):
            p = p.lstrip('/')
    else:
        n = R.randint(1, 4)
        segs = []
        for _ in range(n):
            k = R.random()
            if k < 0.35 and t.names:
                nm = R.choice(sorted(t.names))
                segs.append(G.escape(nm) if R.random() < 0.7 else nm)
            else:
                segs.append(R.choice(SEGS).rstrip('/'))
        p = segs[0]
        for s in segs[1:]:
            p += ('/' if R.random() < 0.9 else '//') + s
        if R.random() < 0.2:
            p += '/'
    # never more than four path segments (see module docstring)
    pieces = [x for x in p.split('/')]
    if len([x for x in pieces if x]) > 4:
        p = '/'.join([x for x in pieces if x][:4])
    if allow_abs and R.random() < 0.1:
        p = t.root + '/' + p
    return p


PUBLIC_BITS = ['GLOBSTAR', 'GLOBSTARLONG', 'FOLLOW', 'DOTGLOB', 'EXTGLOB', 'MATCHBASE', 'NODIR', 'MARK', 'SCANDOTDIR',
               'NODOTDIR', 'IGNORECASE', 'NOUNIQUE', 'NEGATE', 'BRACE', 'SPLIT', 'NEGATEALL', 'MINUSNEGATE', 'CASE']


def gen_flags(R, G, t: Tree, want: list[str] | None = None, p: float = 0.3) -> int:
    fl = 0
    for nm in PUBLIC_BITS:
        pr = p
        if nm in ('GLOBSTAR', 'EXTGLOB'):
            pr = 0.6
        if nm in ('NEGATEALL', 'MINUSNEGATE', 'CASE', 'BRACE', 'SPLIT'):
            pr = 0.1
        if R.random() < pr:
            fl |= getattr(G, nm)
    for nm in want or []:
        fl |= getattr(G, nm)
    if t.cyclic:
        fl &= ~G.FOLLOW
    return fl


def flag_names(G, fl: int) -> list[str]:
    out = [nm for nm in PUBLIC_BITS if fl & getattr(G, nm)]
    if fl & 0x8000000:
        out.append('_PATHLIB')
    return out


# ------------------------------------------------------------------ the K5 loop

class Case:
    """one K5 input: pattern(s), flags, exclude, root mechanism"""

    def __init__(self, pats, flags, exclude=None, mode='root_dir', fuel=40):
        self.pats = pats
        self.flags = flags
        self.exclude = exclude
        self.mode = mode
        self.fuel = fuel

    def to_json(self, G, t: Tree) -> dict:
        return {'api': 'glob.iglob', 'pattern': self.pats, 'flags': flag_names(G, self.flags), 'flags_int': self.flags,
                'exclude': self.exclude, 'root': self.mode, 'tree': t.desc}


def k5_loop(sr, drv, G, W, U, R, ntrees: int, gen_cases, on_case=None, spec_for=None) -> None:
    """For `ntrees` generated trees run every case of `gen_cases(R, t)` through the real
    `iglob` (events = interleaved scandir calls and results) and through the model; diff
    exactly.  `on_case(t, case, status, real_events, mstatus, model_events)` lets a check look
    at the same run for its failing-input search."""
    seen = set()
    for _ in range(ntrees):
        t = make_tree(R, spec_for(R) if spec_for else None)
        try:
            for c in gen_cases(R, t):
                try:
                    pe, ee = expansions(W, U, G, c.pats, c.flags, c.exclude)
                except Exception as e:  # noqa: BLE001  (constructor raised: not a walker case)
                    sr.histogram['ctor:' + type(e).__name__] = sr.histogram.get('ctor:' + type(e).__name__, 0) + 1
                    continue
                st, ev = run_real(G, t, c.pats, c.flags, c.exclude, c.mode)
                reply = drv.ask(model_line(t, c.flags, pe, ee, c.mode == 'bytes', c.mode == 'dir_fd', c.fuel))
                if reply == 'timeout':
                    sr.histogram['model-timeout (not a verdict)'] = sr.histogram.get('model-timeout (not a verdict)', 0) + 1
                    continue
                ms, mev = parse_model(reply, c.mode, t.root)
                sr.evaluations += 1
                seen.add((t.enc, repr(c.pats), c.flags, repr(c.exclude), c.mode))
                key = f'{st}/{ms}'
                sr.histogram[key] = sr.histogram.get(key, 0) + 1
                if st == 'ok' and ms == 'ok':
                    if ev != mev:
                        k = next((i for i, (a, b) in enumerate(zip(ev, mev)) if a != b), min(len(ev), len(mev)))
                        sr.disagree({'stream': 'K5', **c.to_json(G, t), 'first_difference_at': k,
                                     'code': ev[max(0, k - 2):k + 3], 'model': mev[max(0, k - 2):k + 3]})
                    else:
                        if any(e[0] == 'y' for e in ev):
                            sr.histogram['nonempty'] = sr.histogram.get('nonempty', 0) + 1
                        if len(sr.samples) < 3 and len(ev) > 3:
                            sr.samples.append({**c.to_json(G, t), 'events': ev[:12]})
                elif st == 'exc' or ms == 'err':
                    sr.disagree({'stream': 'K5', **c.to_json(G, t), 'code': (st, str(ev)[:200]), 'model': (ms, str(mev)[:200])})
                elif st in ('ok', 'budget', 'timeout') and ms == 'oof':
                    # FOLLOW / `***` on a cyclic tree: the model ran out of fuel (the real walk is cut
                    # off by the scan budget, or ends when the OS refuses a path with more than 40
                    # nested symlinks — ELOOP is not modelled); the events before the cut must agree
                    cut = next(i for i, e in enumerate(mev) if e[0] == 'oof')
                    n = min(cut, len(ev))
                    if ev[:n] != mev[:n]:
                        sr.disagree({'stream': 'K5-prefix', **c.to_json(G, t), 'code': ev[:8], 'model': mev[:8]})
                elif st == 'timeout' and ms == 'ok':
                    # the real walk did not finish within its time limit (nested quantifiers: exponential backtracking in `re`, a cost
                    # matter, not one of the properties); what it produced before must be a prefix of the model's events
                    sr.histogram['code-timeout (prefix compared, not a verdict)'] = sr.histogram.get('code-timeout (prefix compared, not a verdict)', 0) + 1
                    n = min(len(ev), len(mev))
                    if ev[:n] != mev[:n]:
                        sr.disagree({'stream': 'K5-prefix', **c.to_json(G, t), 'code': ev[:8], 'model': mev[:8]})
                else:
                    sr.disagree({'stream': 'K5', **c.to_json(G, t), 'code': (st, len(ev)), 'model': (ms, len(mev))})
                if on_case:
                    on_case(t, c, st, ev, ms, mev)
        finally:
            t.remove()
    sr.distinct += len(seen)


# ------------------------------------------------------------------ K6: globmatch / globfilter with REALPATH

def match_expansions(W, U, G, pats, flags: int, exclude):
    """the expanded lists `_wcparse.compile_pattern` loops over (flags as `globmatch` sees them)"""
    fl = G._flag_transform(flags)
    if exclude is not None:
        fl = W.no_negate_flags(fl)
    unix = W.is_unix_style(fl)

    def groups(ps):
        ps = [ps] if isinstance(ps, (str, bytes)) else ps
        return [list(W.expand(U.norm_pattern(p, not unix, bool(fl & W.RAWCHARS)), fl, 0)) for p in ps]

    def encl(gs):
        return 'L' + ''.join(','.join(common.enc(x) for x in grp) + ';' for grp in gs)
    return encl(groups(pats)), ('N' if exclude is None else encl(groups(exclude)))


def candidates(t: Tree, results: list[str], R=None) -> list[str]:
    """every entry of the tree (also through links, two levels), with and without a trailing
    separator, a few non-existent and absolute spellings, and everything glob returned"""
    out: list[str] = []
    seen = set()

    def add(p):
        if p and p not in seen:
            seen.add(p)
            out.append(p)
    for e in t.entries:
        add(e)
        full = os.path.join(t.root, e)
        if os.path.isdir(full):
            add(e + '/')
            if os.path.islink(full):
                try:
                    for nm in sorted(os.listdir(full))[:6]:
                        add(e + '/' + nm)
                        f2 = os.path.join(full, nm)
                        if os.path.isdir(f2) and os.path.islink(f2):
                            for nm2 in sorted(os.listdir(f2))[:3]:
                                add(e + '/' + nm + '/' + nm2)
                    # ... and everything below the link's target, to any depth (bounded; links below are not followed again): a later `**`
                    # of the pattern may stand for real directories there (seeded change C04i)
                    k = 0
                    for dp, dn, fn in os.walk(full, followlinks=False):
                        rel = os.path.relpath(dp, full)
                        for nm in sorted(dn) + sorted(fn):
                            if k >= 40:
                                break
                            add(e + '/' + (nm if rel == '.' else rel + '/' + nm))
                            k += 1
                        if k >= 40:
                            break
                except OSError:
                    pass
    for r in results:
        # the kernel resolves at most 40 symbolic links per path (ELOOP); the abstract tree has no such limit, so a result that a
        # `***` / FOLLOW walk of a cyclic tree reached at that boundary is a runtime artefact, not a candidate (seed-2 soak, C06)
        if r.count('/') >= 30:
            continue
        add(r)
        if r.endswith('/') and len(r) > 1:
            add(r.rstrip('/'))
    add('nope')
    add('nope/')
    if t.entries:
        add(t.entries[0] + '/nope')
        add(os.path.join(t.root, t.entries[0]))
        add('./' + t.entries[0])
    add('.')
    add('..')
    return out


def run_real_match(G, t: Tree, cands: list[str], pats, flags: int, exclude=None, api: str = 'globfilter',
                   mode: str = 'root_dir'):
    kw = {}
    fd = None
    old = os.getcwd()
    try:
        if mode == 'root_dir':
            kw['root_dir'] = t.root
        elif mode == 'cwd':
            os.chdir(t.root)
        elif mode == 'dir_fd':
            fd = _real_open(t.root, os.O_RDONLY | os.O_DIRECTORY)
            kw['dir_fd'] = fd
        elif mode == 'fd+root':
            # a descriptor on the PARENT together with a root_dir relative to it (seeded change C04j: the link test of `_fs_match` forgot
            # root_dir when a descriptor was given)
            fd = _real_open(os.path.dirname(t.root), os.O_RDONLY | os.O_DIRECTORY)
            kw['dir_fd'] = fd
            kw['root_dir'] = os.path.basename(t.root)
        if exclude is not None:
            kw['exclude'] = exclude
        try:
            with common.time_limit(10):
                if api == 'globfilter':
                    ok = set(G.globfilter(cands, pats, flags=flags, **kw))
                    return 'ok', ''.join('1' if c in ok else '0' for c in cands)
                if api in ('compiled', 'pickled', 'deepcopy', 'pickled-twice'):
                    # a compiled matcher, as built / after a pickle or deepcopy round trip (added after seeded change C06h: the
                    # reducer rebuilt the object with `follow` and `path` swapped, so the copy stopped link-testing `**`)
                    import copy
                    import pickle
                    ex = kw.pop('exclude', None)
                    mobj = G.compile(pats, flags=flags, exclude=ex) if ex is not None else G.compile(pats, flags=flags)
                    if api == 'pickled':
                        mobj = pickle.loads(pickle.dumps(mobj))
                    elif api == 'pickled-twice':
                        mobj = pickle.loads(pickle.dumps(pickle.loads(pickle.dumps(mobj))))
                    elif api == 'deepcopy':
                        mobj = copy.deepcopy(mobj)
                    ok = set(mobj.filter(cands, **kw))
                    return 'ok', ''.join('1' if c in ok else '0' for c in cands)
                return 'ok', ''.join('1' if G.globmatch(c, pats, flags=flags, **kw) else '0' for c in cands)
        except common.CallTimeout:
            return 'timeout', ''
        except Exception as e:  # noqa: BLE001
            return 'exc', type(e).__name__ + ': ' + str(e)[:80]
    finally:
        os.chdir(old)
        if fd is not None:
            os.close(fd)


def match_line(t: Tree, flags: int, pe: str, ee: str, cands: list[str]) -> str:
    return f'matchreal {flags} 0 {t.enc} {t.cwd} {pe} {ee} ' + ' '.join(common.enc(c) for c in cands)


# ------------------------------------------------------------------ trigger signature of known finding D17

def d17_shape(G, t: Tree, pats, flags: int, r: str) -> bool:
    """KF-D17 (results below something that is not a directory: `f/.`, `f/..`, `f/**` -> `f/`) needs a pattern with a FURTHER
    segment after the one that named the non-directory.  A bare `f/` returned for a regular file `f` does not have that shape."""
    import bracex
    plist = [pats] if isinstance(pats, (str, bytes)) else list(pats)
    pieces: list[str] = []
    for q in plist:
        if isinstance(q, bytes):
            q = q.decode('latin-1')
        try:
            ex = list(bracex.iexpand(q, keep_escapes=True, limit=200)) if flags & G.BRACE else [q]
        except Exception:  # noqa: BLE001
            ex = [q]
        for e in ex:
            pieces.extend(e.split('|') if flags & G.SPLIT else [e])
    maxsegs = max((len([sg for sg in q.split('/') if sg]) for q in pieces), default=0)
    if flags & G.MATCHBASE:
        maxsegs += 1
    comps = [k for k in r.rstrip('/').split('/')]
    start = 1 if r.startswith('/') else 0
    for j in range(1, len(comps) + 1):
        pre = '/'.join(comps[:j])
        if not pre:
            continue
        full = pre if r.startswith('/') else os.path.join(t.root, pre)
        if os.path.lexists(full) and not os.path.isdir(full):
            return maxsegs > (j - start)
    return True      # nothing on the way is a non-directory: a different kind of non-existence; keep the old attribution

def gen_pair(R, G, t: Tree):
    """two patterns that make the walker list ONE directory twice, once for directories only and once for everything, in both
    orders, or start from the same literal once as a directory and once as anything (added after seeded changes C05g / C13g: a
    per-call cache of directory listings keyed by the directory alone, and a cached root scan that kept the first pattern's
    directories-only filter)"""
    names = sorted(t.names) or ['a']
    d, f = G.escape(R.choice(names)), G.escape(R.choice(names))
    fam = [['*/', '*'], ['*', '*/'], [d + '/*/', d + '/*'], [d + '/*', d + '/*/'], ['*/*', '*'], [d + '/', f], [f, d + '/'], ['*/*/', '*/*'],
           ['**/', '**'], [d + '/**/', d + '/**'], ['*/' + f, '*'], [d + '/', d], [d, d + '/']]
    return R.choice(fam)

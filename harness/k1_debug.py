import sys, itertools, time
sys.path.insert(0, '/verif/harness')
from common import *
import_wcmatch()
from wcmatch import _wcparse as W
import warnings; warnings.simplefilter('ignore')
d = Driver()
alpha = sys.argv[1] if len(sys.argv) > 1 else 'a.*?[]!()|+@\\/-'
maxlen = int(sys.argv[2]) if len(sys.argv) > 2 else 4
flagsets = [int(x, 0) for x in sys.argv[3].split(',')] if len(sys.argv) > 3 else [W.FORCEUNIX, W.FORCEUNIX|W.EXTMATCH, W.FORCEUNIX|W.EXTMATCH|W.DOTMATCH, W.FORCEUNIX|W.PATHNAME|W.EXTMATCH|W.GLOBSTAR]
t0 = time.time(); n = 0; bad = 0
for fl in flagsets:
    pats = [''.join(t) for L in range(0, maxlen + 1) for t in itertools.product(alpha, repeat=L)]
    outs = d.ask_many([f'parse {fl} 0 {enc(p)}' for p in pats])
    for p, o in zip(pats, outs):
        n += 1
        try:
            py = 'ok ' + W.WcParse(p, fl).parse()
        except ValueError:
            py = 'err ValueError'
        f = o.split(' ')
        mo = 'ok ' + dec(f[1]) if f[0] == 'ok' else o
        if py != mo:
            bad += 1
            if bad <= 15:
                print('DIFF flags=%#x pat=%r\n  py=%s\n  mo=%s' % (fl, p, py, mo))
print(n, 'compared', bad, 'diffs', round(time.time() - t0, 1), 's')

"""C19 — results never depend on call history, caching, sharing or threads.

Proof  : Properties/C19.lean — cache invariant preserved by the two atomic operations of lru_cache
         ⇒ C19_history / C19_fresh (every call in every history = its stateless result) and
         C19_schedule (every interleaving of several threads); WcRegexp eq / hash / pickle theorems;
         cache shape and pickled field lists from Generated.
Tie    : K9 — the LRU model's hit/miss trace vs `_compile.cache_info()` on a colliding, evicting
         history of direct `_compile` calls; every pool call vs the stateless Lean model (regex
         texts / match bits through the `lists` driver command).
Search : the property itself — warm-cache histories (400 calls, > 256 distinct keys, same text under
         different flags / as bytes, translate and compile interleaved) vs the same call with all
         caches cleared and vs a fresh interpreter; 8 threads with a 1 µs switch interval;
         eq / hash / pickle / copy / immutability / reuse of WcMatcher and WcRegexp objects.
"""
from __future__ import annotations
import shutil
import tempfile
import warnings

import common
import k4_lists as K
import k9_cache as K9
from framework import Check, Failing

warnings.simplefilter('ignore')

TARGETS = ['WcModel.Properties.C19']


def run(ck: Check) -> int:
    ck.build()
    ck.audit()
    w = K.World()
    drv = common.Driver() if ck.driver_ok else None
    R = common.rng('C19')
    tree = tempfile.mkdtemp(prefix='c19-', dir='/tmp')
    K9.make_tree(tree)
    try:
        pool = K9.build_pool(w, R)
        ref = K9.reference(w, pool, tree)

        def s_lru(sr):
            sr.note = ('direct _wcparse._compile(pattern, flags) calls (330 keys: same text under 3 flag words, str and bytes; > 256 '
                       'distinct → eviction): hit/miss after every call (cache_info) and final size vs the Lean LRU model (Cache.trace)')
            for rep in range(3 if ck.tier == 'quick' else 40):
                code, size, model, msize, nk = K9.lru_trace(w, drv, R)
                sr.evaluations += len(code)
                sr.distinct += nk
                sr.histogram['hit'] = sr.histogram.get('hit', 0) + code.count('H')
                sr.histogram['miss'] = sr.histogram.get('miss', 0) + code.count('M')
                if code != model or size != msize:
                    first = next((i for i, (a, b) in enumerate(zip(code, model)) if a != b), None)
                    sr.disagree({'stream': 'K9-lru', 'first_difference_at_call': first, 'code_size': size, 'model_size': msize,
                                 'code': code[:80], 'model': model[:80]})
                elif len(sr.samples) < 1:
                    sr.samples.append({'calls': len(code), 'distinct_keys': nk, 'hits': code.count('H'), 'final_size': size})
        if drv is not None:
            ck.stream('K9-lru-trace', s_lru)

        def s_model(sr):
            sr.note = ('every distinct pool call (fnmatch/filter/translate/compile, globmatch/globfilter/translate/compile x '
                       f'{len(K9.BASE)} patterns x 9-11 flag words x str/bytes + 300 eviction patterns), evaluated with cleared caches, vs the '
                       'stateless Lean model: regex texts and match bits')
            seen = set()
            for c in pool:
                k = K9.key_of(c)
                if k in seen or c['api'].endswith('-tree') or c['flags'] & w.G.REALPATH:
                    continue        # file-system dependent calls: compared against the walker / matchReal models in C04-C06
                seen.add(k)
                api = K.API_BY_NAME[c['api']]
                mo, _line = w.model(drv, api, c['pats'], None, c['flags'], 1000, c['isb'], K9.NAMES)
                r = ref[k]
                sr.evaluations += 1
                sr.histogram[r['kind']] = sr.histogram.get(r['kind'], 0) + 1
                d = None
                if mo['kind'] != r['kind']:
                    d = f"outcome {r['kind']} vs model {mo['kind']}"
                elif r['kind'] == 'ok':
                    for fld in ('pos', 'neg', 'bits'):
                        if r.get(fld) is not None and mo.get(fld) is not None and r[fld] != mo[fld]:
                            d = f'{fld}: {str(r[fld])[:120]} vs model {str(mo[fld])[:120]}'
                            break
                if d:
                    sr.disagree({'stream': 'K9-model', **c, 'difference': d})
                elif len(sr.samples) < 3 and r.get('bits') and '1' in r['bits'] and c['isb']:
                    sr.samples.append({**c, 'bits': r['bits']})
            sr.distinct = len(seen)
        if drv is not None:
            ck.stream('K9-stateless-model', s_model)

        def fail(what, c, exp, obs):
            ck.report(Failing(what, {k: v for k, v in c.items()}, str(exp)[:300], str(obs)[:300],
                              site='wcmatch/_wcparse.py:788-792 (_compile lru_cache); _wcmatch.py:249-321'), None)

        def s_hist(sr):
            nh = 50 if not ck.deep() else 1500
            sr.note = (f'{nh} histories x 400 calls drawn from the pool ({len(pool)} descriptors), replayed in one process without '
                       'clearing anything, each result vs the same call evaluated with all caches cleared (re + _compile) and vs a '
                       'fresh interpreter')
            fresh = K9.fresh_interpreter(pool, tree)
            for k, v in ref.items():
                sr.evaluations += 1
                if not K9.same(v, fresh[k]):
                    c = dict(zip(('api', 'pats', 'flags', 'isb'), __import__('json').loads(k)))
                    fail('result in a fresh interpreter differs from the result with cleared caches', c, fresh[k], v)
            # no history at all: the calls whose internal switches collide (REALPATH / MATCHBASE / translate vs compile),
            # each in its own interpreter state
            designed = [c for c in pool if c['flags'] & (w.G.REALPATH | w.G.MATCHBASE) or c['api'].endswith('-tree')]
            if not ck.deep():
                designed = designed[:500]
            iso = K9.isolated_interpreters(designed, tree, 12)
            sr.histogram['isolated-interpreter calls'] = len(iso)
            for k, v in iso.items():
                sr.evaluations += 1
                if k in ref and not K9.same(ref[k], v):
                    c = dict(zip(('api', 'pats', 'flags', 'isb'), __import__('json').loads(k)))
                    fail('result after other calls (caches cleared) differs from the same call alone in a fresh interpreter', c, v, ref[k])
            w.W._compile.cache_clear()
            for h in range(nh):
                hist = [R.choice(pool) for _ in range(400)]
                for pos, c in enumerate(hist):
                    got = K9.evaluate(w, c, tree)
                    sr.evaluations += 1
                    if not K9.same(got, ref[K9.key_of(c)]):
                        fail(f'call #{pos} of a warm history differs from the same call with cleared caches',
                             {**c, 'history_prefix': [K9.key_of(x) for x in hist[max(0, pos - 5):pos]]}, ref[K9.key_of(c)], got)
                        sr.histogram['FAIL'] = sr.histogram.get('FAIL', 0) + 1
                ci = w.W._compile.cache_info()
                sr.histogram['max currsize'] = max(sr.histogram.get('max currsize', 0), ci.currsize)
                if ci.currsize > ci.maxsize:
                    fail('cache grew beyond maxsize', {'currsize': ci.currsize}, ci.maxsize, ci.currsize)
            sr.distinct = len(ref)
            sr.samples.append({'histories': nh, 'calls_each': 400, 'distinct_calls': len(ref)})
        ck.search('warm-history-vs-cleared-vs-fresh', s_hist)

        def s_threads(sr):
            rounds = 3 if not ck.deep() else 40
            sr.note = (f'{rounds} rounds of 8 threads x 300 pool calls with sys.setswitchinterval(1e-6), starting from a cold cache; every '
                       'result vs the reference computed single-threaded with cleared caches')
            for _ in range(rounds):
                w.W._compile.cache_clear()
                res, errs = K9.run_threads(w, pool, tree, 8, 300, R)
                for e in errs:
                    fail('a thread crashed', {'error': e}, 'no exception', e)
                for c, got in res:
                    if got['kind'].startswith('skip'):
                        continue        # chdir-based call: not run on threads
                    sr.evaluations += 1
                    if not K9.same(got, ref[K9.key_of(c)]):
                        fail('a call on one of 8 concurrent threads differs from its single-threaded result', c, ref[K9.key_of(c)], got)
                        sr.histogram['FAIL'] = sr.histogram.get('FAIL', 0) + 1
                sr.histogram['calls'] = sr.histogram.get('calls', 0) + len(res)
            sr.distinct = len(ref)
        ck.search('threads', s_threads)

        def s_fs(sr):
            sr.note = ('file-system change histories: two roots with the same relative names (directory vs link), a directory replaced by '
                       'a link and back, root given by root_dir / cwd / dir_fd (fd numbers are reused), REALPATH globmatch / globfilter / a '
                       'compiled matcher reused across states / glob: every answer vs the same call alone in a fresh interpreter')
            sr.evaluations = K9.fs_change_histories(w, lambda what, inp, exp, obs: ck.report(
                Failing(what, inp, exp, obs, site='wcmatch/_wcmatch.py:_Match (symlink memo must be per call)'), None))
            sr.distinct = sr.evaluations
        ck.search('fs-change-histories', s_fs)

        def s_tilde(sr):
            sr.note = ('GLOBTILDE: `~` is replaced exactly when the home directory exists at the call — $HOME missing / created / removed / '
                       'created again in one warm process, glob / globmatch (with and without REALPATH) / translate, lists, BRACE, SPLIT, '
                       'each call twice, vs a fresh interpreter (added after seeded change C19e: expand() was memoised)')
            sr.evaluations = K9.tilde_histories(w, lambda what, inp, exp, obs: ck.report(
                Failing(what, inp, exp, obs, site='wcmatch/_wcparse.py:expand / expand_tilde (reads the file system)'), None))
            sr.distinct = sr.evaluations
        ck.search('tilde-histories', s_tilde)

        def s_fd(sr):
            sr.note = ('glob with ONE dir_fd shared by 8 threads (700-entry directory, switch interval 1 µs): every answer = the '
                       'sequential answer (added after seeded change C19f: os.dup shared the directory read offset)')
            sr.evaluations = K9.shared_dirfd_threads(w, lambda what, inp, exp, obs: ck.report(
                Failing(what, inp, exp, obs, site='wcmatch/glob.py:Glob._iter (dir_fd branch)'), None), 6 if not ck.deep() else 40)
            sr.distinct = sr.evaluations
        ck.search('shared-dir_fd-threads', s_fd)

        def s_park(sr):
            sr.note = ('150 half-consumed iglob / Path.glob iterators kept alive under RLIMIT_NOFILE = 64, then glob again: same answers as before '
                       '(added after seeded change C19h: the walker iterated scandir lazily, a suspended iterator kept one descriptor per level '
                       'open, later calls hit EMFILE and silently returned nothing); in a subprocess')
            sr.evaluations = K9.parked_iterators(w, lambda what, inp, exp, obs: ck.report(
                Failing(what, inp, exp, obs, site='wcmatch/glob.py:Glob._glob_dir / _iter'), None))
            sr.distinct = 1
        ck.search('parked-iterators', s_park)

        def s_magic(sr):
            sr.note = ('is_magic: ~2000 questions (fnmatch / glob, str / bytes, drive-shaped and plain patterns x each symbol flag x the three platform words) '
                       'asked in three orders, each in a fresh interpreter: same answers (added after seeded change C19i: the bytes drive-symbol set was a '
                       'module-level set that `|=` grew in place, so a BRACE / SPLIT question changed later answers)')
            sr.evaluations = K9.is_magic_orders(w, lambda what, inp, exp, obs: ck.report(
                Failing(what, inp, exp, obs, site='wcmatch/_wcparse.py:_get_magic_symbols / is_magic'), None))
            sr.distinct = sr.evaluations // 3
        ck.search('is_magic-call-orders', s_magic)

        def s_repeat(sr):
            # the SAME call repeated in a warm process: equal, hash-equal matchers with the same regex lists, the same answers, and no exception
            # that the first call did not raise — also when the pattern limit is reached exactly (added after seeded change C19k: compiled
            # exclude= lists were memoised and the NODIR regex was appended to the cached list, one more at every repetition)
            F, G = w.F, w.G
            cases = [(G, ['*.txt', 'a*'], ['b*'], G.NODIR, 3), (G, ['*'], ['x', 'y'], G.NODIR | G.GLOBSTAR, 3), (G, ['**'], ['*/'], G.GLOBSTAR, 1000),
                     (G, ['{a,b}*'], ['c*'], G.NODIR | G.BRACE, 3), (F, ['*.txt'], ['a*'], 0, 2), (F, ['a', 'b'], ['c|d'], F.SPLIT, 4),
                     (G, [b'*.txt', b'a*'], [b'b*'], G.NODIR, 3), (G, ['*'], None, G.NODIR | G.NEGATE, 1), (G, ['*', '!b*'], None, G.NODIR | G.NEGATE, 2)]
            names = ['a.txt', 'b.txt', 'ab', 'd/', 'x', 'c.txt', 'd/e.txt']
            sr.note = (f'{len(cases)} calls (exclude= and inline exclusions, NODIR, BRACE, SPLIT, bytes; limit = exactly the number of patterns) made five times in a row '
                       'without clearing any cache: compile() objects equal / hash-equal / same lists, globmatch / fnmatch answers and exceptions identical')
            for mod, pats, ex, fl, lim in cases:
                outs = []
                for rep in range(5):
                    sr.evaluations += 1
                    kw = {} if ex is None else {'exclude': ex}
                    isb = isinstance(pats[0], bytes)
                    try:
                        m_ = mod.compile(pats, flags=fl, limit=lim, **kw)
                        ans = [bool(m_.match(n.encode() if isb else n)) for n in names]
                        rec = ['ok', m_, hash(m_), len(m_._matcher._include), len(m_._matcher._exclude or ()), ans]
                    except Exception as e:  # noqa: BLE001
                        rec = [type(e).__name__, None, None, None, None, None]
                    # the one-shot entry point with the same arguments, judged on its own (each of these calls is another repetition)
                    one = []
                    for n in names:
                        try:
                            one.append(bool((mod.globmatch if mod is G else mod.fnmatch)(n.encode() if isb else n, pats, flags=fl, limit=lim, **kw)))
                        except Exception as e:  # noqa: BLE001
                            one.append(type(e).__name__)
                    outs.append(tuple(rec) + (one,))
                first = outs[0]
                for k_, o in enumerate(outs[1:], 2):
                    same = (o[0] == first[0]) and (o[0] != 'ok' or (o[1] == first[1] and o[2] == first[2])) and o[3:] == first[3:]
                    same = same and (first[0] != 'ok' or first[6] == first[5])          # the one-shot calls answer what the compiled object answers
                    if not same:
                        ck.report(Failing(f'{mod.__name__.split(".")[-1]}: the same compile / match call, repetition #{k_}, differs from the first one',
                                          {'api': mod.__name__ + '.compile', 'patterns': [repr(x) for x in pats], 'exclude': ex and [repr(x) for x in ex], 'flags': fl, 'limit': lim,
                                           'history': f'{k_} identical calls in a row'},
                                          str(first[:1] + first[3:])[:200], str(o[:1] + o[3:])[:200]), None)
                        sr.histogram['FAIL'] = sr.histogram.get('FAIL', 0) + 1
                        break
                else:
                    sr.histogram['same'] = sr.histogram.get('same', 0) + 1
            sr.distinct = len(cases)
        ck.search('identical-calls-repeated', s_repeat)

        def s_obj(sr):
            sr.note = ('WcMatcher (fnmatch.compile / glob.compile) and the inner WcRegexp: equal and hash-equal when built twice (cold '
                       'cache in between), pickle / copy / deepcopy round trips equal with unchanged behaviour, setattr raises, reuse '
                       'stable, never equal when the accepted names differ')
            n = K9.object_checks(w, R, 30 if not ck.deep() else 84,
                                 lambda what, inp, exp, obs: ck.report(Failing(what, inp, exp, obs, site='wcmatch/_wcmatch.py:249-419'), None))
            sr.evaluations = n
            sr.distinct = n
        ck.search('matcher-objects', s_obj)
    finally:
        shutil.rmtree(tree, ignore_errors=True)
        if drv is not None:
            drv.close()
        w.close()
    return ck.finish(assumptions=[
        'functools.lru_cache is modelled by its two critical sections (lookup / insert); that CPython executes them atomically and '
        'that `re` keeps its own cache consistent is assumed (exercised by the threaded run, not proved)',
        'WcParse keeps its parse state per instance: by construction in the model (the pass threads its state), tested for the code',
    ])


def replay(path: str) -> int:
    import json
    w = K.World()
    tree = tempfile.mkdtemp(prefix='c19-', dir='/tmp')
    K9.make_tree(tree)
    data = json.load(open(path))
    for f in data.get('failing', []):
        i = f['input']
        if 'api' in i and 'pats' in i:
            w.W._compile.cache_clear()
            print('replayed (cold):', i['api'], i['pats'], i['flags'], K9.evaluate(w, i, tree), 'expected', f['expected'][:200])
        else:
            print('replay:', f['what'], i)
    shutil.rmtree(tree, ignore_errors=True)
    w.close()
    return 0

"""C08 — translate returns regexes that mean exactly what match does.

Proof  : Properties/C08.lean — capture groups / (?:…) wrappers / laziness are invisible to
         Re.M; equal `Re.strip` ⇒ equal full matches for every subject (the certificate).
Tie    : K1 regex text in _TRANSLATE mode; certificate  strip(translate regex) = strip(compile
         regex)  evaluated per pattern (per pattern a proof of language equality for all names).
Search : public APIs — every regex returned by translate() compiles; a non-empty name is matched
         by fnmatch/globmatch (no REALPATH) iff it fully matches some inclusion regex and no
         exclusion regex (lists, exclude=, NEGATE, SPLIT, BRACE, NODIR…); the number of capturing
         groups equals the number of extended groups; outside !( ) the group captures the text the
         whole group consumed.
"""
from __future__ import annotations
import re
import warnings

import common
import gen
import pathcheck as P
import streams
from framework import Check, Failing

warnings.simplefilter('ignore')
TARGETS = ['WcModel.Properties.C08']


def count_ext_groups(p: str) -> int | None:
    """number of well-formed extended groups in a grammar-generated pattern (brackets skipped)"""
    n = 0
    i = 0
    depth = 0
    while i < len(p):
        c = p[i]
        if c == '\\':
            i += 2
            continue
        if c == '[':
            j = p.find(']', i + 2)
            if j < 0:
                return None
            # POSIX class inside
            if p[i + 1:i + 3] == '[:' or p[i + 1:i + 4] in ('^[:', '![:'):
                j = p.find(']', j + 1)
                if j < 0:
                    return None
            i = j + 1
            continue
        if c in '?*+@!' and i + 1 < len(p) and p[i + 1] == '(':
            n += 1
            depth += 1
            i += 2
            continue
        if c == ')':
            if depth == 0:
                return None
            depth -= 1
        i += 1
    return n if depth == 0 else None


def run(ck: Check) -> int:
    common.import_wcmatch()
    from wcmatch import glob as G, fnmatch as F, _wcparse as W
    ck.build()
    ck.audit()
    R = common.rng('C08')
    quick = ck.tier == 'quick'
    drv = common.Driver() if ck.driver_ok else None
    n = 4000 if quick else 60000
    pats = [(gen.gen_seq(R, 2, True, R.randint(1, 4)) if R.random() < 0.5 else P.gen_path(R)) for _ in range(n)]
    rand = [gen.random_pattern(R, 8) for _ in range(n // 2)]
    ibits = [W.PATHNAME, W.PATHNAME, W.DOTMATCH, W.EXTMATCH, W.EXTMATCH, W.GLOBSTAR, W.GLOBSTARLONG, W.MATCHBASE,
             W.NODOTDIR, W.IGNORECASE, W.CASE, W.REALPATH, W._NO_GLOBSTAR_CAPTURE, W.NEGATE, W.FOLLOW]

    def iflags(win=False):
        return streams.reachable(gen.random_flags(R, ibits, 0.35, W.FORCEWIN if win else W.FORCEUNIX))

    def s_k1(sr):
        cases = [(p, iflags(R.random() < 0.2) | W._TRANSLATE, R.random() < 0.2 and all(ord(c) < 256 for c in p)) for p in pats + rand]
        streams.k1(sr, drv, cases)
        sr.note = 'K1 regex text with _TRANSLATE set (capturing templates, (?#) stripping, !( copies), random other flags, unix+win, str+bytes'
    ck.stream('K1-translate-text', s_k1)

    def s_cert(sr):
        cases = [(p, iflags(R.random() < 0.2)) for p in pats + rand]
        outs = drv.ask_many([f'cert {fl | W._TRANSLATE} 0 {fl} 0 {common.enc(p)}' for p, fl in cases])
        for (p, fl), o in zip(cases, outs):
            sr.evaluations += 1
            k = ' '.join(o.split(' ')[:2])
            sr.histogram[k] = sr.histogram.get(k, 0) + 1
            if o == 'ok same':
                sr.distinct += 1
                if len(sr.samples) < 3 and '(' in p:
                    sr.samples.append({'pattern': p, 'flags': hex(fl), 'certificate': 'strip(translate) = strip(compile)'})
            elif o.startswith('ok diff') or o in ('err ValueError ok', 'err ok ValueError', 'err ReError ok', 'err ok ReError') or o == 'bad-op':
                sr.disagree({'stream': 'cert', 'pattern': p, 'flags': fl, 'reply': o[:400]})
        sr.note = ('language-equality certificate translate vs compile per pattern (Re.strip equal; theorem '
                   'strip_certificate turns each into equality of full matches for ALL names)')
    ck.stream('cert-translate-eq-compile', s_cert)

    names = [x for x in gen.names_upto('ab./', 3) if x] + ['a.b', 'ab/a', 'a/b/', '.a', 'a\n', 'A', 'aA']

    def s_caps(sr):
        gp = [p for p in pats if '(' in p][: (1200 if quick else 20000)]
        cases = [(p, iflags(False) | W._TRANSLATE | W.EXTMATCH, R.random() < 0.15 and all(ord(c) < 256 for c in p)) for p in gp]
        streams.k2cap(sr, drv, cases, names + ['ab', 'abab', 'aab', 'ba.', 'a/ab', 'b/a/b'])
        sr.note = ('K2-captures: the group SPANS re.fullmatch reports for the translate-mode regex vs Re.fullmatchCap of the model AST on every name '
                   '(the matcher translate_capture_text is about: each reported span is text the body of that group matches in place)')
    if drv:
        ck.stream('K2-capture-spans', s_caps)

    def s_search(sr):
        deep = ck.deep()
        m = len(pats) if (deep or not quick) else 2500
        fbits = [F.CASE, F.IGNORECASE, F.NEGATE, F.MINUSNEGATE, F.DOTMATCH, F.EXTMATCH, F.EXTMATCH, F.BRACE, F.SPLIT, F.NEGATEALL]
        gbits = [G.CASE, G.IGNORECASE, G.NEGATE, G.MINUSNEGATE, G.DOTGLOB, G.EXTGLOB, G.EXTGLOB, G.BRACE, G.SPLIT, G.NEGATEALL,
                 G.GLOBSTAR, G.GLOBSTAR, G.GLOBSTARLONG, G.MATCHBASE, G.NODIR, G.NODOTDIR, G.FOLLOW]
        for k in range(m):
            sr.evaluations += 1
            use_glob = k % 2 == 1
            npat = R.choice([1, 1, 2, 3])
            plist = [R.choice(pats) if R.random() < 0.8 else R.choice(rand) for _ in range(npat)]
            if R.random() < 0.3:
                plist[0] = R.choice(['!', '-']) + plist[0]
            excl = [R.choice(pats) for _ in range(R.randint(0, 2))] if R.random() < 0.3 else None
            mod, bits = (G, gbits) if use_glob else (F, fbits)
            fl = gen.random_flags(R, bits, 0.3, mod.FORCEUNIX)
            if R.random() < 0.12:
                # one body both plain and negated, in both orders, via a list / SPLIT / BRACE (added after seeded change C08e: the
                # matcher's duplicate filter forgot the polarity, translate() did not)
                b = R.choice(pats)
                form = R.randrange(6)
                fl = (fl | mod.NEGATE) & ~mod.MINUSNEGATE
                if form == 0:
                    plist = [b, '!' + b]
                elif form == 1:
                    plist = ['!' + b, b]
                elif form == 2:
                    plist, fl = ['!' + b, b], fl | mod.NEGATEALL
                elif form == 3:
                    plist, fl = [b + '|!' + b], fl | mod.SPLIT
                elif form == 4:
                    plist, fl = ['{,!}' + b], fl | mod.BRACE
                else:
                    plist = [R.choice(pats), '!' + b, b, '!' + b]
                sr.histogram['same body both polarities'] = sr.histogram.get('same body both polarities', 0) + 1
            key = (tuple(plist), tuple(excl or ()), fl, use_glob)
            try:
                with common.time_limit(5):
                    pos, neg = mod.translate(plist, flags=fl, exclude=excl)
                    cp = [re.compile(x) for x in pos]
                    cn = [re.compile(x) for x in neg]
                    mt = mod.compile(plist, flags=fl, exclude=excl)
                    got = [mt.match(x) for x in names]
            except common.CallTimeout:
                sr.histogram['timeout'] = sr.histogram.get('timeout', 0) + 1
                continue
            except re.error as e:
                ck.report(Failing(f'translate returned a regex that does not compile: {e}',
                                  {'api': mod.__name__ + '.translate', 'patterns': plist, 'exclude': excl, 'flags': fl},
                                  'all compile', str(e)), None)
                continue
            except Exception as e:  # noqa: BLE001  (documented errors are C10's business)
                sr.histogram['exc:' + type(e).__name__] = sr.histogram.get('exc:' + type(e).__name__, 0) + 1
                continue
            sr.distinct += 1
            for x, g in zip(names, got):
                exp = any(c.fullmatch(x) for c in cp) and not any(c.fullmatch(x) for c in cn)
                if bool(g) != exp:
                    ck.report(Failing(f'{mod.__name__}: match({x!r}) = {bool(g)} but the translate() regexes say {exp}',
                                      {'api': mod.__name__, 'patterns': plist, 'exclude': excl, 'flags': fl, 'name': x}, exp, bool(g)), None)
                    sr.histogram['mismatch'] = sr.histogram.get('mismatch', 0) + 1
                    break
            # capture groups: one per extended group, in order of opening
            if len(plist) == 1 and excl is None and (fl & mod.EXTMATCH) and not fl & (mod.NEGATE | mod.SPLIT | mod.BRACE) and len(pos) == 1:
                want = count_ext_groups(plist[0])
                if want is not None and plist[0] in pats:
                    have = cp[0].groups
                    sr.histogram['capture-count-checked'] = sr.histogram.get('capture-count-checked', 0) + 1
                    if have != want:
                        ck.report(Failing(f'translate({plist[0]!r}) has {have} capturing groups for {want} extended groups',
                                          {'api': mod.__name__ + '.translate', 'patterns': plist, 'flags': fl}, want, have), None)
                    elif '!(' not in plist[0]:
                        # outside negated groups a group captures what the whole group consumed:
                        # the concatenation of group texts is a subsequence consistent with spans
                        for x in names:
                            mm = cp[0].fullmatch(x)
                            if mm:
                                for gi in range(1, have + 1):
                                    s0, e0 = mm.span(gi)
                                    if s0 != -1 and not (0 <= s0 <= e0 <= len(x)):
                                        ck.report(Failing('capture span out of range', {'pattern': plist[0], 'name': x}, 'valid span', (s0, e0)), None)
                    # the same pattern in the EXCLUSION roles (exclude=, inline `!p`, inline `-p`): its regex lands in the second
                    # list and must still have one capturing group per extended group (added after seeded change C08b)
                    p0 = plist[0]
                    if not p0.startswith(('(', '!', '-')):
                        efl = (fl | mod.EXTMATCH) & ~(mod.NEGATE | mod.MINUSNEGATE | mod.NEGATEALL)
                        roles = [('exclude=', lambda: mod.translate(['*'], flags=efl, exclude=[p0])),
                                 ('inline !', lambda: mod.translate(['*', '!' + p0], flags=efl | mod.NEGATE)),
                                 ('inline -', lambda: mod.translate(['*', '-' + p0], flags=efl | mod.NEGATE | mod.MINUSNEGATE))]
                        for rname, call in roles:
                            try:
                                rneg = call()[1]
                            except Exception:  # noqa: BLE001
                                continue
                            sr.histogram['capture-count-checked(exclusion roles)'] = sr.histogram.get('capture-count-checked(exclusion roles)', 0) + 1
                            if len(rneg) != 1:
                                continue
                            try:
                                hv = re.compile(rneg[0]).groups
                            except re.error as e:
                                ck.report(Failing(f'translate returned an exclusion regex that does not compile: {e}',
                                                  {'api': mod.__name__ + '.translate', 'patterns': [p0], 'role': rname, 'flags': efl}, 'compiles', str(e)), None)
                                continue
                            if hv != want:
                                ck.report(Failing(f'translate: {p0!r} as an exclusion ({rname}) has {hv} capturing groups for {want} extended groups',
                                                  {'api': mod.__name__ + '.translate', 'patterns': [p0], 'role': rname, 'flags': efl, 'regex': rneg[0]}, want, hv), None)
            if len(sr.samples) < 3:
                sr.samples.append({'api': mod.__name__, 'patterns': plist, 'exclude': excl, 'flags': hex(fl), 'regexes': (pos, neg)})
        # ---- systematic grid: every subset of the list-level flags x list shapes (only exclusions,
        # mixed, exclude=) x both modules — the two loops (translate / compile_pattern) must route alike
        import itertools as _it
        shapes = [(['a*'], None), (['*', '!A*'], None), (['*'], ['x*']), (['!*.txt'], None), (['-*.txt'], None), (['*', '!a*'], None), (['!a|!b'], None), (['*.txt'], ['a*']),
                  (['a*', 'b*'], ['*b']), (['!a*', '!*/'], None), (['**', '!**/'], None), (['*/'], None), (['a|b/'], None)]
        gnames = ['a', 'b', 'a.txt', 'ab', 'a/', 'a/b/', 'b.txt', '.a', 'sub/', 'x/y']
        for mod in (F, G):
            lf = [mod.NEGATE, mod.NEGATEALL, mod.MINUSNEGATE, mod.SPLIT, mod.DOTMATCH]
            if mod is G:
                lf += [G.NODIR, G.GLOBSTAR]
            # ... under both platform rules and for both string types (added after seeded change C08g: translate() took the NODIR exclusion
            # of the bytes / Windows slot from the POSIX table, so `b'dir\\'` was accepted by the translated pair and rejected by the matcher);
            # the full subset grid for (Unix, str), subsets of at most two flags for the other three combinations
            wnames = gnames + ['a\\', 'a\\b\\', 'sub\\', 'x\\y', 'a\\b', 'dir\\']
            # (… and with BOTH platform flags, which cancel out: added after seeded change C08i, where the rule moved from fnmatch's flag
            # transform into _wcparse.compile(), so translate() stopped applying it while the matcher still did)
            for plat, isb in ((mod.FORCEUNIX, False), (mod.FORCEWIN, False), (mod.FORCEUNIX, True), (mod.FORCEWIN, True),
                              (mod.FORCEWIN | mod.FORCEUNIX, False), (mod.FORCEWIN | mod.FORCEUNIX, True), (0, False)):
                cv = (lambda z: z.encode('latin-1')) if isb else (lambda z: z)
                for r in range(len(lf) + 1 if (plat == mod.FORCEUNIX and not isb) else 3):
                    for sub in _it.combinations(lf, r):
                        fl = plat
                        for b in sub:
                            fl |= b
                        for plist, excl in shapes:
                            sr.evaluations += 1
                            bl = [cv(q) for q in plist]
                            be = None if excl is None else [cv(q) for q in excl]
                            try:
                                pos, neg = mod.translate(bl, flags=fl, exclude=be)
                                cp = [re.compile(x) for x in pos]
                                cn = [re.compile(x) for x in neg]
                                mt = mod.compile(bl, flags=fl, exclude=be)
                            except Exception as e:  # noqa: BLE001
                                sr.histogram['grid-exc:' + type(e).__name__] = sr.histogram.get('grid-exc:' + type(e).__name__, 0) + 1
                                continue
                            for x in (wnames if plat == mod.FORCEWIN else gnames + ['A', 'AB', 'A.TXT', 'a\\', 'x\\y']):
                                exp = any(c.fullmatch(cv(x)) for c in cp) and not any(c.fullmatch(cv(x)) for c in cn)
                                if bool(mt.match(cv(x))) != exp:
                                    ck.report(Failing(f'{mod.__name__}: match({cv(x)!r}) = {bool(mt.match(cv(x)))} but the translate() regexes say {exp}',
                                                      {'api': mod.__name__, 'patterns': plist, 'exclude': excl, 'flags': fl, 'name': x, 'bytes': isb}, exp, bool(mt.match(cv(x)))), None)
                                    sr.histogram['grid-mismatch'] = sr.histogram.get('grid-mismatch', 0) + 1
                                    break
        # ---- capture semantics: a top-level extended group that is not a negation captures the text the
        # whole group consumed — it always takes part in a successful match (the empty string when it matched empty)
        for mod in (F, G):
            for pat, subject in [('a?(b)c', 'ac'), ('a?(b)c', 'abc'), ('*(x)y', 'y'), ('*(x)y', 'xxy'), ('@(a|b)+(c)', 'acc'),
                                 ('?(a)?(b)', ''), ('?(a)?(b)', 'b'), ('x+(a|b)?(c)', 'xab'), ('?(lib)main.py', 'main.py')]:
                if not subject:
                    continue
                sr.evaluations += 1
                pos, _neg = mod.translate(pat, flags=mod.EXTMATCH | mod.FORCEUNIX)
                mm = re.compile(pos[0]).fullmatch(subject)
                if not mm:
                    continue
                gs = mm.groups()
                if any(g is None for g in gs) or ''.join(gs) not in (subject, ) and not all(g in subject for g in gs):
                    ck.report(Failing(f'translate({pat!r}): groups {gs!r} on {subject!r}: a group that is part of the match did not capture its text',
                                      {'api': mod.__name__ + '.translate', 'patterns': [pat], 'flags': mod.EXTMATCH, 'name': subject}, 'every group is a str', gs), None)
        sr.note = ('fnmatch/glob: translate(patterns, flags, exclude) regexes all compile and reproduce compile(...).match on every '
                   'name of the name set (lists of 1-3 patterns, inline !/- negation, exclude=, SPLIT/BRACE/NODIR/NEGATEALL); '
                   'number of capturing groups = number of extended groups')
    ck.search('translate-vs-match-api', s_search)
    if drv:
        drv.close()
    return ck.finish()


def replay(path: str) -> int:
    import json
    common.import_wcmatch()
    from wcmatch import glob as G, fnmatch as F
    for f in json.load(open(path)).get('failing', []):
        i = f['input']
        mod = G if 'glob' in i.get('api', '') else F
        print(i, mod.translate(i['patterns'], flags=i['flags'], exclude=i.get('exclude')))
    return 0

"""C10 — every string is an acceptable pattern: no crashes, no invalid regexes.

Proof part : Properties/C10.lean (totality by construction, only documented error from the
             pass, matcher decides the semantics, D9 witness).
Tie        : K1 regex-text equality model vs WcParse on exhaustive + random + mutated strings,
             str and bytes, unix and windows rules, random reachable internal flags.
Search     : the public APIs on the same strings — any exception outside the documented set,
             or a translated regex that does not compile, is a failing input.
"""
from __future__ import annotations
import os
import re
import shutil
import tempfile
import warnings

import common
import gen
import streams
from framework import Check, Failing

warnings.simplefilter('ignore')

TARGETS = ['WcModel.Properties.C10']


class _Budget(BaseException):
    pass


def _cases(ck: Check, W, R):
    quick = ck.tier == 'quick'
    cases = []
    base_sets = [W.FORCEUNIX, W.FORCEUNIX | W.EXTMATCH, W.FORCEUNIX | W.EXTMATCH | W.DOTMATCH | W._TRANSLATE,
                 W.FORCEUNIX | W.PATHNAME | W.EXTMATCH | W.GLOBSTAR | W.REALPATH | W.NODOTDIR,
                 W.FORCEWIN | W.PATHNAME | W.EXTMATCH | W.GLOBSTAR | W.MATCHBASE]
    alpha = 'a.*?[]!()|\\/-' if quick else 'a.*?[]!()|+@\\/-^:'
    L = 3 if quick else 4
    for fl in base_sets:
        for p in gen.exhaustive(alpha, L):
            cases.append((p, fl, False))
    for p in gen.bracket_patterns(3 if quick else 4):
        cases.append((p, W.FORCEUNIX | (W._TRANSLATE if len(p) % 2 else 0), False))
        cases.append(('a' + p + 'b', W.FORCEUNIX | W.PATHNAME | W.EXTMATCH, len(p) % 3 == 0 and all(ord(c) < 256 for c in p)))
    for k, p in enumerate(gen.bracket_escape_patterns(6 if quick else 7, 6 if quick else 8)):
        cases.append((p, (W.FORCEUNIX, W.FORCEUNIX | W.PATHNAME, W.FORCEWIN)[k % 3], k % 5 == 0))
    for fl in (W.FORCEUNIX | W.EXTMATCH, W.FORCEUNIX | W.EXTMATCH | W._TRANSLATE | W.PATHNAME | W.DOTMATCH, W.FORCEWIN | W.PATHNAME | W.EXTMATCH | W.GLOBSTAR):
        for p in gen.token_sequences(3 if quick else 4):
            cases.append((p, fl, False))
    internal = [W.CASE, W.IGNORECASE, W.RAWCHARS, W.NEGATE, W.MINUSNEGATE, W.PATHNAME, W.DOTMATCH, W.EXTMATCH,
                W.GLOBSTAR, W.BRACE, W.REALPATH, W.FOLLOW, W.SPLIT, W.MATCHBASE, W.NODIR, W.NEGATEALL, W.GLOBTILDE,
                W.NOUNIQUE, W.NODOTDIR, W.GLOBSTARLONG, W._TRANSLATE, W._ANCHOR, W._EXTMATCHBASE, W._NOABSOLUTE,
                W._NO_GLOBSTAR_CAPTURE, W.PATHNAME, W.EXTMATCH, W.EXTMATCH]
    n = 20000 if quick else 400000
    for k in range(n):
        win = R.random() < 0.3
        p = gen.random_pattern(R, 8 if k % 10 else 20, win)
        if R.random() < 0.2:
            p = gen.mutate(R, gen.gen_path_pattern(R))
        fl = streams.reachable(gen.random_flags(R, internal, 0.3, W.FORCEWIN if win else W.FORCEUNIX))
        isb = R.random() < 0.25 and all(ord(c) < 256 for c in p)
        cases.append((p, fl, isb))
    return cases


def _attribute(exc: BaseException, pattern: str, flags_note: str) -> str | None:
    """known-finding id for an exception, by signature (none are open for C10: D9 and D13
    were repaired by fix: commits, so every undocumented exception is a violation)"""
    return None


FIXED_BOTH_TYPES = ['[z-a]', '[!9-0]', '[z-ay-b]', 'x[z-a]y', '[^b-a]*', '@([z-a]|b)', '[z-a]/[!z-a]', '[!z-a][b-a]', '*[9-0]', '[[:alpha:]z-a]', '[z-a', '!(x[z-a])']


def run(ck: Check) -> int:
    common.import_wcmatch()
    from wcmatch import _wcparse as W, fnmatch as F, glob as G, wcmatch as WM, pathlib as WP
    ck.build()
    ck.audit()
    R = common.rng('C10')
    drv = common.Driver() if ck.driver_ok else None
    cases = _cases(ck, W, R)

    def s_k1(sr):
        streams.k1(sr, drv, cases)
        sr.note = ('K1: regex text of WcParse.parse vs the Lean port, exhaustive short strings over the '
                   'metacharacter alphabet under 5 flag sets + random token strings/mutations under random '
                   'reachable internal flags, str and bytes, unix and windows rules')
        for d in sr.disagreements:
            pass
    ck.stream('K1-parse-text', s_k1)

    def s_compile(sr):
        import re as _re
        sr.note = ('every regex the pass produces for the K1 cases (exhaustive short strings, bracket families incl. escaped range '
                   'ends, parser-state token sequences, random/mutated strings) is handed to re.compile: failing = re.error')
        seen = set()
        for p, fl, isb in cases:
            if (p, fl, isb) in seen:
                continue
            seen.add((p, fl, isb))
            try:
                text = W.WcParse(p.encode('latin-1') if isb else p, fl).parse()
            except ValueError:
                sr.histogram['ValueError (documented)'] = sr.histogram.get('ValueError (documented)', 0) + 1
                continue
            except Exception as e:  # noqa: BLE001
                ck.report(Failing(f'WcParse.parse raised {type(e).__name__}: {e}', {'api': 'WcParse', 'pattern': p, 'flags': fl, 'bytes': isb},
                                  'no exception', type(e).__name__), _attribute(e, p, ''))
                continue
            sr.evaluations += 1
            try:
                _re.compile(text)
                sr.histogram['compiles'] = sr.histogram.get('compiles', 0) + 1
            except (_re.error, RecursionError, OverflowError) as e:
                ck.report(Failing(f'the regex emitted for {p!r} does not compile: {type(e).__name__}: {e}',
                                  {'api': 'WcParse+re.compile', 'pattern': p, 'flags': fl, 'bytes': isb, 'regex': text if isinstance(text, str) else text.decode('latin-1')},
                                  'compiles', f'{type(e).__name__}: {e}', 'wcmatch/_wcparse.py:_sequence'), _attribute(e, p, ''))
        sr.distinct = len(seen)
    ck.search('emitted-regex-compiles', s_compile)

    # ---- search: documented exceptions only, through the public APIs
    allowed = (W.PatternLimitException, SyntaxError, KeyError, TypeError, ValueError)   # KeyError = unicodedata.lookup; NOT LookupError (IndexError is one)

    def s_api(sr):
        sr.note = ('public APIs (fnmatch/glob translate+compile+match+filter, glob() on a small tree, WcMatch) on '
                   'random/mutated strings, str and bytes, random public flags; failing = exception outside '
                   '{PatternLimit, Syntax, Lookup, Type, Value} or a translated regex that does not compile')
        tmp = tempfile.mkdtemp(prefix='c10-', dir='/tmp')
        try:
            os.makedirs(os.path.join(tmp, 'a', 'b'))
            for f in ('x', '.h', 'a/y', 'a/b/z', 'a/.hid'):
                open(os.path.join(tmp, f), 'w').close()
            os.environ['HOME'] = tmp
            real_scandir = os.scandir
            budget = [0]

            def scandir(path='.'):
                budget[0] += 1
                if budget[0] > 400:
                    raise _Budget()
                return real_scandir(path)

            fn_bits = [F.CASE, F.IGNORECASE, F.RAWCHARS, F.NEGATE, F.MINUSNEGATE, F.DOTMATCH, F.EXTMATCH, F.BRACE,
                       F.SPLIT, F.NEGATEALL, F.FORCEWIN, F.FORCEUNIX]
            gl_bits = [G.CASE, G.IGNORECASE, G.RAWCHARS, G.NEGATE, G.MINUSNEGATE, G.DOTGLOB, G.EXTGLOB, G.BRACE,
                       G.SPLIT, G.NEGATEALL, G.FORCEWIN, G.FORCEUNIX, G.GLOBSTAR, G.REALPATH, G.MATCHBASE, G.NODIR,
                       G.GLOBTILDE, G.NOUNIQUE, G.NODOTDIR, G.GLOBSTARLONG, G.MARK, G.SCANDOTDIR]
            wm_bits = [WM.RECURSIVE, WM.HIDDEN, WM.FILEPATHNAME, WM.DIRPATHNAME, WM.MATCHBASE, WM.GLOBSTAR,
                       WM.EXTMATCH, WM.BRACE, WM.MINUSNEGATE, WM.IGNORECASE, WM.CASE, WM.RAWCHARS]
            n = 6000 if ck.tier == 'quick' and not ck.deep() else 60000
            names = ['a', '.a', 'a/b', 'a\n', 'ab/', '']
            seen = set()
            for k in range(n):
                r = R.random()
                rawp = False
                if r < 0.08:
                    import k3_norm
                    p = k3_norm.random_pattern(R)      # RAWCHARS escapes (octal above \377, \x, \u, \N{…}, incomplete ones)
                    rawp = True
                elif r < 0.15:
                    p = gen.random_bracket(R) + (gen.random_bracket(R) if R.random() < 0.3 else '')
                elif r < 0.5:
                    p = gen.random_pattern(R, 8)
                elif r < 0.8:
                    p = gen.mutate(R, gen.gen_path_pattern(R))
                else:
                    p = ''.join(R.choice(gen.SIGMA_P) for _ in range(R.randint(0, 7)))
                isb = R.random() < 0.2 and all(ord(c) < 256 for c in p)
                if k < 2 * len(FIXED_BOTH_TYPES):
                    # brackets emptied by the reversed-range check, as str AND as bytes through every entry point (added after seeded change
                    # C10i: the replacement class always used the Unicode full range, which a bytes regex cannot encode: UnicodeEncodeError)
                    p, isb, rawp = FIXED_BOTH_TYPES[k // 2], bool(k % 2), False
                pp = p.encode('latin-1') if isb else p
                conv = (lambda s: s.encode('latin-1')) if isb else (lambda s: s)
                seen.add((p, isb))
                calls = []
                ffl = gen.random_flags(R, fn_bits, 0.3)
                gfl = gen.random_flags(R, gl_bits, 0.3)
                wfl = gen.random_flags(R, wm_bits, 0.3)
                if rawp:
                    ffl |= F.RAWCHARS
                    gfl |= G.RAWCHARS
                    wfl |= WM.RAWCHARS
                calls.append(('fnmatch.translate', ffl, lambda: [re.compile(x) for t in F.translate(pp, flags=ffl) for x in t]))
                calls.append(('fnmatch.fnmatch', ffl, lambda: [F.fnmatch(conv(nm), pp, flags=ffl) for nm in names]))
                calls.append(('fnmatch.filter', ffl, lambda: F.filter([conv(nm) for nm in names], pp, flags=ffl)))
                calls.append(('glob.translate', gfl, lambda: [re.compile(x) for t in G.translate(pp, flags=gfl) for x in t]))
                calls.append(('glob.globmatch', gfl & ~G.REALPATH, lambda: [G.globmatch(conv(nm), pp, flags=gfl & ~G.REALPATH) for nm in names]))
                calls.append(('glob.glob', gfl & ~G.FOLLOW, lambda: G.glob(pp, flags=gfl & ~G.FOLLOW, root_dir=conv(tmp))))
                calls.append(('glob.globmatch(REALPATH)', (gfl | G.REALPATH) & ~G.FOLLOW,
                              lambda: [G.globmatch(conv(nm), pp, flags=(gfl | G.REALPATH) & ~G.FOLLOW, root_dir=conv(tmp)) for nm in ('x', 'a/y', 'a/b', 'nope', '.h')]))
                calls.append(('glob.globfilter(REALPATH)', (gfl | G.REALPATH) & ~G.FOLLOW,
                              lambda: G.globfilter([conv('x'), conv('a/b/z')], [pp, conv('!x')] if k % 3 == 0 else pp, flags=(gfl | G.REALPATH | (G.NEGATE if k % 3 == 0 else 0)) & ~G.FOLLOW, root_dir=conv(tmp))))
                if k % 4 == 0:
                    calls.append(('wcmatch.WcMatch', wfl, lambda: WM.WcMatch(conv(tmp), pp, pp if k % 8 == 0 else None, wfl).match()))
                if not isb:
                    # pathlib entry points (ValueError for absolute patterns / foreign REALPATH is documented); added after
                    # seeded change C10b: only Path.rglob sets _EXTMATCHBASE, which reads parts[0] of the split pattern
                    pfl = gfl & ~(G.FOLLOW | G.FORCEWIN | G.FORCEUNIX)
                    calls.append(('pathlib.Path.glob', pfl, lambda: list(WP.Path(tmp).glob(pp, flags=pfl))))
                    calls.append(('pathlib.Path.rglob', pfl, lambda: list(WP.Path(tmp).rglob(pp, flags=pfl))))
                    calls.append(('pathlib.PurePath.match', pfl & ~G.REALPATH, lambda: [WP.PurePosixPath(nm or 'a').match(pp, flags=pfl & ~G.REALPATH) for nm in names]))
                    calls.append(('pathlib.PurePath.globmatch', pfl & ~G.REALPATH, lambda: [WP.PureWindowsPath(nm or 'a').globmatch(pp, flags=pfl & ~G.REALPATH) for nm in names]))
                    if k % 3 == 0:
                        calls.append(('pathlib.Path.rglob[list]', pfl | G.SPLIT | G.BRACE, lambda: list(WP.Path(tmp).rglob(['a', pp], flags=pfl | G.SPLIT | G.BRACE))))
                for api, fl, thunk in calls:
                    sr.evaluations += 1
                    budget[0] = 0
                    os.scandir = scandir
                    try:
                        with common.time_limit(2):
                            thunk()
                        sr.histogram['ok'] = sr.histogram.get('ok', 0) + 1
                    except common.CallTimeout:
                        sr.histogram['timeout(2s, not a verdict)'] = sr.histogram.get('timeout(2s, not a verdict)', 0) + 1
                    except _Budget:
                        sr.histogram['scan-budget'] = sr.histogram.get('scan-budget', 0) + 1
                    except allowed as e:
                        kname = type(e).__name__
                        # ValueError is documented for absolute pathlib patterns / REALPATH on a foreign pure path only (and
                        # TypeError for mixed str/bytes, which this search never produces): from any other entry point it is an
                        # undocumented error (seeded change C10c: bytes([value]) for an octal escape above \377)
                        if isinstance(e, (ValueError, TypeError)) and not isinstance(e, W.PatternLimitException) and not api.startswith('pathlib') \
                                and not (isinstance(e, ValueError) and 'null byte' in str(e)) \
                                and not (isinstance(e, UnicodeError) and getattr(e, 'encoding', '') not in ('latin-1', 'latin_1', 'iso8859-1', 'iso-8859-1')):
                            # (a UnicodeError of the FILE-SYSTEM codec is the stdlib's; one of the Latin-1 codec is the library's own bytes <-> text
                            #  conversion failing: seeded change C10i)
                            # (embedded NUL / undecodable bytes reach os.path.expanduser or the OS under GLOBTILDE / REALPATH: stdlib and
                            #  file-system encoding behaviour, parameters of the model — DESIGN §7)
                            ck.report(Failing(f'{api} raised {kname}: {e} (documented only for pathlib absolute patterns / mixed types)',
                                              {'api': api, 'pattern': p, 'bytes': isb, 'flags': fl},
                                              'success or a documented error', kname), _attribute(e, p, ''))
                            sr.histogram['undocumented:' + kname] = sr.histogram.get('undocumented:' + kname, 0) + 1
                        else:
                            sr.histogram[kname] = sr.histogram.get(kname, 0) + 1
                    except RecursionError:
                        sr.histogram['RecursionError(bounded nesting exceeded)'] = 1
                    except Exception as e:  # noqa: BLE001
                        note = ','.join(nm for nm in ('RAWCHARS',) if fl & F.RAWCHARS)
                        kid = _attribute(e, p, note)
                        ck.report(Failing(f'{api} raised {type(e).__name__}: {e}',
                                          {'api': api, 'pattern': p, 'bytes': isb, 'flags': fl},
                                          'success or a documented error', type(e).__name__), kid)
                        sr.histogram['undocumented:' + type(e).__name__] = sr.histogram.get('undocumented:' + type(e).__name__, 0) + 1
                    finally:
                        os.scandir = real_scandir
                if len(sr.samples) < 3 and len(p) > 3:
                    sr.samples.append({'pattern': p, 'bytes': isb, 'fnmatch_flags': hex(ffl), 'glob_flags': hex(gfl)})
            sr.distinct = len(seen)
        finally:
            shutil.rmtree(tmp, ignore_errors=True)
    ck.search('api-exceptions', s_api)

    def s_degrade(sr):
        """an extended-group opener that is never closed degrades to its literal meaning: the pattern means under EXTMATCH what it
        means without it (no `)` anywhere in the pattern, so no group can close) — fnmatch on names, globmatch on paths, with and
        without DOTMATCH, names with leading dots included (added after seeded change C10e: the failed group did not restore the
        start-of-name state, so `*(a` accepted `.b(a`)"""
        import itertools
        from wcmatch import fnmatch as F, glob as G
        heads = ['', 'a', '.', '*', 'b?']
        bodies = ['', 'a', 'a|b', 'a|', '[a', '.a', '*', 'a|.b', '?(a', 'ab|*(b']
        pats = [h + x + '(' + b for h in heads for x in '*?+@!' for b in bodies if not (h == '' and x == '!')]
        names = [''.join(t) for L in range(1, 4 if (ck.tier == 'quick' and not ck.deep()) else 5) for t in itertools.product('ab.(|', repeat=L)]
        names = [n for n in names if n.count('(') <= 1 and n.count('|') <= 1]
        names += ['.b(a', '.(a', 'a.(a', '.a(a|b', 'ab(a', '.ab(', '?(a', '*(a', '.*(a']
        for p in pats:
            for dm in (0, F.DOTMATCH):
                try:
                    m1 = F.compile(p, flags=F.EXTMATCH | F.FORCEUNIX | dm)
                    m0 = F.compile(p, flags=F.FORCEUNIX | dm)
                    g1 = G.compile('d/' + p, flags=G.EXTGLOB | G.FORCEUNIX | dm)
                    g0 = G.compile('d/' + p, flags=G.FORCEUNIX | dm)
                except Exception as e:      # noqa: BLE001
                    ck.report(Failing(f'compile({p!r}) raised {type(e).__name__}', {'api': 'fnmatch.compile', 'pattern': p}, 'a matcher', str(e)[:200]), None)
                    continue
                for n in names:
                    sr.evaluations += 2
                    a, b = bool(m1.match(n)), bool(m0.match(n))
                    if a != b:
                        ck.report(Failing(f'unclosed group: fnmatch({n!r}, {p!r}) is {a} under EXTMATCH, its literal meaning gives {b}',
                                          {'api': 'fnmatch', 'pattern': p, 'name': n, 'flags': F.EXTMATCH | F.FORCEUNIX | dm}, b, a), None)
                    a, b = bool(g1.match('d/' + n)), bool(g0.match('d/' + n))
                    if n.startswith('.') and not dm and p[:2] in ('**', '*?'):
                        # C03's recorded finding KF-D4 (path mode: the wildcard after a segment-initial `*` takes the leading dot):
                        # `**(` re-read as two stars shows it, `**(` read as one merged star does not — not a C10 matter
                        sr.histogram['KF-D4 shape skipped'] = sr.histogram.get('KF-D4 shape skipped', 0) + 1
                        continue
                    if a != b:
                        ck.report(Failing(f'unclosed group: globmatch({"d/" + n!r}, {"d/" + p!r}) is {a} under EXTGLOB, its literal meaning gives {b}',
                                          {'api': 'globmatch', 'pattern': 'd/' + p, 'name': 'd/' + n, 'flags': G.EXTGLOB | G.FORCEUNIX | dm}, b, a), None)
        sr.distinct = len(pats) * 2
        sr.note = s_degrade.__doc__.replace('\n        ', ' ')
    ck.search('unclosed-group-is-literal', s_degrade)
    if drv:
        drv.close()
    return ck.finish()


def replay(path: str) -> int:
    import json
    common.import_wcmatch()
    from wcmatch import fnmatch as F, glob as G
    data = json.load(open(path))
    for f in data.get('failing', []):
        i = f['input']
        p = i['pattern'].encode('latin-1') if i.get('bytes') else i['pattern']
        try:
            if i['api'].startswith('fnmatch'):
                [re.compile(x) for t in F.translate(p, flags=i['flags']) for x in t]
                F.fnmatch(p[:0] + (b'a' if i.get('bytes') else 'a'), p, flags=i['flags'])
            else:
                [re.compile(x) for t in G.translate(p, flags=i['flags']) for x in t]
            print('no exception on replay:', i)
        except Exception as e:  # noqa: BLE001
            print('replayed:', type(e).__name__, e, i)
    return 0

"""C07 — pattern lists, exclusions, SPLIT and BRACE decompose into single-pattern matches.

Proof  : Properties/C07.lean — C07_sem_{compile,translate} (list result = ∃ inclusion ∧ ¬∃ exclusion
         over lists defined by expansion-then-sign), C07_perm, C07_only_exclusions, sign theorems,
         C07_exclude_eq_negate (piece-level hypotheses), expansion order, WcSplit facts.
Tie    : K3 WcSplit.split vs Split.wcSplit (exhaustive); K4 lists (<= 4 patterns + <= 3 exclusions, all
         sign / escape placements) through fnmatch / filter / compile / translate / globmatch /
         globfilter vs the Lean loops (regex texts and match bits).
Search : the same calls vs the property itself: the boolean combination of *single-pattern* real
         results (independent sign rule, real bracex / WcSplit for the expansion).
"""
from __future__ import annotations
import re
import warnings

import common
import k4_lists as K
from framework import Check, Failing

warnings.simplefilter('ignore')

TARGETS = ['WcModel.Properties.C07']

BASE = ['a', 'b', 'ab', '*', 'a*', '*.txt', '?', '[ab]', '[!a]', '.h*', '.*', '*b', '@(a|b)', '!(a)', '!(a|b)', '*(a|b).t',
        '+(a)', 'a|b', 'a|*.txt', '{a,b}', '{a,b}*', 'x{1..3}', '{a,b}|c', 'a\\|b', '[|]', '[a|b]', '@(a|b)|c', '**', 'a/*',
        '**/b', '*/', 'd/*.txt', 'a\\*', '', '{a,!b}', 'a|!b', 'a|-b', '(a)', '(a|b)', '@(a|!b)', '.h|a', '{.h,a}*',
        '@(a\\)|b)', '+(\\)|c)', '@(a|\\))', '@(a\\|b)', '?(\\(|a)|b']
SIGN = ['', '', '', '', '!', '!', '-', '\\!', '\\-', '!!', '!-', '-!']
NAMES = ['a', 'b', 'c', 'ab', 'a.txt', 'b.txt', '.h', '.hx', 'a/', 'a/b', 'd/a.txt', 'd/.h', 'x1', 'x3', '!a', '-a', 'a|b',
         '|', '!b', 'a*', '(a)', 'a.t', 'ab.t', '.', 'd/', '!(a)', 'a)', ')', 'b)', '))', '(', 'a|b)']


# the sign grid: every way a pattern can start, under every subset of the flags that decide its sign
SIGN_PREFIX = ['!', '-', '\\!', '\\-', '']
SIGN_BODY = ['a', '(a)', '(a|b)', '*(a)', '@(a)', '(a', 'a)', '(', '']
SIGN_NAMES = ['a', 'b', 'aa', '(a)', '(a|b)', '(a', 'a)', '(', '!a', '-a', '!(a)', '-(a)', '!(a|b)', '-(a|b)', '!*(a)', '-*(a)', '!@(a)',
              '-@(a)', '!(a', '-(a', '!a)', '-a)', '!(', '-(', '!', '-']


# brackets as the PARSER reads them, holding a `|` (added with the D34 repair: `WcSplit._sequence` ended `[[:alpha:]|]` at the `]` of the
# class and `[]|]` at its first `]`, so SPLIT cut the pattern at a `|` that is a bracket member): a POSIX class before the bar, a leading
# `]`, `^` as negation, a leading `-` / `[`, escaped members; alone and followed by a real alternative
BAR_BRACKETS = ['[[:alpha:]|]', '[]|]', '[^]|]', '[!]|]', '[^|]', '[[:digit:]|x]', '[x[:digit:]|]', '[[|]', '[-|]', '[]-|]', '[\\]|]',
                '[a[:alpha:]]|]', '[[:alpha:]', '[[:alpha:]|', '[[:alpha|]', '[[:bogus:]|]', '[![:alpha:]|]', '[^[:alpha:]|]']
BAR_TAILS = ['', 'x', '|c', 'x|c', '|[]|]']
# ... and the same brackets inside a group that is never closed (added with the D35 repair: `WcSplit.parse_extend` overwrote its rewind
# mark at every `[`, so after the failed group `@(a[|]b` the scan resumed after the `[` and split at the bracket's `|`)
BAR_HEADS = ['', '@(a', '*(', '!(x', '+(a|b', '@(a@(b']
BAR_NAMES = ['@(a|b', '@(a|', '*(|', '!(x|', '+(a|b|', 'a', 'b', 'c', '|', ']', 'x', '1', '|x', ']x', 'ax', '1x', '[', '-', '\\', ':', '|]', 'a]', '[:alpha:]|]', '[[:alpha:]', '[[:alpha:]|',
             '[]', '^', '!', '[[:alpha', '[[:bogus:]', ':]', 'a|]', 'c]', '[a', ']|]']


def bar_grid(F, G):
    for apiname in API_NAMES:
        mod = F if apiname.startswith('fnmatch') else G
        for sub in range(4):
            flags = mod.SPLIT | (mod.EXTMATCH if sub & 1 else 0) | (mod.NEGATE if sub & 2 else 0)
            for b in BAR_BRACKETS:
                for t in BAR_TAILS:
                    yield apiname, [b + t], flags
            if sub & 1:
                for h in BAR_HEADS[1:]:
                    for b in BAR_BRACKETS[:8] + ['[|]', '[a|b]']:
                        for t in ('', 'b', '|c'):
                            yield apiname, [h + b + t], flags


def sign_grid(F, G):
    """(api name, patterns, flags) for ['*', prefix+body] under all 8 subsets of {NEGATE, MINUSNEGATE, EXTMATCH}"""
    for apiname in API_NAMES:
        mod = F if apiname.startswith('fnmatch') else G
        for sub in range(8):
            flags = (mod.NEGATE if sub & 1 else 0) | (mod.MINUSNEGATE if sub & 2 else 0) | (mod.EXTMATCH if sub & 4 else 0)
            for pre in SIGN_PREFIX:
                for body in SIGN_BODY:
                    yield apiname, ['*', pre + body], flags, pre, body


def gen_list(R, maxp=4, maxe=3):
    k = R.choice([0, 1, 1, 2, 2, 3, 4][:maxp + 3])
    pats = [R.choice(SIGN) + R.choice(BASE) for _ in range(k)]
    if R.random() < 0.15 and pats:
        pats.append(R.choice(pats))          # an exact duplicate
    if R.random() < 0.45:
        m = R.choice([0, 1, 1, 2, 3][:maxe + 2])
        excl = [(R.choice(['', '', '', '!', '-']) + R.choice(BASE)) for _ in range(m)]
    else:
        excl = None
    return pats, excl


def is_dir_name(n: str) -> bool:
    """independent statement of what NODIR excludes: the name denotes a directory by its spelling"""
    s = n.rstrip('/')
    return n.endswith('/') or s in ('.', '..') or s.endswith('/.') or s.endswith('/..')


class Oracle:
    """the property: list = OR of single-pattern inclusion matches AND NOT OR of exclusion matches (DOTMATCH forced)"""

    def __init__(self, w: K.World, drv=None):
        self.w = w
        self.drv = drv          # the Lean model's WcSplit (Split.wcSplit; C07's split theorems are about it) decides the pieces
        self.cache: dict = {}
        self.split_cache: dict = {}

    def split(self, it, iflags: int):
        W = self.w.W
        if self.drv is None or isinstance(it, bytes):
            return W.WcSplit(it, iflags).split()
        key = (it, iflags)
        if key not in self.split_cache:
            o = self.drv.ask('split', iflags, common.enc(it))
            self.split_cache[key] = [common.dec(x) for x in o.split(' ')[1:]] if o.startswith('ok') else W.WcSplit(it, iflags).split()
        return self.split_cache[key]

    def single(self, module: str, name, pat, sf: int) -> bool:
        key = (module, name, pat, sf)
        r = self.cache.get(key)
        if r is None:
            if module == 'fnmatch':
                r = self.w.F.fnmatch(name, pat, flags=sf)
            else:
                r = self.w.G.globmatch(name, pat, flags=sf)
            self.cache[key] = r
        return r

    def pieces(self, pats, flags: int, iflags: int):
        import bracex
        W = self.w.W
        out = []
        for p in pats:
            items = list(bracex.iexpand(p, keep_escapes=True, limit=0)) if flags & W.BRACE else [p]
            for it in items:
                out.extend(self.split(it, iflags) if flags & W.SPLIT else [it])
        return out

    def verdicts(self, module: str, pats, excl, flags: int, names):
        W, G = self.w.W, self.w.G
        mod = self.w.F if module == 'fnmatch' else G
        iflags = mod._flag_transform(flags)
        N, M, A = bool(flags & W.NEGATE), bool(flags & W.MINUSNEGATE), bool(flags & W.NEGATEALL)
        E = bool(flags & W.EXTMATCH)
        nodir = module == 'glob' and bool(flags & W.NODIR)
        sf = flags & ~(W.NEGATE | W.MINUSNEGATE | W.NEGATEALL | W.SPLIT | W.BRACE | W.NODIR)
        pcs = self.pieces(pats, flags, iflags)
        if excl is not None:
            inc, exc = pcs, self.pieces(excl, flags, iflags)
            negall = False          # exclude= : NEGATE / NEGATEALL are ignored (documented)
        else:
            def neg(p):
                if not N:
                    return False
                if M:
                    return p[:1] == '-'
                return p[:1] == '!' and not (E and p[1:2] == '(')
            inc = [p for p in pcs if not neg(p)]
            exc = [p[1:] for p in pcs if neg(p)]
            negall = A
        out = []
        for n in names:
            if not n:
                out.append(False)
                continue
            if inc:
                got = any(self.single(module, n, p, sf) for p in inc)
            elif exc and negall:
                got = self.single(module, n, '**', sf | (G.GLOBSTAR if module == 'glob' else 0))
            else:
                got = False
            if got and any(self.single(module, n, q, sf | W.DOTMATCH) for q in exc):
                got = False
            if got and nodir and is_dir_name(n):
                got = False
            out.append(got)
        return ''.join('1' if b else '0' for b in out), {'inclusions': inc[:8], 'exclusions': exc[:8]}


API_NAMES = ['fnmatch.fnmatch', 'fnmatch.filter', 'fnmatch.compile', 'fnmatch.translate',
             'glob.globmatch', 'glob.globfilter', 'glob.compile', 'glob.translate']


def real_bits(w: K.World, api: K.Api, pats, excl, flags, names, isb):
    """match bits through the API; translate: combine its regexes with re.fullmatch (= what _Match does)"""
    r = w.call(api, pats, excl, flags, 1000, isb, names)
    if r['kind'] == 'ok' and api.loop == 'tr':
        conv = (lambda s: s.encode('latin-1')) if isb else (lambda s: s)
        pos = [re.compile(conv(t)) for t in r['pos']]
        neg = [re.compile(conv(t)) for t in r['neg']]
        r['bits'] = ''.join('1' if (n and any(p.fullmatch(conv(n)) for p in pos) and not any(q.fullmatch(conv(n)) for q in neg))
                            else '0' for n in names)
    return r


def run(ck: Check) -> int:
    ck.build()
    ck.audit()
    w = K.World()
    drv = common.Driver() if ck.driver_ok else None
    R = common.rng('C07')
    if drv is not None:
        ck.stream('K3-split', lambda sr: K.stream_split(sr, drv, ck.tier))
    records = []

    def s_k4(sr):
        W, F, G = w.W, w.F, w.G
        deep = ck.deep()
        n = 1500 if not deep else 20000
        sr.note = (f'K4: {n} random lists (0-4 patterns incl. exact duplicates, exclude= None or 0-3 patterns) over {len(BASE)} base '
                   'patterns x sign/escape prefixes {"", !, -, \\!, \\-, !!, !-, -!} x random subsets of {NEGATE, MINUSNEGATE, NEGATEALL, '
                   'SPLIT, BRACE, EXTMATCH, DOTMATCH, NODIR, GLOBSTAR} x {fnmatch, filter, compile, translate, globmatch, globfilter} x '
                   f'{len(NAMES)} names, str and bytes; PLUS the sign grid: [*, prefix+body] for prefix in {{!, -, \\!, \\-, none}} x '
                   f'{len(SIGN_BODY)} bodies (incl. `(`-initial ones) x all 8 subsets of {{NEGATE, MINUSNEGATE, EXTMATCH}} x the 8 APIs x '
                   f'{len(SIGN_NAMES)} names; PLUS the bracket-bar grid: {len(BAR_BRACKETS)} bracket expressions holding a `|` (after a POSIX class, after a '
                   f'leading `]`, under `^`/`!` negation, unterminated) x {len(BAR_TAILS)} tails x SPLIT x subsets of {{EXTMATCH, NEGATE}} x the 8 APIs x '
                   f'{len(BAR_NAMES)} names; compared with the Lean loops: outcome, regex texts, match bits')
        seen = set()
        for k in range(n):
            pats, excl = gen_list(R, 4 if not deep else 5, 3 if not deep else 4)
            api = K.API_BY_NAME[API_NAMES[k % len(API_NAMES)]]
            mod = F if api.module == 'fnmatch' else G
            bits = [mod.NEGATE, mod.NEGATE, mod.MINUSNEGATE, mod.NEGATEALL, mod.SPLIT, mod.BRACE, mod.EXTMATCH, mod.DOTMATCH]
            if api.module == 'glob':
                bits += [G.NODIR, G.GLOBSTAR]
            flags = 0
            for b in bits:
                if R.random() < 0.4:
                    flags |= b
            isb = R.random() < 0.15
            names = NAMES
            real = real_bits(w, api, pats, excl, flags, names, isb)
            mo, line = w.model(drv, api, pats, excl, flags, 1000, isb, names)
            sr.evaluations += len(names)
            seen.add((api.name, tuple(pats), None if excl is None else tuple(excl), flags, isb))
            if real['kind'] == 'ok' and api.loop == 'cp' and real.get('pos') is None:
                real['pos'] = None
            d = K.compare(api, real, mo, bool(flags & W.BRACE))
            sr.histogram[real['kind']] = sr.histogram.get(real['kind'], 0) + 1
            if real.get('bits'):
                sr.histogram['accepted'] = sr.histogram.get('accepted', 0) + real['bits'].count('1')
                sr.histogram['rejected'] = sr.histogram.get('rejected', 0) + real['bits'].count('0')
            if d:
                sr.disagree({'stream': 'K4-lists', 'api': api.name, 'patterns': pats, 'exclude': excl, 'flags': flags, 'bytes': isb,
                             'difference': d})
            elif len(sr.samples) < 3 and real.get('bits') and '1' in real['bits'] and excl and len(pats) > 1:
                sr.samples.append({'api': api.name, 'patterns': pats, 'exclude': excl, 'flags': flags,
                                   'accepted': [nm for nm, b in zip(names, real['bits']) if b == '1']})
            records.append((api, pats, excl, flags, isb, real, d is None, names, None))
        # deterministic part: the sign grid
        for apiname, pats, flags, pre, body in sign_grid(F, G):
            api = K.API_BY_NAME[apiname]
            real = real_bits(w, api, pats, None, flags, SIGN_NAMES, False)
            mo, line = w.model(drv, api, pats, None, flags, 1000, False, SIGN_NAMES)
            sr.evaluations += len(SIGN_NAMES)
            seen.add((api.name, tuple(pats), None, flags, False))
            d = K.compare(api, real, mo, False)
            sr.histogram['sign-grid'] = sr.histogram.get('sign-grid', 0) + 1
            if d:
                sr.disagree({'stream': 'K4-lists(sign grid)', 'api': api.name, 'patterns': pats, 'exclude': None, 'flags': flags,
                             'bytes': False, 'difference': d})
            records.append((api, pats, None, flags, False, real, d is None, SIGN_NAMES, (pre, body)))
        # deterministic part: brackets that hold a `|`, under SPLIT
        for apiname, pats, flags in bar_grid(F, G):
            api = K.API_BY_NAME[apiname]
            real = real_bits(w, api, pats, None, flags, BAR_NAMES, False)
            mo, line = w.model(drv, api, pats, None, flags, 1000, False, BAR_NAMES)
            sr.evaluations += len(BAR_NAMES)
            seen.add((api.name, tuple(pats), None, flags, False))
            d = K.compare(api, real, mo, False)
            sr.histogram['bar-grid'] = sr.histogram.get('bar-grid', 0) + 1
            if d:
                sr.disagree({'stream': 'K4-lists(bracket-bar grid)', 'api': api.name, 'patterns': pats, 'exclude': None, 'flags': flags,
                             'bytes': False, 'difference': d})
            records.append((api, pats, None, flags, False, real, d is None, BAR_NAMES, None))
        sr.distinct = len(seen)
    if drv is not None:
        ck.stream('K4-lists', s_k4)

    def s_prop(sr):
        sr.note = ('the property on every K4 call: list result == (some inclusion piece matches as a single pattern) and not (some '
                   'exclusion piece matches as a single pattern with DOTMATCH) [and not a directory name under NODIR]; pieces by the '
                   'real bracex and the Lean model WcSplit (tied by K3; the split theorems are about it), signs by an independent rule; NEGATEALL default = `**`; plus order / duplication invariance; '
                   'on the sign grid additionally: inline exclusion == the same call with exclude=[body]')
        orc = Oracle(w, drv)
        W = w.W
        for api, pats, excl, flags, isb, real, agree, names, grid in records:
            if real['kind'] != 'ok' or real.get('bits') is None:
                continue
            exp, info = orc.verdicts(api.module, pats, excl, flags, names)
            sr.evaluations += len(names)
            if exp != real['bits']:
                bad = [nm for nm, a, b in zip(names, exp, real['bits']) if a != b]
                ck.report(Failing(f'{api.name}: list result differs from the combination of single-pattern results for names {bad[:4]}',
                                  {'api': api.name, 'patterns': pats, 'exclude': excl, 'flags': flags, 'bytes': isb, 'names': names,
                                   **info}, exp, real['bits'], site='wcmatch/_wcparse.py:468-476,611-666,698-750; _wcmatch.py:233-246'), None)
                sr.histogram['FAIL'] = sr.histogram.get('FAIL', 0) + 1
            else:
                sr.histogram['holds'] = sr.histogram.get('holds', 0) + 1
            if grid is not None:
                # `exclude=` is equivalent to inline negation: where the sign rule makes prefix+body an
                # exclusion, the call must equal the same call with exclude=[body] (and no NEGATE)
                pre, body = grid
                N, M, E = bool(flags & W.NEGATE), bool(flags & W.MINUSNEGATE), bool(flags & W.EXTMATCH)
                is_neg = N and ((M and pre == '-') or (not M and pre == '!' and not (E and body[:1] == '(')))
                if is_neg:
                    r2 = real_bits(w, api, pats[:1], [body], flags & ~(W.NEGATE | W.MINUSNEGATE), names, isb)
                    sr.evaluations += len(names)
                    if r2['kind'] == 'ok' and r2.get('bits') != real['bits']:
                        bad = [nm for nm, a, b in zip(names, r2['bits'], real['bits']) if a != b]
                        ck.report(Failing(f'{api.name}: inline exclusion {pats[1]!r} is not equivalent to exclude={body!r} (names {bad[:4]})',
                                          {'api': api.name, 'patterns': pats, 'exclude': None, 'flags': flags, 'bytes': isb,
                                           'names': names, 'equivalent_call': {'patterns': pats[:1], 'exclude': [body]}},
                                          r2['bits'], real['bits'], site='wcmatch/_wcparse.py:468-476'), None)
                        sr.histogram['FAIL-exclude-eq-inline'] = sr.histogram.get('FAIL-exclude-eq-inline', 0) + 1
                    else:
                        sr.histogram['exclude-eq-inline holds'] = sr.histogram.get('exclude-eq-inline holds', 0) + 1
            # order and repetition never matter
            if len(pats) > 1 and sr.evaluations % 3 == 0:
                perm = list(reversed(pats)) + [pats[0]]
                pex = None if excl is None else list(reversed(excl)) + excl[:1]
                r2 = real_bits(w, api, perm, pex, flags, names, isb)
                sr.evaluations += len(names)
                if r2['kind'] == 'ok' and r2.get('bits') != real['bits']:
                    ck.report(Failing(f'{api.name}: result changes when the list is reversed and its first pattern repeated',
                                      {'api': api.name, 'patterns': pats, 'exclude': excl, 'permuted': perm, 'flags': flags,
                                       'bytes': isb, 'names': names}, real['bits'], r2.get('bits')), None)
                    sr.histogram['FAIL-perm'] = sr.histogram.get('FAIL-perm', 0) + 1
                else:
                    sr.histogram['perm-holds'] = sr.histogram.get('perm-holds', 0) + 1
        sr.distinct = len(records)
    ck.search('list-decomposition', s_prop)

    def s_real(sr):
        # the same decomposition under REALPATH on a real tree (added after seeded change C07h: the exclusion loop of `_match_real`
        # compared the raw name, so an exclusion that needs the trailing separator of a directory — `*/` — stopped excluding the
        # directory `pkg` written without one, while the inclusion side still saw `pkg/`)
        import os
        import shutil
        import tempfile
        G = w.G
        tmp = tempfile.mkdtemp(prefix='c07-', dir='/tmp')
        sr.note = ('REALPATH on a real tree (directories pkg, sub, sub/d, .hd; files f, sub/x, .hf; names with and without trailing separator): '
                   'globmatch / globfilter / compile().match of [inclusions] with exclusions given by exclude= or inline (!, NEGATE) == some '
                   'inclusion matches as a single REALPATH pattern and no exclusion matches as a single REALPATH|DOTGLOB pattern; through root_dir and cwd')
        try:
            for d in ('pkg', 'sub/d', '.hd'):
                os.makedirs(os.path.join(tmp, d))
            for f in ('f', 'sub/x', '.hf'):
                open(os.path.join(tmp, f), 'w').close()
            names = ['pkg', 'pkg/', 'f', 'sub', 'sub/', 'sub/d', 'sub/d/', 'sub/x', '.hd', '.hd/', '.hf', 'nope', 'nope/']
            incs = [['*'], ['*', '*/*'], ['p*', 's*/*'], ['*/'], ['.*', '*']]
            excs = [['*/'], ['p*/'], ['*/d/'], ['*/*/'], ['f'], ['*/x'], ['.*/'], ['*'], ['pkg']]
            old = os.getcwd()
            for inc in incs:
                for exc in excs:
                    for how in ('exclude', 'inline'):
                        for mode in ('root_dir', 'cwd'):
                            fl = G.REALPATH | (G.NEGATE if how == 'inline' else 0)
                            pats = inc if how == 'exclude' else inc + ['!' + q for q in exc]
                            kw = {'exclude': exc} if how == 'exclude' else {}
                            try:
                                if mode == 'cwd':
                                    os.chdir(tmp)
                                else:
                                    kw['root_dir'] = tmp
                                skw = {} if mode == 'cwd' else {'root_dir': tmp}
                                want = [any(G.globmatch(n, p, flags=G.REALPATH, **skw) for p in inc)
                                        and not any(G.globmatch(n, q, flags=G.REALPATH | G.DOTGLOB, **skw) for q in exc) for n in names]
                                api = ('globmatch', 'globfilter', 'compile')[sr.evaluations % 3]
                                if api == 'globmatch':
                                    got = [G.globmatch(n, pats, flags=fl, **kw) for n in names]
                                elif api == 'globfilter':
                                    keep = set(G.globfilter(names, pats, flags=fl, **kw))
                                    got = [n in keep for n in names]
                                else:
                                    ex = kw.pop('exclude', None)
                                    m = G.compile(pats, flags=fl, exclude=ex) if ex is not None else G.compile(pats, flags=fl)
                                    got = [m.match(n, **kw) for n in names]
                            finally:
                                os.chdir(old)
                            sr.evaluations += 1
                            if got != want:
                                bad = [n for n, a, b in zip(names, want, got) if a != b]
                                ck.report(Failing(f'glob.{api} (REALPATH, {mode}): list result differs from the combination of single-pattern results for names {bad[:4]}',
                                                  {'api': 'glob.' + api, 'patterns': inc, 'exclusions': exc, 'given': how, 'root': mode, 'names': names,
                                                   'tree': 'pkg/ sub/d/ .hd/ f sub/x .hf'}, want, got, site='wcmatch/_wcmatch.py:150-185'), None)
                                sr.histogram['FAIL'] = sr.histogram.get('FAIL', 0) + 1
                            else:
                                sr.histogram['holds'] = sr.histogram.get('holds', 0) + 1
            sr.distinct = len(incs) * len(excs) * 4
        finally:
            shutil.rmtree(tmp, ignore_errors=True)
    ck.search('list-decomposition-realpath', s_real)

    def s_split_hist(sr):
        # SPLIT in a history that mixes the two platform styles: under Windows rules an escaped backslash inside `[...]` abandons the
        # bracket (so a following `|` splits), under Unix rules it does not — each call is judged by its own style whatever was split before
        # (added after seeded change C07j: `split()` memoised its pieces under a key without the platform style)
        orc = Oracle(w, drv)
        F = w.F
        pats = ['[a\\\\|b]', 'x[\\\\|]y|z', '[!\\\\|a]|b', '@([a\\\\|b])|c', 'a|[b\\\\|c]', '[\\\\]|]']
        names = ['a', 'b', 'c', '|', '\\', 'x|y', 'z', '[a\\', 'b]', 'x\\y', 'a|b', ']']
        sr.note = (f'{len(pats)} SPLIT patterns with an escaped backslash before a `|` inside a bracket, asked alternately under FORCEWIN and FORCEUNIX '
                   '(both orders, twice), fnmatch / filter / translate piece count: each answer = the combination of single-pattern results over the '
                   'pieces the Lean splitter gives for THAT style')
        for rnd in range(2):
            for order in ((F.FORCEWIN, F.FORCEUNIX), (F.FORCEUNIX, F.FORCEWIN), (F.FORCEWIN, F.FORCEWIN, F.FORCEUNIX)):
                for plat in order:
                    for p_ in pats:
                        fl = F.SPLIT | F.EXTMATCH | plat
                        sr.evaluations += 1
                        exp, info = orc.verdicts('fnmatch', [p_], None, fl, names)
                        got = ''.join('1' if F.fnmatch(n, p_, flags=fl) else '0' for n in names)
                        npieces = len(F.translate(p_, flags=fl)[0])
                        want_pieces = len(set(info['inclusions'])) if len(info['inclusions']) < 8 else npieces
                        if got != exp or npieces != want_pieces:
                            bad = [n for n, a, b in zip(names, exp, got) if a != b]
                            ck.report(Failing(f'fnmatch / translate: SPLIT pattern {p_!r} under {"Windows" if plat == F.FORCEWIN else "Unix"} rules, asked after calls under the '
                                              f'other rules: wrong on {bad[:4]} ({npieces} pieces, the splitter model gives {want_pieces})',
                                              {'api': 'fnmatch.fnmatch', 'patterns': [p_], 'exclude': None, 'flags': fl, 'bytes': False, 'names': names,
                                               'history': ['FORCEWIN' if x == F.FORCEWIN else 'FORCEUNIX' for x in order], **info}, exp, got), None)
                            sr.histogram['FAIL'] = sr.histogram.get('FAIL', 0) + 1
                        else:
                            sr.histogram['holds'] = sr.histogram.get('holds', 0) + 1
        sr.distinct = len(pats) * 2
    if drv is not None:
        ck.search('split-style-histories', s_split_hist)
    if drv is not None:
        drv.close()
    w.close()
    return ck.finish(assumptions=[
        'bracex, WcSplit (model: Split.wcSplit, tied by K3), expand_tilde (identity: GLOBTILDE|REALPATH not exercised) and the '
        'per-pattern compiler/matcher are parameters of the list theorems',
        'with exclude= the flags NEGATE and NEGATEALL are ignored (documented); the oracle follows that reading',
    ])


def replay(path: str) -> int:
    import json
    w = K.World()
    data = json.load(open(path))
    orc = Oracle(w)
    for f in data.get('failing', []):
        i = f['input']
        api = K.API_BY_NAME[i['api']]
        real = real_bits(w, api, i['patterns'], i['exclude'], i['flags'], i['names'], i['bytes'])
        exp, info = orc.verdicts(api.module, i['patterns'], i['exclude'], i['flags'], i['names'])
        print('replayed:', i['api'], i['patterns'], i['exclude'], hex(i['flags']), 'code', real.get('bits'), 'property', exp, info)
    w.close()
    return 0

"""C05 — glob returns exactly the paths the pattern denotes on the real tree.

Proof part : Properties/C05.lean (spec `Denotes`, executable `denoteTop`/`DenotesB`, what is
             proved between model and spec — see the file header — the D17 witnesses and the
             `D14_fixed_witness` of the repaired D14).
Tie        : K5 — `_GlobSplit.split` parts (literal / magic, dir_only, `**`/`***`, drive part,
             MATCHBASE part; compiled parts as regex TEXT) and the `iglob` event sequence
             (scandir calls interleaved with results) on generated real trees vs the model.
Search     : `glob.glob` (one pattern, no exclusions) against the executable specification
             `denoteTop` on the same tree: any path returned but not denoted, or denoted but not
             returned, is a failing input.  Thorough tier: `denoteTop` against
             `bash -O globstar -O extglob [-O dotglob] -O globskipdots` (validation of the spec).
"""
from __future__ import annotations
import os
import subprocess
import warnings

import common
import gen
import k5_glob as K
from framework import Check, Failing

warnings.simplefilter('ignore')
TARGETS = ['WcModel.Properties.C05']

FLAGS = ['GLOBSTAR', 'DOTGLOB', 'EXTGLOB', 'SCANDOTDIR', 'NODOTDIR', 'MATCHBASE', 'MARK', 'IGNORECASE', 'GLOBSTARLONG',
         'FOLLOW']


def _flags(R, G, t, p):
    fl = 0
    for nm in FLAGS:
        pr = 0.6 if nm in ('GLOBSTAR', 'EXTGLOB') else 0.25
        if R.random() < pr:
            fl |= getattr(G, nm)
    if t.cyclic:
        fl &= ~G.FOLLOW
        if '***' in p:
            fl &= ~G.GLOBSTARLONG
    return fl


def _cases(R, G, t, n):
    out = []
    for k in range(n):
        if k % 7 == 6:
            # an ABSOLUTE pattern in front of a relative one whose first part is magic and which has two or more parts (state kept per
            # pattern must be reset for every pattern: seeded change C05j set "the pattern is absolute" only for literal-first patterns)
            names = sorted(t.names) or ['a']
            p = [t.root + '/' + R.choice(['*', G.escape(R.choice(names)), '*/*']), R.choice(['*/*', '**/' + G.escape(R.choice(names)), '*/*/*', '?*/*', '**/*'])]
            fl = (_flags(R, G, t, ' '.join(p)) | G.GLOBSTAR) & ~(G.NOUNIQUE | G.MATCHBASE)
            out.append(K.Case(p, fl, None, R.choice(['root_dir', 'dir_fd', 'root_dir'])))
            continue
        if k % 5 == 4:
            p = K.gen_pair(R, G, t)
            fl = _flags(R, G, t, ' '.join(p)) & ~(G.NOUNIQUE)
            if R.random() < 0.3:
                # the same two patterns as ONE string
                if R.random() < 0.5 and not any('|' in q for q in p):
                    p, fl = '|'.join(p), fl | G.SPLIT
                elif not any(c in q for q in p for c in '{},'):
                    p, fl = '{' + ','.join(p) + '}', fl | G.BRACE
        else:
            p = K.gen_pattern(R, G, t)
            fl = _flags(R, G, t, p)
        out.append(K.Case(p, fl, None, R.choice(['root_dir', 'root_dir', 'cwd', 'bytes', 'dir_fd'])))
    return out


BRACKET_TOK = ['[', '[', ']', ']', '^', '!', '-', '[:alpha:]', '[:digit:]', '/', '@(', '+(', ')', 'x', '\\', ':]', '[:', '|', '*']
BRACKET_SPLIT_PATS = ['[[:digit:]@(]x/y)', '[]@(]x/y)', '[^]@(]x/y)', '[!]@(]x/y)', '[![:alpha:]@(]/y)', '[^[:alpha:]@(]/y)',
                      '[a[:digit:]@(]x/y)', '[-]@(]x/y)', '[[]@(]x/y)', '[[@(]x/y)', '@([[:digit:])]/y)', '+([])]/y)', '[]a]/b',
                      '[^]a]x/y', '[![:alpha:]/]', '[[:digit:]/]', '[]/]', '[[:alph:]@(]x/y)', '[[:digit:]\\]@(]x/y)',
                      '[\\]@(]x/y)', '[[:digit:]][@(]x/y)', '*[]]/b', '[]-a]/b', '[!]]x/y', '[-]]/b', '[[:alpha:][:digit:]@(]/y)']


def split_stream(sr, drv, G, W, R, n):
    """`_GlobSplit(p, flags).split()` vs the model's `globSplit` (compiled parts as text)"""
    shape = {'checked': 0, 'bad': []}
    def real_parts(p, fl, isb):
        try:
            parts = G._GlobSplit(p.encode('latin-1') if isb else p, fl).split()
        except ValueError:
            return 'err ValueError'
        out = []
        # the shape facts `C05_partial` assumes of every `_GlobSplit` output (WFParts, TopOK.drive,
        # TopOK.litText): only the last part may lack dir_only; a non-magic part is a plain string;
        # the drive part is exactly a written `/` and is a directory part
        shape['checked'] += 1
        okshape = all(q.dir_only for q in parts[:-1]) and \
            all(isinstance(q.pattern, (str, bytes)) for q in parts if not q.is_magic) and \
            all((q.pattern in ('/', b'/')) and q.dir_only for q in parts if q.is_drive) and \
            all(q.pattern not in ('/', b'/') for q in parts if not q.is_drive and not q.is_magic) and \
            all(not q.is_drive for q in parts[1:])
        if not okshape:
            shape['bad'].append(p)
        for q in parts:
            pat = q.pattern
            t = ('l' + common.enc(pat)) if isinstance(pat, (str, bytes)) else ('r' + common.enc(pat.pattern))
            out.append(t + ':' + ''.join(str(int(bool(x))) for x in (q.is_magic, q.is_globstar, q.is_globstarlong, q.dir_only, q.is_drive)))
        return ' '.join(['ok'] + out)
    bits = [W.CASE, W.IGNORECASE, W.DOTMATCH, W.EXTMATCH, W.GLOBSTAR, W.GLOBSTARLONG, W.FOLLOW, W.MATCHBASE, W.NEGATE,
            W.MINUSNEGATE, W.BRACE, W.SPLIT, W.GLOBTILDE, W.NODOTDIR, W._EXTMATCHBASE, W._NOABSOLUTE, W.EXTMATCH, W.GLOBSTAR]
    cases = []
    for _ in range(n):
        r = R.random()
        if r < 0.4:
            p = gen.random_pattern(R, 8)
        elif r < 0.8:
            p = gen.mutate(R, gen.gen_path_pattern(R))
        else:
            p = ''.join(R.choice(gen.SIGMA_P) for _ in range(R.randint(0, 7)))
        fl = gen.random_flags(R, bits, 0.3, W.PATHNAME | W.REALPATH)
        isb = R.random() < 0.2 and all(ord(c) < 256 for c in p)
        cases.append((p, fl, isb))
    for p in gen.exhaustive('a*?[]!()|\\/@', 3):
        cases.append((p, W.PATHNAME | W.REALPATH | W.EXTMATCH | W.GLOBSTAR, False))
    # bracket expressions as the PARSER reads them, next to group-like text and separators (added with the D34 repair: the
    # splitter's bracket skip took a first `]` for the end, only `!` for the negation, and did not know POSIX classes, so
    # `[[:digit:]@(]x/y)` lost its `/` to a group that is not there): a fixed list under both EXTMATCH settings + token strings
    for p in BRACKET_SPLIT_PATS:
        for fl in (W.PATHNAME | W.REALPATH | W.EXTMATCH, W.PATHNAME | W.REALPATH, W.PATHNAME | W.REALPATH | W.EXTMATCH | W.GLOBSTAR | W.MATCHBASE):
            cases.append((p, fl, False))
        cases.append((p, W.PATHNAME | W.REALPATH | W.EXTMATCH, all(ord(c) < 256 for c in p)))
    for _ in range(n // 2):
        p = ''.join(R.choice(BRACKET_TOK) for _ in range(R.randint(3, 9)))
        fl = gen.random_flags(R, bits, 0.15, W.PATHNAME | W.REALPATH | (W.EXTMATCH if R.random() < 0.75 else 0))
        cases.append((p, fl, R.random() < 0.1))
    outs = drv.ask_many([f'gsplit {fl} {int(isb)} {common.enc(p)}' for p, fl, isb in cases])
    for (p, fl, isb), o in zip(cases, outs):
        sr.evaluations += 1
        r = real_parts(p, fl, isb)
        kind = r.split(' ')[0]
        sr.histogram[kind] = sr.histogram.get(kind, 0) + 1
        if r != o:
            sr.disagree({'stream': 'K5-split', 'pattern': p, 'flags': fl, 'bytes': isb, 'code': r[:300], 'model': o[:300]})
        elif len(sr.samples) < 2 and len(p) > 4 and '/' in p:
            sr.samples.append({'pattern': p, 'flags': hex(fl), 'parts': len(r.split(' ')) - 1})
    sr.distinct += len(set(cases))
    sr.histogram['shape facts (WFParts, drive, literal) hold'] = shape['checked'] - len(shape['bad'])
    for p in shape['bad'][:3]:
        sr.disagree({'stream': 'K5-split-shape', 'pattern': p, 'code': 'a _GlobSplit output violates WFParts / drive / literal shape',
                     'model': 'assumed by C05_partial'})


def attribute(G, t, c, res: set, den: set):
    """known-finding id(s) explaining `res != den`, by call-site signature; None = unexplained.
    (D14 — `re.match` for magic segments — is repaired: a name ending in a newline that is
    returned but not denoted is an unattributed violation again.)"""
    ids = []
    base = den
    extra, missing = res - base, base - res
    if extra and all(not os.path.lexists(os.path.join(t.root, x)) if not x.startswith('/') else not os.path.lexists(x)
                     for x in extra):
        # D17: results below something that is not a directory
        def under_nondir(x):
            return K.d17_shape(G, t, c.pats, c.flags, x) and _under(x)

        def _under(x):
            comps = [k for k in x.rstrip('/').split('/')]
            for jj in range(1, len(comps) + 1):
                pre = '/'.join(comps[:jj])
                full = pre if x.startswith('/') else os.path.join(t.root, pre)
                if pre and os.path.lexists(full) and not os.path.isdir(full):
                    return True
            return False
        if all(under_nondir(x) for x in extra):
            ids.append('KF-D17')
            extra = set()
    if missing and c.flags & G.IGNORECASE and not c.flags & G.CASE:
        low = {x.lower() for x in res}
        if all(x.lower() in low for x in missing):
            ids.append('KF-G2')
            missing = set()
    if extra or missing:
        return None
    return ids


def run(ck: Check) -> int:
    common.import_wcmatch()
    from wcmatch import glob as G, _wcparse as W, util as U
    ck.build()
    ck.audit()
    R = common.rng('C05')
    drv = common.Driver() if ck.driver_ok else None
    quick = ck.tier == 'quick'
    ntrees, per = (300, 14) if quick else (10000, 20)
    found: list = []
    stats = {'compared': 0, 'equal': 0, 'equal_nonempty': 0}

    def on_case(t, c, st, ev, ms, mev):
        # (every way of naming the root is judged: the dir_fd branch of `_iter` is separate code — seeded change C05h put O_NOFOLLOW on it)
        if st != 'ok':
            return
        if c.flags & G.FOLLOW or (c.flags & G.GLOBSTARLONG and '***' in c.pats):
            fuel = 8
        else:
            fuel = 12
        res = {p for k, p in ev if k == 'y'}
        pe, _ = K.expansions(W, U, G, c.pats, c.flags, None)
        m = drv.ask(f'denotes {c.flags} 0 1 {fuel} {t.enc} {t.cwd} {pe}')
        if not m.startswith('ok'):
            return
        den = {common.dec(x[1:]) for x in m.split(' ')[1:] if x}
        stats['compared'] += 1
        if res == den:
            stats['equal'] += 1
            if res:
                stats['equal_nonempty'] += 1
            return
        ids = attribute(G, t, c, res, den)
        f = Failing('glob result set differs from the set of denoted paths', c.to_json(G, t),
                    {'denoted_not_returned': sorted(den - res)[:8]}, {'returned_not_denoted': sorted(res - den)[:8]},
                    'wcmatch/glob.py:587-602, 640-645, 741-742, 795')
        if ids is None:
            found.append(f)
        else:
            for i in ids:
                stats[i] = stats.get(i, 0) + 1
                ck.report(f, i)

    def s_split(sr):
        sr.note = '_GlobSplit.split parts (kind, text or compiled regex text, five flags) vs globSplit'
        split_stream(sr, drv, G, W, R, 6000 if quick else 200000)
    ck.stream('K5-split-parts', s_split)

    def s_k5(sr):
        sr.note = ('K5: iglob event sequence vs the Lean walker; patterns from gen.gen_path_pattern and tree-aware segments '
                   '(literal names, `.`/`..`, trailing/duplicate separators, absolute patterns under the temp root)')
        K.k5_loop(sr, drv, G, W, U, R, ntrees, lambda R_, t: _cases(R_, G, t, per), on_case)
    ck.stream('K5-glob-events', s_k5)


    # case-variant sibling directories under IGNORECASE (added after seeded change C05a: a literal
    # directory segment shared the remaining-parts list between its several case-insensitive hits)
    def _case_spec(R_):
        spec = [('d', 'dir', ''), ('d/a', 'dir', ''), ('d/A', 'dir', ''), ('d/a/x', 'dir', ''), ('d/A/x', 'dir', ''),
                ('d/a/x/f1', 'file', ''), ('d/A/x/f2', 'file', ''), ('d/a/x/y', 'dir', ''), ('d/A/x/y', 'dir', ''),
                ('d/a/x/y/g1', 'file', ''), ('d/A/x/y/g2', 'file', ''), ('D', 'dir', ''), ('D/a', 'dir', ''), ('D/a/x', 'dir', ''),
                ('D/a/x/f3', 'file', ''), ('d/ab', 'dir', ''), ('d/AB', 'file', ''), ('d/a/X', 'dir', ''), ('d/a/X/f4', 'file', '')]
        keep = [e for e in spec if R_.random() < 0.9]
        have = {e[0] for e in keep}
        return [e for e in keep if '/' not in e[0] or e[0].rsplit('/', 1)[0] in have]

    CASE_PATS = ['d/a/x/*', 'd/a/*/*', '*/a/x/*', 'd/A/x/*', 'D/a/x/*', '**/a/x/*', 'd/a/x/y/*', 'd/a/x/*/*', '*/*/x/*', 'd/a/x/f1',
                 'd/[a]/x/*', 'd/a/x/**', 'd/a/x/', 'd/a/x/y/', 'd/ab/*', 'd/a/x/y/g*', '**/x/y/*', 'd/a/**/g*', 'D/A/X/*']

    def _case_cases(R_, t):
        out = []
        for _ in range(8 if quick else 16):
            fl = G.IGNORECASE if R_.random() < 0.85 else 0
            for nm, pr in (('GLOBSTAR', 0.7), ('MARK', 0.2), ('NOUNIQUE', 0.2), ('EXTGLOB', 0.3), ('DOTGLOB', 0.1)):
                if R_.random() < pr:
                    fl |= getattr(G, nm)
            out.append(K.Case(R_.choice(CASE_PATS), fl, None, R_.choice(['root_dir', 'root_dir', 'cwd'])))
        return out

    def s_k5case(sr):
        sr.note = ('K5 on trees with sibling directories that differ only in case (d/a, d/A, D/a …, each with its own content), '
                   'IGNORECASE in most runs, literal segments in every position')
        K.k5_loop(sr, drv, G, W, U, R, 40 if quick else 400, _case_cases, on_case, spec_for=_case_spec)
    if drv:
        ck.stream('K5-case-variant-trees', s_k5case)

    # `..` written after a symlinked directory whose target lives elsewhere, and group-like text without EXTGLOB whose inside holds
    # a separator (added after seeded changes C05e — the directory to scan was normalised lexically — and C05f — the splitter
    # skipped `X(…)` groups with EXTGLOB off)
    def _odd_spec(R_):
        spec = [('plain', 'dir', ''), ('plain/jump', 'dir', ''), ('plain/jump/target', 'dir', ''), ('plain/jump/target/t1', 'file', ''),
                ('plain/jump/o2', 'file', ''), ('plain/o3', 'file', ''), ('o1', 'file', ''), ('link', 'link', 'plain/jump/target'),
                ('plain/back', 'link', '..'), ('@(a', 'dir', ''), ('@(a/b)', 'file', ''), ('@(a/c', 'file', ''), ('v(1', 'dir', ''),
                ('v(1/2)', 'file', ''), ('n+(d', 'dir', ''), ('n+(d/x).txt', 'file', ''), ('w!(n', 'dir', ''), ('w!(n/r)', 'file', ''),
                ('a', 'dir', ''), ('a/b', 'file', ''), ('ab', 'file', '')]
        keep = [e for e in spec if R_.random() < 0.93]
        have = {e[0] for e in keep}
        return [e for e in keep if '/' not in e[0] or e[0].rsplit('/', 1)[0] in have]

    ODD_PATS = ['link/../*', 'l*/../*', 'plain/jump/target/../../o*', 'link/..', 'link/../o*', 'link/../../*', '*/../*', 'link/./../*',
                'plain/back/*', 'plain/back/../*', 'link/../t1', 'link/../o2', 'link/t1', '**/../o*',
                '@(a/b)', 'v*(1/2)', 'n+(d/*).txt', 'w!(n/r)', '@(a/*', '?(a/b)', '*(a/b)', '@(a|a/b)', 'v?(1/2)', '[v]*(1/2)', '@(a/b)*']

    def _odd_cases(R_, t):
        out = []
        for p in R_.sample(ODD_PATS, 10 if quick else len(ODD_PATS)):
            fl = 0
            for nm, pr in (('GLOBSTAR', 0.5), ('EXTGLOB', 0.25), ('MARK', 0.15), ('DOTGLOB', 0.2), ('NODOTDIR', 0.1), ('MATCHBASE', 0.1)):
                if R_.random() < pr:
                    fl |= getattr(G, nm)
            out.append(K.Case(p, fl, None, R_.choice(['root_dir', 'root_dir', 'cwd', 'dir_fd'])))
        return out

    def s_k5odd(sr):
        sr.note = ('K5 on trees with a link whose target is not a sibling (`link/../x` is the parent of the TARGET), a link to `..`, '
                   'and names made of group-like text (`@(a/b)`, `v(1/2)`, `n+(d/x).txt`) searched with and without EXTGLOB')
        K.k5_loop(sr, drv, G, W, U, R, 12 if quick else 120, _odd_cases, on_case, spec_for=_odd_spec)
    if drv:
        ck.stream('K5-dotdot-after-link-and-group-text', s_k5odd)

    # names and patterns made of bracket text: a POSIX class, a leading `]`, `^` as negation, followed by group-like text that
    # holds the separator (added with the D34 repair: `glob('[[:digit:]@(]x/y)', EXTGLOB)` returned nothing for the file `1x/y)`)
    def _bracket_spec(R_):
        spec = [('1x', 'dir', ''), ('1x/y)', 'file', ''), ('1x/y', 'file', ''), (']x', 'dir', ''), (']x/y)', 'file', ''),
                ('@x', 'dir', ''), ('@x/y)', 'file', ''), (']', 'dir', ''), (']/b', 'file', ''), (']/y)', 'file', ''), ('a', 'dir', ''),
                ('a/b', 'file', ''), ('zx', 'dir', ''), ('zx/y', 'file', ''), ('zx/y)', 'file', ''), ('[!b', 'dir', ''), ('[!b/]', 'file', ''),
                ('-]', 'dir', ''), ('-]/b', 'file', ''), ('1', 'dir', ''), ('1/y', 'file', ''), ('1/y)', 'file', ''), ('(', 'dir', ''),
                ('(/y)', 'file', ''), ('ax', 'dir', ''), ('ax/y', 'file', ''), ('ax/y)', 'file', ''), ('-x', 'dir', ''), ('-x/y)', 'file', '')]
        keep = [e for e in spec if R_.random() < 0.95]
        have = {e[0] for e in keep}
        return [e for e in keep if '/' not in e[0] or e[0].rsplit('/', 1)[0] in have]

    BRACKET_PATS = [p for p in BRACKET_SPLIT_PATS if '\\' not in p] + ['[[:alnum:]]x/*', '[![:digit:]]x/y', '[^[:digit:]]x/y*', '[]1]*/y)']

    def _bracket_cases(R_, t):
        out = []
        for p in (R_.sample(BRACKET_PATS, 14) if quick else BRACKET_PATS):
            fl = 0
            for nm, pr in (('EXTGLOB', 0.75), ('GLOBSTAR', 0.3), ('MARK', 0.15), ('DOTGLOB', 0.2), ('MATCHBASE', 0.1)):
                if R_.random() < pr:
                    fl |= getattr(G, nm)
            out.append(K.Case(p, fl, None, R_.choice(['root_dir', 'root_dir', 'cwd', 'bytes'])))
        return out

    def s_k5bracket(sr):
        sr.note = ('K5 on trees whose names are bracket-and-group text (`1x/y)`, `]x/y)`, `[!b/]`, `-]/b`), searched with patterns whose '
                   'bracket holds a POSIX class, a leading `]`, `^`/`!` and is followed by `@(`…`/`…`)`; mostly with EXTGLOB')
        K.k5_loop(sr, drv, G, W, U, R, 10 if quick else 100, _bracket_cases, on_case, spec_for=_bracket_spec)
    if drv:
        ck.stream('K5-bracket-text', s_k5bracket)

    def s_search(sr):
        sr.note = 'set(glob.glob(p)) vs Spec.denoteTop on the same tree (one pattern, no exclusions)'
        sr.histogram = dict(stats)
        sr.evaluations = stats['compared']
        sr.distinct = stats['compared']
        for f in found:
            ck.report(f, None)
    ck.search('glob-vs-Denotes', s_search)

    if not quick:
        def on_bash_diff(t, p, fl, dotglob, glob_only, bash_only):
            """wcmatch vs Bash 5.2 on the shared syntax: two systematic differences are known"""
            def hidden(x):
                return any(c.startswith('.') and c not in ('.', '..') for c in x.split('/'))

            def through_link(x):
                cs = x.split('/')
                return any(os.path.islink(os.path.join(t.root, *cs[:j])) for j in range(1, len(cs)))
            ids = set()
            ok = True
            for x in glob_only:
                fx = os.path.join(t.root, x)
                if not os.path.lexists(fx) or not os.path.isdir(fx) and ('**' in p or p.endswith('/')) and \
                        any(os.path.lexists(os.path.join(t.root, *x.split('/')[:j])) and
                            not os.path.isdir(os.path.join(t.root, *x.split('/')[:j])) for j in range(1, len(x.split('/')) + 1)):
                    ids.add('KF-D17')    # `f/**` -> `f/`, `f/..` for a regular file f
                elif not dotglob and hidden(x):
                    ids.add('KF-B1')     # `*.*` / `*h` takes a hidden name in wcmatch (the dot is written), not in Bash
                else:
                    ok = False
            for x in bash_only:
                if '**' in p and through_link(x):
                    ids.add('KF-B2')     # Bash lets `**/` end on a symlinked directory and lists inside it
                else:
                    ok = False
            c = K.Case(p, fl, None, 'root_dir')
            f = Failing('glob differs from Bash 5.2 pathname expansion', {**c.to_json(G, t), 'dotglob': dotglob},
                        {'bash_only': sorted(bash_only)[:8]}, {'glob_only': sorted(glob_only)[:8]}, 'wcmatch/_wcparse.py:208 / wcmatch/glob.py:687')
            if ok and ids:
                for i in ids:
                    ck.report(f, i)
            else:
                found_bash.append(f)
        found_bash: list = []

        def s_bash(sr):
            bash_validation(sr, drv, G, W, U, common.rng('C05-bash'), 1500, on_bash_diff)
            for f in found_bash:
                ck.report(f, None)
        ck.search('Denotes-vs-bash(validation of the spec, not proof)', s_bash)
    if drv:
        drv.close()
    return ck.finish(assumptions=[
        'segment languages (C01-C03) are taken from the compiled per-part regex; the spec demands a full match of the name',
        'the Bash comparison validates the specification on the negation-free, empty-alternative-free fragment; it is not a proof'])


# ------------------------------------------------------------------ bash (thorough tier)

BASH_SEGS = ['*', '**', '?', 'a*', '*b', '[ab]', '[!a]', '@(a|b)', '+(a|b)', '?(a)b', '*(a)', '.*', '*.*', 'a', 'b', 'A', 'ab',
             'a.b', '.h', '.', '..', '[A-Z]', '??', '*h']


def bash_validation(sr, drv, G, W, U, R, ntrees, on_bash_diff=None):
    sr.note = ('Spec.denoteTop vs `bash -O globstar -O extglob [-O dotglob] -O globskipdots -O nullglob` on the same real '
               'trees (names restricted to a b A .h a.b ab; relative patterns; negation-free, empty-alternative-free). '
               'Known presentation differences are normalised: Bash prints `dir/` only when the pattern ends with `/`')
    diffs = 0
    for _ in range(ntrees):
        spec = [x for x in K._random_spec(R) if '\n' not in x[0] and '\\' not in x[0]]
        t = K.make_tree(R, spec)
        try:
            for _k in range(8):
                n = R.randint(1, 3)
                segs = [R.choice(BASH_SEGS) for _ in range(n)]
                p = '/'.join(segs) + ('/' if R.random() < 0.2 else '')
                if not any(ch in p for ch in '*?[(') or '..' in segs and False:
                    continue        # a word without a glob character is not expanded by Bash at all
                dotglob = R.random() < 0.3
                fl = G.GLOBSTAR | G.EXTGLOB | (G.DOTGLOB if dotglob else 0)
                opts = ['-O', 'globstar', '-O', 'extglob', '-O', 'nullglob', '-O', 'globskipdots'] + (['-O', 'dotglob'] if dotglob else [])
                try:
                    r = subprocess.run(['bash'] + opts + ['-c', 'cd "$1" && printf "%s\\0" ' + p, 'x', t.root],
                                       capture_output=True, timeout=10)
                except subprocess.TimeoutExpired:
                    continue
                if r.returncode != 0:
                    continue
                bash = {x for x in r.stdout.decode('utf-8', 'replace').split('\0') if x}
                pe, _ = K.expansions(W, U, G, p, fl, None)
                m = drv.ask(f'denotes {fl} 0 1 12 {t.enc} {t.cwd} {pe}')
                if not m.startswith('ok'):
                    continue
                den = {common.dec(x[1:]) for x in m.split(' ')[1:] if x}
                sr.evaluations += 1
                norm = lambda s: {x.rstrip('/') or x for x in s}  # noqa: E731
                # the property's own Bash clause: the REAL glob against bash, classified
                st, ev = K.run_real(G, t, p, fl, None, 'root_dir')
                real = {x for k, x in ev if k == 'y'} if st == 'ok' else None
                if real is not None and norm(real) != norm(bash) and on_bash_diff is not None:
                    on_bash_diff(t, p, fl, dotglob, norm(real) - norm(bash), norm(bash) - norm(real))
                if norm(bash) == norm(den):
                    sr.histogram['equal'] = sr.histogram.get('equal', 0) + 1
                    if bash:
                        sr.histogram['equal_nonempty'] = sr.histogram.get('equal_nonempty', 0) + 1
                else:
                    diffs += 1
                    sr.histogram['different'] = sr.histogram.get('different', 0) + 1
                    if len(sr.samples) < 40:
                        sr.samples.append({'pattern': p, 'dotglob': dotglob, 'tree': t.desc,
                                           'bash_only': sorted(norm(bash) - norm(den))[:6], 'spec_only': sorted(norm(den) - norm(bash))[:6]})
        finally:
            t.remove()
    sr.distinct = sr.evaluations


def replay(path: str) -> int:
    import json
    common.import_wcmatch()
    from wcmatch import glob as G
    data = json.load(open(path))
    for f in data.get('failing', []):
        i = f['input']
        t = K.make_tree(common.rng('replay'), [tuple(x) for x in i['tree']])
        try:
            st, ev = K.run_real(G, t, i['pattern'], i['flags_int'], i.get('exclude'), i.get('root', 'root_dir'))
            print('replayed:', st, [p for k, p in ev if k == 'y'][:40], 'expected', f.get('expected'))
        finally:
            t.remove()
    return 0

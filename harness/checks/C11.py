"""C11 — the pattern limit bounds expansion work in every API, default 1000.

Proof  : Properties/C11.lean — for each of the three loops (translate, compile_pattern,
         Glob._iter_patterns/_parse_patterns): raises / ok (= the result under limit 0) / work /
         zero-disables, FULL statements for every exclude= (the exclusion patterns and the inclusion
         patterns share ONE limit), over abstract bracex / split / per-pattern compiler; C11_defaults over
         the generated signatures; `D11_*_fixed_witness` / `D22_fixed_witness` of the two repaired defects
         (D11 exclude budget, D22 glob budget); `negative_limit_witness` (limit < 0: not in the property).
Tie    : K4 — every entry point x L in {1,2,3,5,32,33,1000,1001} x pattern sets with known
         expansion counts around the boundary: outcome, number of items pulled from bracex, the
         arguments of every bracex call, regex texts, compared with the Lean loops; limit 0 and
         negative limits with exclude= and several brace patterns; generated defaults.
Search : the same calls against the property itself (raise iff / work bound / limit 0 / default);
         the witnesses of the repaired D11 / D22 replayed on every entry point of their loops —
         a reproduction is a VIOLATION (nothing is attributed to a finding any more).
"""
from __future__ import annotations
import warnings

import common
import k4_lists as K
from framework import Check, Failing

warnings.simplefilter('ignore')

TARGETS = ['WcModel.Properties.C11']
LIMITS = [1, 2, 3, 5, 32, 33, 1000, 1001]
HUGE = 100000000

# the recorded witnesses of the repaired defects: (id, loops, patterns, exclude, limit, outcome the property demands)
FIXED_WITNESSES = [
    ('KF-D11', ('tr', 'cp'), ['{a,b,c,d,e,f,g,h}'], ['x', 'y', 'z'], 3, 'PatternLimit'),     # 11 patterns, limit 3
    ('KF-D11', ('tr', 'cp'), ['a', '{b,c}'], ['x'], 0, 'ok'),                                # limit=0 disables
    ('KF-D11', ('tr', 'cp'), ['{a,b,c}', '{d,e}', '{f,g,h,i}'], ['{x,y}', '{z,w}'], 0, 'ok'),
    ('KF-D11', ('tr', 'cp'), ['a', 'b', 'c'], ['x', 'y', 'z'], 3, 'PatternLimit'),           # budget 0, no brace at all
    ('KF-D11', ('tr', 'cp'), ['a'], ['x', 'y', 'z', 'w'], 3, 'PatternLimit'),                # budget negative
    ('KF-D11', ('tr', 'cp'), ['{a,b,c,d,e,f,g,h}'], ['x', 'y', 'z'], 11, 'ok'),              # exactly the limit
    ('KF-D11', ('tr', 'cp'), ['{a,b,c,d,e,f,g,h}'], ['x', 'y', 'z'], 10, 'PatternLimit'),
    ('KF-D22', ('gl',), ['a', 'b', 'c'], ['x', 'y', 'z'], 3, 'PatternLimit'),                # 6 patterns, limit 3
    ('KF-D22', ('gl',), ['a', 'b', 'c'], ['x', 'y', 'z'], 5, 'PatternLimit'),
    ('KF-D22', ('gl',), ['a', 'b', 'c'], ['x', 'y', 'z'], 6, 'ok'),
    ('KF-D22', ('gl',), ['{a,b,c}'], ['{x,y,z}'], 5, 'PatternLimit'),
    ('KF-D22', ('gl',), ['{a,b,c}'], ['{x,y,z}'], 0, 'ok'),
]
FIXED_SITE = {'KF-D11': 'wcmatch/_wcparse.py:621-635 (translate), 710-723 (compile_pattern): used / total / current_limit',
              'KF-D22': 'wcmatch/glob.py:482-500 (self.total shared by the two _iter_patterns calls)'}


def mk(n: int, style: str, tag: str) -> str:
    """a pattern whose BRACE expansion has exactly n items (n >= 1)"""
    if n == 1:
        return tag + 'q'
    if style == 'set':
        return '{' + ','.join(f'{tag}{i}' for i in range(n)) + '}'
    if style == 'nested' and n >= 4:
        a = n // 2
        return tag + '{{1..%d},x{1..%d}}' % (a, n - a)
    if style == 'prod' and n >= 4 and n % 2 == 0:
        return tag + '{1..%d}_{a,b}' % (n // 2)
    return tag + '{1..%d}' % n


def pieces_of(W, pats, flags):
    """complete expansion (braces -> split), duplicates included, by the real components; only for
    expansions that are small enough to materialise"""
    import bracex
    out = []
    for p in pats:
        items = list(bracex.iexpand(p, keep_escapes=True, limit=0)) if flags & W.BRACE else [p]
        for it in items:
            out.extend(W.WcSplit(it, flags).split() if flags & W.SPLIT else [it])
    return out


def split_counts(T: int, k: int, R):
    """T as a sum of k positive parts (T >= k)"""
    cuts = sorted(R.sample(range(1, T), k - 1)) if k > 1 else []
    parts = [b - a for a, b in zip([0] + cuts, cuts + [T])]
    return parts


def scenarios(w: K.World, tier: str, R):
    """yield dict(api, pats, excl, flags, limit, isb, known, note)"""
    W, F, G, WM = w.W, w.F, w.G, w.WM
    styles = ['set', 'range', 'nested', 'prod']
    for api in K.APIS:
        mod = {'fnmatch': F, 'glob': G, 'pathlib': G, 'wcmatch': WM}[api.module]
        BR = mod.BRACE
        for L in LIMITS:
            reps = 1 if (tier == 'quick' and L >= 1000) else (2 if tier == 'quick' else 5)
            for T in (L - 1, L, L + 1):
                if T < 1:
                    continue
                for rep in range(reps):
                    if api.name == 'wcmatch.WcMatch':
                        # one string: P|q1..qj|!e1..: braces multiply with the other pieces
                        j = R.choice([0, 1, 2]) if T % 2 == 0 or T % 3 == 0 else 0
                        if j and T % (j + 1):
                            j = 0
                        c = T // (j + 1)
                        neg = R.random() < 0.5 and j > 0
                        parts = [mk(c, R.choice(styles), 'i')] + [('!' if neg and i == 0 else '') + f'o{i}' for i in range(j)]
                        yield dict(api=api, pats=['|'.join(parts)], excl=None, flags=BR | R.choice([0, WM.FILEPATHNAME]),
                                   limit=L, isb=False, known=None, note=f'T={T}')
                        continue
                    m = R.choice([0, 0, 1, 2]) if T >= 2 else 0
                    k = R.choice([1, 2, 3])
                    while k + m > T:
                        if k > 1:
                            k -= 1
                        else:
                            m -= 1
                    parts = split_counts(T, k + m, R)
                    pats = [mk(c, R.choice(styles), f'i{n}') for n, c in enumerate(parts[:k])]
                    ex = [mk(c, R.choice(styles), f'e{n}') for n, c in enumerate(parts[k:])]
                    inline = m > 0 and R.random() < 0.35
                    flags = BR
                    excl = ex if m else None
                    if inline:
                        flags |= mod.NEGATE
                        pats = pats + ['!' + e for e in ex]
                        excl = None
                    if R.random() < 0.25 and api.module != 'pathlib':
                        flags |= mod.SPLIT
                    isb = R.random() < 0.2 and api.module != 'pathlib'
                    yield dict(api=api, pats=pats, excl=excl, flags=flags, limit=L, isb=isb, known=None, note=f'T={T}')
            # plain pattern LISTS, no flag that could expand anything (added after seeded change C11g: compile_pattern switched the limit
            # off when neither BRACE nor SPLIT was set): the list itself — with exclude= / inline exclusions — exceeds the limit or not
            if api.name != 'wcmatch.WcMatch' and (L <= 33 or tier != 'quick' or api.name in ('fnmatch.fnmatch', 'glob.globmatch')):
                for T in (L, L + 1):
                    yield dict(api=api, pats=[f'p{i}*' for i in range(T)], excl=None, flags=0, limit=L, isb=False, known=None, note=f'plain-list T={T}')
                    if T >= 2:
                        m = max(1, T // 3)
                        yield dict(api=api, pats=[f'p{i}*' for i in range(T - m)], excl=[f'x{i}' for i in range(m)], flags=0, limit=L,
                                   isb=R.random() < 0.3 and api.module != 'pathlib', known=None, note=f'plain-list+excl T={T}')
                        yield dict(api=api, pats=[f'p{i}*' for i in range(T - m)] + [f'!x{i}' for i in range(m)], excl=None, flags=mod.NEGATE,
                                   limit=L, isb=False, known=None, note=f'plain-list+inline T={T}')
            # NODIR appends a no-directory regex to the exclusions — it is not a pattern and must not be counted (added after seeded change
            # C11j: Glob derived its running total from the stored lists, so with NODIR the exclude= pass started one too high)
            if api.module in ('glob', 'pathlib') and L >= 2 and (L <= 33 or tier != 'quick'):
                for T in (L - 1, L, L + 1):
                    k1 = max(1, T - max(1, T // 2))
                    yield dict(api=api, pats=[mk(k1, R.choice(styles), 'n')], excl=[mk(T - k1, 'set', 'm')] if T - k1 >= 1 else None,
                               flags=BR | w.G.NODIR, limit=L, isb=False, known=None, note=f'NODIR+excl T={T}')
                    yield dict(api=api, pats=[mk(k1, 'range', 'n')] + (['!' + mk(T - k1, 'set', 'm')] if T - k1 >= 1 else []), excl=None,
                               flags=BR | w.G.NODIR | w.G.NEGATE, limit=L, isb=False, known=None, note=f'NODIR+inline T={T}')
            # duplicates: total L+1, distinct 1
            if api.name != 'wcmatch.WcMatch' and L <= 33:
                yield dict(api=api, pats=['dup'] * (L + 1), excl=None, flags=BR, limit=L, isb=False, known=None, note='dups')
                yield dict(api=api, pats=['{' + ','.join(['d'] * (L + 1)) + '}'], excl=None, flags=BR, limit=L, isb=False,
                           known=None, note='dups-brace')
            # SPLIT after BRACE: k items x 2 pieces, duplicates of the constant piece
            if api.module != 'pathlib':
                kk = max(1, L // 2)
                p = 's{1..%d}|c' % kk if kk > 1 else 's1|c'
                yield dict(api=api, pats=[p], excl=None, flags=BR | (0 if api.module == 'wcmatch' else mod.SPLIT), limit=L,
                           isb=False, known=None, note='brace-then-split')
            # must fail fast: huge expansions (only where the effective limit stays positive)
            big = '{1..%d}' % (L * 1000)
            huge = '{1..%d}' % HUGE
            known = {big: L * 1000, huge: HUGE, 'a' + huge: HUGE}
            yield dict(api=api, pats=[big], excl=None, flags=BR, limit=L, isb=False, known=known, note='L*1000')
            yield dict(api=api, pats=[huge], excl=None, flags=BR, limit=L, isb=False, known=known, note='huge')
            if api.name != 'wcmatch.WcMatch' and L >= 3:
                yield dict(api=api, pats=['a', 'a' + huge], excl=['x'], flags=BR, limit=L, isb=False, known=known, note='huge+excl')
            # (was D11 territory) as many exclusions as the limit (small expansions only!)
            if api.name != 'wcmatch.WcMatch' and L <= 33:
                yield dict(api=api, pats=[mk(L + 5, 'range', 'i')], excl=[f'x{i}' for i in range(L)], flags=BR, limit=L,
                           isb=False, known=None, note='excl=L')
                yield dict(api=api, pats=[f'a{i}' for i in range(L)], excl=[f'x{i}' for i in range(L)], flags=BR, limit=L,
                           isb=False, known=None, note='L+L')
            # --- the same boundary on the EXCLUSION list (every list the limit is passed on to, and their sum)
            if api.name != 'wcmatch.WcMatch':
                for E in (L - 1, L, L + 1):
                    if E < 1:
                        continue
                    yield dict(api=api, pats=['a'], excl=[mk(E, R.choice(['range', 'set']), 'e')], flags=BR, limit=L, isb=False,
                               known=None, note=f'excl-side E={E}')
                    if L <= 33:
                        yield dict(api=api, pats=['a'], excl=[f'x{i}' for i in range(E)], flags=BR, limit=L, isb=False,
                                   known=None, note=f'excl-side-list E={E}')
                # the budget is used up exactly, then another brace pattern follows (current_limit must stay >= 1)
                bigk = {big: L * 1000}
                yield dict(api=api, pats=[mk(L, 'range', 'i'), '{a,b}'], excl=None, flags=BR, limit=L, isb=False, known=None,
                           note='exact-then-brace')
                yield dict(api=api, pats=[mk(L, 'range', 'i'), big], excl=None, flags=BR, limit=L, isb=False, known=bigk,
                           counts=dict(total=L + L * 1000, distinct=L + L * 1000, excl_total=0, excl_distinct=0),
                           note='exact-then-big')
                yield dict(api=api, pats=[mk(L, 'set', 'i')], excl=['{a,b}'], flags=BR, limit=L, isb=False, known=None,
                           note='exact-then-brace-excl')
                if L >= 2:
                    yield dict(api=api, pats=[mk(L - 1, 'range', 'i'), 'x', '{a,b}'], excl=None, flags=BR, limit=L, isb=False,
                               known=None, note='exact-then-brace-3')
        # limits on the far side of the default (a call must use ITS limit everywhere, not the default)
        if api.name != 'wcmatch.WcMatch':
            yield dict(api=api, pats=['a'], excl=[mk(1500, 'range', 'e')], flags=BR, limit=2000, isb=False, known=None,
                       note='limit2000 excl=1500')
            yield dict(api=api, pats=['a'], excl=[mk(1500, 'range', 'e')], flags=BR, limit=0, isb=False, known=None,
                       note='limit0 excl=1500')
            yield dict(api=api, pats=['a'], excl=[mk(1200, 'range', 'e')], flags=BR, limit=None, isb=False, known=None,
                       note='default excl=1200')
        yield dict(api=api, pats=[mk(1500, 'range', 'i')], excl=None, flags=BR, limit=2000, isb=False, known=None, note='limit2000')
        # limit = 0 disables
        yield dict(api=api, pats=[mk(1500, 'range', 'z')], excl=None, flags=BR, limit=0, isb=False, known=None, note='limit0')
        if api.name != 'wcmatch.WcMatch':
            yield dict(api=api, pats=['a', mk(3, 'set', 'z')], excl=['x'], flags=BR, limit=0, isb=False, known=None, note='limit0+excl')
            yield dict(api=api, pats=[mk(3, 'set', 'z')], excl=['x'], flags=BR, limit=0, isb=False, known=None, note='limit0+excl-single')
            # limit = 0 / a negative limit with exclude= AND several brace patterns on both sides
            zb = [mk(3, 'set', 'z'), mk(4, 'range', 'y'), mk(2, 'set', 'v')]
            yield dict(api=api, pats=zb, excl=[mk(2, 'set', 'x'), mk(3, 'range', 'w')], flags=BR, limit=0, isb=False, known=None,
                       note='limit0+excl-braces')
            yield dict(api=api, pats=zb, excl=None, flags=BR, limit=0, isb=False, known=None, note='limit0-braces')
            yield dict(api=api, pats=zb, excl=['x', 'x', 'y'], flags=BR, limit=0, isb=False, known=None, note='limit0+excl-dups')
            # negative limits (not in the property: tie only — one brace pattern passes, a second one hits the clamp)
            for NL in (-1, -3):
                yield dict(api=api, pats=['a', mk(2, 'set', 'n')], excl=None, flags=BR, limit=NL, isb=False, known=None,
                           note='neg-limit')
                yield dict(api=api, pats=[mk(8, 'range', 'n')], excl=['x'], flags=BR, limit=NL, isb=False, known=None,
                           note='neg-limit+excl')
                yield dict(api=api, pats=['a', mk(2, 'set', 'n')], excl=['x', mk(2, 'set', 'm')], flags=BR, limit=NL, isb=False,
                           known=None, note='neg-limit+excl-braces')
        else:
            yield dict(api=api, pats=[mk(3, 'set', 'n')], excl=None, flags=BR, limit=-1, isb=False, known=None, note='neg-limit')
        # the default
        for T in (999, 1000, 1001):
            yield dict(api=api, pats=[mk(T, 'range', 'd')], excl=None, flags=BR, limit=None, isb=False, known=None, note=f'default T={T}')


def verdict(w: K.World, sc: dict, real: dict):
    """the property on one call → (ok?, what, trigger facts)"""
    W = w.W
    api = sc['api']
    L = 1000 if sc['limit'] is None else sc['limit']
    iflags, _ = w.internal(api, sc['flags'], sc['excl'] is not None)
    lflags = iflags
    if api.loop == 'gl':
        lflags = w.G._flag_transform(iflags | W.REALPATH)
    huge = sc['note'] in ('L*1000', 'huge', 'huge+excl')
    facts = {}
    if sc.get('counts'):
        total, distinct = sc['counts']['total'], sc['counts']['distinct']
        tot_e, dis_e = sc['counts']['excl_total'], sc['counts']['excl_distinct']
    elif huge:
        n = {'L*1000': L * 1000, 'huge': HUGE, 'huge+excl': HUGE + 2}[sc['note']]
        total = distinct = n
        tot_e = dis_e = 1 if sc['note'] == 'huge+excl' else 0
    else:
        inc = pieces_of(W, sc['pats'], lflags)
        exc = pieces_of(W, sc['excl'], lflags) if sc['excl'] is not None else []
        total = len(inc) + len(exc)
        distinct = len(set(inc)) + len(set(exc))
        tot_e, dis_e = len(exc), len(set(exc))
    facts.update(total=total, distinct=distinct, excl_total=tot_e, excl_distinct=dis_e, L=L)
    raised = real['kind'] == 'PatternLimit'
    if real['kind'] not in ('ok', 'PatternLimit'):
        return False, f"unexpected outcome {real['kind']}", facts
    if L == 0:
        if raised:
            return False, 'limit=0 must disable the check, but PatternLimitException was raised', facts
        return True, '', facts
    if L < 0:
        return True, '', facts      # the property says nothing about negative limits (Properties/C11.negative_limit_witness)
    if distinct > L and not raised:
        return False, f'{distinct} distinct patterns after expansion > limit {L}, but no PatternLimitException', facts
    if total <= L and raised:
        return False, f'total expansion count {total} <= limit {L}, but PatternLimitException was raised', facts
    # translate / compile_pattern: the exclude= call counts its duplicates, the main loop goes on from the number of
    # distinct exclusions (C11_work_translate / _compile); Glob counts both lists in one total: L + 1 (C11_work_glob)
    slack = 0 if api.loop == 'gl' else tot_e - dis_e
    if sc['flags'] & w.F.BRACE and real['pulls'] > L + 1 + slack:
        return False, f"{real['pulls']} items pulled from bracex, more than L+1 = {L + 1}" + (f' (+{slack} duplicate exclusions)' if slack else ''), facts
    # bounded work: bracex treats limit=0 (or negative) as "no limit", so under a positive limit every
    # bracex.iexpand call must get a budget in 1..L (Properties/C11.C11_brace_budget)
    if sc['flags'] & w.F.BRACE:
        for k, (text, arg) in enumerate(real.get('bcalls') or []):
            if not (1 <= arg <= L):
                facts['bracex_call'] = {'index': k, 'string': text[:60], 'limit_argument': arg}
                return False, (f'bracex.iexpand call #{k} ({text[:40]!r}) was given limit={arg} under a pattern limit of {L}: '
                               'the expansion is unbounded / not bounded by the limit'), facts
    return True, '', facts


# (KF-D11 — `limit -= len(negative)` in translate / compile_pattern — and KF-D22 — `total` re-initialised for Glob's
#  exclusion list — are repaired: a failing input with exclude= is no longer attributed to anything.)


def run(ck: Check) -> int:
    ck.build()
    ck.audit()
    w = K.World()
    drv = common.Driver() if ck.driver_ok else None
    R = common.rng('C11')
    records = []

    def s_k4(sr):
        sr.note = ('K4: every entry point (fnmatch/filter/translate/compile, globmatch/globfilter/translate/compile, glob, iglob, '
                   'pathlib match/globmatch/glob/rglob, WcMatch) x L in {1,2,3,5,32,33,1000,1001} x 1-3 inclusion and 0-2 exclusion '
                   'patterns (exclude= or inline !) from nested brace sets/ranges/products and | splits with total counts L-1, L, '
                   'L+1, L*1000, 10^8, duplicates, limit=0, default limit; compared with the Lean loops: outcome kind, items pulled '
                   'from bracex.iexpand (wrapped), the (string, limit) ARGUMENTS of every bracex.iexpand call vs the model\'s '
                   'current_limit trace, regex texts / number of glob patterns; the same boundary grid on the exclusion list, '
                   'limits on both sides of the default, and "budget used up exactly, then another brace pattern"')
        seen = set()
        for sc in scenarios(w, ck.tier, R):
            api = sc['api']
            try:
                with common.time_limit(60):
                    real = w.call(api, sc['pats'], sc['excl'], sc['flags'], sc['limit'], sc['isb'])
            except common.CallTimeout:
                real = {'kind': 'timeout(60s)', 'pulls': w.pulls.n, 'pos': None, 'neg': None, 'bits': None}
            if real['kind'].startswith('timeout'):
                # a loaded machine, not a verdict (the scenarios are sized to finish in well under a second)
                sr.histogram['real-call-timeout (not a verdict)'] = sr.histogram.get('real-call-timeout (not a verdict)', 0) + 1
                continue
            mod, line = w.model(drv, api, sc['pats'], sc['excl'], sc['flags'], sc['limit'], sc['isb'], (), sc['known'],
                                want_args=True)
            sr.evaluations += 1
            seen.add((api.name, tuple(sc['pats']), tuple(sc['excl'] or ()), sc['excl'] is None, sc['flags'], sc['limit'], sc['isb']))
            d = K.compare(api, real, mod, bool(sc['flags'] & w.F.BRACE))
            key = f"{real['kind']}"
            sr.histogram[key] = sr.histogram.get(key, 0) + 1
            sr.histogram['api:' + api.name] = sr.histogram.get('api:' + api.name, 0) + 1
            if d:
                sr.disagree({'stream': 'K4', 'api': api.name, 'pats': [p[:60] for p in sc['pats']][:4],
                             'excl': sc['excl'] and [p[:60] for p in sc['excl']][:4], 'flags': sc['flags'], 'limit': sc['limit'],
                             'bytes': sc['isb'], 'note': sc['note'], 'difference': d, 'real_pulls': real['pulls'],
                             'model_pulls': mod.get('pulls')})
            elif len(sr.samples) < 3 and real['kind'] == 'PatternLimit' and sc['excl']:
                sr.samples.append({'api': api.name, 'pats': sc['pats'][:3], 'excl': sc['excl'][:3], 'limit': sc['limit'],
                                   'outcome': real['kind'], 'pulls': real['pulls']})
            records.append((sc, real, d is None))
        sr.distinct = len(seen)
    if drv is not None:
        ck.stream('K4-limit', s_k4)

    def s_defaults(sr):
        sr.note = 'inspect.signature default of limit= for every public entry point (independent of extract.py) is 1000'
        import inspect
        from wcmatch import fnmatch as F, glob as G, pathlib as P, wcmatch as WM, _wcparse as W
        fns = [F.fnmatch, F.filter, F.translate, F.compile, G.globmatch, G.globfilter, G.translate, G.compile, G.glob, G.iglob,
               G.Glob.__init__, P.PurePath.match, P.PurePath.globmatch, P.PurePath.full_match, P.Path.glob, P.Path.rglob,
               WM.WcMatch.__init__, W.translate, W.compile, W.compile_pattern]
        for fn in fns:
            sr.evaluations += 1
            dflt = inspect.signature(fn).parameters['limit'].default
            sr.histogram[str(dflt)] = sr.histogram.get(str(dflt), 0) + 1
            if dflt != 1000:
                ck.report(Failing(f'default limit of {fn.__qualname__} is {dflt}, not 1000',
                                  {'function': fn.__module__ + '.' + fn.__qualname__}, 1000, dflt))
        sr.distinct = len(fns)
    ck.search('limit-defaults', s_defaults)

    def s_prop(sr):
        sr.note = ('the property on every K4 call: more than L distinct patterns after expansion => PatternLimitException; total '
                   'count <= L => none; items pulled from bracex <= L+1 (+ duplicates inside exclude=); every bracex.iexpand call gets a '
                   'budget in 1..L (never 0 = unlimited); limit=0 => none; default = 1000')
        judged = []
        for sc, real, _agree in records:
            sr.evaluations += 1
            ok, what, facts = verdict(w, sc, real)
            tag = 'holds' if ok else 'FAILS'
            sr.histogram[tag] = sr.histogram.get(tag, 0) + 1
            judged.append((ok, what, facts, sc, real))
        for ok, what, facts, sc, real in judged:
            if not ok:
                ck.report(Failing(f"{sc['api'].name}: {what}",
                                  {'api': sc['api'].name, 'patterns': [p[:80] for p in sc['pats']][:6],
                                   'exclude': sc['excl'] and [p[:80] for p in sc['excl']][:6], 'flags': sc['flags'],
                                   'limit': sc['limit'], 'bytes': sc['isb'], 'facts': facts},
                                  'see what', f"{real['kind']} pulls={real['pulls']}",
                                  site='wcmatch/_wcparse.py:621-652,710-740; wcmatch/glob.py:482-515'))
            elif len(sr.samples) < 3 and real['kind'] == 'PatternLimit':
                sr.samples.append({'api': sc['api'].name, 'limit': sc['limit'], 'facts': facts, 'outcome': real['kind'],
                                   'pulls': real['pulls']})
        sr.distinct = len(records)
    ck.search('limit-property', s_prop)

    def s_empty(sr):
        # "for every entry point, a call whose patterns exceed L raises" also when there is nothing to match against (added after seeded
        # change C11h: filter / globfilter returned [] for an empty name collection before looking at the patterns)
        F, G = w.F, w.G
        sr.note = ('calls with an EMPTY name collection ([], (), an empty iterator) or an empty name, patterns exceeding the limit (brace set, '
                   'plain list, exclude=) x limits {1, 2, 10, default} x filter / globfilter / fnmatch / globmatch / compile().filter: PatternLimitException')
        for L in (1, 2, 10, None):
            n = (1000 if L is None else L) + 1
            kw = {} if L is None else {'limit': L}
            for pats, fl, ex in ((['{1..%d}' % n], 'BRACE', None), ([f'p{i}' for i in range(n)], '', None),
                                 (['a'], 'BRACE', ['{1..%d}' % n]), ([f'p{i}' for i in range(n - 1)], '', ['x'])):
                if L is None and not fl and len(pats) > 100:
                    pass
                for label, call in (
                        ('fnmatch.filter([])', lambda: F.filter([], pats, flags=getattr(F, fl, 0) if fl else 0, exclude=ex, **kw)),
                        ('fnmatch.filter(())', lambda: F.filter((), pats, flags=getattr(F, fl, 0) if fl else 0, exclude=ex, **kw)),
                        ('fnmatch.filter(iter(()))', lambda: F.filter(iter(()), pats, flags=getattr(F, fl, 0) if fl else 0, exclude=ex, **kw)),
                        ("fnmatch.fnmatch('')", lambda: F.fnmatch('', pats, flags=getattr(F, fl, 0) if fl else 0, exclude=ex, **kw)),
                        ('glob.globfilter([])', lambda: G.globfilter([], pats, flags=getattr(G, fl, 0) if fl else 0, exclude=ex, **kw)),
                        ('glob.globfilter(())', lambda: G.globfilter((), pats, flags=getattr(G, fl, 0) if fl else 0, exclude=ex, **kw)),
                        ("glob.globmatch('')", lambda: G.globmatch('', pats, flags=getattr(G, fl, 0) if fl else 0, exclude=ex, **kw)),
                        ('glob.globfilter([], REALPATH)', lambda: G.globfilter([], pats, flags=(getattr(G, fl, 0) if fl else 0) | G.REALPATH, exclude=ex, **kw))):
                    sr.evaluations += 1
                    try:
                        out = call()
                        ck.report(Failing(f'{label}: {n} patterns > limit {L if L is not None else "default 1000"}, but no PatternLimitException',
                                          {'api': label, 'patterns': [p[:40] for p in pats][:4], 'n_patterns': len(pats), 'exclude': ex and [e[:40] for e in ex],
                                           'flags': fl, 'limit': L}, 'PatternLimitException', repr(out)[:80]))
                        sr.histogram['FAILS'] = sr.histogram.get('FAILS', 0) + 1
                    except w.W.PatternLimitException:
                        sr.histogram['raises'] = sr.histogram.get('raises', 0) + 1
        sr.distinct = sr.evaluations
    ck.search('limit-empty-inputs', s_empty)

    # repaired defects: their old witnesses must NOT reproduce (a reproduction is an unattributed violation)
    def s_fixed(sr):
        sr.note = ('the witnesses of the repaired D11 (translate / compile_pattern: exclude= used up the budget — no exception for '
                   '3 + 8 patterns under limit 3; limit=0 raised) and D22 (Glob counted the two lists separately), and the '
                   'boundary of the shared limit around them, replayed on the real code through EVERY entry point of their loop '
                   '(str and bytes): outcome demanded by the property, and no bracex call with a budget outside 1..L')
        for kid, loops, pats, excl, L, want in FIXED_WITNESSES:
            for api in K.APIS:
                if api.loop not in loops or api.name == 'wcmatch.WcMatch':
                    continue
                mod = {'fnmatch': w.F, 'glob': w.G, 'pathlib': w.G}[api.module]
                for isb in ((False, True) if api.module != 'pathlib' else (False,)):
                    real = w.call(api, pats, excl, mod.BRACE, L, isb)
                    sr.evaluations += 1
                    bad_arg = [(t, a) for t, a in (real.get('bcalls') or []) if L > 0 and not (1 <= a <= L)]
                    ok = real['kind'] == want and not bad_arg
                    key = f'{kid} fixed witness ' + ('holds' if ok else 'REPRODUCED: the defect is back')
                    sr.histogram[key] = sr.histogram.get(key, 0) + 1
                    if not ok:
                        ck.report(Failing(f'repaired defect {kid} is back: {api.name}({pats}, exclude={excl}, BRACE, limit={L}) -> '
                                          f"{real['kind']}" + (f', bracex budgets {bad_arg}' if bad_arg else ''),
                                          {'api': api.name, 'patterns': pats, 'exclude': excl, 'flags': mod.BRACE, 'limit': L,
                                           'bytes': isb}, want, f"{real['kind']} pulls={real['pulls']}", FIXED_SITE[kid]), None)
        sr.distinct = sr.evaluations
    ck.search('fixed-witnesses', s_fixed)
    if drv is not None:
        drv.close()
    w.close()
    return ck.finish(assumptions=[
        'bracex is a parameter of the model; its contract (Spec/Lists.BraceOK) is met by the real bracex 3.0.1 (count checked before '
        'anything is yielded) and by a fully lazy generator; the harness feeds the real expansions and counts to the driver',
        'WcMatch compiles its file pattern and its folder-exclude pattern in two separate calls, each with the full limit',
    ])


def replay(path: str) -> int:
    import json
    w = K.World()
    data = json.load(open(path))
    for f in data.get('failing', []):
        i = f['input']
        if 'api' not in i:
            print('replay:', f['what'])
            continue
        api = K.API_BY_NAME[i['api']]
        real = w.call(api, i['patterns'], i['exclude'], i['flags'], i['limit'], i['bytes'])
        print('replayed:', i['api'], 'limit', i['limit'], 'facts', i.get('facts'), '->', real['kind'], 'pulls', real['pulls'])
    w.close()
    return 0
